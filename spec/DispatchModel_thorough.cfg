SPECIFICATION Spec
CONSTANTS
  MaxResp = 2
  MaxRecv = 2
  MaxOps = 5
  Rich = FALSE
INVARIANT OneShotOnce
INVARIANT FiredOneShotIsFreed
INVARIANT EachOnce
INVARIANT OrdConsistent
PROPERTY FreedNeverFires
PROPERTY DisabledNeverFires
PROPERTY OrderIsRegistrationOrder
PROPERTY NoRemovalDuringDelivery
PROPERTY NoPrefixMatch
