SPECIFICATION Spec
CONSTANTS
  MaxResp = 2
  MaxRecv = 2
  MaxOps = 5
  Mode = "base+"
INVARIANT SpentNotEnabled
INVARIANT EachOnce
INVARIANT OrdConsistent
PROPERTY FreedNeverFires
PROPERTY DisabledNeverFires
PROPERTY SpentNeverFires
PROPERTY FiredOneShotGone
PROPERTY OrderIsRegistrationOrder
PROPERTY NoRemovalDuringDelivery
PROPERTY FaultTransparent
PROPERTY SpecIsLegal
PROPERTY NoPrefixMatch
PROPERTY UntouchedFireOnce
PROPERTY NextDatagramProcessed
PROPERTY HostileChangesNothing
PROPERTY ArityTransparent
