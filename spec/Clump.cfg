SPECIFICATION Spec
CONSTANTS
  Sizes = {1, 2, 4, 9}
  MaxLen = 6
  Limit = 10
  Header = 2
  Prefix = 1
INVARIANT InvExactlyOnceInOrder
INVARIANT InvEmptyOnlyBeforeHuge
INVARIANT InvBelowLimit
