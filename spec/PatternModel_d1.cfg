SPECIFICATION Spec
CONSTANTS
  NV = 12
  Mode = "d1"
  NS = 0
  NB = 64
INVARIANT LawsHold
INVARIANT DefinedOnly
INVARIANT Immutable
