SPECIFICATION Spec
CONSTANTS
  QMode = "keyed"
  ProgSel = 7
  MaxLen = 2
  MaxSteps = 3
  MaxTime = 24
CONSTRAINT Bound
INVARIANT InvStackRestored
INVARIANT InvNoRunning
INVARIANT InvDoneRaisesStop
INVARIANT InvPausedRaises
INVARIANT InvSelfOpsRefused
INVARIANT InvNextReturnsYielded
INVARIANT InvTransitionTable
INVARIANT InvWake
PROPERTY StepLaws
