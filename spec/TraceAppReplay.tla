-------------------------- MODULE TraceAppReplay --------------------------
(* S->C for C08: each behaviour of AppClockRT (TLC -simulate) was replayed step by step on the real AppClock
   under the controlled scheduler; after every model action the driver recorded the projected real state
   next to the model state.  This module compares them: queue contents in order, whether the clock thread
   sleeps and until when, every wake-up (task, scheduled time, physical time), and the time.
   A mismatch is model drift (the model no longer describes the code's protocol), reported as such.      *)
EXTENDS Naturals, Integers, Sequences, TLC, Json, IOUtils
Traces == JsonDeserialize(IOEnv.VERIF_TRACES)
VARIABLES tid, l
Q(m) == [i \in 1..Len(m.q) |-> <<m.q[i].p, m.q[i].t>>]
RQ(r) == [i \in 1..Len(r.q) |-> <<r.q[i][1], r.q[i][2]>>]
W(x) == [i \in 1..Len(x) |-> <<x[i].t, x[i].time, x[i].at>>]
Why(e) ==
    IF e.act = "ABORT" THEN "abort"
    ELSE IF e.model.now # e.real.now THEN "now"
    ELSE IF Q(e.model) # RQ(e.real) THEN "queue"
    ELSE IF (e.model.cpc = "wait") # e.real.waiting THEN "sleeping"
    ELSE IF e.real.waiting /\ e.model.dl # e.real.dl THEN "deadline"
    ELSE IF W(e.model.woken) # W(e.real.woken) THEN "woken"
    ELSE "ok"
TInit == tid \in 1..Len(Traces) /\ l = 1
TStep == /\ l >= 1 /\ l <= Len(Traces[tid].ev)
         /\ LET w == Why(Traces[tid].ev[l]) IN
            IF w = "ok" THEN l' = l + 1 /\ tid' = tid
            ELSE PrintT(<<"REJ", Traces[tid].id, l, w>>) /\ l' = 0 /\ tid' = tid
TDone == /\ l = Len(Traces[tid].ev) + 1 /\ PrintT(<<"ACC", Traces[tid].id>>) /\ l' = 0 - 1 /\ tid' = tid
TSpec == TInit /\ [][TStep \/ TDone]_<<tid, l>>
=============================================================================
