-------------------------- MODULE TimeModelExport --------------------------
(* S->C for C05/C10: TLC enumerates the bounded program space of TimeModel and prints every program as
   JSON; the harness runs each of them on the real library (NRT and RT under the controlled scheduler) and
   validates the executions with TraceTime / TracePair.  The program space itself comes from the spec. *)
EXTENDS TimeModel, Json
EInit == /\ prog \in Programs /\ st = Main(Init0(prog), prog, "rt", 1)
         /\ PrintT(<<"PROG", ToJson(prog)>>)
ENext == FALSE /\ UNCHANGED vars
ESpec == EInit /\ [][ENext]_vars
=============================================================================
