SPECIFICATION TSpec
