-------------------------------- MODULE Osc --------------------------------
(* C06 (and the datagram classification used by C18): OSC 1.0 transcribed as an executable
   reference over Seq(0..255).

   Abstract values (what the user hands to sc3 -- the projection of a Python argument list):
     message  [t |-> "m", a |-> address bytes (UTF-8), args |-> <<arg, ...>>]
     bundle   [t |-> "B", time |-> T, el |-> <<message or bundle, ...>>]
        T = [t |-> "none"] | [t |-> "neg"] | [t |-> "lat", b |-> 8 bytes]   (latency as 32.32 fixed point)
     arg      [t |-> "i", hi |-> signed high limb (any int), lo |-> 0..65535]   int = hi * 65536 + lo
              [t |-> "f", b |-> 4 bytes]      float32 bits (float64 -> float32 rounding is done by the projection)
              [t |-> "fbig"]                  a float whose magnitude does not fit float32
              [t |-> "s", b |-> bytes]        UTF-8 bytes     [t |-> "s", z |-> n] = n bytes 'a' (elided)
              [t |-> "b", b |-> bytes]        blob            [t |-> "b", z |-> n] = n zero bytes (elided)
              [t |-> "T"] [t |-> "F"] [t |-> "N"] [t |-> "E"]   True, False, None, empty list
              [t |-> "["] [t |-> "]"]         array markers
              a message or a bundle           nested list (completion message) -> blob
              [t |-> "x"]                     anything else (unsupported type, list of another shape)
   Decoded values (what OSC 1.0 says the bytes mean):
     [k |-> "msg", a |-> bytes, args |-> <<token, ...>>]     tokens are i/f/s/b args, markers and
     [k |-> "bundle", tag |-> 8 bytes, el |-> <<...>>]       [t |-> "o", c |-> tag char, b |-> bytes] for other OSC types
     [k |-> "bad", why |-> string]     not OSC 1.0: a receiver must drop it
     [k |-> "grey", why |-> string]    parses, but uses options a receiver need not support     *)
EXTENDS Naturals, Integers, Sequences, FiniteSets, TLC

Byte == 0..255
Zeros(n) == [i \in 1..n |-> 0]
Rep(c, n) == [i \in 1..n |-> c]
Pad4(n) == (4 - (n % 4)) % 4          \* blobs: 0..3 zero bytes
StrPad(n) == 4 - (n % 4)              \* strings: 1..4 zero bytes (always terminated)
U16(n) == <<n \div 256, n % 256>>
Size32(n) == U16(n \div 65536) \o U16(n % 65536)                   \* 0 <= n < 2^31
I32(hi, lo) == U16(IF hi < 0 THEN hi + 65536 ELSE hi) \o U16(lo)   \* two's complement, big-endian
InInt32(a) == a.hi >= 0 - 32768 /\ a.hi <= 32767 /\ a.lo >= 0 /\ a.lo <= 65535

\* concatenation / sum of a sequence, by halves (recursion depth log n: bundles have thousands of elements)
RECURSIVE CatR(_, _, _), SumR(_, _, _)
CatR(ss, i, j) == IF i > j THEN <<>> ELSE IF i = j THEN ss[i]
                  ELSE LET m == (i + j) \div 2 IN CatR(ss, i, m) \o CatR(ss, m + 1, j)
Cat(ss) == CatR(ss, 1, Len(ss))
SumR(ns, i, j) == IF i > j THEN 0 ELSE IF i = j THEN ns[i]
                  ELSE LET m == (i + j) \div 2 IN SumR(ns, i, m) + SumR(ns, m + 1, j)
Sum(ns) == SumR(ns, 1, Len(ns))

Has(a, f) == f \in DOMAIN a
StrBytes(a) == IF Has(a, "z") THEN Rep(97, a.z) ELSE a.b
StrLen(a) == IF Has(a, "z") THEN a.z ELSE Len(a.b)
BlobBytes(a) == IF Has(a, "z") THEN Zeros(a.z) ELSE a.b
BlobLen(a) == IF Has(a, "z") THEN a.z ELSE Len(a.b)

(* ---------------------------------------------------------------- time tags *)
Immediately == <<0, 0, 0, 0, 0, 0, 0, 1>>
RECURSIVE AddB(_, _, _, _)
\* big-endian addition modulo 2^(8*Len): position i counts from the right
AddB(x, y, i, carry) ==
    IF i = 0 THEN <<>>
    ELSE LET s == x[i] + y[i] + carry IN AddB(x, y, i - 1, s \div 256) \o <<s % 256>>
Add64(x, y) == AddB(x, y, 8, 0)
RECURSIVE LexLess(_, _)
LexLess(x, y) == IF x = <<>> THEN FALSE
                 ELSE IF Head(x) # Head(y) THEN Head(x) < Head(y) ELSE LexLess(Tail(x), Tail(y))
\* off = the clock's offset between elapsed time and OSC time (8 bytes), send time 0
TagOf(T, off) == IF T.t = "lat" THEN Add64(off, T.b) ELSE Immediately

(* ---------------------------------------------------------------- encoder *)
EncStr(s) == s \o Zeros(StrPad(Len(s)))
EncBlob(bb) == Size32(Len(bb)) \o bb \o Zeros(Pad4(Len(bb)))

TagChar(a) == CASE a.t = "i" -> 105 [] a.t = "f" -> 102 [] a.t = "s" -> 115
                [] a.t \in {"b", "m", "B"} -> 98 [] a.t \in {"T", "F", "N", "E"} -> 105
                [] a.t = "[" -> 91 [] a.t = "]" -> 93

RECURSIVE EncMsg(_, _), EncBundle(_, _), Payload(_, _)
Payload(a, off) ==
    CASE a.t = "i" -> I32(a.hi, a.lo)
      [] a.t = "f" -> a.b
      [] a.t = "s" -> EncStr(StrBytes(a))
      [] a.t = "b" -> EncBlob(BlobBytes(a))
      [] a.t = "T" -> I32(0, 1)
      [] a.t \in {"F", "N", "E"} -> I32(0, 0)
      [] a.t \in {"[", "]"} -> <<>>
      [] a.t = "m" -> EncBlob(EncMsg(a, off))
      [] a.t = "B" -> EncBlob(EncBundle(a, off))
\* components of a message: each one must be a multiple of four bytes long (Aligned)
MsgParts(m, off) ==
    <<EncStr(m.a), EncStr(<<44>> \o [i \in 1..Len(m.args) |-> TagChar(m.args[i])])>>
    \o [i \in 1..Len(m.args) |-> Payload(m.args[i], off)]
EncMsg(m, off) == Cat(MsgParts(m, off))
Enc(v, off) == IF v.t = "m" THEN EncMsg(v, off) ELSE EncBundle(v, off)
BundleParts(b, off) ==
    <<<<35, 98, 117, 110, 100, 108, 101, 0>>, TagOf(b.time, off)>>
    \o [i \in 1..Len(b.el) |-> LET e == Enc(b.el[i], off) IN Size32(Len(e)) \o e]
EncBundle(b, off) == Cat(BundleParts(b, off))
Parts(v, off) == IF v.t = "m" THEN MsgParts(v, off) ELSE BundleParts(v, off)

\* the same length computed arithmetically (used for datagrams too large to rebuild byte by byte)
P4(n) == n + Pad4(n)
RECURSIVE EncLen(_)
ArgLen(a) ==
    CASE a.t \in {"i", "f", "T", "F", "N", "E"} -> 4
      [] a.t = "s" -> StrLen(a) + StrPad(StrLen(a))
      [] a.t = "b" -> 4 + P4(BlobLen(a))
      [] a.t \in {"[", "]"} -> 0
      [] a.t \in {"m", "B"} -> 4 + EncLen(a)
EncLen(v) ==
    IF v.t = "m"
    THEN Len(v.a) + StrPad(Len(v.a)) + (Len(v.args) + 1) + StrPad(Len(v.args) + 1)
         + Sum([i \in 1..Len(v.args) |-> ArgLen(v.args[i])])
    ELSE 16 + Sum([i \in 1..Len(v.el) |-> 4 + EncLen(v.el[i])])

(* ---------------------------------------------------------------- what must be refused *)
RECURSIVE Depth(_, _, _)
\* bracket balance: never negative, zero at the end
Depth(args, i, d) == IF d < 0 THEN 0 - 1 ELSE IF i > Len(args) THEN d
                     ELSE Depth(args, i + 1, d + (IF args[i].t = "[" THEN 1 ELSE IF args[i].t = "]" THEN 0 - 1 ELSE 0))
Balanced(args) == Depth(args, 1, 0) = 0
HasNul(s) == \E i \in 1..Len(s) : s[i] = 0

RECURSIVE MustRefuse(_, _)
ArgRefuse(a, off) ==
    CASE a.t = "i" -> ~InInt32(a)
      [] a.t \in {"fbig", "x"} -> TRUE
      [] a.t = "s" -> ~Has(a, "z") /\ HasNul(a.b)          \* OSC strings cannot contain NUL
      [] a.t = "b" -> BlobLen(a) = 0                       \* DESIGN 1.4: empty blobs are refused by the library
      [] a.t \in {"m", "B"} -> MustRefuse(a, off)
      [] OTHER -> FALSE
MustRefuse(v, off) ==
    IF v.t = "m"
    THEN \/ v.a = <<>> \/ HasNul(v.a) \/ ~Balanced(v.args)
         \/ \E i \in 1..Len(v.args) : ArgRefuse(v.args[i], off)
    ELSE IF v.t = "B"
    THEN \/ \E i \in 1..Len(v.el) : MustRefuse(v.el[i], off)
         \* OSC 1.0: an enclosed bundle's time tag must be >= the enclosing bundle's
         \/ \E i \in 1..Len(v.el) : v.el[i].t = "B" /\ LexLess(TagOf(v.el[i].time, off), TagOf(v.time, off))
    ELSE TRUE

(* ---------------------------------------------------------------- the documented coercions *)
RECURSIVE Coerce(_, _)
CoerceArg(a, off) ==
    CASE a.t = "T" -> [t |-> "i", hi |-> 0, lo |-> 1]
      [] a.t \in {"F", "N", "E"} -> [t |-> "i", hi |-> 0, lo |-> 0]
      [] a.t \in {"m", "B"} -> [t |-> "b", b |-> Enc(a, off)]
      [] a.t = "i" -> [t |-> "i", hi |-> a.hi, lo |-> a.lo]
      [] a.t = "f" -> [t |-> "f", b |-> a.b]
      [] a.t = "s" -> [t |-> "s", b |-> StrBytes(a)]
      [] a.t = "b" -> [t |-> "b", b |-> BlobBytes(a)]
      [] a.t \in {"[", "]"} -> [t |-> a.t]
Coerce(v, off) ==
    IF v.t = "m" THEN [k |-> "msg", a |-> v.a, args |-> [i \in 1..Len(v.args) |-> CoerceArg(v.args[i], off)]]
    ELSE [k |-> "bundle", tag |-> TagOf(v.time, off), el |-> [i \in 1..Len(v.el) |-> Coerce(v.el[i], off)]]

(* ---------------------------------------------------------------- decoder (total) *)
Bad(w) == [k |-> "bad", why |-> w]
Grey(w) == [k |-> "grey", why |-> w]
BundleHdr == <<35, 98, 117, 110, 100, 108, 101, 0>>
StartsWith(b, p) == Len(b) >= Len(p) /\ SubSeq(b, 1, Len(p)) = p
Min(S) == CHOOSE x \in S : \A y \in S : x <= y
AllZero(b, i, j) == \A k \in i..j : b[k] = 0

\* an OSC string starting at i: [ok, s, nx] or [ok |-> FALSE, w |-> reason]
ReadStr(b, i) ==
    LET Z == {k \in i..Len(b) : b[k] = 0} IN
    IF Z = {} THEN [ok |-> FALSE, w |-> "unterminated string"]
    ELSE LET z == Min(Z)  n == z - i  tot == n + StrPad(n) IN
         IF i + tot - 1 > Len(b) THEN [ok |-> FALSE, w |-> "truncated string padding"]
         ELSE IF ~AllZero(b, z, i + tot - 1) THEN [ok |-> FALSE, w |-> "non-zero string padding"]
         ELSE [ok |-> TRUE, s |-> SubSeq(b, i, z - 1), nx |-> i + tot]
Fixed(b, i, n) == IF i + n - 1 > Len(b) THEN [ok |-> FALSE]
                  ELSE [ok |-> TRUE, s |-> SubSeq(b, i, i + n - 1), nx |-> i + n]
\* a non-negative int32 as a number: [ok, n, nx]; negative or truncated -> not ok
ReadSize(b, i) ==
    IF i + 3 > Len(b) \/ b[i] >= 128 THEN [ok |-> FALSE]
    ELSE [ok |-> TRUE, n |-> (b[i] * 256 + b[i+1]) * 65536 + b[i+2] * 256 + b[i+3], nx |-> i + 4]
ReadBlob(b, i) ==
    LET sz == ReadSize(b, i) IN
    IF ~sz.ok THEN [ok |-> FALSE, w |-> "blob size negative or truncated"]
    ELSE IF sz.n > Len(b) \/ sz.nx + sz.n - 1 > Len(b) THEN [ok |-> FALSE, w |-> "blob size beyond the datagram"]
    ELSE IF sz.nx + P4(sz.n) - 1 > Len(b) THEN [ok |-> FALSE, w |-> "truncated blob padding"]
    ELSE IF ~AllZero(b, sz.nx + sz.n, sz.nx + P4(sz.n) - 1) THEN [ok |-> FALSE, w |-> "non-zero blob padding"]
    ELSE [ok |-> TRUE, s |-> SubSeq(b, sz.nx, sz.nx + sz.n - 1), nx |-> sz.nx + P4(sz.n)]
Signed16(n) == IF n >= 32768 THEN n - 65536 ELSE n

RECURSIVE DecArgs(_, _, _, _, _)
\* tags: type tag bytes after the comma; returns the decoded message or bad/grey
DecArgs(b, tags, ti, i, acc) ==
    IF ti > Len(tags)
    THEN IF i # Len(b) + 1 THEN Bad("trailing bytes")
         ELSE IF ~Balanced(acc) THEN Bad("brackets") ELSE [k |-> "args", args |-> acc]
    ELSE LET c == tags[ti] IN
      CASE c = 105 ->      \* i
             LET r == Fixed(b, i, 4) IN
             IF ~r.ok THEN Bad("truncated int")
             ELSE DecArgs(b, tags, ti + 1, r.nx,
                          Append(acc, [t |-> "i", hi |-> Signed16(r.s[1] * 256 + r.s[2]), lo |-> r.s[3] * 256 + r.s[4]]))
        [] c = 102 ->      \* f
             LET r == Fixed(b, i, 4) IN
             IF ~r.ok THEN Bad("truncated float")
             ELSE DecArgs(b, tags, ti + 1, r.nx, Append(acc, [t |-> "f", b |-> r.s]))
        [] c = 115 ->      \* s
             LET r == ReadStr(b, i) IN
             IF ~r.ok THEN Bad(r.w)
             ELSE DecArgs(b, tags, ti + 1, r.nx, Append(acc, [t |-> "s", b |-> r.s]))
        [] c = 98 ->       \* b
             LET r == ReadBlob(b, i) IN
             IF ~r.ok THEN Bad(r.w)
             ELSE DecArgs(b, tags, ti + 1, r.nx, Append(acc, [t |-> "b", b |-> r.s]))
        [] c \in {91, 93} -> DecArgs(b, tags, ti + 1, i, Append(acc, [t |-> IF c = 91 THEN "[" ELSE "]"]))
        [] c \in {84, 70, 78, 73} ->      \* T F N I: no payload
             DecArgs(b, tags, ti + 1, i, Append(acc, [t |-> "o", c |-> c, b |-> <<>>]))
        [] c \in {100, 104, 116} ->       \* d h t: 8 bytes
             LET r == Fixed(b, i, 8) IN
             IF ~r.ok THEN Bad("truncated 8-byte arg")
             ELSE DecArgs(b, tags, ti + 1, r.nx, Append(acc, [t |-> "o", c |-> c, b |-> r.s]))
        [] c \in {99, 114, 109} ->        \* c r m: 4 bytes
             LET r == Fixed(b, i, 4) IN
             IF ~r.ok THEN Bad("truncated 4-byte arg")
             ELSE DecArgs(b, tags, ti + 1, r.nx, Append(acc, [t |-> "o", c |-> c, b |-> r.s]))
        [] c = 83 ->       \* S
             LET r == ReadStr(b, i) IN
             IF ~r.ok THEN Bad(r.w)
             ELSE DecArgs(b, tags, ti + 1, r.nx, Append(acc, [t |-> "o", c |-> c, b |-> r.s]))
        [] OTHER -> Grey("unknown type tag")

DecMsg(b) ==
    LET ad == ReadStr(b, 1) IN
    IF ~ad.ok THEN Bad(ad.w)
    ELSE IF ad.nx = Len(b) + 1 THEN Grey("no type tag string")    \* OSC 1.0: older senders; receivers should be robust
    ELSE LET tg == ReadStr(b, ad.nx) IN
         IF ~tg.ok THEN Bad(tg.w)
         ELSE IF tg.s = <<>> \/ tg.s[1] # 44 THEN Grey("type tag string without comma")
         ELSE LET r == DecArgs(b, Tail(tg.s), 1, tg.nx, <<>>) IN
              IF r.k # "args" THEN r
              ELSE IF \E i \in 1..Len(r.args) : r.args[i].t = "o" THEN
                   [k |-> "greymsg", a |-> ad.s, args |-> r.args]
              ELSE [k |-> "msg", a |-> ad.s, args |-> r.args]

RECURSIVE DecPacket(_), DecElems(_, _, _)
DecElems(b, i, acc) ==
    IF i = Len(b) + 1 THEN [k |-> "els", el |-> acc]
    ELSE LET sz == ReadSize(b, i) IN
         IF ~sz.ok THEN Bad("element size negative or truncated")
         ELSE IF sz.n % 4 # 0 THEN Bad("element size not a multiple of 4")
         ELSE IF sz.n > Len(b) \/ sz.nx + sz.n - 1 > Len(b) THEN Bad("element size beyond the datagram")
         ELSE LET e == DecPacket(SubSeq(b, sz.nx, sz.nx + sz.n - 1)) IN
              IF e.k = "bad" THEN e ELSE DecElems(b, sz.nx + sz.n, Append(acc, e))
IsGrey(e) == e.k \in {"grey", "greymsg"} \/ (e.k = "bundle" /\ e.grey)
DecPacket(b) ==
    IF Len(b) % 4 # 0 THEN Bad("length not a multiple of 4")
    ELSE IF b = <<>> THEN Bad("empty")
    ELSE IF StartsWith(b, BundleHdr) THEN
         IF Len(b) < 16 THEN Bad("bundle without time tag")
         ELSE LET r == DecElems(b, 17, <<>>)  tag == SubSeq(b, 9, 16) IN
              IF r.k = "bad" THEN r
              ELSE [k |-> "bundle", tag |-> tag, el |-> r.el,
                    grey |-> \E i \in 1..Len(r.el) :
                                \/ IsGrey(r.el[i])
                                \/ r.el[i].k = "bundle" /\ LexLess(r.el[i].tag, tag)]
    ELSE IF b[1] = 47 THEN DecMsg(b)
    ELSE Bad("neither message nor bundle")
Dec(b) == DecPacket(b)

\* strip the bookkeeping field so that decoded bundles compare with Coerce
RECURSIVE Plain(_)
Plain(d) == IF d.k = "bundle" THEN [k |-> "bundle", tag |-> d.tag, el |-> [i \in 1..Len(d.el) |-> Plain(d.el[i])]]
            ELSE d
\* the (time tag, message) pairs a bundle delivers, depth first; a bare message has tag <<>>
RECURSIVE FlatB(_)
FlatB(d) == IF d.k = "bundle"
            THEN Cat([i \in 1..Len(d.el) |->
                        IF d.el[i].k = "bundle" THEN FlatB(d.el[i])
                        ELSE <<[tag |-> d.tag, a |-> d.el[i].a, args |-> d.el[i].args]>>])
            ELSE <<[tag |-> <<>>, a |-> d.a, args |-> d.args]>>
Count(s, x) == Cardinality({i \in 1..Len(s) : s[i] = x})
BagEq(s, u) == Len(s) = Len(u) /\ \A i \in 1..Len(s) : Count(s, s[i]) = Count(u, s[i])

(* ---------------------------------------------------------------- L1 *)
RoundTrip(v, off) == MustRefuse(v, off) \/ Plain(Dec(Enc(v, off))) = Coerce(v, off)
Aligned(v, off) == MustRefuse(v, off) \/ \A i \in 1..Len(Parts(v, off)) : Len(Parts(v, off)[i]) % 4 = 0
LenAgrees(v, off) == MustRefuse(v, off) \/ EncLen(v) = Len(Enc(v, off))
=============================================================================
