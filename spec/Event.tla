------------------------------- MODULE Event -------------------------------
(* C14 - what playing events means.

   An event is a function from key names to values [n : Int, s : STRING, r : BOOLEAN]  (n = number in the unit
   of the key, s = string value, r = the value is wrapped in Rest).  Units of *given* keys:
     degree mtranspose gtranspose root octave note midinote ctranspose : 1/64      freq detune : 1/8 Hz
     harmonic : 1/8     dur stretch legato delta sustain : 1/32     db velocity group : 1
     any other numeric key (amp pan out cutoff ...) : 1/1024
   Units of results: times (delta, sustain, bundle times) : 1/U s, U = 163840 = 32^3 * 5 (so that the default
   legato 0.8 is exact); midinote : 1/64; frequency : either exact ["hz", 1/64 Hz] or symbolic
   ["mn", m] = MidiCps(m/64) (kept symbolic except on the lattice 69 + 12k where it is 440 * 2^k);
   amp lookups : 1/AU, AU = 1024 * 100 * 127.

   (i)  key chains with explicit-key precedence           (MidiNote, Freq, Detuned, Amp, Delta, Sustain)
   (ii) PlayNote: the bundles a note event sends           (Emit)
   (iii) event patterns -> event sequences -> timed score  (EvSeq, Player, Score)                          *)
EXTENDS Naturals, Integers, Sequences, FiniteSets, TLC

U == 163840
AU == 13004800
INF == 1000000
MAXEV == 120         \* cap on the events taken from an endless pattern (generators keep endless patterns under a Pdur that needs fewer)

V(n) == [n |-> n, s |-> "", r |-> FALSE]
VS(s) == [n |-> 0, s |-> s, r |-> FALSE]
VR(n) == [n |-> n, s |-> "", r |-> TRUE]
Has(ev, k) == k \in DOMAIN ev
N(ev, k, d) == IF Has(ev, k) THEN ev[k].n ELSE d
Merge(base, over) == [k \in DOMAIN base \cup DOMAIN over |-> IF k \in DOMAIN over THEN over[k] ELSE base[k]]
Min2(a, b) == IF a < b THEN a ELSE b
Take(s, n) == IF n >= Len(s) THEN s ELSE IF n <= 0 THEN <<>> ELSE SubSeq(s, 1, n)

(* ---------------------------------------------------------------- (i) key chains ---- *)
Scales == [major |-> <<0, 2, 4, 5, 7, 9, 11>>, minor |-> <<0, 2, 3, 5, 7, 8, 10>>, penta |-> <<0, 2, 4, 7, 9>>,
           chromatic |-> <<0, 1, 2, 3, 4, 5, 6, 7, 8, 9, 10, 11>>, whole |-> <<0, 2, 4, 6, 8, 10>>]
ScaleOf(ev) == IF Has(ev, "scale") THEN Scales[ev["scale"].s] ELSE Scales.major
\* scale degree (integer, any octave) -> semitone key, 12 steps per octave
DegToKey(sc, d64) == LET d == d64 \div 64 L == Len(sc) IN (12 * (d \div L) + sc[(d % L) + 1]) * 64
NoteV(ev) == IF Has(ev, "note") THEN ev["note"].n
             ELSE DegToKey(ScaleOf(ev), N(ev, "degree", 0) + N(ev, "mtranspose", 0))
\* (note + gtranspose + root) / 12 + octave - 5) * 12 + 60   for equal temperament, octave ratio 2
MidiFromNote(ev, n64) == n64 + N(ev, "gtranspose", 0) + N(ev, "root", 0) + 12 * (N(ev, "octave", 5 * 64) - 5 * 64) + 60 * 64
MidiNote(ev) == IF Has(ev, "midinote") THEN ev["midinote"].n
                ELSE IF Has(ev, "note") \/ Has(ev, "degree") THEN MidiFromNote(ev, NoteV(ev))
                ELSE 60 * 64
Pow2Hz64(j) == CASE j = 0 - 3 -> 55 * 64 [] j = 0 - 2 -> 110 * 64 [] j = 0 - 1 -> 220 * 64 [] j = 0 -> 440 * 64
                 [] j = 1 -> 880 * 64 [] j = 2 -> 1760 * 64 [] j = 3 -> 3520 * 64
MidiCps(m64) == IF (m64 - 69 * 64) % (12 * 64) = 0 /\ (m64 - 69 * 64) \div (12 * 64) \in (0 - 3)..3
                THEN [k |-> "hz", n |-> Pow2Hz64((m64 - 69 * 64) \div (12 * 64))]
                ELSE [k |-> "mn", n |-> m64]
\* freq: explicit freq wins, else midinote (explicit, from note / degree, or the default 60) transposed by ctranspose
FreqBase(ev) == IF Has(ev, "freq") THEN [k |-> "hz", n |-> ev["freq"].n * 8]
                ELSE MidiCps(MidiNote(ev) + N(ev, "ctranspose", 0))
Log2h8(h8) == CASE h8 = 2 -> 0 - 2 [] h8 = 4 -> 0 - 1 [] h8 = 8 -> 0 [] h8 = 16 -> 1 [] h8 = 32 -> 2
\* what is sent as the freq control: freq * harmonic + detune
Detuned(ev) == LET b == FreqBase(ev) h8 == N(ev, "harmonic", 8) d8 == N(ev, "detune", 0) IN
    IF b.k = "hz" THEN (IF (b.n * h8) % 8 = 0 THEN [k |-> "hz", n |-> (b.n * h8) \div 8 + d8 * 8] ELSE [k |-> "un", n |-> 0])
    ELSE IF d8 = 0 /\ h8 \in {2, 4, 8, 16, 32} THEN MidiCps(b.n + 12 * 64 * Log2h8(h8))
    ELSE [k |-> "un", n |-> 0]
Pow10AU(j) == CASE j = 0 - 2 -> AU \div 100 [] j = 0 - 1 -> AU \div 10 [] j = 0 -> AU [] j = 1 -> AU * 10
\* amp: explicit amp, else db (exact on multiples of 20 dB), else velocity / 127, else 0.1
Amp(ev) == IF Has(ev, "amp") THEN [k |-> "au", n |-> ev["amp"].n * (AU \div 1024)]
           ELSE IF Has(ev, "db") THEN (IF ev["db"].n % 20 = 0 /\ ev["db"].n \div 20 \in (0 - 2)..1
                                       THEN [k |-> "au", n |-> Pow10AU(ev["db"].n \div 20)] ELSE [k |-> "db", n |-> ev["db"].n])
           ELSE IF Has(ev, "velocity") THEN [k |-> "au", n |-> ev["velocity"].n * (AU \div 127)]
           ELSE [k |-> "au", n |-> AU \div 10]
\* delta = dur * stretch, sustain = dur * legato * stretch unless given; legato defaults to 0.8
DeltaU(ev) == IF Has(ev, "_deltaU") THEN ev["_deltaU"].n
              ELSE IF Has(ev, "delta") THEN ev["delta"].n * (U \div 32)
              ELSE N(ev, "dur", 32) * N(ev, "stretch", 32) * (U \div 1024)
SustainU(ev) == IF Has(ev, "sustain") THEN ev["sustain"].n * (U \div 32)
                ELSE IF Has(ev, "legato") THEN N(ev, "dur", 32) * ev["legato"].n * N(ev, "stretch", 32) * (U \div 32768)
                ELSE N(ev, "dur", 32) * N(ev, "stretch", 32) * 4 * (U \div 5120)
IsRest(ev) == (Has(ev, "type") /\ ev["type"].s = "rest") \/ \E k \in DOMAIN ev : ev[k].r
\* a key lookup event(key) as the drivers observe it: [k |-> unit tag, n]
Lookup(ev, key) ==
    CASE key = "midinote" -> IF Has(ev, "freq") /\ ~(Has(ev, "midinote") \/ Has(ev, "note") \/ Has(ev, "degree"))
                             THEN [k |-> "un", n |-> 0]            \* inverse chain (freq -> midinote): not specified here
                             ELSE [k |-> "p64", n |-> MidiNote(ev)]
      [] key = "note" -> IF (Has(ev, "freq") \/ Has(ev, "midinote")) /\ ~(Has(ev, "note") \/ Has(ev, "degree"))
                         THEN [k |-> "un", n |-> 0]                \* inverse chain (midinote -> degree -> note)
                         ELSE [k |-> "p64", n |-> NoteV(ev)]
      [] key = "freq" -> FreqBase(ev)
      [] key = "detunedfreq" -> Detuned(ev)
      [] key = "amp" -> Amp(ev)
      [] key = "delta" -> [k |-> "u", n |-> DeltaU(ev)]
      [] key = "sustain" -> [k |-> "u", n |-> SustainU(ev)]

(* ---------------------------------------------------------------- (ii) playing one note ---- *)
\* synth descriptions the drivers register: control names in description order, and whether there is a gate
Descs == [vg |-> [c |-> <<"freq", "amp", "pan", "out", "gate">>, gate |-> TRUE],
          vn |-> [c |-> <<"freq", "amp", "pan", "out">>, gate |-> FALSE],
          vx |-> [c |-> <<"out", "cutoff", "gate", "freq", "amp">>, gate |-> TRUE],
          vp |-> [c |-> <<"amp", "pan">>, gate |-> FALSE]]
Instr(ev) == IF Has(ev, "instrument") THEN ev["instrument"].s ELSE "default"
ActionNo(ev) == IF ~Has(ev, "add_action") THEN 0
                ELSE CASE ev["add_action"].s = "addToHead" -> 0 [] ev["add_action"].s = "addToTail" -> 1
                       [] ev["add_action"].s = "addBefore" -> 2 [] ev["add_action"].s = "addAfter" -> 3
Group(ev) == N(ev, "group", 1)
\* (control, value) for each control of the description that the event defines, in description order; the
\* freq control always carries the detuned frequency; gate is never a creation parameter
Pars(ev, desc) == LET cs == SelectSeq(desc.c, LAMBDA c : c # "gate" /\ (c = "freq" \/ Has(ev, c))) IN
    [i \in 1..Len(cs) |-> IF cs[i] = "freq" THEN [c |-> "freq", v |-> Detuned(ev)]
                          ELSE [c |-> cs[i], v |-> [k |-> "g", n |-> ev[cs[i]].n]]]
\* Pmono updates: the controls sent at creation, looked up again on the new event
ParNames(ev, desc) == SelectSeq(desc.c, LAMBDA c : c # "gate" /\ (c = "freq" \/ Has(ev, c)))
SetPars(ev, names) ==
    [i \in 1..Len(names) |-> IF names[i] = "freq" THEN [c |-> "freq", v |-> Detuned(ev)]
                             ELSE [c |-> names[i], v |-> [k |-> "g", n |-> N(ev, names[i], 0)]]]
SendGate(ev, desc) == IF Has(ev, "send_gate") THEN ev["send_gate"].n # 0 ELSE desc.gate
\* the messages one event sends when played at time t (logical) with latency lat; ref names the node
\* fz ("fuzzy time"): the bundle's time involves the default legato 0.8, which is not dyadic - the real float time is within
\* an ulp of the lattice point, so its order relative to other bundles of the *same* lattice time is not decided
B(t, cmd, ref, name, act, grp, pars) == [t |-> t, cmd |-> cmd, ref |-> ref, name |-> name, act |-> act, grp |-> grp, pars |-> pars, fz |-> FALSE]
DefaultLegato(ev) == ~Has(ev, "sustain") /\ ~Has(ev, "legato")
GateOff == <<[c |-> "gate", v |-> [k |-> "g", n |-> 0]]>>
\* an item of an event stream: the event e, its kind ty (note, mono_on, mono_set, mono_off), the node reference
\* of a Pmono voice, the names of the controls a mono_set updates, whether the voice has a gate, and dU >= 0 when
\* a pattern (Ppar, Pdur, Pdelta) has overwritten the event's delta
Item(e, ty, mono, names, gate, dU) == [e |-> e, ty |-> ty, mono |-> mono, names |-> names, gate |-> gate, dU |-> dU]
Note(e) == Item(e, "note", 0, <<>>, FALSE, 0 - 1)
DeltaOf(it) == IF it.dU >= 0 THEN it.dU ELSE DeltaU(it.e)
WithDelta(it, d) == [it EXCEPT !.dU = d]
Emit(it, t, lat, ref) ==
    LET ev == it.e IN
    IF it.ty = "mono_off" THEN          \* release of a voice, possibly delayed (articulated Pmono: after the sustain)
         (IF it.gate THEN <<[B(t + lat + N(ev, "_delayU", 0), "/n_set", it.mono, "", 0, 0, GateOff) EXCEPT !.fz = Has(ev, "_fz")]>>
          ELSE <<[B(t + lat + N(ev, "_delayU", 0), "/n_free", it.mono, "", 0, 0, <<>>) EXCEPT !.fz = Has(ev, "_fz")]>>)
    ELSE IF IsRest(ev) THEN <<>>
    ELSE IF it.ty = "mono_set" THEN <<B(t + lat, "/n_set", it.mono, "", 0, 0, SetPars(ev, it.names))>>
    ELSE LET desc == Descs[Instr(ev)]
             new == B(t + lat, "/s_new", IF it.ty = "mono_on" THEN it.mono ELSE ref, Instr(ev), ActionNo(ev), Group(ev), Pars(ev, desc)) IN
         IF it.ty = "note" /\ SendGate(ev, desc)
         THEN <<new, [B(t + lat + SustainU(ev), "/n_set", ref, "", 0, 0, GateOff) EXCEPT !.fz = DefaultLegato(ev)]>>
         ELSE <<new>>

(* ---------------------------------------------------------------- (iii) patterns of events ---- *)
\* value lists of a Pbind key: m = "list" (Pseq of vs), "k" (constant vs[1]), "pconst" (Pconst(Pseq(vs), x))
RECURSIVE ConstVals(_, _, _, _, _)
ConstVals(vs, sum, i, acc, out) ==
    IF i > Len(vs) THEN Append(out, V(sum - acc))
    ELSE IF acc + vs[i].n >= sum THEN Append(out, V(sum - acc))
    ELSE ConstVals(vs, sum, i + 1, acc + vs[i].n, Append(out, vs[i]))
KeyVals(kd) == IF kd.m = "pconst" THEN ConstVals(kd.vs, kd.x, 1, 0, <<>>) ELSE kd.vs
BindLen(ks) == LET fin == {i \in 1..Len(ks) : ks[i].m # "k"} IN
               IF fin = {} THEN MAXEV
               ELSE LET ls == {Len(KeyVals(ks[i])) : i \in fin} IN CHOOSE m \in ls : \A x \in ls : m <= x
BindKeys(ks, i) == [k \in {ks[j].k : j \in 1..Len(ks)} |->
                      LET j == CHOOSE j \in 1..Len(ks) : ks[j].k = k IN
                      IF ks[j].m = "k" THEN ks[j].vs[1] ELSE KeyVals(ks[j])[i]]
\* evt.silent(dur, inevent): a rest that only takes time
Silent(x32, inev) == Item(Merge(inev, [k \in {"dur"} |-> VR(x32)]), "note", 0, <<>>, FALSE, x32 * N(inev, "stretch", 32) * (U \div 1024))
SilentU(dU) == Item([k \in {"dur"} |-> VR(0)], "note", 0, <<>>, FALSE, dU)
\* the rest Ppar inserts when a child has ended: evt.silent(time to the next onset, input event) - its delta is that time
\* times the input event's stretch
SilentIn(dU, inev) == Item([k \in {"dur"} |-> VR(0)], "note", 0, <<>>, FALSE, (dU * N(inev, "stretch", 32)) \div 32)

RECURSIVE EvSeq(_, _, _), CatSeq(_, _, _, _), DurCut(_, _, _, _, _, _), ParLoop(_, _, _, _, _, _, _),
          EvSeqV(_, _, _), CatSeqV(_, _, _, _, _), ParLoopV(_, _, _, _, _, _, _)
\* items a pattern yields for input event inev; base = first free mono reference
CatSeq(l, inev, i, base) == IF i > Len(l) THEN <<>> ELSE EvSeq(l[i], inev, base * 10 + i) \o CatSeq(l, inev, i + 1, base)
\* Pdur(d, p, tolerance): events until the elapsed time, rounded UP to a multiple of the tolerance, reaches d; that
\* event's delta is replaced by the time left, so that the total is exactly d (the *unrounded* elapsed time is what
\* accumulates).  T = 0 stands for a tolerance finer than the time lattice (the default 0.001 s): elapsed >= d.
CeilDiv(a, b) == 0 - ((0 - a) \div b)
ReachedU(x, X, T) == IF T <= 0 THEN x >= X ELSE CeilDiv(x, T) * T >= X
DurCut(its, i, elapsed, X, T, out) ==
    IF i > Len(its) THEN out
    ELSE LET d == DeltaOf(its[i]) IN
         IF its[i].ty = "mono_off" THEN DurCut(its, i + 1, elapsed, X, T, Append(out, its[i]))
         ELSE IF ReachedU(elapsed + d, X, T) THEN Append(out, WithDelta(its[i], X - elapsed))
         ELSE DurCut(its, i + 1, elapsed + d, X, T, Append(out, its[i]))
\* monos switched on but not off inside its: released when the player's stream ends
OpenMonos(its) == {i \in 1..Len(its) : its[i].ty = "mono_on" /\ ~\E j \in 1..Len(its) : its[j].ty = "mono_off" /\ its[j].mono = its[i].mono}
MonoOff(on) == Item(<<>>, "mono_off", on.mono, <<>>, on.gate, 0)
Release(ref, gate, delayU) == Item([k \in {"_delayU"} |-> V(delayU)], "mono_off", ref, <<>>, gate, 0)
\* Pmono(instrument, keys, articulate = TRUE) (sclang PmonoArtic).  Slur rule: an event continues (or, when no voice
\* is running, starts) a voice iff its sustain >= its delta (both through the duration chain: explicit sustain /
\* delta, else dur * legato * stretch / dur * stretch) and it is not a rest.  An event with sustain < delta ends
\* the voice: running voice -> it is still set by this event and released sustain later; no voice -> the event is an
\* ordinary note (own node, own gate-off).  A rest releases the running voice at once.  The stream's end releases it.
\* evs = the merged events; act = reference of the running voice (0: none); k = voices started so far
RECURSIVE ArticLoop(_, _, _, _, _, _, _, _)
ArticLoop(evs, desc, i, act, names, k, base, out) ==
    IF i > Len(evs) THEN (IF act # 0 THEN Append(out, Release(act, desc.gate, 0)) ELSE out)
    ELSE LET e == evs[i]
             slur == SustainU(e) >= DeltaU(e)
             rest == IsRest(e) IN
         IF act = 0 THEN
              IF slur /\ ~rest
              THEN LET ref == 0 - (base * 100 + k + 1)  nm == ParNames(e, desc) IN
                   ArticLoop(evs, desc, i + 1, ref, nm, k + 1, base, Append(out, Item(e, "mono_on", ref, nm, desc.gate, 0 - 1)))
              ELSE ArticLoop(evs, desc, i + 1, 0, names, k, base, Append(out, Note(e)))
         ELSE LET set == Item(e, "mono_set", act, names, desc.gate, 0 - 1) IN
              IF ~slur THEN ArticLoop(evs, desc, i + 1, 0, names, k, base,
                                      out \o <<IF DefaultLegato(e) THEN [Release(act, desc.gate, SustainU(e)) EXCEPT !.e = Merge(@, [x \in {"_fz"} |-> V(1)])]
                                               ELSE Release(act, desc.gate, SustainU(e)), set>>)
              ELSE IF rest THEN ArticLoop(evs, desc, i + 1, 0, names, k, base, out \o <<Release(act, desc.gate, 0), set>>)
              ELSE ArticLoop(evs, desc, i + 1, act, names, k, base, Append(out, set))
\* Ppar: children merged by absolute time; the queue is FIFO among equal times (entries <<time, stamp, child>>)
QInsert(q, e) == LET k == Cardinality({i \in 1..Len(q) : q[i][1] < e[1] \/ (q[i][1] = e[1] /\ q[i][2] < e[2])}) IN
                 SubSeq(q, 1, k) \o <<e>> \o SubSeq(q, k + 1, Len(q))
ParLoop(cs, q, idx, now, stamp, out, fuel) ==
    IF q = <<>> \/ fuel = 0 THEN out
    ELSE LET c == q[1][3]  rest == Tail(q) IN
         IF idx[c] > Len(cs[c])
         THEN \* that child has ended: rest until the next one
              (IF rest = <<>> THEN out
               ELSE ParLoop(cs, rest, idx, rest[1][1], stamp, Append(out, SilentU(rest[1][1] - now)), fuel - 1))   \* (constant input without stretch)
         ELSE LET it == cs[c][idx[c]] IN
              IF it.ty = "mono_off" THEN ParLoop(cs, q, [idx EXCEPT ![c] = @ + 1], now, stamp, Append(out, it), fuel - 1)
              ELSE LET q2 == QInsert(rest, <<now + DeltaOf(it), stamp, c>>)
                       nt == q2[1][1] IN
                   ParLoop(cs, q2, [idx EXCEPT ![c] = @ + 1], nt, stamp + 1, Append(out, WithDelta(it, nt - now)), fuel - 1)

(* Patterns whose input event changes from step to step (the left operand of a Pchain: every value it yields is
   built from the event its right operand has just yielded).  ivs = the input events, one per step; the k-th
   item a pattern yields (rests included) is built from ivs[k]; when ivs is used up the chain ends.
   Covered: Pbind, Pseq, Pdelta, Pdur and Ppar over Pbinds.                                                  *)
DropV(s, n) == IF n >= Len(s) THEN <<>> ELSE SubSeq(s, n + 1, Len(s))
CatSeqV(l, ivs, i, base, acc) ==
    IF i > Len(l) THEN acc ELSE CatSeqV(l, ivs, i + 1, base, acc \o EvSeqV(l[i], DropV(ivs, Len(acc)), base * 10 + i))
\* Ppar with per-step input: the child at the head of the queue is pulled with the input event of the current step
ParLoopV(E, ivs, q, idx, now, stamp, out) ==
    IF q = <<>> \/ Len(out) >= Len(ivs) THEN out
    ELSE LET c == q[1][3]  rest == Tail(q)  iv == ivs[Len(out) + 1] IN
         IF idx[c] > BindLen(E.l[c].ks)
         THEN (IF rest = <<>> THEN out
               ELSE ParLoopV(E, ivs, rest, idx, rest[1][1], stamp, Append(out, SilentIn(rest[1][1] - now, iv))))
         ELSE LET it == Note(Merge(iv, BindKeys(E.l[c].ks, idx[c])))
                  q2 == QInsert(rest, <<now + DeltaOf(it), stamp, c>>)
                  nt == q2[1][1] IN
              ParLoopV(E, ivs, q2, [idx EXCEPT ![c] = @ + 1], nt, stamp + 1, Append(out, WithDelta(it, nt - now)))
EvSeqV(E, ivs, base) ==
    CASE E.t = "bind" -> [i \in 1..Min2(BindLen(E.ks), Len(ivs)) |-> Note(Merge(ivs[i], BindKeys(E.ks, i)))]
      [] E.t = "seq" -> CatSeqV(E.l, ivs, 1, base, <<>>)
      [] E.t = "delta" -> IF E.x <= 0 THEN EvSeqV(E.p, ivs, base)
                          ELSE IF ivs = <<>> THEN <<>> ELSE <<Silent(E.x, ivs[1])>> \o EvSeqV(E.p, Tail(ivs), base)
      [] E.t = "dur" -> DurCut(EvSeqV(E.p, ivs, base), 1, 0, E.x * (U \div 32), E.tl * (U \div 32), <<>>)
      [] E.t = "par" -> ParLoopV(E, ivs, [i \in 1..Len(E.l) |-> <<0, i, i>>], [i \in 1..Len(E.l) |-> 1], 0, Len(E.l) + 1, <<>>)

EvSeq(E, inev, base) ==
    CASE E.t = "bind" -> [i \in 1..BindLen(E.ks) |-> Note(Merge(inev, BindKeys(E.ks, i)))]
      [] E.t = "mono" ->      \* Pmono(instrument, keys): one node, created by the first event, set by the others, released at the end
           LET n == BindLen(E.ks)
               mk(i) == Merge(Merge(inev, BindKeys(E.ks, i)), [k \in {"instrument"} |-> VS(E.s)])
               desc == Descs[E.s]
               names == ParNames(mk(1), desc)
               ref == 0 - (base * 100 + 1)              \* voices have negative references, notes positive ones
               on == Item(mk(1), "mono_on", ref, names, desc.gate, 0 - 1) IN
           IF n = 0 THEN <<>>
           ELSE IF E.ar THEN ArticLoop([i \in 1..n |-> mk(i)], desc, 1, 0, <<>>, 0, base, <<>>)
           ELSE [i \in 1..n |-> IF i = 1 THEN on ELSE Item(mk(i), "mono_set", ref, names, desc.gate, 0 - 1)] \o <<MonoOff(on)>>
      [] E.t = "seq" -> CatSeq(E.l, inev, 1, base)
      [] E.t = "chain" ->     \* Pchain(l[1], l[2]): at every step l[2] is evaluated first and its event is the input of l[1]
           LET inner == EvSeq(E.l[2], inev, base) n == Min2(Len(inner), BindLen(E.l[1].ks)) IN
           IF E.l[1].t = "bind" THEN [i \in 1..n |-> [inner[i] EXCEPT !.e = Merge(@, BindKeys(E.l[1].ks, i))]]   \* overrides / adds its keys
           ELSE EvSeqV(E.l[1], [i \in 1..Len(inner) |-> inner[i].e], base)
      [] E.t = "delta" -> (IF E.x > 0 THEN <<Silent(E.x, inev)>> ELSE <<>>) \o EvSeq(E.p, inev, base)
      [] E.t = "dur" -> LET cut == DurCut(EvSeq(E.p, inev, base), 1, 0, E.x * (U \div 32), E.tl * (U \div 32), <<>>)
                            open == OpenMonos(cut) IN
                        IF open = {} THEN cut ELSE Append(cut, MonoOff(cut[CHOOSE i \in open : TRUE]))
      [] E.t = "par" -> LET cs == [i \in 1..Len(E.l) |-> EvSeq(E.l[i], inev, base * 10 + i)] IN
                        ParLoop(cs, [i \in 1..Len(cs) |-> <<0, i, i>>], [i \in 1..Len(cs) |-> 1], 0, Len(cs) + 1, <<>>, 600)

\* the player: event k is played at start + the sum of the deltas before it; rests send nothing
RECURSIVE Player(_, _, _, _, _)
Player(its, i, t, lat, out) ==
    IF i > Len(its) THEN out
    ELSE Player(its, i + 1, t + DeltaOf(its[i]), lat, out \o Emit(its[i], t, lat, 1000 + i))
\* the score lists bundles by time, bundles of equal time in the order they were sent
RECURSIVE SortByTime(_, _)
SortByTime(bs, acc) ==
    IF bs = <<>> THEN acc
    ELSE LET b == Head(bs)
             k == Cardinality({i \in 1..Len(acc) : acc[i].t <= b.t}) IN
         SortByTime(Tail(bs), SubSeq(acc, 1, k) \o <<b>> \o SubSeq(acc, k + 1, Len(acc)))
Items(E) == EvSeq(E, <<>>, 1)
Score(E, start, lat) == SortByTime(Player(Items(E), 1, start, lat, <<>>), <<>>)
RECURSIVE SumDelta(_, _)
SumDelta(its, i) == IF i = 0 THEN 0 ELSE DeltaOf(its[i]) + SumDelta(its, i - 1)
EndTime(E, start) == start + SumDelta(Items(E), Len(Items(E)))

(* ---- comparing an observed bundle o with an expected one e; ids = binding of node references to real ids ---- *)
ValOk(ov, ev) == CASE ev.k = "g" -> ov.s = "" /\ ov.n = ev.n
                   [] ev.k = "hz" -> ov.hz = ev.n
                   [] ev.k = "mn" -> ov.mn = ev.n
                   [] OTHER -> FALSE
BundleWhy(o, e, ids) ==
    IF o.t # e.t THEN "time"
    ELSE IF o.cmd # e.cmd THEN "command"
    ELSE IF e.cmd = "/s_new" /\ o.name # e.name THEN "instrument"
    ELSE IF e.cmd = "/s_new" /\ o.id \in {ids[r] : r \in DOMAIN ids} THEN "fresh-id"
    ELSE IF e.cmd # "/s_new" /\ (e.ref \notin DOMAIN ids \/ ids[e.ref] # o.id) THEN "node-id"
    ELSE IF e.cmd = "/s_new" /\ o.act # e.act THEN "add-action"
    ELSE IF e.cmd = "/s_new" /\ o.grp # e.grp THEN "group"
    ELSE IF Len(o.pars) # Len(e.pars) THEN "parameter-count"
    ELSE IF \E i \in 1..Len(e.pars) : o.pars[i].c # e.pars[i].c THEN "parameter-name"
    ELSE IF \E i \in 1..Len(e.pars) : ~ValOk(o.pars[i], e.pars[i].v) THEN "parameter-value"
    ELSE "ok"
=============================================================================
