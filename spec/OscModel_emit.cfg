SPECIFICATION Spec
CONSTANTS
  MaxArgs = 1
  MaxEls = 2
  MaxDepth = 1
  Emitting = TRUE
INVARIANT InvRoundTrip
INVARIANT InvEmit
