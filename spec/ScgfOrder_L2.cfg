SPECIFICATION SpecL2
CONSTANT N = 4
INVARIANT OrderOK
INVARIANT NoDup
INVARIANT StepRefines
INVARIANT Complete
