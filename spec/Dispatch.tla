------------------------------ MODULE Dispatch ------------------------------
(* C18: which responders an incoming datagram invokes.  L1 operators (used by the design model
   DispatchModel.tla and by the trace spec TraceDispatch.tla).

   state  st = [rs |-> sequence of responders (index = identity, creation order),
                ord |-> sequence of responder indices: the enabled ones in registration (enable) order]
   responder [path, kind ("exact" | "matching"), src [h, p] (0 = any), rport (0 any, 1 main, 2 extra),
              tmpl <<item>>, en, os (one-shot armed), freed, perm, fn (tag of the current function)]
   template item  [k |-> "any"] | [k |-> "eq", v |-> token] | [k |-> "gt", n |-> int]   (a predicate: int > n)
   message  [tag (8 bytes, <<>> = bare message), a (address bytes), args (tokens of Osc.tla)]     *)
EXTENDS OscMatch, Osc

SrcOK(r, s) == r.src.h = 0 \/ (r.src.h = s.h /\ (r.src.p = 0 \/ r.src.p = s.p))
PortOK(r, via) == r.rport = 0 \/ r.rport = via
IntVal(tok) == tok.hi * 65536 + tok.lo
ItemOK(it, tok) == CASE it.k = "any" -> TRUE
                     [] it.k = "eq" -> tok = it.v
                     [] it.k = "gt" -> tok.t = "i" /\ tok.hi \in {0 - 1, 0} /\ IntVal(tok) > it.n
\* position-wise; "any" (None) accepts anything, also a missing argument; any other item needs its argument
TmplOK(r, args) == \A i \in 1..Len(r.tmpl) : r.tmpl[i].k = "any" \/ (i <= Len(args) /\ ItemOK(r.tmpl[i], args[i]))
\* exact responders: equality; matching responders: the message address is the pattern
PathOK(r, a) == IF r.kind = "exact" THEN r.path = a ELSE Match(a, r.path)
Accepts(r, m, src, via) ==
    r.en /\ ~r.freed /\ PathOK(r, m.a) /\ SrcOK(r, src) /\ PortOK(r, via) /\ TmplOK(r, m.args)

\* the responders one message invokes, in registration order
Fire(st, m, src, via) == SelectSeq(st.ord, LAMBDA i : Accepts(st.rs[i], m, src, via))
Entry(st, i, m, src, via) == [r |-> i, fn |-> st.rs[i].fn, a |-> m.a, args |-> m.args, src |-> src, via |-> via, tm |-> m.tag]
Without(s, X) == SelectSeq(s, LAMBDA i : i \notin X)
\* a one-shot responder frees itself when it fires
AfterFire(st, fired) ==
    LET X == {fired[k] : k \in {k \in 1..Len(fired) : st.rs[fired[k]].os}} IN
    [rs |-> [i \in 1..Len(st.rs) |-> IF i \in X THEN [st.rs[i] EXCEPT !.freed = TRUE, !.en = FALSE] ELSE st.rs[i]],
     ord |-> Without(st.ord, X)]
\* deliver the messages of one datagram one after the other: [st, log]
RECURSIVE Deliver(_, _, _, _, _, _)
Deliver(st, msgs, k, src, via, log) ==
    IF k > Len(msgs) THEN [st |-> st, log |-> log]
    ELSE LET f == Fire(st, msgs[k], src, via) IN
         Deliver(AfterFire(st, f), msgs, k + 1, src, via,
                 log \o [n \in 1..Len(f) |-> Entry(st, f[n], msgs[k], src, via)])

(* ---- operations other than Recv ---- *)
NewResp(e) == [path |-> e.path, kind |-> e.kind, src |-> e.src, rport |-> e.rport, tmpl |-> e.tmpl,
               en |-> TRUE, os |-> e.os, freed |-> FALSE, perm |-> FALSE, fn |-> 0]
Upd(st, i, r) == [st EXCEPT !.rs[i] = r]
OpCreate(st, e) == [rs |-> Append(st.rs, NewResp(e)), ord |-> Append(st.ord, Len(st.rs) + 1)]
OpEnable(st, i) == IF st.rs[i].en THEN st
                   ELSE [rs |-> [st.rs EXCEPT ![i].en = TRUE, ![i].freed = FALSE], ord |-> Append(st.ord, i)]
OpDisable(st, i) == IF ~st.rs[i].en THEN st
                    ELSE [rs |-> [st.rs EXCEPT ![i].en = FALSE], ord |-> Without(st.ord, {i})]
OpFree(st, i) == [rs |-> [st.rs EXCEPT ![i].en = FALSE, ![i].freed = TRUE], ord |-> Without(st.ord, {i})]
OpOneShot(st, i) == [st EXCEPT !.rs[i].os = TRUE]
\* replacing the function keeps the responder's place; the one-shot wrapper is replaced too
OpSetFunc(st, i, fn) == [st EXCEPT !.rs[i].fn = fn, !.rs[i].os = FALSE]
OpSetPerm(st, i, b) == [st EXCEPT !.rs[i].perm = b]
OpCmdPeriod(st) ==
    LET X == {i \in 1..Len(st.rs) : st.rs[i].en /\ ~st.rs[i].perm} IN
    [rs |-> [i \in 1..Len(st.rs) |-> IF i \in X THEN [st.rs[i] EXCEPT !.freed = TRUE, !.en = FALSE] ELSE st.rs[i]],
     ord |-> Without(st.ord, X)]
Apply(st, e) ==
    CASE e.op = "create" -> OpCreate(st, e)
      [] e.op = "enable" -> OpEnable(st, e.i)
      [] e.op = "disable" -> OpDisable(st, e.i)
      [] e.op = "free" -> OpFree(st, e.i)
      [] e.op = "oneshot" -> OpOneShot(st, e.i)
      [] e.op = "setfunc" -> OpSetFunc(st, e.i, e.fn)
      [] e.op = "setperm" -> OpSetPerm(st, e.i, e.b)
      [] e.op = "cmdperiod" -> OpCmdPeriod(st)

(* ---- classification of a datagram for the receiver ---- *)
NonAscii(s) == \E i \in 1..Len(s) : s[i] >= 128
MsgGrey(m) == \/ NonAscii(m.a)
              \/ \E i \in 1..Len(m.args) : m.args[i].t \in {"[", "]"} \/ (m.args[i].t = "s" /\ NonAscii(m.args[i].b))
\* "good": must be delivered exactly; "bad": must invoke nothing; "grey": only no raise / no hang
Class(d, st) ==
    IF d.k = "bad" THEN "bad"
    ELSE IF d.k \in {"grey", "greymsg"} \/ (d.k = "bundle" /\ d.grey) THEN "grey"
    ELSE LET ms == FlatB(d) IN
         IF \E k \in 1..Len(ms) : MsgGrey(ms[k]) THEN "grey"
         \* a pattern whose meaning OSC 1.0 leaves open, with a matching responder listening
         ELSE IF \E k \in 1..Len(ms) : Unspec(ms[k].a) /\ \E i \in 1..Len(st.rs) : st.rs[i].kind = "matching" /\ st.rs[i].en
         THEN "grey"
         \* bundles whose depth-first order is not their time order: delivery order is not specified
         ELSE IF \E j, k \in 1..Len(ms) : j < k /\ LexLess(ms[k].tag, ms[j].tag) THEN "grey"
         ELSE "good"

(* ---- comparing an observed delivery log with the expected one ---- *)
Key(st, x) == <<x.a, x.args, st.rs[x.r].path, st.rs[x.r].kind>>
Proj(st, log, key) == SelectSeq(log, LAMBDA x : Key(st, x) = key)
Strip(x) == [r |-> x.r, fn |-> x.fn, a |-> x.a, args |-> x.args, src |-> x.src, via |-> x.via]
StripAll(log) == [k \in 1..Len(log) |-> Strip(log[k])]
\* first failing clause of "exactly those, each once, in registration order, with message/sender/port"
LogWhy(st, obs, exp) ==
    LET O == StripAll(obs)  E == StripAll(exp) IN
    IF \E k \in 1..Len(O) : O[k].r \notin 1..Len(st.rs) THEN "UnknownResponder"
    ELSE IF \E k \in 1..Len(O) : st.rs[O[k].r].freed THEN "FreedNeverFires"
    ELSE IF \E k \in 1..Len(O) : ~st.rs[O[k].r].en THEN "DisabledNeverFires"
    ELSE IF \E k \in 1..Len(O) : Count(O, O[k]) > Count(E, O[k]) /\ Count(E, O[k]) >= 1 THEN "EachOnce"
    ELSE IF \E k \in 1..Len(O) : Count(E, O[k]) = 0 THEN
         (LET k == CHOOSE k \in 1..Len(O) : Count(E, O[k]) = 0 IN
          IF \E j \in 1..Len(E) : E[j].r = O[k].r /\ E[j].a = O[k].a /\ E[j].args = O[k].args THEN "CallbackArguments"
          ELSE "ShouldNotFire")
    ELSE IF \E k \in 1..Len(E) : Count(O, E[k]) < Count(E, E[k]) THEN "ShouldFire"
    ELSE IF \E k \in 1..Len(E) : Proj(st, O, Key(st, E[k])) # Proj(st, E, Key(st, E[k])) THEN "OrderIsRegistrationOrder"
    ELSE IF \E k \in 1..Len(obs) : \A j \in 1..Len(exp) :
                Strip(exp[j]) = Strip(obs[k]) => (exp[j].tm # <<>> /\ exp[j].tm # Immediately /\ exp[j].tm # obs[k].tm)
         THEN "CallbackTime"
    ELSE "ok"
=============================================================================
