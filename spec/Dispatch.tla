------------------------------ MODULE Dispatch ------------------------------
(* C18: which responders an incoming datagram invokes.  L1 operators (used by the design model
   DispatchModel.tla and by the trace spec TraceDispatch.tla).

   state  st = [rs |-> sequence of responders (index = identity, creation order),
                ord |-> sequence of responder indices: the enabled ones in registration (enable) order]
   responder [path, kind ("exact" | "matching"), src [h, p] (0 = any), rport (0 any, 1 main, 2 extra),
              tmpl <<item>>, en, os (one-shot armed), freed, perm, fn (tag of the current function),
              beh (what the current function does when invoked), cnt (how often it has been invoked)]
   behaviour [ar |-> how many parameters the function declares: 1..4 = a prefix of (msg, time, addr, recv_port),
                    0 = *args; irrelevant to delivery: every matching enabled responder runs exactly once whatever
                    prefix its function declares (no operator below looks at it),
              rk |-> k: the function RAISES on its k-th invocation (0: never),
              acts |-> <<[op |-> "free" | "disable" | "enable", i |-> responder]>>: what it does to responders
              (itself included) from inside the callback, before it returns or raises]
   A fault in a callback is invisible to everybody else: the exception does not reach the receiver,
   later responders of the same delivery still fire, a one-shot that raised is spent all the same.
   template item  [k |-> "any"] | [k |-> "eq", v |-> token] | [k |-> "gt", n |-> int]   (a predicate: int > n)
   message  [tag (8 bytes, <<>> = bare message), a (address bytes), args (tokens of Osc.tla)]     *)
EXTENDS OscMatch, Osc

SrcOK(r, s) == r.src.h = 0 \/ (r.src.h = s.h /\ (r.src.p = 0 \/ r.src.p = s.p))
PortOK(r, via) == r.rport = 0 \/ r.rport = via
IntVal(tok) == tok.hi * 65536 + tok.lo
ItemOK(it, tok) == CASE it.k = "any" -> TRUE
                     [] it.k = "eq" -> tok = it.v
                     [] it.k = "gt" -> tok.t = "i" /\ tok.hi \in {0 - 1, 0} /\ IntVal(tok) > it.n
\* position-wise; "any" (None) accepts anything, also a missing argument; any other item needs its argument
TmplOK(r, args) == \A i \in 1..Len(r.tmpl) : r.tmpl[i].k = "any" \/ (i <= Len(args) /\ ItemOK(r.tmpl[i], args[i]))
\* exact responders: equality; matching responders: the message address is the pattern
PathOK(r, a) == IF r.kind = "exact" THEN r.path = a ELSE Match(a, r.path)
\* the message is for this responder (filters) / and the responder is listening
Matches(r, m, src, via) == PathOK(r, m.a) /\ SrcOK(r, src) /\ PortOK(r, via) /\ TmplOK(r, m.args)
Accepts(r, m, src, via) == r.en /\ ~r.freed /\ Matches(r, m, src, via)

\* the responders one message invokes, in registration order
Fire(st, m, src, via) == SelectSeq(st.ord, LAMBDA i : Accepts(st.rs[i], m, src, via))
Entry(st, i, m, src, via) == [r |-> i, fn |-> st.rs[i].fn, a |-> m.a, args |-> m.args, src |-> src, via |-> via, tm |-> m.tag]
Without(s, X) == SelectSeq(s, LAMBDA i : i \notin X)
ToSet(s) == {s[k] : k \in 1..Len(s)}
Quiet == [rk |-> 0, acts |-> <<>>, ar |-> 4]

(* ---- operations other than Recv ---- *)
NewResp(e) == [path |-> e.path, kind |-> e.kind, src |-> e.src, rport |-> e.rport, tmpl |-> e.tmpl,
               en |-> TRUE, os |-> e.os, freed |-> FALSE, perm |-> FALSE, fn |-> 0, beh |-> e.beh, cnt |-> 0]
Upd(st, i, r) == [st EXCEPT !.rs[i] = r]
OpCreate(st, e) == [rs |-> Append(st.rs, NewResp(e)), ord |-> Append(st.ord, Len(st.rs) + 1)]
OpEnable(st, i) == IF st.rs[i].en THEN st
                   ELSE [rs |-> [st.rs EXCEPT ![i].en = TRUE, ![i].freed = FALSE], ord |-> Append(st.ord, i)]
OpDisable(st, i) == IF ~st.rs[i].en THEN st
                    ELSE [rs |-> [st.rs EXCEPT ![i].en = FALSE], ord |-> Without(st.ord, {i})]
OpFree(st, i) == [rs |-> [st.rs EXCEPT ![i].en = FALSE, ![i].freed = TRUE], ord |-> Without(st.ord, {i})]
OpOneShot(st, i) == [st EXCEPT !.rs[i].os = TRUE]
\* replacing the function keeps the responder's place; the one-shot wrapper is replaced too
OpSetFunc(st, i, fn, beh) == [st EXCEPT !.rs[i].fn = fn, !.rs[i].os = FALSE, !.rs[i].beh = beh, !.rs[i].cnt = 0]
OpSetPerm(st, i, b) == [st EXCEPT !.rs[i].perm = b]
OpCmdPeriod(st) ==
    LET X == {i \in 1..Len(st.rs) : st.rs[i].en /\ ~st.rs[i].perm} IN
    [rs |-> [i \in 1..Len(st.rs) |-> IF i \in X THEN [st.rs[i] EXCEPT !.freed = TRUE, !.en = FALSE] ELSE st.rs[i]],
     ord |-> Without(st.ord, X)]
Apply(st, e) ==
    CASE e.op = "create" -> OpCreate(st, e)
      [] e.op = "enable" -> OpEnable(st, e.i)
      [] e.op = "disable" -> OpDisable(st, e.i)
      [] e.op = "free" -> OpFree(st, e.i)
      [] e.op = "oneshot" -> OpOneShot(st, e.i)
      [] e.op = "setfunc" -> OpSetFunc(st, e.i, e.fn, e.beh)
      [] e.op = "setperm" -> OpSetPerm(st, e.i, e.b)
      [] e.op = "cmdperiod" -> OpCmdPeriod(st)

(* ---- what invoking a responder's function does ---- *)
ActApply(st, a) == IF a.i \notin 1..Len(st.rs) THEN st
                   ELSE CASE a.op = "free" -> OpFree(st, a.i) [] a.op = "disable" -> OpDisable(st, a.i)
                          [] a.op = "enable" -> OpEnable(st, a.i)
RECURSIVE ActsApply(_, _, _)
ActsApply(st, acts, k) == IF k > Len(acts) THEN st ELSE ActsApply(ActApply(st, acts[k]), acts, k + 1)
\* this invocation is the one on which the function raises
Raises(r) == r.beh.rk = r.cnt + 1
\* responder i is invoked: a one-shot is spent first (whether or not the function then raises), then the
\* function's own actions happen; raising changes nothing else
Invoke(st, i) ==
    LET s1 == [st EXCEPT !.rs[i].cnt = @ + 1]
        s2 == IF st.rs[i].os THEN OpFree(s1, i) ELSE s1 IN
    ActsApply(s2, st.rs[i].beh.acts, 1)

\* One legal delivery (used by the design model): the responders accepted when the message arrives all
\* fire, in registration order, whatever the callbacks do to each other meanwhile ("firing one responder
\* never removes another from the current delivery"); responders enabled meanwhile wait for the next message.
RECURSIVE FireAll(_, _, _, _, _, _, _)
FireAll(st, F, n, m, src, via, log) ==
    IF n > Len(F) THEN [st |-> st, log |-> log]
    ELSE FireAll(Invoke(st, F[n]), F, n + 1, m, src, via, Append(log, Entry(st, F[n], m, src, via)))
RECURSIVE Deliver(_, _, _, _, _, _)
Deliver(st, msgs, k, src, via, log) ==
    IF k > Len(msgs) THEN [st |-> st, log |-> log]
    ELSE LET x == FireAll(st, Fire(st, msgs[k], src, via), 1, msgs[k], src, via, <<>>) IN
         Deliver(x.st, msgs, k + 1, src, via, log \o x.log)

(* ---- classification of a datagram for the receiver ---- *)
NonAscii(s) == \E i \in 1..Len(s) : s[i] >= 128
MsgGrey(m) == \/ NonAscii(m.a)
              \/ \E i \in 1..Len(m.args) : m.args[i].t \in {"[", "]"} \/ (m.args[i].t = "s" /\ NonAscii(m.args[i].b))
\* nesting depth of a decoded packet (a message: 0).  OSC 1.0 puts no bound on it; a receiver has finite resources:
\* up to MaxNest levels must be delivered, deeper ones only must not raise / hang / stop the receiver
RECURSIVE BDepth(_)
BDepth(d) == IF d.k # "bundle" THEN 0
             ELSE 1 + (IF d.el = <<>> THEN 0
                       ELSE LET ds == {BDepth(d.el[i]) : i \in 1..Len(d.el)} IN CHOOSE x \in ds : \A y \in ds : y <= x)
MaxNest == 16
\* "good": must be delivered exactly; "bad": must invoke nothing; "grey": only no raise / no hang
Class(d, st) ==
    IF d.k = "bad" THEN "bad"
    ELSE IF d.k \in {"grey", "greymsg"} \/ (d.k = "bundle" /\ d.grey) THEN "grey"
    ELSE IF BDepth(d) > MaxNest THEN "grey"
    ELSE LET ms == FlatB(d) IN
         IF \E k \in 1..Len(ms) : MsgGrey(ms[k]) THEN "grey"
         \* a pattern whose meaning OSC 1.0 leaves open, with a matching responder listening
         ELSE IF \E k \in 1..Len(ms) : Unspec(ms[k].a) /\ \E i \in 1..Len(st.rs) : st.rs[i].kind = "matching" /\ st.rs[i].en
         THEN "grey"
         \* bundles whose depth-first order is not their time order: delivery order is not specified
         ELSE IF \E j, k \in 1..Len(ms) : j < k /\ LexLess(ms[k].tag, ms[j].tag) THEN "grey"
         ELSE "good"

(* ---- judging an observed delivery ---- *)
(* What L1 demands of the invocations observed for ONE message m (seg = the callbacks that ran, in order):
     - only responders accepted when the message arrived (F) may fire - or ones that a callback of this very
       delivery enabled and whose filters match the message (either is fine: the statement does not say; also
       when another callback of the delivery has freed it again meanwhile);
     - each at most once; with the message, sender, port, current function (and time, where comparable);
     - every responder of F fires, unless a callback of this delivery disabled or freed it - then either is
       fine, except when that callback belongs to a responder registered later on the same path of the same
       dispatcher (then it had its turn before);
     - responders on the same path of the same dispatcher that no callback of this delivery touched fire in
       registration order.
   The state afterwards is the state reached by the invocations that really happened.                  *)
SameKey(st0, x, y) == st0.rs[x].path = st0.rs[y].path /\ st0.rs[x].kind = st0.rs[y].kind
Pos(F, x) == CHOOSE n \in 1..Len(F) : F[n] = x
First(a, b) == IF a = "ok" THEN b ELSE a
EntryWhy(w, st0, F, e, m, src, via, tag) ==
    LET r == e.r  cur == w.st IN
    IF r \in ToSet(w.fired) THEN "EachOnce"
    ELSE IF r \notin ToSet(F) /\ ~(r \in w.enabled /\ Matches(cur.rs[r], m, src, via)) THEN
         (IF st0.rs[r].freed THEN "FreedNeverFires" ELSE IF ~st0.rs[r].en THEN "DisabledNeverFires" ELSE "ShouldNotFire")
    ELSE IF e.fn # cur.rs[r].fn \/ e.a # m.a \/ e.args # m.args \/ e.src # src \/ e.via # via THEN "CallbackArguments"
    ELSE IF tag # <<>> /\ tag # Immediately /\ e.tm # tag THEN "CallbackTime"
    ELSE "ok"
RECURSIVE Walk(_, _, _, _, _, _, _, _, _)
\* w = [st, fired, kills, enabled, why, raised, acted]
Walk(w, st0, F, seg, k, m, src, via, tag) ==
    IF k > Len(seg) THEN w
    ELSE LET e == seg[k]  r == e.r IN
         IF r \notin 1..Len(w.st.rs) THEN [w EXCEPT !.why = First(@, "UnknownResponder")]
         ELSE LET rr == w.st.rs[r]  acts == rr.beh.acts IN
              Walk([st |-> Invoke(w.st, r), fired |-> Append(w.fired, r),
                    kills |-> w.kills \cup {<<r, acts[j].i>> : j \in {j \in 1..Len(acts) : acts[j].op \in {"free", "disable"}}},
                    enabled |-> w.enabled \cup {acts[j].i : j \in {j \in 1..Len(acts) : acts[j].op = "enable"}},
                    why |-> First(w.why, EntryWhy(w, st0, F, e, m, src, via, tag)),
                    raised |-> w.raised \/ Raises(rr), acted |-> w.acted \/ acts # <<>>],
                   st0, F, seg, k + 1, m, src, via, tag)
\* one message: [st, why, raised, acted]
JudgeMsg(st0, m, src, via, tag, seg) ==
    LET F == Fire(st0, m, src, via)
        w == Walk([st |-> st0, fired |-> <<>>, kills |-> {}, enabled |-> {}, why |-> "ok", raised |-> FALSE, acted |-> FALSE],
                  st0, F, seg, 1, m, src, via, tag)
        fired == ToSet(w.fired)
        Excused(r) == \E p \in w.kills : p[2] = r /\ ~(p[1] \in ToSet(F) /\ SameKey(st0, p[1], r) /\ Pos(F, r) < Pos(F, p[1]))
        touched == {p[2] : p \in w.kills} \cup w.enabled      \* re-registered or removed meanwhile: no place in the order
        fs == w.fired
        inF == {n \in 1..Len(fs) : fs[n] \in ToSet(F) /\ fs[n] \notin touched}
        end == IF \E r \in ToSet(F) : r \notin fired /\ ~Excused(r) THEN "ShouldFire"
               ELSE IF \E i, j \in inF : i < j /\ SameKey(st0, fs[i], fs[j]) /\ Pos(F, fs[i]) > Pos(F, fs[j])
                    THEN "OrderIsRegistrationOrder"
               ELSE "ok" IN
    [st |-> w.st, why |-> First(w.why, end), raised |-> w.raised, acted |-> w.acted]

\* the callbacks of one datagram carry a delivery number d (1, 2, ... in order of appearance; one per message
\* that invoked anything): message k takes the next group if it is about that message
SegOf(log, d) == SelectSeq(log, LAMBDA x : x.d = d)
MaxD(log) == IF log = <<>> THEN 0 ELSE log[Len(log)].d
RECURSIVE JudgeAll(_, _, _, _, _, _, _)
\* acc = [st, why, at (message at which it failed), raised, acted]
JudgeAll(acc, msgs, k, d, src, via, log) ==
    IF k > Len(msgs)
    THEN IF d <= MaxD(log) THEN [acc EXCEPT !.why = First(@, "CallbackArguments")] ELSE acc     \* invocations about no message
    ELSE LET m == msgs[k]
             g == SegOf(log, d)
             mine == d <= MaxD(log) /\ g # <<>> /\ g[1].a = m.a /\ g[1].args = m.args
             x == JudgeMsg(acc.st, m, src, via, m.ctag, IF mine THEN g ELSE <<>>) IN
         JudgeAll([st |-> x.st, why |-> First(acc.why, x.why), at |-> IF acc.why = "ok" /\ x.why # "ok" THEN k ELSE acc.at,
                   raised |-> IF acc.why = "ok" THEN x.raised ELSE acc.raised, acted |-> IF acc.why = "ok" THEN x.acted ELSE acc.acted],
                  msgs, k + 1, IF mine THEN d + 1 ELSE d, src, via, log)
\* msgs: [tag, a, args, ctag] where ctag = the time tag if the callback time can be compared with it, else <<>>
Judge(st0, msgs, src, via, log) ==
    JudgeAll([st |-> st0, why |-> "ok", at |-> 0, raised |-> FALSE, acted |-> FALSE], msgs, 1, 1, src, via, log)
\* no demands (grey / malformed datagrams): just follow what really ran
RECURSIVE Follow(_, _, _)
Follow(st, log, k) == IF k > Len(log) THEN st
                      ELSE Follow(IF log[k].r \in 1..Len(st.rs) THEN Invoke(st, log[k].r) ELSE st, log, k + 1)
=============================================================================
