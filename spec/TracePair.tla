----------------------------- MODULE TracePair -----------------------------
(* C10: the same program run under NrtMain and under RtMain (controlled scheduler, several lateness vectors)
   must give the same values and the same (logical time, bundle) pairs; fresh NRT runs must be byte-identical.
   Each run was already validated on its own against LogicalTime (TraceTime); this module compares the runs
   with each other directly, which does not depend on the reference machine at all.
   Trace record: [id, names, nrt: events, rts: sequence of event sequences, score, shas].              *)
EXTENDS Naturals, Integers, Sequences, FiniteSets, TLC, Json, IOUtils
Traces == JsonDeserialize(IOEnv.VERIF_TRACES)
VARIABLES tid, l

Vals(ev, r) == SelectSeq(ev, LAMBDA e : e.r = r /\ e.k \in {"obs", "draw", "refused"})
Timed(ev) == {<<ev[i].stamp, ev[i].tag>> : i \in {j \in 1..Len(ev) : ev[j].k = "bndl" /\ ev[j].sk = "t"}}
Tags(ev) == {ev[i].tag : i \in {j \in 1..Len(ev) : ev[j].k = "bndl"}}
Rows(sc) == {<<sc[i].time, sc[i].tag>> : i \in 2..Len(sc)} \ {<<sc[j].time, sc[j].tag>> : j \in {k \in 1..Len(sc) : sc[k].tag = "/c_set"}}
RowTags(sc) == {sc[i].tag : i \in 2..Len(sc)} \ {"/c_set"}

Why(T) ==
    IF \E i \in 1..Len(T.shas) : T.shas[i] # T.shas[1] THEN "nondeterministic-score"
    ELSE IF \E k \in 1..Len(T.rts) : \E i \in 1..Len(T.names) : Vals(T.rts[k], T.names[i]) # Vals(T.nrt, T.names[i])
         THEN "values"
    ELSE IF \E k \in 1..Len(T.rts) : ~(Timed(T.rts[k]) \subseteq Rows(T.score)) THEN "bundle-time"
    ELSE IF \E k \in 1..Len(T.rts) : Tags(T.rts[k]) # RowTags(T.score) THEN "bundle-set"
    ELSE "ok"

TInit == tid \in 1..Len(Traces) /\ l = 1
TStep == /\ l = 1
         /\ LET w == Why(Traces[tid]) IN
            IF w = "ok" THEN PrintT(<<"ACC", Traces[tid].id>>) ELSE PrintT(<<"REJ", Traces[tid].id, 1, w>>)
         /\ l' = 0 /\ tid' = tid
TSpec == TInit /\ [][TStep]_<<tid, l>>
=============================================================================
