SPECIFICATION Spec
CONSTANTS
  NV = 12
  Mode = "thorough"
  NS = 0
  NB = 4
