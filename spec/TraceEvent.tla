---------------------------- MODULE TraceEvent ----------------------------
(* C->S binding for C14: validates observations of real sc3 events under NRT against Event.tla.
   lookup trace: [id, kind = "lookup", ev, obs]: obs[l] = projections of event(key) for one key; the value the chain
     operators give must be the observed one (in the unit the oracle's answer is expressed in).
   play trace: [id, kind = "play", E, start, lat, score, endu, exc]: score[l] = l-th bundle of the NRT score
     (only /s_new /n_set /n_free); it must be the l-th bundle of Score(E, start, lat); node ids are bound to the
     references of the expected score as they appear (a creation must carry an id not seen before); finally the
     numbers of bundles agree and the player ended at start + the sum of all deltas.  One verdict per trace.   *)
EXTENDS Event, Json, IOUtils
Traces == JsonDeserialize(IOEnv.VERIF_TRACES)
VARIABLES tid, l, exp, ids
tvars == <<tid, l, exp, ids>>

TInit == /\ tid \in 1..Len(Traces) /\ l = 0 /\ exp = <<>> /\ ids = <<>>
\* the expected score is computed once per trace, in a worker thread
Start == /\ l = 0 /\ l' = 1 /\ UNCHANGED <<tid, ids>>
         /\ exp' = IF Traces[tid].kind = "play"
                   THEN Score(Traces[tid].E, Traces[tid].start * (U \div 32), Traces[tid].lat * (U \div 32)) ELSE <<>>

LookupWhy(ev, o) ==
    IF o.exc # "" THEN "raises:" \o o.exc
    ELSE LET x == Lookup(ev, o.key) IN
         CASE x.k = "p64" -> IF o.p64 = x.n THEN "ok" ELSE o.key
           [] x.k = "hz" -> IF o.hz = x.n THEN "ok" ELSE o.key
           [] x.k = "mn" -> IF o.mn = x.n THEN "ok" ELSE o.key
           [] x.k = "u" -> IF o.u = x.n THEN "ok" ELSE o.key
           [] x.k = "au" -> IF o.au = x.n THEN "ok" ELSE o.key
           [] OTHER -> "ok"                       \* the oracle keeps this value symbolic / unspecified: no constraint

Len0(tr) == IF tr.kind = "lookup" THEN Len(tr.obs) ELSE Len(tr.score)
\* Bundles of equal time are listed in the order they were sent - except that a bundle whose time is "fuzzy" (fz: it
\* involves the non-dyadic default legato, the real float time may differ by an ulp from the lattice point) may change
\* places with bundles of the same lattice time.  Cand(l) = the expected bundles that may stand at position l.
Cand(o, k) == {j \in k..Len(exp) : /\ \A i \in k..(j - 1) : exp[i].t = exp[j].t /\ (exp[i].fz \/ exp[j].fz)
                                  /\ BundleWhy(o, exp[j], ids) = "ok"}
MoveTo(s, j, k) == [i \in 1..Len(s) |-> IF i < k \/ i > j THEN s[i] ELSE IF i = k THEN s[j] ELSE s[i - 1]]
Step == /\ l >= 1 /\ l <= Len0(Traces[tid])
        /\ LET tr == Traces[tid]
               cand == IF tr.kind = "play" /\ tr.exc = "" /\ l <= Len(exp) THEN Cand(tr.score[l], l) ELSE {}
               j == IF cand = {} THEN l ELSE CHOOSE x \in cand : \A y \in cand : x <= y
               why == IF tr.kind = "lookup" THEN LookupWhy(tr.ev, tr.obs[l])
                      ELSE IF tr.exc # "" THEN "raises"
                      ELSE IF l > Len(exp) THEN "extra-bundle"
                      ELSE BundleWhy(tr.score[l], exp[j], ids) IN
           IF why = "ok"
           THEN /\ l' = l + 1 /\ UNCHANGED tid
                /\ exp' = IF tr.kind = "play" /\ j # l THEN MoveTo(exp, j, l) ELSE exp
                /\ ids' = IF tr.kind = "play" /\ exp[j].cmd = "/s_new"
                          THEN [r \in DOMAIN ids \cup {exp[j].ref} |-> IF r = exp[j].ref THEN tr.score[l].id ELSE ids[r]]
                          ELSE ids
           ELSE /\ PrintT(<<"REJ", tr.id, l, why>>)
                /\ l' = 0 - 2 /\ UNCHANGED <<tid, exp, ids>>
Done == /\ l = Len0(Traces[tid]) + 1
        /\ LET tr == Traces[tid]
               why == IF tr.kind = "lookup" THEN "ok"
                      ELSE IF tr.exc # "" THEN "raises"
                      ELSE IF Len(exp) > Len(tr.score) THEN "missing-bundle:" \o exp[Len(tr.score) + 1].cmd
                      ELSE IF tr.endu # EndTime(tr.E, tr.start * (U \div 32)) THEN "end-time"
                      ELSE "ok" IN
           IF why = "ok" THEN PrintT(<<"ACC", tr.id>>) ELSE PrintT(<<"REJ", tr.id, l, why>>)
        /\ l' = 0 - 1 /\ UNCHANGED <<tid, exp, ids>>
TNext == Start \/ Step \/ Done
TSpec == TInit /\ [][TNext]_tvars
==========================================================================
