SPECIFICATION Spec
CONSTANT MaxLen = 5
INVARIANT PrefixOfLaw
INVARIANT LengthOfLaw
INVARIANT AtMostOneLost
