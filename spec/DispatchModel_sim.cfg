SPECIFICATION Spec
CONSTANTS
  MaxResp = 3
  MaxRecv = 6
  MaxOps = 14
  Rich = TRUE
INVARIANT OneShotOnce
INVARIANT EachOnce
INVARIANT OrdConsistent
