SPECIFICATION Spec
CONSTANTS
  MaxResp = 3
  MaxRecv = 6
  MaxOps = 14
  Mode = "rich"
INVARIANT SpentNotEnabled
INVARIANT EachOnce
INVARIANT OrdConsistent
PROPERTY SpentNeverFires
PROPERTY SpecIsLegal
PROPERTY NextDatagramProcessed
PROPERTY ArityTransparent
