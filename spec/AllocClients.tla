---------------------------- MODULE AllocClients ----------------------------
(* C16 across clients: two clients (two Server objects, possibly with DIFFERENT local max_logins options) registered
   with the same server, which told both of them the same number of logins and gave them different client ids.
   Each allocates and frees in its own partition per Alloc.tla (any legal address / "no space" only when full).
   TLC enumerates (local option of each, reported logins, client ids, space size, io offset, reserved prefix) and checks
   that the two never hold overlapping indices, that each stays inside its partition and inside the server's space,
   and that the partitions of ALL clients of a layout are pairwise disjoint.                                          *)
EXTENDS Naturals, Integers, Sequences, FiniteSets, TLC
CONSTANTS Totals, Locals, Reporteds, MaxN
A == INSTANCE Alloc WITH Cfgs <- {}, C <- 0, live <- {}, op <- 0, ret <- 0, prev <- {}
VARIABLES k, live1, live2
vars == <<k, live1, live2>>
Eff(loc) == A!EffLogins(loc, k.rep)
P1 == A!ClientCfgR(k.total, k.l1, k.rep, k.res, k.io, k.c1)
P2 == A!ClientCfgR(k.total, k.l2, k.rep, k.res, k.io, k.c2)
Init == /\ k \in {x \in [total : Totals, l1 : Locals, l2 : Locals, rep : Reporteds, c1 : 0 .. 7, c2 : 0 .. 7,
                             io : {0, 4}, res : {0, 1}] :
                      /\ x.c1 # x.c2
                      /\ x.c1 < A!EffLogins(x.l1, x.rep) /\ x.c2 < A!EffLogins(x.l2, x.rep)
                      /\ (x.rep = 0 => x.l1 = x.l2)}        \* nothing reported: both must hold the same option
        /\ live1 = {} /\ live2 = {}
Alloc1 == \E n \in 1 .. MaxN : \E a \in A!Legal(live1, P1, n) : live1' = A!AfterAlloc(live1, n, a) /\ UNCHANGED <<k, live2>>
Alloc2 == \E n \in 1 .. MaxN : \E a \in A!Legal(live2, P2, n) : live2' = A!AfterAlloc(live2, n, a) /\ UNCHANGED <<k, live1>>
Free1 == \E r \in live1 : live1' = A!AfterFree(live1, r.a) /\ UNCHANGED <<k, live2>>
Free2 == \E r \in live2 : live2' = A!AfterFree(live2, r.a) /\ UNCHANGED <<k, live1>>
Next == Alloc1 \/ Alloc2 \/ Free1 \/ Free2
Spec == Init /\ [][Next]_vars
CrossDisjoint == A!Occ(live1) \cap A!Occ(live2) = {}
EachInside == A!InsidePartition(live1, P1) /\ A!InsidePartition(live2, P2) /\ A!Disjoint(live1) /\ A!Disjoint(live2)
WithinSpace == (A!Occ(live1) \cup A!Occ(live2)) \subseteq k.io .. (k.io + k.total - 1)
\* the layout itself: partitions of all clients of the server are pairwise disjoint pieces of the space
Part(c) == A!ClientCfg(k.total, Eff(k.l1), k.res, k.io, c)
Range(c) == A!Lo(Part(c)) .. (A!Hi(Part(c)) - 1)
PartitionsApart == \A c, d \in 0 .. (Eff(k.l1) - 1) :
    /\ (c # d => Range(c) \cap Range(d) = {})
    /\ Range(c) \subseteq k.io .. (k.io + k.total - 1)
=============================================================================
