SPECIFICATION Spec
CONSTANTS
  NV = 8
  Mode = "quick"
  NS = 0
  NB = 256
INVARIANT LawsHold
INVARIANT DefinedOnly
INVARIANT Immutable
PROPERTY PatternConstant
