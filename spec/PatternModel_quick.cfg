SPECIFICATION Spec
CONSTANTS
  NV = 12
  Mode = "quick"
  NS = 0
  NB = 256
INVARIANT LawsHold
INVARIANT DefinedOnly
INVARIANT Immutable
PROPERTY PatternConstant
