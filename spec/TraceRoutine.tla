---------------------------- MODULE TraceRoutine ----------------------------
(* C->S binding for C11: validates executions recorded from real sc3 Routine / Condition / FlowVar
   objects (driver drivers/c11_routine.py) against the interpreter of Routine.tla.
   A trace is [id, prog, conds, flows, ev]; an event is what one external call did:
   [op, t, v, res [k, x, v], states (routine -> state name), cur (name of main.current_tt),
    msecs (main thread's logical time, eighths), w (condition -> waiting thread names),
    q (<<t, routine>> of the NRT scheduler queue), log (what the bodies observed)].
   The expectation for every event is computed with Routine!Ext; `why` names the first L1 clause
   that the recorded execution breaks.  VERIF_QMODE selects the queue semantics (keyed | multi). *)
EXTENDS Naturals, Integers, Sequences, FiniteSets, TLC, Json, IOUtils
QMode == IF "VERIF_QMODE" \in DOMAIN IOEnv THEN IOEnv.VERIF_QMODE ELSE "keyed"
ProgSel == 0 MaxLen == 0 MaxSteps == 0 MaxTime == 0
VARIABLES prog, st, last, n
INSTANCE Routine
Traces == JsonDeserialize(IOEnv.VERIF_TRACES)
VARIABLES tid, l
tvars == <<prog, st, last, n, tid, l>>

SeqSet(s) == {s[i] : i \in 1..Len(s)}
TInit == /\ tid \in 1..Len(Traces) /\ l = 1
         /\ prog = Traces[tid].prog
         /\ st = InitSt(Traces[tid].prog, SeqSet(Traces[tid].conds), SeqSet(Traces[tid].flows))
         /\ last = [op |-> "init", t |-> "", v |-> 0, res |-> Ret(NoneV)] /\ n = 0

ResEq(obs, exp) == obs.k = exp.k /\ (exp.x = "*" \/ (obs.x = exp.x /\ obs.v = exp.v))
LogEq(o, x) == /\ o.r = x.r /\ o.pc = x.pc /\ o.ev = x.ev /\ ResEq(o, x)
LogCtx(o, x) == o.cur = x.cur /\ o.secs = x.secs
ObsQ(e) == [i \in 1..Len(e.q) |-> [t |-> e.q[i][1], r |-> e.q[i][2]]]
L1OfSpec(s) == /\ StackRestoredAtRest(s) /\ StackRestoredNested(s) /\ NoRunningAtRest(s) /\ DoneRaisesStop(s)
               /\ PausedRaises(s) /\ SelfOpsRefused(s) /\ StopResetSucceed(s) /\ NextReturnsYielded(s) /\ TransitionTable(s)
               /\ WakeOnSignal(s) /\ AtMostOnceQueued(s) /\ QueueSorted(s)

WhyLog(olog, xlog) ==
    LET m == IF Len(olog) < Len(xlog) THEN Len(olog) ELSE Len(xlog)
        bad == {i \in 1..m : ~(LogEq(olog[i], xlog[i]) /\ LogCtx(olog[i], xlog[i]))} IN
    IF bad = {} THEN (IF Len(olog) = Len(xlog) THEN "ok" ELSE "BodyLogLength")
    ELSE LET i == CHOOSE j \in bad : \A k \in bad : j <= k IN
         IF ~LogEq(olog[i], xlog[i]) THEN (IF xlog[i].ev = "call" THEN "NestedResult" ELSE "BodyLog")
         ELSE "StackRestoredNested"

Why(e, a) ==
    LET s == a.st
        pre == IF IsRoutineOp(e.op) THEN st.rs[e.t].state ELSE "" IN
    IF s.over THEN "skip:cleanup-depth"      \* self-restarting clean-up code deeper than the spec follows
    ELSE IF e.cur # "main" THEN "StackRestored"
    ELSE IF e.msecs # s.secs["main"] THEN (IF e.op = "tick" THEN "TickTime" ELSE "StackRestoredTime")
    ELSE IF \E r \in DOMAIN s.rs : e.states[r] # s.rs[r].state THEN "TransitionTable"
    ELSE IF ~ResEq(e.res, a.res) THEN
        (IF e.op = "next" THEN (IF pre = "Done" THEN "DoneRaisesStop" ELSE IF pre = "Paused" THEN "PausedRaises"
                                ELSE "NextReturnsYielded")
         ELSE "OpResult")
    ELSE IF WhyLog(e.log, s.log) # "ok" THEN WhyLog(e.log, s.log)
    ELSE IF \E c \in DOMAIN s.cond : e.w[c] # s.cond[c].w THEN "WakeExactlyOnce"
    ELSE IF ObsQ(e) # s.q THEN "WakeSchedule"
    ELSE IF ~L1OfSpec(s) THEN "machinery:spec-breaks-L1"
    ELSE "ok"

\* the external call led (possibly deep inside) to next() of a routine that is running
Reentrant(s) == \E i \in 1..Len(s.calls) : s.calls[i].op = "next" /\ s.calls[i].pre = "Running"

Step == /\ l >= 1 /\ l <= Len(Traces[tid].ev)
        /\ LET e == Traces[tid].ev[l]
               a == Ext(st, e)
               w0 == Why(e, a)
               why == IF w0 # "ok" /\ Reentrant(a.st) THEN w0 \o "@reentrant-next" ELSE w0 IN
           IF why = "ok"
           THEN /\ st' = a.st /\ l' = l + 1 /\ UNCHANGED <<prog, last, n, tid>>
           ELSE /\ PrintT(<<"REJ", Traces[tid].id, l, why>>)
                /\ l' = 0 /\ UNCHANGED <<prog, st, last, n, tid>>
Done == /\ l = Len(Traces[tid].ev) + 1
        /\ PrintT(<<"ACC", Traces[tid].id>>)
        /\ l' = 0 - 1 /\ UNCHANGED <<prog, st, last, n, tid>>
TNext == Step \/ Done
TSpec == TInit /\ [][TNext]_tvars
=============================================================================
