SPECIFICATION TSpec
