------------------------- MODULE TraceTaskQueue -------------------------
(* C->S binding for C09: validates recorded executions of the real sc3 TaskQueue against the L1
   operators of TaskQueue.tla.  A trace is [id, ev]; each event is [n, p, t, r] where r = [k, v]
   is what the real call returned (or the kind of exception).  Every invariant of L1 is
   evaluated after every event.  One verdict line per trace.                              *)
EXTENDS Naturals, Integers, Sequences, FiniteSets, TLC, Json, IOUtils
Tasks == {} Prios == {} MaxCtr == 0 MaxPop == 0
VARIABLES q, ctr, ret, popped
INSTANCE TaskQueue
Traces == JsonDeserialize(IOEnv.VERIF_TRACES)
VARIABLES tid, l
tvars == <<q, ctr, ret, popped, tid, l>>

TInit == /\ tid \in 1..Len(Traces) /\ l = 1
         /\ q = <<>> /\ ctr = 0 /\ ret = R("none", <<>>) /\ popped = <<>>

AtMostOnce(pp) == \A i, j \in 1..Len(pp) : i # j => pp[i].s # pp[j].s
Why(e, r, pp) ==
    IF r.ret # e.r THEN "ret"                       \* the call returned something else
    ELSE IF ~Sorted(r.q) THEN "Sorted"
    ELSE IF ~UniqueTasks(r.q) THEN "UniqueTasks"
    ELSE IF ~AtMostOnce(pp) THEN "AtMostOnce"
    ELSE IF e.n = "empty" /\ (e.r.k = "true") # (r.q = <<>>) THEN "EmptyAgrees"
    ELSE IF e.n \in {"iter"} /\ e.r.v # Pairs(r.q) THEN "IterAgrees"
    ELSE "ok"

Step == /\ l >= 1 /\ l <= Len(Traces[tid].ev)
        /\ LET e == Traces[tid].ev[l]
               r == Apply(q, ctr, e)
               np == IF e.n = "pop" /\ q # <<>> THEN Append(popped, q[1])
                     ELSE IF e.n = "clear" THEN <<>> ELSE popped
               why == Why(e, r, np) IN
           IF why = "ok"
           THEN /\ q' = r.q /\ ctr' = r.ctr /\ ret' = r.ret /\ l' = l + 1 /\ tid' = tid
                /\ popped' = np
           ELSE /\ PrintT(<<"REJ", Traces[tid].id, l, why>>)
                /\ l' = 0 /\ UNCHANGED <<q, ctr, ret, popped, tid>>
Done == /\ l = Len(Traces[tid].ev) + 1
        /\ PrintT(<<"ACC", Traces[tid].id>>)
        /\ l' = 0 - 1 /\ UNCHANGED <<q, ctr, ret, popped, tid>>
TNext == Step \/ Done
TSpec == TInit /\ [][TNext]_tvars
==========================================================================
