SPECIFICATION SimSpec
CONSTANTS
  Levels <- LevelsS
  Times <- TimesS
  Curves <- CurvesS
  MaxSeg = 5
  MaxPts = 1
  QTicks = {0, 1, 8, 9, 16, 24, 32, 40, 64, 65, 72, 100, 128, 200, 400}
INVARIANT FormatWellFormed
INVARIANT NodesEncoded
INVARIANT WrapLaw
INVARIANT ConstructorNodes
INVARIANT PointsSorted
INVARIANT AtLaws
INVARIANT WalkRefines
