----------------------------- MODULE TraceTime -----------------------------
(* C->S binding for C05 / C07 / C10: a recorded execution of a routine program on the real library
   (mode "nrt": NrtMain; mode "rt": RtMain under the controlled scheduler with timer lateness) is followed
   through the LogicalTime reference machine.  Trace record: [id, mode, prog, ev, score, rawscore, raw_complete, tail].
   Events carry what was observed: obs (routine, resumption index, clock.seconds, clock.beats), bndl
   (captured datagram: tag, timed/immediate/plain, stamp, nested stamp), refused (send raised), draw
   (value mapped to <seed, index>), end (elapsed time / queues).  why names the first failing clause:
     not-enabled   a routine resumed although it is not next (NRT: not the globally earliest)
     obs / bndl / refused / draw   the observation differs from the reference (which field: see log)
     time-decreased   NRT logical time went backwards between two executed tasks
     unfinished / elapsed   something never ran / elapsed_time() is not the last scheduled instant
     score / score-order / marker / raw   NRT score differs from the sends sorted by (time, send order)   *)
EXTENDS LogicalTime, Json, IOUtils
Traces == JsonDeserialize(IOEnv.VERIF_TRACES)
VARIABLES tid, l, st, seen, up
tv == <<tid, l, st, seen, up>>
(* up: play() calls of plain threads that have been invoked ("uplay" event, logged before the call) and have not yet
   taken effect.  play() takes the library lock first, so it takes effect at some point between the call and its return
   ("uplayed"): that point is not logged, TLC tries every one (silent step TLin), the trace is accepted if one fits. *)

TInit == /\ tid \in 1..Len(Traces) /\ l = 1 /\ seen = 0 /\ up = <<>>
         /\ st = Main(Init0(Traces[tid].prog), Traces[tid].prog, Traces[tid].mode, 1)

SameObs(a, b) == a.k = b.k /\ a.r = b.r /\ a.n = b.n /\ a.secs = b.secs /\ a.beats = b.beats /\ a.tag = b.tag
                 /\ a.sk = b.sk /\ a.stamp = b.stamp /\ a.subk = b.subk /\ a.sub = b.sub /\ a.sub2 = b.sub2

(* T.lenient (C07): what a routine reads as its logical time is C05's business; an obs that differs only in the
   times is passed over, so that the stamps of its bundles are still judged against the reference's logical time *)
Match(T, a, b) == SameObs(a, b) \/ (T.lenient /\ a.k = "obs" /\ b.k = "obs" /\ a.r = b.r /\ a.n = b.n)

(* NRT score = root node, then every send and the tail marker (added last, at last wake + tail) in
   (time, send order).  The marker closes the score whenever no bundle is stamped later than it
   (DESIGN 1.4); the general form is checked here.                                            *)
ScoreWhy(T, s) ==
    LET marker == [time |-> s.last + T.tail, seq |-> Len(s.sends), tag |-> "/c_set", subk |-> "-", sub |-> 0, sub2 |-> 0]
        exp == ExpectedScore([s EXCEPT !.sends = Append(s.sends, marker)])
        got == T.score
        n == Len(got) IN
    IF n # Len(exp) + 1 THEN "score-length"
    ELSE IF got[1].tag # "/g_new" \/ got[1].time # 0 THEN "score-root"
    ELSE IF \E i \in 1..n - 1 : got[i].time > got[i + 1].time THEN "score-order"
    ELSE IF \E i \in 1..Len(exp) : got[i + 1].tag = "/c_set" /\ got[i + 1] # exp[i] THEN "marker"
    ELSE IF \E i \in 1..Len(exp) : got[i + 1] # exp[i] THEN "score"
    ELSE IF ~T.raw_complete \/ T.rawscore # T.score THEN "raw"     \* binary score = the same bundles, same order
    ELSE "ok"

(* asynchronous events of plain threads: a bundle sent outside any routine carries the physical time of the
   call plus its latency; an incoming message is delivered with its own timetag, or the arrival time *)
MainInstr(T, tag) == LET ix == {j \in 1..Len(T.prog.main) : T.prog.main[j].s = tag} IN T.prog.main[CHOOSE j \in ix : TRUE]
Async(T, s, e) ==
    IF ~\E j \in 1..Len(T.prog.main) : T.prog.main[j].s = e.tag THEN "unknown-tag" ELSE
    LET i == MainInstr(T, e.tag) IN
    IF e.k = "ubndl"
    THEN LET imm == i.b = 1 \/ i.a < 0 IN
         IF imm THEN (IF e.sk = "i" THEN "ok" ELSE "ubndl")
         ELSE IF e.sk = "t" /\ e.stamp = e.secs + i.a THEN "ok"
         \* a separate clause for one recognisable cause: the bundle carries the logical time of the routine a clock
         \* thread was inside of when the plain thread sent it (e.r2), instead of the physical time of the call
         ELSE IF e.sk = "t" /\ e.r2 \in DOMAIN s.rt /\ e.stamp = s.rt[e.r2].lt + i.a THEN "ubndl-in-routine"
         ELSE "ubndl"
    ELSE \* recv: e.secs = time argument given to the responder, e.stamp = arrival time
         IF i.b = 0 THEN (IF e.secs = i.a THEN "ok" ELSE "recv")
         ELSE IF e.secs = e.stamp THEN "ok" ELSE "recv"

Step(T, s, e, k) ==
    \* k = number of reference outputs already matched; outputs accumulate in s.out
    IF e.k \in {"ubndl", "recv"} THEN [st |-> s, seen |-> k, why |-> Async(T, s, e)] ELSE
    IF e.k \in {"uplay", "uplayed"} THEN [st |-> s, seen |-> k, why |-> "ok"] ELSE       \* see TStep / TLin
    IF k < Len(s.out)
    THEN IF Match(T, s.out[k + 1], e) THEN [st |-> s, seen |-> k + 1, why |-> "ok"]
         ELSE [st |-> s, seen |-> k, why |-> s.out[k + 1].k]
    ELSE IF e.k = "obs"
    THEN LET s0 == DropFor(s, T.mode, e.r) IN
         IF e.r \notin DOMAIN s0.rt \/ ~Enabled(s0, T.mode, e.r) THEN [st |-> s0, seen |-> k, why |-> "not-enabled"]
         ELSE IF T.mode = "nrt" /\ e.secs < s0.last THEN [st |-> s0, seen |-> k, why |-> "time-decreased"]
         ELSE LET s1 == Wake(s0, T.prog, T.mode, e.r) IN
              IF s1.bad # "ok" THEN [st |-> s1, seen |-> k, why |-> s1.bad]
              ELSE IF Len(s1.out) > k /\ Match(T, s1.out[k + 1], e) THEN [st |-> s1, seen |-> k + 1, why |-> "ok"]
              ELSE [st |-> s1, seen |-> k, why |-> "obs"]
    ELSE IF e.k = "end"
    THEN LET s0 == DropPaused(s) IN
         IF ~AllEmpty(s0) THEN [st |-> s0, seen |-> k, why |-> "unfinished"]
         ELSE IF T.mode = "nrt" /\ e.secs # s0.last THEN [st |-> s0, seen |-> k, why |-> "elapsed"]
         ELSE IF T.mode = "nrt" THEN [st |-> s0, seen |-> k, why |-> ScoreWhy(T, s0)]
         ELSE [st |-> s0, seen |-> k, why |-> "ok"]
    ELSE [st |-> s, seen |-> k, why |-> "unexpected-" \o e.k]

TStep == /\ l >= 1 /\ l <= Len(Traces[tid].ev)
         /\ ~(Traces[tid].ev[l].k = "uplayed" /\ up # <<>>)       \* it has taken effect when it returns
         /\ LET e == Traces[tid].ev[l]
                r == Step(Traces[tid], st, e, seen) IN
            IF r.why = "ok" THEN /\ st' = r.st /\ seen' = r.seen /\ l' = l + 1 /\ tid' = tid
                                 /\ up' = IF e.k = "uplay" THEN Append(up, [r |-> e.r, secs |-> e.secs]) ELSE up
            ELSE /\ PrintT(<<"REJ", Traces[tid].id, l, r.why>>)
                 /\ (r.seen < Len(r.st.out) => PrintT(<<"EXPECTED", Traces[tid].id, r.st.out[r.seen + 1]>>))
                 /\ l' = 0 /\ UNCHANGED <<st, seen, tid, up>>
\* a plain thread's play() of a routine without naming a clock takes effect: SystemClock, at the physical time of the call
TLin == /\ l >= 1 /\ up # <<>>
        /\ st' = PlayQ(st, Traces[tid].prog, up[1].secs, up[1].r, "", "sys", "main", 0, 0)
        /\ up' = Tail(up) /\ UNCHANGED <<tid, l, seen>>
TDone == /\ l = Len(Traces[tid].ev) + 1 /\ up = <<>>
         /\ IF seen = Len(st.out) THEN PrintT(<<"ACC", Traces[tid].id>>)
            ELSE PrintT(<<"REJ", Traces[tid].id, l, "missing-" \o st.out[seen + 1].k>>)
         /\ l' = 0 - 1 /\ UNCHANGED <<st, seen, tid, up>>
TSpec == TInit /\ [][TStep \/ TLin \/ TDone]_tv
=============================================================================
