------------------------------ MODULE NodeIds ------------------------------
(* C16, second sentence: "Node ids handed out are pairwise distinct within the id window and lie
   in the requesting client's id range."

   A node id is prefix * M + low, M = 2^26 (scaled down in the design model).  Client k owns the
   prefix k; its temporary ids are the lows InitTemp .. M-1 (lows below InitTemp are reserved for
   permanent nodes such as the default group).  The id window is W = M - InitTemp: that many ids
   can be alive before the counter comes round again.

   L1 (any allocator): Alloc hands out ANY id of the client's range that differs from the W-1
   ids handed out before it.  L2 (sc3 NodeIDAllocator.alloc): x = _temp;
   _temp = wrap(x + 1, init, M - 1); return x | (user << 26).  TLC checks L2 => L1.
   The operators InClientRange / DistinctWithinWindow judge recorded id sequences of the real
   allocator in TraceNodeIds.tla with the real constants.                                    *)
EXTENDS Naturals, Integers, Sequences, FiniteSets, TLC

Prefix(id, m) == id \div m
Low(id, m) == id % m
Window(m, init) == m - init
InClientRange(id, m, init, client) == id >= 0 /\ Prefix(id, m) = client /\ Low(id, m) >= init
\* any W consecutive ids are pairwise distinct
DistinctWithinWindow(h, w) == \A i, j \in 1 .. Len(h) : (i < j /\ j - i < w) => h[i] # h[j]
IdsWhy(h, m, init, client) ==
    IF \E i \in 1 .. Len(h) : ~InClientRange(h[i], m, init, client) THEN "InClientRange"
    ELSE IF ~DistinctWithinWindow(h, Window(m, init)) THEN "DistinctWithinWindow"
    ELSE "ok"

(* ---- design model: L2 counter + L1 window, refinement as invariants ---- *)
CONSTANTS M, Inits, Clients, MaxLen
VARIABLES init, client, temp, hist
vars == <<init, client, temp, hist>>
Wrap(x, lo, hi) == ((x - lo) % (hi - lo + 1)) + lo
Init == /\ init \in Inits /\ client \in Clients
        /\ temp \in init .. (M - 1)            \* the counter may stand anywhere (incl. near the top)
        /\ hist = <<>>
Alloc == /\ hist' = Append(hist, temp + client * M)      \* x | (user << 26), x < 2^26
         /\ temp' = Wrap(temp + 1, init, M - 1)
         /\ UNCHANGED <<init, client>>
Next == Alloc
Spec == Init /\ [][Next]_vars
Bound == Len(hist) <= MaxLen
InvRange == \A i \in 1 .. Len(hist) : InClientRange(hist[i], M, init, client)
InvDistinct == DistinctWithinWindow(hist, Window(M, init))
\* the L1 step: the newest id was a legal choice (differs from the W-1 ids before it)
InvL1Step == hist # <<>> =>
    LET n == Len(hist)
        recent == {hist[i] : i \in {k \in 1 .. (n - 1) : n - k < Window(M, init)}}
    IN hist[n] \notin recent
\* the window is tight: the id handed out W calls ago comes back (so W is THE window)
InvWindowTight == \A i, j \in 1 .. Len(hist) : (j - i = Window(M, init)) => hist[i] = hist[j]
\* ids of different clients never meet
ClientsApart == \A i \in 1 .. Len(hist) : \A c \in Clients \ {client} : ~InClientRange(hist[i], M, init, c)
=============================================================================
