------------------------------- MODULE EnvMC -------------------------------
(* C19, multichannel dimension: design model for the expansion operators of Env.tla (NChan, Chan, FormatMC).
   TLC enumerates small multichannel envelopes (every entry a plain value or a list of 1-3 channel values:
   numbers, names, mixed) and checks the expansion laws.                                                *)
EXTENDS Integers, Sequences, FiniteSets, TLC
VARIABLES m, q
vars == <<m, q>>
E == INSTANCE Env WITH env <- <<>>, op <- "", tq <- 0, fmt <- <<>>, val <- <<>>, part <- <<>>,
                       Levels <- {}, Times <- {}, Curves <- {}, MaxSeg <- 0, MaxPts <- 0, QTicks <- {}
CONSTANTS MaxSegs, Small
LvE == IF Small THEN {<<E!Z>>, <<E!Z, E!One>>, <<E!One, <<1, 2>>, <<0 - 1, 2>>>>}
       ELSE {<<E!Z>>, <<E!One>>, <<E!Z, E!One>>, <<E!One, <<1, 2>>, <<0 - 1, 2>>>>}
TmE == {<<E!One>>, <<<<1, 2>>, E!One>>}
CvE == IF Small THEN {<<E!Cv("lin")>>, <<E!Cv("sqr"), E!Num(<<5, 2>>)>>, <<E!Cv("hold"), E!Cv("step"), E!Num(E!Z)>>, <<E!Cv("foo"), E!Cv("lin")>>}
       ELSE {<<E!Cv("lin")>>, <<E!Cv("lin"), E!Cv("exp")>>, <<E!Cv("sqr"), E!Num(<<5, 2>>)>>, <<E!Cv("hold"), E!Cv("step"), E!Num(E!Z)>>,
        <<E!Cv("foo"), E!Cv("lin")>>}
Seqs(S, lo, hi) == UNION {[1..k -> S] : k \in lo..hi}
Init == m = <<>> /\ q = 0
Build == /\ m = <<>>
         /\ \E n \in 1..MaxSegs : \E lv \in [1..(n + 1) -> LvE], tm \in Seqs(TmE, 1, n), cv \in Seqs(CvE, 1, n) :
              m' = E!MkEnv(lv, tm, cv, <<>>, <<>>, E!Z) /\ q' = 0
Next == Build
Spec == Init /\ [][Next]_vars

Has == m # <<>>
\* as many channels as the longest list, never fewer than one
ChannelCount == Has => E!NChan(m) >= 1 /\ \A i \in 1..Len(m.lv) : Len(m.lv[i]) <= E!NChan(m)
\* every channel is an ordinary envelope with the same number of segments and nodes
ChannelsAreEnvelopes == (Has /\ E!ValidMC(m)) =>
    \A c \in 1..E!NChan(m) : LET f == E!FormatMC(m).v[c] IN
        Len(f) = 4 + 4 * (Len(m.lv) - 1) /\ f[2] = (Len(m.lv) - 1) * E!FP /\ f[3] = E!FormatMC(m).v[1][3]
\* plain entries are the same in every channel; a list delivers its own values in order, wrapping
EntriesExpand == (Has /\ E!ValidMC(m)) =>
    \A c \in 1..E!NChan(m) : \A i \in 1..Len(m.lv) :
        E!Chan(m, c).lv[i] = m.lv[i][((c - 1) % Len(m.lv[i])) + 1]
\* a name in a list of curves is a shape of its channel only: curvature 0 there, shape 5 exactly for numbers
NamesStayShapes == (Has /\ E!ValidMC(m)) =>
    \A c \in 1..E!NChan(m) : \A i \in 1..(Len(m.lv) - 1) :
        LET f == E!FormatMC(m).v[c]
            cu == E!CurveOf(E!Chan(m, c), i) IN
        /\ (cu.nm # "#" => f[4 * i + 4] = 0 /\ f[4 * i + 3] = E!ShapeNum(cu.nm) * E!FP)
        /\ (cu.nm = "#" => f[4 * i + 3] = 5 * E!FP)
\* an envelope whose entries all have one value is the ordinary envelope
OneChannelIsPlain == (Has /\ E!NChan(m) = 1 /\ E!ValidMC(m)) => E!FormatMC(m).v = <<E!FormatSeq(E!Chan(m, 1))>>
\* an invalid name in any channel refuses the whole envelope
InvalidRefused == Has => (E!FormatMC(m).k = "exc" <=> \E c \in 1..E!NChan(m) : ~E!ValidCurves(E!Chan(m, c)))
=============================================================================
