SPECIFICATION TSpec
