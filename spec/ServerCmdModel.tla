--------------------------- MODULE ServerCmdModel ---------------------------
(* Design model for C17: TLC enumerates API histories over a small population (nodes, buffers,
   buses, bind blocks with a raise point anywhere) and feeds the spec's own expected output back
   into the trace oracle Why().  It checks that
     - everything ServerCmd.tla expects on the wire is well-typed per the command table, mentions
       only ids the client allocated, creates with the object's own id, frees once (SelfConsistent);
     - the wire never carries part of a bind block: unchanged while the block is open, one bundle
       holding exactly the held-back messages in issue order after a normal exit, nothing after
       an exception (BindAtomic);
     - a second free of a buffer / bus emits nothing and ids return to the allocator (FreeLaws). *)
EXTENDS ServerCmd
CONSTANTS Client, MaxObj, MaxCalls, ActNames, NShapes, Wide,
          BindFocus, \* TRUE: only a handful of calls, so that blocks with syncs and raise points get 6+ calls deep
          Trace      \* TRUE: print <<"ACT", action>> for every transition (vacuity guard; TLC's -coverage cannot cope with this module)
VARIABLES st, wire, held, mark, ok, calls, last, issued
vars == <<st, wire, held, mark, ok, calls, last, issued>>

Cfg0 == [client |-> Client, logins |-> 2, nbuf |-> 6, ncb |-> 4, nab |-> 8, io |-> 4, initnode |-> 1000, rt |-> 1,
         latency |-> 200, defgroup |-> (IF Client = 0 THEN 1 ELSE 33554432), groups |-> <<1, 33554432>>]
E(o, h, tk, t, act, a, n, cm, ids) ==
    [op |-> o, h |-> h, tk |-> tk, t |-> t, act |-> act, def |-> "d", a |-> a, n |-> n, cm |-> cm, ids |-> ids,
     em |-> <<>>, exc |-> ""]
TI(n) == [k |-> "i", i |-> n, s |-> "", c |-> <<>>]
TF(n) == [k |-> "f", i |-> n, s |-> "", c |-> <<>>]
TS(s) == [k |-> "s", i |-> 0, s |-> s, c |-> <<>>]
TL(c) == [k |-> "l", i |-> 0, s |-> "", c |-> c]
TD(c) == [k |-> "d", i |-> 0, s |-> "", c |-> c]
TO(h) == [k |-> "obj", i |-> h, s |-> "", c |-> <<>>]
TM(h) == [k |-> "map", i |-> h, s |-> "", c |-> <<>>]
Handles(kinds) == {h \in 1 .. Len(st.obj) : st.obj[h].kind \in kinds}
Shapes == << <<TS("amp"), TL(<<TF(1), TI(2)>>), TI(3), TF(-8)>>,
            <<TD(<<TS("freq"), TL(<<TI(1), TI(2)>>), TS("pan"), TF(4)>>)>>,
            <<TS("freq"), TI(440)>>, <<>> >>
ArgSet == {Shapes[k] : k \in 1 .. NShapes}
           \cup {<<TS("bus"), TO(h), TS("in"), TM(h)>> : h \in Handles({"cbus"})}
           \cup {<<TS("buf"), TL(<<TO(h)>>)>> : h \in Handles({"buf"})}
Targets == {<<"none", 0>>, <<"server", 0>>} \cup {<<"obj", h>> : h \in Handles({"synth", "group"})}
NextNode == Cfg0.initnode + Len(st.recent) + Client * RealM

Init == st = InitState(Cfg0) /\ wire = <<>> /\ held = <<>> /\ mark = <<>> /\ ok = "ok" /\ calls = 0 /\ last = "init" /\ issued = <<>>
Do(e0) ==
    LET x == Step(st, e0)
        e == [e0 EXCEPT !.em = x.em, !.exc = x.exc]
        solo == Apply(st, e0) IN          \* what the same call would send outside a block
    /\ calls < MaxCalls /\ Len(st.obj) <= MaxObj
    /\ ok' = Why(st, e)
    /\ st' = x.st /\ wire' = wire \o x.em /\ calls' = calls + 1 /\ last' = e0.op
    /\ held' = IF e0.op \in {"bind_enter", "sync"} THEN <<>>
               ELSE IF st.inbind /\ e0.op # "bind_exit" THEN held \o MsgsOf(solo.em) ELSE held
    /\ mark' = IF e0.op = "bind_enter" THEN wire ELSE IF e0.op = "sync" THEN wire \o x.em ELSE mark
    \* independent bookkeeping of what must have reached the server so far (the '/sync' markers aside)
    /\ issued' = IF e0.op \in {"bind_enter", "sync"} THEN (IF st.inbind THEN issued \o held ELSE issued)
                 ELSE IF e0.op = "bind_exit" THEN (IF e0.n[1] = 1 \/ st.poison THEN issued ELSE issued \o held)
                 ELSE IF st.inbind THEN issued
                 ELSE issued \o MsgsOf(solo.em)

NewSynth == \/ \E tg \in Targets, act \in ActNames :
                 Do(E("synth", 0, tg[1], tg[2], act, Shapes[1], <<>>, "none", <<NextNode>>))
            \/ \E a \in ArgSet, o \in {"synth", "paused", "grain"} :
                 Do(E(o, 0, "none", 0, "tail", a, <<>>, "none", IF o = "grain" THEN <<>> ELSE <<NextNode>>))
Replace == \E h \in Handles({"synth"}), same \in {0, 1} :
              Do(E("replace", 0, "obj", h, "addReplace", <<TS("freq"), TI(1)>>, <<same>>, "none",
                   <<IF same = 1 THEN st.obj[h].id ELSE NextNode>>))
NewGroup == \/ \E tg \in Targets, act \in ActNames : Do(E("group", 0, tg[1], tg[2], act, <<>>, <<0>>, "none", <<NextNode>>))
            \/ Do(E("group", 0, "server", 0, "addToTail", <<>>, <<1>>, "none", <<NextNode>>))
NodeCmd == \E h \in Handles({"synth", "group"}) :
    \/ \E a \in ArgSet : Do(E("set", h, "none", 0, "", a, <<>>, "none", <<>>))
    \/ Do(E("setn", h, "none", 0, "", <<TS("freq"), TL(<<TI(1), TF(4)>>), TI(2), TF(8)>>, <<>>, "none", <<>>))
    \/ \E b \in Handles({"cbus"}) :
          \/ Do(E("map", h, "none", 0, "", <<TS("freq"), TO(b)>>, <<>>, "none", <<>>))
          \/ Do(E("mapn", h, "none", 0, "", <<TS("freq"), TO(b), TI(1), TI(0 - 1)>>, <<>>, "none", <<>>))
    \/ Do(E("fill", h, "none", 0, "", <<TS("freq"), TI(2), TF(4)>>, <<>>, "none", <<>>))
    \/ \E f \in {0, 1} : Do(E("run", h, "none", 0, "", <<>>, <<f>>, "none", <<>>))
    \/ \E r \in (IF Wide THEN {<<0, 0>>, <<1, 0>>, <<1, 16>>, <<1, 4>>} ELSE {<<0, 0>>, <<1, 4>>}) : Do(E("release", h, "none", 0, "", <<>>, r, "none", <<>>))
    \/ \E tg \in Targets \ {<<"server", 0>>}, m \in (IF Wide THEN {"move_before", "move_after", "move_to_head", "move_to_tail"}
                                                    ELSE {"move_after", "move_to_head"}) :
          Do(E(m, h, tg[1], tg[2], "", <<>>, <<>>, "none", <<>>))
    \/ \E m \in (IF Wide THEN {"free_all", "deep_free", "trace"} ELSE {"free_all"}) : Do(E(m, h, "none", 0, "", <<>>, <<>>, "none", <<>>))
FreeNode == \E h \in Handles({"synth", "group"}) : Do(E("free", h, "none", 0, "", <<>>, <<>>, "none", <<>>))
Lowest(Q) == {CHOOSE x \in Q : \A y \in Q : x <= y}      \* which address is irrelevant here (C16 decides that)
NewBuffer == \E cm \in {"none", "list", "func", "state"}, a \in Lowest(A!Legal(st.buf, BufPart(Cfg0), 1)) :
               a # A!NONE /\ Do(E("buffer", 0, "none", 0, "", <<>>, <<8, 1>>, cm, <<a>>))
Consecutive == \E a \in Lowest(A!Legal(st.buf, BufPart(Cfg0), 2)) :
               a # A!NONE /\ Do(E("consecutive", 0, "none", 0, "", <<>>, <<2, 8, 1>>, "none", <<a, a + 1>>))
FreeBuffer == \E h \in Handles({"buf"}), cm \in {"none", "func", "state"} : Do(E("b_free", h, "none", 0, "", <<>>, <<>>, cm, <<>>))
FreeAllBuffers == Do(E("b_free_all", 0, "none", 0, "", <<>>, <<>>, "none", <<>>))
BufferCmd == \E h \in Handles({"buf"}) :
    \/ \E cm \in {"none", "func"}, o \in {"b_zero", "b_close"} : Do(E(o, h, "none", 0, "", <<>>, <<>>, cm, <<>>))
    \/ Do(E("b_set", h, "none", 0, "", <<TI(0), TF(4)>>, <<>>, "none", <<>>))
    \/ Do(E("b_setn", h, "none", 0, "", <<TI(0), TL(<<TF(1), TF(2)>>)>>, <<>>, "none", <<>>))
    \/ Do(E("b_fill", h, "none", 0, "", <<TI(0), TI(4), TF(4)>>, <<>>, "none", <<>>))
    \/ Do(E("b_query", h, "none", 0, "", <<>>, <<>>, "none", <<>>))
    \/ Do(E("b_getn", h, "none", 0, "", <<>>, <<0, 4>>, "none", <<>>))
    \/ Do(E("b_sine2", h, "none", 0, "", <<TI(1), TF(8), TI(3), TF(2)>>, <<1, 0, 1>>, "none", <<>>))
    \/ Do(E("b_normalize", h, "none", 0, "", <<TF(4)>>, <<1>>, "none", <<>>))
    \/ \E d \in Handles({"buf"}) : st.obj[d].alive /\ Do(E("b_copy", h, "obj", d, "", <<>>, <<0, 0, 0 - 1>>, "none", <<>>))
    \/ (st.obj[h].alive /\ \/ Do(E("b_read", h, "none", 0, "", <<>>, <<0, 0 - 1, 0, 1>>, "none", <<>>))
                           \/ Do(E("b_cue", h, "none", 0, "", <<>>, <<16, 8>>, "func", <<>>))
                           \/ Do(E("b_write", h, "none", 0, "", <<>>, <<0 - 1, 0, 1>>, "none", <<>>))
                           \/ Do(E("b_alloc_read", h, "none", 0, "", <<>>, <<0, 0 - 1>>, "list", <<>>)))
NewBus == \/ \E n \in {1, 2} : \E a \in Lowest(A!Legal(st.cb, CbPart(Cfg0), n)) : a # A!NONE /\ Do(E("cbus", 0, "none", 0, "", <<>>, <<n>>, "none", <<a>>))
          \/ \E a \in Lowest(A!Legal(st.ab, AbPart(Cfg0), 2)) : a # A!NONE /\ Do(E("abus", 0, "none", 0, "", <<>>, <<2>>, "none", <<a>>))
FreeBus == \E h \in Handles({"cbus", "abus"}) : Do(E("bus_free", h, "none", 0, "", <<>>, <<>>, "none", <<>>))
BusCmd == \E h \in Handles({"cbus"}) :
    \/ Do(E("c_set", h, "none", 0, "", <<TF(4)>>, <<>>, "none", <<>>))
    \/ Do(E("c_setn", h, "none", 0, "", IF st.obj[h].n = 1 THEN <<TF(4)>> ELSE <<TF(4), TI(1)>>, <<>>, "none", <<>>))
    \/ Do(E("c_fill", h, "none", 0, "", <<TF(4)>>, <<1>>, "none", <<>>))
    \/ Do(E("c_get", h, "none", 0, "", <<>>, <<>>, "none", <<>>))
\* a command the encoder refuses, inside or outside a block (no sync afterwards in the same block: the flush inside
\* sync() would raise in the body)
Bad == \E h \in Handles({"synth", "group"}) : Do(E("bad", h, "none", 0, "", <<>>, <<0>>, "none", <<>>))
Sync == ~st.poison /\ Do(E("sync", 0, "none", 0, "", <<>>, <<>>, "none", <<900 + calls>>))
BindEnter == ~st.inbind /\ Do(E("bind_enter", 0, "none", 0, "", <<>>, <<>>, "none", <<>>))
BindExit == st.inbind /\ Do(E("bind_exit", 0, "none", 0, "", <<>>, <<0>>, "none", <<>>))
BindRaise == st.inbind /\ Do(E("bind_exit", 0, "none", 0, "", <<>>, <<1>>, "none", <<>>))
Mark(n) == IF Trace THEN PrintT(<<"ACT", n>>) ELSE TRUE
NextAll == (NewSynth /\ Mark("NewSynth"))
        \/ (Replace /\ Mark("Replace"))
        \/ (NewGroup /\ Mark("NewGroup"))
        \/ (NodeCmd /\ Mark("NodeCmd"))
        \/ (FreeNode /\ Mark("FreeNode"))
        \/ (NewBuffer /\ Mark("NewBuffer"))
        \/ (Consecutive /\ Mark("Consecutive"))
        \/ (FreeBuffer /\ Mark("FreeBuffer"))
        \/ (FreeAllBuffers /\ Mark("FreeAllBuffers"))
        \/ (BufferCmd /\ Mark("BufferCmd"))
        \/ (NewBus /\ Mark("NewBus"))
        \/ (FreeBus /\ Mark("FreeBus"))
        \/ (BusCmd /\ Mark("BusCmd"))
        \/ (Bad /\ Mark("Bad"))
        \/ (Sync /\ Mark("Sync"))
        \/ (BindEnter /\ Mark("BindEnter"))
        \/ (BindExit /\ Mark("BindExit"))
        \/ (BindRaise /\ Mark("BindRaise"))
NextBind == \/ (Do(E("group", 0, "server", 0, "addToTail", <<>>, <<0>>, "none", <<NextNode>>)) /\ Mark("NewGroup"))
            \/ (\E h \in Handles({"group"}) : Do(E("run", h, "none", 0, "", <<>>, <<0>>, "none", <<>>)) /\ Mark("NodeCmd"))
            \/ (FreeNode /\ Mark("FreeNode"))
            \/ (\E a \in Lowest(A!Legal(st.buf, BufPart(Cfg0), 1)) :
                   a # A!NONE /\ Do(E("buffer", 0, "none", 0, "", <<>>, <<8, 1>>, "func", <<a>>)) /\ Mark("NewBuffer"))
            \/ (\E h \in Handles({"buf"}) : Do(E("b_free", h, "none", 0, "", <<>>, <<>>, "none", <<>>)) /\ Mark("FreeBuffer"))
            \/ (Bad /\ Mark("Bad"))
            \/ (Sync /\ Mark("Sync")) \/ (BindEnter /\ Mark("BindEnter")) \/ (BindExit /\ Mark("BindExit"))
            \/ (BindRaise /\ Mark("BindRaise"))
Next == IF BindFocus THEN NextBind ELSE NextAll
Spec == Init /\ [][Next]_vars
Bound == Len(st.obj) <= MaxObj /\ calls <= MaxCalls

SelfConsistent == ok = "ok"
WireWellTyped == \A k \in 1 .. Len(wire) : \A j \in 1 .. Len(wire[k].m) : WellTyped(wire[k].m[j])
BindAtomic ==
    /\ st.inbind => wire = mark                               \* nothing leaves while the block is open
    /\ (last = "bind_exit" /\ ~st.inbind) =>
          \/ wire = mark                                       \* raised, or nothing was issued
          \/ wire = Append(mark, Ev("bundle", Cfg0.latency, held))
\* every command exactly once, in issue order, whatever the syncs and exceptions: the wire without its '/sync'
\* markers is the sequence of commands that had to reach the server
ExactlyOnceInOrder == SelectSeq(MsgsOf(wire), LAMBDA m : m.a # "/sync") = issued
\* a '/sync' never overtakes a command issued before it
\* whatever happened to a block (normal exit, exception in the body, flush refused), it is over afterwards
BlockOver == last = "bind_exit" => ~st.inbind /\ ~st.poison /\ st.pending = <<>>
SyncAfterEarlier == \A k \in 1 .. Len(wire) :
    (wire[k].m # <<>> /\ wire[k].m[1].a = "/sync") => Len(wire[k].m) = 1
\* ids of live buffers / buses are exactly what the allocation spec holds; freed objects own nothing
FreeLaws == \A h \in 1 .. Len(st.obj) :
    (st.obj[h].kind = "buf" /\ st.obj[h].alive) => [a |-> st.obj[h].id, n |-> st.obj[h].n] \in st.buf
=============================================================================
