SPECIFICATION Spec
CONSTANTS
  Annots <- AnTiny
  OvChoices <- OvTiny
  DfChoices <- DfTiny
  SpChoices <- SpBoth
  BoundVals = {24, 7}
  MaxFuncs = 1
  MaxParams = 2
  MaxTotal = 2
  MaxBound = 0
  MaxVariants = 1
  MinEmit = 1
  SimMode = FALSE
INVARIANT InvWellFormed
INVARIANT InvTiles
INVARIANT InvOrdered
INVARIANT InvNames
INVARIANT InvLag
INVARIANT InvL2CoversL1
INVARIANT InvVariants
