SPECIFICATION Spec
CONSTANTS
  Invalidate = TRUE
  ShareTimes = TRUE
  InPlace = TRUE
  MaxLen = 4
  Small = TRUE
INVARIANT Coherent
