SPECIFICATION TSpec
