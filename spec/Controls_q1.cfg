SPECIFICATION Spec
CONSTANTS
  Annots <- AnAll
  OvChoices <- OvFull
  DfChoices <- DfFull
  SpChoices <- SpBoth
  BoundVals = {24, 7}
  MaxFuncs = 1
  MaxParams = 1
  MaxTotal = 1
  MaxBound = 0
  MaxVariants = 0
  MinEmit = 0
  SimMode = FALSE
  VarLens = {0}
  VarW = {1, 2, 3}
  VarBad = {"none"}
  HistChoices <- HistTwo
INVARIANT InvWellFormed
INVARIANT InvTiles
INVARIANT InvOrdered
INVARIANT InvNames
INVARIANT InvLag
INVARIANT InvL2CoversL1
INVARIANT InvVariants
