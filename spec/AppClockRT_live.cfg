SPECIFICATION Spec
CONSTANTS
  Users = {"u1", "u2"}
  Deltas = {0, 1}
  MaxNow = 3
  GapTicks = FALSE
  Fixed = TRUE
PROPERTY EventuallyRun
