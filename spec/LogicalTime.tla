---------------------------- MODULE LogicalTime ----------------------------
(* Reference semantics of routine programs in logical time (properties C05, C07, C10).

   A program is a set of routine bodies (instruction lists) plus instructions run by the main thread at
   the program's start.  The machine below is the *documented* meaning: a routine resumed for the k-th
   time sees exactly start + sum of its yielded deltas (through its clock's tempo map), a child starts at
   its parent's logical time, bundles are stamped with logical time + latency, tempo changes re-base the
   affine map at the caller's logical time and re-time what is pending.  Two schedulers share it:
     RT : any routine at the head of ITS clock's queue may wake (physical jitter decides between clocks)
     NRT: only the globally earliest (seconds, scheduling order) one may wake.
   The trace spec (TraceTime) follows a recorded execution of the real library through this machine;
   the design model (TimeModel) checks that every RT behaviour yields the NRT observations.

   Times are integers in units of 1/65536 s (or beat).  Instructions are uniform records
   [op, a, b, c, s, nk, na]:  Y a=delta | P s=child c=clock("" inherit) a=quant b=phase | ST s=routine (stop) | S a=lat b=kind(0 num,1 None) s=tag
   nk/na nested bundle (nk 0 none,1 num,2 None) | M s=tag | T c=clock a=num b=den | ET same through etempo() (NRT only) | TB c=clock a=beats (beats setter) | E raise
   | YR a=delta (raise YieldAndReset, once) | X s=routine (pause) | Z s=routine (resume) | K a=seed s=seed name | KC c=child a=seed s=name | D (draw)
   | W s=cond (yield from cond.wait()) | G s=cond a=1/0 (set test true first / just signal)
   main only: U a=lat b=kind s=tag c=delay: a send from a plain thread after `delay` (RT; in NRT an outside send)
              IN a=timetag time b=kind(0 timed, 1 immediate, 2 plain message) s=tag: an incoming datagram (RT)  *)
EXTENDS Naturals, Integers, Sequences, FiniteSets, TLC, QueueOps

IdMap == [num |-> 1, den |-> 1, bs |-> 0, bb |-> 0]
IsId(c) == c \in {"sys", "app"}
B2S(m, b) == ((b - m.bb) * m.den) \div m.num + m.bs
S2B(m, s) == ((s - m.bs) * m.num) \div m.den + m.bb
ExactB2S(m, b) == ((b - m.bb) * m.den) % m.num = 0
ExactS2B(m, s) == ((s - m.bs) * m.num) % m.den = 0

Put(f, k, v) == (k :> v) @@ f
NoRt == [pc |-> 1, st |-> "init", clock |-> "sys", n |-> 0, gen |-> "main", lt |-> 0, yr |-> FALSE]

Obs(r, n, secs, beats) == [k |-> "obs", r |-> r, n |-> n, secs |-> secs, beats |-> beats, tag |-> "", sk |-> "",
                           stamp |-> 0, subk |-> "-", sub |-> 0, sub2 |-> 0]
Bndl3(r, tag, sk, stamp, subk, sub, sub2) == [k |-> "bndl", r |-> r, n |-> 0, secs |-> 0, beats |-> 0, tag |-> tag, sk |-> sk,
                                              stamp |-> stamp, subk |-> subk, sub |-> sub, sub2 |-> sub2]
Bndl(r, tag, sk, stamp, subk, sub) == Bndl3(r, tag, sk, stamp, subk, sub, 0)
D3 == 16384      \* nk = 3: the nested bundle itself contains a bundle, D3 units (1/4 s) after it
Refused(r, tag) == [k |-> "refused", r |-> r, n |-> 0, secs |-> 0, beats |-> 0, tag |-> tag, sk |-> "",
                    stamp |-> 0, subk |-> "-", sub |-> 0, sub2 |-> 0]
Draw(r, g, i) == [k |-> "draw", r |-> r, n |-> i, secs |-> 0, beats |-> 0, tag |-> g, sk |-> "",
                  stamp |-> 0, subk |-> "-", sub |-> 0, sub2 |-> 0]

Funcs(prog) == {prog.funcs[k] : k \in 1..Len(prog.funcs)}      \* names that are plain functions, not routines
Init0(prog) ==
    LET tc == DOMAIN prog.clocks
        names == DOMAIN prog.routines IN
    [clk |-> [c \in tc \cup {"sys", "app"} |->
                 IF c \in tc THEN [num |-> prog.clocks[c][1], den |-> prog.clocks[c][2], bs |-> 0, bb |-> 0] ELSE IdMap],
     q |-> [c \in tc \cup {"sys", "app"} |-> <<>>],
     ctr |-> 0,
     rt |-> [r \in names |-> NoRt],
     out |-> <<>>,              \* observations in execution order
     sends |-> <<>>,            \* [time, seq, tag, subk, sub] for the NRT score
     draws |-> [g \in {"main"} |-> 0],
     cond |-> [c \in {"c1", "c2"} |-> [test |-> FALSE, waiting |-> <<>>]],   \* Condition objects   \* generator -> number of values drawn so far
     last |-> 0,                \* logical time of the last wake-up
     bad |-> "ok"]

Head1(q) == q[1]

(* play(child) at logical time lt from a thread whose clock is pc: quant 0, so "now" on the target clock *)
(* next_time_on_grid: the earliest beat >= ref that is congruent to phase modulo quant (no meter changes here) *)
OnGrid(ref, q, ph) == IF q = 0 THEN ref + ph
                      ELSE LET r == (ref - ph) % q IN IF r = 0 THEN ref ELSE ref + (q - r)
PlayQ(st, prog, lt, child, cname, pclock, pgen, q, ph) ==
    LET c == IF cname = "" THEN pclock ELSE cname
        m == st.clk[c]
        p == IF IsId(c) THEN lt ELSE OnGrid(S2B(m, lt), q, ph)      \* quant only means something on tempo clocks
        \* a plain function has no state: scheduling it again simply runs it again
        cur == IF child \in Funcs(prog) THEN [NoRt EXCEPT !.gen = st.rt[child].gen] ELSE st.rt[child] IN
    IF cur.st \notin {"init", "paused"} THEN st          \* play() of a routine that is playing or done: no-op
    ELSE [st EXCEPT !.q = Put(st.q, c, Insert(Without(st.q[c], child), [p |-> p, s |-> st.ctr, t |-> child])),
                    !.ctr = st.ctr + 1,
                    !.rt = Put(st.rt, child, [cur EXCEPT !.st = "susp", !.clock = c,
                                                         !.gen = IF cur.st = "init" /\ cur.gen = "main" THEN pgen ELSE cur.gen]),
                    !.bad = IF ~IsId(c) /\ ~ExactS2B(m, lt) THEN "nondyadic" ELSE st.bad]
Play(st, prog, lt, child, cname, pclock, pgen) == PlayQ(st, prog, lt, child, cname, pclock, pgen, 0, 0)

(* one send; inr = inside a routine; mode decides what "immediately" and "outside" mean *)
Send(st, mode, r, inr, lt, i) ==
    LET imm == i.b = 1 \/ i.a < 0
        subimm == i.nk = 2 \/ (i.nk = 1 /\ i.na < 0)
        \* nested may not precede its parent; nk = 4: the third level lies D3 BEFORE the second one (always refused)
        refuse == i.nk # 0 /\ ((~(i.b = 1) /\ (i.nk = 2 \/ i.a > i.na)) \/ i.nk = 4)
        sub2 == IF i.nk = 3 THEN i.na + D3 ELSE 0       \* third level (generated with i.na >= 0 only)
        base == IF mode = "nrt" /\ ~inr THEN 0 ELSE lt IN
    IF i.op = "M"
    THEN IF mode = "nrt"
         THEN [st EXCEPT !.sends = Append(st.sends, [time |-> base, seq |-> Len(st.sends), tag |-> i.s, subk |-> "-", sub |-> 0, sub2 |-> 0])]
         \* a plain message has no timetag of its own, but a bundle nested in it as an argument (a completion
         \* message) is stamped like any nested bundle: logical time + its latency
         ELSE [st EXCEPT !.out = Append(st.out, Bndl(r, i.s, "m", 0,
                                                      IF i.nk = 0 THEN "-" ELSE IF subimm THEN "i" ELSE "t",
                                                      IF i.nk = 0 \/ subimm THEN 0 ELSE lt + i.na))]
    ELSE IF refuse THEN [st EXCEPT !.out = Append(st.out, Refused(r, i.s))]
    ELSE IF mode = "nrt"
         THEN [st EXCEPT !.sends = Append(st.sends,
                  [time |-> base + (IF imm THEN 0 ELSE i.a), seq |-> Len(st.sends), tag |-> i.s,
                   subk |-> IF i.nk = 0 THEN "-" ELSE "t",
                   sub |-> IF i.nk = 0 THEN 0 ELSE base + (IF subimm THEN 0 ELSE i.na),
                   sub2 |-> IF i.nk = 3 THEN base + sub2 ELSE 0])]
         ELSE [st EXCEPT !.out = Append(st.out,
                  Bndl3(r, i.s, IF imm THEN "i" ELSE "t", IF imm THEN 0 ELSE lt + i.a,
                        IF i.nk = 0 THEN "-" ELSE IF subimm THEN "i" ELSE "t",
                        IF i.nk = 0 \/ subimm THEN 0 ELSE lt + i.na,
                        IF i.nk = 3 THEN lt + sub2 ELSE 0))]

SetTempo(st, lt, c, num, den) ==
    LET m == st.clk[c]
        beats == S2B(m, lt) IN
    [st EXCEPT !.clk = Put(st.clk, c, [num |-> num, den |-> den, bs |-> lt, bb |-> beats]),
               !.bad = IF ~ExactS2B(m, lt) THEN "nondyadic" ELSE st.bad]

RECURSIVE SignalAll(_, _, _)
SignalAll(st, lt, ws) ==
    IF ws = <<>> THEN st
    ELSE LET w == ws[1]
             c == st.rt[w].clock
             p == IF IsId(c) THEN lt ELSE S2B(st.clk[c], lt)
             s1 == [st EXCEPT !.q = Put(st.q, c, Insert(Without(st.q[c], w), [p |-> p, s |-> st.ctr, t |-> w])),
                              !.ctr = st.ctr + 1,
                              !.bad = IF ~IsId(c) /\ ~ExactS2B(st.clk[c], lt) THEN "nondyadic" ELSE st.bad]
         IN SignalAll(s1, lt, Tail(ws))

(* clock.beats = v at logical time lt: the map is re-based so that lt <-> v; pending beats keep their value *)
SetBeats(st, lt, c, v) ==
    [st EXCEPT !.clk = Put(st.clk, c, [st.clk[c] EXCEPT !.bs = lt, !.bb = v])]

(* run routine r's body from its pc until it yields, ends or raises; p = its scheduled position *)
RECURSIVE Exec(_, _, _, _, _, _)
Exec(st, prog, mode, r, lt, p) ==
    LET me == st.rt[r]
        body == prog.routines[r] IN
    IF me.pc > Len(body) THEN [st EXCEPT !.rt = Put(st.rt, r, [me EXCEPT !.st = "done"])]
    ELSE
    LET i == body[me.pc]
        adv(s) == [s EXCEPT !.rt = Put(s.rt, r, [s.rt[r] EXCEPT !.pc = me.pc + 1])] IN
    CASE i.op = "Y" ->
            LET s1 == adv(st) IN
            \* (scheduling is "add or move": an entry the routine got meanwhile, e.g. by signalling a condition it is
            \* itself still registered on, is replaced)
            [s1 EXCEPT !.q = Put(s1.q, me.clock, Insert(Without(s1.q[me.clock], r), [p |-> p + i.a, s |-> s1.ctr, t |-> r])),
                       !.ctr = s1.ctr + 1]
      [] i.op = "YR" ->     \* raise YieldAndReset(delta): the value is yielded and the body starts over at the next wake-up
                            \* (only the first time it is reached: the drivers skip it afterwards, so programs end)
            IF me.yr THEN Exec(adv(st), prog, mode, r, lt, p)
            \* (the routine is back in state Init although it stays scheduled: a play() meanwhile moves it)
            ELSE [st EXCEPT !.rt = Put(st.rt, r, [me EXCEPT !.pc = 1, !.n = 0, !.yr = TRUE, !.st = "init"]),
                            !.q = Put(st.q, me.clock, Insert(Without(st.q[me.clock], r), [p |-> p + i.a, s |-> st.ctr, t |-> r])),
                            !.ctr = st.ctr + 1]
      [] i.op = "E" -> [st EXCEPT !.rt = Put(st.rt, r, [me EXCEPT !.st = "done", !.pc = Len(body) + 1])]
      [] i.op = "P" -> Exec(PlayQ(adv(st), prog, lt, i.s, i.c, me.clock, me.gen, i.a, i.b), prog, mode, r, lt, p)
      [] i.op = "ST" ->     \* stop another routine: whatever it has queued is dropped when its turn comes
            LET o == st.rt[i.s]
                s1 == adv(st) IN
            \* (stop() also resets the routine's clock to SystemClock: a later signal() of a condition it was
            \* parked on schedules the dead routine there)
            Exec([s1 EXCEPT !.rt = Put(s1.rt, i.s, [o EXCEPT !.st = "done", !.clock = "sys"])], prog, mode, r, lt, p)
      [] i.op \in {"S", "M"} ->       \* inside a plain function scheduled on a clock the current thread is the main one
            Exec(Send(adv(st), mode, r, r \notin Funcs(prog), lt, i), prog, mode, r, lt, p)
      [] i.op \in {"T", "ET"} ->      \* tempo setter; etempo() re-bases at elapsed time, which in NRT is the logical time
            Exec(SetTempo(adv(st), lt, i.c, i.a, i.b), prog, mode, r, lt, p)
      [] i.op = "TB" -> Exec(SetBeats(adv(st), lt, i.c, i.a), prog, mode, r, lt, p)
      [] i.op = "X" ->      \* pause another routine: it stays queued but will not run when its turn comes
            LET o == st.rt[i.s]
                s1 == adv(st) IN
            Exec(IF o.st \in {"init", "susp"} THEN [s1 EXCEPT !.rt = Put(s1.rt, i.s, [o EXCEPT !.st = "paused"])] ELSE s1,
                 prog, mode, r, lt, p)
      [] i.op = "Z" ->      \* resume: play again on its clock at the caller's logical time (quant 0)
            LET o == st.rt[i.s]
                s1 == adv(st) IN
            Exec(IF o.st = "paused" THEN Play(s1, prog, lt, i.s, o.clock, me.clock, me.gen) ELSE s1, prog, mode, r, lt, p)
      [] i.op = "K" ->      \* seed: this routine gets its own generator from now on
            LET g == i.s IN      \* generators are named by their seed
            Exec([adv(st) EXCEPT !.rt = Put(adv(st).rt, r, [adv(st).rt[r] EXCEPT !.gen = g]),
                                 !.draws = Put(st.draws, g, 0)], prog, mode, r, lt, p)
      [] i.op = "W" ->      \* yield from cond.wait(): test true -> like a yield of 0; else park until signalled
            LET c == st.cond[i.s]
                s1 == adv(st) IN
            IF c.test
            THEN [s1 EXCEPT !.q = Put(s1.q, me.clock, Insert(Without(s1.q[me.clock], r), [p |-> p, s |-> s1.ctr, t |-> r])),
                            !.ctr = s1.ctr + 1]
            ELSE [s1 EXCEPT !.cond = Put(s1.cond, i.s, [c EXCEPT !.waiting = Append(c.waiting, r)])]
      [] i.op = "G" ->      \* (a = 1: cond.test = True;) cond.signal(): if the test holds every parked routine is
                            \* scheduled on its own clock at the signaller's logical time, in parking order
            LET c0 == st.cond[i.s]
                c == IF i.a = 1 THEN [c0 EXCEPT !.test = TRUE] ELSE c0
                s1 == [adv(st) EXCEPT !.cond = Put(st.cond, i.s, c)] IN
            Exec(IF c.test THEN SignalAll([s1 EXCEPT !.cond = Put(s1.cond, i.s, [c EXCEPT !.waiting = <<>>])], lt, c.waiting)
                 ELSE s1, prog, mode, r, lt, p)
      [] i.op = "KC" ->     \* create child c and give it its own seed before it plays (what Pseed does)
            LET s1 == adv(st) IN
            Exec([s1 EXCEPT !.rt = Put(s1.rt, i.c, [s1.rt[i.c] EXCEPT !.gen = i.s]), !.draws = Put(st.draws, i.s, 0)],
                 prog, mode, r, lt, p)
      [] i.op = "D" ->
            LET g == me.gen
                k == st.draws[g]
                s1 == adv(st) IN
            Exec([s1 EXCEPT !.draws = Put(st.draws, g, k + 1), !.out = Append(s1.out, Draw(r, g, k))], prog, mode, r, lt, p)
      [] OTHER -> [st EXCEPT !.bad = "bad-instruction"]

(* the main thread's instructions at the program's start (logical time 0) *)
RECURSIVE Main(_, _, _, _)
Main(st, prog, mode, k) ==
    IF k > Len(prog.main) THEN st
    ELSE LET i == prog.main[k] IN
         CASE i.op = "P" -> Main(PlayQ(st, prog, 0, i.s, i.c, "sys", "main", i.a, i.b), prog, mode, k + 1)
           [] i.op \in {"S", "M"} -> Main(Send(st, mode, "main", FALSE, 0, i), prog, mode, k + 1)
           [] i.op = "U" /\ mode = "nrt" -> Main(Send(st, mode, "main", FALSE, 0, [i EXCEPT !.op = "S"]), prog, mode, k + 1)
           [] OTHER -> Main(st, prog, mode, k + 1)

(* who may wake *)
HeadIs(st, r) == LET c == st.rt[r].clock IN st.q[c] # <<>> /\ st.q[c][1].t = r
SecsOf(st, c, e) == IF IsId(c) THEN e.p ELSE B2S(st.clk[c], e.p)
Earliest(st, r) ==
    LET c == st.rt[r].clock
        e == st.q[c][1]
        t == SecsOf(st, c, e) IN
    \A c2 \in DOMAIN st.q : st.q[c2] = <<>> \/
        \* ties between different clocks have no defined order (DESIGN 1.4); inside a clock the queue decides
        LET e2 == st.q[c2][1]
            t2 == SecsOf(st, c2, e2) IN t <= t2
Enabled(st, mode, r) == HeadIs(st, r) /\ (mode = "nrt" => Earliest(st, r))

(* wake r: pop, observe, run.  A paused routine that reaches its turn is dropped silently. *)
Wake(st, prog, mode, r) ==
    LET c == st.rt[r].clock
        e == st.q[c][1]
        lt == SecsOf(st, c, e)
        me == st.rt[r]
        s0 == [st EXCEPT !.q = Put(st.q, c, Tail(st.q[c])), !.last = lt,
                         !.bad = IF ~IsId(c) /\ ~ExactB2S(st.clk[c], e.p) THEN "nondyadic" ELSE st.bad] IN
    IF me.st = "paused" \/ me.st = "done" THEN s0
    ELSE LET s1 == [s0 EXCEPT !.rt = Put(s0.rt, r, [me EXCEPT !.n = me.n + 1, !.st = "susp", !.lt = lt]),
                              !.out = Append(s0.out, Obs(r, me.n, lt, IF IsId(c) THEN lt ELSE e.p))] IN
         Exec(s1, prog, mode, r, lt, e.p)

AllEmpty(st) == \A c \in DOMAIN st.q : st.q[c] = <<>>
\* Entries of paused (or stopped) routines stay queued; when their turn comes the clock wakes, finds them
\* paused and drops them without any observation.  DropFor removes the ones that must have been dropped
\* before r can wake: in NRT those that are globally earliest, in RT those ahead of r on r's own clock.
EarliestC(st, c) ==
    LET t == SecsOf(st, c, st.q[c][1]) IN
    \A c2 \in DOMAIN st.q : st.q[c2] = <<>> \/ t <= SecsOf(st, c2, st.q[c2][1])
Dead(st, c) == st.q[c] # <<>> /\ st.rt[st.q[c][1].t].st \in {"paused", "done"}
DropHead(st, c) ==
    LET t == SecsOf(st, c, st.q[c][1]) IN
    [st EXCEPT !.q = Put(st.q, c, Tail(st.q[c])), !.last = IF t > st.last THEN t ELSE st.last]
RECURSIVE DropFor(_, _, _)
DropFor(st, mode, r) ==
    IF r \in DOMAIN st.rt /\ st.rt[r].st \notin {"paused", "done"} /\ Enabled(st, mode, r) THEN st
    ELSE LET cs == {c \in DOMAIN st.q : Dead(st, c) /\ (mode = "nrt" => EarliestC(st, c))
                                         /\ (mode = "rt" => r \in DOMAIN st.rt /\ c = st.rt[r].clock)} IN
         IF cs = {} THEN st ELSE DropFor(DropHead(st, CHOOSE c \in cs : TRUE), mode, r)
RECURSIVE DropPaused(_)
DropPaused(st) ==      \* at the end of a run: everything still queued must be a dead entry
    LET cs == {c \in DOMAIN st.q : Dead(st, c)} IN
    IF cs = {} THEN st ELSE DropPaused(DropHead(st, CHOOSE c \in cs : TRUE))

(* NRT score: root node, every send in (time, send order), tail marker *)
RECURSIVE SortSends(_)
SortSends(S) == IF S = {} THEN <<>>
                ELSE LET m == CHOOSE x \in S : \A y \in S : x.time < y.time \/ (x.time = y.time /\ x.seq <= y.seq)
                     IN <<m>> \o SortSends(S \ {m})
ExpectedScore(st) == LET s == SortSends({st.sends[i] : i \in 1..Len(st.sends)})
                     IN [i \in 1..Len(s) |-> [time |-> s[i].time, tag |-> s[i].tag, subk |-> s[i].subk, sub |-> s[i].sub, sub2 |-> s[i].sub2]]
=============================================================================
