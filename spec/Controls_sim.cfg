SPECIFICATION Spec
CONSTANTS
  Annots <- AnAll
  OvChoices <- OvFull
  DfChoices <- DfSim
  SpChoices <- SpBoth
  BoundVals = {24, 0}
  MaxFuncs = 4
  MaxParams = 40
  MaxTotal = 40
  MaxBound = 2
  MaxVariants = 0
  MinEmit = 12
  SimMode = TRUE
  VarLens = {0}
  VarW = {1, 2, 3}
  VarBad = {"none"}
  HistChoices <- HistTwo
INVARIANT InvWellFormed
INVARIANT InvTiles
INVARIANT InvOrdered
INVARIANT InvNames
INVARIANT InvLag
INVARIANT InvL2CoversL1
INVARIANT InvVariants
