------------------------------ MODULE OscModel ------------------------------
(* Design-level check of Osc.tla / OscSize.tla: over a pool of values (ints at the int32
   boundaries, strings and blobs of length 0..5 incl. multi-byte UTF-8 and NUL, coercions, array
   markers, nested messages and bundles to depth 2, all time kinds) TLC checks
     RoundTrip    Dec(Enc(v)) = Coerce(v) unless v must be refused
     Aligned      every component of the encoding is a multiple of four bytes
     LenAgrees    the arithmetic length EncLen equals Len(Enc(v))
     PredNotBelow the (fixed) library formula never predicts less than EncLen
   The same run can print the pool (Emit) so that the driver replays every value on the real
   encoder (S->C).                                                                    *)
EXTENDS OscSize, Json
CONSTANTS MaxArgs,      \* arguments per top-level message
          MaxEls,       \* elements per top-level bundle
          MaxDepth,     \* extra nesting levels added around a value
          Emitting      \* TRUE: print every case as JSON
VARIABLES v, off, d
vars == <<v, off, d>>

I(hi, lo) == [t |-> "i", hi |-> hi, lo |-> lo]
F(b) == [t |-> "f", b |-> b]
S(b) == [t |-> "s", b |-> b]
B(b) == [t |-> "b", b |-> b]
K(t) == [t |-> t]
M(a, args) == [t |-> "m", a |-> a, args |-> args]
Bn(time, el) == [t |-> "B", time |-> time, el |-> el]
Lat(b) == [t |-> "lat", b |-> b]

Ints == {I(0, 0), I(0, 1), I(0 - 1, 65535), I(32767, 65535), I(0 - 32768, 0), I(1, 2)}
BadInts == {I(32768, 0), I(0 - 32769, 65535)}
Floats == {F(<<63, 128, 0, 0>>), F(<<255, 192, 0, 1>>)}
Strs == {S(<<>>), S(<<97>>), S(<<97, 98, 99>>), S(<<97, 98, 99, 100>>), S(<<195, 177>>),
         S(<<226, 130, 172, 97, 98>>)}
BadStrs == {S(<<97, 0, 98>>)}
Blobs == {B(<<1>>), B(<<1, 2, 3>>), B(<<1, 2, 3, 4>>), B(<<0, 0, 0, 0, 9>>)}
Consts == {K("T"), K("F"), K("N"), K("E")}
Marks == {K("["), K("]")}
Bads == BadInts \cup BadStrs \cup {B(<<>>), K("fbig"), K("x")}
Addrs == {<<47, 97>>, <<47, 97, 98, 99>>, <<47, 195, 177>>, <<47, 195, 177, 117>>, <<47, 195, 177, 195, 177>>}   \* /a /abc /ñ /ñu /ññ
Times == {K("none"), K("neg"), Lat(<<0, 0, 0, 0, 0, 0, 0, 0>>), Lat(<<0, 0, 0, 0, 128, 0, 0, 0>>),
          Lat(<<0, 0, 0, 1, 64, 0, 0, 0>>)}
Offs == {<<238, 97, 71, 122, 186, 70, 216, 0>>, <<0, 0, 0, 255, 255, 255, 255, 255>>}

\* nested (completion) messages and bundles, depth 1
Inner1 == {M(<<47, 98>>, <<>>), M(<<47, 98>>, <<I(0, 7)>>), M(<<47, 98, 99, 100>>, <<S(<<120>>), B(<<5, 6>>)>>),
           M(<<47, 98>>, <<I(32768, 0)>>), M(<<47, 195, 177, 117>>, <<I(0, 7)>>)}
InnerB1 == {Bn(K("none"), <<>>), Bn(Lat(<<0, 0, 0, 0, 128, 0, 0, 0>>), <<M(<<47, 99>>, <<K("T")>>)>>),
            Bn(K("neg"), <<M(<<47, 99>>, <<>>), M(<<47, 100>>, <<F(<<63, 128, 0, 0>>)>>)>>)}
\* depth 2
Inner2 == {M(<<47, 110>>, <<m>>) : m \in Inner1 \cup InnerB1}

Plain1 == Ints \cup Floats \cup Strs \cup Blobs \cup Consts \cup Marks \cup Bads
ArgPool == Plain1 \cup Inner1 \cup InnerB1 \cup Inner2
SeedMsgs == {M(<<47, 97>>, <<>>)}
              \cup {M(a, <<x>>) : a \in Addrs \cup {<<>>, <<47, 0, 97>>}, x \in {I(0, 1), S(<<97>>)}}
              \cup {M(<<47, 97>>, <<K("["), x, K("["), y, K("]"), K("]")>>) : x \in Ints, y \in Strs}
Elems == {M(<<47, 97>>, <<>>), M(<<47, 98, 99>>, <<I(0, 3), S(<<195, 177>>)>>), M(<<47, 99>>, <<B(<<>>)>>),
          K("x")} \cup InnerB1
SeedBundles == {Bn(t, <<>>) : t \in Times}

Init == off \in Offs /\ d = 0 /\ v \in SeedMsgs \cup SeedBundles
\* one more argument (every prefix is itself a message that is checked)
AddArg == /\ v.t = "m" /\ d = 0 /\ v.a = <<47, 97>> /\ Len(v.args) < MaxArgs
          /\ \E x \in ArgPool : v' = [v EXCEPT !.args = Append(@, x)]
          /\ UNCHANGED <<off, d>>
AddElem == /\ v.t = "B" /\ d = 0 /\ Len(v.el) < MaxEls
           /\ \E e \in Elems : v' = [v EXCEPT !.el = Append(@, e)]
           /\ UNCHANGED <<off, d>>
Small == IF v.t = "m" THEN Len(v.args) <= 1 ELSE Len(v.el) <= 1
\* the value becomes a completion message inside another message
NestInMsg == /\ d < MaxDepth /\ Small
             /\ \E pre \in {<<>>, <<I(0, 1)>>} : v' = M(<<47, 110>>, pre \o <<v>>)
             /\ d' = d + 1 /\ UNCHANGED off
\* the value becomes an element of an enclosing bundle
NestInBundle == /\ d < MaxDepth /\ Small
                /\ \E t \in Times : v' = Bn(t, <<v>>)
                /\ d' = d + 1 /\ UNCHANGED off
Next == AddArg \/ AddElem \/ NestInMsg \/ NestInBundle
Spec == Init /\ [][Next]_vars

Nil == [t |-> "nil"]
InvRoundTrip == v = Nil \/ RoundTrip(v, off)
InvAligned == v = Nil \/ Aligned(v, off)
InvLenAgrees == v = Nil \/ LenAgrees(v, off)
InvPredNotBelow == v = Nil \/ PredNotBelow(v, off)
\* non-ASCII text in an address (at any depth) is never sized: the L2 predictor refuses it
InvRefusesNonAscii == v = Nil \/ AsciiAddrs(v) \/ ~Predictable(v)
InvEmit == v = Nil \/ ~Emitting \/ PrintT(<<"CASE", ToJson([v |-> v, off |-> off])>>)
=============================================================================
