SPECIFICATION Spec
INVARIANT InvSafe
INVARIANT InvPred
INVARIANT Flips
