SPECIFICATION ESpec
CONSTANTS
  U = 8192
  MaxLenS = 1
  MaxLenT = 2
