---------------------------- MODULE OpsShapes ----------------------------
(* S->C generation for C15: TLC enumerates the (kind, kind, shape, shape) space of the lifting model
   and prints every case once; the harness instantiates each with operators and leaf values, runs
   the real library and sends the recordings back through TraceOps.                          *)
EXTENDS Ops, Json
PrintShape == phase = "lift" => PrintT(<<"SHAPE", ToJson([ka |-> ka, kb |-> kb, A |-> ca, B |-> cb])>>)
\* function composites: template, parameter lists of the base functions, the calls
PrintCall == phase = "call" => PrintT(<<"CALL", ToJson([tpl |-> args[1], sigs |-> args[2], calls |-> args[3]])>>)
\* the lazily evaluated compositions: kinds per argument position, lengths, sharing, traversal law, generator
PrintLazy == (phase = "lazy" /\ ~args[4]) =>
                PrintT(<<"LAZY", ToJson([ops |-> args[1], law |-> args[2], gen |-> IF args[3] THEN 1 ELSE 0, invs |-> args[5]])>>)
=============================================================================
