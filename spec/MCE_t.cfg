SPECIFICATION Spec
CONSTANTS
  Templates = {"n", "u", "k", "t", "L1", "z", "b", "Lf", "L2", "L3", "L4", "Lt", "N21", "N23", "N1", "D3"}
  MaxArgs = 3
  FirstList = FALSE
INVARIANT InvLen
INVARIANT InvDepth
INVARIANT InvLeaf
INVARIANT InvSingle
INVARIANT InvMultiNew
INVARIANT InvBinop
INVARIANT InvUnop
INVARIANT InvPerform
INVARIANT InvMadd
