------------------------------ MODULE OscSize ------------------------------
(* C06, second half: "the size the library predicts for a datagram is never below the real
   encoded size, and splitting an oversized bundle yields datagrams within the UDP limit that
   carry every element exactly once and in order".

   L1  PredNotBelow : prediction >= EncLen (Osc.tla)           -- truth is OSC 1.0, not the library
       ValidSplit   : any partition into consecutive groups, each group's *encoded* bundle <= Limit
   L2  Pred*        : NetAddr._calc_msg_dgram_size / _calc_bndl_dgram_size as formulas
       ClumpStep    : the accumulator loop of NetAddr._clump_bundle and its two call sites
                      (send_clumped_bundles: size 8192, nothing appended;
                       sync: size Limit - 36, a 20-byte ['/sync', id] element appended to every clump) *)
EXTENDS Osc

Limit == 65504            \* NetAddr._MAX_UDP_DGRAM_SIZE
SyncElem == 20            \* 4 + Len(Enc(['/sync', id]))
SyncBndl == 36            \* NetAddr._SYNC_BNDL_DGRAM_SIZE = 16 + SyncElem
ClumpDefault == 8192

(* ---------------------------------------------------------------- L2: the library's prediction *)
StrPad4(n) == n + 4 - (n % 4)        \* NetAddr._strpad4
\* values for which _calc_* returns a number (it raises for the others: no prediction is made)
RECURSIVE Predictable(_), AsciiAddrs(_)
AsciiAddrsArg(a) == IF a.t \in {"m", "B"} THEN AsciiAddrs(a) ELSE TRUE
Predictable(v) ==
    IF v.t = "m"
    THEN /\ \A k \in 1..Len(v.a) : v.a[k] < 128          \* bytes(msg[0], 'ascii')
         /\ \A i \in 1..Len(v.args) :
            LET a == v.args[i] IN
            IF a.t = "m" THEN Predictable(a) ELSE a.t \notin {"B", "E", "x"}
    ELSE IF v.t = "B" THEN v.time.t # "none" /\ \A i \in 1..Len(v.el) : Predictable(v.el[i])
    ELSE FALSE
RECURSIVE PredMsg(_), PredEls(_)
PredArg(a) ==
    CASE a.t = "s" -> StrPad4(StrLen(a))
      [] a.t = "b" -> 4 + P4(BlobLen(a))
      [] a.t = "m" -> 4 + PredMsg(a)
      [] OTHER -> 4                      \* numbers, booleans, None; '[' and ']' are counted as 1-char strings
PredMsg(m) == StrPad4(Len(m.a)) + StrPad4(Len(m.args) + 1) + Sum([i \in 1..Len(m.args) |-> PredArg(m.args[i])])
\* _calc_bndl_dgram_size takes the element list (without the time)
PredEls(els) == 16 + Sum([i \in 1..Len(els) |-> 4 + (IF els[i].t = "m" THEN PredMsg(els[i]) ELSE PredEls(els[i].el))])
Pred(v) == IF v.t = "m" THEN PredMsg(v) ELSE PredEls(v.el)

\* L1: a prediction is either REFUSED (the predictor raises: non-ASCII text in an address - also of a nested /
\* completion message -, bundle-shaped completion message, ...) or it is not below the real encoded length.
\* out = [k |-> "ok", n |-> predicted] | [k |-> "raise"]
PredSound(v, out) == out.k = "raise" \/ out.n >= EncLen(v)
AsciiAddrs(v) == IF v.t = "m" THEN (\A k \in 1..Len(v.a) : v.a[k] < 128) /\ \A i \in 1..Len(v.args) : AsciiAddrsArg(v.args[i])
                 ELSE IF v.t = "B" THEN \A i \in 1..Len(v.el) : AsciiAddrs(v.el[i]) ELSE TRUE
PredNotBelow(v, off) == (Predictable(v) /\ ~MustRefuse(v, off)) => Pred(v) >= EncLen(v)

(* ---------------------------------------------------------------- completion messages in function form *)
\* Client objects accept a completion message as None, a message list, a bundle list, or a FUNCTION of the
\* server returning one of those: [t |-> "fn", ret |-> value].  What goes on the wire - and therefore what
\* every size prediction must be made on - is the RESOLVED argument list.
RECURSIVE Resolve(_)
Resolve(v) ==
    IF v.t = "fn" THEN Resolve(v.ret)
    ELSE IF v.t = "m" THEN [v EXCEPT !.args = [i \in 1..Len(v.args) |-> Resolve(v.args[i])]]
    ELSE IF v.t = "B" THEN [v EXCEPT !.el = [i \in 1..Len(v.el) |-> Resolve(v.el[i])]]
    ELSE v
DRecv == <<47, 100, 95, 114, 101, 99, 118>>                   \* "/d_recv"
DRecvMsg(n, cm) == [t |-> "m", a |-> DRecv, args |-> <<[t |-> "b", z |-> n], Resolve(cm)>>]
\* L2: SynthDef._do_send's choice for a definition of n bytes ("raise" where the prediction raises)
DSendChoice(n, cm) == LET v == DRecvMsg(n, cm) IN
                      IF ~Predictable(v) THEN "raise" ELSE IF Pred(v) <= Limit THEN "/d_recv" ELSE "/d_load"
\* L1: whatever is sent as /d_recv fits a datagram
DSendSafe(n, cm) == DSendChoice(n, cm) = "/d_recv" => EncLen(DRecvMsg(n, cm)) <= Limit

(* ---------------------------------------------------------------- L1: splitting *)
\* real = sequence of encoded element lengths; split = sequence of groups of element indices;
\* extra = bytes appended to every datagram (0 or SyncElem)
DgramLen(group, real, extra) == 16 + Sum([j \in 1..Len(group) |-> 4 + real[group[j]]]) + extra
OnceInOrder(split, n) == Cat(split) = [i \in 1..n |-> i]
WithinLimit(split, real, extra) == \A g \in 1..Len(split) : DgramLen(split[g], real, extra) <= Limit
ValidSplit(split, real, extra) == OnceInOrder(split, Len(real)) /\ WithinLimit(split, real, extra)
\* a split can only exist when every element fits a datagram on its own
Splittable(real, extra) == \A i \in 1..Len(real) : DgramLen(<<i>>, real, extra) <= Limit

(* ---------------------------------------------------------------- L2: the accumulator loop *)
\* one iteration of `for s, e in elist` ; st = [acc, clump, res], p = predicted size of element i
ClumpStep(st, p, i, size) ==
    LET s == p + 4 IN           \* element size prefix
    IF st.acc + s >= size
    THEN [acc |-> 16 + s, clump |-> <<i>>, res |-> Append(st.res, st.clump)]
    ELSE [acc |-> st.acc + s, clump |-> Append(st.clump, i), res |-> st.res]
ClumpInit == [acc |-> 16, clump |-> <<>>, res |-> <<>>]
ClumpResult(st) == IF st.clump # <<>> THEN Append(st.res, st.clump) ELSE st.res
RECURSIVE ClumpRun(_, _, _, _)
ClumpRun(st, pred, i, size) == IF i > Len(pred) THEN ClumpResult(st)
                               ELSE ClumpRun(ClumpStep(st, pred[i], i, size), pred, i + 1, size)
\* the two call sites: what is handed to send_bundle, given predicted sizes
SplitAt(site, pred) ==
    LET total == 16 + Sum([i \in 1..Len(pred) |-> 4 + pred[i]])
        whole == <<[i \in 1..Len(pred) |-> i]>> IN
    IF site = "clumped"
    THEN IF total > Limit THEN ClumpRun(ClumpInit, pred, 1, ClumpDefault) ELSE whole
    ELSE IF total > Limit - SyncBndl THEN ClumpRun(ClumpInit, pred, 1, Limit - SyncBndl) ELSE whole
ExtraAt(site) == IF site = "sync" THEN SyncElem ELSE 0
=============================================================================
