SPECIFICATION TSpec
