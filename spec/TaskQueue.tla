---------------------------- MODULE TaskQueue ----------------------------
(* L1: what "a stable priority queue keyed by time" means (property C09).
   The queue is a sequence of entries [p, s, t] kept sorted by (p, s) where s is
   the insertion stamp.  Every public operation of sc3's TaskQueue is one
   operator Op(q, ctr, args) returning the record [q, ctr, ret]; the design model
   (Next) and the trace spec (TraceTaskQueue) both use these operators, so the
   same text decides the design and every recorded execution of the code.     *)
EXTENDS Naturals, Integers, Sequences, FiniteSets, TLC, QueueOps

Apply(q, ctr, op) ==
    CASE op.n = "add"    -> OpAdd(q, ctr, op.p, op.t)
      [] op.n = "remove" -> OpRemove(q, ctr, op.t)
      [] op.n = "pop"    -> OpPop(q, ctr)
      [] op.n = "peeks"  -> OpPeekS(q, ctr)
      [] op.n = "peekl"  -> OpPeekL(q, ctr)
      [] op.n = "empty"  -> OpEmpty(q, ctr)
      [] op.n = "clear"  -> OpClear(q, ctr)
      [] op.n = "iter"   -> OpIter(q, ctr)

(* ---- design model ---- *)
CONSTANTS Tasks, Prios, MaxCtr, MaxPop
VARIABLES q, ctr, ret, popped
vars == <<q, ctr, ret, popped>>

Init == q = <<>> /\ ctr = 0 /\ ret = R("none", <<>>) /\ popped = <<>>

Do(r) == q' = r.q /\ ctr' = r.ctr /\ ret' = r.ret

Add == \E p \in Prios, t \in Tasks : Do(OpAdd(q, ctr, p, t)) /\ UNCHANGED popped
Remove == \E t \in Tasks : Do(OpRemove(q, ctr, t)) /\ UNCHANGED popped
Pop == Do(OpPop(q, ctr)) /\ popped' = (IF q = <<>> THEN popped ELSE Append(popped, q[1]))
PeekS == Do(OpPeekS(q, ctr)) /\ UNCHANGED popped
PeekL == Do(OpPeekL(q, ctr)) /\ UNCHANGED popped
Empty == Do(OpEmpty(q, ctr)) /\ UNCHANGED popped
Clear == Do(OpClear(q, ctr)) /\ popped' = <<>>
Iter == Do(OpIter(q, ctr)) /\ UNCHANGED popped

Next == Add \/ Remove \/ Pop \/ PeekS \/ PeekL \/ Empty \/ Clear \/ Iter
Spec == Init /\ [][Next]_vars

(* ---- properties ---- *)
TypeOK == Sorted(q) /\ UniqueTasks(q) /\ StampsBelow(q, ctr)
InvSorted == Sorted(q)
InvUnique == UniqueTasks(q)
\* each scheduling (stamp) is popped at most once
InvAtMostOnce == \A i, j \in 1..Len(popped) : i # j => popped[i].s # popped[j].s
\* since the last clear, items come out in non-decreasing time; FIFO among equal times whenever
\* both were in the queue together is implied by Sorted + PopIsHead
PopIsHead == [][(q # <<>> /\ ret'.k = "pair" /\ q' = Tail(q)) => ret'.v = <<<<q[1].p, q[1].t>>>>]_vars
RemovePreservesOthers ==
    [][\A t \in Tasks : (q' = Without(q, t)) => \A i \in 1..Len(q') : \E j \in 1..Len(q) : q'[i] = q[j]]_vars
ReAddIsMostRecent ==
    [][ctr' = ctr + 1 => \E i \in 1..Len(q') : q'[i].s = ctr /\ \A j \in 1..Len(q') : q'[j].s <= ctr]_vars
EmptyAgrees == ret.k \in {"true", "false"} => (ret.k = "true" <=> q = <<>>)

Bound == ctr <= MaxCtr /\ Len(popped) <= MaxPop
=============================================================================
