------------------------------- MODULE Clump -------------------------------
(* C17, oversize bind blocks: a block (or the segment between two syncs) whose bundle would exceed the UDP datagram
   limit leaves as several consecutive bundles.
   L1 (size-agnostic): the bundles, concatenated, are the block's commands - every command exactly once, in issue
   order (ExactlyOnceInOrder); none of them is empty unless a single command alone exceeds the clump size.
   L2: NetAddr._clump_bundle transcribed (element sizes + 4 bytes size prefix each, 16 bytes bundle header, a clump is
   closed when the next element would reach the clump size; that element opens the next clump).  Commands are named
   by their position 1..n; TLC enumerates the size sequences (scaled down: header 2, prefix 1, limit Limit).        *)
EXTENDS Naturals, Sequences, FiniteSets, TLC
CONSTANTS Sizes, MaxLen, Limit, Header, Prefix
VARIABLE es                         \* sizes of the commands of one block
RECURSIVE Flatten(_)
Flatten(cs) == IF cs = <<>> THEN <<>> ELSE cs[1] \o Flatten(Tail(cs))
ExactlyOnceInOrder(cs, n) == Flatten(cs) = [i \in 1 .. n |-> i]
RECURSIVE ClumpFrom(_, _, _, _, _)
ClumpFrom(sz, i, clump, acc, res) ==
    IF i > Len(sz) THEN (IF clump # <<>> THEN Append(res, clump) ELSE res)
    ELSE LET s == sz[i] + Prefix IN
         IF acc + s >= Limit
         THEN ClumpFrom(sz, i + 1, <<i>>, Header + s, Append(res, clump))
         ELSE ClumpFrom(sz, i + 1, Append(clump, i), acc + s, res)
Clumps(sz) == ClumpFrom(sz, 1, <<>>, Header, <<>>)
RECURSIVE SeqsUpTo(_)
SeqsUpTo(n) == IF n = 0 THEN {<<>>} ELSE LET S == SeqsUpTo(n - 1) IN S \cup {Append(s, x) : s \in {t \in S : Len(t) = n - 1}, x \in Sizes}
Init == es \in SeqsUpTo(MaxLen)
Next == UNCHANGED es
Spec == Init /\ [][Next]_es
InvExactlyOnceInOrder == ExactlyOnceInOrder(Clumps(es), Len(es))
\* an empty bundle only ever precedes a command that alone reaches the clump size
InvEmptyOnlyBeforeHuge == \A k \in 1 .. Len(Clumps(es)) :
    Clumps(es)[k] = <<>> => (k < Len(Clumps(es)) /\ Header + es[Clumps(es)[k + 1][1]] + Prefix >= Limit)
\* a bundle of several commands stays below the clump size
InvBelowLimit == \A k \in 1 .. Len(Clumps(es)) : LET c == Clumps(es)[k] IN
    Len(c) >= 2 => Header + Prefix * Len(c) + (LET RECURSIVE Sum(_) Sum(q) == IF q = <<>> THEN 0 ELSE es[q[1]] + Sum(Tail(q)) IN Sum(c)) < Limit
=============================================================================
