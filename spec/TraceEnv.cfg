SPECIFICATION TSpec
