SPECIFICATION Spec
CONSTANT MaxSegs = 2
CONSTANT Small = TRUE
INVARIANT ChannelCount
INVARIANT ChannelsAreEnvelopes
INVARIANT EntriesExpand
INVARIANT NamesStayShapes
INVARIANT OneChannelIsPlain
INVARIANT InvalidRefused
