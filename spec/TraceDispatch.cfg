SPECIFICATION TSpec
