------------------------------- MODULE Env -------------------------------
(* C19: envelope specifications - server array format, standard constructors, client-side
   evaluation.  Everything here is a transcription of the SuperCollider Env / EnvGen
   documentation (shape numbers, -99 for absent nodes, wrapping of times and curves, the
   documented breakpoints of the constructors, the piecewise definition of the value at a
   time); nothing is taken from sc3's own tables.

   Numbers are rationals <<num, den>> (den > 0).  What the code produced is projected by the
   driver to fixed point: Fix(v) = floor(v * 2^20).  On the lattice used by the generators
   (multiples of 1/8, halves of them) Python's float arithmetic is exact, so equality of the
   projections is equality of the values.

   The same operators serve the design model below (TLC enumerates envelopes built by every
   constructor and checks the laws on them), the simulation used for S->C replay, and the
   trace spec (TraceEnv.tla) that decides every recorded execution of the real code.       *)
EXTENDS Integers, Sequences, FiniteSets, TLC

(* ------------------------------ numbers ------------------------------ *)
FP == 1048576                                   \* 2^20
Abs(x) == IF x < 0 THEN 0 - x ELSE x
Min(a, b) == IF a < b THEN a ELSE b
Max(a, b) == IF a > b THEN a ELSE b
RECURSIVE Gcd(_, _)
Gcd(a, b) == IF b = 0 THEN a ELSE Gcd(b, a % b)
Norm(r) == LET g == Gcd(Abs(r[1]), r[2]) IN <<r[1] \div g, r[2] \div g>>
RAdd(a, b) == Norm(<<a[1] * b[2] + b[1] * a[2], a[2] * b[2]>>)
RSub(a, b) == Norm(<<a[1] * b[2] - b[1] * a[2], a[2] * b[2]>>)
RMul(a, b) == Norm(<<a[1] * b[1], a[2] * b[2]>>)
RHalf(a) == Norm(<<a[1], 2 * a[2]>>)
RDiv(a, b) == IF b[1] < 0 THEN Norm(<<0 - a[1] * b[2], 0 - a[2] * b[1]>>) ELSE Norm(<<a[1] * b[2], a[2] * b[1]>>)
RLt(a, b) == a[1] * b[2] < b[1] * a[2]
REq(a, b) == a[1] * b[2] = b[1] * a[2]
Fix(r) == LET n == Norm(r) IN (n[1] * FP) \div n[2]     \* floor(r * 2^20)
Z == <<0, 1>>
One == <<1, 1>>
I(n) == <<n, 1>>
L8(r) == (r[1] * 8) \div r[2]              \* r in units of 1/8 (exact when On8)
On8(r) == (r[1] * 8) % r[2] = 0

R(kind, v) == [k |-> kind, v |-> v]

(* ------------------------------ shapes -------------------------------
   Server shape numbers (EnvGen help, "shape" of a segment):
     0 step, 1 linear, 2 exponential, 3 sine, 4 welch, 5 curvature number (the number is the
     fourth entry of the segment), 6 squared, 7 cubed, 8 hold.
   A curve is [nm |-> name, v |-> rational]; nm = "#" marks a plain number.              *)
ShapeNum(nm) ==
    CASE nm = "step" -> 0
      [] nm \in {"lin", "linear"} -> 1
      [] nm \in {"exp", "exponential"} -> 2
      [] nm \in {"sin", "sine"} -> 3
      [] nm \in {"wel", "welch"} -> 4
      [] nm = "#" -> 5
      [] nm \in {"sqr", "squared"} -> 6
      [] nm \in {"cub", "cubed"} -> 7
      [] nm = "hold" -> 8
      [] OTHER -> 0 - 1
Cv(nm) == [nm |-> nm, v |-> Z]
Num(r) == [nm |-> "#", v |-> r]
Curvature(c) == IF c.nm = "#" THEN Fix(c.v) ELSE 0

(* ------------------------------ envelopes ----------------------------
   e = [lv, tm, cv, rel, loop, off]: levels (n+1 of them), times and curves as given (non
   empty, possibly shorter than n: they wrap), rel/loop = <<>> (absent) or <<k>>, off offset. *)
MkEnv(lv, tm, cv, rel, loop, off) == [lv |-> lv, tm |-> tm, cv |-> cv, rel |-> rel, loop |-> loop, off |-> off]
NSeg(e) == Len(e.lv) - 1
Wrap(s, i) == s[((i - 1) % Len(s)) + 1]
TimeOf(e, i) == Wrap(e.tm, i)
CurveOf(e, i) == Wrap(e.cv, i)
ValidCurves(e) == \A i \in 1..NSeg(e) : ShapeNum(CurveOf(e, i).nm) >= 0
Node(x) == IF x = <<>> THEN (0 - 99) * FP ELSE x[1] * FP

FormatSeq(e) ==
    LET n == NSeg(e)
        seg == [j \in 1..(4 * n) |->
                  LET i == ((j - 1) \div 4) + 1
                      f == (j - 1) % 4 IN
                  CASE f = 0 -> Fix(e.lv[i + 1])
                    [] f = 1 -> Fix(TimeOf(e, i))
                    [] f = 2 -> ShapeNum(CurveOf(e, i).nm) * FP
                    [] f = 3 -> Curvature(CurveOf(e, i))]
    IN <<Fix(e.lv[1]), n * FP, Node(e.rel), Node(e.loop)>> \o seg
Format(e) == IF ValidCurves(e) THEN R("ok", FormatSeq(e)) ELSE R("exc", <<>>)

\* the layout for the interpolating generator (IEnvGen help): offset, initial level, number of segments, total
\* duration, then per segment duration, shape number, curvature, target level
RECURSIVE SumTimes(_, _)
SumTimes(e, i) == IF i > NSeg(e) THEN Z ELSE RAdd(TimeOf(e, i), SumTimes(e, i + 1))
InterpSeq(e) ==
    LET n == NSeg(e)
        seg == [j \in 1..(4 * n) |->
                  LET i == ((j - 1) \div 4) + 1
                      f == (j - 1) % 4 IN
                  CASE f = 0 -> Fix(TimeOf(e, i))
                    [] f = 1 -> ShapeNum(CurveOf(e, i).nm) * FP
                    [] f = 2 -> Curvature(CurveOf(e, i))
                    [] f = 3 -> Fix(e.lv[i + 1])]
    IN <<Fix(e.off), Fix(e.lv[1]), n * FP, Fix(SumTimes(e, 1))>> \o seg
Interp(e) == IF ValidCurves(e) THEN R("ok", InterpSeq(e)) ELSE R("exc", <<>>)

(* ------------------------------ derived envelopes, duration ------------------------------
   range(lo, hi) maps the levels linearly from [min level, max level] to [lo, hi]; exprange / curverange map
   the extreme levels to lo / hi (their interior values are curved and not defined here); everything else is
   kept.  duration is the sum of the times; assigning it scales every time by new / old.                 *)
RECURSIVE MinLv(_, _)
MinLv(lv, i) == IF i = Len(lv) THEN lv[i] ELSE LET m == MinLv(lv, i + 1) IN IF RLt(lv[i], m) THEN lv[i] ELSE m
RECURSIVE MaxLv(_, _)
MaxLv(lv, i) == IF i = Len(lv) THEN lv[i] ELSE LET m == MaxLv(lv, i + 1) IN IF RLt(m, lv[i]) THEN lv[i] ELSE m
MapLevel(kind, x, mn, mx, lo, hi) ==
    IF ~RLt(mn, x) THEN lo
    ELSE IF ~RLt(x, mx) THEN hi
    ELSE IF kind = "range" THEN RAdd(lo, RDiv(RMul(RSub(x, mn), RSub(hi, lo)), RSub(mx, mn)))
    ELSE <<0, 0>>                                   \* interior of a curved mapping: not defined here
DerivedLevels(e, kind, lo, hi) ==
    LET mn == MinLv(e.lv, 1)
        mx == MaxLv(e.lv, 1) IN
    [i \in 1..Len(e.lv) |-> MapLevel(kind, e.lv[i], mn, mx, lo, hi)]
Derivable(e, kind) ==       \* every level is defined by the mapping
    kind = "range" \/ \A i \in 1..Len(e.lv) : REq(e.lv[i], MinLv(e.lv, 1)) \/ REq(e.lv[i], MaxLv(e.lv, 1))
Derived(e, kind, lo, hi) == [e EXCEPT !.lv = DerivedLevels(e, kind, lo, hi)]
\* times as the instance holds them (wrap-extended to the segment count at construction)
FullTimes(e) == [i \in 1..NSeg(e) |-> TimeOf(e, i)]
Duration(e) == SumTimes(e, 1)
Rescaled(e, d) == [e EXCEPT !.tm = [i \in 1..NSeg(e) |-> RDiv(RMul(TimeOf(e, i), d), Duration(e))]]
\* inputs of the EnvGen unit generator: gate, levelScale, levelBias, timeScale, doneAction, envelope array
EnvGenInputs(e, ctl) == [i \in 1..5 |-> Fix(ctl[i])] \o FormatSeq(e)

(* ------------------------------ multichannel envelopes --------------
   Every entry of levels, times and curves may itself be a list: one value per channel (names, numbers, mixed).
   The envelope array is multichannel-expanded (Env help, "Multichannel expansion"): there are as many channels
   as the longest such list, channel c is the ordinary envelope made of the c-th value of every entry, shorter
   lists wrap around, plain entries are the same for all channels.  A multichannel envelope m has every entry
   as a sequence of channel values (a plain entry is a sequence of one).                                      *)
MaxLen1(ss) == LET lens == {Len(ss[i]) : i \in 1..Len(ss)} IN CHOOSE x \in lens : \A y \in lens : y <= x
NChan(m) == Max(MaxLen1(m.lv), Max(MaxLen1(m.tm), MaxLen1(m.cv)))
Pick(entry, c) == entry[((c - 1) % Len(entry)) + 1]
Chan(m, c) == MkEnv([i \in 1..Len(m.lv) |-> Pick(m.lv[i], c)], [i \in 1..Len(m.tm) |-> Pick(m.tm[i], c)],
                    [i \in 1..Len(m.cv) |-> Pick(m.cv[i], c)], m.rel, m.loop, m.off)
ValidMC(m) == \A c \in 1..NChan(m) : ValidCurves(Chan(m, c))
FormatMC(m) == IF ValidMC(m) THEN R("ok", [c \in 1..NChan(m) |-> FormatSeq(Chan(m, c))]) ELSE R("exc", <<>>)

(* ------------------------------ constructors -------------------------
   Documented breakpoints (Env help: *triangle *sine *perc *linen *step *cutoff *dadsr *adsr
   *asr *pairs *xyc).  cv is the curve argument as a sequence (a single curve = <<c>>).    *)
None == <<>>
C_New(lv, tm, cv, rel, loop, off) == MkEnv(lv, tm, cv, rel, loop, off)
C_Triangle(dur, level) == MkEnv(<<Z, level, Z>>, <<RHalf(dur), RHalf(dur)>>, <<Cv("lin")>>, None, None, Z)
C_Sine(dur, level) == MkEnv(<<Z, level, Z>>, <<RHalf(dur), RHalf(dur)>>, <<Cv("sine")>>, None, None, Z)
C_Perc(att, rls, level, cv) == MkEnv(<<Z, level, Z>>, <<att, rls>>, cv, None, None, Z)
C_Linen(att, sus, rls, level, cv) == MkEnv(<<Z, level, level, Z>>, <<att, sus, rls>>, cv, None, None, Z)
C_Step(lv, tm, rel, loop, off) == MkEnv(<<lv[1]>> \o lv, tm, <<Cv("step")>>, rel, loop, off)
\* dbamp(-100) = 10^-5 is the floor of an exponential fade out
C_Cutoff(rls, level, cv) ==
    MkEnv(<<level, IF ShapeNum(cv[1].nm) = 2 THEN <<1, 100000>> ELSE Z>>, <<rls>>, cv, <<0>>, None, Z)
C_Dadsr(dly, att, dec, sus, rls, peak, cv, bias) ==
    MkEnv(<<RAdd(Z, bias), RAdd(Z, bias), RAdd(peak, bias), RAdd(RMul(peak, sus), bias), RAdd(Z, bias)>>,
          <<dly, att, dec, rls>>, cv, <<3>>, None, Z)
C_Adsr(att, dec, sus, rls, peak, cv, bias) ==
    MkEnv(<<RAdd(Z, bias), RAdd(peak, bias), RAdd(RMul(peak, sus), bias), RAdd(Z, bias)>>,
          <<att, dec, rls>>, cv, <<2>>, None, Z)
C_Asr(att, sus, rls, cv) == MkEnv(<<Z, sus, Z>>, <<att, rls>>, cv, <<1>>, None, Z)
\* control points <<time, level, curve>>: sorted by time (stable), times are the differences, the curve
\* of a point shapes the segment that starts there (the last one is unused), offset = first time
RECURSIVE SortPts(_)
SortPts(p) ==
    IF Len(p) <= 1 THEN p
    ELSE LET m == CHOOSE i \in 1..Len(p) : \A j \in 1..Len(p) :
                       RLt(p[i][1], p[j][1]) \/ (REq(p[i][1], p[j][1]) /\ i <= j)
             rest == [k \in 1..(Len(p) - 1) |-> IF k < m THEN p[k] ELSE p[k + 1]]
         IN <<p[m]>> \o SortPts(rest)
C_Xyc(pts) ==
    LET s == SortPts(pts)
        n == Len(s) - 1
    IN MkEnv([i \in 1..(n + 1) |-> s[i][2]], [i \in 1..n |-> RSub(s[i + 1][1], s[i][1])],
             [i \in 1..n |-> s[i][3]], None, None, s[1][1])
\* pairs <<time, level>> with one curve for all segments (cvs = <<c>>) or one curve per point
C_Pairs(pts, cvs) ==
    C_Xyc([i \in 1..Len(pts) |-> <<pts[i][1], pts[i][2], IF Len(cvs) = 1 THEN cvs[1] ELSE cvs[i]>>])

(* ------------------------------ evaluation ---------------------------
   Times are converted to ticks of 1/64 s (exact for the lattice used).  Begin(e, i) is the
   time of breakpoint i (1-based, Begin(e,1) = 0).  The value at time t (after subtracting the
   offset and clamping at 0) belongs to the first segment whose end lies after t; past the
   end it is the last level.                                                               *)
TK == 64
Ticks(r) == (r[1] * TK) \div r[2]
OnLattice(r) == (r[1] * TK) % r[2] = 0
RECURSIVE Begin(_, _)
Begin(e, i) == IF i <= 1 THEN 0 ELSE Begin(e, i - 1) + Ticks(TimeOf(e, i - 1))
Total(e) == Begin(e, NSeg(e) + 1)
Clamp(e, t) == Max(0, t - Ticks(e.off))
InEnd(e, tt) == tt >= Total(e)
SegAt(e, tt) == CHOOSE i \in 1..NSeg(e) : tt < Begin(e, i + 1) /\ \A j \in 1..(i - 1) : ~(tt < Begin(e, j + 1))

\* shapes whose value is defined exactly here: step, linear, hold and curvature 0
ExactShape(c) == ShapeNum(c.nm) \in {0, 1, 8} \/ (c.nm = "#" /\ c.v[1] = 0)
\* exact value as a rational, for envelopes made of exact shapes only
AtExact(e, t) ==
    LET tt == Clamp(e, t) IN
    IF InEnd(e, tt) THEN e.lv[NSeg(e) + 1]
    ELSE LET i == SegAt(e, tt)
             s == ShapeNum(CurveOf(e, i).nm)
             sl == e.lv[i]
             tl == e.lv[i + 1]
             dt == tt - Begin(e, i)
             dur == Ticks(TimeOf(e, i))
         IN CASE s = 0 -> tl
              [] s = 8 -> sl
              [] OTHER -> RAdd(sl, RMul(<<dt, dur>>, RSub(tl, sl)))

\* domain in which the server (and so the statement) defines a shape
InDomain(s, sl, tl) ==
    CASE s = 2 -> (sl[1] > 0 /\ tl[1] > 0) \/ (sl[1] < 0 /\ tl[1] < 0)
      [] s \in {6, 7} -> sl[1] >= 0 /\ tl[1] >= 0
      [] OTHER -> TRUE

(* AtWhy: is V = floor(value * 2^20) an allowed observation for the value at time t (ticks)?
   exact shapes: exactly the defined value (1 unit of slack only when the position inside the
   segment is not dyadic, where float rounding may cross a unit); other shapes: the laws -
   at the start of a segment the level of that breakpoint, inside between the neighbouring
   levels, both with 1 unit of slack; after the end exactly the last level.                  *)
AtWhy(e, t, V) ==
    LET tt == Clamp(e, t) IN
    IF InEnd(e, tt) THEN (IF V = Fix(e.lv[NSeg(e) + 1]) THEN "ok" ELSE "after-end")
    ELSE LET i == SegAt(e, tt)
             c == CurveOf(e, i)
             s == ShapeNum(c.nm)
             sl == e.lv[i]
             tl == e.lv[i + 1]
             dt == tt - Begin(e, i)
             dur == Ticks(TimeOf(e, i))
             lo == Min(Fix(sl), Fix(tl))
             hi == Max(Fix(sl), Fix(tl))
         IN IF s = 0 THEN (IF V = Fix(tl) THEN "ok" ELSE "step")
            ELSE IF s = 8 THEN (IF V = Fix(sl) THEN "ok" ELSE "hold")
            ELSE IF ExactShape(c) /\ On8(sl) /\ On8(tl) THEN
                 \* value * dur = sl*dur + dt*(tl-sl); with levels k/8: X = 2^20 * value * dur (an integer)
                 LET X == (FP \div 8) * (dur * L8(sl) + dt * (L8(tl) - L8(sl)))
                     slack == IF (dt * TK) % dur = 0 THEN 0 ELSE dur
                 IN IF V * dur - slack <= X /\ X <= V * dur + slack /\ lo <= V /\ V <= hi
                    THEN "ok" ELSE "linear"
            ELSE IF ~InDomain(s, sl, tl) THEN "ok"
            ELSE IF V < lo - 1 \/ V > hi + 1 THEN "between"
            ELSE IF dt = 0 /\ Abs(V - Fix(sl)) > 1 THEN "breakpoint"
            ELSE "ok"

\* implementation-shaped evaluation (L2): walk the flat server array accumulating end times, as
\* the client-side evaluator does; must agree with AtExact on exact shapes.
\* (the walk needs times in ticks; the flat array carries Fix(time) = time * 2^20, lattice times
\*  are multiples of 2^20/64 so ticks = Fix \div (FP \div TK))
FTicks(x) == x \div (FP \div TK)
RECURSIVE AtFmt(_, _, _, _, _)
AtFmt(f, k, startLv, begT, tt) ==
    LET n == f[2] \div FP IN
    IF k > n THEN <<startLv, 1, 0, 1>>                 \* <<level, shape-independent marker...>>
    ELSE LET tl == f[4 * k + 1]
             endT == begT + FTicks(f[4 * k + 2])
             sh == f[4 * k + 3] \div FP
         IN IF tt < endT
            THEN <<startLv, tl, tt - begT, endT - begT, sh>>
            ELSE AtFmt(f, k + 1, tl, endT, tt)
\* result of the walk: either <<lastLevel,1,0,1>> (past the end) or <<sl, tl, dt, dur, shape>> (fixed point levels)
WalkAgrees(e, t) ==
    LET tt == Clamp(e, t)
        w == AtFmt(FormatSeq(e), 1, FormatSeq(e)[1], 0, tt)
    IN IF InEnd(e, tt) THEN Len(w) = 4 /\ w[1] = Fix(e.lv[NSeg(e) + 1])
       ELSE LET i == SegAt(e, tt) IN
            /\ Len(w) = 5
            /\ w[1] = Fix(e.lv[i]) /\ w[2] = Fix(e.lv[i + 1])
            /\ w[3] = tt - Begin(e, i) /\ w[4] = Ticks(TimeOf(e, i))
            /\ w[5] = ShapeNum(CurveOf(e, i).nm)

(* ============================== design model ==============================
   One action per constructor (taken from the initial state), then Query moves the evaluation time.  TLC enumerates every
   envelope the constructors can build from the constant sets and checks the laws.       *)
CONSTANTS Levels, Times, Curves, MaxSeg, MaxPts, QTicks
\* constant sets for the configurations (cfg files cannot write tuples)
LevelsQ == {Z, One, <<0 - 1, 2>>}
TimesQ == {Z, <<3, 8>>, One}
CurvesQ == {Cv("lin"), Cv("hold"), Num(<<0 - 4, 1>>)}
LevelsT == {Z, One, <<0 - 1, 2>>}
TimesT == {Z, <<3, 8>>, One, <<1, 8>>}
CurvesT == CurvesQ \cup {Cv("step"), Cv("exp"), Cv("sine"), Cv("sqr"), Cv("foo")}
LevelsD == {Z, One}
TimesD == {Z, <<3, 8>>, One}
CurvesD == {Cv("lin"), Cv("hold"), Num(<<0 - 4, 1>>)}
\* simulation (S->C replay): exact shapes only, so that the value is defined exactly
LevelsS == {Z, <<1, 2>>, One, <<0 - 1, 1>>, <<3, 8>>, <<2, 1>>, <<0 - 1, 4>>}
TimesS == {Z, <<1, 8>>, <<3, 8>>, One, <<1, 2>>, <<1, 4>>, <<2, 1>>}
CurvesS == {Cv("lin"), Cv("step"), Cv("hold"), Num(Z), Cv("linear")}
VARIABLES env, op, tq, fmt, val, part
vars == <<env, op, tq, fmt, val, part>>

SeqsUpTo(S, lo, hi) == UNION {[1..k -> S] : k \in lo..hi}
Nodes(n) == {None} \cup {<<k>> : k \in 0..(n - 1)}
AllExact(e) == \A i \in 1..NSeg(e) : ExactShape(CurveOf(e, i))
ValOf(e, t) == IF AllExact(e) THEN <<Fix(AtExact(e, t))>> ELSE <<>>
Set(e, name) == /\ env' = e /\ op' = name /\ tq' = 0 /\ fmt' = Format(e)
                /\ val' = (IF ValidCurves(e) THEN ValOf(e, 0) ELSE <<>>) /\ UNCHANGED part
\* part = <<level, time, curve>> fixes the first level-like, time-like and curve parameter of every
\* constructor: the initial states partition the space so that TLC's workers share it
PL == part[1]
PT == part[2]
PC == part[3]
Fresh == op = "init"

Init == /\ env = MkEnv(<<Z, One, Z>>, <<One, One>>, <<Cv("lin")>>, None, None, Z)
        /\ op = "init" /\ tq = 0 /\ fmt = Format(env) /\ val = ValOf(env, 0)
        /\ part \in Levels \X Times \X Curves
New == Fresh /\ \E n \in 1..MaxSeg : \E lv \in [1..n -> Levels], tm \in SeqsUpTo(Times, 0, n - 1),
          cv \in SeqsUpTo(Curves, 0, n - 1), rel \in Nodes(n), loop \in {None, <<0>>} :
          (loop # None => rel # None) /\
          Set(C_New(<<PL>> \o lv, <<PT>> \o tm, <<PC>> \o cv, rel, loop, Z), "new")
Triangle == Fresh /\ PT[1] > 0 /\ PC = Cv("lin") /\ Set(C_Triangle(PT, PL), "triangle")
Sine == Fresh /\ PT[1] > 0 /\ PC = Cv("lin") /\ Set(C_Sine(PT, PL), "sine")
Perc == Fresh /\ \E r \in Times : Set(C_Perc(PT, r, PL, <<PC>>), "perc")
Linen == Fresh /\ \E s \in Times, r \in Times : Set(C_Linen(PT, s, r, PL, <<PC>>), "linen")
Step == Fresh /\ PC = Cv("lin") /\ \E n \in 0..(MaxSeg - 1) : \E lv \in [1..n -> Levels], tm \in [1..n -> Times], loop \in {None, <<0>>},
           off \in {Z, One} : Set(C_Step(<<PL>> \o lv, <<PT>> \o tm, None, loop, off), "step")
Cutoff == Fresh /\ Set(C_Cutoff(PT, PL, <<PC>>), "cutoff")
Dadsr == Fresh /\ \E a \in Times, d \in Times, r \in Times, s \in Levels, b \in {Z, One} :
            Set(C_Dadsr(PT, a, d, s, r, PL, <<PC>>, b), "dadsr")
Adsr == Fresh /\ \E d \in Times, r \in Times, s \in Levels, b \in {Z, One} :
            Set(C_Adsr(PT, d, s, r, PL, <<PC>>, b), "adsr")
Asr == Fresh /\ \E r \in Times : Set(C_Asr(PT, PL, r, <<PC>>), "asr")
Xyc == Fresh /\ \E n \in 1..MaxPts : \E ts \in [1..n -> Times], ls \in [1..n -> Levels], cs \in [1..n -> Curves] :
           Set(C_Xyc([i \in 1..(n + 1) |-> IF i = 1 THEN <<PT, PL, PC>> ELSE <<ts[i - 1], ls[i - 1], cs[i - 1]>>]), "xyc")
Pairs == Fresh /\ \E n \in 1..MaxPts : \E ts \in [1..n -> Times], ls \in [1..n -> Levels] :
           Set(C_Pairs([i \in 1..(n + 1) |-> IF i = 1 THEN <<PT, PL>> ELSE <<ts[i - 1], ls[i - 1]>>], <<PC>>), "pairs")
Query == /\ op # "init" /\ ValidCurves(env)
         /\ \E t \in QTicks : tq' = t /\ val' = ValOf(env, t)
         /\ UNCHANGED <<env, op, fmt, part>>
Next == New \/ Triangle \/ Sine \/ Perc \/ Linen \/ Step \/ Cutoff \/ Dadsr \/ Adsr \/ Asr \/ Xyc \/ Pairs \/ Query
Spec == Init /\ [][Next]_vars

(* simulation model (S->C replay): the envelope grows one breakpoint at a time so that every step has
   few successors; times and curves may stay shorter than the segment count (they wrap)          *)
Upd(e) == /\ env' = e /\ op' = "sim" /\ fmt' = Format(e) /\ tq' = 0 /\ val' = ValOf(e, 0) /\ UNCHANGED part
SimInit == /\ part \in Levels \X Times \X Curves
           /\ env = MkEnv(<<Z, PL>>, <<PT>>, <<PC>>, None, None, Z)
           /\ op = "sim" /\ tq = 0 /\ fmt = Format(env) /\ val = ValOf(env, 0)
Grow == /\ NSeg(env) < MaxSeg
        /\ \E lv \in Levels, t \in Times \cup {None}, c \in Curves \cup {None} :
             Upd([env EXCEPT !.lv = Append(@, lv),
                             !.tm = IF t = None THEN @ ELSE Append(@, t),
                             !.cv = IF c = None THEN @ ELSE Append(@, c)])
SetNodes == \E rel \in Nodes(NSeg(env)), loop \in Nodes(NSeg(env)), off \in {Z, One, <<1, 8>>} :
             Upd([env EXCEPT !.rel = rel, !.loop = loop, !.off = off])
SimNext == Grow \/ SetNodes \/ Query
SimSpec == SimInit /\ [][SimNext]_vars

(* ------------------------------ laws ------------------------------ *)
\* the array has 4 + 4n entries, announces n, uses only server shape numbers, and carries a curvature
\* only with shape 5
FormatWellFormed ==
    fmt.k = "ok" =>
      LET f == fmt.v
          n == NSeg(env) IN
      /\ Len(f) = 4 + 4 * n /\ f[2] = n * FP
      /\ \A i \in 1..n : /\ f[4 * i + 3] \in {s * FP : s \in 0..8}
                         /\ (f[4 * i + 3] # 5 * FP => f[4 * i + 4] = 0)
\* absent nodes are -99, present ones are segment indices
NodesEncoded ==
    fmt.k = "ok" =>
      /\ (env.rel = None <=> fmt.v[3] = (0 - 99) * FP)
      /\ (env.rel # None => fmt.v[3] = env.rel[1] * FP /\ env.rel[1] \in 0..NSeg(env))
      /\ (env.loop = None <=> fmt.v[4] = (0 - 99) * FP)
\* times and curves really wrap: segment i carries time ((i-1) mod |tm|)+1
WrapLaw ==
    fmt.k = "ok" =>
      \A i \in 1..NSeg(env) : \A j \in 1..NSeg(env) :
         (i % Len(env.tm) = j % Len(env.tm)) => fmt.v[4 * i + 2] = fmt.v[4 * j + 2]
\* the sustained constructors put the release node before the release segment; fixed ones have none
ConstructorNodes ==
    /\ (op \in {"adsr", "dadsr", "asr"} => env.rel = <<NSeg(env) - 1>>)
    /\ (op = "cutoff" => env.rel = <<0>>)
    /\ (op \in {"triangle", "sine", "perc", "linen", "xyc", "pairs"} => env.rel = None /\ env.loop = None)
\* control points: times are non-negative differences, offset is the earliest time
PointsSorted ==
    op \in {"xyc", "pairs"} => \A i \in 1..Len(env.tm) : env.tm[i][1] >= 0
\* laws of evaluation, on the shapes this module defines exactly
AtLaws ==
    (fmt.k = "ok" /\ AllExact(env)) =>
      LET v == AtExact(env, tq)
          tt == Clamp(env, tq) IN
      /\ AtWhy(env, tq, Fix(v)) = "ok"
      /\ (InEnd(env, tt) => v = env.lv[NSeg(env) + 1])
      /\ (~InEnd(env, tt) =>
            LET i == SegAt(env, tt) IN
            /\ ~RLt(v, env.lv[i]) \/ ~RLt(v, env.lv[i + 1])          \* between the neighbours
            /\ ~RLt(env.lv[i], v) \/ ~RLt(env.lv[i + 1], v)
            /\ (tt = Begin(env, i) /\ ShapeNum(CurveOf(env, i).nm) # 0 => REq(v, env.lv[i])))
\* the implementation-shaped walk over the flat array finds the same segment
WalkRefines == fmt.k = "ok" => WalkAgrees(env, tq)
=============================================================================
