SPECIFICATION Spec
CONSTANTS
  Templates = {"n", "z", "b", "k", "L2u", "L3u", "N21u", "N23u", "L1"}
  MaxArgs = 3
  FirstList = TRUE
INVARIANT InvLen
INVARIANT InvDepth
INVARIANT InvLeaf
INVARIANT InvSingle
INVARIANT InvMultiNew
INVARIANT InvBinop
INVARIANT InvUnop
INVARIANT InvPerform
INVARIANT InvMadd
