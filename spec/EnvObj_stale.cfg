SPECIFICATION Spec
CONSTANTS
  Invalidate = FALSE
  ShareTimes = TRUE
  InPlace = FALSE
  MaxLen = 3
  Small = TRUE
INVARIANT Coherent
