SPECIFICATION Spec
CONSTANTS
  Invalidate = FALSE
  MaxLen = 3
INVARIANT Coherent
