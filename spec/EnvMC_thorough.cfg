SPECIFICATION Spec
CONSTANT MaxSegs = 2
CONSTANT Small = FALSE
INVARIANT ChannelCount
INVARIANT ChannelsAreEnvelopes
INVARIANT EntriesExpand
INVARIANT NamesStayShapes
INVARIANT OneChannelIsPlain
INVARIANT InvalidRefused
