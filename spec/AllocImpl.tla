----------------------------- MODULE AllocImpl -----------------------------
(* L2 for C16: sc3/synth/_engine.py ContiguousBlockAllocator transcribed method by method.

   Python objects are modelled with identity: `heap` maps a block id to [start, size, used];
   `arr` is _array (index = relative address, 0 = None); `freed` + `fkeys` are the dict
   _freed (fkeys = its keys in insertion order, which decides "first size >= n");
   _freed[n] = {b \in freed : heap[b].size = n}.  `top`, and C.pos / C.off / C.size as in the code
   (self.pos and self.top are absolute = shifted by addr_offset; self.size is relative).
   The address arithmetic (… - addr_offset) is written exactly where the code writes it, Python's
   negative-index wrap-around included.  bi.choice is a nondeterministic choice (\E in Alloc).
   Anything that would raise in Python (None.attr, index out of range) is an Assert failure.

   PinnedFindNext = TRUE gives _find_next as it stands in the pinned tree
   (`if i < self.size`, absolute address against relative size); FALSE the repaired comparison.

   TLC checks that every step refines Alloc.tla (StepRefines) plus structural invariants.     *)
EXTENDS Naturals, Integers, Sequences, FiniteSets, TLC
CONSTANTS Cfgs, MaxN, MaxId, PinnedFindNext, MaxDepth,
          FreeAnywhere             \* TRUE: free(a) for every address of the client's space;
                                   \* FALSE: only for block starts (used or not) and None
VARIABLES C,                       \* configuration [size, pos, off] (chosen in Init)
          heap, arr, freed, fkeys, top,
          op, ret, pick,           \* history: last call, its result, the block bi.choice picked
          pre                      \* abstract state (live) before the last call
vars == <<C, heap, arr, freed, fkeys, top, op, ret, pick, pre>>
\* the implementation state proper; with VIEW Real the history variables are outputs only and the
\* refinement condition is enforced on every transition by the Assert inside Alloc / Free
Real == <<C, heap, arr, freed, fkeys, top>>

L1 == INSTANCE Alloc WITH live <- {}, prev <- {}    \* only the operators of L1 are used
NONE == L1!NONE
Cfg(size, pos, off) == [size |-> size, pos |-> pos, off |-> off]
CfgsQuick == {Cfg(5, 0, 0), Cfg(5, 1, 5), Cfg(6, 2, 12)}
CfgsThorough == {Cfg(s, p, o) : s \in {6, 8}, p \in {0, 2}, o \in {0, 8, 16}}
CfgsMid == {Cfg(s, p, o) : s \in {6, 7}, p \in {0, 2}, o \in {0, 7, 21}}
CfgsBig == {Cfg(s, p, o) : s \in {9, 10}, p \in {0, 3}, o \in {0, 10, 40}}
CfgsSim == {Cfg(s, p, o) : s \in {8, 12}, p \in {0, 2}, o \in {0, 12, 36}}

Max(S) == CHOOSE x \in S : \A y \in S : y <= x
Min(S) == CHOOSE x \in S : \A y \in S : x <= y
Range(f) == {f[i] : i \in DOMAIN f}
NoBlock == [start |-> 0, size |-> 0, used |-> FALSE]
S0 == [heap |-> heap, arr |-> arr, freed |-> freed, fkeys |-> fkeys, top |-> top]

\* ---- Python list indexing of self._array (length C.size) ----
PyIdx(i) == IF i >= 0 /\ i < C.size THEN i
            ELSE IF i < 0 /\ i >= 0 - C.size THEN i + C.size
            ELSE Assert(FALSE, <<"IndexError: _array index", i>>)
At(s, i) == s.arr[PyIdx(i)]
SetAt(s, i, b) == [s EXCEPT !.arr[PyIdx(i)] = b]
Used(s, b) == IF b = 0 THEN Assert(FALSE, "AttributeError: None.used") ELSE s.heap[b].used
\* a fresh object: the least id referenced neither by _array, _freed nor a local variable
NewId(s, locals) ==
    LET free == (1 .. MaxId) \ (Range(s.arr) \cup s.freed \cup locals)
    IN IF free = {} THEN Assert(FALSE, "MaxId too small") ELSE Min(free)

\* ---- ContiguousBlock.adjoins / join ----
Adjoins(a, b) == (a.start < b.start /\ a.start + a.size >= b.start)
              \/ (a.start > b.start /\ b.start + b.size >= a.start)
Join(a, b) == LET st == IF a.start < b.start THEN a.start ELSE b.start
                  e1 == a.start + a.size
                  e2 == b.start + b.size
              IN [start |-> st, size |-> (IF e1 > e2 THEN e1 ELSE e2) - st, used |-> FALSE]

\* ---- _add_to_freed / _remove_from_freed ----
AddToFreed(s, b) ==
    LET n == s.heap[b].size
    IN [s EXCEPT !.freed = @ \cup {b},
                 !.fkeys = IF n \in Range(@) THEN @ ELSE Append(@, n)]
RemoveFromFreed(s, b) ==
    LET n == s.heap[b].size
    IN IF n \notin Range(s.fkeys) THEN s
       ELSE LET f2 == s.freed \ {b}
            IN [s EXCEPT !.freed = f2,
                         !.fkeys = IF {x \in f2 : s.heap[x].size = n} = {}
                                   THEN SelectSeq(@, LAMBDA k : k # n) ELSE @]

\* ---- _find_previous / _find_next ----
FindPrevious(s, addr) ==
    LET I == {i \in (C.off + C.pos) .. (addr - 1) : At(s, i - C.off) # 0}
    IN IF I = {} THEN 0 ELSE At(s, Max(I) - C.off)
FindNext(s, addr) ==
    LET tmp == At(s, addr - C.off)
        i == IF tmp # 0 THEN s.heap[tmp].start + s.heap[tmp].size
             ELSE Min({j \in (addr + 1) .. (IF s.top > addr THEN s.top + 1 ELSE addr + 1) :
                          IF j > s.top THEN TRUE ELSE At(s, j - C.off) # 0})
        inrange == IF PinnedFindNext THEN i < C.size ELSE i - C.off < C.size
    IN IF inrange THEN At(s, i - C.off) ELSE 0

\* ---- free(addr) ----
\* one coalescing step: `other` (prev or next) is free and adjoins `b`
Merge(s, b, other, isPrev) ==
    LET t == NewId(s, {b, other})
        tb == Join(s.heap[other], s.heap[b])
        \* prev branch: "if block.start == self.top", next branch: "if next.start == self.top"
        hi == IF isPrev THEN b ELSE other
        s2 == [s EXCEPT !.heap[t] = tb,
                        !.top = IF s.heap[hi].start = s.top THEN tb.start ELSE @]
        s3 == SetAt(SetAt(s2, tb.start - C.off, t), s.heap[hi].start - C.off, 0)
        s4 == RemoveFromFreed(RemoveFromFreed(s3, other), b)
        s5 == IF s4.top > tb.start THEN AddToFreed(s4, t) ELSE s4
    IN [s |-> s5, b |-> t]
DoFree(s, addr) ==
    IF addr = NONE THEN s
    ELSE LET b == At(s, addr - C.off) IN
         IF b = 0 \/ ~s.heap[b].used THEN s
         ELSE LET s1 == AddToFreed([s EXCEPT !.heap[b].used = FALSE], b)
                  p == FindPrevious(s1, addr)
                  r1 == IF p # 0 /\ ~Used(s1, p) /\ Adjoins(s1.heap[p], s1.heap[b])
                        THEN Merge(s1, b, p, TRUE) ELSE [s |-> s1, b |-> b]
                  nx == FindNext(r1.s, r1.s.heap[r1.b].start)
              IN IF nx # 0 /\ ~Used(r1.s, nx) /\ Adjoins(r1.s.heap[nx], r1.s.heap[r1.b])
                 THEN Merge(r1.s, r1.b, nx, FALSE).s ELSE r1.s

\* ---- _find_available(n): the set of blocks bi.choice may return ({} = None) ----
Cands(s, n) ==
    LET exact == {b \in s.freed : s.heap[b].size = n}
        ks == SelectSeq(s.fkeys, LAMBDA k : k >= n)
    IN IF n \in Range(s.fkeys) /\ exact # {} THEN exact
       ELSE IF ks # <<>> THEN {b \in s.freed : s.heap[b].size = ks[1]}
       ELSE IF s.top + n - C.off > C.size \/ Used(s, At(s, s.top - C.off)) THEN {}
       ELSE {At(s, s.top - C.off)}
\* ---- _reserve(block.start, n, block) -> _split(block, n, True)[0] ----
DoAllocFrom(s, b, n) ==
    LET blk == s.heap[b] IN
    IF n > blk.size THEN Assert(FALSE, "AttributeError: split returned [None, None]")
    ELSE IF n = blk.size
    THEN LET s1 == RemoveFromFreed([s EXCEPT !.heap[b].used = TRUE], b)
         IN [s |-> SetAt(s1, blk.start - C.off, b), a |-> blk.start]
    ELSE LET new == NewId(s, {b})
             left == NewId(s, {b, new})
             s1 == [s EXCEPT !.heap[new] = [start |-> blk.start, size |-> n, used |-> TRUE],
                             !.heap[left] = [start |-> blk.start + n, size |-> blk.size - n, used |-> FALSE]]
             s2 == RemoveFromFreed(s1, b)
             s3 == SetAt(SetAt(s2, blk.start - C.off, new), blk.start + n - C.off, left)
             s4 == [s3 EXCEPT !.top = IF @ > blk.start + n THEN @ ELSE blk.start + n]
             s5 == IF s4.top > blk.start + n THEN AddToFreed(s4, left) ELSE s4
         IN [s |-> s5, a |-> blk.start]

\* Object ids carry identity only.  After every call the reachable objects are renumbered
\* canonically (blocks of _array in index order, then objects reachable from _freed only) and
\* garbage is forgotten, so that equal Python states are equal TLC states.
RECURSIVE SortBlocks(_, _)
SortBlocks(s, B) == IF B = {} THEN <<>>
    ELSE LET m == CHOOSE x \in B : \A y \in B :
                     s.heap[x].start < s.heap[y].start
                     \/ (s.heap[x].start = s.heap[y].start /\ s.heap[x].size <= s.heap[y].size)
         IN <<m>> \o SortBlocks(s, B \ {m})
Gc(s) == LET inarr == SelectSeq([i \in 1 .. C.size |-> s.arr[i - 1]], LAMBDA b : b # 0)
             order == inarr \o SortBlocks(s, s.freed \ Range(s.arr))
             new(b) == CHOOSE k \in 1 .. Len(order) : order[k] = b
         IN [s EXCEPT !.heap = [k \in 1 .. MaxId |-> IF k <= Len(order) THEN s.heap[order[k]] ELSE NoBlock],
                      !.arr = [i \in DOMAIN s.arr |-> IF s.arr[i] = 0 THEN 0 ELSE new(s.arr[i])],
                      !.freed = {new(b) : b \in s.freed}]
Install(s) == LET g == Gc(s) IN
    /\ heap' = g.heap /\ arr' = g.arr /\ freed' = g.freed /\ fkeys' = g.fkeys /\ top' = g.top

Live(s) == {[a |-> s.heap[b].start, n |-> s.heap[b].size] : b \in {x \in Range(s.arr) \ {0} : s.heap[x].used}}

\* ---- __init__(size, pos, addr_offset) ----
Init == /\ C \in Cfgs
        /\ heap = [i \in 1 .. MaxId |-> IF i = 1 THEN [start |-> C.pos + C.off, size |-> C.size - C.pos, used |-> FALSE]
                                        ELSE NoBlock]
        /\ arr = [i \in 0 .. (C.size - 1) |-> IF i = C.pos THEN 1 ELSE 0]
        /\ freed = {} /\ fkeys = <<>> /\ top = C.pos + C.off
        /\ op = [n |-> "init", x |-> 0] /\ ret = NONE /\ pick = NONE /\ pre = {}

StepOK(o, lv, r, lv2) ==
    /\ o.n = "alloc" => L1!AllocWhy(lv, C, o.x, r) = "ok" /\ lv2 = L1!AfterAlloc(lv, o.x, r)
    /\ o.n = "free"  => lv2 = L1!AfterFree(lv, o.x)
    /\ o.n = "freeall" => lv2 = {}
Refines(o, r, s2) == Assert(StepOK(o, Live(S0), r, Live(s2)), <<"StepRefines", o, r, Live(S0), Live(s2)>>)

Alloc == \E n \in 1 .. MaxN :
    LET cs == Cands(S0, n)
        o == [n |-> "alloc", x |-> n] IN
    /\ op' = o /\ pre' = Live(S0) /\ UNCHANGED C
    /\ IF cs = {}
       THEN /\ ret' = NONE /\ pick' = NONE /\ UNCHANGED <<heap, arr, freed, fkeys, top>>
            /\ Refines(o, NONE, S0)
       ELSE \E b \in cs :
              LET r == DoAllocFrom(S0, b, n) IN
              /\ Install(r.s) /\ ret' = r.a /\ pick' = heap[b].start /\ Refines(o, r.a, r.s)
FreeTargets == IF FreeAnywhere THEN C.off .. (C.off + C.size - 1)
               ELSE {heap[b].start : b \in Range(arr) \ {0}}
Free == \E a \in FreeTargets \cup {NONE} :
    LET o == [n |-> "free", x |-> a]
        s2 == DoFree(S0, a) IN
    /\ op' = o /\ pre' = Live(S0) /\ UNCHANGED C
    /\ Install(s2) /\ ret' = NONE /\ pick' = NONE /\ Refines(o, NONE, s2)
\* ---- blocks(): [x for x in self._array if x is not None and x.used] ----
BlocksSeq(s) == SelectSeq([i \in 1 .. C.size |-> s.arr[i - 1]], LAMBDA b : b # 0 /\ s.heap[b].used)
\* ---- Server._free_all_buffers: for block in allocator.blocks(): allocator.free(block.address) ----
RECURSIVE FreeEach(_, _)
FreeEach(s, bs) == IF bs = <<>> THEN s ELSE FreeEach(DoFree(s, s.heap[bs[1]].start), Tail(bs))
FreeAll == LET o == [n |-> "freeall", x |-> 0]
               s2 == FreeEach(S0, BlocksSeq(S0)) IN
    /\ op' = o /\ pre' = Live(S0) /\ UNCHANGED C
    /\ Install(s2) /\ ret' = NONE /\ pick' = NONE /\ Refines(o, NONE, s2)
Next == Alloc \/ Free \/ FreeAll
Spec == Init /\ [][Next]_vars
Depth == TLCGet("level") <= MaxDepth

(* ---- refinement of Alloc.tla, one step at a time ---- *)
StepRefines ==
    /\ op.n = "alloc" => /\ L1!AllocWhy(pre, C, op.x, ret) = "ok"
                         /\ Live(S0) = L1!AfterAlloc(pre, op.x, ret)
    /\ op.n = "free"  => Live(S0) = L1!AfterFree(pre, op.x)
\* blocks() reports exactly the live ranges, for every reserved prefix and client offset
BlocksRefine == L1!BlocksAgree(Live(S0), [k \in 1 .. Len(BlocksSeq(S0)) |->
                                           <<heap[BlocksSeq(S0)[k]].start, heap[BlocksSeq(S0)[k]].size>>])
L1Disjoint == L1!Disjoint(Live(S0))
L1Inside == L1!InsidePartition(Live(S0), C)

(* ---- structure of the implementation state (explains why it refines) ---- *)
Blocks == Range(arr) \ {0}
ArrIndexed == \A i \in DOMAIN arr : arr[i] # 0 => heap[arr[i]].start - C.off = i /\ heap[arr[i]].size >= 1
\* the blocks tile the partition exactly
Tiling == UNION {L1!Cells(heap[b].start, heap[b].size) : b \in Blocks} = L1!Lo(C) .. (L1!Hi(C) - 1)
          /\ \A b1, b2 \in Blocks : b1 # b2 =>
                L1!Cells(heap[b1].start, heap[b1].size) \cap L1!Cells(heap[b2].start, heap[b2].size) = {}
\* top is the start of the last block
TopIsLast == arr[top - C.off] # 0 /\ heap[arr[top - C.off]].start + heap[arr[top - C.off]].size = L1!Hi(C)
\* _freed holds no stale or used object and every free block below top (the top block itself is
\* found through `top`; it is also filed in _freed after alloc(everything); free)
FreedExact == /\ freed \subseteq {b \in Blocks : ~heap[b].used}
              /\ \A b \in Blocks : (~heap[b].used /\ heap[b].start < top) => b \in freed
FkeysExact == Range(fkeys) = {heap[b].size : b \in freed} /\ Len(fkeys) = Cardinality(Range(fkeys))
\* fully coalesced: no two neighbouring free blocks
Coalesced == \A b1, b2 \in Blocks :
    (heap[b1].start + heap[b1].size = heap[b2].start) => heap[b1].used \/ heap[b2].used
=============================================================================
