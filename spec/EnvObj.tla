------------------------------ MODULE EnvObj ------------------------------
(* C19, history dimension: Env instances as a small state machine.  Up to two instances: the second one is
   derived from the first (range / exprange / curverange).  Operations on either instance: request the EnvGen
   array (fmt), the IEnvGen array (ifmt), evaluate at a time (at), read the duration (dur), use it in an EnvGen
   / IEnvGen / both of a SynthDef, assign levels / times / curves / release node / loop node / offset, assign
   the duration.
   L1 (the property): every observation on an instance is a function of THAT instance's current
   specification (abs[i], changed only by operations on i): never of what was asked before, never of what
   happened to the other instance.
   L2 (implementation shaped): an instance holds its times in a list cell (a derived instance is a shallow
   copy: ShareTimes = TRUE means it starts with the SAME cell), keeps the two arrays once computed and drops
   them when its specification is assigned (Invalidate); assigning times or the duration binds a new cell
   unless InPlace.  Step invariant Coherent: L2 answers what L1 prescribes.  Sensitivity configurations (the
   invariant must fail): Invalidate = FALSE (stale arrays), InPlace = TRUE with ShareTimes = TRUE (a shared
   cell rescaled under the other instance).                                                            *)
EXTENDS Integers, Sequences, FiniteSets, TLC
CONSTANTS Invalidate, ShareTimes, InPlace, MaxLen, Small
VARIABLES inst,      \* i -> [lv, tmc (cell id), cv, rel, loop, off, cE, cI] or <<>> when the instance does not exist
          cells,     \* sequence of time lists (the heap)
          abs,       \* i -> abstract specification (L1) or <<>>
          last, len
vars == <<inst, cells, abs, last, len>>
E == INSTANCE Env WITH env <- <<>>, op <- "", tq <- 0, fmt <- <<>>, val <- <<>>, part <- <<>>,
                       Levels <- {}, Times <- {}, Curves <- {}, MaxSeg <- 0, MaxPts <- 0, QTicks <- {}

Ctl == <<E!One, E!One, E!Z, E!One, E!Z>>
IndexIn == <<1, 2>>
(* ---------------- L1: observations as functions of one specification ---------------- *)
ObsFmt(s) == E!FormatSeq(s)
ObsIFmt(s) == E!InterpSeq(s)
ObsUgenE(s) == E!EnvGenInputs(s, Ctl)
ObsUgenI(s) == <<E!Fix(IndexIn)>> \o E!InterpSeq(s)
ObsAtExact(s, t) == E!Fix(E!AtExact(s, t))
ObsDur(s) == E!Fix(E!Duration(s))

(* ---------------- design model ---------------- *)
LevelLists == {<<E!Z, E!One, E!Z>>, <<E!One, <<1, 2>>, E!Z>>}
TimeLists == {<<E!One, E!One>>, <<<<1, 2>>, <<3, 2>>>>}
CurveLists == IF Small THEN {<<E!Cv("hold"), E!Cv("lin")>>} ELSE {<<E!Cv("lin")>>, <<E!Cv("hold"), E!Cv("lin")>>}
Durs == IF Small THEN {<<4, 1>>} ELSE {E!One, <<4, 1>>}
Ranges == IF Small THEN {<<<<1, 2>>, E!One>>} ELSE {<<E!Z, <<2, 1>>>>, <<<<1, 2>>, E!One>>}
QT == IF Small THEN {32, 200} ELSE {0, 32, 96, 200}
Ids == {1, 2}

\* the concrete specification an instance currently denotes
Conc(i) == E!MkEnv(inst[i].lv, cells[inst[i].tmc], inst[i].cv, inst[i].rel, inst[i].loop, inst[i].off)
Exists(i) == inst[i] # <<>>
NewInst(lv, c, cv, rel, loop, off) == [lv |-> lv, tmc |-> c, cv |-> cv, rel |-> rel, loop |-> loop, off |-> off, cE |-> <<>>, cI |-> <<>>]

Init == /\ \E lv \in LevelLists, tm \in TimeLists, cv \in CurveLists :
             /\ inst = <<NewInst(lv, 1, cv, <<>>, <<>>, E!Z), <<>>>>
             /\ cells = <<tm>>
             /\ abs = <<E!MkEnv(lv, tm, cv, <<>>, <<>>, E!Z), <<>>>>
        /\ last = [n |-> "new", i |-> 1, obs |-> <<>>, t |-> 0] /\ len = 0
ArrE(i) == IF inst[i].cE # <<>> THEN inst[i].cE[1] ELSE E!FormatSeq(Conc(i))
ArrI(i) == IF inst[i].cI # <<>> THEN inst[i].cI[1] ELSE E!InterpSeq(Conc(i))
Step(name, i, v, t) == len < MaxLen /\ last' = [n |-> name, i |-> i, obs |-> v, t |-> t] /\ len' = len + 1
WalkValue(f, tt) ==
    LET w == E!AtFmt(f, 1, f[1], 0, tt) IN
    IF Len(w) = 4 THEN w[1]
    ELSE IF w[5] = 0 THEN w[2] ELSE IF w[5] = 8 THEN w[1]
    ELSE (w[1] * w[4] + w[3] * (w[2] - w[1])) \div w[4]
KeepE(i) == inst' = [inst EXCEPT ![i].cE = <<ArrE(i)>>]
KeepI(i) == inst' = [inst EXCEPT ![i].cI = <<ArrI(i)>>]
Fmt == \E i \in Ids : Exists(i) /\ KeepE(i) /\ Step("fmt", i, ArrE(i), 0) /\ UNCHANGED <<cells, abs>>
IFmt == \E i \in Ids : Exists(i) /\ KeepI(i) /\ Step("ifmt", i, ArrI(i), 0) /\ UNCHANGED <<cells, abs>>
At == \E i \in Ids, t \in QT : Exists(i) /\ KeepE(i) /\ UNCHANGED <<cells, abs>>
                               /\ Step("at", i, WalkValue(ArrE(i), E!Max(0, t - E!Ticks(inst[i].off))), t)
Dur == \E i \in Ids : Exists(i) /\ Step("dur", i, E!Fix(E!Duration(Conc(i))), 0) /\ UNCHANGED <<inst, cells, abs>>
UgenE == \E i \in Ids : Exists(i) /\ KeepE(i) /\ UNCHANGED <<cells, abs>>
                        /\ Step("ugenE", i, [k \in 1..5 |-> E!Fix(Ctl[k])] \o ArrE(i), 0)
UgenI == \E i \in Ids : Exists(i) /\ KeepI(i) /\ Step("ugenI", i, <<E!Fix(IndexIn)>> \o ArrI(i), 0) /\ UNCHANGED <<cells, abs>>
UgenBoth == \E i \in Ids : Exists(i) /\ inst' = [inst EXCEPT ![i].cE = <<ArrE(i)>>, ![i].cI = <<ArrI(i)>>]
                           /\ Step("ugenEI", i, <<[k \in 1..5 |-> E!Fix(Ctl[k])] \o ArrE(i), <<E!Fix(IndexIn)>> \o ArrI(i)>>, 0)
                           /\ UNCHANGED <<cells, abs>>
Drop(r) == IF Invalidate THEN [r EXCEPT !.cE = <<>>, !.cI = <<>>] ELSE r
\* assignment of an attribute other than the times
Assign(i, r2, a2, name) == /\ Exists(i) /\ a2 # abs[i]
                           /\ inst' = [inst EXCEPT ![i] = Drop(r2)] /\ abs' = [abs EXCEPT ![i] = a2]
                           /\ Step(name, i, <<>>, 0) /\ UNCHANGED cells
SetLevels == \E i \in Ids, lv \in LevelLists : Exists(i) /\ Assign(i, [inst[i] EXCEPT !.lv = lv], [abs[i] EXCEPT !.lv = lv], "set_levels")
SetCurves == \E i \in Ids, cv \in {<<E!Cv("lin")>>, <<E!Cv("hold"), E!Cv("lin")>>} : Exists(i) /\ Assign(i, [inst[i] EXCEPT !.cv = cv], [abs[i] EXCEPT !.cv = cv], "set_curves")
SetRel == \E i \in Ids, r \in {<<>>, <<1>>} : Exists(i) /\ Assign(i, [inst[i] EXCEPT !.rel = r], [abs[i] EXCEPT !.rel = r], "set_release_node")
SetOff == \E i \in Ids, o \in {E!Z, E!One} : Exists(i) /\ Assign(i, [inst[i] EXCEPT !.off = o], [abs[i] EXCEPT !.off = o], "set_offset")
\* new times: a new cell, or the old cell overwritten (InPlace)
BindTimes(i, tm, a2, name) ==
    /\ Exists(i) /\ a2 # abs[i] /\ abs' = [abs EXCEPT ![i] = a2] /\ Step(name, i, <<>>, 0)
    /\ IF InPlace
       THEN cells' = [cells EXCEPT ![inst[i].tmc] = tm] /\ inst' = [inst EXCEPT ![i] = Drop(inst[i])]
       ELSE cells' = Append(cells, tm) /\ inst' = [inst EXCEPT ![i] = Drop([inst[i] EXCEPT !.tmc = Len(cells) + 1])]
SetTimes == \E i \in Ids, tm \in TimeLists : Exists(i) /\ BindTimes(i, tm, [abs[i] EXCEPT !.tm = tm], "set_times")
SetDuration == \E i \in Ids, d \in Durs :
                 Exists(i) /\ BindTimes(i, E!Rescaled(Conc(i), d).tm, E!Rescaled(abs[i], d), "set_duration")
\* a shallow copy with mapped levels: everything but the levels is what the source holds (cell included)
Derive == \E rg \in Ranges, kind \in {"range", "exprange"} :
            /\ ~Exists(2) /\ E!Derivable(abs[1], kind)
            /\ LET lv2 == E!DerivedLevels(Conc(1), kind, rg[1], rg[2]) IN
               /\ IF ShareTimes THEN cells' = cells ELSE cells' = Append(cells, cells[inst[1].tmc])
               /\ inst' = [inst EXCEPT ![2] = Drop([inst[1] EXCEPT !.lv = lv2, !.tmc = IF ShareTimes THEN inst[1].tmc ELSE Len(cells) + 1])]
               /\ abs' = [abs EXCEPT ![2] = E!Derived(abs[1], kind, rg[1], rg[2])]
            /\ Step("derive", 1, <<>>, 0)
Next == Fmt \/ IFmt \/ At \/ Dur \/ UgenE \/ UgenI \/ UgenBoth \/ SetLevels \/ SetTimes \/ SetCurves \/ SetRel \/ SetOff
        \/ SetDuration \/ Derive
Spec == Init /\ [][Next]_vars

\* L2 => L1: what instance i answered is what ITS abstract specification prescribes
Coherent ==
    LET s == abs[last.i] IN
    CASE last.n = "fmt" -> last.obs = ObsFmt(s)
      [] last.n = "ifmt" -> last.obs = ObsIFmt(s)
      [] last.n = "at" -> last.obs = ObsAtExact(s, last.t)
      [] last.n = "dur" -> last.obs = ObsDur(s)
      [] last.n = "ugenE" -> last.obs = ObsUgenE(s)
      [] last.n = "ugenI" -> last.obs = ObsUgenI(s)
      [] last.n = "ugenEI" -> last.obs = <<ObsUgenE(s), ObsUgenI(s)>>
      [] OTHER -> TRUE
\* what an instance denotes and keeps always belongs to its own abstract specification
Independent == \A i \in Ids : Exists(i) =>
    /\ Conc(i) = abs[i]
    /\ (inst[i].cE # <<>> => inst[i].cE[1] = E!FormatSeq(abs[i]))
    /\ (inst[i].cI # <<>> => inst[i].cI[1] = E!InterpSeq(abs[i]))
\* the duration law: after assigning d the times sum to d and keep their proportions
\* rescaling any current specification to d gives times that sum to d in the old proportions
DurationLaw == \A i \in Ids, d \in Durs : Exists(i) =>
    LET s == abs[i]
        r == E!Rescaled(s, d) IN
    /\ E!REq(E!Duration(r), d)
    /\ \A j, k \in 1..E!NSeg(s) : E!REq(E!RMul(r.tm[j], E!TimeOf(s, k)), E!RMul(r.tm[k], E!TimeOf(s, j)))
    /\ r.lv = s.lv /\ r.cv = s.cv
LayoutsAgree == \A i \in Ids : Exists(i) =>
    LET a == E!FormatSeq(abs[i])
        b == E!InterpSeq(abs[i])
        n == E!NSeg(abs[i]) IN
    /\ a[1] = b[2] /\ a[2] = b[3] /\ b[4] = E!Fix(E!Duration(abs[i]))
    /\ \A k \in 1..n : a[4 * k + 1] = b[4 * k + 4] /\ a[4 * k + 2] = b[4 * k + 1] /\ a[4 * k + 3] = b[4 * k + 2]
                       /\ a[4 * k + 4] = b[4 * k + 3]
=============================================================================
