------------------------------ MODULE EnvObj ------------------------------
(* C19, history dimension: one Env instance as a small state machine.  Operations on the instance:
   request the EnvGen array (fmt), the IEnvGen array (ifmt), evaluate at a time (at), use it in an EnvGen
   (ugenE) or an IEnvGen (ugenI) of a SynthDef, in both inside one SynthDef in either order (ugenEI,
   ugenIE), assign levels / times / curves / release node / loop node / offset.
   L1 (the property): every observation is a function of the CURRENT specification of the envelope -
   never of what was asked before (operators Obs*, shared with TraceEnvObj).
   L2 (implementation shaped): the instance keeps the two arrays once computed and drops them when the
   specification is assigned (Invalidate = TRUE); evaluation walks the kept EnvGen array.  Step invariant
   Coherent: L2 answers what L1 prescribes.  With Invalidate = FALSE TLC finds the stale-array history
   (used as a sensitivity run: the invariant must fail there).                                       *)
EXTENDS Integers, Sequences, FiniteSets, TLC
CONSTANTS Invalidate, MaxLen
VARIABLES spec, cE, cI, last, len
vars == <<spec, cE, cI, last, len>>
E == INSTANCE Env WITH env <- spec, op <- "", tq <- 0, fmt <- <<>>, val <- <<>>, part <- <<>>,
                       Levels <- {}, Times <- {}, Curves <- {}, MaxSeg <- 0, MaxPts <- 0, QTicks <- {}

(* ---------------- L1: observations as functions of the current specification ---------------- *)
Ctl == <<E!One, E!One, E!Z, E!One, E!Z>>           \* gate, levelScale, levelBias, timeScale, doneAction used by the drivers
IndexIn == <<1, 2>>                                \* the IEnvGen index argument (1/2)
ObsFmt(s) == E!Format(s)
ObsIFmt(s) == E!Interp(s)
ObsUgenE(s) == IF E!ValidCurves(s) THEN E!R("ok", E!EnvGenInputs(s, Ctl)) ELSE E!R("exc", <<>>)
ObsUgenI(s) == IF E!ValidCurves(s) THEN E!R("ok", <<E!Fix(IndexIn)>> \o E!InterpSeq(s)) ELSE E!R("exc", <<>>)
ObsAtExact(s, t) == E!Fix(E!AtExact(s, t))

(* ---------------- design model ---------------- *)
LevelLists == {<<E!Z, E!One, E!Z>>, <<E!One, <<1, 2>>, <<0 - 1, 2>>>>}
TimeLists == {<<E!One, E!One>>, <<<<1, 2>>, E!One>>}
CurveLists == {<<E!Cv("lin")>>, <<E!Cv("hold"), E!Cv("lin")>>, <<E!Cv("step")>>}
NodesS == {<<>>, <<1>>}
Offs == {E!Z, E!One}
QT == {0, 32, 64, 96, 200}

Init == /\ spec \in {E!MkEnv(lv, tm, cv, <<>>, <<>>, E!Z) : lv \in LevelLists, tm \in TimeLists, cv \in CurveLists}
        /\ cE = <<>> /\ cI = <<>> /\ last = [n |-> "new", obs |-> <<>>, t |-> 0] /\ len = 0
\* the arrays as the instance delivers them: computed on first request, kept afterwards
ArrE == IF cE # <<>> THEN cE[1] ELSE E!FormatSeq(spec)
ArrI == IF cI # <<>> THEN cI[1] ELSE E!InterpSeq(spec)
Obs(name, v, t) == len < MaxLen /\ last' = [n |-> name, obs |-> v, t |-> t] /\ len' = len + 1
\* value from the kept EnvGen array (exact shapes only in this model): walk it as the evaluator does
WalkValue(f, tt) ==
    LET w == E!AtFmt(f, 1, f[1], 0, tt) IN
    IF Len(w) = 4 THEN w[1]
    ELSE IF w[5] = 0 THEN w[2] ELSE IF w[5] = 8 THEN w[1]
    ELSE (w[1] * w[4] + w[3] * (w[2] - w[1])) \div w[4]
Fmt == /\ cE' = <<ArrE>> /\ Obs("fmt", ArrE, 0) /\ UNCHANGED <<spec, cI>>
IFmt == /\ cI' = <<ArrI>> /\ Obs("ifmt", ArrI, 0) /\ UNCHANGED <<spec, cE>>
At == \E t \in QT : /\ cE' = <<ArrE>> /\ Obs("at", WalkValue(ArrE, E!Clamp(spec, t)), t) /\ UNCHANGED <<spec, cI>>
UgenE == /\ cE' = <<ArrE>> /\ Obs("ugenE", [i \in 1..5 |-> E!Fix(Ctl[i])] \o ArrE, 0) /\ UNCHANGED <<spec, cI>>
UgenI == /\ cI' = <<ArrI>> /\ Obs("ugenI", <<E!Fix(IndexIn)>> \o ArrI, 0) /\ UNCHANGED <<spec, cE>>
UgenBoth == /\ cE' = <<ArrE>> /\ cI' = <<ArrI>>
            /\ Obs("ugenEI", <<[i \in 1..5 |-> E!Fix(Ctl[i])] \o ArrE, <<E!Fix(IndexIn)>> \o ArrI>>, 0) /\ UNCHANGED spec
Assign(s2, name) == /\ len < MaxLen /\ spec' = s2 /\ s2 # spec
                    /\ IF Invalidate THEN cE' = <<>> /\ cI' = <<>> ELSE UNCHANGED <<cE, cI>>
                    /\ last' = [n |-> name, obs |-> <<>>, t |-> 0] /\ len' = len + 1
SetLevels == \E lv \in LevelLists : Assign([spec EXCEPT !.lv = lv], "set_levels")
SetTimes == \E tm \in TimeLists : Assign([spec EXCEPT !.tm = tm], "set_times")
SetCurves == \E cv \in CurveLists : Assign([spec EXCEPT !.cv = cv], "set_curves")
SetRel == \E r \in NodesS : Assign([spec EXCEPT !.rel = r], "set_release_node")
SetLoop == \E r \in {<<>>, <<0>>} : Assign([spec EXCEPT !.loop = r], "set_loop_node")
SetOff == \E o \in Offs : Assign([spec EXCEPT !.off = o], "set_offset")
Next == Fmt \/ IFmt \/ At \/ UgenE \/ UgenI \/ UgenBoth
        \/ SetLevels \/ SetTimes \/ SetCurves \/ SetRel \/ SetLoop \/ SetOff
Spec == Init /\ [][Next]_vars

\* L2 => L1: what the instance answered is what the current specification prescribes
Coherent ==
    CASE last.n = "fmt" -> last.obs = ObsFmt(spec).v
      [] last.n = "ifmt" -> last.obs = ObsIFmt(spec).v
      [] last.n = "at" -> last.obs = ObsAtExact(spec, last.t)
      [] last.n = "ugenE" -> last.obs = ObsUgenE(spec).v
      [] last.n = "ugenI" -> last.obs = ObsUgenI(spec).v
      [] last.n = "ugenEI" -> last.obs = <<ObsUgenE(spec).v, ObsUgenI(spec).v>>
      [] OTHER -> TRUE
\* the kept arrays always belong to the current specification
CachesCurrent == (cE # <<>> => cE[1] = E!FormatSeq(spec)) /\ (cI # <<>> => cI[1] = E!InterpSeq(spec))
\* the two layouts carry the same breakpoints: per segment (level, time, shape, curvature) vs (time, shape, curvature, level)
LayoutsAgree ==
    LET a == E!FormatSeq(spec)
        b == E!InterpSeq(spec)
        n == E!NSeg(spec) IN
    /\ a[1] = b[2] /\ a[2] = b[3]
    /\ \A i \in 1..n : a[4 * i + 1] = b[4 * i + 4] /\ a[4 * i + 2] = b[4 * i + 1] /\ a[4 * i + 3] = b[4 * i + 2]
                       /\ a[4 * i + 4] = b[4 * i + 3]
=============================================================================
