SPECIFICATION Spec
CONSTANTS
  MaxP = 4
  MaxA = 4
INVARIANT LiteralLaw
INVARIANT PartsLaw
INVARIANT MalformedLaw
INVARIANT StarLaw
