----------------------------- MODULE TraceOps -----------------------------
(* C->S binding for C15: decides recorded executions of the real sc3 operator machinery against
   Ops.tla.  A trace has one event; ty says what was recorded:
     "lift"  : op/form/kinds, the evaluated operands A, B (node arrays with leaf ids), the
               kernel table tab[x][y] = value ([x |-> 0|1 exception, s |-> text]) obtained by
               calling the numeric kernel on plain numbers, and O = the evaluation of the
               composed object (node array, leaves carry values)
     "lazy"  : a lazily evaluated composition: kinds / lengths / identities of the operands per argument
               position, the kernel table over every tuple of operand leaves, how the composed object was
               traversed (law, gen) and O = the outcome of every next() until the end(s)
     "call"  : a composite of functions (template tpl over base functions with parameter lists sigs) called with
               every call of calls: leaves (each base function alone), tab (numeric expression over every tuple of
               calls) and O (the composite's answers)
     "range" : a range-law kernel applied to lattice arguments (units of 1/8)
     "inv"   : an inverse-pair function at the exact point k, its value and the round trip   *)
EXTENDS Integers, Sequences, FiniteSets, TLC, Json, IOUtils
Window == {} Quanta == {}
VARIABLES phase, ca, cb, ka, kb, args
INSTANCE Ops
Traces == JsonDeserialize(IOEnv.VERIF_TRACES)
VARIABLES tid, l
tvars == <<phase, ca, cb, ka, kb, args, tid, l>>

Why(t) ==
    CASE t.ty = "lift" -> LiftWhy(t.ka, t.A, t.kb, t.B, t.tab, t.O, t.stopx)
      [] t.ty = "lazy" -> LazyWhy(t.ops, t.tab, t.law, t.gen, t.O, t.invs)
      [] t.ty = "call" -> CallWhy(t.sigs, t.calls, t.leaves, t.tab, t.O)
      [] t.ty = "range" -> RangeWhy(t.fn, t.a, t.r, t.r2)
      [] t.ty = "inv" -> InvWhy(t.fn, t.k, t.r, t.rt)
      [] OTHER -> "unknown-trace-type"

TInit == /\ tid \in 1..Len(Traces) /\ l = 1
         /\ phase = "" /\ ca = <<>> /\ cb = <<>> /\ ka = "" /\ kb = "" /\ args = <<>>
Step == /\ l = 1
        /\ LET t == Traces[tid]
               why == Why(t) IN
           IF why = "ok" THEN l' = 2 /\ UNCHANGED <<phase, ca, cb, ka, kb, args, tid>>
           ELSE /\ PrintT(<<"REJ", t.id, 1, why>>)
                /\ l' = 0 /\ UNCHANGED <<phase, ca, cb, ka, kb, args, tid>>
Done == /\ l = 2
        /\ PrintT(<<"ACC", Traces[tid].id>>)
        /\ l' = 0 - 1 /\ UNCHANGED <<phase, ca, cb, ka, kb, args, tid>>
TNext == Step \/ Done
TSpec == TInit /\ [][TNext]_tvars
=============================================================================
