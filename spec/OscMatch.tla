------------------------------ MODULE OscMatch ------------------------------
(* C18: OSC 1.0 address pattern matching, as a recursive operator over sequences of character
   codes.  "An OSC Address Pattern matches an OSC Address if they contain the same number of
   parts and each part of the pattern matches the corresponding part of the address":
      ?        any single character            *       any sequence of zero or more characters
      [chars]  any character in the string; a-b is a range, a leading ! negates; - at the end and !
               anywhere else have no special meaning
      {a,bc}   any of the comma-separated strings       anything else matches itself
   The match is over the whole length; a malformed pattern (unclosed [ or {) matches nothing.
   Where OSC 1.0 does not say what a pattern means, Unspec(p) holds and nothing is demanded:
   [] and [!] (empty sets), and brace groups with empty alternatives or with ?*[]{ inside.     *)
EXTENDS Naturals, Integers, Sequences, FiniteSets, TLC

SLASH == 47  QM == 63  STAR == 42  LB == 91  RB == 93  BANG == 33  DASH == 45  LC == 123  RC == 125  COMMA == 44

\* split at c: sequence of parts (a leading separator gives an empty first part)
RECURSIVE SplitAt(_, _)
SplitAt(s, c) ==
    LET P == {i \in 1..Len(s) : s[i] = c} IN
    IF P = {} THEN <<s>>
    ELSE LET i == CHOOSE x \in P : \A y \in P : x <= y IN
         <<SubSeq(s, 1, i - 1)>> \o SplitAt(SubSeq(s, i + 1, Len(s)), c)

\* index of the first c in p after position i, 0 if none
NextCh(p, i, c) == LET P == {k \in (i + 1)..Len(p) : p[k] = c} IN
                 IF P = {} THEN 0 ELSE CHOOSE x \in P : \A y \in P : x <= y

\* the character set denoted by the inside of a bracket expression (after an optional !)
RECURSIVE SetOf(_, _)
SetOf(s, i) ==
    IF i > Len(s) THEN {}
    ELSE IF i + 2 <= Len(s) /\ s[i + 1] = DASH THEN (s[i]..s[i + 2]) \cup SetOf(s, i + 3)
    ELSE {s[i]} \cup SetOf(s, i + 1)

HasAt(a, j, w) == j + Len(w) - 1 <= Len(a) /\ SubSeq(a, j, j + Len(w) - 1) = w

\* pattern part p from position i against address part a from position j
RECURSIVE PM(_, _, _, _)
PM(p, i, a, j) ==
    IF i > Len(p) THEN j > Len(a)
    ELSE LET c == p[i] IN
      CASE c = QM -> j <= Len(a) /\ PM(p, i + 1, a, j + 1)
        [] c = STAR -> \E k \in j..(Len(a) + 1) : PM(p, i + 1, a, k)
        [] c = LB ->
             LET e == NextCh(p, i, RB) IN
             IF e = 0 THEN FALSE                                   \* malformed
             ELSE LET neg == i + 1 < e /\ p[i + 1] = BANG
                      body == SubSeq(p, IF neg THEN i + 2 ELSE i + 1, e - 1) IN
                  /\ j <= Len(a)
                  /\ (a[j] \in SetOf(body, 1)) # neg
                  /\ PM(p, e + 1, a, j + 1)
        [] c = LC ->
             LET e == NextCh(p, i, RC) IN
             IF e = 0 THEN FALSE                                   \* malformed
             ELSE LET alts == SplitAt(SubSeq(p, i + 1, e - 1), COMMA) IN
                  \E n \in 1..Len(alts) : HasAt(a, j, alts[n]) /\ PM(p, e + 1, a, j + Len(alts[n]))
        [] OTHER -> j <= Len(a) /\ a[j] = c /\ PM(p, i + 1, a, j + 1)

Match(p, a) ==
    LET pp == SplitAt(p, SLASH)  ap == SplitAt(a, SLASH) IN
    Len(pp) = Len(ap) /\ \A n \in 1..Len(pp) : PM(pp[n], 1, ap[n], 1)

\* second, syntactic formulation of "malformed": some part opens a [ or { that it does not close
RECURSIVE Open(_, _)
Open(p, i) == IF i > Len(p) THEN FALSE
              ELSE IF p[i] = LB THEN (LET e == NextCh(p, i, RB) IN IF e = 0 THEN TRUE ELSE Open(p, e + 1))
              ELSE IF p[i] = LC THEN (LET e == NextCh(p, i, RC) IN IF e = 0 THEN TRUE ELSE Open(p, e + 1))
              ELSE Open(p, i + 1)
Malformed(p) == LET pp == SplitAt(p, SLASH) IN \E n \in 1..Len(pp) : Open(pp[n], 1)

\* patterns whose meaning OSC 1.0 leaves open
RECURSIVE UnspecPart(_, _)
UnspecPart(p, i) ==
    IF i > Len(p) THEN FALSE
    ELSE IF p[i] = LB THEN
         LET e == NextCh(p, i, RB) IN
         IF e = 0 THEN FALSE
         ELSE e = i + 1 \/ (e = i + 2 /\ p[i + 1] = BANG) \/ UnspecPart(p, e + 1)
    ELSE IF p[i] = LC THEN
         LET e == NextCh(p, i, RC) IN
         IF e = 0 THEN FALSE
         ELSE LET body == SubSeq(p, i + 1, e - 1)  alts == SplitAt(body, COMMA) IN
              \/ \E k \in 1..Len(body) : body[k] \in {QM, STAR, LB, RB, LC}
              \/ \E n \in 1..Len(alts) : alts[n] = <<>>
              \/ UnspecPart(p, e + 1)
    ELSE UnspecPart(p, i + 1)
Unspec(p) == LET pp == SplitAt(p, SLASH) IN \E n \in 1..Len(pp) : UnspecPart(pp[n], 1)

Special == {QM, STAR, LB, RB, LC, RC, COMMA}
Literal(p) == \A i \in 1..Len(p) : p[i] \notin Special
=============================================================================
