----------------------------- MODULE TraceBuild -----------------------------
(* C->S binding for C20.  Traces (see drivers/c20_build.py):
   kind "seq" / "threads": events of real builds in one process, totally ordered by the recorder
       attempt (a thread is about to call SynthDef), enter / mid / leave (observations made INSIDE
       the graph function: is the global context this definition, is the build lock held),
       exit (result: raised, sha of the bytes, units of this function attached elsewhere),
       rattempt (a thread is about to start a read-back on its own, possibly while another thread builds),
       read (another user of the lock/context finished: add / store / new_from read-back, reader on bytes/files),
       probe (nobody is building: context, lock, owner of a unit created right now), hang
   kind "det": for one program the results of building it in different histories, threads,
       processes (hash seeds) and modes
   kind "gc": repeated build + as_bytes in a child process
   The reconstructed protocol state (pc per thread, lock, ctx, fin) is judged with the predicates
   of Build.tla: ExclusiveOK, IdleOK, DetOK.                                                  *)
EXTENDS Naturals, Integers, Sequences, FiniteSets, TLC, Json, IOUtils
Threads == {} Funcs == {} MaxAttempts == 0 ClearOnFail == TRUE ClearOnReadFail == TRUE UseLock == TRUE CtxEarly == FALSE ClearLate == FALSE SharedExtras == FALSE
VARIABLES lock, ctx, pc, att, nb, owner, fin, natt, orphans, extras
B == INSTANCE Build
Traces == JsonDeserialize(IOEnv.VERIF_TRACES)
VARIABLES tid, l
tvars == <<lock, ctx, pc, att, nb, owner, fin, natt, orphans, extras, tid, l>>

Ts(tr) == {tr.ev[i].t : i \in 1..Len(tr.ev)} \ {0}
TInit == /\ tid \in 1..Len(Traces) /\ l = 1
         /\ lock = 0 /\ ctx = 0 /\ pc = [t \in Ts(Traces[tid]) |-> "idle"] /\ fin = {}
         /\ att = 0 /\ nb = 0 /\ owner = 0 /\ natt = 0 /\ orphans = 0 /\ extras = 0

\* result of one event: [why, pc, lock, ctx, fin]
R(why, p, lk, cx, f) == [why |-> why, pc |-> p, lock |-> lk, ctx |-> cx, fin |-> f]
Inside(e) == IF e.mine # 1 THEN "context-not-mine" ELSE IF e.locked # 1 THEN "lock-not-held" ELSE "ok"
Apply(e) ==
    CASE e.e = "attempt" ->
            IF pc[e.t] # "idle" THEN R("recorder:attempt-while-building", pc, lock, ctx, fin)
            ELSE R("ok", [pc EXCEPT ![e.t] = "want"], lock, ctx, fin)
      [] e.e = "enter" ->
            LET p2 == [pc EXCEPT ![e.t] = "f1"] IN
            IF pc[e.t] # "want" THEN R("recorder:enter-without-attempt", pc, lock, ctx, fin)
            ELSE IF ~B!ExclusiveOK(p2) THEN R("not-exclusive", pc, lock, ctx, fin)
            ELSE R(Inside(e), p2, e.t, e.b, fin)
      [] e.e = "mid" -> R(IF pc[e.t] # "f1" THEN "recorder:mid-outside" ELSE Inside(e), pc, lock, ctx, fin)
      [] e.e = "leave" -> R(IF pc[e.t] # "f1" THEN "recorder:leave-outside" ELSE Inside(e),
                            [pc EXCEPT ![e.t] = "rel"], lock, ctx, fin)
      [] e.e = "exit" ->
            LET f2 == IF e.raised = 0 THEN fin \cup {[f |-> e.f, bytes |-> e.sha]} ELSE fin
                p2 == [pc EXCEPT ![e.t] = "idle"]
                lk == IF lock = e.t THEN 0 ELSE lock
                cx == IF ctx = e.b THEN 0 ELSE ctx IN
            IF pc[e.t] = "idle" THEN R("recorder:exit-without-attempt", pc, lock, ctx, fin)
            ELSE IF e.raised = 0 /\ pc[e.t] # "rel" THEN R("finished-without-running-function", p2, lk, cx, f2)
            ELSE IF e.lost # 0 THEN R("isolation:unit-attached-elsewhere", p2, lk, cx, f2)
            ELSE IF ~B!DetOK(f2) THEN R("nondeterministic", p2, lk, cx, f2)
            ELSE R("ok", p2, lk, cx, f2)
      \* another user of the lock / context (read-back of add / store / new_from, the reader on bytes or files,
      \* valid or damaged) ran to its end, successfully or not: nothing is claimed about its result, everything about
      \* what the next probe finds
      [] e.e = "rattempt" -> IF pc[e.t] # "idle" THEN R("recorder:read-while-building", pc, lock, ctx, fin)
                             ELSE R("ok", [pc EXCEPT ![e.t] = "rwant"], lock, ctx, fin)
      [] e.e = "read" -> IF pc[e.t] \notin {"idle", "rwant"} THEN R("recorder:read-while-building", pc, lock, ctx, fin)
                         ELSE R("ok", [pc EXCEPT ![e.t] = "idle"], lock, ctx, fin)
      \* the variants / metadata dictionaries of a finished definition were mutated in place: no claim here, but every
      \* later build is still held to the bytes of its program (Deterministic)
      [] e.e = "annotate" -> R(IF pc[e.t] # "idle" THEN "recorder:annotate-while-building" ELSE "ok", pc, lock, ctx, fin)
      [] e.e = "probe" ->
            IF \E t \in DOMAIN pc : pc[t] # "idle" THEN R("ok", pc, lock, ctx, fin)      \* somebody may be building: no claim
            ELSE IF ~B!IdleOK(IF e.lock_free = 1 THEN 0 ELSE 1, IF e.ctx_none = 1 THEN 0 ELSE 1, pc)
                 THEN R(IF e.lock_free # 1 THEN "residue:lock-held" ELSE "residue:context-left", pc, lock, ctx, fin)
            ELSE IF e.orphan # 0 THEN R("residue:orphan-unit-owned", pc, lock, ctx, fin)
            ELSE IF e.wrap # 0 THEN R("residue:wrap-works-outside-build", pc, lock, ctx, fin)
            ELSE R("ok", pc, lock, ctx, fin)
      [] e.e = "hang" -> R("hang", pc, lock, ctx, fin)
      [] e.e = "gc" -> R(IF e.raised # 0 \/ e.b # e.n THEN "repeated-builds-crash" ELSE "ok", pc, lock, ctx, fin)
      [] e.e = "det" ->
            LET f2 == fin \cup {[f |-> e.f, bytes |-> <<e.raised, e.sha>>]} IN
            R(IF B!DetOK(f2) THEN "ok" ELSE "nondeterministic", pc, lock, ctx, f2)
      [] OTHER -> R("recorder:unknown-event", pc, lock, ctx, fin)

Step == /\ l >= 1 /\ l <= Len(Traces[tid].ev)
        /\ LET r == Apply(Traces[tid].ev[l]) IN
           IF r.why = "ok"
           THEN /\ pc' = r.pc /\ lock' = r.lock /\ ctx' = r.ctx /\ fin' = r.fin /\ l' = l + 1
           ELSE /\ PrintT(<<"REJ", Traces[tid].id, l, r.why>>)
                /\ l' = 0 /\ UNCHANGED <<pc, lock, ctx, fin>>
        /\ UNCHANGED <<tid, att, nb, owner, natt, orphans, extras>>
Done == /\ l = Len(Traces[tid].ev) + 1
        /\ PrintT(<<"ACC", Traces[tid].id>>)
        /\ l' = 0 - 1 /\ UNCHANGED <<lock, ctx, pc, att, nb, owner, fin, natt, orphans, extras, tid>>
TNext == Step \/ Done
TSpec == TInit /\ [][TNext]_tvars
=============================================================================
