--------------------------- MODULE TraceControls ---------------------------
(* C->S binding for C04: validates what the real SynthDef produced for a definition request
   against the operators of Controls.tla.  A trace is [id, d, ev]; d is the request (same record
   the generator of Controls.tla emits), ev is a sequence of events:
     [op |-> "build", o |-> observation]   o = [raised, name, ctl, names, units, variants, recv]
        ctl/names/units/variants: decoded from the definition bytes (harness/scgf_ctl.py)
        recv: what the generated body saw, one entry per parameter in the order the bodies ran:
              [n, k, bus]  k = "l" list of channels | "s" single signal | "c" plain number;
              every channel was written to its own Out on the constant bus listed in bus
     [op |-> "ser", how, o]   a further serialisation of the same object (d.hist[2..]): o = [raised, name, ctl,
                              names, units, variants] decoded from those bytes
     [op |-> "call", args, kw, cmd, defname, pairs]   SynthDef.__call__ observed in the NRT score
   IOEnv.VERIF_L2 = "1" additionally demands the implementation-shaped unit list (drift check). *)
EXTENDS Naturals, Integers, Sequences, FiniteSets, TLC, Json, IOUtils
Annots == {} OvChoices == {} DfChoices == {} SpChoices == {} BoundVals == {}
MaxFuncs == 0 MaxParams == 0 MaxTotal == 0 MaxBound == 0 MaxVariants == 0 MinEmit == 0 SimMode == FALSE VarLens == {} VarW == {} VarBad == {} HistChoices == {}
VARIABLES d, phase
INSTANCE Controls
Traces == JsonDeserialize(IOEnv.VERIF_TRACES)
WithL2 == IOEnv.VERIF_L2 = "1"
VARIABLES tid, l
tvars == <<d, phase, tid, l>>

TInit == /\ tid \in 1..Len(Traces) /\ l = 1 /\ d = Traces[tid].d /\ phase = "trace"

\* parameters in the order the bodies run
RunOrder(dd) == Cat([k \in 1..Len(dd.funcs) |-> dd.funcs[k].params])
EntryOf(L, n) == CHOOSE i \in 1..Len(L) : L[i].n = n
OutsOnBus(units, b) ==
    {x \in 1..Len(units) : /\ units[x].c = "Out" /\ Len(units[x].ins) = 2
                           /\ units[x].ins[1][1] = 0 - 1 /\ units[x].ins[1][3] = b}

NamesOK(o, L) == /\ Len(o.names) = Len(L)
                 /\ {<<o.names[i][1], o.names[i][2]>> : i \in 1..Len(o.names)} = NameTable(L)
RecvOK(o, dd) ==
    LET ps == RunOrder(dd) IN
    /\ Len(o.recv) = Len(ps)
    /\ \A i \in 1..Len(ps) :
          /\ o.recv[i].n = ps[i].n
          /\ o.recv[i].k = (IF ps[i].bk = "bound" THEN "c" ELSE IF ps[i].dk = "tuple" THEN "l" ELSE "s")
          /\ Len(o.recv[i].bus) = (IF ps[i].bk = "bound" THEN 1 ELSE Width(ps[i]))
WiringOK(o, dd, L) ==
    \A i \in 1..Len(o.recv) :
        o.recv[i].k # "c" =>
            \A c \in 1..Len(o.recv[i].bus) :
                LET outs == OutsOnBus(o.units, o.recv[i].bus[c]) IN
                /\ Cardinality(outs) = 1
                /\ \A x \in outs : LET in == o.units[x].ins[2] IN
                      /\ in[1] >= 0
                      /\ Wired(o.units, L, EntryOf(L, o.recv[i].n), c - 1, in[1] + 1, in[2])
BoundOK(o, dd) ==
    LET ps == RunOrder(dd) IN
    \A i \in 1..Len(ps) :
        ps[i].bk = "bound" =>
            LET outs == OutsOnBus(o.units, o.recv[i].bus[1]) IN
            /\ Cardinality(outs) = 1
            /\ \A x \in outs : o.units[x].ins[2][1] = 0 - 1 /\ o.units[x].ins[2][3] = ps[i].bv
VariantsOK(o, dd, L) ==
    LET wr == WrittenVariantsL(dd, L) IN
    /\ Len(o.variants) = Len(wr)
    /\ \A v \in 1..Len(wr) :
          \E w \in 1..Len(o.variants) : /\ o.variants[w].n = FullName(dd, wr[v])
                                        /\ o.variants[w].v = VariantCtl(L, wr[v])
CtlUnits(units) == SelectSeq(units, LAMBDA u : u.c \in ControlClasses)
UnitsExact(o, dd) ==
    LET got == CtlUnits(o.units)  exp == ExpectedUnits(dd) IN
    /\ Len(got) = Len(exp)
    /\ {[c |-> got[i].c, r |-> got[i].r, s |-> got[i].s, no |-> got[i].no,
          ins |-> [x \in 1..Len(got[i].ins) |-> <<got[i].ins[x][1], 0, got[i].ins[x][3]>>]] : i \in 1..Len(got)}
       = {exp[i] : i \in 1..Len(exp)}

BuildWhy(dd, o) ==
    LET L == Layout(dd) IN
    IF ~WellFormed(dd) THEN "illformed"
    ELSE IF o.raised # "" THEN "raised"
    ELSE IF o.name # dd.name THEN "defname"
    ELSE IF o.ctl # Defaults(L) THEN "defaults"
    ELSE IF ~NamesOK(o, L) THEN "names"
    ELSE IF ~Covers(o.units, L) THEN "slot_source"
    ELSE IF ~RecvOK(o, dd) THEN "recv"
    ELSE IF ~WiringOK(o, dd, L) THEN "wiring"
    ELSE IF ~BoundOK(o, dd) THEN "bound"
    ELSE IF ~VariantsOK(o, dd, L) THEN "variants"
    ELSE IF WithL2 /\ ~UnitsExact(o, dd) THEN "L2units"
    ELSE "ok"
\* a later serialisation of the same definition object (e.how = dd.hist[position]): the same function of the request
SerWhy(dd, e, pos) ==
    LET L == Layout(dd)  o == e.o IN
    IF pos > Len(dd.hist) \/ e.how # dd.hist[pos] THEN "history"
    ELSE IF o.raised # "" THEN "again_raised"
    ELSE IF o.name # dd.name THEN "again_defname"
    ELSE IF o.ctl # Defaults(L) THEN "again_defaults"
    ELSE IF ~NamesOK(o, L) THEN "again_names"
    ELSE IF ~Covers(o.units, L) THEN "again_slot_source"
    ELSE IF ~VariantsOK(o, dd, L) THEN "again_variants"
    ELSE "ok"
HistoryRecorded(dd, ev) ==      \* the events after the build are the remaining serialisations of the history
    WithL2 \/ (/\ Len(ev) >= Len(dd.hist)
               /\ \A k \in 2..Len(dd.hist) : ev[k].op = "ser")
CallWhy(dd, e) ==
    IF Len(e.args) > Len(TopNames(dd)) THEN "illformed_call"
    ELSE IF e.cmd # "/s_new" \/ e.defname # dd.name THEN "call_cmd"
    ELSE IF e.pairs # CallPairs(dd, e.args, e.kw) THEN "call_pairs"
    ELSE "ok"

Step == /\ l >= 1 /\ l <= Len(Traces[tid].ev)
        /\ LET e == Traces[tid].ev[l]
               why == IF e.op = "build" THEN (IF l # 1 \/ ~HistoryRecorded(d, Traces[tid].ev) THEN "history"
                                               ELSE BuildWhy(d, e.o))
                      ELSE IF e.op = "ser" THEN SerWhy(d, e, l)
                      ELSE CallWhy(d, e) IN
           IF why = "ok" THEN l' = l + 1
           ELSE /\ PrintT(<<"REJ", Traces[tid].id, l, why>>) /\ l' = 0
        /\ UNCHANGED <<d, phase, tid>>
Done == /\ l = Len(Traces[tid].ev) + 1
        /\ PrintT(<<"ACC", Traces[tid].id>>)
        /\ l' = 0 - 1 /\ UNCHANGED <<d, phase, tid>>
TNext == Step \/ Done
TSpec == TInit /\ [][TNext]_tvars
=============================================================================
