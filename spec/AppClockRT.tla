----------------------------- MODULE AppClockRT -----------------------------
(* L2 protocol model of sc3's AppClock at lock granularity (sc3/base/clock.py AppClock._run / sched).
   Two locks: the scheduler lock (the library's main lock) guards the queue, a private condition
   (_tick_cond) carries the wake-up.  The clock thread ticks under the first lock, releases it, and
   only then sleeps on the second; sched() adds under the first and notifies under the second.
   Fixed = TRUE models the repaired protocol (a pending flag written and read under _tick_cond);
   Fixed = FALSE is the protocol of the pinned commit, kept so that TLC shows the lost wake-up
   (13-state counterexample) - the check expects that violation as a sensitivity test.        *)
EXTENDS Naturals, Integers, Sequences, FiniteSets, TLC, QueueOps
CONSTANTS Users, Deltas, MaxNow, Fixed, GapTicks
None == 0 - 1
VARIABLES q, ctr,        \* pending entries [p: time, s: stamp, t: user]
          now,
          cpc,           \* clock thread: "tick" | "gap" | "wait"
          secs,          \* timeout computed by the last tick (None = wait for notify)
          dl, nt,        \* deadline / notified flag of the sleeping clock thread
          lag,           \* physical time that passed between the tick and the wait (ordinary lateness)
          pend,          \* the pending flag (only used when Fixed)
          upc,           \* user -> "idle" | "added" | "done"
          woken          \* sequence of [t, time, at]
vars == <<q, ctr, now, cpc, secs, dl, nt, lag, pend, upc, woken>>

Init == q = <<>> /\ ctr = 0 /\ now = 0 /\ cpc = "tick" /\ secs = None /\ dl = None /\ nt = FALSE
        /\ lag = 0 /\ pend = FALSE /\ upc = [u \in Users |-> "idle"] /\ woken = <<>>

Tick == now < MaxNow /\ (GapTicks \/ cpc # "gap") /\ now' = now + 1
        /\ UNCHANGED <<q, ctr, cpc, secs, dl, nt, lag, pend, upc, woken>>

(* user, first critical section: with _sched_lock: scheduler.sched(delta, item)  (time from physical now) *)
UAdd(u) == /\ upc[u] = "idle"
           /\ \E d \in Deltas :
                q' = Insert(q, [p |-> now + d, s |-> ctr, t |-> u])
           /\ ctr' = ctr + 1 /\ upc' = [upc EXCEPT ![u] = "added"]
           /\ UNCHANGED <<now, cpc, secs, dl, nt, lag, pend, woken>>
(* user, second critical section: with _tick_cond: [pending = True;] notify() *)
UNotify(u) == /\ upc[u] = "added"
              /\ upc' = [upc EXCEPT ![u] = "done"]
              /\ nt' = (IF cpc = "wait" THEN TRUE ELSE nt)
              /\ pend' = (IF Fixed THEN TRUE ELSE pend)
              /\ UNCHANGED <<q, ctr, now, cpc, secs, dl, lag, woken>>

(* clock, first critical section: seconds = _tick(): wake everything that is due, return the head's time *)
RECURSIVE Due(_, _)
Due(s, t) == IF s = <<>> \/ s[1].p > t THEN <<>> ELSE <<s[1]>> \o Due(Tail(s), t)
CTick == /\ cpc = "tick"
         /\ LET due == Due(q, now)
                rest == SubSeq(q, Len(due) + 1, Len(q)) IN
            /\ woken' = woken \o [i \in 1..Len(due) |-> [t |-> due[i].t, time |-> due[i].p, at |-> now]]
            /\ q' = rest
            /\ secs' = IF rest = <<>> THEN None ELSE rest[1].p - now
         /\ cpc' = "gap" /\ lag' = now      \* remember when the timeout was computed
         /\ UNCHANGED <<ctr, now, dl, nt, pend, upc>>
(* clock, second critical section: with _tick_cond: [if not pending:] wait(seconds) *)
CWait == /\ cpc = "gap"
         /\ IF Fixed /\ pend
            THEN cpc' = "tick" /\ pend' = FALSE /\ UNCHANGED <<dl, nt, lag>>
            ELSE cpc' = "wait" /\ nt' = FALSE /\ dl' = (IF secs = None THEN None ELSE now + secs) /\ pend' = pend
                 /\ lag' = now - lag
         /\ UNCHANGED <<q, ctr, now, secs, upc, woken>>
CWake == /\ cpc = "wait"
         /\ nt \/ (dl # None /\ now >= dl)
         /\ cpc' = "tick" /\ nt' = FALSE /\ dl' = None /\ lag' = 0
         /\ pend' = (IF Fixed THEN FALSE ELSE pend)
         /\ UNCHANGED <<q, ctr, now, secs, upc, woken>>

Next == Tick \/ CTick \/ CWait \/ CWake \/ \E u \in Users : UAdd(u) \/ UNotify(u)
Spec == Init /\ [][Next]_vars /\ WF_vars(Next) /\ WF_vars(Tick) /\ WF_vars(CTick) /\ WF_vars(CWait) /\ WF_vars(CWake)

(* ---- L1 properties on this model ---- *)
NoCallInFlight == \A u \in Users : upc[u] # "added"
NoMissedHead == (cpc = "wait" /\ ~nt /\ NoCallInFlight /\ q # <<>>) => (dl # None /\ (dl - lag <= q[1].p \/ dl <= now))
NeverEarly == \A i \in 1..Len(woken) : woken[i].at >= woken[i].time
AtMostOnce == \A i, j \in 1..Len(woken) : i # j => woken[i].t # woken[j].t
InOrder == \A i, j \in 1..Len(woken) : i < j => woken[i].time <= woken[j].time \/ woken[i].at < woken[j].at
EventuallyRun == \A u \in Users :
    (upc[u] = "done" /\ \E i \in 1..Len(q) : q[i].t = u /\ q[i].p <= MaxNow) ~> (\E i \in 1..Len(woken) : woken[i].t = u)
=============================================================================
