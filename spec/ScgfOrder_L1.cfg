SPECIFICATION SpecL1
CONSTANT N = 4
INVARIANT OrderOK
INVARIANT NoDup
INVARIANT Progress
