SPECIFICATION SpecI
CONSTANTS
  Annots <- AnTiny
  OvChoices <- OvSmall
  DfChoices <- DfImpl
  SpChoices <- SpNone
  BoundVals = {24}
  MaxFuncs = 2
  MaxParams = 2
  MaxTotal = 2
  MaxBound = 1
  MaxVariants = 0
  MinEmit = 0
  SimMode = FALSE
  VarLens = {0}
  VarW = {1, 2, 3}
  VarBad = {"none"}
  HistChoices <- HistTwo
INVARIANT ImplRefines
INVARIANT InvWellFormed
