SPECIFICATION Spec
CONSTANTS
  TempoExps = {2}
  BeatVals = {3, 91}
  Meters = {2, 3, 4}
  Deltas = {1, 21}
  Quants = {0, 1, 4, 8, 12, 16, 20, 24, 32, 40}
  Win = 16
  MaxSteps = 3
CONSTRAINT Bound
INVARIANT GridLaw
INVARIANT PlaySchedulesOnGrid
INVARIANT NextBarNotBeforeNow
