SPECIFICATION Spec
CONSTANTS
  Window <- WindowS
  Quanta <- QuantaS
INVARIANT PrintShape
INVARIANT PrintLazy
INVARIANT PrintCall
