SPECIFICATION Spec
CONSTANTS
  MaxP = 3
  MaxA = 3
INVARIANT LiteralLaw
INVARIANT PartsLaw
INVARIANT MalformedLaw
INVARIANT StarLaw
