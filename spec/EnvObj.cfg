SPECIFICATION Spec
CONSTANTS
  Invalidate = TRUE
  MaxLen = 3
INVARIANT Coherent
INVARIANT CachesCurrent
INVARIANT LayoutsAgree
