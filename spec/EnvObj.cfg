SPECIFICATION Spec
CONSTANTS
  Invalidate = TRUE
  ShareTimes = TRUE
  InPlace = FALSE
  MaxLen = 3
  Small = TRUE
INVARIANT Coherent
INVARIANT Independent
INVARIANT DurationLaw
INVARIANT LayoutsAgree
