SPECIFICATION Spec
CONSTANTS
  Cfgs <- CfgsThorough
  MaxN = 5
INVARIANT InvDisjoint
INVARIANT InvInside
INVARIANT NoSpaceOnlyWhenFull
INVARIANT FitsIsGranted
INVARIANT FreedIsReusable
INVARIANT DoubleFreeNoOp
INVARIANT EmptyMeansAll
INVARIANT FreeAllFreesAll
