---------------------------- MODULE SynthGraphGen ----------------------------
(* Design model for C01 and source of programs for the S->C binding.

   State: a program under construction.  Actions append one builder instruction (AddUn, AddBin,
   AddMAdd, AddSum, AddGen) over the vocabulary slice selected by the environment variable
   VERIF_SLICE, and Finish appends the output unit.  Every finished program is printed as JSON
   (<<"PROG", json>>): the real library is then run on exactly these programs.

   Checked here, without the code: the reference compilation Naive(prog) (one unit per
   instruction, no optimisation) satisfies ImplWhy = "ok" and is well-formed SCgf, for every
   program of the slice - i.e. the relation is satisfiable by a correct compiler and the
   well-formedness predicates agree with each other (anti-vacuity of L1); and the same
   compilation with a side-effecting unit removed from the certificate is rejected - i.e. the
   relation is not trivially true.                                                              *)
EXTENDS SynthGraph, Json, IOUtils

C(v) == [k |-> "c", i |-> v, ch |-> 0]
R(i, ch) == [k |-> "r", i |-> i, ch |-> ch]
Pm(i) == [k |-> "p", i |-> i, ch |-> 0]
Gen(cls, rate, nout, a) == [op |-> "gen", cls |-> cls, sel |-> "", rate |-> rate, nout |-> nout, a |-> a]
Un(sel, a) == [op |-> "un", cls |-> "", sel |-> sel, rate |-> 0, nout |-> 1, a |-> <<a>>]
Bin(sel, a, b) == [op |-> "bin", cls |-> "", sel |-> sel, rate |-> 0, nout |-> 1, a |-> <<a, b>>]
MAdd(a, m, d) == [op |-> "madd", cls |-> "", sel |-> "", rate |-> 0, nout |-> 1, a |-> <<a, m, d>>]
Sum(xs) == [op |-> "sum", cls |-> "", sel |-> "", rate |-> 0, nout |-> 1, a |-> xs]
Ctl(n, r, d) == [n |-> n, r |-> r, d |-> d]

(* vocabulary slices: prelude units, controls, operators, constants, number of enumerated
   instructions n, output class/rate, and whether rate-invalid programs are generated too *)
S(pre, ctl, un, bin, madd, sums, gens, consts, n, sink, srate, anyrate) ==
    [pre |-> pre, ctl |-> ctl, un |-> un, bin |-> bin, madd |-> madd, sums |-> sums, gens |-> gens,
     consts |-> consts, n |-> n, sink |-> sink, srate |-> srate, anyrate |-> anyrate]
AR1 == <<Gen("SinOsc", 2, 1, <<C(440), C(0)>>)>>
AR2 == <<Gen("SinOsc", 2, 1, <<C(440), C(0)>>), Gen("WhiteNoise", 2, 1, <<>>)>>
AR3 == <<Gen("SinOsc", 2, 1, <<C(440), C(0)>>), Gen("WhiteNoise", 2, 1, <<>>), Gen("Saw", 2, 1, <<C(3)>>)>>
MIX == <<Gen("SinOsc", 2, 1, <<C(440), C(0)>>), Gen("LFNoise0", 1, 1, <<C(2)>>), Gen("Rand", 0, 1, <<C(0), C(1)>>)>>
MO == <<Gen("In", 2, 2, <<C(4)>>), Gen("WhiteNoise", 1, 1, <<>>)>>
BIG == <<Gen("SinOsc", 2, 1, <<C(440), C(0)>>), Gen("WhiteNoise", 2, 1, <<>>), Gen("LFNoise0", 1, 1, <<C(2)>>),
         Gen("In", 2, 2, <<C(4)>>), Gen("Rand", 0, 1, <<C(0), C(1)>>)>>
\* shared sums: x3 = 2 + saw, x4 = noise + x3 (an unused sum over them made the optimiser visit a replaced unit twice)
SH == <<Gen("WhiteNoise", 2, 1, <<>>), Gen("Saw", 2, 1, <<C(3)>>), Bin("+", C(2), R(2, 0)), Bin("+", R(1, 0), R(3, 0))>>
K1 == <<Ctl("k", 1, 3)>>
K3 == <<Ctl("k", 1, 3), Ctl("a", 2, 1), Ctl("i", 0, 2)>>
SliceTab ==
    \* ---- small slices (quick tier, exhaustive)
    "covT"   :> S(AR1, <<>>, {"neg"}, {"+"}, TRUE, {2}, {"Pan2"}, {2}, 1, "Out", 2, FALSE) @@
    "coverS" :> S(AR2, K1, {"neg"}, {"+", "*"}, TRUE, {2}, {"Pan2"}, {2}, 1, "Out", 2, FALSE) @@
    "sumS"   :> S(AR2, <<>>, {}, {"+"}, FALSE, {}, {}, {0}, 2, "Out", 2, FALSE) @@
    "sum3S"  :> S(AR2, <<>>, {}, {}, FALSE, {3}, {}, {}, 2, "Out", 2, FALSE) @@
    "negS"   :> S(AR2, <<>>, {"neg"}, {"+", "-"}, FALSE, {}, {}, {}, 2, "Out", 2, FALSE) @@
    "shortS" :> S(AR2, <<>>, {"neg"}, {"+", "-", "*", "/"}, FALSE, {}, {}, {0, 1, 0 - 1, 2}, 1, "Out", 2, FALSE) @@
    "maddS"  :> S(AR2, K1, {}, {"+", "*"}, TRUE, {}, {}, {0, 1, 0 - 1, 2}, 1, "Out", 2, FALSE) @@
    "mulS"   :> S(AR2, <<>>, {}, {"+", "*"}, FALSE, {}, {}, {}, 2, "Out", 2, FALSE) @@
    "opsS"   :> S(AR1, <<>>, UnUsable, BinUsable, FALSE, {}, {}, {2}, 1, "Out", 2, FALSE) @@
    "moS"    :> S(MO, <<>>, {}, {"+"}, FALSE, {2}, {"Pan2"}, {}, 1, "Out", 2, FALSE) @@
    "deadS"  :> S(AR2, <<>>, {"abs"}, {"*"}, FALSE, {}, {"SinOsc"}, {}, 2, "ReplaceOut", 2, FALSE) @@
    "ratesS" :> S(MIX, K1, {"neg"}, {"+", "*"}, TRUE, {}, {}, {2}, 1, "Out", 1, FALSE) @@
    "divS"   :> S(AR2, <<>>, {"neg"}, {"/"}, FALSE, {}, {}, {}, 2, "Out", 2, FALSE) @@
    "reoptS" :> S(SH, <<>>, {}, {"+"}, FALSE, {3}, {}, {}, 1, "Out", 2, FALSE) @@
    "arrS"   :> S(MIX, <<>>, {}, {}, FALSE, {}, {}, {0, 2}, 0, "Arr", 2, TRUE) @@
    "arrM"   :> S(MIX, K3, {}, {}, FALSE, {}, {}, {0, 2, 0 - 1}, 0, "Arr", 2, TRUE) @@
    \* units whose rate requirement covers several inputs (first n inputs audio): valid and invalid combinations
    "nS"     :> S(MIX, <<>>, {}, {}, FALSE, {}, {"XFade2", "LinXFade2", "Balance2", "Rotate2", "BiPanB2", "FreeVerb2", "DecodeB2",
                                               "Pan4", "PanB", "LPF", "HPF"}, {}, 1, "Out", 2, TRUE) @@
    "listS"  :> S(MIX, <<>>, {}, {}, FALSE, {}, {"list"}, {2}, 1, "OutAll", 1, FALSE) @@
    \* dead code next to fusable sums: m = osc * k, then two instructions over {osc, m, k}; whatever is not output is dead and
    \* its elimination releases inputs that a neighbouring + may or may not have been fused with (C20: repeated builds)
    "dfS"    :> S(<<Gen("SinOsc", 2, 1, <<C(440), C(0)>>), Bin("*", R(1, 0), Pm(1))>>, K1, {}, {"+", "*"}, FALSE, {}, {}, {}, 2,
                  "Out", 2, FALSE) @@
    "df3"    :> S(<<Gen("SinOsc", 2, 1, <<C(440), C(0)>>), Bin("*", R(1, 0), Pm(1))>>, K1, {"neg"}, {"+", "*", "-"}, FALSE, {}, {}, {2},
                  2, "Out", 2, FALSE) @@
    "twoS"   :> S(MIX, <<>>, {"neg"}, {"+", "*"}, FALSE, {}, {}, {2}, 1, "Out2", 2, FALSE) @@
    "zeroS"  :> S(AR2, <<>>, {"neg"}, {"+", "*"}, FALSE, {}, {}, {0}, 1, "Out0", 2, FALSE) @@
    "localS" :> S(MIX, <<>>, {"neg"}, {"+"}, FALSE, {}, {}, {2}, 1, "LocalOut", 1, FALSE) @@
    "badS"   :> S(MIX, K1, {"neg"}, {"+", "*"}, FALSE, {}, {"Pan2", "LPF"}, {0, 2}, 1, "Out", 2, TRUE) @@
    \* ---- large slices (thorough tier exhaustive; quick tier samples them with -simulate)
    "sum3"   :> S(AR3, <<>>, {}, {"+"}, FALSE, {3}, {}, {2}, 3, "Out", 2, FALSE) @@
    "ring2"  :> S(AR2, <<>>, {"neg"}, {"+", "-", "*"}, FALSE, {}, {}, {0, 1, 0 - 1, 2}, 2, "Out", 2, FALSE) @@
    "ring3"  :> S(AR2, <<>>, {"neg"}, {"+", "-", "*"}, FALSE, {}, {}, {}, 3, "Out", 2, FALSE) @@
    "neg3"   :> S(AR2, <<>>, {"neg"}, {"+", "-"}, FALSE, {}, {}, {}, 3, "Out", 2, FALSE) @@
    "madd2"  :> S(AR2, K1, {}, {"+", "*"}, TRUE, {}, {}, {0, 2}, 2, "Out", 2, FALSE) @@
    "div2"   :> S(AR2, <<>>, {"neg"}, {"/", "*", "-"}, FALSE, {}, {}, {1, 0 - 1, 2}, 2, "Out", 2, FALSE) @@
    "rates2" :> S(MIX, K3, {"neg"}, {"+", "*"}, FALSE, {}, {}, {2}, 2, "Out", 1, FALSE) @@
    "ops1"   :> S(AR2, K1, UnUsable, BinUsable, FALSE, {}, {}, {2}, 1, "Out", 2, FALSE) @@
    "mo2"    :> S(MO, <<>>, {"neg"}, {"+", "*"}, FALSE, {2}, {"Pan2"}, {1, 2}, 2, "Out", 2, FALSE) @@
    "dead2"  :> S(AR2, <<>>, {"neg", "abs"}, {"+", "*", "-"}, FALSE, {}, {"SinOsc", "LFNoise0"}, {2}, 2, "ReplaceOut", 2, FALSE) @@
    "local2" :> S(MIX, <<>>, {"neg"}, {"+", "*"}, FALSE, {}, {}, {2}, 2, "LocalOut", 1, FALSE) @@
    "bad2"   :> S(MIX, K1, {"neg"}, {"+", "*"}, FALSE, {}, {"Pan2", "LPF"}, {0, 2}, 2, "Out", 2, TRUE) @@
    \* ---- long programs: only ever sampled with -simulate
    "long"   :> S(BIG, K3, {"neg", "abs", "midicps"}, {"+", "-", "*", "/", "min", "<", "pow"}, TRUE, {2, 3, 4},
                  {"Pan2", "LPF", "SinOsc", "LFNoise0", "K2A", "DC"}, {0, 1, 0 - 1, 2, 3}, 12, "Out", 2, FALSE)
Groups ==
    "quick" :> {"coverS", "sumS", "sum3S", "negS", "shortS", "maddS", "mulS", "opsS", "moS", "deadS", "ratesS",
                "divS", "localS", "zeroS", "reoptS", "twoS", "listS"} @@
    "l2S" :> {"coverS", "shortS", "reoptS"} @@
    "thorough" :> {"coverS", "sumS", "sum3S", "negS", "shortS", "maddS", "mulS", "opsS", "moS", "deadS", "ratesS",
                   "divS", "localS", "zeroS", "reoptS", "twoS", "listS", "ops1", "dead2", "local2", "div2", "ring2"} @@
    \* too big to enumerate within the budget: sampled with random walks (RSpec)
    "sampled" :> {"sum3", "ring3", "neg3", "madd2", "rates2", "mo2", "ring2", "div2", "dead2", "local2", "ops1"}
SliceNames == IF IOEnv.VERIF_SLICE \in DOMAIN Groups THEN Groups[IOEnv.VERIF_SLICE] ELSE {IOEnv.VERIF_SLICE}

VARIABLES sl, prog, done, acts      \* acts: names of the generator actions taken so far (vacuity guard, printed by Emit)
vars == <<sl, prog, done, acts>>
Slice == SliceTab[sl]
Program(ins) == [name |-> sl, ctl |-> Slice.ctl, ins |-> ins]
Init == sl \in SliceNames /\ prog = Program(Slice.pre) /\ done = FALSE /\ acts = {}

NOps == Len(prog.ins) - Len(Slice.pre)
\* operands: constants, controls, every channel of every earlier result
Atoms == {C(v) : v \in Slice.consts} \cup {Pm(i) : i \in 1..Len(prog.ctl)}
         \cup UNION {{R(n, ch) : ch \in 0..(prog.ins[n].nout - 1)} : n \in 1..Len(prog.ins)}
Signals == {a \in Atoms : a.k # "c"}
Try(name, ins) == LET p2 == Program(Append(prog.ins, ins)) IN
            /\ Decidable(p2)
            /\ prog' = p2 /\ done' = FALSE /\ acts' = acts \cup {name} /\ UNCHANGED sl
NotAllConst(as) == \E j \in 1..Len(as) : as[j].k # "c"

AddUn == ~done /\ NOps < Slice.n /\ \E sel \in Slice.un, a \in Signals : Try("AddUn", Un(sel, a))
AddBin == ~done /\ NOps < Slice.n /\ \E sel \in Slice.bin, a \in Atoms, b \in Atoms :
              NotAllConst(<<a, b>>) /\ Try("AddBin", Bin(sel, a, b))
AddMAdd == ~done /\ NOps < Slice.n /\ Slice.madd /\ \E a \in Signals, m \in Atoms, d \in Atoms : Try("AddMAdd", MAdd(a, m, d))
AddSum == ~done /\ NOps < Slice.n /\ \E k \in Slice.sums :
              \E xs \in [1..k -> Atoms] : NotAllConst(xs) /\ Try("AddSum", Sum(xs))
\* a further unit fed by earlier results: every input position the class puts a rate requirement on (and the first one)
\* takes any signal - all combinations, so each checked position in turn is the only bad one - the rest constants
Checked(c) == {1} \cup c.aud \cup c.same
AddGen == ~done /\ NOps < Slice.n /\ \E cls \in Slice.gens \cap ClassNames, rate \in {1, 2} :
              LET c == ClassTab[cls]
                  nout == IF c.nout < 0 THEN 2 ELSE c.nout
                  pos == Checked(c) \cap (1..c.lo) IN
              /\ rate \in c.rates
              /\ \E xs \in [pos -> Signals] :
                    Try("AddGen", Gen(cls, rate, nout, [j \in 1..c.lo |-> IF j \in pos THEN xs[j] ELSE C(1)]))
Finish == /\ ~done /\ Slice.sink \notin {"Out2", "Arr", "OutAll"}
          /\ \E a \in Signals :
               LET fixed == IF Slice.sink = "LocalOut" THEN <<>> ELSE <<C(0)>>
                   zero == IF Slice.sink = "Out0" THEN <<C(0)>> ELSE <<>>       \* a literal 0 channel (becomes silence)
                   cls == IF Slice.sink = "Out0" THEN "Out" ELSE Slice.sink
                   p2 == Program(Append(prog.ins, Gen(cls, Slice.srate, 0, fixed \o <<a>> \o zero))) IN
               /\ Decidable(p2)
               /\ Slice.anyrate \/ MustCompile(p2)
               /\ prog' = p2 /\ done' = TRUE /\ acts' = acts \cup {"Finish"} /\ UNCHANGED sl
\* arithmetic over channel LISTS whose channels run at different rates ("list" in Slice.gens): madd of a list with
\* scalar or list mul/add, binary operators list x scalar and list x list, negation of a list (2 channels each)
LOp(op, sel, k, as) == [op |-> op, cls |-> "", sel |-> sel, rate |-> 0, nout |-> k, a |-> as]
AddList == /\ ~done /\ NOps < Slice.n /\ "list" \in Slice.gens
           /\ \E xs \in [1..2 -> Atoms] :
                \/ \E m \in Atoms, d \in Atoms : Try("AddList", LOp("lmadd", "", 2, xs \o <<m, d>>))
                \/ \E ms \in [1..2 -> Atoms], d \in Slice.consts : Try("AddList", LOp("zmadd", "", 2, xs \o ms \o <<C(d), C(d)>>))
                \/ \E sel \in {"+", "-", "*"}, y \in Atoms : Try("AddList", LOp("lbin", sel, 2, xs \o <<y>>))
                \/ \E sel \in {"+", "*"}, ys \in [1..2 -> Atoms] : Try("AddList", LOp("lbin", sel, 2, xs \o ys))
                \/ Try("AddList", LOp("lun", "neg", 2, xs))
\* output unit taking ALL channels of the last result (sink "OutAll")
FinishAll == /\ ~done /\ Slice.sink = "OutAll" /\ NOps >= 1
             /\ LET last == Len(prog.ins)
                    p2 == Program(Append(prog.ins, Gen("Out", Slice.srate, 0,
                                  <<C(0)>> \o [ch \in 1..prog.ins[last].nout |-> R(last, ch - 1)]))) IN
                /\ Decidable(p2) /\ (Slice.anyrate \/ MustCompile(p2))
                /\ prog' = p2 /\ done' = TRUE /\ acts' = acts \cup {"FinishAll"} /\ UNCHANGED sl
\* two output units: Out.ar(0, a) and ReplaceOut.kr(1, b)
Finish2 == /\ ~done /\ Slice.sink = "Out2"
           /\ \E a \in Signals, b \in Signals :
               LET p2 == Program(prog.ins \o <<Gen("Out", 2, 0, <<C(0), a>>), Gen("ReplaceOut", 1, 0, <<C(1), b>>)>>) IN
               /\ Decidable(p2) /\ MustCompile(p2)
               /\ prog' = p2 /\ done' = TRUE /\ acts' = acts \cup {"Finish2"} /\ UNCHANGED sl
\* output units with channel ARRAYS (sink "Arr"): every output class, 2..3 channels drawn from all signals and
\* constants in every position (so mixed-rate arrays with the bad channel first / in the middle / last occur),
\* given flat or as nested lists; valid and invalid programs alike (C02 decides which must raise)
SinkFixed(cls) == CASE cls = "LocalOut" -> <<>> [] cls = "XOut" -> <<C(0), C(1)>> [] OTHER -> <<C(0)>>
ArrSinks == {"Out", "ReplaceOut", "OffsetOut", "LocalOut", "XOut"}
FinishArr == /\ ~done /\ Slice.sink = "Arr"
             /\ \E cls \in ArrSinks, k \in 2..3 : \E xs \in [1..k -> Atoms] :
                  \E shape \in (IF k = 3 THEN {"flat", "head", "tail", "deep"} ELSE {"flat"}) :
                    LET ins == IF shape = "flat" THEN Gen(cls, 2, 0, SinkFixed(cls) \o xs)
                               ELSE [op |-> "sinkn", cls |-> cls, sel |-> shape, rate |-> 2, nout |-> 0, a |-> SinkFixed(cls) \o xs]
                        p2 == Program(Append(prog.ins, ins)) IN
                    /\ ProgShapeOK(p2)
                    /\ prog' = p2 /\ done' = TRUE /\ acts' = acts \cup {"FinishArr"} /\ UNCHANGED sl
Next == AddUn \/ AddBin \/ AddMAdd \/ AddSum \/ AddGen \/ AddList \/ Finish \/ Finish2 \/ FinishArr \/ FinishAll
Spec == Init /\ [][Next]_vars

(* the same generator for random walks (tlc -simulate): every action proposes ONE randomly drawn
   instruction instead of all of them, so that long programs over a big vocabulary can be sampled *)
Pick(X) == {RandomElement(X)}
RAddUn == ~done /\ NOps < Slice.n /\ Slice.un # {} /\ \E sel \in Pick(Slice.un), a \in Pick(Signals) : Try("AddUn", Un(sel, a))
RAddBin == ~done /\ NOps < Slice.n /\ Slice.bin # {} /\ \E sel \in Pick(Slice.bin), a \in Pick(Atoms), b \in Pick(Atoms) :
               NotAllConst(<<a, b>>) /\ Try("AddBin", Bin(sel, a, b))
RAddMAdd == ~done /\ NOps < Slice.n /\ Slice.madd /\ \E a \in Pick(Signals), m \in Pick(Atoms), d \in Pick(Atoms) : Try("AddMAdd", MAdd(a, m, d))
RAddSum == ~done /\ NOps < Slice.n /\ Slice.sums # {} /\ \E k \in Pick(Slice.sums) :
               \E xs \in {[j \in 1..k |-> RandomElement(Atoms)]} : NotAllConst(xs) /\ Try("AddSum", Sum(xs))
RAddGen == ~done /\ NOps < Slice.n /\ Slice.gens \cap ClassNames # {} /\ \E cls \in Pick(Slice.gens \cap ClassNames), rate \in Pick({1, 2}) :
              LET c == ClassTab[cls]
                  nout == IF c.nout < 0 THEN 2 ELSE c.nout
                  pos == Checked(c) \cap (1..c.lo) IN
              /\ rate \in c.rates
              /\ \E xs \in {[j \in pos |-> RandomElement(Signals)]} :
                    Try("AddGen", Gen(cls, rate, nout, [j \in 1..c.lo |-> IF j \in pos THEN xs[j] ELSE C(1)]))
RFinish == /\ ~done /\ NOps >= Slice.n \div 2 /\ Slice.sink \notin {"Out2", "Arr", "OutAll"}
           /\ \E a \in Pick(Signals) :
               LET fixed == IF Slice.sink = "LocalOut" THEN <<>> ELSE <<C(0)>>
                   zero == IF Slice.sink = "Out0" THEN <<C(0)>> ELSE <<>>       \* a literal 0 channel (becomes silence)
                   cls == IF Slice.sink = "Out0" THEN "Out" ELSE Slice.sink
                   p2 == Program(Append(prog.ins, Gen(cls, Slice.srate, 0, fixed \o <<a>> \o zero))) IN
               /\ Decidable(p2)
               /\ Slice.anyrate \/ MustCompile(p2)
               /\ prog' = p2 /\ done' = TRUE /\ acts' = acts \cup {"Finish"} /\ UNCHANGED sl
RNext == RAddUn \/ RAddBin \/ RAddMAdd \/ RAddSum \/ RAddGen \/ RFinish
RSpec == Init /\ [][RNext]_vars

(* ------------------------------------------------------------------ reference compilation *)
AddConst(cs, v) == IF \E i \in 1..Len(cs) : cs[i] = v THEN cs ELSE Append(cs, v)
CIdx(cs, v) == (CHOOSE i \in 1..Len(cs) : cs[i] = v) - 1
U(c, r, sp, ins, outs) == [c |-> c, r |-> r, sp |-> sp, ins |-> ins, outs |-> outs, nin |-> Len(ins), nout |-> Len(outs)]
NaiveStep(acc, ins) ==
    LET cs == FoldLeft(LAMBDA c, o : IF o.k = "c" THEN AddConst(c, o.i) ELSE c, acc.consts, ins.a)
        spec(o) == IF o.k = "c" THEN <<0 - 1, CIdx(cs, o.i)>>
                   ELSE IF o.k = "p" THEN <<o.i - 1, 0>> ELSE acc.loc[o.i][o.ch + 1]
        specs == [j \in 1..Len(ins.a) |-> spec(ins.a[j])]
        rateOf(units, sp) == IF sp[1] < 0 THEN 0 ELSE units[sp[1] + 1].outs[sp[2] + 1]
        mr == MaxOf([j \in 1..Len(specs) |-> rateOf(acc.units, specs[j])])
        nu == Len(acc.units)
        one(u) == [units |-> Append(acc.units, u), consts |-> cs, loc |-> Append(acc.loc, <<<<nu, 0>>>>),
                   m |-> Append(acc.m, 0)]
    IN CASE ins.op = "gen" ->
              [units |-> Append(acc.units, U(ins.cls, ins.rate, 0, specs, [ch \in 1..ins.nout |-> ins.rate])),
               consts |-> cs, loc |-> Append(acc.loc, [ch \in 1..ins.nout |-> <<nu, ch - 1>>]),
               m |-> Append(acc.m, nu + 1)]
         [] ins.op = "un" -> one(U("UnaryOpUGen", mr, UnIdx(ins.sel), specs, <<mr>>))
         [] ins.op = "bin" -> one(U("BinaryOpUGen", mr, BinIdx(ins.sel), specs, <<mr>>))
         [] ins.op = "madd" -> one(U("MulAdd", mr, 0, specs, <<mr>>))
         [] ins.op = "sum" ->
              LET chain == FoldLeft(
                      LAMBDA st, sp : LET r == Max2(rateOf(st.units, st.cur), rateOf(st.units, sp)) IN
                          [units |-> Append(st.units, U("BinaryOpUGen", r, 0, <<st.cur, sp>>, <<r>>)),
                           cur |-> <<Len(st.units), 0>>],
                      [units |-> acc.units, cur |-> specs[1]], Tail(specs))
              IN [units |-> chain.units, consts |-> cs, loc |-> Append(acc.loc, <<chain.cur>>), m |-> Append(acc.m, 0)]
NaiveAcc(p) ==
    FoldLeft(NaiveStep,
             [units |-> [i \in 1..Len(p.ctl) |->
                            U(CtlClass(p.ctl[i].r), CtlRate(p.ctl[i].r), i - 1, <<>>, <<CtlRate(p.ctl[i].r)>>)],
              consts |-> <<>>, loc |-> <<>>, m |-> <<>>], p.ins)
F32(v) == [x |-> 1, v |-> v, hi |-> 0, lo |-> 0]
NaiveDef(p) ==
    LET acc == NaiveAcc(p) IN
    [name |-> p.name, consts |-> [i \in 1..Len(acc.consts) |-> F32(acc.consts[i])],
     ctl |-> [i \in 1..Len(p.ctl) |-> F32(p.ctl[i].d)],
     names |-> [i \in 1..Len(p.ctl) |-> [n |-> p.ctl[i].n, i |-> i - 1]],
     units |-> acc.units, variants |-> <<>>]
NaiveM(p) == NaiveAcc(p).m
Parsed(d) == [ok |-> 1, err |-> "", errc |-> "", magic |-> "SCgf", version |-> 2, ndefs |-> 1, consumed |-> 0, total |-> 0, defs |-> <<d>>]

\* ... or a unit with a side effect removed from the certificate
Plain(p) == \A n \in 1..Len(p.ins) : p.ins[n].op \in {"gen", "un", "bin", "madd", "sum"}
NaiveOK == (done /\ Plain(prog)) => /\ ImplWhy(prog, NaiveDef(prog), NaiveM(prog)) = "ok"
                   /\ ScgfWhy(Parsed(NaiveDef(prog)), prog.name) = "ok"
DropDetected == (done /\ Plain(prog)) => LET m == NaiveM(prog)
                            s == CHOOSE s \in GenIns(prog) : ClassTab[prog.ins[s].cls].se IN
                        ImplWhy(prog, NaiveDef(prog), [m EXCEPT ![s] = 0]) # "ok"
Emit == done => PrintT(<<"PROG", ToJson([p |-> prog, acts |-> acts])>>)
=============================================================================
