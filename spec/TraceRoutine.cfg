SPECIFICATION TSpec
