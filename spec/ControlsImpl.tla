---------------------------- MODULE ControlsImpl ----------------------------
(* L2 for C04: the algorithm of sc3.synth.synthdef.SynthDef._build_ugen_graph/_build_controls and
   of the Control/TrigControl/AudioControl/LagControl constructors transcribed as a fold over the
   functions of a request, with the code's own bookkeeping: `controls` (SynthDef._controls, the
   default array every control unit appends to), `cidx` (SynthDef._control_index), the special
   index of a unit = Len(controls) at its creation, the ControlName.index assignment loop
   (index := cidx before the unit is made; index += width per parameter), LagControl.kr's clumps
   of 16, and reshape_like handing the outputs back in group order.
   TLC checks on every request of the generator that this yields exactly the declarative layout
   of Controls.tla (defaults, name table, ExpectedUnits, wiring).                               *)
EXTENDS Controls, SequencesExt

WrapExtend(s, n) == [i \in 1..n |-> s[((i - 1) % Len(s)) + 1]]
\* _args_to_controls: one ControlName per non-prepended parameter
CN(p) == [n |-> p.n, rate |-> EffRate(p), dv |-> DefaultVals(p), w |-> Width(p),
          lag |-> IF EffRate(p) = "kr" /\ p.ov \in {"num", "list"} THEN p.lag ELSE <<0>>]
St0 == [controls |-> <<>>, cidx |-> 0, names |-> <<>>, units |-> <<>>, args |-> <<>>]

NewUnit(st, cls, rate, values, lagins) ==
    [st EXCEPT !.units = Append(@, [c |-> cls, r |-> rate, s |-> Len(st.controls), no |-> Len(values), ins |-> lagins]),
               !.controls = @ \o values,
               !.cidx = @ + Len(values)]
Offs(G) == [i \in 1..Len(G) |-> SumSeq([j \in 1..(i - 1) |-> G[j].w])]
\* the loop "for i, cn in enumerate(cns): cn.index = index; index += width; arguments[...] = ctrl_ugens[i]"
\* outs = flat list of <<unit, output>> the constructor returned
Assign(st, G, index0, outs) ==
    [st EXCEPT !.names = @ \o [i \in 1..Len(G) |-> [n |-> G[i].n, index |-> index0 + Offs(G)[i]]],
               !.args = @ \o [i \in 1..Len(G) |-> [n |-> G[i].n, ch |-> [c \in 1..G[i].w |-> outs[Offs(G)[i] + c]]]]]

BuildIta(st, G, cls, rate) ==
    IF G = <<>> THEN st
    ELSE LET vals == Cat([i \in 1..Len(G) |-> G[i].dv])
             st1 == NewUnit(st, cls, rate, vals, <<>>)
             u == Len(st1.units) IN
         Assign(st1, G, st.cidx, [k \in 1..Len(vals) |-> <<u, k - 1>>])
RECURSIVE LagClumps(_, _, _)
LagClumps(st, vals, lags) ==      \* LagControl.kr: values.clump(16), lags.clump(16), one unit each
    IF vals = <<>> THEN st
    ELSE LET n == Min2(16, Len(vals)) IN
         LagClumps(NewUnit(st, "LagControl", 1, SubSeq(vals, 1, n), [x \in 1..n |-> <<0 - 1, 0, lags[x]>>]),
                   SubSeq(vals, n + 1, Len(vals)), SubSeq(lags, n + 1, Len(lags)))
BuildKr(st, G) ==
    IF G = <<>> THEN st
    ELSE LET vals == Cat([i \in 1..Len(G) |-> G[i].dv])
             lags == Cat([i \in 1..Len(G) |-> WrapExtend(G[i].lag, G[i].w)])
             u0 == Len(st.units) IN
         IF \E i \in 1..Len(lags) : lags[i] # 0
         THEN Assign(LagClumps(st, vals, lags), G, st.cidx,
                     [k \in 1..Len(vals) |-> <<u0 + 1 + ((k - 1) \div 16), (k - 1) % 16>>])
         ELSE Assign(NewUnit(st, "Control", 1, vals, <<>>), G, st.cidx,
                     [k \in 1..Len(vals) |-> <<u0 + 1, k - 1>>])
BuildFunc(st, f) ==
    LET cns == [i \in 1..Len(CtlParams(f)) |-> CN(CtlParams(f)[i])]
        grp(g) == SelectSeq(cns, LAMBDA c : c.rate = g) IN
    BuildKr(BuildIta(BuildIta(BuildIta(st, grp("ir"), "Control", 0), grp("tr"), "TrigControl", 1),
                     grp("ar"), "AudioControl", 2), grp("kr"))
Build(dd) == FoldLeft(BuildFunc, St0, dd.funcs)

ImplRefines ==
    LET st == Build(d)  L == Layout(d) IN
    /\ st.controls = Defaults(L)
    /\ st.cidx = Total(L)
    /\ Len(st.names) = Len(L) /\ {<<st.names[i].n, st.names[i].index>> : i \in 1..Len(st.names)} = NameTable(L)
    /\ st.units = ExpectedUnits(d)
    /\ Len(st.args) = Len(L)
    /\ \A a \in 1..Len(st.args) :
          LET i == CHOOSE i \in 1..Len(L) : L[i].n = st.args[a].n IN
          /\ Len(st.args[a].ch) = L[i].w
          /\ \A c \in 1..L[i].w : Wired(st.units, L, i, c - 1, st.args[a].ch[c][1], st.args[a].ch[c][2])

NextI == AddBound \/ AddParam \/ OpenWrap
SpecI == Init /\ [][NextI]_vars
=============================================================================
