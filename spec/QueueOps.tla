---------------------------- MODULE QueueOps ----------------------------
(* Pure operators of the stable time-ordered queue (shared by TaskQueue, the clock and score specs).
   An entry is [p, s, t]: priority/time p, insertion stamp s, item t.  Order is (p, s).            *)
EXTENDS Naturals, Integers, Sequences, FiniteSets

Less(a, b) == a.p < b.p \/ (a.p = b.p /\ a.s < b.s)

Sorted(q) == \A i \in 1..Len(q)-1 : Less(q[i], q[i+1])
UniqueTasks(q) == \A i, j \in 1..Len(q) : i # j => q[i].t # q[j].t
StampsBelow(q, ctr) == \A i \in 1..Len(q) : q[i].s < ctr

Has(q, t) == \E i \in 1..Len(q) : q[i].t = t
Without(q, t) == SelectSeq(q, LAMBDA e : e.t # t)
Insert(q, e) ==
    LET k == Cardinality({i \in 1..Len(q) : Less(q[i], e)})
    IN SubSeq(q, 1, k) \o <<e>> \o SubSeq(q, k+1, Len(q))

Pairs(q) == [i \in 1..Len(q) |-> <<q[i].p, q[i].t>>]
R(kind, v) == [k |-> kind, v |-> v]

OpAdd(q, ctr, p, t) ==
    [q |-> Insert(Without(q, t), [p |-> p, s |-> ctr, t |-> t]), ctr |-> ctr + 1, ret |-> R("none", <<>>)]
OpRemove(q, ctr, t) == [q |-> Without(q, t), ctr |-> ctr, ret |-> R("none", <<>>)]
OpPop(q, ctr) ==
    IF q = <<>> THEN [q |-> q, ctr |-> ctr, ret |-> R("keyerror", <<>>)]
    ELSE [q |-> Tail(q), ctr |-> ctr, ret |-> R("pair", <<<<q[1].p, q[1].t>>>>)]
OpPeekS(q, ctr) ==
    IF q = <<>> THEN [q |-> q, ctr |-> ctr, ret |-> R("keyerror", <<>>)]
    ELSE [q |-> q, ctr |-> ctr, ret |-> R("pair", <<<<q[1].p, q[1].t>>>>)]
OpPeekL(q, ctr) ==
    IF q = <<>> THEN [q |-> q, ctr |-> ctr, ret |-> R("keyerror", <<>>)]
    ELSE [q |-> q, ctr |-> ctr, ret |-> R("pair", <<<<q[Len(q)].p, q[Len(q)].t>>>>)]
OpEmpty(q, ctr) == [q |-> q, ctr |-> ctr, ret |-> R(IF q = <<>> THEN "true" ELSE "false", <<>>)]
OpClear(q, ctr) == [q |-> <<>>, ctr |-> 0, ret |-> R("none", <<>>)]
OpIter(q, ctr) == [q |-> q, ctr |-> ctr, ret |-> R("list", Pairs(q))]

=============================================================================
