---------------------------- MODULE TraceEnvObj ----------------------------
(* C->S binding for the history dimension of C19: a trace is ONE real Env instance and the sequence of
   operations performed on it (requests of the two server arrays, evaluation, use in SynthDefs,
   assignments to its specification).  Every observation must be what Env.tla / EnvObj.tla prescribe for
   the CURRENT specification.  When an observation instead equals what the instance answered for the
   specification it had when that array was first requested, the reason says so (stale-cache).       *)
EXTENDS Integers, Sequences, FiniteSets, TLC, Json, IOUtils
Levels == {} Times == {} Curves == {} MaxSeg == 0 MaxPts == 0 QTicks == {}
VARIABLES env, op, tq, fmt, val, part
INSTANCE Env
Traces == JsonDeserialize(IOEnv.VERIF_TRACES)
VARIABLES tid, l
tvars == <<env, op, tq, fmt, val, part, tid, l>>
\* env = current specification; fmt / val = <<array>> the instance computed at the first EnvGen / IEnvGen
\* request (what a never refreshed copy would hold); part = <<specification at that first EnvGen request>>
CtlSeq(e) == [i \in 1..5 |-> Fix(e.ctl[i])]

DiffE(exp, obs) ==
    IF Len(exp) # Len(obs) THEN "length"
    ELSE LET bad == {j \in 1..Len(exp) : exp[j] # obs[j]} IN
         IF bad = {} THEN "ok"
         ELSE LET j == CHOOSE x \in bad : \A y \in bad : x <= y IN
              CASE j = 1 -> "initial-level" [] j = 2 -> "segment-count" [] j = 3 -> "release-node" [] j = 4 -> "loop-node"
                [] j > 4 /\ (j - 5) % 4 = 0 -> "target-level" [] j > 4 /\ (j - 5) % 4 = 1 -> "duration"
                [] j > 4 /\ (j - 5) % 4 = 2 -> "shape-number" [] OTHER -> "curvature"
DiffI(exp, obs) ==
    IF Len(exp) # Len(obs) THEN "length"
    ELSE LET bad == {j \in 1..Len(exp) : exp[j] # obs[j]} IN
         IF bad = {} THEN "ok"
         ELSE LET j == CHOOSE x \in bad : \A y \in bad : x <= y IN
              CASE j = 1 -> "offset" [] j = 2 -> "initial-level" [] j = 3 -> "segment-count" [] j = 4 -> "total-duration"
                [] j > 4 /\ (j - 5) % 4 = 0 -> "duration" [] j > 4 /\ (j - 5) % 4 = 1 -> "shape-number"
                [] j > 4 /\ (j - 5) % 4 = 2 -> "curvature" [] OTHER -> "target-level"
\* observed EnvGen array against the current specification (pre: prefix of controls, possibly empty)
WhyE(tag, pre, r) ==
    IF ~ValidCurves(env) THEN (IF r.k = "exc" THEN "ok" ELSE tag \o ":accepted-invalid")
    ELSE IF r.k # "ok" THEN tag \o ":raised"
    ELSE IF Len(r.v) < Len(pre) \/ SubSeq(r.v, 1, Len(pre)) # pre THEN tag \o ":controls"
    ELSE LET obs == SubSeq(r.v, Len(pre) + 1, Len(r.v))
             d == DiffE(FormatSeq(env), obs) IN
         IF d = "ok" THEN "ok"
         ELSE IF fmt # <<>> /\ obs = fmt[1] THEN tag \o ":stale-cache"
         ELSE tag \o ":" \o d
WhyI(tag, pre, r) ==
    IF ~ValidCurves(env) THEN (IF r.k = "exc" THEN "ok" ELSE tag \o ":accepted-invalid")
    ELSE IF r.k # "ok" THEN tag \o ":raised"
    ELSE IF Len(r.v) < Len(pre) \/ SubSeq(r.v, 1, Len(pre)) # pre THEN tag \o ":index"
    ELSE LET obs == SubSeq(r.v, Len(pre) + 1, Len(r.v))
             d == DiffI(InterpSeq(env), obs) IN
         IF d = "ok" THEN "ok"
         ELSE IF val # <<>> /\ obs = val[1] THEN tag \o ":stale-cache"
         ELSE tag \o ":" \o d
Both(a, b) == IF a # "ok" THEN a ELSE b
Why(e) ==
    CASE e.n = "fmt" -> WhyE("fmt", <<>>, e.r)
      [] e.n = "ifmt" -> WhyI("ifmt", <<>>, e.r)
      [] e.n = "ugenE" -> WhyE("ugenE", CtlSeq(e), e.r)
      [] e.n = "ugenI" -> WhyI("ugenI", <<Fix(e.ix)>>, e.r)
      [] e.n \in {"ugenEI", "ugenIE"} -> Both(WhyE(e.n \o ":envgen", CtlSeq(e), e.r), WhyI(e.n \o ":ienvgen", <<Fix(e.ix)>>, e.r2))
      [] e.n = "at" ->
            IF ~ValidCurves(env) THEN (IF e.r.k = "exc" THEN "ok" ELSE "at:accepted-invalid")
            ELSE IF e.r.k # "ok" THEN "at:raised"
            ELSE LET w == AtWhy(env, e.t, e.r.v[1]) IN
                 IF w = "ok" THEN "ok"
                 ELSE IF part # <<>> /\ AtWhy([part[1] EXCEPT !.off = env.off], e.t, e.r.v[1]) = "ok" THEN "at:stale-cache"
                 ELSE "at:" \o w
      [] e.n \in {"set_levels", "set_times", "set_curves", "set_release_node", "set_loop_node", "set_offset"} ->
            (IF e.r.k = "ok" THEN "ok" ELSE "set:raised")
      [] OTHER -> "unknown-event"
NextSpec(e) ==
    CASE e.n = "set_levels" -> [env EXCEPT !.lv = e.lv]
      [] e.n = "set_times" -> [env EXCEPT !.tm = e.tm]
      [] e.n = "set_curves" -> [env EXCEPT !.cv = e.cv]
      [] e.n = "set_release_node" -> [env EXCEPT !.rel = e.node]
      [] e.n = "set_loop_node" -> [env EXCEPT !.loop = e.node]
      [] e.n = "set_offset" -> [env EXCEPT !.off = e.off]
      [] OTHER -> env
AsksE(e) == e.n \in {"fmt", "at", "ugenE", "ugenEI", "ugenIE"}
AsksI(e) == e.n \in {"ifmt", "ugenI", "ugenEI", "ugenIE"}

TInit == /\ tid \in 1..Len(Traces) /\ l = 1
         /\ env = LET i == Traces[tid].init IN MkEnv(i.lv, i.tm, i.cv, i.rel, i.loop, i.off)
         /\ op = "" /\ tq = 0 /\ fmt = <<>> /\ val = <<>> /\ part = <<>>
Step1 == /\ l >= 1 /\ l <= Len(Traces[tid].ev)
         /\ LET t == Traces[tid]
                e == t.ev[l]
                why == Why(e) IN
            IF why = "ok"
            THEN /\ l' = l + 1 /\ env' = NextSpec(e)
                 /\ fmt' = (IF fmt = <<>> /\ AsksE(e) /\ ValidCurves(env) THEN <<FormatSeq(env)>> ELSE fmt)
                 /\ part' = (IF fmt = <<>> /\ AsksE(e) /\ ValidCurves(env) THEN <<env>> ELSE part)
                 /\ val' = (IF val = <<>> /\ AsksI(e) /\ ValidCurves(env) THEN <<InterpSeq(env)>> ELSE val)
                 /\ UNCHANGED <<op, tq, tid>>
            ELSE /\ PrintT(<<"REJ", t.id, l, why>>)
                 /\ l' = 0 /\ UNCHANGED <<env, op, tq, fmt, val, part, tid>>
Done == /\ l = Len(Traces[tid].ev) + 1
        /\ PrintT(<<"ACC", Traces[tid].id>>)
        /\ l' = 0 - 1 /\ UNCHANGED <<env, op, tq, fmt, val, part, tid>>
TNext == Step1 \/ Done
TSpec == TInit /\ [][TNext]_tvars
=============================================================================
