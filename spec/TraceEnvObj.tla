---------------------------- MODULE TraceEnvObj ----------------------------
(* C->S binding for the history dimension of C19: a trace is ONE real Env instance and the sequence of
   operations performed on it (requests of the two server arrays, evaluation, use in SynthDefs,
   assignments to its specification).  Every observation must be what Env.tla / EnvObj.tla prescribe for
   the CURRENT specification.  When an observation instead equals what the instance answered for the
   specification it had when that array was first requested, the reason says so (stale-cache).       *)
EXTENDS Integers, Sequences, FiniteSets, TLC, Json, IOUtils
Levels == {} Times == {} Curves == {} MaxSeg == 0 MaxPts == 0 QTicks == {}
VARIABLES env, op, tq, fmt, val, part
INSTANCE Env
Traces == JsonDeserialize(IOEnv.VERIF_TRACES)
VARIABLES tid, l
tvars == <<env, op, tq, fmt, val, part, tid, l>>
\* env = current specification of instance 1; part = <<specification of instance 2>> once it has been derived
CtlSeq(e) == [i \in 1..5 |-> Fix(e.ctl[i])]
Cur(e) == IF e.i = 1 THEN env ELSE part[1]
Has(e) == e.i = 1 \/ part # <<>>

DiffE(exp, obs) ==
    IF Len(exp) # Len(obs) THEN "length"
    ELSE LET bad == {j \in 1..Len(exp) : exp[j] # obs[j]} IN
         IF bad = {} THEN "ok"
         ELSE LET j == CHOOSE x \in bad : \A y \in bad : x <= y IN
              CASE j = 1 -> "initial-level" [] j = 2 -> "segment-count" [] j = 3 -> "release-node" [] j = 4 -> "loop-node"
                [] j > 4 /\ (j - 5) % 4 = 0 -> "target-level" [] j > 4 /\ (j - 5) % 4 = 1 -> "duration"
                [] j > 4 /\ (j - 5) % 4 = 2 -> "shape-number" [] OTHER -> "curvature"
DiffI(exp, obs) ==
    IF Len(exp) # Len(obs) THEN "length"
    ELSE LET bad == {j \in 1..Len(exp) : exp[j] # obs[j]} IN
         IF bad = {} THEN "ok"
         ELSE LET j == CHOOSE x \in bad : \A y \in bad : x <= y IN
              CASE j = 1 -> "offset" [] j = 2 -> "initial-level" [] j = 3 -> "segment-count" [] j = 4 -> "total-duration"
                [] j > 4 /\ (j - 5) % 4 = 0 -> "duration" [] j > 4 /\ (j - 5) % 4 = 1 -> "shape-number"
                [] j > 4 /\ (j - 5) % 4 = 2 -> "curvature" [] OTHER -> "target-level"
\* which instance the answer belongs to instead, if any (an instance must never answer for the other one)
Other(e) == IF e.i = 1 THEN (IF part # <<>> THEN part ELSE <<>>) ELSE <<env>>
WhyE(tag, pre, r, s, e) ==
    IF ~ValidCurves(s) THEN (IF r.k = "exc" THEN "ok" ELSE tag \o ":accepted-invalid")
    ELSE IF r.k # "ok" THEN tag \o ":raised"
    ELSE IF Len(r.v) < Len(pre) \/ SubSeq(r.v, 1, Len(pre)) # pre THEN tag \o ":controls"
    ELSE LET obs == SubSeq(r.v, Len(pre) + 1, Len(r.v))
             d == DiffE(FormatSeq(s), obs) IN
         IF d = "ok" THEN "ok" ELSE tag \o ":" \o d
WhyI(tag, pre, r, s, e) ==
    IF ~ValidCurves(s) THEN (IF r.k = "exc" THEN "ok" ELSE tag \o ":accepted-invalid")
    ELSE IF r.k # "ok" THEN tag \o ":raised"
    ELSE IF Len(r.v) < Len(pre) \/ SubSeq(r.v, 1, Len(pre)) # pre THEN tag \o ":index"
    ELSE LET obs == SubSeq(r.v, Len(pre) + 1, Len(r.v))
             d == DiffI(InterpSeq(s), obs) IN
         IF d = "ok" THEN "ok" ELSE tag \o ":" \o d
Both(a, b) == IF a # "ok" THEN a ELSE b
Setters == {"set_levels", "set_times", "set_curves", "set_release_node", "set_loop_node", "set_offset", "set_duration"}
Why(e) ==
    IF ~Has(e) THEN "no-such-instance"
    ELSE LET s == Cur(e) IN
    CASE e.n = "fmt" -> WhyE("fmt", <<>>, e.r, s, e)
      [] e.n = "ifmt" -> WhyI("ifmt", <<>>, e.r, s, e)
      [] e.n = "ugenE" -> WhyE("ugenE", CtlSeq(e), e.r, s, e)
      [] e.n = "ugenI" -> WhyI("ugenI", <<Fix(e.ix)>>, e.r, s, e)
      [] e.n \in {"ugenEI", "ugenIE"} -> Both(WhyE(e.n \o ":envgen", CtlSeq(e), e.r, s, e), WhyI(e.n \o ":ienvgen", <<Fix(e.ix)>>, e.r2, s, e))
      [] e.n = "at" ->
            IF ~ValidCurves(s) THEN (IF e.r.k = "exc" THEN "ok" ELSE "at:accepted-invalid")
            ELSE IF e.r.k # "ok" THEN "at:raised"
            ELSE LET w == AtWhy(s, e.t, e.r.v[1]) IN IF w = "ok" THEN "ok" ELSE "at:" \o w
      [] e.n = "dur" -> (IF e.r.k # "ok" THEN "dur:raised" ELSE IF e.r.v # <<Fix(Duration(s))>> THEN "dur:value" ELSE "ok")
      [] e.n = "derive" -> (IF ~Derivable(s, e.kind) THEN "derive:case-not-defined" ELSE IF e.r.k = "ok" THEN "ok" ELSE "derive:raised")
      [] e.n \in Setters -> (IF e.r.k = "ok" THEN "ok" ELSE "set:raised")
      [] OTHER -> "unknown-event"
Changed(e, s) ==
    CASE e.n = "set_levels" -> [s EXCEPT !.lv = e.lv]
      [] e.n = "set_times" -> [s EXCEPT !.tm = e.tm]
      [] e.n = "set_curves" -> [s EXCEPT !.cv = e.cv]
      [] e.n = "set_release_node" -> [s EXCEPT !.rel = e.node]
      [] e.n = "set_loop_node" -> [s EXCEPT !.loop = e.node]
      [] e.n = "set_offset" -> [s EXCEPT !.off = e.off]
      [] e.n = "set_duration" -> Rescaled(s, e.d)
      [] OTHER -> s
\* an operation on instance i changes the specification of i only; derive makes the other instance
Next1(e) == IF e.n = "derive" THEN (IF e.i = 2 THEN Derived(part[1], e.kind, e.lo, e.hi) ELSE env)
            ELSE IF e.i = 1 THEN Changed(e, env) ELSE env
Next2(e) == IF e.n = "derive" THEN (IF e.i = 1 THEN <<Derived(env, e.kind, e.lo, e.hi)>> ELSE part)
            ELSE IF e.i = 2 THEN <<Changed(e, part[1])>> ELSE part

TInit == /\ tid \in 1..Len(Traces) /\ l = 1
         /\ env = LET i == Traces[tid].init IN MkEnv(i.lv, i.tm, i.cv, i.rel, i.loop, i.off)
         /\ op = "" /\ tq = 0 /\ fmt = <<>> /\ val = <<>> /\ part = <<>>
Step1 == /\ l >= 1 /\ l <= Len(Traces[tid].ev)
         /\ LET t == Traces[tid]
                e == t.ev[l]
                why == Why(e) IN
            IF why = "ok"
            THEN /\ l' = l + 1 /\ env' = Next1(e) /\ part' = Next2(e)
                 /\ UNCHANGED <<op, tq, fmt, val, tid>>
            ELSE /\ PrintT(<<"REJ", t.id, l, why>>)
                 /\ l' = 0 /\ UNCHANGED <<env, op, tq, fmt, val, part, tid>>
Done == /\ l = Len(Traces[tid].ev) + 1
        /\ PrintT(<<"ACC", Traces[tid].id>>)
        /\ l' = 0 - 1 /\ UNCHANGED <<env, op, tq, fmt, val, part, tid>>
TNext == Step1 \/ Done
TSpec == TInit /\ [][TNext]_tvars
=============================================================================
