--------------------------- MODULE RegistriesModel ---------------------------
(* Design-level model of Registries.tla: histories of add / remove / remove_all / run over three
   actions whose behaviours include removing or adding another action during a run.  Invariants:
   a run logs only registered actions, each at most once, in registration order, and never an action
   removed earlier in the same run.                                                     *)
EXTENDS Registries
CONSTANTS MaxOps
VARIABLES reg, log, pre, n
vars == <<reg, log, pre, n>>
Acts == {"a", "b", "c"}
Beh == [a |-> [b |-> "rm", x |-> "c"], b |-> [b |-> "log", x |-> "b"], c |-> [b |-> "add", x |-> "a"]]
Init == reg = <<>> /\ log = <<>> /\ pre = <<>> /\ n = 0
Step == n < MaxOps /\ n' = n + 1
Add == Step /\ \E a \in Acts, v \in {0, 1} : reg' = Put(reg, a, v) /\ log' = <<>> /\ pre' = reg
Remove == Step /\ \E a \in Acts : reg' = Del(reg, a) /\ log' = <<>> /\ pre' = reg
RemoveAll == Step /\ reg' = <<>> /\ log' = <<>> /\ pre' = reg
Run == Step /\ LET r == SysRunAll(reg, Beh) IN reg' = r.reg /\ log' = r.log /\ pre' = reg
Next == Add \/ Remove \/ RemoveAll \/ Run
Spec == Init /\ [][Next]_vars

Pos(s, a) == CHOOSE i \in 1..Len(s) : s[i].k = a
OnlyRegistered == \A i \in 1..Len(log) : HasKey(pre, log[i].a)
AtMostOnce == \A i, j \in 1..Len(log) : i # j => log[i].a # log[j].a
InOrder == \A i, j \in 1..Len(log) : i < j => Pos(pre, log[i].a) < Pos(pre, log[j].a)
\* "a" removes "c": when both were registered and "a" ran first, "c" did not run
RemovedSkipped == (\E i \in 1..Len(log) : log[i].a = "a") /\ HasKey(pre, "c") /\ Pos(pre, "a") < Pos(pre, "c")
                     => \A i \in 1..Len(log) : log[i].a # "c"
UniqueKeys == \A i, j \in 1..Len(reg) : i # j => reg[i].k # reg[j].k
=============================================================================
