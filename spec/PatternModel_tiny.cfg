SPECIFICATION Spec
CONSTANTS
  NV = 4
  Mode = "tiny"
  NS = 3
  NB = 4
INVARIANT LawsHold
INVARIANT DefinedOnly
INVARIANT Immutable
PROPERTY PatternConstant
