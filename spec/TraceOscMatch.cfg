SPECIFICATION TSpec
