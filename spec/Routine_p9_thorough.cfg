SPECIFICATION Spec
CONSTANTS
  QMode = "keyed"
  ProgSel = 9
  MaxLen = 1
  MaxSteps = 3
  MaxTime = 24
CONSTRAINT Bound
INVARIANT InvStackRestored
INVARIANT InvNoRunning
INVARIANT InvDoneRaisesStop
INVARIANT InvPausedRaises
INVARIANT InvSelfOpsRefused
INVARIANT InvNextReturnsYielded
INVARIANT InvTransitionTable
INVARIANT InvWake
PROPERTY StepLaws
