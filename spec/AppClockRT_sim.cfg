SPECIFICATION Spec
CONSTANTS
  Users = {"u1", "u2"}
  Deltas = {0, 1, 2}
  MaxNow = 6
  GapTicks = TRUE
  Fixed = TRUE
