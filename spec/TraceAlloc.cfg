SPECIFICATION TSpec
