------------------------------ MODULE ClockL1 ------------------------------
(* L1 for C08: what real-time clocks owe their users, as a monitor over the events of an execution.

   The monitor state is the abstract clock state: per clock the pending schedulings (a stable
   time-ordered queue, QueueOps), the tempo map of tempo clocks, what each clock thread is blocked on,
   which API calls are in flight, and the logical time of the task currently awake on each thread.
   Step(st, e) consumes one event and returns [st, why]; why = "ok" or the name of the violated clause:

     wake-not-pending   a task ran that is not pending (ran twice, ran after clear/stop, never scheduled)
     order              a task ran while an earlier (time, scheduling order) one was still pending
     early              a task ran before its scheduled time (physical now < scheduled)
     logical-time       the logical time seen by the task is not exactly its scheduled time
     missed-head        with no call in flight, a clock thread sleeps un-notified although the queue is
                        non-empty and it has no deadline, or its deadline is later than the head's time
     missed             at the end of the run a scheduling whose time has long passed was never awakened
     clock-died         a clock thread is no longer serving after a task raised
     stuck              deadlock / a call that never returned
   Conditions / flow variables in real time (the C11 clause "a routine waiting on a Condition or FlowVar resumes
   exactly once after the condition holds and is signalled, never before", with signals from plain threads):
   wait, signal and unhang are atomic with respect to one another, so
     parked-though-true        a routine parked although the condition held before its step began
     resumed-before-condition  wait() let a routine pass although the condition could not yet hold
     lost-wakeup               at the end a routine is still parked although a signal was invoked after the
                               condition became true, or an unhang was invoked after it had parked
   and a signal / unhang re-schedules every parked routine on its clock with delay 0 at its linearization point
   (then the clock clauses above apply: exactly once, in order, at that logical time).
   stop(): a tempo clock whose stop() was called keeps serving until its thread ends; from then on nothing of
   it may wake.  Incoming OSC datagrams are scheduling calls made by the receive thread (sched(0, dispatch)).

   Events come from the controlled scheduler (acq/rel/wait/wake/notify/tick) and from the driver's task
   wrappers (call/ret/task_begin/task_end/mkclock/end).  Times are integers in units of 1/1024 (s or beat). *)
EXTENDS Naturals, Integers, Sequences, FiniteSets, TLC, QueueOps

Never == 1073741824      \* how the drivers write float('inf')
NoCall == [api |-> "", clock |-> "", task |-> "", arg |-> 0, arg2 |-> 1, inner |-> FALSE, lin |-> TRUE, cv |-> ""]
NoCur == [clock |-> "", task |-> "", time |-> 0, lt |-> 0, on |-> FALSE, fm |-> {}]
CondApis == {"signal", "unhang", "fset"}
NoBlk == [w |-> FALSE, dl |-> 0 - 1, nt |-> FALSE]

Empty == [x \in {} |-> 0]
Get(f, k, dflt) == IF k \in DOMAIN f THEN f[k] ELSE dflt
Put(f, k, v) == (k :> v) @@ f

IsTempo(c) == c \notin {"sys", "app"}

Init0(clockthread) ==
    [pend |-> [c \in {"sys", "app"} |-> <<>>],     \* clock -> queue of [p: time, s: stamp, t: task]
     ctr |-> 0,
     map |-> Empty,                                 \* tempo clock -> [num, den, bs, bb]
     infl |-> Empty,                                \* thread -> call in flight
     cur |-> Empty,                                 \* thread -> task awake on it
     blk |-> Empty,                                 \* clock -> what its thread is blocked on
     th2c |-> clockthread,                          \* thread name -> clock name (function)
     stopping |-> {},                               \* tempo clocks whose stop() has been called
     stopped |-> {},                                \* ... and whose thread has ended (everything cancelled)
     fmay |-> {},                                   \* conditions whose test may already read true
     fmust |-> {},                                  \* conditions whose test certainly reads true
     sigok |-> {},                                  \* conditions signalled (call invoked) after they certainly held
     parked |-> <<>>,                               \* routines waiting: [cv, t: task, c: its clock, due: must be woken]
     bad |-> "ok"]

(* exact tempo arithmetic; Div flags non-representable results so that they surface as machinery errors *)
Exact(n, d) == (n % d) = 0
B2S(m, b) == ((b - m.bb) * m.den) \div m.num + m.bs
S2B(m, s) == ((s - m.bs) * m.num) \div m.den + m.bb
B2SExact(m, b) == Exact((b - m.bb) * m.den, m.num)
S2BExact(m, s) == Exact((s - m.bs) * m.num, m.den)

TimeSecs(st, c, p) == IF IsTempo(c) THEN B2S(st.map[c], p) ELSE p
HeadSecs(st, c) == TimeSecs(st, c, st.pend[c][1].p)

ClockOf(st, th) == Get(st.th2c, th, "")

NoMissedHead(st, now) ==
    \A c \in DOMAIN st.blk :
        LET b == st.blk[c] IN
        (b.w /\ ~b.nt /\ DOMAIN st.infl = {} /\ c \in DOMAIN st.pend /\ st.pend[c] # <<>>)
            => (b.dl # 0 - 1 /\ (b.dl <= HeadSecs(st, c) \/ b.dl <= now))   \* a deadline already reached is no sleep

(* ---- effect of an API call at its linearization point ---- *)
LinClock(st, th, call, now) ==
    LET c == call.clock
        base == IF call.inner /\ c # "app" THEN Get(st.cur, th, NoCur).lt ELSE now
    IN
    IF c \in st.stopped THEN st ELSE       \* a stopped clock refuses (ClockNotRunning)
    IF call.api \in {"sched", "sched_abs"} /\ call.arg >= Never THEN st ELSE   \* an infinite delay schedules nothing
    CASE call.api = "sched" ->
            LET time == IF IsTempo(c) THEN S2B(st.map[c], base) + call.arg ELSE base + call.arg
                q == Insert(Without(st.pend[c], call.task), [p |-> time, s |-> st.ctr, t |-> call.task])
            IN [st EXCEPT !.pend = Put(st.pend, c, q), !.ctr = st.ctr + 1,
                          !.bad = IF IsTempo(c) /\ ~S2BExact(st.map[c], base) THEN "nondyadic" ELSE st.bad]
      [] call.api = "sched_abs" ->
            LET q == Insert(Without(st.pend[c], call.task), [p |-> call.arg, s |-> st.ctr, t |-> call.task])
            IN [st EXCEPT !.pend = Put(st.pend, c, q), !.ctr = st.ctr + 1]
      [] call.api = "clear" -> [st EXCEPT !.pend = Put(st.pend, c, <<>>)]
      [] call.api = "stop" -> [st EXCEPT !.stopping = st.stopping \cup {c}]
      [] call.api = "tempo" ->
            LET m == st.map[c]
                beats == S2B(m, base)
            IN [st EXCEPT !.map = Put(st.map, c, [num |-> call.arg, den |-> call.arg2, bs |-> base, bb |-> beats]),
                          !.bad = IF ~S2BExact(m, base) THEN "nondyadic" ELSE st.bad]
      [] OTHER -> st

RECURSIVE WakeAll(_, _, _, _, _)
WakeAll(st, th, ps, inner, now) ==
    IF ps = <<>> THEN st
    ELSE LET p == Head(ps)
             s1 == LinClock(st, th, [NoCall EXCEPT !.api = "sched", !.clock = p.c, !.task = p.t, !.inner = inner], now)
         IN WakeAll(s1, th, Tail(ps), inner, now)

Lin(st, th, call, now) ==
    IF call.api \notin CondApis THEN LinClock(st, th, call, now)
    ELSE LET cv == call.cv
             s0 == IF call.api = "fset" THEN [st EXCEPT !.fmust = st.fmust \cup {cv}] ELSE st   \* value stored before signal()
             fire == call.api = "unhang" \/ cv \in s0.fmust
             Mine(p) == p.cv = cv
             Others(p) == p.cv # cv
         IN IF ~fire THEN s0
            ELSE WakeAll([s0 EXCEPT !.parked = SelectSeq(s0.parked, Others)], th, SelectSeq(s0.parked, Mine), call.inner, now)

Step(st, e) ==
    LET th == e.th
        c == e.clock
        R0(s, w) == [st |-> s, why |-> w]
        Chk(s) == IF s.bad # "ok" THEN R0(s, s.bad)
                  ELSE IF ~NoMissedHead(s, e.now) THEN R0(s, "missed-head") ELSE R0(s, "ok")
    IN
    CASE e.op = "mkclock" ->
            Chk([st EXCEPT !.map = Put(st.map, c, [num |-> e.num, den |-> e.den, bs |-> e.now, bb |-> 0]),
                           !.pend = Put(st.pend, c, <<>>)])
      [] e.op = "call" ->
            LET call == [api |-> e.api, clock |-> c, task |-> e.task, arg |-> e.arg, arg2 |-> e.arg2,
                         inner |-> e.inner, lin |-> FALSE, cv |-> e.cv]
                \* inside a task the main lock is already held: the call takes effect at once
                now == e.inner \/ e.api = "stop"       \* stop() only starts the stopping thread
                \* what the invocation of a signalling call owes: whoever is parked now (unhang), whoever is or gets
                \* parked on a condition that already holds (signal), a flow variable that is being bound (fset)
                owes == e.api = "unhang" \/ (e.api = "signal" /\ e.cv \in st.fmust) \/ e.api = "fset"
                sc == IF e.api \notin CondApis THEN st
                      ELSE [st EXCEPT !.fmay = IF e.api = "fset" THEN st.fmay \cup {e.cv} ELSE st.fmay,
                                      !.sigok = IF owes /\ e.api # "unhang" THEN st.sigok \cup {e.cv} ELSE st.sigok,
                                      !.parked = [i \in 1..Len(st.parked) |->
                                                     IF owes /\ st.parked[i].cv = e.cv THEN [st.parked[i] EXCEPT !.due = TRUE]
                                                     ELSE st.parked[i]]]
                s1 == IF now THEN Lin(sc, th, call, e.now) ELSE sc
            IN Chk([s1 EXCEPT !.infl = Put(s1.infl, th, [call EXCEPT !.lin = now])])
      [] e.op = "cset" ->
            Chk([st EXCEPT !.fmay = st.fmay \cup {e.cv}, !.fmust = st.fmust \cup {e.cv}])
      [] e.op = "acq" ->
            LET call == Get(st.infl, th, NoCall) IN
            IF e.lock = "Lmain" /\ ~call.lin
            THEN LET s1 == Lin(st, th, call, e.now) IN
                 Chk([s1 EXCEPT !.infl = Put(s1.infl, th, [call EXCEPT !.lin = TRUE])])
            ELSE R0(st, "ok")
      [] e.op = "ret" ->
            Chk([st EXCEPT !.infl = [x \in DOMAIN st.infl \ {th} |-> st.infl[x]]])
      [] e.op = "wait" ->
            LET ck == ClockOf(st, th) IN
            IF ck = "" THEN R0(st, "ok")
            ELSE Chk([st EXCEPT !.blk = Put(st.blk, ck, [w |-> TRUE, dl |-> e.deadline, nt |-> FALSE])])
      [] e.op = "wake" ->
            LET ck == ClockOf(st, th) IN
            IF ck = "" THEN R0(st, "ok") ELSE R0([st EXCEPT !.blk = Put(st.blk, ck, NoBlk)], "ok")
      [] e.op = "notify" ->
            LET hit == {ClockOf(st, e.woken[i]) : i \in 1..Len(e.woken)} \ {""} IN
            Chk([st EXCEPT !.blk = [k \in DOMAIN st.blk |->
                                        IF k \in hit THEN [st.blk[k] EXCEPT !.nt = TRUE] ELSE st.blk[k]]])
      [] e.op = "task_begin" ->
            LET q == st.pend[c]
                ix == {i \in 1..Len(q) : q[i].t = e.task}
            IN
            IF ClockOf(st, th) # c THEN R0(st, "wrong-thread")
            ELSE IF ix = {} THEN R0(st, "wake-not-pending")
            ELSE LET i == CHOOSE i \in ix : TRUE
                     en == q[i]
                     tsec == TimeSecs(st, c, en.p)
                     s1 == [st EXCEPT !.pend = Put(st.pend, c, Without(q, e.task)),
                                      !.cur = Put(st.cur, th, [clock |-> c, task |-> e.task, time |-> en.p,
                                                               lt |-> e.lt, on |-> TRUE, fm |-> st.fmust])]
                 IN
                 IF IsTempo(c) /\ ~B2SExact(st.map[c], en.p) THEN R0(st, "nondyadic")
                 ELSE IF i # 1 THEN R0(s1, "order")
                 ELSE IF e.now < tsec THEN R0(s1, "early")
                 ELSE IF e.lt # tsec THEN R0(s1, "logical-time")
                 ELSE IF IsTempo(c) /\ e.lb # en.p THEN R0(s1, "logical-time")
                 ELSE Chk(s1)
      [] e.op = "task_end" ->
            LET k == Get(st.cur, th, NoCur)
                cc == k.clock
                s0 == [st EXCEPT !.cur = [x \in DOMAIN st.cur \ {th} |-> st.cur[x]]]
            IN
            IF ~k.on THEN R0(st, "end-without-begin")
            ELSE IF e.res = "park" THEN
                 IF e.cv \in k.fm THEN R0(s0, "parked-though-true")
                 ELSE Chk([s0 EXCEPT !.parked = Append(s0.parked, [cv |-> e.cv, t |-> k.task, c |-> cc, due |-> FALSE])])
            ELSE IF e.res = "pass" /\ e.cv \notin st.fmay THEN R0(s0, "resumed-before-condition")
            ELSE IF e.res \in {"ret", "pass"} /\ cc \in DOMAIN st.pend /\ cc \notin st.stopped
            THEN LET time == IF cc = "app" THEN e.now + e.val ELSE k.time + e.val   \* AppClock drifts (documented)
                     q == Insert(Without(st.pend[cc], k.task), [p |-> time, s |-> st.ctr, t |-> k.task])
                 IN Chk([s0 EXCEPT !.pend = Put(s0.pend, cc, q), !.ctr = st.ctr + 1])
            ELSE Chk(s0)
      [] e.op = "end" ->
            \* e.arg = horizon: everything scheduled at or before it must have been awakened
            IF \E cc \in DOMAIN st.pend \ st.stopping : \E i \in 1..Len(st.pend[cc]) : TimeSecs(st, cc, st.pend[cc][i].p) <= e.arg
            THEN R0(st, "missed")
            ELSE IF \E i \in 1..Len(e.dead) : e.dead[i] \notin st.stopped THEN R0(st, "clock-died")
            ELSE IF ~e.users_done THEN R0(st, "stuck")
            ELSE IF \E i \in 1..Len(st.parked) : st.parked[i].due \/ st.parked[i].cv \in st.sigok THEN R0(st, "lost-wakeup")
            ELSE Chk(st)
      [] e.op = "exit" ->
            \* a clock thread ends only because its clock was stopped; then everything pending is cancelled
            LET ck == ClockOf(st, th) IN
            IF ck = "" THEN R0(st, "ok")
            ELSE IF ck \notin st.stopping THEN R0(st, "clock-died")
            ELSE R0([st EXCEPT !.pend = Put(st.pend, ck, <<>>), !.stopped = st.stopped \cup {ck},
                               !.blk = Put(st.blk, ck, NoBlk)], "ok")
      [] e.op = "abort" -> R0(st, "stuck")
      [] OTHER -> R0(st, "ok")
=============================================================================
