------------------------------ MODULE ClockL1 ------------------------------
(* L1 for C08: what real-time clocks owe their users, as a monitor over the events of an execution.

   The monitor state is the abstract clock state: per clock the pending schedulings (a stable
   time-ordered queue, QueueOps), the tempo map of tempo clocks, what each clock thread is blocked on,
   which API calls are in flight, and the logical time of the task currently awake on each thread.
   Step(st, e) consumes one event and returns [st, why]; why = "ok" or the name of the violated clause:

     wake-not-pending   a task ran that is not pending (ran twice, ran after clear/stop, never scheduled)
     order              a task ran while an earlier (time, scheduling order) one was still pending
     early              a task ran before its scheduled time (physical now < scheduled)
     logical-time       the logical time seen by the task is not exactly its scheduled time
     missed-head        with no call in flight, a clock thread sleeps un-notified although the queue is
                        non-empty and it has no deadline, or its deadline is later than the head's time
     missed             at the end of the run a scheduling whose time has long passed was never awakened
     clock-died         a clock thread is no longer serving after a task raised
     stuck              deadlock / a call that never returned
   stop(): a tempo clock whose stop() was called keeps serving until its thread ends; from then on nothing of
   it may wake.  Incoming OSC datagrams are scheduling calls made by the receive thread (sched(0, dispatch)).

   Events come from the controlled scheduler (acq/rel/wait/wake/notify/tick) and from the driver's task
   wrappers (call/ret/task_begin/task_end/mkclock/end).  Times are integers in units of 1/1024 (s or beat). *)
EXTENDS Naturals, Integers, Sequences, FiniteSets, TLC, QueueOps

Never == 1073741824      \* how the drivers write float('inf')
NoCall == [api |-> "", clock |-> "", task |-> "", arg |-> 0, arg2 |-> 1, inner |-> FALSE, lin |-> TRUE]
NoCur == [clock |-> "", task |-> "", time |-> 0, lt |-> 0, on |-> FALSE]
NoBlk == [w |-> FALSE, dl |-> 0 - 1, nt |-> FALSE]

Empty == [x \in {} |-> 0]
Get(f, k, dflt) == IF k \in DOMAIN f THEN f[k] ELSE dflt
Put(f, k, v) == (k :> v) @@ f

IsTempo(c) == c \notin {"sys", "app"}

Init0(clockthread) ==
    [pend |-> [c \in {"sys", "app"} |-> <<>>],     \* clock -> queue of [p: time, s: stamp, t: task]
     ctr |-> 0,
     map |-> Empty,                                 \* tempo clock -> [num, den, bs, bb]
     infl |-> Empty,                                \* thread -> call in flight
     cur |-> Empty,                                 \* thread -> task awake on it
     blk |-> Empty,                                 \* clock -> what its thread is blocked on
     th2c |-> clockthread,                          \* thread name -> clock name (function)
     stopping |-> {},                               \* tempo clocks whose stop() has been called
     stopped |-> {},                                \* ... and whose thread has ended (everything cancelled)
     bad |-> "ok"]

(* exact tempo arithmetic; Div flags non-representable results so that they surface as machinery errors *)
Exact(n, d) == (n % d) = 0
B2S(m, b) == ((b - m.bb) * m.den) \div m.num + m.bs
S2B(m, s) == ((s - m.bs) * m.num) \div m.den + m.bb
B2SExact(m, b) == Exact((b - m.bb) * m.den, m.num)
S2BExact(m, s) == Exact((s - m.bs) * m.num, m.den)

TimeSecs(st, c, p) == IF IsTempo(c) THEN B2S(st.map[c], p) ELSE p
HeadSecs(st, c) == TimeSecs(st, c, st.pend[c][1].p)

ClockOf(st, th) == Get(st.th2c, th, "")

NoMissedHead(st, now) ==
    \A c \in DOMAIN st.blk :
        LET b == st.blk[c] IN
        (b.w /\ ~b.nt /\ DOMAIN st.infl = {} /\ c \in DOMAIN st.pend /\ st.pend[c] # <<>>)
            => (b.dl # 0 - 1 /\ (b.dl <= HeadSecs(st, c) \/ b.dl <= now))   \* a deadline already reached is no sleep

(* ---- effect of an API call at its linearization point ---- *)
Lin(st, th, call, now) ==
    LET c == call.clock
        base == IF call.inner /\ c # "app" THEN Get(st.cur, th, NoCur).lt ELSE now
    IN
    IF c \in st.stopped THEN st ELSE       \* a stopped clock refuses (ClockNotRunning)
    IF call.api \in {"sched", "sched_abs"} /\ call.arg >= Never THEN st ELSE   \* an infinite delay schedules nothing
    CASE call.api = "sched" ->
            LET time == IF IsTempo(c) THEN S2B(st.map[c], base) + call.arg ELSE base + call.arg
                q == Insert(Without(st.pend[c], call.task), [p |-> time, s |-> st.ctr, t |-> call.task])
            IN [st EXCEPT !.pend = Put(st.pend, c, q), !.ctr = st.ctr + 1,
                          !.bad = IF IsTempo(c) /\ ~S2BExact(st.map[c], base) THEN "nondyadic" ELSE st.bad]
      [] call.api = "sched_abs" ->
            LET q == Insert(Without(st.pend[c], call.task), [p |-> call.arg, s |-> st.ctr, t |-> call.task])
            IN [st EXCEPT !.pend = Put(st.pend, c, q), !.ctr = st.ctr + 1]
      [] call.api = "clear" -> [st EXCEPT !.pend = Put(st.pend, c, <<>>)]
      [] call.api = "stop" -> [st EXCEPT !.stopping = st.stopping \cup {c}]
      [] call.api = "tempo" ->
            LET m == st.map[c]
                beats == S2B(m, base)
            IN [st EXCEPT !.map = Put(st.map, c, [num |-> call.arg, den |-> call.arg2, bs |-> base, bb |-> beats]),
                          !.bad = IF ~S2BExact(m, base) THEN "nondyadic" ELSE st.bad]
      [] OTHER -> st

Step(st, e) ==
    LET th == e.th
        c == e.clock
        R0(s, w) == [st |-> s, why |-> w]
        Chk(s) == IF s.bad # "ok" THEN R0(s, s.bad)
                  ELSE IF ~NoMissedHead(s, e.now) THEN R0(s, "missed-head") ELSE R0(s, "ok")
    IN
    CASE e.op = "mkclock" ->
            Chk([st EXCEPT !.map = Put(st.map, c, [num |-> e.num, den |-> e.den, bs |-> e.now, bb |-> 0]),
                           !.pend = Put(st.pend, c, <<>>)])
      [] e.op = "call" ->
            LET call == [api |-> e.api, clock |-> c, task |-> e.task, arg |-> e.arg, arg2 |-> e.arg2,
                         inner |-> e.inner, lin |-> FALSE]
                \* inside a task the main lock is already held: the call takes effect at once
                now == e.inner \/ e.api = "stop"       \* stop() only starts the stopping thread
                s1 == IF now THEN Lin(st, th, call, e.now) ELSE st
            IN Chk([s1 EXCEPT !.infl = Put(s1.infl, th, [call EXCEPT !.lin = now])])
      [] e.op = "acq" ->
            LET call == Get(st.infl, th, NoCall) IN
            IF e.lock = "Lmain" /\ ~call.lin
            THEN LET s1 == Lin(st, th, call, e.now) IN
                 Chk([s1 EXCEPT !.infl = Put(s1.infl, th, [call EXCEPT !.lin = TRUE])])
            ELSE R0(st, "ok")
      [] e.op = "ret" ->
            Chk([st EXCEPT !.infl = [x \in DOMAIN st.infl \ {th} |-> st.infl[x]]])
      [] e.op = "wait" ->
            LET ck == ClockOf(st, th) IN
            IF ck = "" THEN R0(st, "ok")
            ELSE Chk([st EXCEPT !.blk = Put(st.blk, ck, [w |-> TRUE, dl |-> e.deadline, nt |-> FALSE])])
      [] e.op = "wake" ->
            LET ck == ClockOf(st, th) IN
            IF ck = "" THEN R0(st, "ok") ELSE R0([st EXCEPT !.blk = Put(st.blk, ck, NoBlk)], "ok")
      [] e.op = "notify" ->
            LET hit == {ClockOf(st, e.woken[i]) : i \in 1..Len(e.woken)} \ {""} IN
            Chk([st EXCEPT !.blk = [k \in DOMAIN st.blk |->
                                        IF k \in hit THEN [st.blk[k] EXCEPT !.nt = TRUE] ELSE st.blk[k]]])
      [] e.op = "task_begin" ->
            LET q == st.pend[c]
                ix == {i \in 1..Len(q) : q[i].t = e.task}
            IN
            IF ClockOf(st, th) # c THEN R0(st, "wrong-thread")
            ELSE IF ix = {} THEN R0(st, "wake-not-pending")
            ELSE LET i == CHOOSE i \in ix : TRUE
                     en == q[i]
                     tsec == TimeSecs(st, c, en.p)
                     s1 == [st EXCEPT !.pend = Put(st.pend, c, Without(q, e.task)),
                                      !.cur = Put(st.cur, th, [clock |-> c, task |-> e.task, time |-> en.p,
                                                               lt |-> e.lt, on |-> TRUE])]
                 IN
                 IF IsTempo(c) /\ ~B2SExact(st.map[c], en.p) THEN R0(st, "nondyadic")
                 ELSE IF i # 1 THEN R0(s1, "order")
                 ELSE IF e.now < tsec THEN R0(s1, "early")
                 ELSE IF e.lt # tsec THEN R0(s1, "logical-time")
                 ELSE IF IsTempo(c) /\ e.lb # en.p THEN R0(s1, "logical-time")
                 ELSE Chk(s1)
      [] e.op = "task_end" ->
            LET k == Get(st.cur, th, NoCur)
                cc == k.clock
                s0 == [st EXCEPT !.cur = [x \in DOMAIN st.cur \ {th} |-> st.cur[x]]]
            IN
            IF ~k.on THEN R0(st, "end-without-begin")
            ELSE IF e.res = "ret" /\ cc \in DOMAIN st.pend /\ cc \notin st.stopped
            THEN LET time == IF cc = "app" THEN e.now + e.val ELSE k.time + e.val   \* AppClock drifts (documented)
                     q == Insert(Without(st.pend[cc], k.task), [p |-> time, s |-> st.ctr, t |-> k.task])
                 IN Chk([s0 EXCEPT !.pend = Put(s0.pend, cc, q), !.ctr = st.ctr + 1])
            ELSE Chk(s0)
      [] e.op = "end" ->
            \* e.arg = horizon: everything scheduled at or before it must have been awakened
            IF \E cc \in DOMAIN st.pend \ st.stopping : \E i \in 1..Len(st.pend[cc]) : TimeSecs(st, cc, st.pend[cc][i].p) <= e.arg
            THEN R0(st, "missed")
            ELSE IF \E i \in 1..Len(e.dead) : e.dead[i] \notin st.stopped THEN R0(st, "clock-died")
            ELSE IF ~e.users_done THEN R0(st, "stuck")
            ELSE Chk(st)
      [] e.op = "exit" ->
            \* a clock thread ends only because its clock was stopped; then everything pending is cancelled
            LET ck == ClockOf(st, th) IN
            IF ck = "" THEN R0(st, "ok")
            ELSE IF ck \notin st.stopping THEN R0(st, "clock-died")
            ELSE R0([st EXCEPT !.pend = Put(st.pend, ck, <<>>), !.stopped = st.stopped \cup {ck},
                               !.blk = Put(st.blk, ck, NoBlk)], "ok")
      [] e.op = "abort" -> R0(st, "stuck")
      [] OTHER -> R0(st, "ok")
=============================================================================
