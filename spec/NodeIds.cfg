SPECIFICATION Spec
CONSTANTS
  M = 8
  Inits = {2, 5, 7}
  Clients = {0, 1, 3}
  MaxLen = 14
CONSTRAINT Bound
INVARIANT InvRange
INVARIANT InvDistinct
INVARIANT InvL1Step
INVARIANT InvWindowTight
INVARIANT ClientsApart
