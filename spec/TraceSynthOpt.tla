--------------------------- MODULE TraceSynthOpt ---------------------------
(* L2 binding for C01: the definition PREDICTED by the transcription of the builder and optimiser
   (SynthOpt.tla) is compared with the definition the library really emitted (decoded bytes).
   Equal = the model is the code on this program, so the model-checked statement "every rewrite
   preserves the denotation" is a statement about the code.  Different = model drift: reported
   as such by the check, never as a violation of C01 (the L1 verdict is TraceSynthGraph's).    *)
EXTENDS SynthOpt
Traces == JsonDeserialize(IOEnv.VERIF_TRACES)
VARIABLES tid, l
tvars == <<sl, prog, done, acts, tid, l>>
TInit == tid \in 1..Len(Traces) /\ l = 1 /\ sl = "" /\ prog = 0 /\ done = FALSE /\ acts = {}
UnitEq(a, b) == a.c = b.c /\ a.r = b.r /\ a.sp = b.sp /\ a.ins = b.ins /\ a.outs = b.outs
Why(t) ==
    IF t.raised = 1 \/ ~Modelled(t.prog) \/ ~MustCompile(t.prog) \/ t.parsed.ok # 1 \/ Len(t.parsed.defs) # 1 THEN "ok"
    ELSE LET d == t.parsed.defs[1]
             q == Predicted(t.prog) IN
         IF Len(d.units) # Len(q.units) THEN "drift:unit-count"
         ELSE IF \E k \in 1..Len(d.units) : ~UnitEq(d.units[k], q.units[k])
              THEN "drift:unit:" \o q.units[CHOOSE k \in 1..Len(d.units) : ~UnitEq(d.units[k], q.units[k])].c
         ELSE IF [i \in 1..Len(d.consts) |-> d.consts[i].v] # [i \in 1..Len(q.consts) |-> q.consts[i].v] THEN "drift:constants"
         ELSE IF [i \in 1..Len(d.ctl) |-> d.ctl[i].v] # [i \in 1..Len(q.ctl) |-> q.ctl[i].v] THEN "drift:control-defaults"
         ELSE IF {<<d.names[i].n, d.names[i].i>> : i \in 1..Len(d.names)} # {<<q.names[i].n, q.names[i].i>> : i \in 1..Len(q.names)}
              THEN "drift:control-names"
         ELSE "ok"
Step == /\ l = 1
        /\ LET why == Why(Traces[tid]) IN
           IF why = "ok" THEN PrintT(<<"ACC", Traces[tid].id>>) /\ l' = 0 - 1
           ELSE PrintT(<<"REJ", Traces[tid].id, 1, why>>) /\ l' = 0
        /\ UNCHANGED <<tid, sl, prog, done, acts>>
TNext == Step
TSpec == TInit /\ [][TNext]_tvars
=============================================================================
