------------------------------ MODULE Routine ------------------------------
(* C11: routines, conditions and flow variables obey their state machine.

   The specification is an interpreter of the public API of sc3's Routine / Condition / FlowVar
   over routines whose bodies are *scripts* (sequences of instructions).  Every public call is
   one operator  Api(st, op, t, v, inval) |-> [st, res]  that is atomic (the library runs it under
   the main lock) and recursive: a body instruction may call the API again (nested next, stop of
   another routine, signal ...).  The same operators drive the bounded design model (Next below)
   and decide every execution recorded from the real classes (TraceRoutine.tla).

   prog[r] = [plain (1: ordinary function body), inv (1: the function takes inval), code]
   instr   = [op, t (target), v (value), c (1: the body catches an exception of this API call)]
     yn v (yield the number v/8) | yv v (yield a string) | ret | yar v (raise YieldAndReset)
     raise v (fail with an exception of class ExcClass(v): an Exception subclass, a user class deriving from
     BaseException only, KeyboardInterrupt, SystemExit, GeneratorExit - the failure rule does not depend on it)
     alw v (raise AlwaysYield) | next|stop|pause|resume|reset|play t | wait c | signal|unhang c
     settest c v (value or callable test, see TestRes) | fget f | fset f v | embed t (yield from t.__embed__(): yield every value of t until
     it raises StopStream, passing the received invals on)
     try ... except ... endx (catch-all handler: except BaseException) | try ... finally ... endf (nestable;
     any instruction, yields included, may stand in the protected part and in the handlers)
   st = [rs    : routine -> [state, pc, term]      (pc = 1 <=> no live generator)
         stack : <<"main", r, r', ...>>            (current time thread = last element)
         secs  : thread -> logical seconds (eighths)
         cond  : condition / flow variable -> [test, w (waiting threads)]
         flow  : flow variable -> value
         q     : clock queue <<[t, r], ...>> ordered by time, FIFO among equals
         log   : what the bodies observed during the current external call
         calls : every API call made during the current external call (for the L1 predicates)
         ab, over : generators abandoned during the current external call / bound MaxAbandon exceeded]

   Documented semantics transcribed here (stream.py docstrings + sclang): next() runs to the next
   yield; return / exhaustion, failure and stop() -> Done (StopStream afterwards, or the terminal
   value recorded by AlwaysYield); YieldAndReset -> Init; pause/resume; stop/pause/reset of a
   Running routine are refused; next() of a Running routine cannot run it and is refused too
   (exception class not pinned: "*"); reset() returns the routine to its initial state; the
   current thread and its logical time are restored when next() exits; Condition.wait parks the
   thread player until signal (with a true test) / unhang reschedule it.                      *)
EXTENDS Naturals, Integers, Sequences, FiniteSets, TLC

CONSTANT QMode      \* "keyed": scheduling a task that is already queued replaces its entry (RT TaskQueue)
                    \* "multi": every scheduling adds an entry (what NRT's ClockTask does)
VARIABLES prog, st

V(x, v) == [x |-> x, v |-> v]
NoneV == V("none", 0)
NoTerm == V("noterm", 0)
Unbound == V("unbound", 0)
Ret(val) == [k |-> "ret", x |-> val.x, v |-> val.v]
Exc(cls) == [k |-> "exc", x |-> cls, v |-> 0]
Out(k, x, val) == [k |-> k, x |-> x, v |-> val]
\* the kinds of exception a body may fail with
ExcClass(v) == CASE v = 1 -> "BaseBoom" [] v = 2 -> "KeyboardInterrupt" [] v = 3 -> "SystemExit" [] v = 4 -> "GeneratorExit"
                 [] OTHER -> "Boom"
NotAnException(cls) == cls \in {"BaseBoom", "KeyboardInterrupt", "SystemExit", "GeneratorExit"}   \* BaseException only
RS(state, pc, term) == [state |-> state, pc |-> pc, term |-> term, mid |-> FALSE, pend |-> <<>>]
    \* mid: suspended inside an embed loop; pend: pending actions of the finally blocks being executed
    \* (pc = 1 /\ ~mid) <=> the routine has no live generator

Cur(s) == s.stack[Len(s.stack)]
Now(s) == s.secs[Cur(s)]
IsFlow(s, c) == c \in DOMAIN s.flow
\* Condition.test is a value or a callable evaluated at every wait() / signal().  settest c v installs:
\*   0 False | 1 True | 2 a callable returning False | 3 a callable returning True | 4 a callable that raises TypeError
\*   inside (len(None)) | 5 a callable that raises ValueError | 6 a callable of the wrong arity (TypeError when called)
\* TestRes = "T" / "F" / the class of the exception the evaluation raises (it propagates, nothing else happens)
TestRes(s, c) ==
    IF IsFlow(s, c) THEN (IF s.flow[c] # Unbound THEN "T" ELSE "F")
    ELSE LET v == s.cond[c].test IN
         CASE v \in {1, 3} -> "T" [] v \in {4, 6} -> "TypeError" [] v = 5 -> "ValueError" [] OTHER -> "F"
TestOf(s, c) == TestRes(s, c) = "T"
TestRaises(s, c) == TestRes(s, c) \notin {"T", "F"}

\* fm: the entry was written by clean-up code of an abandoned generator (it does not run inside next())
AddLogM(s, r, pc, ev, res, fm) ==
    [s EXCEPT !.log = Append(@, [r |-> r, pc |-> pc, ev |-> ev, k |-> res.k, x |-> res.x, v |-> res.v,
                                 cur |-> Cur(s), secs |-> Now(s), fm |-> fm])]
AddLog(s, r, pc, ev, res) == AddLogM(s, r, pc, ev, res, FALSE)

Insert(q, e) == LET k == Cardinality({i \in 1..Len(q) : q[i].t <= e.t})
                IN SubSeq(q, 1, k) \o <<e>> \o SubSeq(q, k + 1, Len(q))
Schedule(s, t, r) ==
    LET q0 == IF QMode = "keyed" THEN SelectSeq(s.q, LAMBDA e : e.r # r) ELSE s.q
    IN [s EXCEPT !.q = Insert(q0, [t |-> t, r |-> r])]
RECURSIVE ScheduleAll(_, _, _)
ScheduleAll(s, t, w) == IF w = <<>> THEN s ELSE ScheduleAll(Schedule(s, t, Head(w)), t, Tail(w))

R2(s, res) == [st |-> s, res |-> res]

(* ---- block structure of a script:  try ... (except | finally) ... (endx | endf) ----
   `except` is a catch-all handler (except BaseException); blocks nest. *)
RECURSIVE ScanHandler(_, _, _), ScanEnd(_, _, _)
ScanHandler(code, j, d) ==
    IF j > Len(code) THEN 0
    ELSE IF code[j].op = "try" THEN ScanHandler(code, j + 1, d + 1)
    ELSE IF code[j].op \in {"endx", "endf"} THEN ScanHandler(code, j + 1, d - 1)
    ELSE IF code[j].op \in {"except", "finally"} /\ d = 0 THEN j
    ELSE ScanHandler(code, j + 1, d)
HandlerOf(code, t) == ScanHandler(code, t + 1, 0)          \* marker of the handler of the try at t
ScanEnd(code, j, d) ==
    IF j > Len(code) THEN 0
    ELSE IF code[j].op = "try" THEN ScanEnd(code, j + 1, d + 1)
    ELSE IF code[j].op \in {"endx", "endf"} THEN (IF d = 0 THEN j ELSE ScanEnd(code, j + 1, d - 1))
    ELSE ScanEnd(code, j + 1, d)
EndOf(code, h) == ScanEnd(code, h + 1, 0)                  \* end of the handler that starts at marker h
\* try statements whose protected region contains position i and whose handler takes the action
\* (a return passes except handlers, everything else is caught by the catch-all)
Protecting(code, i, act) ==
    {t \in 1..Len(code) : /\ code[t].op = "try" /\ t < i /\ i < HandlerOf(code, t)
                          /\ (act.k = "ret" => code[HandlerOf(code, t)].op = "finally")}
Innermost(S) == IF S = {} THEN 0 ELSE CHOOSE t \in S : \A u \in S : u <= t
\* finally handlers that contain i and lie inside the try at t: leaving them drops their pending action
DroppedPend(code, i, t) ==
    Cardinality({h \in 1..Len(code) : code[h].op = "finally" /\ h < i /\ i < EndOf(code, h) /\ h > t})

(* ---- what next() does with the way the body ended ---- *)
Finish(s, r, p, out) ==
    IF out.k = "yield" THEN R2([s EXCEPT !.rs[r].state = "Suspended"], Ret(out.v))
    ELSE IF out.k = "ret" THEN
        IF p.plain = 1      \* ordinary functions are "infinite None streams": AlwaysYield(None)
        THEN R2([s EXCEPT !.rs[r] = RS("Done", 1, NoneV)], Ret(NoneV))
        ELSE R2([s EXCEPT !.rs[r] = RS("Done", 1, @.term)], Exc("StopStream"))
    ELSE \* raise; PEP 479: a StopIteration subclass leaving a generator body becomes RuntimeError
        LET cls == IF p.plain = 0 /\ out.x \in {"StopStream", "PausedStream"} THEN "RuntimeError" ELSE out.x IN
        IF cls = "YieldAndReset" THEN R2([s EXCEPT !.rs[r] = RS("Init", 1, @.term)], Ret(out.v))
        ELSE IF cls = "AlwaysYield" THEN R2([s EXCEPT !.rs[r] = RS("Done", 1, out.v)], Ret(out.v))
        ELSE R2([s EXCEPT !.rs[r] = RS("Done", 1, @.term)], Exc(cls))

RECURSIVE DoNext(_, _, _), RunBody(_, _, _, _, _, _, _), Throw(_, _, _, _, _, _, _), Api(_, _, _, _, _)

DoNext(s, r, inval) ==
    LET R == s.rs[r] IN
    IF R.state = "Paused" THEN R2(s, Exc("PausedStream"))
    ELSE IF R.state = "Done" THEN R2(s, IF R.term = NoTerm THEN Exc("StopStream") ELSE Ret(R.term))
    ELSE IF R.state = "Running" THEN R2(s, Exc("*"))          \* re-entrant: refused, nothing changes
    ELSE
      LET p == prog[r]
          s1 == [s EXCEPT !.stack = Append(@, r), !.secs[r] = Now(s), !.rs[r].state = "Running"]
          s2 == IF R.mid THEN s1          \* resumed inside Stream.__embed__: the body itself observes nothing
                ELSE IF R.pc = 1 THEN AddLog(s1, r, 1, "start", Ret(IF p.inv = 1 THEN inval ELSE V("noarg", 0)))
                ELSE LET prev == p.code[R.pc - 1] IN
                     IF prev.op = "fget" THEN AddLog(s1, r, R.pc, "fval", Ret(s1.flow[prev.t]))
                     ELSE AddLog(s1, r, R.pc, "resume", Ret(IF prev.op = "wait" THEN NoneV ELSE inval))
          b == RunBody(s2, r, R.pc, R.pend, inval, R.mid, "run")
          f == Finish(b.st, r, p, b.out)
      IN R2([f.st EXCEPT !.stack = SubSeq(@, 1, Len(@) - 1)], f.res)

(* The body of r executes from instruction i with the pending-action stack pd.
   iv: value the body was resumed with; res: resuming inside the embed loop at i;
   mode "run": inside next() - a yield suspends the generator (pc, pend, mid are saved in rs[r]);
   mode "fin": clean-up code of an abandoned generator (GeneratorExit was thrown at its yield) - it runs
   outside next(), with the caller as current thread; a yield ends it (the generator "ignored GeneratorExit"
   and is discarded), whatever leaves the body is ignored.                                               *)
Suspend(s, r, pc, pd, mid, val) ==
    [st |-> [s EXCEPT !.rs[r].pc = pc, !.rs[r].pend = pd, !.rs[r].mid = mid], out |-> Out("yield", "", val)]
Ignored(s) == [st |-> s, out |-> Out("ignored", "", NoneV)]

Throw(s, r, i, pd, act, iv, mode) ==      \* act (return / raise) happens at position i
    LET code == prog[r].code
        t == Innermost(Protecting(code, i, act))
        nd == DroppedPend(code, i, t)
        pd1 == SubSeq(pd, 1, Len(pd) - nd) IN
    IF t = 0 THEN [st |-> s, out |-> act]                       \* leaves the body
    ELSE LET h == HandlerOf(code, t) IN
         IF code[h].op = "except"
         THEN RunBody(AddLogM(s, r, h, "caught", Exc(act.x), mode = "fin"), r, h + 1, pd1, iv, FALSE, mode)
         ELSE RunBody(AddLogM(s, r, h, "fin", Ret(NoneV), mode = "fin"), r, h + 1, Append(pd1, act), iv, FALSE, mode)

RunBody(s, r, i, pd, iv, res, mode) ==
    LET code == prog[r].code
        fm == (mode = "fin") IN
    IF i > Len(code) THEN [st |-> s, out |-> Out("ret", "", NoneV)]
    ELSE LET ins == code[i] IN
      CASE ins.op = "yn" -> IF fm THEN Ignored(s) ELSE Suspend(s, r, i + 1, pd, FALSE, V("num", ins.v))
        [] ins.op = "yv" -> IF fm THEN Ignored(s) ELSE Suspend(s, r, i + 1, pd, FALSE, V("str", ins.v))
        [] ins.op = "ret" -> Throw(s, r, i, pd, Out("ret", "", NoneV), iv, mode)
        [] ins.op = "raise" -> Throw(s, r, i, pd, Out("raise", ExcClass(ins.v), NoneV), iv, mode)
        [] ins.op = "yar" -> Throw(s, r, i, pd, Out("raise", "YieldAndReset", V("num", ins.v)), iv, mode)
        [] ins.op = "alw" -> Throw(s, r, i, pd, Out("raise", "AlwaysYield", V("num", ins.v)), iv, mode)
        [] ins.op = "try" -> RunBody(s, r, i + 1, pd, iv, FALSE, mode)
        [] ins.op = "except" -> RunBody(s, r, EndOf(code, i) + 1, pd, iv, FALSE, mode)     \* nothing was raised
        [] ins.op = "finally" ->                                                          \* fall through
             RunBody(AddLogM(s, r, i, "fin", Ret(NoneV), fm), r, i + 1, Append(pd, Out("none", "", NoneV)), iv, FALSE, mode)
        [] ins.op = "endx" -> RunBody(s, r, i + 1, pd, iv, FALSE, mode)
        [] ins.op = "endf" ->
             LET act == pd[Len(pd)]
                 pd1 == SubSeq(pd, 1, Len(pd) - 1) IN
             IF act.k = "none" THEN RunBody(s, r, i + 1, pd1, iv, FALSE, mode)
             ELSE Throw(s, r, i, pd1, act, iv, mode)                 \* the pending return / exception goes on
        [] ins.op \in {"wait", "fget"} ->
             \* Condition.wait(): park the thread player (outermost routine of the chain) unless the test holds
             IF Len(s.stack) < 2           \* only clean-up code can get here: wait() outside a routine raises
             THEN Throw(s, r, i, pd, Out("raise", "Exception", NoneV), iv, mode)
             ELSE IF TestRaises(s, ins.t)      \* evaluating the test failed: wait() raises it into the body, nobody is parked
             THEN Throw(s, r, i, pd, Out("raise", TestRes(s, ins.t), NoneV), iv, mode)
             ELSE LET s1 == IF TestOf(s, ins.t) THEN s ELSE [s EXCEPT !.cond[ins.t].w = Append(@, s.stack[2])] IN
                  IF fm THEN Ignored(s1)
                  ELSE Suspend(s1, r, i + 1, pd, FALSE, IF TestOf(s, ins.t) THEN V("num", 0) ELSE V("str", 0 - 1))
        [] ins.op = "embed" ->
             \* Stream.__embed__: try: while True: inval = yield self.next(inval) / except StopStream: return inval
             LET inv == IF res THEN iv ELSE NoneV
                 a == Api(s, "next", ins.t, 0, inv) IN
             IF a.res.k = "ret"
             THEN (IF fm THEN Ignored(a.st) ELSE Suspend(a.st, r, i, pd, TRUE, V(a.res.x, a.res.v)))
             ELSE IF a.res.x \in {"StopStream", "PausedStream"}
             THEN RunBody(AddLogM(a.st, r, i + 1, "resume", Ret(inv), fm), r, i + 1, pd, iv, FALSE, mode)
             ELSE Throw(a.st, r, i, pd, Out("raise", a.res.x, NoneV), iv, mode)
        [] OTHER ->
             LET a == Api(s, ins.op, ins.t, ins.v, NoneV)
                 s1 == AddLogM(a.st, r, i, "call", a.res, fm) IN
             IF a.res.k = "exc" /\ ins.c = 0 THEN Throw(s1, r, i, pd, Out("raise", a.res.x, NoneV), iv, mode)
             ELSE RunBody(s1, r, i + 1, pd, iv, FALSE, mode)

MaxAbandon == 10
(* stop() and reset() drop the generator.  A generator suspended at a yield is then closed: GeneratorExit is
   thrown at that yield, so the except / finally blocks around it run - now, with the caller as the current
   thread, while the routine is neither running nor (any more) resumable.  Whatever that code does - swallow
   the GeneratorExit and go on, yield again, raise, stop / reset / pause other routines or the routine itself -
   cannot keep stop() / reset() from succeeding: errors of abandoned clean-up code are nobody's to handle.     *)
Abandon(s, r) ==
    LET R == s.rs[r] IN
    IF R.pc = 1 /\ ~R.mid THEN s
    ELSE IF s.ab >= MaxAbandon           \* clean-up code that keeps restarting and stopping itself: not followed
    THEN [s EXCEPT !.over = TRUE, !.rs[r].pc = 1, !.rs[r].mid = FALSE, !.rs[r].pend = <<>>]
    ELSE LET y == IF R.mid THEN R.pc ELSE R.pc - 1           \* the yield the generator is suspended at
             s0 == [s EXCEPT !.rs[r].pc = 1, !.rs[r].mid = FALSE, !.rs[r].pend = <<>>, !.ab = @ + 1]
         IN Throw(s0, r, y, R.pend, Out("raise", "GeneratorExit", NoneV), NoneV, "fin").st

DoStop(s, r) ==
    IF s.rs[r].state = "Running" THEN R2(s, Exc("RoutineException"))
    ELSE R2([Abandon(s, r) EXCEPT !.rs[r].state = "Done"], Ret(NoneV))
DoPause(s, r) ==
    IF s.rs[r].state = "Running" THEN R2(s, Exc("RoutineException"))
    ELSE IF s.rs[r].state \in {"Init", "Suspended"} THEN R2([s EXCEPT !.rs[r].state = "Paused"], Ret(NoneV))
    ELSE R2(s, Ret(NoneV))
DoResume(s, r) ==
    IF s.rs[r].state = "Paused" THEN R2(Schedule([s EXCEPT !.rs[r].state = "Suspended"], Now(s), r), Ret(NoneV))
    ELSE R2(s, Ret(NoneV))
DoReset(s, r) ==
    IF s.rs[r].state = "Running" THEN R2(s, Exc("RoutineException"))
    ELSE R2([Abandon(s, r) EXCEPT !.rs[r].state = "Init", !.rs[r].term = NoTerm], Ret(NoneV))   \* "to its initial state"
DoPlay(s, r) ==
    IF s.rs[r].state \in {"Init", "Paused"}
    THEN R2(Schedule([s EXCEPT !.rs[r].state = "Suspended"], Now(s), r), Ret(NoneV))
    ELSE R2(s, Ret(NoneV))
WakeAll(s, c) == [ScheduleAll(s, Now(s), s.cond[c].w) EXCEPT !.cond[c].w = <<>>]
DoSignal(s, c) ==
    IF TestRaises(s, c) THEN R2(s, Exc(TestRes(s, c)))        \* the caller of signal() gets the error, nothing changes
    ELSE R2(IF TestOf(s, c) THEN WakeAll(s, c) ELSE s, Ret(NoneV))
DoUnhang(s, c) == R2(WakeAll(s, c), Ret(NoneV))
DoSetTest(s, c, v) == R2([s EXCEPT !.cond[c].test = v], Ret(NoneV))
DoFSet(s, f, v) ==
    IF s.flow[f] # Unbound THEN R2(s, Exc("Exception"))            \* cannot rebind a FlowVar
    ELSE R2(WakeAll([s EXCEPT !.flow[f] = V("str", v)], f), Ret(NoneV))

IsRoutineOp(op) == op \in {"next", "stop", "pause", "resume", "reset", "play"}
Api(s, op, t, v, inval) ==
    LET a == CASE op = "next" -> DoNext(s, t, inval)
               [] op = "stop" -> DoStop(s, t)
               [] op = "pause" -> DoPause(s, t)
               [] op = "resume" -> DoResume(s, t)
               [] op = "reset" -> DoReset(s, t)
               [] op = "play" -> DoPlay(s, t)
               [] op = "signal" -> DoSignal(s, t)
               [] op = "unhang" -> DoUnhang(s, t)
               [] op = "settest" -> DoSetTest(s, t, v)
               [] op = "fset" -> DoFSet(s, t, v)
        call == [op |-> op, t |-> t, res |-> a.res,
                 pre |-> IF IsRoutineOp(op) THEN s.rs[t].state ELSE "",
                 post |-> IF IsRoutineOp(op) THEN a.st.rs[t].state ELSE "",
                 term |-> IF IsRoutineOp(op) THEN s.rs[t].term ELSE NoTerm,
                 terr |-> IF op = "signal" /\ TestRaises(s, t) THEN TestRes(s, t) ELSE "",
                 test |-> IF IsRoutineOp(op) THEN FALSE ELSE (op = "unhang" \/ (op = "fset" /\ a.res.k = "ret") \/ (op = "signal" /\ TestOf(s, t))),
                 prew |-> IF IsRoutineOp(op) THEN <<>> ELSE s.cond[t].w,
                 postw |-> IF IsRoutineOp(op) THEN <<>> ELSE a.st.cond[t].w,
                 preq |-> s.q, postq |-> a.st.q, now |-> Now(s), stack |-> s.stack, poststack |-> a.st.stack]
    IN R2([a.st EXCEPT !.calls = Append(@, call)], a.res)

(* ---- external (outside any routine) steps ---- *)
Tick(s) ==      \* one iteration of the NRT scheduler loop: pop the earliest task and wake it
    IF s.q = <<>> THEN R2(s, Ret(V("empty", 0)))
    ELSE LET e == Head(s.q)
             s1 == [s EXCEPT !.q = Tail(@), !.secs["main"] = e.t]
             a == Api(s1, "next", e.r, 0, V("tuple", 0))
         IN IF a.res.k = "ret" /\ a.res.x = "num" THEN R2(Schedule(a.st, e.t + a.res.v, e.r), Ret(NoneV))
            ELSE IF a.res.k = "exc" /\ NotAnException(a.res.x) THEN R2(a.st, Exc(a.res.x))   \* e.g. KeyboardInterrupt: not the clock's to swallow
            ELSE R2(a.st, Ret(NoneV))               \* StopStream ends the task; other errors are logged
Ext(s, e) ==
    LET s0 == [s EXCEPT !.log = <<>>, !.calls = <<>>, !.ab = 0] IN
    IF e.op = "tick" THEN Tick(s0)
    ELSE Api(s0, e.op, e.t, e.v, IF e.op = "next" /\ e.v # 0 THEN V("num", e.v) ELSE NoneV)

InitSt(p, conds, flows) ==
    [rs |-> [r \in DOMAIN p |-> RS("Init", 1, NoTerm)],
     stack |-> <<"main">>,
     secs |-> [x \in DOMAIN p \cup {"main"} |-> 0],
     cond |-> [c \in conds \cup flows |-> [test |-> 0, w |-> <<>>]],
     flow |-> [f \in flows |-> Unbound],
     q |-> <<>>, log |-> <<>>, calls |-> <<>>, ab |-> 0, over |-> FALSE]

(* ================= L1: the property, as predicates over a state after an external call ================= *)
States(s) == [r \in DOMAIN s.rs |-> s.rs[r].state]
\* the current thread is the caller's again, whatever happened inside
StackRestoredAtRest(s) == s.stack = <<"main">>
\* inside: every body observes itself as the current thread with the logical time it was entered with,
\* in particular after every nested call returned or raised; and every call leaves the stack as it found it
StackRestoredNested(s) ==
    /\ \A i \in 1..Len(s.log) : ~s.log[i].fm => s.log[i].cur = s.log[i].r
    /\ \A i \in 1..Len(s.calls) : s.calls[i].poststack = s.calls[i].stack
NoRunningAtRest(s) == \A r \in DOMAIN s.rs : s.rs[r].state # "Running"
DoneRaisesStop(s) ==
    \A i \in 1..Len(s.calls) : LET c == s.calls[i] IN
        (c.op = "next" /\ c.pre = "Done") =>
            /\ c.post = "Done"
            /\ c.res = (IF c.term = NoTerm THEN Exc("StopStream") ELSE Ret(c.term))
PausedRaises(s) ==
    \A i \in 1..Len(s.calls) : LET c == s.calls[i] IN
        (c.op = "next" /\ c.pre = "Paused") => (c.post = "Paused" /\ c.res = Exc("PausedStream"))
SelfOpsRefused(s) ==
    \A i \in 1..Len(s.calls) : LET c == s.calls[i] IN
        (c.op \in {"stop", "pause", "reset"} /\ c.pre = "Running") =>
            (c.post = "Running" /\ c.res = Exc("RoutineException"))
\* stop() / reset() of a routine that is not running always succeed, whatever the body's clean-up code does
StopResetSucceed(s) ==
    \A i \in 1..Len(s.calls) : LET c == s.calls[i] IN
        (c.op \in {"stop", "reset"} /\ c.pre # "Running") =>
            (c.res = Ret(NoneV) /\ c.post = (IF c.op = "stop" THEN "Done" ELSE "Init"))
NextReturnsYielded(s) ==
    \A i \in 1..Len(s.calls) : LET c == s.calls[i] IN
        (c.op = "next" /\ c.pre \in {"Init", "Suspended"}) =>
            /\ c.post \in {"Suspended", "Done", "Init"}
            /\ (c.post \in {"Suspended", "Init"} => c.res.k = "ret")
            /\ (c.res.k = "exc" => c.post = "Done")
Allowed(op, pre, post) ==
    CASE op = "next" -> \/ (pre \in {"Paused", "Done", "Running"} /\ post = pre)
                        \/ (pre \in {"Init", "Suspended"} /\ post \in {"Suspended", "Done", "Init"})
      [] op = "stop" -> IF pre = "Running" THEN post = pre ELSE post = "Done"
      [] op = "pause" -> IF pre \in {"Init", "Suspended"} THEN post = "Paused" ELSE post = pre
      [] op = "resume" -> IF pre = "Paused" THEN post = "Suspended" ELSE post = pre
      [] op = "reset" -> IF pre = "Running" THEN post = pre ELSE post = "Init"
      [] op = "play" -> IF pre \in {"Init", "Paused"} THEN post = "Suspended" ELSE post = pre
      [] OTHER -> TRUE
TransitionTable(s) == \A i \in 1..Len(s.calls) : Allowed(s.calls[i].op, s.calls[i].pre, s.calls[i].post)
InQ(q, r, t) == \E j \in 1..Len(q) : q[j].r = r /\ q[j].t = t
\* signal with a true test / unhang / value assignment reschedule every parked thread now and
\* empty the list; a signal whose test is false changes nothing
WakeOnSignal(s) ==
    \A i \in 1..Len(s.calls) : LET c == s.calls[i] IN
        (c.op \in {"signal", "unhang", "fset"}) =>
            IF c.test THEN /\ c.postw = <<>>
                           /\ \A j \in 1..Len(c.prew) : InQ(c.postq, c.prew[j], c.now)
            ELSE c.postw = c.prew /\ c.postq = c.preq /\ (c.terr # "" => c.res = Exc(c.terr))
\* "exactly once": in keyed mode a thread has at most one queue entry
AtMostOnceQueued(s) ==
    QMode = "keyed" => \A i, j \in 1..Len(s.q) : i # j => s.q[i].r # s.q[j].r
QueueSorted(s) == \A i \in 1..Len(s.q) - 1 : s.q[i].t <= s.q[i + 1].t

(* ================= design model ================= *)
CONSTANTS ProgSel, MaxLen, MaxSteps, MaxTime
VARIABLES last, n
vars == <<prog, st, last, n>>

I(op, t, v, c) == [op |-> op, t |-> t, v |-> v, c |-> c]
P(plain, inv, code) == [plain |-> plain, inv |-> inv, code |-> code]
ScriptsOver(vocab, maxlen) == UNION {[1..k -> vocab] : k \in 0..maxlen}

\* instruction vocabularies of the configurations
VocabFlow == {I("yn", "", 8, 0), I("yv", "", 3, 0), I("raise", "", 0, 0), I("raise", "", 2, 0), I("yar", "", 4, 0), I("alw", "", 2, 0)}
VocabNest == {I("yn", "", 8, 0), I("embed", "r2", 0, 0), I("next", "r2", 0, 0), I("next", "r2", 0, 1), I("next", "r1", 0, 1),
              I("stop", "r1", 0, 1), I("stop", "r2", 0, 0), I("reset", "r2", 0, 0), I("pause", "r2", 0, 0),
              I("play", "r2", 0, 0)}
VocabCond == {I("yn", "", 8, 0), I("wait", "c1", 0, 0), I("fget", "f1", 0, 0), I("signal", "c1", 0, 0),
              I("settest", "c1", 1, 0), I("settest", "c1", 5, 0), I("fset", "f1", 5, 1), I("next", "r2", 0, 1)}
R2Bodies == {P(0, 1, <<I("yn", "", 4, 0), I("raise", "", 0, 0)>>),
             P(0, 0, <<I("next", "r1", 0, 0), I("yv", "", 7, 0)>>),
             P(1, 0, <<I("stop", "r1", 0, 1)>>),
             P(0, 1, <<I("wait", "c1", 0, 0), I("yn", "", 2, 0)>>)}
\* bodies with one try block: protected part a (1-2 instr.), handler b (0-MaxLen instr.), optional tail
TryA == {<<I("yn", "", 8, 0)>>, <<I("yn", "", 8, 0), I("yn", "", 4, 0)>>, <<I("yn", "", 8, 0), I("raise", "", 0, 0)>>,
         <<I("next", "r2", 0, 0), I("yn", "", 8, 0)>>, <<I("yn", "", 8, 0), I("ret", "", 0, 0)>>, <<I("yar", "", 4, 0)>>}
TryB == {I("yv", "", 1, 0), I("stop", "r1", 0, 1), I("stop", "r2", 0, 1), I("reset", "r1", 0, 0), I("pause", "r2", 0, 0),
         I("raise", "", 4, 0), I("next", "r2", 0, 1), I("ret", "", 0, 0)}
TryAq == {<<I("yn", "", 8, 0)>>, <<I("yn", "", 8, 0), I("raise", "", 0, 0)>>, <<I("next", "r2", 0, 0), I("yn", "", 8, 0)>>,
          <<I("yn", "", 8, 0), I("ret", "", 0, 0)>>}
TryScriptsOver(A, tails) ==
    {<<I("try", "", 0, 0)>> \o a \o <<I(h[1], "", 0, 0)>> \o b \o <<I(h[2], "", 0, 0)>> \o tl :
       a \in A, h \in {<<"except", "endx">>, <<"finally", "endf">>}, b \in ScriptsOver(TryB, MaxLen), tl \in tails}
TryPartner == {<<I("yn", "", 4, 0), I("raise", "", 0, 0)>>,
               <<I("try", "", 0, 0), I("yn", "", 4, 0), I("finally", "", 0, 0), I("stop", "r1", 0, 1), I("stop", "r2", 0, 1),
                 I("endf", "", 0, 0)>>,
               <<I("try", "", 0, 0), I("try", "", 0, 0), I("yn", "", 4, 0), I("except", "", 0, 0), I("endx", "", 0, 0),
                 I("yn", "", 2, 0), I("finally", "", 0, 0), I("yv", "", 9, 0), I("endf", "", 0, 0)>>}
TryPartnerQ == {<<I("yn", "", 4, 0), I("raise", "", 0, 0)>>,
                <<I("try", "", 0, 0), I("yn", "", 4, 0), I("finally", "", 0, 0), I("stop", "r1", 0, 1), I("stop", "r2", 0, 1),
                  I("endf", "", 0, 0)>>}
Progs ==
    CASE ProgSel = 1 -> {[r \in {"r1"} |-> P(pl, 1, s)] : pl \in {0}, s \in ScriptsOver(VocabFlow, MaxLen)}
      [] ProgSel = 2 -> {[r \in {"r1", "r2"} |-> IF r = "r1" THEN P(0, 1, s) ELSE b] :
                          s \in ScriptsOver(VocabNest, MaxLen), b \in R2Bodies}
      [] ProgSel = 3 -> {[r \in {"r1", "r2"} |-> IF r = "r1" THEN P(0, 1, s) ELSE b] :
                          s \in ScriptsOver(VocabCond, MaxLen), b \in R2Bodies}
      [] ProgSel = 4 -> {[r \in {"r1", "r2"} |-> IF r = "r1" THEN P(1, 0, s) ELSE b] :
                          s \in ScriptsOver({x \in VocabNest : x.op \notin {"yn", "embed"}} \cup {I("raise", "", 1, 0), I("alw", "", 2, 0)}, MaxLen),
                          b \in R2Bodies}
      [] ProgSel = 6 -> {[r \in {"r1", "r2", "r3"} |-> P(0, 1, IF r = "r1" THEN s1 ELSE IF r = "r2" THEN s2 ELSE s3)] :
                          s1 \in ScriptsOver({I("yn", "", 8, 0), I("next", "r2", 0, 0), I("next", "r2", 0, 1), I("embed", "r2", 0, 0)}, MaxLen),
                          s2 \in ScriptsOver({I("yn", "", 4, 0), I("next", "r3", 0, 0), I("next", "r3", 0, 1), I("next", "r1", 0, 1)}, MaxLen),
                          s3 \in ScriptsOver({I("yn", "", 2, 0), I("raise", "", 3, 0), I("stop", "r1", 0, 1), I("wait", "c1", 0, 0)}, MaxLen)}
      [] ProgSel = 7 -> {[r \in {"r1", "r2"} |-> IF r = "r1" THEN P(0, 1, s1) ELSE P(0, 0, s2)] :
                          s1 \in TryScriptsOver(TryAq, {<<>>}), s2 \in TryPartnerQ}
      [] ProgSel = 9 -> {[r \in {"r1", "r2"} |-> IF r = "r1" THEN P(0, 1, s1) ELSE P(0, 0, s2)] :
                          s1 \in TryScriptsOver(TryA, {<<>>, <<I("yn", "", 2, 0)>>}), s2 \in TryPartner}
      [] ProgSel = 8 -> {[r \in {"r1", "r2"} |->
                            IF r = "r1" THEN P(0, 1, <<I("try", "", 0, 0), I("yn", "", 8, 0), I("raise", "", 0, 0), I("except", "", 0, 0), I("yv", "", 1, 0),
                                                       I("endx", "", 0, 0), I("yn", "", 2, 0)>>)
                            ELSE P(0, 0, <<I("try", "", 0, 0), I("yn", "", 4, 0), I("finally", "", 0, 0), I("stop", "r1", 0, 1),
                                           I("stop", "r2", 0, 1), I("raise", "", 2, 0), I("endf", "", 0, 0)>>)]}
      [] ProgSel = 5 -> {[r \in {"r1", "r2"} |->
                            IF r = "r1" THEN P(0, 1, <<I("next", "r1", 0, 1), I("stop", "r1", 0, 1), I("wait", "c1", 0, 0),
                                                       I("next", "r2", 0, 1), I("fget", "f1", 0, 0), I("yar", "", 4, 0)>>)
                            ELSE P(0, 0, <<I("yn", "", 4, 0), I("alw", "", 2, 0)>>)]}
Conds == {"c1"}
Flows == {"f1"}

NWitness == 30
WitnessInit == \A i \in 1..NWitness : TLCSet(i, FALSE)      \* registers of the vacuity guard (see the end)
Init == /\ prog \in Progs
        /\ WitnessInit
        /\ st = InitSt(prog, Conds, Flows)
        /\ last = [op |-> "init", t |-> "", v |-> 0, res |-> Ret(NoneV)]
        /\ n = 0
Do(e) == LET a == Ext(st, e) IN
         /\ st' = a.st /\ last' = [op |-> e.op, t |-> e.t, v |-> e.v, res |-> a.res]
         /\ n' = n + 1 /\ UNCHANGED prog
E(op, t, v) == [op |-> op, t |-> t, v |-> v]
ExtNext == \E r \in DOMAIN prog, v \in {0, 5} : Do(E("next", r, v))
ExtPlay == \E r \in DOMAIN prog : Do(E("play", r, 0))
ExtPause == \E r \in DOMAIN prog : Do(E("pause", r, 0))
ExtResume == \E r \in DOMAIN prog : Do(E("resume", r, 0))
ExtStop == \E r \in DOMAIN prog : Do(E("stop", r, 0))
ExtReset == \E r \in DOMAIN prog : Do(E("reset", r, 0))
ExtSignal == \E c \in Conds : Do(E("signal", c, 0))
ExtUnhang == \E c \in Conds : Do(E("unhang", c, 0))
ExtSetTest == \E c \in Conds, v \in {0, 1, 4} : Do(E("settest", c, v))
ExtFSet == \E f \in Flows : Do(E("fset", f, 6))
ExtTick == Do(E("tick", "", 0))
Next == ExtNext \/ ExtPlay \/ ExtPause \/ ExtResume \/ ExtStop \/ ExtReset \/ ExtSignal \/ ExtUnhang
        \/ ExtSetTest \/ ExtFSet \/ ExtTick
Spec == Init /\ [][Next]_vars
Bound == n <= MaxSteps /\ st.secs["main"] <= MaxTime

InvStackRestored == StackRestoredAtRest(st) /\ StackRestoredNested(st)
InvNoRunning == NoRunningAtRest(st)
InvDoneRaisesStop == DoneRaisesStop(st)
InvPausedRaises == PausedRaises(st)
InvSelfOpsRefused == SelfOpsRefused(st) /\ StopResetSucceed(st)
InvNextReturnsYielded == NextReturnsYielded(st)
InvTransitionTable == TransitionTable(st)
InvWake == WakeOnSignal(st) /\ AtMostOnceQueued(st) /\ QueueSorted(st)
\* outside a tick the caller's logical time is untouched; routines not named by any call keep their state;
\* parked threads leave a waiting list only through signal / unhang / value assignment
Targets(s) == {s.calls[i].t : i \in 1..Len(s.calls)}
IsPrefix(a, b) == Len(a) <= Len(b) /\ SubSeq(b, 1, Len(a)) = a
StepLaws ==
    [][/\ (last'.op # "tick" => st'.secs["main"] = st.secs["main"])
       /\ \A r \in DOMAIN st.rs : r \notin Targets(st') => st'.rs[r] = st.rs[r]
       /\ \A c \in DOMAIN st.cond : c \notin Targets(st') => IsPrefix(st.cond[c].w, st'.cond[c].w)
       /\ \A r \in DOMAIN st.rs : (st.rs[r].state = "Done" /\ st'.rs[r].state # "Done") =>
             \E i \in 1..Len(st'.calls) : st'.calls[i].op = "reset" /\ st'.calls[i].t = r]_vars

(* ---- vacuity guard (TLC's -coverage cannot be used: its cost model unfolds the recursive interpreter) ----
   Witness i is a situation an L1 predicate or an action talks about; WitnessInv records in TLC register i
   that it was reached, WitnessPost prints the registers (run with one worker, Routine_witness.cfg).     *)
AnyCall(Pred(_)) == \E i \in 1..Len(st.calls) : Pred(st.calls[i])
Witnesses == <<
    last.op = "next", last.op = "play", last.op = "pause", last.op = "resume", last.op = "stop", last.op = "reset",
    last.op = "signal", last.op = "unhang", last.op = "settest", last.op = "fset",
    last.op = "tick" /\ last.res.x # "empty",
    AnyCall(LAMBDA c : c.op = "next" /\ c.pre = "Done" /\ c.term = NoTerm),
    AnyCall(LAMBDA c : c.op = "next" /\ c.pre = "Done" /\ c.term # NoTerm),
    AnyCall(LAMBDA c : c.op = "next" /\ c.pre = "Paused"),
    AnyCall(LAMBDA c : c.op = "next" /\ c.pre = "Running"),
    AnyCall(LAMBDA c : c.op \in {"stop", "pause", "reset"} /\ c.pre = "Running"),
    AnyCall(LAMBDA c : c.op = "next" /\ c.post = "Init" /\ c.pre # "Init"),
    AnyCall(LAMBDA c : c.op = "next" /\ Len(c.stack) >= 2 /\ c.res.k = "exc" /\ c.post = "Done"),
    AnyCall(LAMBDA c : c.op \in {"signal", "unhang", "fset"} /\ c.test /\ c.prew # <<>>),
    AnyCall(LAMBDA c : c.op = "signal" /\ ~c.test /\ c.prew # <<>>),
    \E i \in 1..Len(st.log) : st.log[i].ev = "fval" /\ st.log[i].x = "str",
    Len(st.q) >= 2,
    \* clean-up code of an abandoned generator ran: swallowed the GeneratorExit; a finally block ran, made a call
    \E i \in 1..Len(st.log) : st.log[i].fm /\ st.log[i].ev = "caught" /\ st.log[i].x = "GeneratorExit",
    \E i \in 1..Len(st.log) : st.log[i].fm /\ st.log[i].ev = "fin",
    \E i \in 1..Len(st.log) : st.log[i].fm /\ st.log[i].ev = "call" /\ st.log[i].r = "r2" /\ st.calls # <<>>
         /\ AnyCall(LAMBDA c : c.op = "stop" /\ c.t = "r2" /\ Len(c.stack) = 1 /\ c.pre = "Suspended"),
    AnyCall(LAMBDA c : c.op = "reset" /\ c.pre \in {"Suspended", "Paused"}),
    \E i \in 1..Len(st.log) : ~st.log[i].fm /\ st.log[i].ev = "caught" /\ st.log[i].x = "Boom",
    \* a body failed with a BaseException that is not an Exception
    AnyCall(LAMBDA c : c.op = "next" /\ c.res.k = "exc" /\ NotAnException(c.res.x) /\ c.post = "Done"),
    \* a callable test raised at signal() with a routine parked; a callable test raised at wait()
    AnyCall(LAMBDA c : c.op = "signal" /\ c.terr # "" /\ c.prew # <<>>),
    \E i \in 1..Len(st.calls) : st.calls[i].op = "next" /\ st.calls[i].res = Exc("TypeError") /\ st.calls[i].post = "Done" >>
WitnessInv == Len(Witnesses) = NWitness /\ \A i \in 1..NWitness : Witnesses[i] => TLCSet(i, TRUE)
WitnessPost == \A i \in 1..NWitness : PrintT(<<"WITNESS", i, TLCGet(i)>>)
=============================================================================
