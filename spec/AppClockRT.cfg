SPECIFICATION Spec
CONSTANTS
  Users = {"u1", "u2"}
  Deltas = {0, 1, 2}
  MaxNow = 4
  GapTicks = TRUE
  Fixed = TRUE
INVARIANT NoMissedHead
INVARIANT NeverEarly
INVARIANT AtMostOnce
INVARIANT InOrder
