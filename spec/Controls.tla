------------------------------ MODULE Controls ------------------------------
(* C04 - function parameters become correctly laid-out, correctly wired controls.

   A *definition request* d is what a user hands to SynthDef(name, func, rates, prepend, variants,
   metadata) together with the SynthDef.wrap calls the function bodies make:

     d = [name, funcs, variants, hist]
     funcs    : sequence of functions in the order in which their control sets are built (funcs[1]
                is the graph function, funcs[k>1] is wrapped by the body of funcs[funcs[k].parent];
                a body first uses its own parameters and then performs its wrap calls in order, so
                the sequence is the pre-order of the wrap tree - WellFormed demands exactly that)
     function : [parent, params]
     param    : [n  name,
                 bk "bound" (consumed by a prepend value bv, no control) | "ctl",
                 an annotation  none|ir|tr|ar|kr,
                 ov rates entry absent|None|ir|tr|ar|kr|num|list,  lag  the number / the list (x8),
                 dk default     missing|None|scalar|tuple,         dv   the value(s) (x8),
                 dty literal kind of each default value for the driver: i int | f float | b bool (<<>> = any),
                 sk metadata    none|spec,                          sv   spec default (x8)]
     hist     : sequence of serialisations performed on the definition object: as_bytes | write | store
     variant  : [n, set: sequence of [n parameter name, v values]]   (fl: name length asked of the generator)

   All numbers are integers = real value * 8 (TLC has no floats; the drivers only use multiples
   of 1/8, which float32 holds exactly).

   L1 (the property): Layout gives every control parameter its slot declaratively - the number of
   control channels laid out *before* it, where "before" is: earlier function; or same function
   and earlier rate group (initial < trigger < audio < control); or same group and declared
   earlier.  Defaults, NameTable, SlotSource (what kind of control unit output must feed a slot,
   with which lag), Wired, VariantCtl and CallPairs are all expressed over that.
   L2 (implementation shaped): ExpectedUnits = one Control/TrigControl/AudioControl per non-empty
   group of a function, LagControl in clumps of 16 when any lag of the group is non-zero.
   TLC checks on every generated request that L2 satisfies L1 (Covers) and the tiling/ordering
   theorems of the layout; ControlsImpl.tla adds the transcription of the code's algorithm.

   The module is also the *generator* of requests: the state machine below builds every
   well-formed request within the cfg's bounds and prints each one as JSON (action Emit); the
   driver turns them into Python functions and builds them with the real SynthDef.            *)
EXTENDS Naturals, Integers, Sequences, FiniteSets, TLC, Json

RateNames == {"ir", "tr", "ar", "kr"}
GroupIx(r) == CASE r = "ir" -> 1 [] r = "tr" -> 2 [] r = "ar" -> 3 [] OTHER -> 4

\* concatenation / sum of a sequence, by halving (recursion depth log n: requests have up to 40 parameters)
RECURSIVE CatR(_, _, _)
CatR(ss, lo, hi) == IF lo > hi THEN <<>> ELSE IF lo = hi THEN ss[lo]
                    ELSE LET m == (lo + hi) \div 2 IN CatR(ss, lo, m) \o CatR(ss, m + 1, hi)
Cat(ss) == CatR(ss, 1, Len(ss))
RECURSIVE SumR(_, _, _)
SumR(s, lo, hi) == IF lo > hi THEN 0 ELSE IF lo = hi THEN s[lo]
                   ELSE LET m == (lo + hi) \div 2 IN SumR(s, lo, m) + SumR(s, m + 1, hi)
SumSeq(s) == SumR(s, 1, Len(s))
Min2(a, b) == IF a < b THEN a ELSE b

(* ------------------------------------------------------------------ parameters *)
EffRate(p) == IF p.ov \in RateNames THEN p.ov          \* the rates argument overrides ...
              ELSE IF p.an \in RateNames THEN p.an     \* ... the annotation
              ELSE "kr"
Width(p) == IF p.dk = "tuple" THEN Len(p.dv) ELSE 1
\* an explicit default - whatever its value: 0, 0.0, False, negative, equal to the spec's - always
\* wins; the metadata spec default is used only when the parameter has no default (missing or None)
DefaultVals(p) == IF p.dk \in {"scalar", "tuple"} THEN p.dv
                  ELSE IF p.sk = "spec" THEN <<p.sv>>
                  ELSE <<0>>
LagVals(p) == IF EffRate(p) = "kr" /\ p.ov \in {"num", "list"} /\ p.lag # <<>>
              THEN [i \in 1..Width(p) |-> p.lag[((i - 1) % Len(p.lag)) + 1]]   \* wrap-extended
              ELSE [i \in 1..Width(p) |-> 0]

(* ------------------------------------------------------------------ well-formed requests *)
RECURSIVE Ancestors(_, _)
Ancestors(fs, k) == IF k = 0 THEN {} ELSE {k} \cup Ancestors(fs, fs[k].parent)

ParamOK(p) ==
    /\ p.bk \in {"ctl", "bound"}
    /\ p.an \in {"none"} \cup RateNames
    /\ p.ov \in {"absent", "None", "num", "list"} \cup RateNames
    /\ p.dk \in {"missing", "None", "scalar", "tuple"}
    /\ p.sk \in {"none", "spec"}
    /\ (p.ov = "num" => Len(p.lag) = 1) /\ (p.ov = "list" => Len(p.lag) >= 1)
    /\ (p.dk = "scalar" => Len(p.dv) = 1) /\ (p.dk = "tuple" => Len(p.dv) >= 1)
    /\ Len(p.dty) \in {0, Len(p.dv)} /\ \A i \in 1..Len(p.dty) : p.dty[i] \in {"i", "f", "b"}
    /\ \A i \in 1..Len(p.dty) : (p.dty[i] = "i" => p.dv[i] % 8 = 0) /\ (p.dty[i] = "b" => p.dv[i] \in {0, 8})

FuncOK(f) ==
    LET ps == f.params IN
    /\ \A j \in 1..Len(ps) : ParamOK(ps[j])
    \* prepend values bind a prefix of the parameters
    /\ \A i, j \in 1..Len(ps) : i < j /\ ps[j].bk = "bound" => ps[i].bk = "bound"
    \* Python: no parameter without default after one with a default (bound ones carry none)
    /\ \A i, j \in 1..Len(ps) : i < j /\ ps[j].bk = "ctl" /\ ps[j].dk = "missing"
                                    => ps[i].bk = "bound" \/ ps[i].dk = "missing"
    \* the rates list is a prefix: once absent, absent for all later parameters
    /\ \A i, j \in 1..Len(ps) : i < j /\ ps[i].bk = "ctl" /\ ps[i].ov = "absent" => ps[j].ov = "absent"

AllParams(d) == Cat([k \in 1..Len(d.funcs) |-> d.funcs[k].params])
CtlParams(f) == SelectSeq(f.params, LAMBDA p : p.bk = "ctl")

WellFormed(d) ==
    /\ Len(d.funcs) >= 1 /\ d.funcs[1].parent = 0
    /\ \A k \in 1..Len(d.funcs) : FuncOK(d.funcs[k])
    \* pre-order of the wrap tree = order in which the bodies run
    /\ \A k \in 2..Len(d.funcs) : d.funcs[k].parent \in Ancestors(d.funcs, k - 1)
    /\ LET ps == AllParams(d) IN \A i, j \in 1..Len(ps) : i # j => ps[i].n # ps[j].n
    /\ \A v \in 1..Len(d.variants) : \A a, b \in 1..Len(d.variants[v].set) :
          a # b => d.variants[v].set[a].n # d.variants[v].set[b].n
    /\ Len(d.hist) >= 1 /\ \A k \in 1..Len(d.hist) : d.hist[k] \in {"as_bytes", "write", "store"}

(* ------------------------------------------------------------------ L1: the layout *)
\* control parameters in build order, each with its function and position
Entries(d) ==
    Cat([k \in 1..Len(d.funcs) |->
         SelectSeq([j \in 1..Len(d.funcs[k].params) |-> [f |-> k, j |-> j, p |-> d.funcs[k].params[j]]],
                   LAMBDA e : e.p.bk = "ctl")])

Before(a, b) ==
    \/ a.f < b.f
    \/ /\ a.f = b.f
       /\ \/ GroupIx(EffRate(a.p)) < GroupIx(EffRate(b.p))
          \/ GroupIx(EffRate(a.p)) = GroupIx(EffRate(b.p)) /\ a.j < b.j

SlotOf(E, b) == SumSeq([a \in 1..Len(E) |-> IF Before(E[a], E[b]) THEN Width(E[a].p) ELSE 0])

Layout(d) ==
    LET E == Entries(d) IN
    [i \in 1..Len(E) |-> [n |-> E[i].p.n, f |-> E[i].f, j |-> E[i].j, rate |-> EffRate(E[i].p),
                          slot |-> SlotOf(E, i), w |-> Width(E[i].p),
                          dv |-> DefaultVals(E[i].p), lags |-> LagVals(E[i].p)]]

Total(L) == SumSeq([i \in 1..Len(L) |-> L[i].w])
Owner(L, s) == CHOOSE i \in 1..Len(L) : L[i].slot <= s /\ s < L[i].slot + L[i].w   \* slot s is 0-based
Defaults(L) == [s \in 1..Total(L) |-> LET i == Owner(L, s - 1) IN L[i].dv[s - L[i].slot]]
NameTable(L) == {<<L[i].n, L[i].slot>> : i \in 1..Len(L)}

\* what must produce slot s: class / unit rate number / lag (x8)
SlotRate(L, s) == L[Owner(L, s)].rate
SlotLag(L, s) == LET i == Owner(L, s) IN L[i].lags[s - L[i].slot + 1]
ControlClasses == {"Control", "TrigControl", "AudioControl", "LagControl"}
\* unit u (a record [c, r, s, no, ins]) output o may feed slot s
SourceOK(L, s, u, o) ==
    LET rt == SlotRate(L, s) lg == SlotLag(L, s) IN
    CASE rt = "ir" -> u.c = "Control" /\ u.r = 0
      [] rt = "tr" -> u.c = "TrigControl" /\ u.r = 1
      [] rt = "ar" -> u.c = "AudioControl" /\ u.r = 2
      [] OTHER -> /\ u.r = 1
                  /\ \/ u.c = "Control" /\ lg = 0
                     \/ /\ u.c = "LagControl" /\ Len(u.ins) = u.no
                        /\ u.ins[o + 1][1] = 0 - 1 /\ u.ins[o + 1][3] = lg
\* the control units of a definition cover the slots exactly once, with the right kind of unit
Covers(units, L) ==
    LET cu == {x \in 1..Len(units) : units[x].c \in ControlClasses}
        tot == Total(L) IN
    /\ \A x \in cu : units[x].s >= 0 /\ units[x].s + units[x].no <= tot
    /\ \A s \in 0..tot - 1 :
          LET src == {x \in cu : units[x].s <= s /\ s < units[x].s + units[x].no} IN
          /\ Cardinality(src) = 1
          /\ \A x \in src : SourceOK(L, s, units[x], s - units[x].s)

\* the body of the function received, as channel c (0-based) of parameter entry i, output `o` of unit `x`
Wired(units, L, i, c, x, o) ==
    /\ x \in 1..Len(units) /\ units[x].c \in ControlClasses
    /\ o \in 0..units[x].no - 1
    /\ units[x].s + o = L[i].slot + c

\* variants: the default array with the variant's values laid over the named parameter's slots
VariantCtl(L, var) ==
    LET D == Defaults(L) IN
    [s \in 1..Total(L) |->
        LET hit == {a \in 1..Len(var.set) :
                      \E i \in 1..Len(L) : L[i].n = var.set[a].n /\ L[i].slot < s
                                           /\ s <= L[i].slot + Len(var.set[a].v)} IN
        IF hit = {} THEN D[s]
        ELSE LET a == CHOOSE a \in hit : \A b \in hit : b <= a      \* later assignment wins
                 i == CHOOSE i \in 1..Len(L) : L[i].n = var.set[a].n IN
             var.set[a].v[s - L[i].slot]]
\* Which variants are written.  A variant is refused when its full name "defname.key" is longer than the 32
\* characters the file format holds, when one of its pairs names no control, or when a pair has more values
\* than the parameter has channels; as documented by the writer ("not writing more variants") so is every
\* variant after it: the variants written are the prefix before the first refused one.  A refused variant
\* leaves no trace: the default array and the written variants are as if it had not been requested.
MaxVariantName == 32
FullName(dd, var) == dd.name \o "." \o var.n
VariantOK(L, var) ==
    \A a \in 1..Len(var.set) : \E i \in 1..Len(L) : L[i].n = var.set[a].n /\ Len(var.set[a].v) \in 1..L[i].w
Refused(dd, L, var) == Len(FullName(dd, var)) > MaxVariantName \/ ~VariantOK(L, var)
WrittenVariantsL(dd, L) ==
    LET bad == {v \in 1..Len(dd.variants) : Refused(dd, L, dd.variants[v])} IN
    IF bad = {} THEN dd.variants
    ELSE SubSeq(dd.variants, 1, (CHOOSE v \in bad : \A y \in bad : v <= y) - 1)
WrittenVariants(dd) == WrittenVariantsL(dd, Layout(dd))

\* Serialisation is a pure function of the request: whatever sequence of serialisations (as_bytes, writing
\* the definition list, store to a file) is performed on one definition object, each of them yields the same
\* default array, name table, control units and variant blocks - those given by the operators above.
SerOps == {"as_bytes", "write", "store"}
HistOK(h) == Len(h) >= 1 /\ \A k \in 1..Len(h) : h[k] \in SerOps

\* calling the definition: positional arguments name the graph function's own control parameters
\* in declaration order, keyword arguments name any control
TopNames(d) == LET ps == CtlParams(d.funcs[1]) IN [i \in 1..Len(ps) |-> ps[i].n]
CallPairs(d, args, kw) ==
    [i \in 1..Len(args) |-> [n |-> TopNames(d)[i], v |-> args[i]]] \o kw

(* ------------------------------------------------------------------ L2: the units the code creates *)
GroupClass(g) == CASE g = "ir" -> [c |-> "Control", r |-> 0] [] g = "tr" -> [c |-> "TrigControl", r |-> 1]
                   [] g = "ar" -> [c |-> "AudioControl", r |-> 2] [] OTHER -> [c |-> "Control", r |-> 1]
GroupOf(L, k, g) == SelectSeq(L, LAMBDA e : e.f = k /\ e.rate = g)     \* declaration order is kept
Clumps(first, lags) ==      \* LagControl units of at most 16 outputs
    [c \in 1..((Len(lags) + 15) \div 16) |->
        LET lo == 16 * (c - 1) + 1  hi == Min2(16 * c, Len(lags)) IN
        [c |-> "LagControl", r |-> 1, s |-> first + lo - 1, no |-> hi - lo + 1,
         ins |-> [x \in 1..(hi - lo + 1) |-> <<0 - 1, 0, lags[lo + x - 1]>>]]]
GroupUnits(L, k, g) ==
    LET G == GroupOf(L, k, g) IN
    IF G = <<>> THEN <<>>
    ELSE LET first == G[1].slot
             n == SumSeq([i \in 1..Len(G) |-> G[i].w])
             lags == Cat([i \in 1..Len(G) |-> G[i].lags]) IN
         IF g = "kr" /\ \E i \in 1..Len(lags) : lags[i] # 0 THEN Clumps(first, lags)
         ELSE <<[c |-> GroupClass(g).c, r |-> GroupClass(g).r, s |-> first, no |-> n, ins |-> <<>>]>>
ExpectedUnits(d) ==
    LET L == Layout(d) IN
    Cat([k \in 1..Len(d.funcs) |-> Cat([g \in 1..4 |-> GroupUnits(L, k, <<"ir", "tr", "ar", "kr">>[g])])])

(* ------------------------------------------------------------------ theorems checked on every request *)
Tiles(L) ==       \* the parameters' slot ranges partition 0..Total-1
    /\ \A s \in 0..Total(L) - 1 : Cardinality({i \in 1..Len(L) : L[i].slot <= s /\ s < L[i].slot + L[i].w}) = 1
    /\ \A i \in 1..Len(L) : L[i].w >= 1 /\ L[i].slot + L[i].w <= Total(L)
Ordered(L) ==     \* function order, then rate group, then declaration order
    \A a, b \in 1..Len(L) :
        /\ L[a].f < L[b].f => L[a].slot < L[b].slot
        /\ L[a].f = L[b].f /\ GroupIx(L[a].rate) < GroupIx(L[b].rate) => L[a].slot < L[b].slot
        /\ L[a].f = L[b].f /\ L[a].rate = L[b].rate /\ L[a].j < L[b].j => L[a].slot < L[b].slot
NamesPointAtDefaults(L) ==
    LET D == Defaults(L) IN
    \A i \in 1..Len(L) : \A c \in 1..L[i].w : D[L[i].slot + c] = L[i].dv[c]
LagOnlyOnControlRate(L) ==
    \A i \in 1..Len(L) : L[i].rate # "kr" => \A c \in 1..L[i].w : L[i].lags[c] = 0
UnitsAsUnits(us) == [x \in 1..Len(us) |-> us[x]]
L2CoversL1(d) == Covers(ExpectedUnits(d), Layout(d))
VariantsLocal(d) ==   \* a variant changes exactly the slots it names
    LET L == Layout(d)  wr == WrittenVariantsL(d, L) IN
    \A v \in 1..Len(wr) :
        LET vc == VariantCtl(L, wr[v])  D == Defaults(L) IN
        \A s \in 1..Total(L) :
            vc[s] # D[s] =>
                \E a \in 1..Len(wr[v].set) : \E i \in 1..Len(L) :
                    L[i].n = wr[v].set[a].n /\ L[i].slot < s /\ s <= L[i].slot + L[i].w

(* ------------------------------------------------------------------ generator *)
CONSTANTS Annots,      \* annotations to use
          OvChoices,   \* set of [ov, lag]
          DfChoices,   \* set of [dk, dv]
          SpChoices,   \* set of [sk, sv]
          BoundVals,   \* prepend values
          MaxFuncs, MaxParams, MaxTotal, MaxBound, MaxVariants, MinEmit,
          VarLens,     \* full-name lengths asked of variants (0 = whatever the short key gives)
          VarW,        \* subset of 1..3: widths / zero mode of a variant's first assignment
          VarBad,      \* how a variant may be invalid: "none", "unknown_last", "oversize_last", "unknown_first"
          HistChoices, \* serialisation histories to emit every request with
          SimMode      \* TRUE under `tlc -simulate`: one random parameter per step instead of all of them
VARIABLES d, phase
vars == <<d, phase>>

\* choice sets selectable from cfg files (CONSTANT X <- Name)
OvFull == {[ov |-> o, lag |-> <<>>] : o \in {"absent", "None", "ir", "tr", "ar", "kr"}}
          \cup {[ov |-> "num", lag |-> <<4>>], [ov |-> "num", lag |-> <<0>>],
                [ov |-> "list", lag |-> <<1, 2>>], [ov |-> "list", lag |-> <<0, 0>>],
                [ov |-> "list", lag |-> <<3>>], [ov |-> "list", lag |-> <<0, 5, 6>>]}
OvSmall == {[ov |-> "absent", lag |-> <<>>], [ov |-> "ir", lag |-> <<>>], [ov |-> "ar", lag |-> <<>>],
            [ov |-> "kr", lag |-> <<>>], [ov |-> "num", lag |-> <<4>>], [ov |-> "list", lag |-> <<1, 2>>]}
OvTiny == {[ov |-> "absent", lag |-> <<>>], [ov |-> "tr", lag |-> <<>>], [ov |-> "num", lag |-> <<4>>]}
OvOne == {[ov |-> "absent", lag |-> <<>>]}
OvTwo == {[ov |-> "absent", lag |-> <<>>], [ov |-> "num", lag |-> <<4>>]}
\* default choices: D = shape oriented (values made distinct per parameter by AddParam),
\*                  V = value oriented (used exactly as written; dty = literal kind per value:
\*                      "i" int, "f" float, "b" bool - True is 1.0, False is 0.0 in the control array)
D(dk, dv) == [dk |-> dk, dv |-> dv, dty |-> <<>>, fix |-> FALSE]
V(dk, dv, dty) == [dk |-> dk, dv |-> dv, dty |-> dty, fix |-> TRUE]
DfFull == {D("missing", <<>>), D("None", <<>>), D("scalar", <<12>>), D("tuple", <<20>>), D("tuple", <<28, 36>>),
           D("tuple", <<44, 52, 60>>), D("tuple", <<68, 76, 84, 92>>)}
DfSmall == {D("missing", <<>>), D("scalar", <<12>>), D("tuple", <<28, 36>>), D("tuple", <<44, 52, 60>>)}
DfTiny == {D("scalar", <<12>>), D("tuple", <<28, 36>>)}
DfThree == {D("missing", <<>>), D("scalar", <<12>>), D("tuple", <<28, 36>>)}
DfLong == DfFull \cup {D("tuple", [i \in 1..n |-> 100 + i]) : n \in {7, 17, 33}}
DfImpl == DfSmall \cup {D("tuple", [i \in 1..17 |-> 100 + i])}
\* values that matter: zeros of every literal kind, booleans, negatives, the spec default itself (440) and
\* another value, tuples made of / containing zeros
DfVals == {D("missing", <<>>), D("None", <<>>),
           V("scalar", <<0>>, <<"i">>), V("scalar", <<0>>, <<"f">>), V("scalar", <<0>>, <<"b">>),
           V("scalar", <<8>>, <<"b">>), V("scalar", <<0 - 12>>, <<"f">>), V("scalar", <<3520>>, <<"i">>),
           V("scalar", <<12>>, <<"f">>),
           V("tuple", <<0>>, <<"i">>), V("tuple", <<0, 0>>, <<"i", "f">>),
           V("tuple", <<0, 40, 0, 0 - 8>>, <<"b", "i", "f", "i">>)}
DfSim == DfLong \cup DfVals
DfZero == {D("None", <<>>), V("scalar", <<0>>, <<"i">>), V("scalar", <<0>>, <<"b">>), V("scalar", <<0 - 12>>, <<"f">>),
           V("tuple", <<0, 40, 0>>, <<"f", "i", "b">>)}
SpNone == {[sk |-> "none", sv |-> 0]}
SpBoth == {[sk |-> "none", sv |-> 0], [sk |-> "spec", sv |-> 440 * 8]}
SpThree == SpBoth \cup {[sk |-> "spec", sv |-> 0 - 4]}
AnAll == {"none"} \cup RateNames
AnSmall == {"none", "ir", "ar"}
AnTiny == {"none", "tr"}
AnNone == {"none"}
\* serialisation histories (the first entry produces the observation the layout clauses are checked on)
HistTwo == {<<"as_bytes", "write">>}
HistAll == {<<"as_bytes", "write", "as_bytes">>, <<"write", "as_bytes">>, <<"store", "as_bytes", "write">>,
            <<"as_bytes", "store", "store">>}

NParams(dd) == Len(AllParams(dd))
LastF(dd) == Len(dd.funcs)
Named(dd, k, j) == "f" \o ToString(k) \o "p" \o ToString(j)
\* lags are made distinguishable per parameter (defaults: see AddParam)
WithParam(dd, p) ==
    LET k == NParams(dd) IN
    [dd EXCEPT !.funcs[LastF(dd)].params =
        Append(@, [n |-> Named(dd, LastF(dd), Len(@) + 1),
                   lag |-> [i \in 1..Len(p.lag) |-> IF p.lag[i] = 0 THEN 0 ELSE p.lag[i] + 8 * k]] @@ p)]

Pick(S) == IF SimMode THEN {RandomElement(S)} ELSE S
EmitAt == {12, 19, 26, 33, 40}     \* simulation emits long requests only

Init == /\ d = [name |-> "d", funcs |-> <<[parent |-> 0, params |-> <<>>]>>, variants |-> <<>>, hist |-> <<"as_bytes">>]
        /\ phase = "build"

\* simulation: make a random pick well-formed instead of discarding it
Repair(ps, p) ==
    LET missOK == \A i \in 1..Len(ps) : ps[i].bk = "bound" \/ ps[i].dk = "missing"
        absPrev == \E i \in 1..Len(ps) : ps[i].bk = "ctl" /\ ps[i].ov = "absent"
        p1 == IF p.dk = "missing" /\ ~missOK THEN [p EXCEPT !.dk = "None"] ELSE p
        p2 == IF absPrev THEN [p1 EXCEPT !.ov = "absent", !.lag = <<>>]
              ELSE IF p1.ov = "absent" /\ Len(ps) < 6 THEN [p1 EXCEPT !.ov = "None"] ELSE p1
    IN p2

AddBound == /\ phase = "build" /\ d.variants = <<>> /\ NParams(d) < MaxTotal
            /\ LET ps == d.funcs[LastF(d)].params IN
               /\ Len(ps) < MaxBound /\ \A j \in 1..Len(ps) : ps[j].bk = "bound"
            /\ \E v \in BoundVals :
                  d' = WithParam(d, [bk |-> "bound", bv |-> v, an |-> "none", ov |-> "absent", lag |-> <<>>,
                                     dk |-> "missing", dv |-> <<>>, dty |-> <<>>, sk |-> "none", sv |-> 0])
            /\ UNCHANGED phase

AddParam == /\ phase = "build" /\ d.variants = <<>> /\ NParams(d) < MaxTotal
            /\ Len(CtlParams(d.funcs[LastF(d)])) < MaxParams
            /\ \E an \in Pick(Annots), o \in Pick(OvChoices), df \in Pick(DfChoices), sp \in Pick(SpChoices) :
                  LET k == NParams(d)
                      \* shape-oriented defaults are made distinct per parameter (a swapped slot shows in
                      \* the default array); value-oriented ones are used exactly as written
                      p0 == [bk |-> "ctl", bv |-> 0, an |-> an, ov |-> o.ov, lag |-> o.lag, dk |-> df.dk,
                             dv |-> IF df.fix THEN df.dv ELSE [i \in 1..Len(df.dv) |-> df.dv[i] + 256 * k],
                             dty |-> df.dty, sk |-> sp.sk, sv |-> sp.sv]
                      p == IF SimMode THEN Repair(d.funcs[LastF(d)].params, p0) ELSE p0
                      dd == WithParam(d, p) IN
                  /\ FuncOK(dd.funcs[LastF(dd)]) = TRUE     \* "= TRUE": evaluated as a value (TLC would
                                                            \* unfold the quantifiers of an action conjunct recursively)
                  /\ d' = dd
            /\ UNCHANGED phase

OpenWrap == /\ phase = "build" /\ d.variants = <<>> /\ LastF(d) < MaxFuncs
            /\ (SimMode => Len(CtlParams(d.funcs[LastF(d)])) >= 3)
            /\ \E par \in Ancestors(d.funcs, LastF(d)) :
                  d' = [d EXCEPT !.funcs = Append(@, [parent |-> par, params |-> <<>>])]
            /\ UNCHANGED phase

\* a variant: one or two assignments on control parameters, full or partial width
AddVariant ==
    /\ phase = "build" /\ Len(d.variants) < MaxVariants
    /\ LET L == Layout(d) IN
       /\ Len(L) >= 1
       /\ \E i \in 1..Len(L), i2 \in 0..Len(L), w \in VarW, fl \in VarLens :   \* w = 3: the parameter set to zeros
             LET a1 == [n |-> L[i].n, v |-> [c \in 1..(IF w = 3 THEN L[i].w ELSE Min2(w, L[i].w)) |->
                                                IF w = 3 THEN 0 ELSE 800 + 8 * (10 * Len(d.variants) + c)]]
                 a2 == IF i2 = 0 \/ i2 = i THEN <<>>
                       ELSE <<[n |-> L[i2].n, v |-> [c \in 1..L[i2].w |-> 1600 + 8 * c]]>>
                 unk == [n |-> "nosuch", v |-> <<24>>]
                 j == IF Len(L) >= 2 THEN (i % Len(L)) + 1 ELSE i      \* a pair names a parameter once (it is a dict)
                 big == [n |-> L[j].n, v |-> [c \in 1..(L[j].w + 1) |-> 2400 + 8 * c]] IN
             \* fl: the driver side pads the key so that Len(defname.key) = fl (the trace spec measures the real name)
             \E bad \in VarBad :
             d' = [d EXCEPT !.variants = Append(@, [n |-> "v" \o ToString(Len(@)), fl |-> fl,
                                                    set |-> CASE bad = "unknown_last" -> <<a1>> \o a2 \o <<unk>>
                                                              [] bad = "oversize_last" -> IF j = i THEN <<big>> ELSE <<a1, big>>
                                                              [] bad = "unknown_first" -> <<unk, a1>> \o a2
                                                              [] OTHER -> <<a1>> \o a2])]
    /\ UNCHANGED phase

Emit == /\ phase = "build" /\ NParams(d) >= MinEmit /\ (SimMode => NParams(d) \in EmitAt)
        /\ \A h \in HistChoices : PrintT(<<"DEF", ToJson([d EXCEPT !.hist = h])>>)
        /\ phase' = "done" /\ UNCHANGED d

Next == AddBound \/ AddParam \/ OpenWrap \/ AddVariant \/ Emit
Spec == Init /\ [][Next]_vars

\* ---- invariants (one per line in the cfg)
InvWellFormed == WellFormed(d)
InvTiles == Tiles(Layout(d))
InvOrdered == Ordered(Layout(d))
InvNames == NamesPointAtDefaults(Layout(d))
InvLag == LagOnlyOnControlRate(Layout(d))
InvL2CoversL1 == L2CoversL1(d)
InvVariants == /\ VariantsLocal(d)
               /\ LET L == Layout(d)  wr == WrittenVariantsL(d, L) IN
                  /\ \A v \in 1..Len(wr) : VariantOK(L, wr[v]) /\ wr[v] = d.variants[v]
                  /\ Len(wr) < Len(d.variants) => Refused(d, L, d.variants[Len(wr) + 1])
=============================================================================
