SPECIFICATION TSpec
