SPECIFICATION Spec
CONSTANTS
  Window <- WindowS
  Quanta <- QuantaS
INVARIANT LazyAccepts
INVARIANT LazyEnds
INVARIANT LazyIsShort
INVARIANT LazyPatternsRestart
INVARIANT LazyConserves
INVARIANT LazyResetRestores
INVARIANT LazyInputReaches
INVARIANT LazyGeneratorDies
