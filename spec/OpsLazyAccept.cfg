SPECIFICATION Spec
CONSTANTS
  Window <- WindowS
  Quanta <- QuantaS
INVARIANT LazyAccepts
