SPECIFICATION TSpec
