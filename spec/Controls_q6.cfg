SPECIFICATION Spec
CONSTANTS
  Annots <- AnNone
  OvChoices <- OvOne
  DfChoices <- DfTiny
  SpChoices <- SpNone
  BoundVals = {24, 7}
  MaxFuncs = 1
  MaxParams = 1
  MaxTotal = 1
  MaxBound = 0
  MaxVariants = 3
  MinEmit = 1
  SimMode = FALSE
  VarLens = {0, 30, 31, 32, 33}
  VarW = {1}
  VarBad = {"none"}
  HistChoices <- HistTwo
INVARIANT InvWellFormed
INVARIANT InvTiles
INVARIANT InvOrdered
INVARIANT InvNames
INVARIANT InvLag
INVARIANT InvL2CoversL1
INVARIANT InvVariants
