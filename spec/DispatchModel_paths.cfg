SPECIFICATION Spec
CONSTANTS
  MaxResp = 3
  MaxRecv = 1
  MaxOps = 4
  Mode = "paths"
INVARIANT SpentNotEnabled
INVARIANT EachOnce
INVARIANT OrdConsistent
PROPERTY FreedNeverFires
PROPERTY DisabledNeverFires
PROPERTY OrderIsRegistrationOrder
PROPERTY NoRemovalDuringDelivery
PROPERTY SpecIsLegal
PROPERTY UntouchedFireOnce
