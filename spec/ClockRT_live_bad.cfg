SPECIFICATION Spec
CONSTANTS
  Tasks = {"a", "b"}
  Deltas = {0, 4, 8}
  Tempi = {1}
  MaxNow = 8
  MaxResched = 1
  NotifyRule = "empty"
PROPERTY EventuallyRun
