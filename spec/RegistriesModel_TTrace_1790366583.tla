---- MODULE RegistriesModel_TTrace_1790366583 ----
EXTENDS Sequences, TLCExt, Toolbox, RegistriesModel, Naturals, TLC

_expression ==
    LET RegistriesModel_TEExpression == INSTANCE RegistriesModel_TEExpression
    IN RegistriesModel_TEExpression!expression
----

_trace ==
    LET RegistriesModel_TETrace == INSTANCE RegistriesModel_TETrace
    IN RegistriesModel_TETrace!trace
----

_inv ==
    ~(
        TLCGet("level") = Len(_TETrace)
        /\
        pre = (<<[v |-> 0, k |-> "c"], [v |-> 1, k |-> "a"]>>)
        /\
        log = (<<[a |-> "c", arg |-> 0], [a |-> "a", arg |-> 0]>>)
        /\
        reg = (<<[v |-> 0, k |-> "a"]>>)
        /\
        n = (3)
    )
----

_init ==
    /\ log = _TETrace[1].log
    /\ n = _TETrace[1].n
    /\ reg = _TETrace[1].reg
    /\ pre = _TETrace[1].pre
----

_next ==
    /\ \E i,j \in DOMAIN _TETrace:
        /\ \/ /\ j = i + 1
              /\ i = TLCGet("level")
        /\ log  = _TETrace[i].log
        /\ log' = _TETrace[j].log
        /\ n  = _TETrace[i].n
        /\ n' = _TETrace[j].n
        /\ reg  = _TETrace[i].reg
        /\ reg' = _TETrace[j].reg
        /\ pre  = _TETrace[i].pre
        /\ pre' = _TETrace[j].pre

\* Uncomment the ASSUME below to write the states of the error trace
\* to the given file in Json format. Note that you can pass any tuple
\* to `JsonSerialize`. For example, a sub-sequence of _TETrace.
    \* ASSUME
    \*     LET J == INSTANCE Json
    \*         IN J!JsonSerialize("RegistriesModel_TTrace_1790366583.json", _TETrace)

=============================================================================

 Note that you can extract this module `RegistriesModel_TEExpression`
  to a dedicated file to reuse `expression` (the module in the 
  dedicated `RegistriesModel_TEExpression.tla` file takes precedence 
  over the module `RegistriesModel_TEExpression` below).

---- MODULE RegistriesModel_TEExpression ----
EXTENDS Sequences, TLCExt, Toolbox, RegistriesModel, Naturals, TLC

expression == 
    [
        \* To hide variables of the `RegistriesModel` spec from the error trace,
        \* remove the variables below.  The trace will be written in the order
        \* of the fields of this record.
        log |-> log
        ,n |-> n
        ,reg |-> reg
        ,pre |-> pre
        
        \* Put additional constant-, state-, and action-level expressions here:
        \* ,_stateNumber |-> _TEPosition
        \* ,_logUnchanged |-> log = log'
        
        \* Format the `log` variable as Json value.
        \* ,_logJson |->
        \*     LET J == INSTANCE Json
        \*     IN J!ToJson(log)
        
        \* Lastly, you may build expressions over arbitrary sets of states by
        \* leveraging the _TETrace operator.  For example, this is how to
        \* count the number of times a spec variable changed up to the current
        \* state in the trace.
        \* ,_logModCount |->
        \*     LET F[s \in DOMAIN _TETrace] ==
        \*         IF s = 1 THEN 0
        \*         ELSE IF _TETrace[s].log # _TETrace[s-1].log
        \*             THEN 1 + F[s-1] ELSE F[s-1]
        \*     IN F[_TEPosition - 1]
    ]

=============================================================================



Parsing and semantic processing can take forever if the trace below is long.
 In this case, it is advised to uncomment the module below to deserialize the
 trace from a generated binary file.

\*
\*---- MODULE RegistriesModel_TETrace ----
\*EXTENDS IOUtils, RegistriesModel, TLC
\*
\*trace == IODeserialize("RegistriesModel_TTrace_1790366583.bin", TRUE)
\*
\*=============================================================================
\*

---- MODULE RegistriesModel_TETrace ----
EXTENDS RegistriesModel, TLC

trace == 
    <<
    ([pre |-> <<>>,log |-> <<>>,reg |-> <<>>,n |-> 0]),
    ([pre |-> <<>>,log |-> <<>>,reg |-> <<[v |-> 0, k |-> "c"]>>,n |-> 1]),
    ([pre |-> <<[v |-> 0, k |-> "c"]>>,log |-> <<>>,reg |-> <<[v |-> 0, k |-> "c"], [v |-> 1, k |-> "a"]>>,n |-> 2]),
    ([pre |-> <<[v |-> 0, k |-> "c"], [v |-> 1, k |-> "a"]>>,log |-> <<[a |-> "c", arg |-> 0], [a |-> "a", arg |-> 0]>>,reg |-> <<[v |-> 0, k |-> "a"]>>,n |-> 3])
    >>
----


=============================================================================

---- CONFIG RegistriesModel_TTrace_1790366583 ----
CONSTANTS
    MaxOps = 6

INVARIANT
    _inv

CHECK_DEADLOCK
    \* CHECK_DEADLOCK off because of PROPERTY or INVARIANT above.
    FALSE

INIT
    _init

NEXT
    _next

CONSTANT
    _TETrace <- _trace

ALIAS
    _expression
=============================================================================
\* Generated on Fri Sep 25 20:03:04 UTC 2026