------------------------------ MODULE OscDsend ------------------------------
(* C06: SynthDef._do_send's size-based choice between /d_recv and /d_load, for definition sizes
   straddling the limit and every documented form of the completion message (None, message list,
   bundle list, a function of the server returning each).  L2 (DSendChoice: the prediction made on the
   resolved argument list, threshold 65504) against L1 (DSendSafe: what is sent as /d_recv fits).  The
   two Pick actions are the vacuity guard: for every completion form the decision flips inside the
   window of sizes.                                                                     *)
EXTENDS OscSize
VARIABLES n, cm, ch
vars == <<n, cm, ch>>
I(hi, lo) == [t |-> "i", hi |-> hi, lo |-> lo]
S(b) == [t |-> "s", b |-> b]
M(a, args) == [t |-> "m", a |-> a, args |-> args]
Fn(v) == [t |-> "fn", ret |-> v]
SNew == <<47, 115, 95, 110, 101, 119>>
Direct == {[t |-> "N"], M(SNew, <<S(<<120>>), I(0, 1001)>>), M(SNew, <<S(<<195, 177, 195, 177, 195, 177>>), I(0, 1)>>),
          M(SNew, <<S(<<120>>), [t |-> "b", b |-> <<1, 2, 3, 4, 5>>], M(<<47, 110, 95, 115, 101, 116>>, <<I(0, 1)>>)>>),
          [t |-> "B", time |-> [t |-> "lat", b |-> <<0, 0, 0, 0, 128, 0, 0, 0>>], el |-> <<M(SNew, <<S(<<120>>)>>)>>]}
Forms == Direct \cup {Fn(v) : v \in Direct} \cup {Fn(Fn([t |-> "N"]))}
Sizes == 65380..65500
Init == n = 0 /\ cm = [t |-> "N"] /\ ch = "init"
PickRecv == /\ ch = "init"
            /\ \E k \in Sizes, f \in Forms : DSendChoice(k, f) = "/d_recv" /\ n' = k /\ cm' = f /\ ch' = "/d_recv"
PickLoad == /\ ch = "init"
            /\ \E k \in Sizes, f \in Forms : DSendChoice(k, f) = "/d_load" /\ n' = k /\ cm' = f /\ ch' = "/d_load"
PickRaise == /\ ch = "init"
             /\ \E k \in Sizes, f \in Forms : DSendChoice(k, f) = "raise" /\ n' = k /\ cm' = f /\ ch' = "raise"
Next == PickRecv \/ PickLoad \/ PickRaise
Spec == Init /\ [][Next]_vars
InvSafe == ch = "init" \/ DSendSafe(n, cm)
\* the prediction is exact or above on the resolved list (PredNotBelow), never on the unresolved one
InvPred == (ch \in {"/d_recv", "/d_load"}) => Pred(DRecvMsg(n, cm)) >= EncLen(DRecvMsg(n, cm))
\* the window is wide enough: every predictable form is sent directly for the smallest size and by file for the largest
Flips == \A f \in Forms : Predictable(DRecvMsg(65380, f)) => DSendChoice(65380, f) = "/d_recv" /\ DSendChoice(65500, f) = "/d_load"
=============================================================================
