SPECIFICATION Spec
CONSTANTS
  MaxArgs = 3
  MaxEls = 3
  MaxDepth = 3
  Emitting = FALSE
INVARIANT InvRoundTrip
INVARIANT InvAligned
INVARIANT InvLenAgrees
INVARIANT InvPredNotBelow
INVARIANT InvRefusesNonAscii
