--------------------------- MODULE TraceServerCmd ---------------------------
(* C->S binding for C17: decides recorded API histories of the real sc3 client objects.  A trace is
   [id, cfg, ev]; cfg = [client, logins, nbuf, ncb, nab, io, initnode, latency, defgroup, groups];
   an event is one API call with its abstract arguments, the ids the object reports afterwards, the
   exception class ("" = none) and `em`, the wire events captured at the OSC interface during the
   call (decoded from the datagram bytes).  Why() of ServerCmd.tla names the first failing clause. *)
EXTENDS ServerCmd, Json, IOUtils
Traces == JsonDeserialize(IOEnv.VERIF_TRACES)
VARIABLES st, tid, l
tvars == <<st, tid, l>>
TInit == tid \in 1 .. Len(Traces) /\ l = 1 /\ st = InitState(Traces[tid].cfg)
TStep == /\ l >= 1 /\ l <= Len(Traces[tid].ev)
         /\ LET e == Traces[tid].ev[l]
                why == Why(st, e) IN
            IF why = "ok"
            THEN st' = Step(st, e).st /\ l' = l + 1 /\ tid' = tid
            ELSE PrintT(<<"REJ", Traces[tid].id, l, why>>) /\ l' = 0 /\ UNCHANGED <<st, tid>>
TDone == /\ l = Len(Traces[tid].ev) + 1
         /\ PrintT(<<"ACC", Traces[tid].id>>)
         /\ l' = 0 - 1 /\ UNCHANGED <<st, tid>>
TNext == TStep \/ TDone
TSpec == TInit /\ [][TNext]_tvars
=============================================================================
