----------------------------- MODULE EventModel -----------------------------
(* C14 design model: TLC enumerates (a) events over subsets of the pitch / amplitude / duration keys with small
   values and (b) small compositions of Pbind / Pmono / Ppar / Pchain / Pdur / Pdelta / Pseq over finite value
   lists, evaluates the operators of Event.tla on each, checks laws that cross-examine the oracle (precedence
   of explicit keys, octave / transposition shifts, one creation bundle per sounding note, gate-off exactly for
   gated instruments, scores ordered by time, Ppar = union of the children's own timelines, Pdur total), and
   exports them for replay on the real code under NRT (S->C).                                               *)
EXTENDS Event, Json, IOUtils, SequencesExt

CONSTANTS Mode, NB

(* ---- (a) events ---- *)
Opt(k, vals) == {<<>>} \cup {[x \in {k} |-> v] : v \in vals}          \* key absent, or present with one of vals
RECURSIVE Combine(_)
Combine(sets) == IF sets = <<>> THEN {<<>>} ELSE {Merge(a, b) : a \in Head(sets), b \in Combine(Tail(sets))}
P64(S) == {V(x * 64) : x \in S}
rich == Mode # "quick"
PitchMain == {<<>>} \cup {[x \in {"degree"} |-> V(d * 64)] : d \in (IF rich THEN {0 - 9, 0 - 2, 0, 3, 7, 9} ELSE {0 - 2, 3, 9})}
                    \cup {[x \in {"note"} |-> V(n * 64)] : n \in {0, 7}}
                    \cup {[x \in {"midinote"} |-> V(m * 64)] : m \in {57, 60, 69}}
                    \cup {[x \in {"freq"} |-> V(f)] : f \in {440 * 8, 1765}}            \* 440 Hz, 220.625 Hz
                    \cup {Merge([x \in {"degree"} |-> V(2 * 64)], [x \in {"midinote"} |-> V(69 * 64)]),
                          Merge([x \in {"freq"} |-> V(440 * 8)], [x \in {"midinote"} |-> V(60 * 64)]),
                          Merge([x \in {"freq"} |-> V(220 * 8)], [x \in {"degree"} |-> V(4 * 64)]),
                          Merge([x \in {"note"} |-> V(9 * 64)], [x \in {"degree"} |-> V(1 * 64)])}
PitchMods == Combine(<<Opt("mtranspose", P64({1})), Opt("gtranspose", P64(IF rich THEN {2, 0 - 3} ELSE {2})), Opt("root", P64({3})),
                       Opt("octave", P64(IF rich THEN {3, 4, 6} ELSE {4})), Opt("ctranspose", {V(64), V(32)}),
                       Opt("scale", {VS(s) : s \in (IF rich THEN {"minor", "penta", "chromatic", "whole"} ELSE {"penta"})}),
                       Opt("harmonic", {V(16)} \cup (IF rich THEN {V(4)} ELSE {})), Opt("detune", {V(4 * 8)})>>)
AmpEvs == Combine(<<Opt("amp", {V(512), V(256)}), Opt("db", {V(0 - 40), V(0 - 20), V(0), V(20), V(0 - 6)}), Opt("velocity", {V(64), V(127)})>>)
DurEvs == Combine(<<Opt("dur", {V(16), V(64), V(4)}), Opt("stretch", {V(16), V(64)}), Opt("legato", {V(16), V(32), V(48)}),
                    Opt("delta", {V(24)}), Opt("sustain", {V(8), V(40)})>>)
PitchEvs == {Merge(a, b) : a \in PitchMain, b \in PitchMods}
Evs == CASE Mode = "tiny" -> {Merge(a, b) : a \in PitchMain, b \in Opt("octave", P64({4}))} \cup DurEvs
         [] OTHER -> PitchEvs \cup AmpEvs \cup DurEvs
\* the lookups asked of an event, and whether the oracle gives a comparable value
Keys == <<"note", "midinote", "freq", "amp", "delta", "sustain">>
Comparable(ev, key) == Lookup(ev, key).k \notin {"un", "db"}

LawsEv(ev) ==
    /\ Has(ev, "midinote") => MidiNote(ev) = ev["midinote"].n                               \* explicit keys win
    /\ Has(ev, "freq") => FreqBase(ev) = [k |-> "hz", n |-> ev["freq"].n * 8]
    /\ Has(ev, "amp") => Amp(ev).n = ev["amp"].n * (AU \div 1024)
    /\ Has(ev, "sustain") => SustainU(ev) = ev["sustain"].n * (U \div 32)
    /\ (~Has(ev, "midinote") /\ ~Has(ev, "octave") /\ (Has(ev, "degree") \/ Has(ev, "note")))
          => MidiNote(Merge(ev, [x \in {"octave"} |-> V(6 * 64)])) = MidiNote(ev) + 12 * 64    \* an octave up
    /\ (~Has(ev, "midinote") /\ ~Has(ev, "note") /\ Has(ev, "degree") /\ ~Has(ev, "mtranspose"))
          => LET L == Len(ScaleOf(ev)) IN
             MidiNote(Merge(ev, [x \in {"mtranspose"} |-> V(L * 64)])) = MidiNote(ev) + 12 * 64   \* a scale length of modal steps = an octave
    /\ (~Has(ev, "delta") /\ ~Has(ev, "sustain") /\ Has(ev, "legato")) => SustainU(ev) * 32 = DeltaU(ev) * ev["legato"].n
    /\ DeltaU(ev) >= 0

(* ---- (b) programs ---- *)
KL(k, vs) == [k |-> k, vs |-> vs, m |-> "list", x |-> 0]
KC(k, v) == [k |-> k, vs |-> <<v>>, m |-> "k", x |-> 0]
KP(k, vs, x) == [k |-> k, vs |-> vs, m |-> "pconst", x |-> x]
Bind(ks) == [t |-> "bind", ks |-> ks]
Mono(s, ks) == [t |-> "mono", s |-> s, ks |-> ks, ar |-> FALSE]
MonoA(s, ks) == [t |-> "mono", s |-> s, ks |-> ks, ar |-> TRUE]
SeqP(l) == [t |-> "seq", l |-> l]
Chain(a, b) == [t |-> "chain", l |-> <<a, b>>]
DeltaP(x, p) == [t |-> "delta", x |-> x, p |-> p]
DurP(x, p) == [t |-> "dur", x |-> x, p |-> p, tl |-> 0]
DurPT(x, tl, p) == [t |-> "dur", x |-> x, p |-> p, tl |-> tl]
Par(l) == [t |-> "par", l |-> l]
MN(S) == [i \in 1..Len(S) |-> V(S[i] * 64)]
D32(S) == [i \in 1..Len(S) |-> V(S[i])]
\* a pool of Pbinds: different instruments, lengths, durations, rests, explicit/derived pitch, extra controls
BA == Bind(<<KC("instrument", VS("vg")), KL("midinote", MN(<<60, 62, 69>>)), KC("dur", V(16)), KC("legato", V(16))>>)
BB == Bind(<<KC("instrument", VS("vn")), KL("degree", MN(<<0, 2, 4, 7>>)), KL("dur", D32(<<8, 24, 8, 16>>)), KC("amp", V(512))>>)
BC == Bind(<<KC("instrument", VS("vx")), KL("freq", <<V(440 * 8), V(220 * 8), V(1765)>>), KL("dur", D32(<<24, 24, 24>>)),
             KC("legato", V(32)), KC("cutoff", V(2048)), KC("out", V(2 * 1024)), KC("pan", V(0 - 512))>>)
BR == Bind(<<KC("instrument", VS("vg")), KL("midinote", <<V(57 * 64), VR(0), V(81 * 64), V(60 * 64)>>), KL("dur", D32(<<16, 16, 8, 8>>)), KC("legato", V(48))>>)
BD == Bind(<<KC("instrument", VS("vg")), KC("midinote", V(69 * 64)), KL("dur", <<V(16), VR(8), V(8)>>), KC("legato", V(16))>>)   \* a rest given as duration
BI == Bind(<<KC("instrument", VS("vg")), KC("degree", V(64)), KC("dur", V(8)), KC("legato", V(16))>>)                             \* endless
BK == Bind(<<KC("instrument", VS("vn")), KL("midinote", MN(<<45, 57>>)), KP("dur", D32(<<16, 16, 16>>), 40)>>)                    \* Pconst-limited durations
BL == Bind(<<KC("instrument", VS("vp")), KL("dur", D32(<<32, 32>>)), KC("amp", V(256)), KC("stretch", V(16))>>)                   \* no freq control
BG == Bind(<<KC("instrument", VS("vg")), KL("degree", MN(<<0, 1>>)), KC("dur", V(32)), KC("send_gate", V(0)), KC("add_action", VS("addToTail")), KC("group", V(1))>>)
\* durations off the 0.001 s grid (3/32, 5/32, ...): the default tolerance then rounds every partial sum
BO == Bind(<<KC("instrument", VS("vn")), KL("midinote", MN(<<60, 61, 62, 63, 64, 65>>)), KL("dur", D32(<<3, 5, 3, 6, 5, 10>>))>>)
\* partial sums 4 16 22 32 40 48 (in 1/32 s) against explicit tolerances 1/4 and 1/2 s
BT == Bind(<<KC("instrument", VS("vn")), KL("midinote", MN(<<60, 61, 62, 63, 64, 65>>)), KL("dur", D32(<<4, 12, 6, 10, 8, 8>>)), KC("legato", V(16))>>)
BDef == Bind(<<KC("instrument", VS("vg")), KL("degree", MN(<<0, 5>>)), KC("dur", V(32))>>)                                       \* default legato 0.8
Over == Bind(<<KL("ctranspose", MN(<<12, 12, 12, 12>>)), KC("amp", V(128))>>)
Over2 == Bind(<<KC("instrument", VS("vn")), KL("harmonic", <<V(16), V(16), V(8)>>)>>)
MA == Mono("vg", <<KL("midinote", MN(<<60, 64, 69>>)), KC("dur", V(16)), KC("amp", V(512))>>)
MB == Mono("vn", <<KL("degree", MN(<<0, 2>>)), KL("dur", D32(<<8, 24>>))>>)
MI == Mono("vx", <<KC("freq", V(440 * 8)), KC("dur", V(16)), KC("cutoff", V(1024))>>)
\* articulated voices: slurred / detached by legato, by an explicit sustain or delta that disagrees with legato, with
\* stretch, with rests, on a gateless instrument
AA == MonoA("vg", <<KL("midinote", MN(<<60, 61, 62, 63, 64, 65>>)), KC("dur", V(16)), KL("legato", D32(<<40, 16, 40, 40, 16, 40>>)), KC("amp", V(512))>>)
AB == MonoA("vg", <<KL("midinote", MN(<<60, 62, 64, 65>>)), KC("dur", V(32)), KL("sustain", D32(<<48, 16, 48, 48>>))>>)                    \* default legato 0.8 says detached
AC == MonoA("vx", <<KL("degree", MN(<<0, 1, 2, 3, 4>>)), KC("dur", V(32)), KL("delta", D32(<<16, 16, 40, 16, 16>>)), KC("cutoff", V(2048))>>) \* sustain 0.8 against delta 0.5 / 1.25
AD == MonoA("vg", <<KL("midinote", <<V(60 * 64), V(62 * 64), VR(0), V(65 * 64), V(67 * 64)>>), KL("dur", D32(<<8, 16, 8, 8, 16>>)), KC("legato", V(48)), KC("stretch", V(16))>>)
AE == MonoA("vn", <<KL("midinote", MN(<<57, 59, 61>>)), KC("dur", V(16)), KL("legato", D32(<<32, 32, 8>>)), KC("stretch", V(64))>>)             \* gateless: /n_free
AF == MonoA("vg", <<KL("midinote", MN(<<60, 61, 62>>)), KC("dur", V(16)), KC("legato", V(64)), KL("sustain", D32(<<4, 40, 4>>))>>)               \* legato 2 but explicit short sustains
AI == MonoA("vg", <<KC("midinote", V(60 * 64)), KC("dur", V(8)), KC("legato", V(40))>>)                                                          \* endless, slurred
\* Ppar as the LEFT operand of Pchain: the right operand supplies different values at every step (also to the rest
\* that follows a child's end); children of unequal total durations
CS == Bind(<<KC("instrument", VS("vg")), KL("midinote", MN(<<60, 62>>)), KC("dur", V(32))>>)
CL == Bind(<<KC("instrument", VS("vn")), KL("midinote", MN(<<72, 74, 76, 77>>)), KC("dur", V(48))>>)
CM == Bind(<<KC("instrument", VS("vx")), KL("midinote", MN(<<48, 50, 52>>)), KL("dur", D32(<<16, 16, 40>>))>>)
RA == Bind(<<KL("amp", [i \in 1..9 |-> V(64 * i)]), KL("legato", D32(<<8, 16, 24, 32, 40, 48, 56, 64, 72>>))>>)
RS == Bind(<<KL("pan", [i \in 1..8 |-> V(128 * i - 512)]), KL("stretch", D32(<<32, 16, 32, 64, 16, 32, 32, 64>>)), KC("legato", V(16))>>)
RShort == Bind(<<KL("amp", [i \in 1..5 |-> V(100 * i)]), KC("legato", V(32))>>)
ChainLeft == {Chain(Par(<<a, b>>), rr) : a \in {CS, CL, CM}, b \in {CS, CL, CM}, rr \in {RA, RS, RShort}}
             \cup {Chain(Par(<<CS, CL, CM>>), RA), Chain(Par(<<CM, CS, CL>>), RS), Chain(SeqP(<<CS, Par(<<CS, CL>>), CM>>), RA),
                   Chain(DurP(80, Par(<<CS, CL>>)), RA), Chain(DeltaP(12, Par(<<CL, CS>>)), RA), Chain(SeqP(<<CM, CS>>), RS)}
Artics == {AA, AB, AC, AD, AE, AF}
Binds == {BA, BB, BC, BR, BD, BK, BL, BG, BDef}
FewBinds == {BA, BB, BR}
Progs1 == Binds \cup {MA, MB}
    \cup {SeqP(<<a, b>>) : a \in FewBinds, b \in Binds}
    \cup {Par(<<a, b>>) : a \in Binds, b \in Binds}
    \cup {Par(<<a, b, c>>) : a \in FewBinds, b \in {BC, BD}, c \in {BB, BK}}
    \cup {DurP(x, a) : x \in {8, 24, 40, 100}, a \in Binds \cup {BI, MA, MI}}
    \cup {DurP(x, Par(<<a, b>>)) : x \in {20, 36}, a \in FewBinds \cup {BI}, b \in {BC, BI}}
    \cup {DurP(x, BO) : x \in {7, 12, 17, 22}} \cup {SeqP(<<DurP(12, BO), BA>>), DurP(20, Par(<<BO, BA>>))}
    \cup {DurPT(x, tl, a) : x \in {20, 24, 30, 33}, tl \in {8, 16}, a \in {BT, BI}}
    \cup {SeqP(<<DurPT(24, 8, BT), BA>>), DurPT(30, 16, Par(<<BT, BA>>))}
    \cup {DeltaP(x, a) : x \in {0, 12}, a \in FewBinds}
    \cup {Par(<<a, DeltaP(x, b)>>) : x \in {8, 20}, a \in FewBinds, b \in {BA, BC}}
    \cup {Chain(o, a) : o \in {Over, Over2}, a \in {BA, BB, BR, BDef}}
    \cup {Par(<<m, a>>) : m \in {MA, MB}, a \in FewBinds}
    \cup {SeqP(<<m, a>>) : m \in {MA, MB}, a \in {BA}}
    \cup ChainLeft
    \cup Artics \cup {Par(<<a, b>>) : a \in Artics, b \in {BA, BB}} \cup {SeqP(<<a, BA>>) : a \in Artics}
    \cup {DurP(x, a) : x \in {20, 40, 52}, a \in Artics \cup {AI}} \cup {Chain(o, a) : o \in {Over, Over2}, a \in {AA, AB, AC}}
    \cup {DurP(36, Par(<<AI, BA>>)), Par(<<AA, AB>>)}
    \cup {DurP(24, Par(<<MI, BA>>)), SeqP(<<DurP(20, BI), BB>>), Par(<<DurP(20, BI), BB>>), DurP(28, Chain(Over, BI))}
Progs == CASE Mode = "chainleft" -> ChainLeft
           [] Mode = "artic" -> Artics \cup {Par(<<AA, BA>>), DurP(20, AI), Chain(Over, AB)}
           [] Mode = "tiny" -> {BA, BR, Par(<<BA, BB>>), DurP(24, BI), MA, Chain(Over, BA), DeltaP(12, BB)}
           [] Mode = "quick" -> Progs1
           [] OTHER -> Progs1 \cup {Par(<<a, b, c>>) : a \in Binds, b \in Binds, c \in {BB, MA}}
                              \cup {DurP(x, Par(<<a, b>>)) : x \in {12, 44}, a \in Binds, b \in Binds}
Starts == {<<0, 0>>, <<8, 8>>, <<32, 4>>}      \* <<start, latency>> in 1/32 s

\* laws of the score
Snew(sc) == SelectSeq(sc, LAMBDA b : b.cmd = "/s_new")
Sounding(its) == SelectSeq(its, LAMBDA it : it.ty \in {"note", "mono_on"} /\ ~IsRest(it.e))
Bag(sc) == LET keyed == [i \in 1..Len(sc) |-> [sc[i] EXCEPT !.ref = 0]] IN
           [b \in {keyed[i] : i \in 1..Len(sc)} |-> Cardinality({i \in 1..Len(sc) : keyed[i] = b})]
LawsProg(E) ==
    LET sc == Score(E, 64 * (U \div 32), 8 * (U \div 32)) its == Items(E) IN
    /\ \A i \in 1..(Len(sc) - 1) : sc[i].t <= sc[i + 1].t                                     \* ordered by time
    /\ Len(Snew(sc)) = Len(Sounding(its))                                                     \* one creation per sounding event
    /\ \A i \in 1..Len(sc) : sc[i].cmd = "/s_new" => sc[i].t >= 72 * (U \div 32)              \* never before start + latency
    /\ \A i, j \in 1..Len(sc) : (i # j /\ sc[i].cmd = "/s_new" /\ sc[j].cmd = "/s_new") => sc[i].ref # sc[j].ref
    /\ \A i \in 1..Len(sc) : sc[i].cmd # "/s_new" => \E j \in 1..Len(sc) : sc[j].cmd = "/s_new" /\ sc[j].ref = sc[i].ref /\ sc[j].t <= sc[i].t
    /\ (E.t = "par" /\ \A i \in 1..Len(E.l) : E.l[i].t \in {"bind", "mono", "delta"})
          => Bag(sc) = Bag(FlattenSeq([i \in 1..Len(E.l) |-> Score(E.l[i], 64 * (U \div 32), 8 * (U \div 32))]))   \* each child keeps its own timeline
    /\ (E.t = "dur" /\ SumDelta(Items(E.p), Len(Items(E.p))) >= E.x * (U \div 32)) => EndTime(E, 0) = E.x * (U \div 32)   \* whatever the tolerance

(* ---- machine: pick an event or a program; evaluate ---- *)
VARIABLES kind, ix, picked
vars == <<kind, ix, picked>>
EvSeqAll == TLCGet(7)
ProgSeqAll == TLCGet(8)
Mark(k, name) == IF TLCGet(k) = 0 THEN PrintT(<<"ACT", name>>) /\ TLCSet(k, 1) ELSE TRUE
Init == kind \in {"ev", "prog"} /\ ix \in 1..NB /\ picked = FALSE
PickEvent == kind = "ev" /\ (IF picked THEN ix + NB ELSE ix) <= Len(EvSeqAll) /\ ix' = (IF picked THEN ix + NB ELSE ix)
             /\ picked' = TRUE /\ UNCHANGED kind /\ Mark(10, "PickEvent")
PickProgram == kind = "prog" /\ (IF picked THEN ix + NB ELSE ix) <= Len(ProgSeqAll) /\ ix' = (IF picked THEN ix + NB ELSE ix)
               /\ picked' = TRUE /\ UNCHANGED kind /\ Mark(11, "PickProgram")
Next == PickEvent \/ PickProgram
Spec == Init /\ [][Next]_vars
LawsHold == picked => IF kind = "ev" THEN LawsEv(EvSeqAll[ix]) ELSE LawsProg(ProgSeqAll[ix])

ASSUME TLCSet(7, SetToSeq(Evs)) /\ TLCSet(8, SetToSeq(Progs)) /\ \A k \in 10..11 : TLCSet(k, 0)
ExpEv(ev) == [ev |-> ev, keys |-> SelectSeq(Keys, LAMBDA k : Comparable(ev, k))]
ASSUME IF "VERIF_EXPORT_EV" \in DOMAIN IOEnv
       THEN ndJsonSerialize(IOEnv.VERIF_EXPORT_EV, [i \in 1..Len(TLCGet(7)) |-> ExpEv(TLCGet(7)[i])]) ELSE TRUE
ASSUME IF "VERIF_EXPORT_PROG" \in DOMAIN IOEnv THEN ndJsonSerialize(IOEnv.VERIF_EXPORT_PROG, TLCGet(8)) ELSE TRUE
ASSUME PrintT(<<"ENUM", Mode, Len(TLCGet(7)), Len(TLCGet(8))>>)
=============================================================================
