SPECIFICATION TSpec
