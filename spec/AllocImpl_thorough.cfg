SPECIFICATION Spec
CONSTANTS
  Cfgs <- CfgsBig
  MaxN = 10
  MaxId = 14
  PinnedFindNext = FALSE
  MaxDepth = 100000
  FreeAnywhere = TRUE
CONSTRAINT Depth
VIEW Real
INVARIANT StepRefines
INVARIANT BlocksRefine
INVARIANT L1Disjoint
INVARIANT L1Inside
INVARIANT ArrIndexed
INVARIANT Tiling
INVARIANT TopIsLast
INVARIANT FreedExact
INVARIANT FkeysExact
INVARIANT Coalesced
