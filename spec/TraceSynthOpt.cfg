SPECIFICATION TSpec
