---------------------------- MODULE TraceClock ----------------------------
(* C->S binding for C08: every execution of the real clocks recorded under the controlled scheduler is
   folded through the ClockL1 monitor; one verdict line per trace (see FRAMEWORK.md).            *)
EXTENDS ClockL1, Json, IOUtils
Traces == JsonDeserialize(IOEnv.VERIF_TRACES)
VARIABLES tid, l, st
TInit == /\ tid \in 1..Len(Traces) /\ l = 1
         /\ st = Init0(Traces[tid].clockthread)
TStep == /\ l >= 1 /\ l <= Len(Traces[tid].ev)
         /\ LET r == Step(st, Traces[tid].ev[l]) IN
            IF r.why = "ok" THEN st' = r.st /\ l' = l + 1 /\ tid' = tid
            ELSE /\ PrintT(<<"REJ", Traces[tid].id, l, r.why>>)
                 /\ l' = 0 /\ UNCHANGED <<st, tid>>
TDone == /\ l = Len(Traces[tid].ev) + 1
         /\ PrintT(<<"ACC", Traces[tid].id>>)
         /\ l' = 0 - 1 /\ UNCHANGED <<st, tid>>
TSpec == TInit /\ [][TStep \/ TDone]_<<tid, l, st>>
=============================================================================
