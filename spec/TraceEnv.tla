----------------------------- MODULE TraceEnv -----------------------------
(* C->S binding for C19: decides recorded executions of the real sc3 Env / EnvGen against the
   operators of Env.tla.  A trace is one envelope: how it was built (constructor name and
   arguments as rationals <<num, den>>) and a sequence of observations:
     n = "fmt"  : r = what Env(...)._envgen_format() returned (fixed point 2^20), off = offset
     n = "ugen" : r = inputs of the EnvGen unit decoded from the SynthDef bytes, ctl = the five
                  leading arguments
     n = "at"   : r = Env._at(t / 64)
   One verdict line per trace (<<"ACC", id>> or <<"REJ", id, index, why>>).                *)
EXTENDS Integers, Sequences, FiniteSets, TLC, Json, IOUtils
Levels == {} Times == {} Curves == {} MaxSeg == 0 MaxPts == 0 QTicks == {}
VARIABLES env, op, tq, fmt, val, part
INSTANCE Env
Traces == JsonDeserialize(IOEnv.VERIF_TRACES)
VARIABLES tid, l
tvars == <<env, op, tq, fmt, val, part, tid, l>>

\* does the documented constructor refuse these arguments?
Refused(t) ==
    CASE t.c = "step" -> Len(t.lv) # Len(t.tm)
      [] t.c = "pairs" -> Len(t.cv) # 1 /\ Len(t.cv) # Len(t.pts)
      [] OTHER -> FALSE
\* the envelope the documentation says this call builds
Built(t) ==
    LET p == t.p IN
    CASE t.c = "new" -> C_New(t.lv, t.tm, t.cv, t.rel, t.loop, t.off)
      [] t.c = "triangle" -> C_Triangle(p[1], p[2])
      [] t.c = "sine" -> C_Sine(p[1], p[2])
      [] t.c = "perc" -> C_Perc(p[1], p[2], p[3], t.cv)
      [] t.c = "linen" -> C_Linen(p[1], p[2], p[3], p[4], t.cv)
      [] t.c = "step" -> C_Step(t.lv, t.tm, None, t.loop, t.off)
      [] t.c = "cutoff" -> C_Cutoff(p[1], p[2], t.cv)
      [] t.c = "dadsr" -> C_Dadsr(p[1], p[2], p[3], p[4], p[5], p[6], t.cv, p[7])
      [] t.c = "adsr" -> C_Adsr(p[1], p[2], p[3], p[4], p[5], t.cv, p[6])
      [] t.c = "asr" -> C_Asr(p[1], p[2], p[3], t.cv)
      [] t.c = "xyc" -> C_Xyc([i \in 1..Len(t.pts) |-> <<t.pts[i].t, t.pts[i].l, t.pts[i].c>>])
      [] t.c = "pairs" -> C_Pairs([i \in 1..Len(t.pts) |-> <<t.pts[i].t, t.pts[i].l>>], t.cv)

\* name of the first entry of the server array that differs
DiffName(exp, obs, skip3) ==
    IF Len(exp) # Len(obs) THEN "fmt:length"
    ELSE LET bad == {j \in 1..Len(exp) : exp[j] # obs[j] /\ ~(skip3 /\ j = 3)} IN
         IF bad = {} THEN "ok"
         ELSE LET j == CHOOSE x \in bad : \A y \in bad : x <= y IN
              CASE j = 1 -> "fmt:initial-level"
                [] j = 2 -> "fmt:segment-count"
                [] j = 3 -> "fmt:release-node"
                [] j = 4 -> "fmt:loop-node"
                [] j > 4 /\ (j - 5) % 4 = 0 -> "fmt:target-level"
                [] j > 4 /\ (j - 5) % 4 = 1 -> "fmt:duration"
                [] j > 4 /\ (j - 5) % 4 = 2 -> "fmt:shape-number"
                [] OTHER -> "fmt:curvature"

LatticeEnv(e) == /\ \A i \in 1..Len(e.tm) : OnLattice(e.tm[i]) /\ e.tm[i][1] >= 0
                 /\ OnLattice(e.off)

Why(t, e) ==
    LET ok == ~Refused(t) /\ ValidCurves(Built(t))
        b == Built(t)
        \* Env.step with a release index: which node it denotes is not fixed by the statement
        freeRel == t.c = "step" /\ t.rel # None
    IN
    IF e.n = "fmt" THEN
        IF ~ok THEN (IF e.r.k = "exc" THEN "ok" ELSE "fmt:accepted-invalid")
        ELSE IF e.r.k # "ok" THEN "fmt:raised"
        ELSE LET d == DiffName(FormatSeq(b), e.r.v, freeRel) IN
             IF d # "ok" THEN d
             ELSE IF e.off # Fix(b.off) THEN "offset"
             ELSE "ok"
    ELSE IF e.n = "ugen" THEN
        IF ~ok THEN (IF e.r.k = "exc" THEN "ok" ELSE "ugen:accepted-invalid")
        ELSE IF e.r.k # "ok" THEN "ugen:raised"
        ELSE IF Len(e.r.v) < 5 \/ SubSeq(e.r.v, 1, 5) # [i \in 1..5 |-> Fix(e.ctl[i])] THEN "ugen:controls"
        ELSE LET d == DiffName(FormatSeq(b), SubSeq(e.r.v, 6, Len(e.r.v)), freeRel) IN
             IF d # "ok" THEN "ugen:" \o d ELSE "ok"
    ELSE IF e.n = "at" THEN
        IF ~ok THEN "at:invalid-envelope-queried"
        ELSE IF ~LatticeEnv(b) THEN "at:off-lattice-query"
        ELSE IF e.r.k # "ok" THEN "at:raised"
        ELSE LET w == AtWhy(b, e.t, e.r.v[1]) IN IF w = "ok" THEN "ok" ELSE "at:" \o w
    ELSE "unknown-event"

\* multichannel traces (c = "mc"): lv, tm, cv hold one sequence of channel values per entry; observations carry
\* one array (r.vv[c]) or one value per channel
MCEnv(t) == MkEnv(t.lv, t.tm, t.cv, t.rel, t.loop, t.off)
RECURSIVE FirstBad(_, _, _, _)
FirstBad(m, vv, c, pre) ==
    IF c > NChan(m) THEN "ok"
    ELSE IF Len(vv[c]) < Len(pre) \/ SubSeq(vv[c], 1, Len(pre)) # pre THEN "mc:controls"
    ELSE LET d == DiffName(FormatSeq(Chan(m, c)), SubSeq(vv[c], Len(pre) + 1, Len(vv[c])), FALSE) IN
         IF d # "ok" THEN "mc:" \o d ELSE FirstBad(m, vv, c + 1, pre)
RECURSIVE FirstBadAt(_, _, _, _)
FirstBadAt(m, t, vv, c) ==
    IF c > NChan(m) THEN "ok"
    ELSE LET w == AtWhy(Chan(m, c), t, vv[c][1]) IN IF w # "ok" THEN "mc:at:" \o w ELSE FirstBadAt(m, t, vv, c + 1)
WhyMC(t, e) ==
    LET m == MCEnv(t) IN
    IF ~ValidMC(m) THEN (IF e.r.k = "exc" THEN "ok" ELSE "mc:accepted-invalid")
    ELSE IF e.r.k # "ok" THEN "mc:" \o e.n \o ":raised"
    ELSE IF Len(e.r.vv) # NChan(m) THEN "mc:" \o e.n \o ":channels"
    ELSE IF e.n = "fmt" THEN FirstBad(m, e.r.vv, 1, <<>>)
    ELSE IF e.n = "ugen" THEN FirstBad(m, e.r.vv, 1, [i \in 1..5 |-> Fix(e.ctl[i])])
    ELSE IF e.n = "at" THEN (IF \E c \in 1..NChan(m) : ~LatticeEnv(Chan(m, c)) THEN "mc:at:off-lattice-query"
                             ELSE IF \E c \in 1..NChan(m) : Len(e.r.vv[c]) # 1 THEN "mc:at:shape"
                             ELSE FirstBadAt(m, e.t, e.r.vv, 1))
    ELSE "unknown-event"

TInit == /\ tid \in 1..Len(Traces) /\ l = 1
         /\ env = <<>> /\ op = "" /\ tq = 0 /\ fmt = <<>> /\ val = <<>> /\ part = <<>>
Step1 == /\ l >= 1 /\ l <= Len(Traces[tid].ev)
         /\ LET t == Traces[tid]
                why == IF t.c = "mc" THEN WhyMC(t, t.ev[l]) ELSE Why(t, t.ev[l]) IN
            IF why = "ok" THEN l' = l + 1 /\ UNCHANGED <<env, op, tq, fmt, val, part, tid>>
            ELSE /\ PrintT(<<"REJ", t.id, l, why>>)
                 /\ l' = 0 /\ UNCHANGED <<env, op, tq, fmt, val, part, tid>>
Done == /\ l = Len(Traces[tid].ev) + 1
        /\ PrintT(<<"ACC", Traces[tid].id>>)
        /\ l' = 0 - 1 /\ UNCHANGED <<env, op, tq, fmt, val, part, tid>>
TNext == Step1 \/ Done
TSpec == TInit /\ [][TNext]_tvars
=============================================================================
