SPECIFICATION Spec
CONSTANTS
  Cfgs <- CfgsSim
  MaxN = 6
  MaxId = 26
  PinnedFindNext = FALSE
  MaxDepth = 100000
  FreeAnywhere = FALSE
CONSTRAINT Depth
INVARIANT StepRefines
INVARIANT BlocksRefine
INVARIANT L1Disjoint
INVARIANT L1Inside
INVARIANT ArrIndexed
INVARIANT Tiling
INVARIANT TopIsLast
INVARIANT FreedExact
INVARIANT FkeysExact
INVARIANT Coalesced
