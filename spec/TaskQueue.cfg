SPECIFICATION Spec
CONSTANTS
  Tasks = {"a", "b", "c"}
  Prios = {0, 1, 2}
  MaxCtr = 4
  MaxPop = 3
CONSTRAINT Bound
INVARIANT TypeOK
INVARIANT InvAtMostOnce
INVARIANT EmptyAgrees
PROPERTY PopIsHead
PROPERTY RemovePreservesOthers
PROPERTY ReAddIsMostRecent
