--------------------------- MODULE TraceRegistries ---------------------------
(* Binding for C18's registries: histories run on the real SystemAction subclasses, ServerAction
   subclasses and NotificationCenter; every run / notify event carries the observed call log. *)
EXTENDS Registries, Json, IOUtils
Traces == JsonDeserialize(IOEnv.VERIF_TRACES)
VARIABLES tid, l, sys, srv, nc
tvars == <<tid, l, sys, srv, nc>>
SysCls == {"StartUp", "ShutDown", "CmdPeriod"}
SrvCls == {"ServerBoot", "ServerQuit", "ServerTree"}
SrvKeys == {"s1", "s2", "default", "all"}
NcKeys == {"o1", "o2"} \X {"m1", "m2"}
Sys0 == [c \in SysCls |-> <<>>]
Srv0 == [c \in SrvCls |-> [k \in SrvKeys |-> <<>>]]
Nc0 == [k \in NcKeys |-> <<>>]

\* -> [sys, srv, nc, why]
R(a, b, c, w) == [sys |-> a, srv |-> b, nc |-> c, why |-> w]
Ev(t, e) ==
    CASE e.op = "sys_add" -> R([sys EXCEPT ![e.cls] = Put(@, e.a, e.arg)], srv, nc, "ok")
      [] e.op = "sys_remove" -> R([sys EXCEPT ![e.cls] = Del(@, e.a)], srv, nc, "ok")
      [] e.op = "sys_remove_all" -> R([sys EXCEPT ![e.cls] = <<>>], srv, nc, "ok")
      [] e.op = "sys_run" ->
            LET x == SysRunAll(sys[e.cls], t.beh) IN
            R([sys EXCEPT ![e.cls] = x.reg], srv, nc,
              IF e.out # "ok" THEN "RunRaised"
              ELSE IF e.log = x.log THEN "ok"
              ELSE IF \E i \in 1..Len(e.log) : ~HasKey(sys[e.cls], e.log[i].a) THEN "RanUnregistered"
              ELSE IF ~SameBag(e.log, x.log) THEN
                   (IF \E i \in 1..Len(e.log) : CountIn(x.log, e.log[i]) = 0 THEN "RanRemovedOrWrongArgs" ELSE "DidNotRunRegistered")
              ELSE "RegistrationOrder")
      [] e.op = "srv_add" -> R(sys, [srv EXCEPT ![e.cls][e.key] = Put(@, e.a, e.arg)], nc, "ok")
      [] e.op = "srv_remove" -> R(sys, [srv EXCEPT ![e.cls][e.key] = Del(@, e.a)], nc, "ok")
      [] e.op = "srv_remove_server" -> R(sys, [srv EXCEPT ![e.cls][e.key] = <<>>], nc, "ok")
      [] e.op = "srv_remove_all" -> R(sys, [srv EXCEPT ![e.cls] = [k \in SrvKeys |-> <<>>]], nc, "ok")
      [] e.op = "srv_run" ->
            LET x == SrvLog(srv[e.cls], e.server) IN
            R(sys, srv, nc,
              IF e.out # "ok" THEN "RunRaised"
              ELSE IF \E i \in 1..Len(e.log) : CountIn(x, e.log[i]) = 0 THEN "RanUnregistered"
              ELSE IF ~SameBag(e.log, x) THEN "DidNotRunRegistered"
              ELSE IF ~GroupOrder(e.log, x) THEN "RegistrationOrder" ELSE "ok")
      [] e.op = "nc_register" -> R(sys, srv, [nc EXCEPT ![<<e.obj, e.msg>>] = Put(@, e.l, [act |-> e.act, once |-> e.once])], "ok")
      [] e.op = "nc_unregister" ->
            R(sys, srv,
              [k \in NcKeys |-> IF k[1] # e.obj \/ (e.msg # "" /\ k[2] # e.msg) THEN nc[k]
                                ELSE IF e.l = "" THEN <<>> ELSE Del(nc[k], e.l)], "ok")
      [] e.op = "nc_clear" -> R(sys, srv, Nc0, "ok")
      [] e.op = "nc_notify" ->
            LET k == <<e.obj, e.msg>>  x == NcLog(nc[k], e.obj, e.msg, e.arg) IN
            R(sys, srv, [nc EXCEPT ![k] = NcAfter(@)],
              IF e.out # "ok" THEN "NotifyRaised"
              ELSE IF e.log = x THEN "ok"
              ELSE IF \E i \in 1..Len(e.log) : CountIn(x, e.log[i]) = 0 THEN "NotifiedUnregistered"
              ELSE IF ~SameBag(e.log, x) THEN "DidNotNotifyRegistered" ELSE "RegistrationOrder")

TInit == tid \in 1..Len(Traces) /\ l = 1 /\ sys = Sys0 /\ srv = Srv0 /\ nc = Nc0
Step == /\ l >= 1 /\ l <= Len(Traces[tid].ev)
        /\ LET r == Ev(Traces[tid], Traces[tid].ev[l]) IN
           IF r.why = "ok" THEN sys' = r.sys /\ srv' = r.srv /\ nc' = r.nc /\ l' = l + 1 /\ tid' = tid
           ELSE PrintT(<<"REJ", Traces[tid].id, l, r.why>>) /\ l' = 0 /\ UNCHANGED <<sys, srv, nc, tid>>
Done == /\ l = Len(Traces[tid].ev) + 1 /\ PrintT(<<"ACC", Traces[tid].id>>)
        /\ l' = 0 - 1 /\ UNCHANGED <<sys, srv, nc, tid>>
TSpec == TInit /\ [][Step \/ Done]_tvars
=============================================================================
