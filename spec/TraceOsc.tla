------------------------------ MODULE TraceOsc ------------------------------
(* C->S / S->C binding for C06.  Every trace is one observation of the real sc3 code:
     kind "enc"   : a message or bundle (abstract value v, clock offset off) was handed to
                    OscInterface._build_msg/_build_bundle; out = the bytes + what OscPacket decodes
                    from them, or "raise"; pred = what NetAddr._calc_*_dgram_size predicted
     kind "size"  : the same for large values (blobs/strings elided): only lengths are recorded
     kind "clump" : elements were sent with send_clumped_bundles / sync; out = the datagrams handed
                    to the interface (length, element ids in order, whether a /sync was appended)
     kind "dsend" : a definition of n bytes sent through SynthDef._do_send / send / add / store with a completion
                    message in any documented form (None, message, bundle, function of the server returning
                    those): which command went out, its length
   The verdict is computed with the operators of Osc.tla / OscSize.tla only.               *)
EXTENDS OscSize, Json, IOUtils
Traces == JsonDeserialize(IOEnv.VERIF_TRACES)
VARIABLES tid, l
tvars == <<tid, l>>

Refusal(v, off, out) == IF MustRefuse(v, off) THEN (IF out.k = "raise" THEN "ok" ELSE "NotRefused")
                        ELSE "go"
WhyEnc(t) ==
    LET v == t.v  off == t.off  out == t.out  r == Refusal(v, off, out) IN
    IF r # "go" THEN r
    ELSE IF out.k = "raise" THEN "ok"             \* refusing more than necessary is not "silently altered"
    ELSE LET e == Enc(v, off) IN
    IF out.bytes # e THEN "EncBytes"
    ELSE LET d == Dec(out.bytes) IN
    IF d.k \notin {"msg", "bundle"} THEN "NotOsc"
    ELSE IF Plain(d) # Coerce(v, off) THEN "RoundTrip"
    ELSE IF ~Aligned(v, off) THEN "Aligned"
    ELSE IF out.dk # "ok" THEN "LibDecodeRaised"
    ELSE IF ~BagEq(out.dec, FlatB(d)) THEN "LibDecode"
    ELSE IF t.pred.k = "ok" /\ t.pred.n < Len(out.bytes) THEN "PredBelow"
    ELSE "ok"
WhySize(t) ==
    LET v == t.v  off == t.off  out == t.out  r == Refusal(v, off, out) IN
    IF r # "go" THEN r
    ELSE IF out.k = "raise" THEN "ok"
    ELSE IF out.len # EncLen(v) THEN "EncLen"
    ELSE IF t.pred.k = "ok" /\ t.pred.n < out.len THEN "PredBelow"
    ELSE "ok"
WhyClump(t) ==
    LET real == [i \in 1..Len(t.els) |-> EncLen(t.els[i])]
        dg == t.out.dgrams
        split == [g \in 1..Len(dg) |-> dg[g].ids] IN
    IF ~Splittable(real, ExtraAt(t.site)) THEN "ok"       \* no split exists: nothing is demanded
    \* the size predictor refuses some element (e.g. non-ASCII address): raising is a refusal, not a failure
    ELSE IF t.out.k = "raise" THEN (IF \A i \in 1..Len(t.els) : Predictable(t.els[i]) THEN "Raised" ELSE "ok")
    ELSE IF ~OnceInOrder(split, Len(real)) THEN "OnceInOrder"
    ELSE IF \E g \in 1..Len(dg) : dg[g].len > Limit THEN "WithinLimit"
    ELSE IF \E g \in 1..Len(dg) : dg[g].len # DgramLen(split[g], real, SyncElem * dg[g].sync) THEN "EncLen"
    ELSE "ok"
\* t.cm may be a function of the server ([t |-> "fn", ret |-> ...]): the datagram carries the resolved value
WhyDsend(t) ==
    LET v == DRecvMsg(t.n, t.cm) IN
    IF t.out.cmd # "/d_recv" THEN "ok"            \* falling back to a file (or refusing) is always allowed
    ELSE IF t.out.len # EncLen(v) THEN "EncLen"
    ELSE IF t.out.len > Limit THEN "WithinLimit"
    ELSE "ok"
Why(t) == CASE t.kind = "enc" -> WhyEnc(t) [] t.kind = "size" -> WhySize(t)
            [] t.kind = "clump" -> WhyClump(t) [] t.kind = "dsend" -> WhyDsend(t)

\* implementation-shaped expectations (L2): a mismatch is drift, never a violation
Drift(t) ==
    IF t.kind \in {"enc", "size"}
    THEN IF t.out.k = "ok" /\ ~MustRefuse(t.v, t.off) /\ Predictable(t.v)
            /\ (t.pred.k # "ok" \/ t.pred.n # Pred(t.v)) THEN "prediction differs from the L2 formula" ELSE ""
    ELSE IF t.kind = "dsend"
    THEN IF t.out.cmd \in {"/d_recv", "/d_load"} /\ DSendChoice(t.n, t.cm) # t.out.cmd
         THEN "d_recv / d_load choice differs from the L2 formula" ELSE ""
    ELSE IF t.kind = "clump"
    THEN IF t.out.k = "ok" /\ t.pred # <<>>
            /\ [g \in 1..Len(t.out.dgrams) |-> t.out.dgrams[g].ids] # SplitAt(t.site, t.pred)
         THEN "split differs from the L2 accumulator loop" ELSE ""
    ELSE ""

TInit == tid \in 1..Len(Traces) /\ l = 1
Step == /\ l = 1
        /\ LET why == Why(Traces[tid]) IN
           IF why = "ok" THEN l' = 2 /\ tid' = tid
           ELSE /\ PrintT(<<"REJ", Traces[tid].id, l, why>>)
                /\ l' = 0 /\ tid' = tid
Done == /\ l = 2
        /\ PrintT(<<"ACC", Traces[tid].id>>)
        /\ LET dr == Drift(Traces[tid]) IN IF dr = "" THEN TRUE ELSE PrintT(<<"DRIFT", Traces[tid].id, dr>>)
        /\ l' = 0 - 1 /\ tid' = tid
TNext == Step \/ Done
TSpec == TInit /\ [][TNext]_tvars
=============================================================================
