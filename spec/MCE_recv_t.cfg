SPECIFICATION Spec
CONSTANTS
  Templates = {"n", "z", "b", "k", "L1", "L2u", "L3u", "L4u", "N21u", "N23u", "D3u"}
  MaxArgs = 3
  FirstList = TRUE
INVARIANT InvLen
INVARIANT InvDepth
INVARIANT InvLeaf
INVARIANT InvSingle
INVARIANT InvMultiNew
INVARIANT InvBinop
INVARIANT InvUnop
INVARIANT InvPerform
INVARIANT InvMadd
