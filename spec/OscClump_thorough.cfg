SPECIFICATION Spec
CONSTANTS
  N = 6
INVARIANT StepRefines
INVARIANT RunAgrees
INVARIANT SiteValid
INVARIANT PredAbove
