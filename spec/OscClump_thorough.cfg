SPECIFICATION Spec
CONSTANTS
  N = 5
INVARIANT StepRefines
INVARIANT RunAgrees
INVARIANT SiteValid
INVARIANT PredAbove
