----------------------------- MODULE DispatchImpl -----------------------------
(* L2 for C18: the dispatcher's delivery loop at statement granularity, for the responders
   registered on one path (AbstractWrappingDispatcher.active[path], OscMessageDispatcher.__call__).
   `for func in <list>` is modelled as Python executes it: an index into a list that is re-read at
   every iteration.  A one-shot responder frees itself *inside* its call, i.e. removes itself from
   active[path] while the loop is running.  Live = TRUE iterates active[path] itself (the pinned
   code: the responder after a one-shot is skipped - TLC shows it in 5 states); Live = FALSE iterates
   a copy taken when the delivery starts (the fixed code).  Refinement, checked as a step invariant:
   when the loop ends the log is exactly L1's Fire list = the list as it was when the delivery began
   ("firing one responder never removes another from the current delivery"), each responder once,
   in registration order, and every one-shot that fired is gone.                          *)
EXTENDS Naturals, Sequences, FiniteSets, TLC
CONSTANTS N,        \* responders 1..N registered in this order
          Live      \* iterate the live list (TRUE) or a copy (FALSE)
VARIABLES active, os, it, i, log, start, pc
vars == <<active, os, it, i, log, start, pc>>
Without(s, x) == SelectSeq(s, LAMBDA y : y # x)
Init == /\ active = [k \in 1..N |-> k] /\ os \in SUBSET (1..N)
        /\ it = <<>> /\ i = 0 /\ log = <<>> /\ start = <<>> /\ pc = "idle"
\* a message for this path arrives: the loop starts
Begin == /\ pc = "idle" /\ active # <<>>
         /\ it' = active /\ start' = active /\ i' = 1 /\ log' = <<>> /\ pc' = "loop"
         /\ UNCHANGED <<active, os>>
Cur == IF Live THEN active ELSE it
\* one iteration: call the function; a one-shot frees itself (disable -> dispatcher.remove)
Call == /\ pc = "loop" /\ i <= Len(Cur)
        /\ LET f == Cur[i] IN
           /\ log' = Append(log, f)
           /\ active' = IF f \in os THEN Without(active, f) ELSE active
           /\ os' = os \ {f}
        /\ i' = i + 1 /\ UNCHANGED <<it, start, pc>>
End == /\ pc = "loop" /\ i > Len(Cur) /\ pc' = "idle" /\ UNCHANGED <<active, os, it, i, log, start>>
Next == Begin \/ Call \/ End
Spec == Init /\ [][Next]_vars
\* L1, evaluated when a delivery has just ended
Refines == (pc = "idle" /\ start # <<>>) => /\ log = start
                                            /\ \A k \in 1..Len(log) : (log[k] \in os) = FALSE
PrefixOK == pc = "loop" => \A k \in 1..Len(log) : log[k] = start[k]
=============================================================================
