SPECIFICATION Spec
CONSTANTS
  TempoExps = {0, 1, 2, 3}
  BeatVals = {0, 4, 28, 91, 320}
  Meters = {1, 2, 3, 4, 6, 8}
  Deltas = {0, 1, 2, 5, 8, 20, 33}
  Quants = {0}
  Win = 0
  MaxSteps = 12
CONSTRAINT Bound
