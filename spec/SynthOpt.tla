------------------------------ MODULE SynthOpt ------------------------------
(* L2 for C01: the library's builder and graph optimiser transcribed as a function on an explicit
   graph state, so that TLC can (a) check that every optimisation step preserves the denotation
   (ImplWhy of SynthGraph.tla stays "ok" after construction, after the optimisation of every unit
   and after the final sort) for every program of a vocabulary slice, and (b) PREDICT the exact
   definition the library emits, which TraceSynthOpt.tla compares with the real bytes (a mismatch
   is model drift, not a violation of C01).

   Transcribed: constructor shortcuts of BinaryOpUGen / MulAdd / Sum3 / Sum4 (x*0, x*1, x*-1,
   x+0, 0-x, x/1, x/-1, madd cases, zero operands of sums), Python arithmetic on folded numbers,
   audio silence for output units, control units per rate group, dead-code elimination with its
   descendants bookkeeping, Sum3 / Sum4 / MulAdd / a+(-b) / a-(-b) rewrites in the order the
   library tries them, _replace_ugen, constant collection, topological sort (available stack,
   descendants in decreasing index order).  Not transcribed: width-first units, list arguments,
   LagControl, demand rate, input checks (programs that must compile only).                   *)
EXTENDS SynthGraphGen

VC(v) == <<"c", v, 0>>
VU(id, o) == <<"u", id, o>>
IsC(x) == x[1] = "c"
IsCV(x, v) == x[1] = "c" /\ x[2] = v
MultiOutCls(c) == c \in ({"DC", "Pan2", "In"} \cup ControlClasses)
\* classes whose _optimize_graph performs dead code elimination
PureCls(c) == c \in {"SinOsc", "LFSaw", "Impulse", "DC", "K2A", "A2K", "LinExp", "LPF", "UnaryOpUGen", "BinaryOpUGen"}
Modelled(p) == /\ \A i \in 1..Len(p.ctl) : CtlW(p.ctl[i]) = 1 /\ CtlLag(p.ctl[i]) = 0
               /\ \A n \in 1..Len(p.ins) :
                  /\ p.ins[n].op \in ({"gen", "un", "bin", "madd", "sum"} \cup ListOps)
                  /\ p.ins[n].op = "gen" => ~ClassTab[p.ins[n].cls].wf

(* graph state: nodes in creation order, ch = the definition's children slots (node id or 0),
   sidx = slot of a node, desc = the _descendants set of a node, rw = rewrite in progress      *)
St0 == [nodes |-> <<>>, ch |-> <<>>, sidx |-> <<>>, desc |-> <<>>, rw |-> FALSE]
RateV(st, x) == IF IsC(x) THEN 0 ELSE st.nodes[x[2]].r
MaxRateV(st, xs) == MaxOf([j \in 1..Len(xs) |-> RateV(st, xs[j])])
Mk(st, c, r, sp, ins, nout) ==
    LET id == Len(st.nodes) + 1 IN
    [st |-> [nodes |-> Append(st.nodes, [c |-> c, r |-> r, sp |-> sp, ins |-> ins, nout |-> nout]),
             desc |-> Append(st.desc, {}),
             sidx |-> Append(st.sidx, IF st.rw THEN 0 ELSE Len(st.ch) + 1),
             ch |-> IF st.rw THEN st.ch ELSE Append(st.ch, id),
             rw |-> st.rw],
     id |-> id]
RV(st, v) == [st |-> st, v |-> v]
MkV(st, c, r, sp, ins) == LET m == Mk(st, c, r, sp, ins, 1) IN RV(m.st, VU(m.id, 0))

(* ---- constructors with their shortcuts *)
NegNew(st, x) == IF IsC(x) THEN RV(st, VC(0 - x[2])) ELSE MkV(st, "UnaryOpUGen", RateV(st, x), 0, <<x>>)
BinNode(st, sel, a, b) == MkV(st, "BinaryOpUGen", Max2(RateV(st, a), RateV(st, b)), BinIdx(sel), <<a, b>>)
BinNew(st, sel, a, b) ==
    IF IsC(a) /\ IsC(b) THEN        \* plain Python arithmetic
        RV(st, VC(CASE sel = "+" -> a[2] + b[2] [] sel = "-" -> a[2] - b[2] [] sel = "*" -> a[2] * b[2] [] OTHER -> 0))
    ELSE CASE sel = "*" ->
                IF IsCV(a, 0) \/ IsCV(b, 0) THEN RV(st, VC(0))
                ELSE IF IsCV(a, 1) THEN RV(st, b)
                ELSE IF IsCV(a, 0 - 1) THEN NegNew(st, b)
                ELSE IF IsCV(b, 1) THEN RV(st, a)
                ELSE IF IsCV(b, 0 - 1) THEN NegNew(st, a)
                ELSE BinNode(st, sel, a, b)
           [] sel = "+" -> IF IsCV(a, 0) THEN RV(st, b) ELSE IF IsCV(b, 0) THEN RV(st, a) ELSE BinNode(st, sel, a, b)
           [] sel = "-" -> IF IsCV(a, 0) THEN NegNew(st, b) ELSE IF IsCV(b, 0) THEN RV(st, a) ELSE BinNode(st, sel, a, b)
           [] sel = "/" -> IF IsCV(b, 1) THEN RV(st, a) ELSE IF IsCV(b, 0 - 1) THEN NegNew(st, a) ELSE BinNode(st, sel, a, b)
           [] OTHER -> BinNode(st, sel, a, b)
UnNew(st, sel, a) == IF sel = "neg" THEN NegNew(st, a) ELSE MkV(st, "UnaryOpUGen", RateV(st, a), UnIdx(sel), <<a>>)
CanBeMulAdd(st, i, m, a) == RateV(st, i) = 2 \/ (RateV(st, i) = 1 /\ RateV(st, m) \in {0, 1} /\ RateV(st, a) \in {0, 1})
MulAddNew(st, i, m, a) ==
    IF IsCV(m, 0) THEN RV(st, a)
    ELSE LET minus == IsCV(m, 0 - 1)
             nomul == IsCV(m, 1)
             noadd == IsCV(a, 0) IN
         IF nomul /\ noadd THEN RV(st, i)
         ELSE IF minus /\ noadd THEN NegNew(st, i)
         ELSE IF noadd THEN BinNew(st, "*", i, m)
         ELSE IF minus THEN BinNew(st, "-", a, i)
         ELSE IF nomul THEN BinNew(st, "+", i, a)
         ELSE IF CanBeMulAdd(st, i, m, a) THEN MkV(st, "MulAdd", MaxRateV(st, <<i, m, a>>), 0, <<i, m, a>>)
         ELSE IF CanBeMulAdd(st, m, i, a) THEN MkV(st, "MulAdd", MaxRateV(st, <<i, m, a>>), 0, <<m, i, a>>)
         ELSE LET p == BinNew(st, "*", i, m) IN BinNew(p.st, "+", p.v, a)
\* Sum3 / Sum4 sort their inputs by rate name: audio, control, scalar (stable)
ByRate(st, xs) == SelectSeq(xs, LAMBDA x : RateV(st, x) = 2) \o SelectSeq(xs, LAMBDA x : RateV(st, x) = 1)
                  \o SelectSeq(xs, LAMBDA x : RateV(st, x) = 0)
Sum3New(st, x0, x1, x2) ==
    IF IsCV(x2, 0) THEN BinNew(st, "+", x0, x1)
    ELSE IF IsCV(x1, 0) THEN BinNew(st, "+", x0, x2)
    ELSE IF IsCV(x0, 0) THEN BinNew(st, "+", x1, x2)
    ELSE MkV(st, "Sum3", MaxRateV(st, <<x0, x1, x2>>), 0, ByRate(st, <<x0, x1, x2>>))
Sum4New(st, x0, x1, x2, x3) ==
    IF IsCV(x0, 0) THEN Sum3New(st, x1, x2, x3)
    ELSE IF IsCV(x1, 0) THEN Sum3New(st, x0, x2, x3)
    ELSE IF IsCV(x2, 0) THEN Sum3New(st, x0, x1, x3)
    ELSE IF IsCV(x3, 0) THEN Sum3New(st, x0, x1, x2)
    ELSE MkV(st, "Sum4", MaxRateV(st, <<x0, x1, x2, x3>>), 0, ByRate(st, <<x0, x1, x2, x3>>))
\* unit constructors; audio output units make a silence unit and use it for literal zeros
GenNew(st, ins, args) ==
    LET from == IF ins.cls = "LocalOut" THEN 1 ELSE 2 IN
    IF ins.cls \in {"Out", "ReplaceOut", "LocalOut"} /\ ins.rate = 2 THEN
        LET dc == Mk(st, "DC", 2, 0, <<VC(0)>>, 1)
            a2 == [j \in 1..Len(args) |-> IF j >= from /\ IsCV(args[j], 0) THEN VU(dc.id, 0) ELSE args[j]]
            o == Mk(dc.st, ins.cls, 2, 0, a2, 0) IN
        [st |-> o.st, vs |-> <<>>, id |-> o.id]
    ELSE LET n == Mk(st, ins.cls, ins.rate, 0, args, ins.nout) IN
         [st |-> n.st, vs |-> [ch \in 1..ins.nout |-> VU(n.id, ch - 1)], id |-> n.id]

(* ---- controls: one unit per rate group (scalar, trigger, audio, control), slots in that order *)
CtlGroups == <<0, 3, 2, 1>>
CtlBuild(ctl) ==
    FoldLeft(LAMBDA acc, kind :
                LET is == SelectSeq([i \in 1..Len(ctl) |-> i], LAMBDA i : ctl[i].r = kind) IN
                IF is = <<>> THEN acc
                ELSE LET m == Mk(acc.st, CtlClass(kind), CtlRate(kind), acc.slot, <<>>, Len(is)) IN
                     [st |-> m.st, slot |-> acc.slot + Len(is),
                      val |-> [i \in 1..Len(ctl) |-> IF \E k \in 1..Len(is) : is[k] = i
                                                      THEN VU(m.id, (CHOOSE k \in 1..Len(is) : is[k] = i) - 1) ELSE acc.val[i]],
                      slotOf |-> [i \in 1..Len(ctl) |-> IF \E k \in 1..Len(is) : is[k] = i
                                                         THEN acc.slot + (CHOOSE k \in 1..Len(is) : is[k] = i) - 1 ELSE acc.slotOf[i]]],
             [st |-> St0, slot |-> 0, val |-> [i \in 1..Len(ctl) |-> VC(0)], slotOf |-> [i \in 1..Len(ctl) |-> 0]],
             CtlGroups)

(* ---- running the graph function *)
Construct(p) ==
    LET cb == CtlBuild(p.ctl)
        operand(o, loc) == IF o.k = "c" THEN VC(o.i) ELSE IF o.k = "p" THEN cb.val[o.i] ELSE loc[o.i][o.ch + 1]
        step(acc, ins) ==
            LET args == [j \in 1..Len(ins.a) |-> operand(ins.a[j], acc.loc)] IN
            CASE ins.op = "gen" -> LET g == GenNew(acc.st, ins, args) IN
                                   [st |-> g.st, loc |-> Append(acc.loc, g.vs), m |-> Append(acc.m, g.id)]
              [] ins.op = "un" -> LET r == UnNew(acc.st, ins.sel, args[1]) IN
                                  [st |-> r.st, loc |-> Append(acc.loc, <<r.v>>), m |-> Append(acc.m, 0)]
              [] ins.op = "bin" -> LET r == BinNew(acc.st, ins.sel, args[1], args[2]) IN
                                   [st |-> r.st, loc |-> Append(acc.loc, <<r.v>>), m |-> Append(acc.m, 0)]
              [] ins.op = "madd" -> LET r == MulAddNew(acc.st, args[1], args[2], args[3]) IN
                                    [st |-> r.st, loc |-> Append(acc.loc, <<r.v>>), m |-> Append(acc.m, 0)]
              \* list operations expand channel by channel, in channel order, through the scalar constructors
              [] ins.op \in ListOps ->
                    LET r == FoldLeft(LAMBDA s, ch :
                                 LET ci == ChanIns(ins, ch)
                                     ca == [j \in 1..Len(ci.a) |-> operand(ci.a[j], acc.loc)]
                                     one == CASE ci.op = "madd" -> MulAddNew(s.st, ca[1], ca[2], ca[3])
                                              [] ci.op = "bin" -> BinNew(s.st, ci.sel, ca[1], ca[2])
                                              [] ci.op = "un" -> UnNew(s.st, ci.sel, ca[1])
                                 IN [st |-> one.st, vs |-> Append(s.vs, one.v)],
                                 [st |-> acc.st, vs |-> <<>>], [ch \in 1..ins.nout |-> ch]) IN
                    [st |-> r.st, loc |-> Append(acc.loc, r.vs), m |-> Append(acc.m, 0)]
              [] ins.op = "sum" -> LET r == FoldLeft(LAMBDA s, x : BinNew(s.st, "+", s.v, x), RV(acc.st, VC(0)), args) IN
                                   [st |-> r.st, loc |-> Append(acc.loc, <<r.v>>), m |-> Append(acc.m, 0)]
    IN [cb |-> cb, res |-> FoldLeft(step, [st |-> cb.st, loc |-> <<>>, m |-> <<>>], p.ins)]

(* ---- optimiser *)
Alive(st) == SelectSeq(st.ch, LAMBDA x : x # 0)
InitDesc(st) ==
    [st EXCEPT !.desc = [id \in 1..Len(st.nodes) |->
        {u \in {st.ch[k] : k \in 1..Len(st.ch)} \ {0} : \E j \in 1..Len(st.nodes[u].ins) :
                ~IsC(st.nodes[u].ins[j]) /\ st.nodes[u].ins[j][2] = id}]]
DirectU(st, x) == ~IsC(x) /\ ~MultiOutCls(st.nodes[x[2]].c)
IsOp(st, x, c, sp) == DirectU(st, x) /\ st.nodes[x[2]].c = c /\ st.nodes[x[2]].sp = sp
RemoveU(st, u) == [st EXCEPT !.ch[st.sidx[u]] = 0]
UpdateDesc(st, u, repl, deleted) ==
    FoldLeft(LAMBDA s, x : IF IsC(x) THEN s ELSE [s EXCEPT !.desc[x[2]] = (@ \cup {repl}) \ {u, deleted}],
             st, st.nodes[repl].ins)
Replace(st, a, b) ==
    LET st1 == [st EXCEPT !.desc[b] = st.desc[a], !.sidx[b] = st.sidx[a], !.ch[st.sidx[a]] = b]
        fix(n) == [n EXCEPT !.ins = [j \in 1..Len(n.ins) |-> IF n.ins[j] = VU(a, 0) THEN VU(b, 0) ELSE n.ins[j]]]
        live == {st1.ch[k] : k \in 1..Len(st1.ch)} \ {0}
    IN [st1 EXCEPT !.nodes = [id \in 1..Len(st1.nodes) |-> IF id \in live THEN fix(st1.nodes[id]) ELSE st1.nodes[id]]]
\* a rewrite that builds replacement r (a value) for unit u and deletes unit d
Rewritten(st0, r, u, d) ==
    LET st2 == [r.st EXCEPT !.desc[r.v[2]] = st0.desc[u]] IN
    [st |-> UpdateDesc(st2, u, r.v[2], d), repl |-> r.v[2]]
NoRw(st) == [st |-> st, repl |-> 0]
One(st, x) == Cardinality(st.desc[x[2]]) = 1

OptSum3(st, u) ==
    LET a == st.nodes[u].ins[1]
        b == st.nodes[u].ins[2] IN
    IF IsOp(st, a, "BinaryOpUGen", 0) /\ One(st, a) THEN
        LET an == st.nodes[a[2]]
            s1 == RemoveU(st, a[2])
            r == IF a = b THEN Sum4New(s1, an.ins[1], an.ins[1], an.ins[2], an.ins[2]) ELSE Sum3New(s1, an.ins[1], an.ins[2], b)
        IN Rewritten(st, r, u, a[2])
    ELSE IF IsOp(st, b, "BinaryOpUGen", 0) /\ One(st, b) THEN
        LET bn == st.nodes[b[2]]
            r == Sum3New(RemoveU(st, b[2]), bn.ins[1], bn.ins[2], a)
        IN Rewritten(st, r, u, b[2])
    ELSE NoRw(st)
OptSum4(st, u) ==
    LET a == st.nodes[u].ins[1]
        b == st.nodes[u].ins[2] IN
    IF a = b THEN NoRw(st)
    ELSE IF IsOp(st, a, "Sum3", 0) /\ One(st, a) THEN
        LET an == st.nodes[a[2]] IN Rewritten(st, Sum4New(RemoveU(st, a[2]), an.ins[1], an.ins[2], an.ins[3], b), u, a[2])
    ELSE IF IsOp(st, b, "Sum3", 0) /\ One(st, b) THEN
        LET bn == st.nodes[b[2]] IN Rewritten(st, Sum4New(RemoveU(st, b[2]), bn.ins[1], bn.ins[2], bn.ins[3], a), u, b[2])
    ELSE NoRw(st)
OptMulAdd(st, u) ==
    LET a == st.nodes[u].ins[1]
        b == st.nodes[u].ins[2]
        try(x, y) ==      \* x the product, y the other operand
            LET xn == st.nodes[x[2]] IN
            IF CanBeMulAdd(st, xn.ins[1], xn.ins[2], y)
            THEN Rewritten(st, MulAddNew(RemoveU(st, x[2]), xn.ins[1], xn.ins[2], y), u, x[2])
            ELSE IF CanBeMulAdd(st, xn.ins[2], xn.ins[1], y)
            THEN Rewritten(st, MulAddNew(RemoveU(st, x[2]), xn.ins[2], xn.ins[1], y), u, x[2])
            ELSE NoRw(st)
        ta == IF IsOp(st, a, "BinaryOpUGen", 2) /\ One(st, a) THEN try(a, b) ELSE NoRw(st)
    IN IF a = b THEN NoRw(st)
       ELSE IF ta.repl # 0 THEN ta
       ELSE IF IsOp(st, b, "BinaryOpUGen", 2) /\ One(st, b) THEN try(b, a) ELSE NoRw(st)
OptAddNeg(st, u) ==
    LET a == st.nodes[u].ins[1]
        b == st.nodes[u].ins[2] IN
    IF a = b THEN NoRw(st)
    ELSE IF IsOp(st, b, "UnaryOpUGen", 0) /\ One(st, b) THEN
        Rewritten(st, BinNew(RemoveU(st, b[2]), "-", a, st.nodes[b[2]].ins[1]), u, b[2])
    ELSE IF IsOp(st, a, "UnaryOpUGen", 0) /\ One(st, a) THEN
        Rewritten(st, BinNew(RemoveU(st, a[2]), "-", b, st.nodes[a[2]].ins[1]), u, a[2])
    ELSE NoRw(st)
OptimizeAdd(st, u) ==
    LET r1 == OptSum3(st, u)
        r2 == IF r1.repl # 0 THEN r1 ELSE OptSum4(st, u)
        r3 == IF r2.repl # 0 THEN r2 ELSE OptMulAdd(st, u)
        r4 == IF r3.repl # 0 THEN r3 ELSE OptAddNeg(st, u)
    IN IF r4.repl # 0 THEN Replace(r4.st, u, r4.repl) ELSE st

RECURSIVE Optimize(_, _)
RECURSIVE DCE(_, _)
RECURSIVE OptSub(_, _)
DCE(st, u) ==
    IF st.desc[u] # {} THEN [st |-> st, done |-> FALSE]
    ELSE LET s1 == FoldLeft(LAMBDA s, j :          \* the CURRENT j-th input: optimising one input may replace another
                        LET x == s.nodes[u].ins[j] IN
                        IF DirectU(s, x) /\ s.desc[x[2]] # {} /\ u \in s.desc[x[2]]
                        THEN Optimize([s EXCEPT !.desc[x[2]] = @ \ {u}], x[2]) ELSE s,
                        st, [j \in 1..Len(st.nodes[u].ins) |-> j])
         IN [st |-> RemoveU(s1, u), done |-> TRUE]
OptSub(st, u) ==
    LET a == st.nodes[u].ins[1]
        b == st.nodes[u].ins[2] IN
    IF IsOp(st, b, "UnaryOpUGen", 0) /\ One(st, b) THEN
        LET rw == Rewritten(st, BinNew(RemoveU(st, b[2]), "+", a, st.nodes[b[2]].ins[1]), u, b[2])
        IN Optimize(Replace(rw.st, u, rw.repl), rw.repl)
    ELSE st
Optimize(st, u) ==
    LET n == st.nodes[u] IN
    IF n.c = "BinaryOpUGen" THEN
        LET d == DCE(st, u) IN
        IF d.done THEN d.st ELSE IF n.sp = 0 THEN OptimizeAdd(st, u) ELSE IF n.sp = 1 THEN OptSub(st, u) ELSE st
    ELSE IF PureCls(n.c) THEN DCE(st, u).st
    ELSE st

(* ---- projection of a graph state to a definition (children order, holes skipped) *)
ConstsOf(st, order) ==
    FoldLeft(LAMBDA cs, id : FoldLeft(LAMBDA c, x : IF IsC(x) THEN AddConst(c, x[2]) ELSE c, cs, st.nodes[id].ins),
             <<>>, order)
PosIn(order, id) == IF \E k \in 1..Len(order) : order[k] = id THEN CHOOSE k \in 1..Len(order) : order[k] = id ELSE 0 - 7   \* (a reference to a unit that is no longer there)
DefOf(p, cb, st, order, cs) ==
    LET spec(x) == IF IsC(x) THEN <<0 - 1, CIdx(cs, x[2])>> ELSE <<PosIn(order, x[2]) - 1, x[3]>>
        unit(id) == LET n == st.nodes[id] IN
                    U(n.c, n.r, n.sp, [j \in 1..Len(n.ins) |-> spec(n.ins[j])], [k \in 1..n.nout |-> n.r])
        defaults == [s \in 1..Len(p.ctl) |-> F32(p.ctl[CHOOSE i \in 1..Len(p.ctl) : cb.slotOf[i] = s - 1].d)]
    IN [name |-> p.name, consts |-> [i \in 1..Len(cs) |-> F32(cs[i])], ctl |-> defaults,
        names |-> [i \in 1..Len(p.ctl) |-> [n |-> p.ctl[i].n, i |-> cb.slotOf[i]]],
        units |-> [k \in 1..Len(order) |-> unit(order[k])], variants |-> <<>>]
CertOf(m, order) == [s \in 1..Len(m) |-> IF m[s] # 0 /\ \E k \in 1..Len(order) : order[k] = m[s] THEN PosIn(order, m[s]) ELSE 0]

(* ---- topological sort of the optimised children *)
RECURSIVE Desc2Seq(_)
Desc2Seq(Q) == IF Q = {} THEN <<>> ELSE LET mx == CHOOSE x \in Q : \A y \in Q : y <= x IN <<mx>> \o Desc2Seq(Q \ {mx})
RECURSIVE TopoLoop(_, _, _, _)
TopoLoop(avail, ante, desc, out) ==
    IF avail = <<>> THEN out
    ELSE LET u == avail[Len(avail)]
             fin == FoldLeft(LAMBDA s, x : LET a2 == [s.ante EXCEPT ![x] = @ \ {u}] IN
                                           [ante |-> a2, av |-> IF a2[x] = {} THEN Append(s.av, x) ELSE s.av],
                             [ante |-> ante, av |-> SubSeq(avail, 1, Len(avail) - 1)], Desc2Seq(desc[u]))
         IN TopoLoop(fin.av, fin.ante, desc, Append(out, u))
TopoOrder(st, order) ==      \* works on positions 1..n of `order`
    LET n == Len(order)
        insOf(k) == st.nodes[order[k]].ins
        ante == [k \in 1..n |-> {PosIn(order, insOf(k)[j][2]) : j \in {j \in 1..Len(insOf(k)) : ~IsC(insOf(k)[j])}}]
        desc == [k \in 1..n |-> {d \in 1..n : k \in ante[d]}]
        seed == Desc2Seq({k \in 1..n : ante[k] = {}})
        perm == TopoLoop(seed, ante, desc, <<>>)
    IN [k \in 1..Len(perm) |-> order[perm[k]]]

(* ---- the whole compilation, with the intermediate stages *)
Compile(p) ==
    LET c == Construct(p)
        st0 == [InitDesc(c.res.st) EXCEPT !.rw = TRUE]
        pass == FoldLeft(LAMBDA acc, u : LET s2 == Optimize(acc.st, u) IN [st |-> s2, stages |-> Append(acc.stages, s2)],
                         [st |-> st0, stages |-> <<st0>>], c.res.st.ch)
        stf == pass.st
        order == Alive(stf)
        cs == ConstsOf(stf, order)
        sorted == TopoOrder(stf, order)
    IN [cb |-> c.cb, m |-> c.res.m, stages |-> pass.stages, st |-> stf, cs |-> cs, sorted |-> sorted]
Predicted(p) == LET c == Compile(p) IN DefOf(p, c.cb, c.st, c.sorted, c.cs)
PredictedM(p) == LET c == Compile(p) IN CertOf(c.m, c.sorted)
\* every stage denotes the program, and so does the final sorted definition
StageWhy(p, c, st) == LET order == Alive(st) IN ImplWhy(p, DefOf(p, c.cb, st, order, ConstsOf(st, order)), CertOf(c.m, order))
OptOK == (done /\ Modelled(prog)) =>
            LET c == Compile(prog) IN
            /\ \A k \in 1..Len(c.stages) : StageWhy(prog, c, c.stages[k]) = "ok"
            /\ ImplWhy(prog, DefOf(prog, c.cb, c.st, c.sorted, c.cs), CertOf(c.m, c.sorted)) = "ok"
            /\ ScgfWhy(Parsed(DefOf(prog, c.cb, c.st, c.sorted, c.cs)), prog.name) = "ok"
=============================================================================
