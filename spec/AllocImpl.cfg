SPECIFICATION Spec
CONSTANTS
  Cfgs <- CfgsQuick
  MaxN = 4
  MaxId = 12
  PinnedFindNext = FALSE
  MaxDepth = 7
  FreeAnywhere = TRUE
CONSTRAINT Depth
INVARIANT StepRefines
INVARIANT BlocksRefine
INVARIANT L1Disjoint
INVARIANT L1Inside
INVARIANT ArrIndexed
INVARIANT Tiling
INVARIANT TopIsLast
INVARIANT FreedExact
INVARIANT FkeysExact
INVARIANT Coalesced
