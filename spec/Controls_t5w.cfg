SPECIFICATION Spec
CONSTANTS
  Annots <- AnNone
  OvChoices <- OvOne
  DfChoices <- DfZero
  SpChoices <- SpBoth
  BoundVals = {24, 0}
  MaxFuncs = 2
  MaxParams = 1
  MaxTotal = 3
  MaxBound = 1
  MaxVariants = 1
  MinEmit = 1
  SimMode = FALSE
  VarLens = {0}
  VarW = {1, 2, 3}
  VarBad = {"none"}
  HistChoices <- HistTwo
INVARIANT InvWellFormed
INVARIANT InvTiles
INVARIANT InvOrdered
INVARIANT InvNames
INVARIANT InvLag
INVARIANT InvL2CoversL1
INVARIANT InvVariants
