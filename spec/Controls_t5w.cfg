SPECIFICATION Spec
CONSTANTS
  Annots <- AnNone
  OvChoices <- OvOne
  DfChoices <- DfZero
  SpChoices <- SpBoth
  BoundVals = {24, 0}
  MaxFuncs = 3
  MaxParams = 2
  MaxTotal = 3
  MaxBound = 1
  MaxVariants = 1
  MinEmit = 1
  SimMode = FALSE
INVARIANT InvWellFormed
INVARIANT InvTiles
INVARIANT InvOrdered
INVARIANT InvNames
INVARIANT InvLag
INVARIANT InvL2CoversL1
INVARIANT InvVariants
