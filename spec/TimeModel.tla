----------------------------- MODULE TimeModel -----------------------------
(* Design-level check for C05 / C10 on a bounded program space: for every program of two or three routines
   living on different clocks (SystemClock and a TempoClock; yields, sends, tempo changes on the routine's
   own clock, a child inheriting its parent's clock, pause/resume inside one clock) EVERY real-time
   behaviour - any interleaving of the clocks' wake-ups, i.e. any physical jitter - yields, routine by
   routine, exactly the observations of the unique non-real-time run, and the logical times in the NRT run
   never decrease.  Programs are part of the state (Init chooses one), so TLC quantifies over programs and
   schedules at once.                                                                                   *)
EXTENDS LogicalTime
CONSTANTS U,             \* one time unit (e.g. 8): deltas 0, U, 2U
          MaxLenS, MaxLenT   \* instructions per body (SystemClock routine / TempoClock routine)
VARIABLES prog, st
vars == <<prog, st>>

Ins(op, a, b, c, s) == [op |-> op, a |-> a, b |-> b, c |-> c, s |-> s, nk |-> 0, na |-> 0]
VocabSys == {Ins("Y", 0, 0, "", ""), Ins("Y", U, 0, "", ""), Ins("Y", 2 * U, 0, "", ""), Ins("S", U, 0, "", "/a"),
             Ins("P", 0, 0, "", "r2")}
VocabT1  == {Ins("Y", 0, 0, "", ""), Ins("Y", U, 0, "", ""), Ins("Y", 2 * U, 0, "", ""), Ins("S", 0, 1, "", "/b"),
             Ins("T", 2, 1, "t1", ""), Ins("T", 1, 1, "t1", ""), Ins("X", 0, 0, "", "r3"), Ins("Z", 0, 0, "", "r3"),
             Ins("G", 1, 0, "", "c1"), Ins("ST", 0, 0, "", "r3")}
Bodies(V, m) == UNION {[1..n -> V] : n \in 0..m}
Kid == <<Ins("Y", U, 0, "", ""), Ins("S", 0, 0, "", "/c")>>
Kid3 == <<Ins("Y", U, 0, "", ""), Ins("W", 0, 0, "", "c1"), Ins("Y", 2 * U, 0, "", "")>>
Programs == {[clocks |-> [t1 |-> <<1, 1>>],
              routines |-> [r0 |-> b0, r1 |-> b1, r2 |-> Kid, r3 |-> Kid3],
              funcs |-> <<>>,
              main |-> <<Ins("P", 0, 0, "sys", "r0"), Ins("P", 0, 0, "t1", "r1"), Ins("P", 0, 0, "t1", "r3")>>]
             : b0 \in Bodies(VocabSys, MaxLenS), b1 \in Bodies(VocabT1, MaxLenT)}

Init == prog \in Programs /\ st = Main(Init0(prog), prog, "rt", 1)
Live(s, r) == LET s0 == DropFor(s, "rt", r) IN Enabled(s0, "rt", r) /\ s0.rt[r].st \notin {"paused", "done"}
Next == \E r \in DOMAIN prog.routines :
            /\ Live(st, r)
            /\ st' = Wake(DropFor(st, "rt", r), prog, "rt", r)
            /\ prog' = prog
Spec == Init /\ [][Next]_vars

(* the unique NRT run of the same program *)
RECURSIVE NrtRun(_, _)
NrtRun(p, s) ==
    LET cand == {r \in DOMAIN p.routines : LET s0 == DropFor(s, "nrt", r) IN
                     Enabled(s0, "nrt", r) /\ s0.rt[r].st \notin {"paused", "done"}} IN
    IF cand = {} THEN s
    ELSE LET r == CHOOSE r \in cand : TRUE IN NrtRun(p, Wake(DropFor(s, "nrt", r), p, "nrt", r))
Vals(out, r) == SelectSeq(out, LAMBDA e : e.r = r /\ e.k \in {"obs", "draw", "refused"})
ObsTimes(out) == SelectSeq(out, LAMBDA e : e.k = "obs")
Finished == \A r \in DOMAIN prog.routines : ~Live(st, r)

RtEqualsNrt == Finished =>
    LET n == NrtRun(prog, Main(Init0(prog), prog, "nrt", 1)) IN
    \A r \in DOMAIN prog.routines : Vals(st.out, r) = Vals(n.out, r)
NrtMonotone == TLCGet("level") = 1 =>      \* a property of the program alone: evaluated once per program
    LET n == NrtRun(prog, Main(Init0(prog), prog, "nrt", 1))
        o == ObsTimes(n.out) IN
    \A i \in 1..Len(o) - 1 : o[i].secs <= o[i + 1].secs
NoBad == st.bad = "ok"
=============================================================================
