----------------------------- MODULE TraceScgf -----------------------------
(* C->S binding for C02.  A record is one attempt to build and write a definition from a program:
     [id, prog, raised, err, nbytes, sha, ref, parsed, created, wf, wf_lost, desc]
   ref      "" or, for a definition built while another thread was building, the sha of the same program built alone
   parsed   the emitted bytes read by the independent SCgf reader (harness/scgf.py)
   created  for every emitted unit its creation stamp inside the graph function (0 = made later)
   wf       for every emitted unit 1 if the function created it as a width-first unit
   wf_lost  creation stamps of width-first units the function created that were not emitted
   desc     what SynthDesc.new_from(def), SynthDesc._read_stream(bytes) and SynthDesc.read(file, keep_defs)
            recovered
   Verdict, with the operators of SynthGraph.tla:
     invalid program (MustRaise)  => an exception and no bytes
     bytes                        => ScgfWhy = "ok"; the recorded order is a behaviour of the Emit
                                     action system (EmitEnabled at every position); no width-first
                                     unit lost; both descriptions agree with the bytes.           *)
EXTENDS SynthGraph, Json, IOUtils
Traces == JsonDeserialize(IOEnv.VERIF_TRACES)
VARIABLES tid, l
tvars == <<tid, l>>
TInit == tid \in 1..Len(Traces) /\ l = 1

RateName(r) == CASE r = 0 -> "scalar" [] r = 1 -> "control" [] r = 2 -> "audio" [] r = 3 -> "demand" [] OTHER -> "?"
InClasses == {"In", "LocalIn", "LagIn", "InFeedback", "InTrig"}
OutFixed == "Out" :> 1 @@ "ReplaceOut" :> 1 @@ "OffsetOut" :> 1 @@ "XOut" :> 2 @@ "LocalOut" :> 0
\* classes whose outputs the description reader resolves to a control name when they feed a bus input
NameableControls == {"Control", "TrigControl", "LagControl"}

\* ---- what a description of definition d must say
NameAt(d, slot) == IF \E j \in 1..Len(d.names) : d.names[j].i = slot
                   THEN d.names[CHOOSE j \in 1..Len(d.names) : d.names[j].i = slot].n ELSE "?"
CtlUnitAt(d, slot) == {u \in 1..Len(d.units) : d.units[u].c \in ControlClasses /\ d.units[u].sp <= slot
                                               /\ slot < d.units[u].sp + Len(d.units[u].outs)}
RateAt(d, slot) == IF CtlUnitAt(d, slot) = {} THEN "?"
                   ELSE LET u == CHOOSE u \in CtlUnitAt(d, slot) : TRUE IN RateName(d.units[u].r)
\* default of a named slot = its value followed by the values of the unnamed slots after it
RECURSIVE Run(_, _)
Run(d, slot) == IF slot >= Len(d.ctl) \/ NameAt(d, slot) # "?" THEN <<>> ELSE <<d.ctl[slot + 1]>> \o Run(d, slot + 1)
DefaultAt(d, slot) == IF NameAt(d, slot) = "?" THEN <<d.ctl[slot + 1]>> ELSE <<d.ctl[slot + 1]>> \o Run(d, slot + 1)
\* starting channel of a bus unit: a constant, the name of the control feeding it, or another unit
StartOf(d, in) ==
    IF in[1] < 0 THEN [k |-> "c", v |-> d.consts[in[2] + 1], s |-> ""]
    ELSE LET un == d.units[in[1] + 1] IN
         IF un.c \in NameableControls /\ NameAt(d, un.sp + in[2]) # "?"
         THEN [k |-> "s", v |-> [x |-> 1, v |-> 0, hi |-> 0, lo |-> 0], s |-> NameAt(d, un.sp + in[2])]
         ELSE [k |-> "u", v |-> [x |-> 1, v |-> 0, hi |-> 0, lo |-> 0], s |-> ""]
IoUnits(d, classes) == SelectSeq([u \in 1..Len(d.units) |-> u], LAMBDA u : d.units[u].c \in classes)
IoWhy(d, u, x, isOut) ==
    LET un == d.units[u]
        chans == IF isOut THEN Len(un.ins) - OutFixed[un.c] ELSE Len(un.outs)
        st == IF un.ins = <<>> THEN [k |-> "u", v |-> [x |-> 1, v |-> 0, hi |-> 0, lo |-> 0], s |-> ""]
              ELSE StartOf(d, un.ins[1]) IN
    IF x.c # un.c THEN "class" ELSE IF x.r # RateName(un.r) THEN "rate" ELSE IF x.n # chans THEN "channels"
    ELSE IF x.k # st.k THEN "start"
    ELSE IF st.k = "c" /\ x.v # st.v THEN "start"
    ELSE IF st.k = "s" /\ x.s # st.s THEN "start"
    ELSE "ok"
DescWhy(d, x) ==
    LET ins == IoUnits(d, InClasses)
        outs == IoUnits(d, DOMAIN OutFixed) IN
    IF x.raised = 1 THEN "desc-raised:" \o x.err
    ELSE IF x.name # d.name THEN "desc-name"
    ELSE IF Len(x.ctl) # Len(d.ctl) THEN "desc-control-count"
    ELSE IF x.names # [j \in 1..Len(d.names) |-> d.names[j].n] THEN "desc-control-names"
    ELSE IF \E i \in 1..Len(d.ctl) : x.ctl[i].n # NameAt(d, i - 1) \/ x.ctl[i].i # i - 1 THEN "desc-control-slot"
    ELSE IF \E i \in 1..Len(d.ctl) : x.ctl[i].d # DefaultAt(d, i - 1) THEN "desc-control-default"
    ELSE IF \E i \in 1..Len(d.ctl) : x.ctl[i].r # RateAt(d, i - 1) THEN "desc-control-rate"
    ELSE IF x.gate # (IF \E j \in 1..Len(d.names) : d.names[j].n = "gate" THEN 1 ELSE 0) THEN "desc-gate"
    ELSE IF Len(x.ins) # Len(ins) \/ Len(x.outs) # Len(outs) THEN "desc-io-count"
    ELSE IF \E i \in 1..Len(ins) : IoWhy(d, ins[i], x.ins[i], FALSE) # "ok"
         THEN "desc-in-" \o IoWhy(d, ins[CHOOSE i \in 1..Len(ins) : IoWhy(d, ins[i], x.ins[i], FALSE) # "ok"],
                                  x.ins[CHOOSE i \in 1..Len(ins) : IoWhy(d, ins[i], x.ins[i], FALSE) # "ok"], FALSE)
    ELSE IF \E i \in 1..Len(outs) : IoWhy(d, outs[i], x.outs[i], TRUE) # "ok"
         THEN "desc-out-" \o IoWhy(d, outs[CHOOSE i \in 1..Len(outs) : IoWhy(d, outs[i], x.outs[i], TRUE) # "ok"],
                                   x.outs[CHOOSE i \in 1..Len(outs) : IoWhy(d, outs[i], x.outs[i], TRUE) # "ok"], TRUE)
    ELSE "ok"

\* ---- the program's own controls must be what the description shows (names in order, defaults)
ProgCtlWhy(prog, x) ==
    IF \E i \in 1..Len(prog.ctl) : ~\E j \in 1..Len(x.ctl) :
            x.ctl[j].n = prog.ctl[i].n /\ Len(x.ctl[j].d) = CtlW(prog.ctl[i])
            /\ \A ch \in 1..Len(x.ctl[j].d) : x.ctl[j].d[ch].x = 1 /\ x.ctl[j].d[ch].v = CtlDef(prog.ctl[i], ch - 1)
            /\ x.ctl[j].r = RateName(CtlRate(prog.ctl[i].r))
    THEN "desc-program-control" ELSE "ok"

\* ---- the control array has exactly one slot per channel of every parameter, and every control-rate slot of a program
\*      with lagged parameters sits in a LagControl unit of at most 16 channels with one lag input per channel
SlotsWhy(prog, d) ==
    LET total == FoldLeft(LAMBDA a, c : a + CtlW(c), 0, prog.ctl) IN
    IF Len(d.ctl) # total THEN "control-slot-count"
    ELSE IF Lagged(prog) /\ \E u \in 1..Len(d.units) : d.units[u].c = "LagControl" /\
                (Len(d.units[u].outs) > 16 \/ Len(d.units[u].ins) # Len(d.units[u].outs)) THEN "lag-control-shape"
    ELSE "ok"

\* ---- ordering
OrderWhy(d, created, wfl) ==
    LET NU == Len(d.units)
        dep == [u \in 1..NU |-> {d.units[u].ins[j][1] + 1 : j \in {j \in 1..Len(d.units[u].ins) : d.units[u].ins[j][1] >= 0}}]
        wf == {u \in 1..NU : wfl[u] = 1} IN
    IF Len(created) # NU \/ Len(wfl) # NU THEN "order-record-shape"
    ELSE IF \E u \in 1..NU : ~EmitEnabled(u, 1..(u - 1), dep, wf, created)
         THEN "order:" \o d.units[CHOOSE u \in 1..NU : ~EmitEnabled(u, 1..(u - 1), dep, wf, created)].c
    ELSE "ok"

Why(t) ==
    IF ~ProgShapeOK(t.prog) THEN "bad-program-shape"
    ELSE IF MustRaise(t.prog) THEN (IF t.raised = 1 /\ t.nbytes = 0 THEN "ok" ELSE "invalid-accepted")
    \* built while another thread was building (ref = sha of the same program built alone): it must not fail ...
    ELSE IF t.ref # "" /\ t.raised = 1 THEN "differs-from-sequential-build:raised"
    ELSE IF t.raised = 1 THEN (IF t.nbytes = 0 THEN "ok" ELSE "bytes-after-exception")
    ELSE LET sw == ScgfWhy(t.parsed, t.prog.name) IN
         IF sw # "ok" THEN "malformed:" \o sw
         ELSE LET d == t.parsed.defs[1]
                  ow == OrderWhy(d, t.created, t.wf) IN
              IF ow # "ok" THEN ow
              ELSE IF t.wf_lost # <<>> THEN "width-first-unit-lost"
              ELSE IF SlotsWhy(t.prog, d) # "ok" THEN SlotsWhy(t.prog, d)
              ELSE IF Len(t.desc) # 3 THEN "desc-missing"
              ELSE IF DescWhy(d, t.desc[1]) # "ok" THEN "new_from:" \o DescWhy(d, t.desc[1])
              ELSE IF DescWhy(d, t.desc[2]) # "ok" THEN "read_stream:" \o DescWhy(d, t.desc[2])
              ELSE IF ProgCtlWhy(t.prog, t.desc[2]) # "ok" THEN ProgCtlWhy(t.prog, t.desc[2])
              \* the same bytes read from a file with the definitions kept (SynthDesc.read / SynthDescLib.read)
              ELSE IF DescWhy(d, t.desc[3]) # "ok" THEN "read_file:" \o DescWhy(d, t.desc[3])
              \* ... and, being well-formed, it must be byte-identical to the definition built alone
              ELSE IF t.ref # "" /\ t.sha # t.ref THEN "differs-from-sequential-build"
              ELSE "ok"
Step == /\ l = 1
        /\ LET why == Why(Traces[tid]) IN
           IF why = "ok" THEN PrintT(<<"ACC", Traces[tid].id>>) /\ l' = 0 - 1
           ELSE PrintT(<<"REJ", Traces[tid].id, 1, why>>) /\ l' = 0
        /\ UNCHANGED tid
TNext == Step
TSpec == TInit /\ [][TNext]_tvars
=============================================================================
