---------------------------- MODULE TraceDispatch ----------------------------
(* Binding for C18's dispatch: a trace is a history of responder operations and received
   datagrams run on the real OscFunc / OscFunc.matching objects in RT mode.  For "recv" events the
   driver recorded the datagram bytes, the sender, the receiving interface, what happened to the
   receiver ("ok" | "raise:<Exc>" | "hang" | "stuck") and the log of callback invocations.
   Osc.Dec classifies the datagram, Dispatch.Deliver computes what must fire.             *)
EXTENDS Dispatch, Json, IOUtils
Traces == JsonDeserialize(IOEnv.VERIF_TRACES)
VARIABLES tid, l, st
tvars == <<tid, l, st>>

\* diagnosis only: what is listening when a delivery goes wrong (becomes part of the signature)
Context(st0, ms) ==
    LET L(m) == {i \in 1..Len(st0.rs) : st0.rs[i].en /\ PathOK(st0.rs[i], m.a)} IN
    UNION {   (IF \E i \in L(ms[k]) : st0.rs[i].os THEN {"one-shot-listening"} ELSE {})
         \cup (IF \E i \in L(ms[k]) : Len(st0.rs[i].tmpl) > Len(ms[k].args) THEN {"template-longer-than-message"} ELSE {})
         \cup (IF ~Literal(ms[k].a) THEN {"pattern-address"} ELSE {})
         \cup (IF Malformed(ms[k].a) THEN {"malformed-pattern"} ELSE {})
         \cup (IF \E i \in 1..Len(st0.rs) : st0.rs[i].en /\ st0.rs[i].kind = "matching" THEN {"matching-responder-enabled"} ELSE {})
         : k \in 1..Len(ms)}
Outcome(out) == IF out = "hang" THEN "Hang" ELSE IF out = "stuck" THEN "Stuck" ELSE IF out # "ok" THEN "Raised" ELSE "ok"
RecvStep(st0, e) ==
    LET d == Dec(e.dg)  cls == Class(d, st0) IN
    IF cls = "bad" THEN
        [st |-> st0, det |-> {d.why},
         why |-> IF Outcome(e.out) # "ok" THEN "Malformed" \o Outcome(e.out)
                 ELSE IF e.log # <<>> THEN "MalformedFired" ELSE "ok"]
    ELSE IF cls = "grey" THEN
        \* whatever fired, fired; one-shots among them are gone
        [st |-> IF \A k \in 1..Len(e.log) : e.log[k].r \in 1..Len(st0.rs) THEN AfterFire(st0, [k \in 1..Len(e.log) |-> e.log[k].r]) ELSE st0,
         det |-> {"grey datagram"}, why |-> Outcome(e.out)]
    ELSE LET ms == FlatB(d)  x == Deliver(st0, ms, 1, e.src, e.via, <<>>)
             \* the callback's float time is exact only near the clock's offset: compare tags within 2^40 of it
             near(tag) == tag # <<>> /\ SubSeq(tag, 1, 3) = SubSeq(e.off, 1, 3) /\ ~LexLess(tag, e.off)
             exp == [k \in 1..Len(x.log) |-> IF near(x.log[k].tm) THEN x.log[k] ELSE [x.log[k] EXCEPT !.tm = <<>>]] IN
        [st |-> x.st, det |-> Context(st0, ms),
         why |-> IF Outcome(e.out) # "ok" THEN Outcome(e.out) ELSE LogWhy(st0, e.log, exp)]

TInit == tid \in 1..Len(Traces) /\ l = 1 /\ st = [rs |-> <<>>, ord |-> <<>>]
Step == /\ l >= 1 /\ l <= Len(Traces[tid].ev)
        /\ LET e == Traces[tid].ev[l]
               r == IF e.op = "recv" THEN RecvStep(st, e) ELSE [st |-> Apply(st, e), why |-> "ok", det |-> {}] IN
           IF r.why = "ok" THEN st' = r.st /\ l' = l + 1 /\ tid' = tid
           ELSE PrintT(<<"REJ", Traces[tid].id, l, r.why, r.det>>) /\ l' = 0 /\ UNCHANGED <<st, tid>>
Done == /\ l = Len(Traces[tid].ev) + 1 /\ PrintT(<<"ACC", Traces[tid].id>>)
        /\ l' = 0 - 1 /\ UNCHANGED <<st, tid>>
TSpec == TInit /\ [][Step \/ Done]_tvars
=============================================================================
