---------------------------- MODULE TraceDispatch ----------------------------
(* Binding for C18's dispatch: a trace is a history of responder operations and received
   datagrams run on the real OscFunc / OscFunc.matching objects in RT mode.  Callbacks follow the
   behaviour scripted at create / setfunc (raise on the k-th invocation, free / disable / enable
   responders from inside).  For "recv" events the driver recorded the datagram bytes, the sender,
   the receiving interface, what happened to the receiver ("ok" | "raise:<Exc>" | "hang" | "stuck")
   and the log of callback invocations (each with the delivery number d of the message it ran for).
   Osc.Dec classifies the datagram, Dispatch.Judge decides the log.  Every recv event is judged:
   after a rejected one the trace goes on from the state the observed invocations lead to, so that
   one defect does not hide another later in the same history.                              *)
EXTENDS Dispatch, Json, IOUtils
Traces == JsonDeserialize(IOEnv.VERIF_TRACES)
VARIABLES tid, l, st, bad
tvars == <<tid, l, st, bad>>

\* diagnosis only: what is listening when a delivery goes wrong (becomes part of the signature)
Context(st0, ms) ==
    LET L(m) == {i \in 1..Len(st0.rs) : st0.rs[i].en /\ PathOK(st0.rs[i], m.a)} IN
    UNION {   (IF \E i \in L(ms[k]) : st0.rs[i].os THEN {"one-shot-listening"} ELSE {})
         \cup (IF \E i \in L(ms[k]) : Len(st0.rs[i].tmpl) > Len(ms[k].args) THEN {"template-longer-than-message"} ELSE {})
         \cup (IF ~Literal(ms[k].a) THEN {"pattern-address"} ELSE {})
         \cup (IF Malformed(ms[k].a) THEN {"malformed-pattern"} ELSE {})
         \cup (IF \E i \in 1..Len(st0.rs) : st0.rs[i].en /\ st0.rs[i].kind = "matching" THEN {"matching-responder-enabled"} ELSE {})
         : k \in 1..Len(ms)}
Outcome(out) == IF out = "hang" THEN "Hang" ELSE IF out = "stuck" THEN "Stuck" ELSE IF out = "flood" THEN "Flood"
                ELSE IF out # "ok" THEN "Raised" ELSE "ok"
\* did a callback that ran in this datagram raise (per its script)?  -> part of the diagnosis
RECURSIVE AnyRaised(_, _, _)
AnyRaised(s, log, k) == IF k > Len(log) THEN FALSE
                        ELSE IF log[k].r \notin 1..Len(s.rs) THEN AnyRaised(s, log, k + 1)
                        ELSE Raises(s.rs[log[k].r]) \/ AnyRaised(Invoke(s, log[k].r), log, k + 1)
RecvStep(st0, e) ==
    LET d == Dec(e.dg)  cls == Class(d, st0) IN
    IF cls = "bad" THEN
        [st |-> Follow(st0, e.log, 1), det |-> {d.why},
         why |-> IF Outcome(e.out) # "ok" THEN "Malformed" \o Outcome(e.out)
                 ELSE IF e.log # <<>> THEN "MalformedFired" ELSE "ok"]
    ELSE IF cls = "grey" THEN
        \* whatever fired, fired
        [st |-> Follow(st0, e.log, 1), det |-> {"grey datagram"}, why |-> Outcome(e.out)]
    ELSE LET ms0 == FlatB(d)
             \* the callback's float time is exact only near the clock's offset: compare tags within 2^40 of it
             near(tag) == tag # <<>> /\ SubSeq(tag, 1, 3) = SubSeq(e.off, 1, 3) /\ ~LexLess(tag, e.off)
             ms == [k \in 1..Len(ms0) |-> [tag |-> ms0[k].tag, a |-> ms0[k].a, args |-> ms0[k].args,
                                           ctag |-> IF near(ms0[k].tag) THEN ms0[k].tag ELSE <<>>]]
             j == Judge(st0, ms, e.src, e.via, e.log)
             faulty == AnyRaised(st0, e.log, 1) IN
        [st |-> j.st,
         det |-> IF faulty THEN {"callback-raised"}
                 ELSE Context(st0, ms0) \cup (IF j.acted THEN {"callback-acted"} ELSE {}),
         why |-> IF Outcome(e.out) # "ok" THEN (IF faulty THEN "Callback" ELSE "") \o Outcome(e.out) ELSE j.why]

TInit == tid \in 1..Len(Traces) /\ l = 1 /\ st = [rs |-> <<>>, ord |-> <<>>] /\ bad = FALSE
Step == /\ l >= 1 /\ l <= Len(Traces[tid].ev)
        /\ LET e == Traces[tid].ev[l]
               r == IF e.op = "recv" THEN RecvStep(st, e) ELSE [st |-> Apply(st, e), why |-> "ok", det |-> {}] IN
           /\ st' = r.st /\ l' = l + 1 /\ tid' = tid
           /\ IF r.why = "ok" THEN bad' = bad
              ELSE PrintT(<<"REJ", Traces[tid].id, l, r.why, r.det>>) /\ bad' = TRUE
Done == /\ l = Len(Traces[tid].ev) + 1
        /\ IF bad THEN TRUE ELSE PrintT(<<"ACC", Traces[tid].id>>)
        /\ l' = 0 - 1 /\ UNCHANGED <<st, tid, bad>>
TSpec == TInit /\ [][Step \/ Done]_tvars
=============================================================================
