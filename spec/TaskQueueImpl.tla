-------------------------- MODULE TaskQueueImpl --------------------------
(* L2: sc3/base/_taskq.py transcribed method by method (heap with lazy deletion).
   heapq's array layout is abstracted to "extract the least entry" (trusted: CPython heapq).
   TLC checks that this implementation-shaped model refines TaskQueue (L1).        *)
EXTENDS Naturals, Integers, Sequences, FiniteSets, TLC
CONSTANTS Tasks, Prios, MaxCtr, MaxPop
REMOVED == "REMOVED"
EntryLess(a, b) == a.p < b.p \/ (a.p = b.p /\ a.c < b.c)
RECURSIVE SortSet(_)
SortSet(S) == IF S = {} THEN <<>>
              ELSE LET m == CHOOSE x \in S : \A y \in S : x = y \/ EntryLess(x, y)
                   IN <<m>> \o SortSet(S \ {m})
L1Sort(S) == LET s == SortSet(S) IN [i \in 1..Len(s) |-> [p |-> s[i].p, s |-> s[i].c, t |-> s[i].t]]
VARIABLES heap,      \* set of entries [p, c, t]; t = REMOVED for tombstones
          finder,    \* task -> count of its live entry
          removed,   \* _removed_counter
          counter,   \* next value of itertools.count()
          ret, popped,
          op, pre    \* history: last operation and the abstract state it started from
vars == <<heap, finder, removed, counter, ret, popped, op, pre>>
Abs == [q |-> L1Sort({e \in heap : e.t # REMOVED}), ctr |-> counter]
Op(n, p, t) == [n |-> n, p |-> p, t |-> t]
Rec(n, p, t) == op' = Op(n, p, t) /\ pre' = Abs

L1 == INSTANCE TaskQueue WITH q <- LET live == {e \in heap : e.t # REMOVED}
                                    IN  L1Sort(live), ctr <- counter
MinEntry(S) == CHOOSE x \in S : \A y \in S : x = y \/ EntryLess(x, y)
R(kind, v) == [k |-> kind, v |-> v]

Init == op = Op("init", 0, "") /\ pre = [q |-> <<>>, ctr |-> 0] /\ heap = {} /\ finder = <<>> /\ removed = 0 /\ counter = 0
        /\ ret = R("none", <<>>) /\ popped = <<>>

\* remove(task): mark the entry as a tombstone
RemoveOp(h, f, rm, t) ==
    IF t \in DOMAIN f
    THEN [h |-> {IF e.c = f[t] THEN [e EXCEPT !.t = REMOVED] ELSE e : e \in h},
          f |-> [x \in DOMAIN f \ {t} |-> f[x]], rm |-> rm + 1]
    ELSE [h |-> h, f |-> f, rm |-> rm]

Add == \E p \in Prios, t \in Tasks :
    LET r == RemoveOp(heap, finder, removed, t)      \* "if task in finder: self.remove(task)"
        entry == [p |-> p, c |-> counter, t |-> t]
    IN /\ heap' = r.h \cup {entry}
       /\ finder' = [x \in DOMAIN r.f \cup {t} |-> IF x = t THEN counter ELSE r.f[x]]
       /\ removed' = r.rm /\ counter' = counter + 1
       /\ ret' = R("none", <<>>) /\ UNCHANGED popped /\ Rec("add", p, t)

Remove == \E t \in Tasks :
    LET r == RemoveOp(heap, finder, removed, t)
    IN heap' = r.h /\ finder' = r.f /\ removed' = r.rm /\ ret' = R("none", <<>>)
       /\ UNCHANGED <<counter, popped>> /\ Rec("remove", 0, t)

\* pop(): while queue: heappop; skip tombstones decrementing the removed counter
RECURSIVE PopLoop(_, _)
PopLoop(h, rm) ==
    IF h = {} THEN [h |-> h, rm |-> rm, found |-> FALSE, e |-> [p |-> 0, c |-> 0, t |-> REMOVED]]
    ELSE LET m == MinEntry(h) IN
         IF m.t # REMOVED THEN [h |-> h \ {m}, rm |-> rm, found |-> TRUE, e |-> m]
         ELSE PopLoop(h \ {m}, rm - 1)
Pop == LET r == PopLoop(heap, removed) IN
    /\ heap' = r.h /\ removed' = r.rm
    /\ IF r.found
       THEN /\ finder' = [x \in DOMAIN finder \ {r.e.t} |-> finder[x]]
            /\ ret' = R("pair", <<<<r.e.p, r.e.t>>>>)
            /\ popped' = Append(popped, [p |-> r.e.p, s |-> r.e.c, t |-> r.e.t])
       ELSE finder' = finder /\ ret' = R("keyerror", <<>>) /\ popped' = popped
    /\ UNCHANGED counter /\ Rec("pop", 0, "")

\* peek(): nsmallest/nlargest with tombstone-aware keys (+inf / -inf for tombstones)
SmallLess(a, b) == IF a.t = REMOVED THEN FALSE ELSE IF b.t = REMOVED THEN TRUE ELSE EntryLess(a, b)
LargeLess(a, b) == IF a.t = REMOVED THEN b.t # REMOVED ELSE IF b.t = REMOVED THEN FALSE ELSE EntryLess(a, b)
PeekS ==
    /\ IF heap # {}
       THEN LET m == CHOOSE x \in heap : \A y \in heap : ~SmallLess(y, x) IN
            ret' = IF m.t # REMOVED THEN R("pair", <<<<m.p, m.t>>>>) ELSE R("keyerror", <<>>)
       ELSE ret' = R("keyerror", <<>>)
    /\ UNCHANGED <<heap, finder, removed, counter, popped>> /\ Rec("peeks", 0, "")
PeekL ==
    /\ IF heap # {}
       THEN LET m == CHOOSE x \in heap : \A y \in heap : ~LargeLess(x, y) IN
            ret' = IF m.t # REMOVED THEN R("pair", <<<<m.p, m.t>>>>) ELSE R("keyerror", <<>>)
       ELSE ret' = R("keyerror", <<>>)
    /\ UNCHANGED <<heap, finder, removed, counter, popped>> /\ Rec("peekl", 0, "")

Empty == ret' = R(IF Cardinality(heap) - removed = 0 THEN "true" ELSE "false", <<>>)
         /\ UNCHANGED <<heap, finder, removed, counter, popped>> /\ Rec("empty", 0, "")

Clear == heap' = {} /\ finder' = <<>> /\ removed' = 0 /\ counter' = 0 /\ ret' = R("none", <<>>)
         /\ popped' = <<>> /\ Rec("clear", 0, "")

Iter == LET s == SortSet(heap)
            live == SelectSeq(s, LAMBDA e : e.t # REMOVED) IN
        ret' = R("list", [i \in 1..Len(live) |-> <<live[i].p, live[i].t>>])
        /\ UNCHANGED <<heap, finder, removed, counter, popped>> /\ Rec("iter", 0, "")

Next == Add \/ Remove \/ Pop \/ PeekS \/ PeekL \/ Empty \/ Clear \/ Iter
Spec == Init /\ [][Next]_vars

\* refinement, one step at a time: the abstract state and the return value after every
\* implementation step are what the L1 operator computes from the abstract state before it
StepRefines == op.n # "init" =>
    LET r == L1!Apply(pre.q, pre.ctr, op) IN Abs.q = r.q /\ counter = r.ctr /\ ret = r.ret
L1TypeOK == L1!TypeOK
L1AtMostOnce == L1!InvAtMostOnce
L1EmptyAgrees == L1!EmptyAgrees
RemovedCounts == removed = Cardinality({e \in heap : e.t = REMOVED})
FinderAgrees == /\ DOMAIN finder = {e.t : e \in {x \in heap : x.t # REMOVED}}
                /\ \A t \in DOMAIN finder : \E e \in heap : e.t = t /\ e.c = finder[t]
Bound == counter <= MaxCtr /\ Len(popped) <= MaxPop
=============================================================================
