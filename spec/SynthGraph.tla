----------------------------- MODULE SynthGraph -----------------------------
(* L1 for C01 / C02: what it means for an emitted synth definition to *implement* a graph function.

   A graph function is abstracted as a PROGRAM: a sequence of builder instructions
       gen   a unit-generator constructor  cls.rate(operands)      (nout result channels)
       un    a unary operator              sel(a)
       bin   a binary operator             a sel b
       madd  a.madd(m, d)                  a*m + d
       sum   [x1..xn].sum()
   whose operands are numeric constants ("c"), control parameters ("p") or a channel of the result
   of an earlier instruction ("r"; the same result may be used any number of times).

   MEANING.  Every expression denotes a value in the field Z_P under an environment that assigns a
   value to every output channel of every source unit and to every control slot.  + - * / and neg
   are the field operations; every other operator is a fixed mixing function of its SERVER OPCODE
   INDEX and its operand values (table UnOps/BinOps below, transcribed from the enum order of
   SuperCollider's Opcodes.h).  Two expressions equal under the ring identities agree in every
   environment; unequal ones differ in a pseudo-random environment except with probability
   ~deg/P, and NEnv environments are tried.

   RELATION.  Implements(prog, def, m): m maps every source unit with a side effect - and any other
   source unit that is present - to exactly one emitted unit of the same class, rate and shape whose
   every input denotes the same value as the source operand; every other emitted unit is an operator unit (opcode semantics above), audio
   silence, a control unit or a droppable side-effect-free unit; operator units run at the highest
   rate among their inputs.  This module is pure definitions; SynthGraphGen (design model /
   program enumeration), TraceSynthGraph and TraceScgf (validation of recorded builds) use them. *)
EXTENDS Naturals, Integers, Sequences, FiniteSets, TLC, SequencesExt

P == 10007
UNDEF == P                      \* value of an expression that divides by zero in this environment
NEnv == 6
MagCap == 1048576               \* constants stay exact float32 integers below 2^24; we stop at 2^20

Max2(a, b) == IF a >= b THEN a ELSE b
Abs(x) == IF x < 0 THEN 0 - x ELSE x
Modp(x) == ((x % P) + P) % P
MaxOf(s) == IF s = <<>> THEN 0 ELSE FoldLeft(Max2, 0, s)

(* ------------------------------------------------------------------ server opcode tables *)
UnOps == << "neg", "not", "isNil", "notNil", "bitNot", "abs", "asFloat", "asInteger", "ceil", "floor",
            "frac", "sign", "squared", "cubed", "sqrt", "exp", "reciprocal", "midicps", "cpsmidi",
            "midiratio", "ratiomidi", "dbamp", "ampdb", "octcps", "cpsoct", "log", "log2", "log10",
            "sin", "cos", "tan", "asin", "acos", "atan", "sinh", "cosh", "tanh", "rand", "rand2",
            "linrand", "bilinrand", "sum3rand", "distort", "softclip", "coin", "digitValue", "silence",
            "thru", "rectWindow", "hanWindow", "welWindow", "triWindow", "ramp", "scurve" >>
BinOps == << "+", "-", "*", "div", "/", "mod", "==", "!=", "<", ">", "<=", ">=", "min", "max", "bitAnd",
             "bitOr", "bitXor", "lcm", "gcd", "round", "roundUp", "trunc", "atan2", "hypot", "hypotApx",
             "pow", "leftShift", "rightShift", "unsignedRightShift", "fill", "ring1", "ring2", "ring3",
             "ring4", "difsqr", "sumsqr", "sqrsum", "sqrdif", "absdif", "thresh", "amclip", "scaleneg",
             "clip2", "excess", "fold2", "wrap2", "firstArg", "rrand", "exprand" >>
UnIdxTab == [i \in 1..Len(UnOps) |-> i - 1]
IdxIn(seq, x) == IF \E i \in 1..Len(seq) : seq[i] = x THEN (CHOOSE i \in 1..Len(seq) : seq[i] = x) - 1 ELSE 0 - 1
UnIdx(sel) == IdxIn(UnOps, sel)
BinIdx(sel) == IdxIn(BinOps, sel)
\* selectors a program may use (the unused enum slots have no language-side operator)
UnUsable == {UnOps[i] : i \in 1..Len(UnOps)} \ {"isNil", "notNil", "digitValue", "silence", "thru"}
BinUsable == {BinOps[i] : i \in 1..Len(BinOps)} \ {"fill"}
Comparisons == {"==", "!=", "<", ">", "<=", ">="}

(* ------------------------------------------------------------------ class table
   se      the unit has a side effect (bus write, random generator, done action): never droppable
   rates   rates it can be created at (0 scalar, 1 control, 2 audio)
   lo, hi  number of inputs;  nout  outputs (0 - 1 = given by the instruction)
   aud     input positions that must be audio rate when the unit is audio rate
   audFrom all positions >= audFrom must be audio rate when the unit is audio rate (0 = none)
   same    input positions that must run at the unit's own rate
   wf      width-first (ordering side effect);  extra  trailing inputs the library adds itself   *)
K(se, rates, lo, hi, nout, aud, audFrom, same) ==
    [se |-> se, rates |-> rates, lo |-> lo, hi |-> hi, nout |-> nout, aud |-> aud, audFrom |-> audFrom,
     same |-> same, wf |-> FALSE, extra |-> 0]
W(k, extra) == [k EXCEPT !.wf = TRUE, !.extra = extra]
ClassTab ==
    "SinOsc" :> K(FALSE, {1, 2}, 2, 2, 1, {}, 0, {}) @@
    "LFSaw" :> K(FALSE, {1, 2}, 2, 2, 1, {}, 0, {}) @@
    "Impulse" :> K(FALSE, {1, 2}, 2, 2, 1, {}, 0, {}) @@
    "Saw" :> K(FALSE, {1, 2}, 1, 1, 1, {}, 0, {}) @@
    "WhiteNoise" :> K(TRUE, {1, 2}, 0, 0, 1, {}, 0, {}) @@
    "LFNoise0" :> K(TRUE, {1, 2}, 1, 1, 1, {}, 0, {}) @@
    "Dust" :> K(TRUE, {1, 2}, 1, 1, 1, {}, 0, {}) @@
    "Rand" :> K(TRUE, {0}, 2, 2, 1, {}, 0, {}) @@
    "Line" :> K(TRUE, {1, 2}, 4, 4, 1, {}, 0, {}) @@
    "In" :> K(FALSE, {1, 2}, 1, 1, 0 - 1, {}, 0, {}) @@
    "Pan2" :> K(FALSE, {1, 2}, 3, 3, 2, {1}, 0, {}) @@
    "DC" :> K(FALSE, {1, 2}, 1, 1, 1, {}, 0, {}) @@
    "K2A" :> K(FALSE, {2}, 1, 1, 1, {}, 0, {}) @@
    "A2K" :> K(FALSE, {1}, 1, 1, 1, {}, 0, {}) @@
    "LinExp" :> K(FALSE, {1, 2}, 5, 5, 1, {}, 0, {1}) @@
    "LPF" :> K(FALSE, {1, 2}, 2, 2, 1, {}, 0, {1}) @@
    \* BEGIN DERIVED (harness/derive_classes.py: helper + n + arity + outputs read from the sc3 source)
    "APF" :> K(FALSE, {1, 2}, 3, 3, 1, {}, 0, {1}) @@
    "BAllPass" :> K(FALSE, {2}, 3, 3, 1, {}, 0, {1}) @@
    "BBandPass" :> K(FALSE, {2}, 3, 3, 1, {}, 0, {1}) @@
    "BBandStop" :> K(FALSE, {2}, 3, 3, 1, {}, 0, {1}) @@
    "BHiPass" :> K(FALSE, {2}, 3, 3, 1, {}, 0, {1}) @@
    "BHiShelf" :> K(FALSE, {2}, 4, 4, 1, {}, 0, {1}) @@
    "BLowPass" :> K(FALSE, {2}, 3, 3, 1, {}, 0, {1}) @@
    "BLowShelf" :> K(FALSE, {2}, 4, 4, 1, {}, 0, {1}) @@
    "BPF" :> K(FALSE, {1, 2}, 3, 3, 1, {}, 0, {1}) @@
    "BPZ2" :> K(FALSE, {1, 2}, 1, 1, 1, {}, 0, {1}) @@
    "BPeakEQ" :> K(FALSE, {2}, 4, 4, 1, {}, 0, {1}) @@
    "BRF" :> K(FALSE, {1, 2}, 3, 3, 1, {}, 0, {1}) @@
    "BRZ2" :> K(FALSE, {1, 2}, 1, 1, 1, {}, 0, {1}) @@
    "Balance2" :> K(FALSE, {1, 2}, 4, 4, 2, {1, 2}, 0, {}) @@
    "BiPanB2" :> K(FALSE, {1, 2}, 4, 4, 3, {1, 2}, 0, {}) @@
    "Decay" :> K(FALSE, {1, 2}, 2, 2, 1, {}, 0, {1}) @@
    "Decay2" :> K(FALSE, {1, 2}, 3, 3, 1, {}, 0, {1}) @@
    "DecodeB2" :> K(FALSE, {1, 2}, 4, 4, 0 - 1, {1, 2, 3}, 0, {}) @@
    "DetectSilence" :> K(FALSE, {1, 2}, 4, 4, 1, {}, 0, {1}) @@
    "FOS" :> K(FALSE, {1, 2}, 4, 4, 1, {}, 0, {1}) @@
    "Formlet" :> K(FALSE, {1, 2}, 4, 4, 1, {}, 0, {1}) @@
    "FreeVerb" :> K(FALSE, {2}, 4, 4, 1, {}, 0, {1}) @@
    "FreeVerb2" :> K(FALSE, {2}, 5, 5, 2, {1, 2}, 0, {}) @@
    "HPF" :> K(FALSE, {1, 2}, 2, 2, 1, {}, 0, {1}) @@
    "HPZ1" :> K(FALSE, {1, 2}, 1, 1, 1, {}, 0, {1}) @@
    "HPZ2" :> K(FALSE, {1, 2}, 1, 1, 1, {}, 0, {1}) @@
    "Integrator" :> K(FALSE, {1, 2}, 2, 2, 1, {}, 0, {1}) @@
    "LPZ1" :> K(FALSE, {1, 2}, 1, 1, 1, {}, 0, {1}) @@
    "LPZ2" :> K(FALSE, {1, 2}, 1, 1, 1, {}, 0, {1}) @@
    "LeakDC" :> K(FALSE, {1, 2}, 2, 2, 1, {}, 0, {1}) @@
    "LinPan2" :> K(FALSE, {1, 2}, 3, 3, 2, {1}, 0, {}) @@
    "LinXFade2" :> K(FALSE, {1, 2}, 3, 3, 1, {1, 2}, 0, {}) @@
    "MidEQ" :> K(FALSE, {1, 2}, 4, 4, 1, {}, 0, {1}) @@
    "MoogFF" :> K(FALSE, {1, 2}, 4, 4, 1, {}, 0, {1}) @@
    "OnePole" :> K(FALSE, {1, 2}, 2, 2, 1, {}, 0, {1}) @@
    "OneZero" :> K(FALSE, {1, 2}, 2, 2, 1, {}, 0, {1}) @@
    "Pan4" :> K(FALSE, {1, 2}, 4, 4, 4, {1}, 0, {}) @@
    "PanB" :> K(FALSE, {1, 2}, 4, 4, 4, {1}, 0, {}) @@
    "PanB2" :> K(FALSE, {1, 2}, 3, 3, 3, {1}, 0, {}) @@
    "PulseCount" :> K(FALSE, {1, 2}, 2, 2, 1, {}, 0, {1}) @@
    "RHPF" :> K(FALSE, {1, 2}, 3, 3, 1, {}, 0, {1}) @@
    "RLPF" :> K(FALSE, {1, 2}, 3, 3, 1, {}, 0, {1}) @@
    "Resonz" :> K(FALSE, {1, 2}, 3, 3, 1, {}, 0, {1}) @@
    "Ringz" :> K(FALSE, {1, 2}, 3, 3, 1, {}, 0, {1}) @@
    "Rotate2" :> K(FALSE, {1, 2}, 3, 3, 2, {1, 2}, 0, {}) @@
    "SOS" :> K(FALSE, {1, 2}, 6, 6, 1, {}, 0, {1}) @@
    "SetResetFF" :> K(FALSE, {1, 2}, 2, 2, 1, {}, 0, {1}) @@
    "Slope" :> K(FALSE, {1, 2}, 1, 1, 1, {}, 0, {1}) @@
    "TDelay" :> K(FALSE, {1, 2}, 2, 2, 1, {}, 0, {1}) @@
    "Timer" :> K(FALSE, {1, 2}, 1, 1, 1, {}, 0, {1}) @@
    "TwoPole" :> K(FALSE, {1, 2}, 3, 3, 1, {}, 0, {1}) @@
    "TwoZero" :> K(FALSE, {1, 2}, 3, 3, 1, {}, 0, {1}) @@
    "XFade2" :> K(FALSE, {1, 2}, 4, 4, 1, {1, 2}, 0, {}) @@
    "ZeroCrossing" :> K(FALSE, {1, 2}, 1, 1, 1, {}, 0, {1}) @@
    \* END DERIVED
    "Out" :> K(TRUE, {1, 2}, 2, 64, 0, {}, 2, {}) @@
    "ReplaceOut" :> K(TRUE, {1, 2}, 2, 64, 0, {}, 2, {}) @@
    "LocalOut" :> K(TRUE, {1, 2}, 1, 64, 0, {}, 1, {}) @@
    "OffsetOut" :> K(TRUE, {2}, 2, 64, 0, {}, 2, {}) @@
    "XOut" :> K(TRUE, {1, 2}, 3, 64, 0, {}, 3, {}) @@
    "LocalBuf" :> W(K(TRUE, {0}, 2, 2, 1, {}, 0, {}), 1) @@
    "SetBuf" :> W(K(TRUE, {0}, 4, 64, 1, {}, 0, {}), 0) @@
    "ClearBuf" :> W(K(TRUE, {0}, 1, 1, 1, {}, 0, {}), 0) @@
    "FFT" :> W(K(TRUE, {1}, 6, 6, 1, {}, 0, {}), 0) @@
    "IFFT" :> W(K(TRUE, {1, 2}, 3, 3, 1, {}, 0, {}), 0) @@
    "PV_MagSquared" :> W(K(TRUE, {1}, 1, 1, 1, {}, 0, {}), 0) @@
    "RandSeed" :> W(K(TRUE, {0, 1, 2}, 2, 2, 1, {}, 0, {}), 0) @@
    "RandID" :> W(K(TRUE, {0, 1}, 1, 1, 1, {}, 0, {}), 0)
ClassNames == DOMAIN ClassTab
OperatorClasses == {"UnaryOpUGen", "BinaryOpUGen", "MulAdd", "Sum3", "Sum4"}
ControlClasses == {"Control", "AudioControl", "TrigControl", "LagControl"}
BookkeepingClasses == {"MaxLocalBufs"}      \* counter unit the library adds before the first LocalBuf
\* control kinds of a program: 0 ir, 1 kr, 2 ar, 3 tr
\* width of a control (array-valued parameters: w channels, one name) and the default of its channel ch
CtlW(c) == IF "w" \in DOMAIN c THEN c.w ELSE 1
CtlDef(c, ch) == IF CtlW(c) = 1 THEN c.d ELSE (c.d + ch) % 7
\* lag of a control-rate parameter (given through rates=[number]); 0 = none.  As soon as ONE control-rate parameter of a
\* definition has a lag, all its control-rate parameters live in LagControl units - at most 16 channels per unit, one lag
\* input per channel - instead of one Control unit
CtlLag(c) == IF "lag" \in DOMAIN c THEN c.lag ELSE 0
Lagged(prog) == \E i \in 1..Len(prog.ctl) : prog.ctl[i].r = 1 /\ CtlLag(prog.ctl[i]) # 0
CtlRate(r) == CASE r = 0 -> 0 [] r = 1 -> 1 [] r = 2 -> 2 [] r = 3 -> 1
CtlClass(r) == CASE r = 0 -> "Control" [] r = 1 -> "Control" [] r = 2 -> "AudioControl" [] r = 3 -> "TrigControl"

(* ------------------------------------------------------------------ programs: static attributes
   For every instruction result: lo/hi bounds of the rate it can have (a product with a possibly
   zero constant may collapse to a constant), mc "may be a plain number", mz "may be the number
   zero", mag bound on that number.                                                           *)
MulCap(a, b) == IF a = 0 \/ b = 0 THEN 0 ELSE IF a > MagCap \div b THEN MagCap + 1 ELSE a * b
AddCap(a, b) == IF a + b > MagCap THEN MagCap + 1 ELSE a + b
OpAttr(o, ctl, at) ==
    IF o.k = "c" THEN [lo |-> 0, hi |-> 0, mc |-> TRUE, mz |-> o.i = 0,
                       mag |-> IF Abs(o.i) > MagCap THEN MagCap + 1 ELSE Abs(o.i)]
    ELSE IF o.k = "p" THEN [lo |-> CtlRate(ctl[o.i].r), hi |-> CtlRate(ctl[o.i].r), mc |-> FALSE, mz |-> FALSE, mag |-> 0]
    ELSE at[o.i]
(* operations on channel LISTS (multichannel expansion of arithmetic): the result has nout channels and channel ch is
   the scalar instruction ChanIns(ins, ch) - one expanded unit per channel, each with its own inputs and rate:
     lmadd  ChannelList(xs).madd(m, d)        a = xs \o <<m, d>>          ch: xs[ch] * m + d
     zmadd  MulAdd.new(xs, ms, ds)            a = xs \o ms \o ds (3 nout)  ch: xs[ch] * ms[ch] + ds[ch]
     lbin   ChannelList(xs) sel y | ys        a = xs \o <<y>> | xs \o ys   ch: xs[ch] sel y | ys[ch]
     lun    sel ChannelList(xs)               a = xs                       ch: sel xs[ch]                   *)
ListOps == {"lmadd", "zmadd", "lbin", "lun"}
ChanIns(ins, ch) ==
    LET k == ins.nout
        sc(op, sel, as) == [op |-> op, cls |-> "", sel |-> sel, rate |-> 0, nout |-> 1, a |-> as] IN
    CASE ins.op = "lmadd" -> sc("madd", "", <<ins.a[ch], ins.a[k + 1], ins.a[k + 2]>>)
      [] ins.op = "zmadd" -> sc("madd", "", <<ins.a[ch], ins.a[k + ch], ins.a[2 * k + ch]>>)
      [] ins.op = "lbin" -> sc("bin", ins.sel, <<ins.a[ch], IF Len(ins.a) = k + 1 THEN ins.a[k + 1] ELSE ins.a[k + ch]>>)
      [] ins.op = "lun" -> sc("un", ins.sel, <<ins.a[ch]>>)
ScalarAttr(ins, ctl, at) ==
    LET A == [j \in 1..Len(ins.a) |-> OpAttr(ins.a[j], ctl, at)]
        los == [j \in 1..Len(A) |-> A[j].lo]
        his == [j \in 1..Len(A) |-> A[j].hi]
        allmc == \A j \in 1..Len(A) : A[j].mc
    IN  CASE ins.op \in {"gen", "mce", "sinkn"} -> [lo |-> ins.rate, hi |-> ins.rate, mc |-> FALSE, mz |-> FALSE, mag |-> 0]
          [] ins.op = "bad" -> [lo |-> 0, hi |-> 0, mc |-> TRUE, mz |-> TRUE, mag |-> MagCap + 1]
          [] ins.op = "un" -> [lo |-> A[1].lo, hi |-> A[1].hi, mc |-> A[1].mc,
                               mz |-> IF ins.sel = "neg" THEN A[1].mz ELSE A[1].mc,
                               mag |-> IF ins.sel = "neg" THEN A[1].mag ELSE 0]
          \* a product collapses to a number when one factor is the number zero (or both are numbers)
          [] ins.op = "bin" /\ ins.sel = "*" ->
                [lo |-> IF A[1].mz \/ A[2].mz THEN 0 ELSE MaxOf(los), hi |-> MaxOf(his),
                 mc |-> allmc \/ A[1].mz \/ A[2].mz, mz |-> A[1].mz \/ A[2].mz,
                 mag |-> MulCap(A[1].mag, A[2].mag)]
          [] ins.op = "bin" /\ ins.sel # "*" ->
                [lo |-> MaxOf(los), hi |-> MaxOf(his), mc |-> allmc, mz |-> allmc,
                 mag |-> IF ins.sel \in {"+", "-"} THEN AddCap(A[1].mag, A[2].mag) ELSE 0]
          [] ins.op = "madd" ->
                [lo |-> IF A[1].mz \/ A[2].mz THEN A[3].lo ELSE MaxOf(los), hi |-> MaxOf(his),
                 mc |-> (A[1].mz \/ A[2].mz \/ (A[1].mc /\ A[2].mc)) /\ A[3].mc,
                 mz |-> (A[1].mz \/ A[2].mz \/ (A[1].mc /\ A[2].mc)) /\ A[3].mc,
                 mag |-> AddCap(MulCap(A[1].mag, A[2].mag), A[3].mag)]
          [] ins.op = "sum" ->
                [lo |-> MaxOf(los), hi |-> MaxOf(his), mc |-> allmc, mz |-> allmc,
                 mag |-> FoldLeft(AddCap, 0, [j \in 1..Len(A) |-> A[j].mag])]
\* a list operation: the weakest claims that hold for every channel
MinOf(q) == FoldLeft(LAMBDA a, b : IF a <= b THEN a ELSE b, q[1], q)
InsAttr(ins, ctl, at) ==
    IF ins.op \in ListOps THEN
        LET C == [ch \in 1..ins.nout |-> ScalarAttr(ChanIns(ins, ch), ctl, at)] IN
        [lo |-> MinOf([ch \in 1..ins.nout |-> C[ch].lo]), hi |-> MaxOf([ch \in 1..ins.nout |-> C[ch].hi]),
         mc |-> \E ch \in 1..ins.nout : C[ch].mc, mz |-> \E ch \in 1..ins.nout : C[ch].mz,
         mag |-> MaxOf([ch \in 1..ins.nout |-> C[ch].mag])]
    ELSE ScalarAttr(ins, ctl, at)
Attrs(prog) == FoldLeft(LAMBDA acc, ins : Append(acc, InsAttr(ins, prog.ctl, acc)), <<>>, prog.ins)

OperandOK(o, n, prog) ==
    \/ o.k = "c"
    \/ o.k = "p" /\ o.i \in 1..Len(prog.ctl) /\ o.ch >= 0 /\ o.ch < CtlW(prog.ctl[o.i])
    \/ o.k = "r" /\ o.i \in 1..(n - 1) /\ o.ch >= 0 /\ o.ch < prog.ins[o.i].nout
\* shape of one instruction (class exists, arity, rate, operands refer backwards)
InsShapeOK(prog, n) ==
    LET ins == prog.ins[n] IN
    /\ \A j \in 1..Len(ins.a) : OperandOK(ins.a[j], n, prog)
    /\ CASE ins.op = "gen" ->
              /\ ins.cls \in ClassNames
              /\ LET c == ClassTab[ins.cls] IN
                    /\ ins.rate \in c.rates
                    /\ Len(ins.a) >= c.lo /\ Len(ins.a) <= c.hi
                    /\ IF c.nout < 0 THEN ins.nout \in 1..8 ELSE ins.nout = c.nout
         [] ins.op = "un" -> ins.sel \in UnUsable /\ Len(ins.a) = 1 /\ ins.nout = 1
         [] ins.op = "bin" -> ins.sel \in BinUsable /\ Len(ins.a) = 2 /\ ins.nout = 1
         [] ins.op = "madd" -> Len(ins.a) = 3 /\ ins.nout = 1
         [] ins.op = "sum" -> Len(ins.a) >= 1 /\ ins.nout = 1
         [] ins.op = "lmadd" -> ins.nout >= 2 /\ Len(ins.a) = ins.nout + 2
         [] ins.op = "zmadd" -> ins.nout >= 2 /\ Len(ins.a) = 3 * ins.nout
         [] ins.op = "lbin" -> ins.nout >= 2 /\ ins.sel \in {"+", "-", "*"} /\ Len(ins.a) \in {ins.nout + 1, 2 * ins.nout}
         [] ins.op = "lun" -> ins.nout >= 2 /\ ins.sel = "neg" /\ Len(ins.a) = ins.nout
         \* C02 only: a value that is no valid unit input (NaN, text, None, empty list) ...
         [] ins.op = "bad" -> ins.sel \in {"nan", "str", "none", "empty"} /\ Len(ins.a) = 0 /\ ins.nout = 1
         \* ... and a constructor called with (nested) lists of operands: nout result channels
         \* ... an output unit whose channel array is given as NESTED lists (sel names the nesting); every leaf
         \* becomes a channel of one of the output units the call expands to, so the rate requirement of the
         \* class applies to every operand position exactly as for the flat call
         [] ins.op = "sinkn" -> /\ ins.cls \in ClassNames /\ ClassTab[ins.cls].nout = 0 /\ ClassTab[ins.cls].audFrom > 0
                                /\ ins.rate \in ClassTab[ins.cls].rates /\ ins.nout = 0
                                /\ Len(ins.a) >= ClassTab[ins.cls].lo + 1 /\ ins.sel \in {"head", "tail", "deep"}
         [] ins.op = "mce" -> ins.cls \in ClassNames /\ ins.rate \in ClassTab[ins.cls].rates /\ ins.nout \in 1..64
         [] OTHER -> FALSE
\* the instruction is inside the fragment whose meaning this spec decides exactly
DecI(ins, ctl, at, self) ==
    LET A == [j \in 1..Len(ins.a) |-> OpAttr(ins.a[j], ctl, at)] IN
    /\ self.mag <= MagCap
    /\ \A j \in 1..Len(A) : A[j].mag <= MagCap
    /\ CASE ins.op = "un" -> ins.sel = "neg" \/ ~A[1].mc
         [] ins.op = "bin" /\ ins.sel \in {"+", "-", "*"} -> TRUE
         [] ins.op = "bin" /\ ins.sel = "/" ->
                ~(A[1].mc /\ A[2].mc) /\ ~(ins.a[2].k = "c" /\ ins.a[2].i = 0)
         [] ins.op = "bin" /\ ins.sel \in Comparisons -> ~A[1].mc
         [] ins.op = "bin" /\ ins.sel \notin ({"+", "-", "*", "/"} \cup Comparisons) -> ~(A[1].mc /\ A[2].mc)
         [] ins.op \in {"bad", "mce", "sinkn"} -> FALSE
         [] OTHER -> TRUE
InsDecidable(prog, n, at) ==
    LET ins == prog.ins[n] IN
    IF ins.op \in ListOps
    THEN \A ch \in 1..ins.nout : DecI(ChanIns(ins, ch), prog.ctl, at, ScalarAttr(ChanIns(ins, ch), prog.ctl, at))
    ELSE DecI(ins, prog.ctl, at, at[n])
ProgShapeOK(prog) ==
    /\ \A n \in 1..Len(prog.ins) : InsShapeOK(prog, n)
    /\ \A i, j \in 1..Len(prog.ctl) : i # j => prog.ctl[i].n # prog.ctl[j].n
    /\ \A i \in 1..Len(prog.ctl) : prog.ctl[i].r \in 0..3 /\ Abs(prog.ctl[i].d) <= MagCap /\ CtlW(prog.ctl[i]) \in 1..2048
                                    /\ CtlLag(prog.ctl[i]) \in 0..64 /\ (CtlLag(prog.ctl[i]) # 0 => prog.ctl[i].r = 1)
Decidable(prog) ==
    ProgShapeOK(prog) /\ LET at == Attrs(prog) IN \A n \in 1..Len(prog.ins) : InsDecidable(prog, n, at)

(* rate requirements of the unit classes (what the server needs; a definition violating them is
   invalid).  Certainly satisfied / certainly violated / depends on constant folding.            *)
GenIns(prog) == {n \in 1..Len(prog.ins) : prog.ins[n].op = "gen"}
UnitIns(prog) == {n \in 1..Len(prog.ins) : prog.ins[n].op \in {"gen", "sinkn"}}     \* instructions that make units of a class
NeedAudio(ins, j) == ins.rate = 2 /\ LET c == ClassTab[ins.cls] IN j \in c.aud \/ (c.audFrom > 0 /\ j >= c.audFrom)
NeedSame(ins, j) == j \in ClassTab[ins.cls].same
RateSure(prog, at) ==           \* every requirement holds whatever is folded
    \A n \in UnitIns(prog) : LET ins == prog.ins[n] IN \A j \in 1..Len(ins.a) :
        LET a == OpAttr(ins.a[j], prog.ctl, at) IN
        /\ NeedAudio(ins, j) => (a.lo = 2 \/ (ins.a[j].k = "c" /\ ins.a[j].i = 0 /\ ClassTab[ins.cls].audFrom > 0))
        /\ NeedSame(ins, j) => a.lo = ins.rate /\ a.hi = ins.rate
\* instructions whose value certainly reaches a unit with a side effect: backwards from those units,
\* not through a product / madd that may collapse (one factor may be the number zero)
KeptRefs(ins, ctl, at) ==
    LET A == [j \in 1..Len(ins.a) |-> OpAttr(ins.a[j], ctl, at)]
        ref(js) == {ins.a[j].i : j \in {j \in js : ins.a[j].k = "r"}} IN
    IF ins.op = "bin" /\ ins.sel = "*" /\ (A[1].mz \/ A[2].mz) THEN {}
    ELSE IF ins.op = "madd" /\ (A[1].mz \/ A[2].mz) THEN ref({3})
    ELSE ref(1..Len(ins.a))
RECURSIVE CertFrom(_, _, _, _)
CertFrom(prog, at, n, acc) ==
    IF n = 0 THEN acc
    ELSE LET ins == prog.ins[n]
             live == n \in acc \/ (ins.op \in {"gen", "sinkn"} /\ ClassTab[ins.cls].se)
         IN CertFrom(prog, at, n - 1, IF live THEN acc \cup {n} \cup KeptRefs(ins, prog.ctl, at) ELSE acc)
CertLive(prog, at) == CertFrom(prog, at, Len(prog.ins), {})
RateBroken(prog, at) ==         \* some requirement of a unit that cannot be dropped fails whatever is folded
    \E n \in UnitIns(prog) \cap CertLive(prog, at) : LET ins == prog.ins[n] IN \E j \in 1..Len(ins.a) :
        LET a == OpAttr(ins.a[j], prog.ctl, at) IN
        \/ NeedAudio(ins, j) /\ a.hi < 2 /\ ~(a.mz /\ ClassTab[ins.cls].audFrom > 0)   \* output units turn a literal 0 into silence
        \/ NeedSame(ins, j) /\ (a.hi < ins.rate \/ a.lo > ins.rate)
MustCompile(prog) == Decidable(prog) /\ RateSure(prog, Attrs(prog))
\* an invalid value (NaN, text, None, empty list) reaches an instruction that cannot be dropped
UsesBad(prog, at) == \E n \in CertLive(prog, at) : \E j \in 1..Len(prog.ins[n].a) :
                        prog.ins[n].a[j].k = "r" /\ prog.ins[prog.ins[n].a[j].i].op = "bad"
MustRaise(prog) == ProgShapeOK(prog) /\ LET at == Attrs(prog) IN RateBroken(prog, at) \/ UsesBad(prog, at)

(* units that may not be dropped: those with a side effect.  A side-effect-free unit may be absent
   from the definition; if its value mattered, some input of a unit that IS present could not denote
   the value of its source operand (the wiring clause), so absence is only ever accepted for units
   whose value nothing observable depends on ("x * 0", unused results).                          *)
MustKeep(prog) == {n \in GenIns(prog) : ClassTab[prog.ins[n].cls].se}

(* ------------------------------------------------------------------ the field Z_P *)
RECURSIVE PowM(_, _)
PowM(a, e) == IF e = 0 THEN 1
              ELSE LET h == PowM(a, e \div 2) IN IF e % 2 = 0 THEN (h * h) % P ELSE (((h * h) % P) * a) % P
FAdd(a, b) == IF a = UNDEF \/ b = UNDEF THEN UNDEF ELSE (a + b) % P
FSub(a, b) == IF a = UNDEF \/ b = UNDEF THEN UNDEF ELSE (a + P - b) % P
FMul(a, b) == IF a = UNDEF \/ b = UNDEF THEN UNDEF ELSE (a * b) % P
FDiv(a, b) == IF a = UNDEF \/ b = UNDEF \/ b = 0 THEN UNDEF ELSE (a * PowM(b, P - 2)) % P
FNeg(a) == IF a = UNDEF THEN UNDEF ELSE (P - a) % P
Mix1(op, a) == IF a = UNDEF THEN UNDEF
               ELSE (((a * 31 + 17) % P) * ((a + 7 * op + 3) % P) + op * 1009 + 5) % P
Mix2(op, a, b) == IF a = UNDEF \/ b = UNDEF THEN UNDEF
                  ELSE (((a * 37 + b * 101 + 13) % P) * ((((a * b) % P) + 3 * a + 11 * op + 1) % P) + op * 977 + b) % P
\* pseudo-random environments: unit outputs and control slots
EnvU(k, s, ch) == ((((s * 7919 + ch * 104729 + k * 1299709 + 4242) % P) * ((s * 31 + ch * 17 + k * 13 + 1) % P)) + s + 3 * ch + 1) % P
EnvC(k, slot) == ((((slot * 6007 + k * 350377 + 99) % P) * ((slot * 23 + k * 41 + 7) % P)) + 5 * slot + 2) % P
UnVal(idx, a) == IF idx = 0 THEN FNeg(a) ELSE Mix1(idx, a)
BinVal(idx, a, b) ==
    CASE idx = 0 -> FAdd(a, b) [] idx = 1 -> FSub(a, b) [] idx = 2 -> FMul(a, b) [] idx = 4 -> FDiv(a, b)
      [] OTHER -> Mix2(idx, a, b)

(* meaning of the source program in environment k; slots[i] = control slot of parameter i.
   Result: for every instruction the tuple of its channel values.                              *)
SrcOperand(o, k, vs, slots) ==
    IF o.k = "c" THEN Modp(o.i) ELSE IF o.k = "p" THEN EnvC(k, slots[o.i] + o.ch) ELSE vs[o.i][o.ch + 1]
SrcIns(ins, n, k, vs, slots) ==
    LET v == [j \in 1..Len(ins.a) |-> SrcOperand(ins.a[j], k, vs, slots)] IN
    CASE ins.op = "gen" -> [ch \in 1..ins.nout |-> EnvU(k, n, ch - 1)]
      [] ins.op = "un" -> <<UnVal(UnIdx(ins.sel), v[1])>>
      [] ins.op = "bin" -> <<BinVal(BinIdx(ins.sel), v[1], v[2])>>
      [] ins.op = "madd" -> <<FAdd(FMul(v[1], v[2]), v[3])>>
      [] ins.op = "sum" -> <<FoldLeft(FAdd, 0, v)>>
      [] ins.op = "lmadd" -> [ch \in 1..ins.nout |-> FAdd(FMul(v[ch], v[ins.nout + 1]), v[ins.nout + 2])]
      [] ins.op = "zmadd" -> [ch \in 1..ins.nout |-> FAdd(FMul(v[ch], v[ins.nout + ch]), v[2 * ins.nout + ch])]
      [] ins.op = "lbin" -> [ch \in 1..ins.nout |-> BinVal(BinIdx(ins.sel), v[ch],
                                                           IF Len(v) = ins.nout + 1 THEN v[ins.nout + 1] ELSE v[ins.nout + ch])]
      [] ins.op = "lun" -> [ch \in 1..ins.nout |-> UnVal(UnIdx(ins.sel), v[ch])]
SrcVals(prog, k, slots) ==
    FoldLeft(LAMBDA vs, ins : Append(vs, SrcIns(ins, Len(vs) + 1, k, vs, slots)), <<>>, prog.ins)

(* ------------------------------------------------------------------ C02: well-formed SCgf 2 *)
ConstOK(c) == c.x \in {0, 1} /\ c.hi \in 0..65535 /\ c.lo \in 0..65535
InputOK(d, u, in) ==
    \/ in[1] = 0 - 1 /\ in[2] >= 0 /\ in[2] < Len(d.consts)
    \/ in[1] >= 0 /\ in[1] < u - 1 /\ in[2] >= 0 /\ in[2] < Len(d.units[in[1] + 1].outs)
UnitOK(d, u) ==
    LET un == d.units[u] IN
    /\ un.r \in 0..3 /\ un.nin = Len(un.ins) /\ un.nout = Len(un.outs)
    /\ \A j \in 1..Len(un.ins) : InputOK(d, u, un.ins[j])
    /\ \A j \in 1..Len(un.outs) : un.outs[j] \in 0..3
\* first failing clause of "the bytes are one complete, consistent version-2 definition called name"
ScgfWhy(parsed, name) ==
    IF parsed.ok # 1 THEN "parse:" \o parsed.errc
    ELSE IF parsed.magic # "SCgf" \/ parsed.version # 2 THEN "header"
    ELSE IF parsed.consumed # parsed.total THEN "trailing-bytes"
    ELSE IF parsed.ndefs # 1 \/ Len(parsed.defs) # 1 THEN "def-count"
    ELSE LET d == parsed.defs[1] IN
    IF d.name # name THEN "name"
    ELSE IF \E u \in 1..Len(d.units) : ~UnitOK(d, u) THEN
        LET u == CHOOSE u \in 1..Len(d.units) : ~UnitOK(d, u) IN
        IF \E j \in 1..Len(d.units[u].ins) : ~InputOK(d, u, d.units[u].ins[j]) THEN "dangling-input" ELSE "unit-fields"
    ELSE IF \E i \in 1..Len(d.names) : d.names[i].i < 0 \/ d.names[i].i >= Len(d.ctl) THEN "control-name-index"
    ELSE IF \E i, j \in 1..Len(d.names) : i # j /\ d.names[i].n = d.names[j].n THEN "control-name-duplicate"
    ELSE IF \E i \in 1..Len(d.variants) : Len(d.variants[i].v) # Len(d.ctl) THEN "variant-size"
    ELSE IF \E u \in 1..Len(d.units) : d.units[u].c \in ControlClasses /\
              (d.units[u].sp < 0 \/ d.units[u].sp + Len(d.units[u].outs) > Len(d.ctl)) THEN "control-unit-range"
    ELSE "ok"
ScgfWellFormed(parsed, name) == ScgfWhy(parsed, name) = "ok"

(* ordering: data antecedents and every width-first unit created earlier must already be emitted.
   dep[u] = set of units u reads, wf = set of width-first units, cr[u] = creation stamp (0 = made by
   the compiler: only its data antecedents constrain it).                                        *)
EmitEnabled(u, emitted, dep, wf, cr) ==
    /\ u \notin emitted
    /\ dep[u] \subseteq emitted
    /\ \A w \in wf : (cr[u] > 0 /\ cr[w] > 0 /\ cr[w] < cr[u]) => w \in emitted

(* ------------------------------------------------------------------ C01: meaning of the definition *)
DefConst(d, i) == IF d.consts[i + 1].x = 1 THEN Modp(d.consts[i + 1].v) ELSE UNDEF
DefIn(d, in, vals) == IF in[1] < 0 THEN DefConst(d, in[2]) ELSE vals[in[1] + 1][in[2] + 1]
\* inv[u] = source instruction mapped to emitted unit u (0 = none)
DefUnit(d, u, k, vals, inv) ==
    LET un == d.units[u]
        v == [j \in 1..Len(un.ins) |-> DefIn(d, un.ins[j], vals)]
        nout == Len(un.outs) IN
    IF inv[u] > 0 THEN [ch \in 1..nout |-> EnvU(k, inv[u], ch - 1)]
    ELSE CASE un.c = "UnaryOpUGen" -> <<UnVal(un.sp, v[1])>>
           [] un.c = "BinaryOpUGen" -> <<BinVal(un.sp, v[1], v[2])>>
           [] un.c = "MulAdd" -> <<FAdd(FMul(v[1], v[2]), v[3])>>
           [] un.c = "Sum3" -> <<FAdd(FAdd(v[1], v[2]), v[3])>>
           [] un.c = "Sum4" -> <<FAdd(FAdd(FAdd(v[1], v[2]), v[3]), v[4])>>
           [] un.c \in ControlClasses -> [ch \in 1..nout |-> EnvC(k, un.sp + ch - 1)]
           [] un.c = "DC" -> [ch \in 1..nout |-> v[ch]]
           [] OTHER -> [ch \in 1..nout |-> 0]
DefVals(d, k, inv) ==
    FoldLeft(LAMBDA vals, u : Append(vals, DefUnit(d, u, k, vals, inv)), <<>>, [u \in 1..Len(d.units) |-> u])

InRate(d, in) == IF in[1] < 0 THEN 0 ELSE d.units[in[1] + 1].outs[in[2] + 1]
OperatorShape(c) == CASE c = "UnaryOpUGen" -> 1 [] c = "BinaryOpUGen" -> 2 [] c = "MulAdd" -> 3
                      [] c = "Sum3" -> 3 [] c = "Sum4" -> 4
\* operator unit: right arity, one output, a known opcode, rate = highest input rate
OperatorWhy(d, u) ==
    LET un == d.units[u] IN
    IF Len(un.ins) # OperatorShape(un.c) \/ Len(un.outs) # 1 THEN "operator-shape:" \o un.c
    ELSE IF un.c = "UnaryOpUGen" /\ (un.sp < 0 \/ un.sp >= Len(UnOps)) THEN "operator-opcode"
    ELSE IF un.c = "BinaryOpUGen" /\ (un.sp < 0 \/ un.sp >= Len(BinOps)) THEN "operator-opcode"
    ELSE IF un.r # MaxOf([j \in 1..Len(un.ins) |-> InRate(d, un.ins[j])]) \/ un.outs[1] # un.r
         THEN "operator-rate:" \o un.c
    ELSE "ok"

\* control parameter i of the program: named in the definition, right defaults, right kind of unit, for every one of
\* its channels (an array-valued control has width w and occupies w consecutive slots under ONE name)
CtlSlot(d, name) == IF \E j \in 1..Len(d.names) : d.names[j].n = name
                    THEN d.names[CHOOSE j \in 1..Len(d.names) : d.names[j].n = name].i ELSE 0 - 1
CtlWhy(prog, d, i) ==
    LET c == prog.ctl[i]
        s == CtlSlot(d, c.n) IN
    IF s < 0 \/ s + CtlW(c) > Len(d.ctl) THEN "control-missing"
    ELSE IF \E ch \in 0..(CtlW(c) - 1) : d.ctl[s + ch + 1].x # 1 \/ d.ctl[s + ch + 1].v # CtlDef(c, ch) THEN "control-default"
    ELSE IF \E ch \in 0..(CtlW(c) - 1) : ~\E u \in 1..Len(d.units) :
                /\ d.units[u].c = (IF c.r = 1 /\ Lagged(prog) THEN "LagControl" ELSE CtlClass(c.r))
                /\ (d.units[u].c = "LagControl" =>          \* <= 16 channels, the lag of this channel as constant input
                        /\ Len(d.units[u].outs) <= 16 /\ Len(d.units[u].ins) = Len(d.units[u].outs)
                        /\ LET in == d.units[u].ins[s + ch - d.units[u].sp + 1] IN
                           in[1] < 0 /\ d.consts[in[2] + 1].x = 1 /\ d.consts[in[2] + 1].v = CtlLag(c))
                /\ d.units[u].sp <= s + ch /\ s + ch < d.units[u].sp + Len(d.units[u].outs)
                /\ d.units[u].outs[s + ch - d.units[u].sp + 1] = CtlRate(c.r)
         THEN "control-unit"
    ELSE "ok"

(* Implements: first failing clause, "ok" when the definition d implements prog under certificate m *)
ImplWhy(prog, d, m) ==
    LET NU == Len(d.units)
        NI == Len(prog.ins)
        gens == GenIns(prog)
        keep == MustKeep(prog)
        mapped == {s \in gens : m[s] # 0}
        ran == {m[s] : s \in gens} \ {0}
        inv == [u \in 1..NU |-> IF \E s \in gens : m[s] = u THEN CHOOSE s \in gens : m[s] = u ELSE 0]
        slots == [i \in 1..Len(prog.ctl) |-> CtlSlot(d, prog.ctl[i].n)]
        extra(s) == ClassTab[prog.ins[s].cls].extra
        shapeBad(s) == LET un == d.units[m[s]] IN
                         \/ un.c # prog.ins[s].cls \/ un.r # prog.ins[s].rate
                         \/ Len(un.ins) # Len(prog.ins[s].a) + extra(s)
                         \/ Len(un.outs) # (IF ClassTab[prog.ins[s].cls].nout = 0 THEN 0 ELSE prog.ins[s].nout)
                         \/ \E j \in 1..Len(un.outs) : un.outs[j] # un.r
    IN
    IF Len(m) # NI \/ \E s \in 1..NI : m[s] < 0 \/ m[s] > NU \/ (s \notin gens /\ m[s] # 0) THEN "certificate-shape"
    ELSE IF \E i \in 1..Len(d.consts) : d.consts[i].x # 1 THEN "inexact-constant"
    ELSE IF \E i \in 1..Len(prog.ctl) : CtlWhy(prog, d, i) # "ok"
         THEN CtlWhy(prog, d, CHOOSE i \in 1..Len(prog.ctl) : CtlWhy(prog, d, i) # "ok")
    ELSE IF \E s \in keep : m[s] = 0
         THEN "unit-dropped:" \o prog.ins[CHOOSE s \in keep : m[s] = 0].cls
    ELSE IF \E s, t \in gens : s # t /\ m[s] # 0 /\ m[s] = m[t] THEN "unit-merged"
    ELSE IF \E s \in gens : m[s] # 0 /\ shapeBad(s)
         THEN "unit-mismatch:" \o prog.ins[CHOOSE s \in gens : m[s] # 0 /\ shapeBad(s)].cls
    ELSE IF \E u \in (1..NU) \ ran : d.units[u].c \notin (OperatorClasses \cup ControlClasses \cup BookkeepingClasses \cup {"DC"})
         THEN "extra-unit:" \o d.units[CHOOSE u \in (1..NU) \ ran :
                                       d.units[u].c \notin (OperatorClasses \cup ControlClasses \cup BookkeepingClasses \cup {"DC"})].c
    ELSE IF \E u \in (1..NU) \ ran : d.units[u].c = "DC" /\
              ~(d.units[u].r = 2 /\ Len(d.units[u].ins) = 1 /\ Len(d.units[u].outs) = 1 /\ d.units[u].ins[1][1] < 0
                /\ d.consts[d.units[u].ins[1][2] + 1].v = 0)
         THEN "extra-unit:DC-not-silence"
    ELSE IF \E u \in 1..NU : d.units[u].c \in OperatorClasses /\ OperatorWhy(d, u) # "ok"
         THEN OperatorWhy(d, CHOOSE u \in 1..NU : d.units[u].c \in OperatorClasses /\ OperatorWhy(d, u) # "ok")
    ELSE
      LET bad(k) ==
            LET sv == SrcVals(prog, k, slots)
                dv == DefVals(d, k, inv) IN
            {<<s, j>> \in {<<s, j>> \in mapped \X (1..64) : j <= Len(prog.ins[s].a)} :
                LET a == SrcOperand(prog.ins[s].a[j], k, sv, slots)
                    b == DefIn(d, d.units[m[s]].ins[j], dv) IN
                a # UNDEF /\ b # UNDEF /\ a # b}
          ks == {k \in 1..NEnv : bad(k) # {}}
      IN IF ks = {} THEN "ok"
         ELSE LET sj == CHOOSE sj \in bad(CHOOSE k \in ks : TRUE) : TRUE
              IN "wiring:" \o prog.ins[sj[1]].cls \o ":in" \o ToString(sj[2])
=============================================================================
