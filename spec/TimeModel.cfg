SPECIFICATION Spec
CONSTANTS
  U = 8
  MaxLenS = 1
  MaxLenT = 2
INVARIANT RtEqualsNrt
INVARIANT NrtMonotone
INVARIANT NoBad
