SPECIFICATION Spec
CONSTANTS
  Annots <- AnSmall
  OvChoices <- OvSmall
  DfChoices <- DfThree
  SpChoices <- SpNone
  BoundVals = {24, 7}
  MaxFuncs = 1
  MaxParams = 2
  MaxTotal = 2
  MaxBound = 0
  MaxVariants = 0
  MinEmit = 2
  SimMode = FALSE
  VarLens = {0}
  VarW = {1, 2, 3}
  VarBad = {"none"}
  HistChoices <- HistTwo
INVARIANT InvWellFormed
INVARIANT InvTiles
INVARIANT InvOrdered
INVARIANT InvNames
INVARIANT InvLag
INVARIANT InvL2CoversL1
INVARIANT InvVariants
