SPECIFICATION TSpec
