SPECIFICATION SpecL2
CONSTANT N = 5
INVARIANT OrderOK
INVARIANT NoDup
INVARIANT StepRefines
INVARIANT Complete
