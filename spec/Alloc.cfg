SPECIFICATION Spec
CONSTANTS
  Cfgs <- CfgsQuick
  MaxN = 4
INVARIANT InvDisjoint
INVARIANT InvInside
INVARIANT NoSpaceOnlyWhenFull
INVARIANT FitsIsGranted
INVARIANT FreedIsReusable
INVARIANT DoubleFreeNoOp
INVARIANT EmptyMeansAll
INVARIANT FreeAllFreesAll
