SPECIFICATION Spec
CONSTANTS
  QMode = "keyed"
  ProgSel = 8
  MaxLen = 0
  MaxSteps = 4
  MaxTime = 40
CONSTRAINT Bound
INVARIANT WitnessInv
POSTCONDITION WitnessPost
