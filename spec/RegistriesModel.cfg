SPECIFICATION Spec
CONSTANTS
  MaxOps = 6
INVARIANT OnlyRegistered
INVARIANT AtMostOnce
INVARIANT InOrder
INVARIANT RemovedSkipped
INVARIANT UniqueKeys
