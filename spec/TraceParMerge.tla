--------------------------- MODULE TraceParMerge ---------------------------
(* C09, consumer "parallel pattern streams": what Ppar emits is the stable time-ordered merge of its children.
   Every child has its own time line (the running sum of its own deltas, starting at 0); the children wait in
   a stable priority queue (QueueOps) keyed by the time of their next event; the head is emitted and goes
   back in at the time of its following event as the most recent entry (first-in-first-out among equal times);
   every child event comes out exactly once.

   Times are floating-point numbers in the implementation (decimal durations such as 0.1 are not dyadic), TLC
   has no floats: a trace carries, per child, the RANKS of its event times in the order of all distinct times
   of the run (an order isomorphism: only comparisons and equality of times matter for a merge).  The times
   themselves are the left-to-right IEEE sums of each child's own deltas, computed by the driver from the
   children run ALONE, not taken from the Ppar under test.
   Trace: [id, ranks: <<<<r_0, .., r_n>>, ..>> (r_k = time of event k+1; r_n = the child's end), em: <<child, ..>>] *)
EXTENDS Naturals, Integers, Sequences, FiniteSets, TLC, Json, IOUtils, QueueOps
Traces == JsonDeserialize(IOEnv.VERIF_TRACES)
VARIABLES tid, l, q, ks, ctr
tv == <<tid, l, q, ks, ctr>>

RECURSIVE InsertAll(_, _, _)
InsertAll(qq, RK, i) == IF i > Len(RK) THEN qq
                       ELSE InsertAll(IF Len(RK[i]) > 1 THEN Insert(qq, [p |-> RK[i][1], s |-> i, t |-> i]) ELSE qq, RK, i + 1)

TInit == /\ tid \in 1..Len(Traces) /\ l = 1
         /\ q = InsertAll(<<>>, Traces[tid].ranks, 1)
         /\ ks = [i \in 1..Len(Traces[tid].ranks) |-> 0]
         /\ ctr = Len(Traces[tid].ranks) + 1

Why(T, c) == IF q = <<>> THEN "extra"                 \* something came out although every child has ended
             ELSE IF q[1].t # c THEN "order"          \* not the earliest (time, first-in) child
             ELSE "ok"

Step == /\ l >= 1 /\ l <= Len(Traces[tid].em)
        /\ LET T == Traces[tid]
               c == T.em[l]
               why == Why(T, c) IN
           IF why = "ok"
           THEN LET k == ks[c] + 1           \* events of c emitted so far, this one included
                    more == k + 1 < Len(T.ranks[c])        \* another event follows (the last rank is the end)
                IN /\ ks' = [ks EXCEPT ![c] = k]
                   /\ q' = IF more THEN Insert(Tail(q), [p |-> T.ranks[c][k + 1], s |-> ctr, t |-> c]) ELSE Tail(q)
                   /\ ctr' = ctr + 1 /\ l' = l + 1 /\ tid' = tid
           ELSE /\ PrintT(<<"REJ", T.id, l, why>>)
                /\ l' = 0 /\ UNCHANGED <<tid, q, ks, ctr>>
Done == /\ l = Len(Traces[tid].em) + 1
        /\ IF q # <<>> THEN PrintT(<<"REJ", Traces[tid].id, l, "missing">>)      \* an event never came out
           ELSE PrintT(<<"ACC", Traces[tid].id>>)
        /\ l' = 0 - 1 /\ UNCHANGED <<tid, q, ks, ctr>>
TSpec == TInit /\ [][Step \/ Done]_tv
=============================================================================
