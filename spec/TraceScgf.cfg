SPECIFICATION TSpec
