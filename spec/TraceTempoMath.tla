--------------------------- MODULE TraceTempoMath ---------------------------
(* C->S binding for C12: validates executions recorded from a real sc3 TempoClock (driver
   drivers/c12_tempo.py) against TempoMath.tla.  A trace is [id, ev]; an event is
   [op, a (fixed-point arguments), k ("ok" | "exc:<Class>"), r (results, each <<n, exact>>),
    obs ([b, s, bbar, bbb: <<n, exact>>, bpb])].
   The law predicates of TempoMath (IsGrid, IsNextBar, IsBarPos, round trips, continuity) are
   evaluated on the recorded values themselves; the affine map and the bar map are compared with
   the spec's B2S / S2B / Beats2Bars / Bars2Beats.  `why` names the first failing clause.     *)
EXTENDS Naturals, Integers, Sequences, FiniteSets, TLC, Json, IOUtils
TempoExps == {} BeatVals == {} Meters == {} Deltas == {} Quants == {} Win == 0 MaxSteps == 0
VARIABLES c, last, n
INSTANCE TempoMath
Traces == JsonDeserialize(IOEnv.VERIF_TRACES)
VARIABLES tid, l, pend, epoch
tvars == <<c, last, n, tid, l, pend, epoch>>

NoClock == NewClock(1, 1, 0, 0)
TInit == /\ tid \in 1..Len(Traces) /\ l = 1
         /\ c = NoClock /\ last = Op("none", 0, 0) /\ n = 0 /\ pend = <<>> /\ epoch = 0

Dyadic(m) == m \in {1, 2, 4, 8, 16, 32}
Ex(v, x) == v[1] = x /\ v[2] = 1                    \* recorded float is exactly x
Near(v, x, needExact) == v[1] = x /\ (needExact => v[2] = 1)
ObsTime(e, c2) == Ex(e.obs.b, Beats(c2)) /\ Ex(e.obs.s, c2.lt)
ObsMeter(e, c2) == Ex(e.obs.bbb, c2.bbb) /\ e.obs.bpb = c2.bpb

\* state after the event (only meaningful when Why = "ok")
After(e) ==
    CASE e.op = "new"   -> NewClock(e.a[1], e.a[2], e.a[3], e.a[4])
      [] e.op = "tempo" -> SetTempo(c, e.a[1], e.a[2])
      [] e.op = "beats" -> SetBeats(c, e.a[1])
      [] e.op = "meter" -> SetMeter(c, e.a[1])
      [] e.op = "adv"   -> Advance(c, e.a[1])
      [] OTHER -> c

WakeOK(p, cb) ==
    IF p.kind = "q" THEN IsGrid(p.c, cb, p.q, p.ph, Beats(p.c)) ELSE IsNextBar(p.c, cb, Beats(p.c))

Why(e) ==
    LET c2 == After(e) IN
    IF e.k # "ok" THEN "Raised"
    ELSE IF e.op = "new" THEN
        IF ~ObsTime(e, c2) THEN "NewClock" ELSE "ok"
    ELSE IF e.op = "start" THEN
        IF ~ObsTime(e, c) THEN "PlaySchedulesOnGrid" ELSE "ok"      \* play(quant=0) starts now
    ELSE IF e.op = "tempo" THEN
        IF ~(Ex(e.obs.b, Beats(c)) /\ Ex(e.obs.s, c.lt)) THEN "Continuity"
        ELSE IF ~ObsTime(e, c2) THEN "Continuity"
        ELSE IF ~(Ex(e.r[1], MulDiv(S, e.a[1], e.a[2])) /\ Ex(e.r[2], MulDiv(S, e.a[2], e.a[1]))) THEN "TempoReadback"
        ELSE "ok"
    ELSE IF e.op = "beats" THEN
        IF ~(Ex(e.obs.b, e.a[1]) /\ Ex(e.obs.s, c.lt)) THEN "Continuity" ELSE "ok"
    ELSE IF e.op = "meter" THEN
        IF ~(Ex(e.obs.b, Beats(c)) /\ Ex(e.obs.s, c.lt)) THEN "Continuity"
        ELSE IF ~(Ex(e.obs.bbb, Beats(c)) /\ e.obs.bpb = e.a[1]) THEN "MeterChange"
        ELSE IF ~Ex(e.obs.bbar, c2.bbar) THEN "drift:BaseBar"
        ELSE "ok"
    ELSE IF e.op = "adv" THEN
        IF ~Ex(e.obs.b, c.wb + e.a[1]) THEN "BeatsAdvanceAtTempo"
        ELSE IF ~Ex(e.obs.s, B2S(c, c.wb + e.a[1])) THEN "BeatsAdvanceAtTempo"
        ELSE IF Beats(c) = c.wb /\ e.obs.s[1] - c.lt # MulDiv(e.a[1], c.td, c.tn) THEN "BeatsAdvanceAtTempo"
        ELSE "ok"
    ELSE IF e.op = "end" THEN
        IF e.a[1] # 1 THEN "machinery:body-did-not-finish"
        ELSE IF \E k \in 1..Len(pend) : ~pend[k].woke THEN "PlayNeverWoke"
        \* beats read from another thread = that thread's logical seconds through the same affine map
        ELSE IF ~(e.r[2][2] = 1 /\ Ex(e.r[1], S2B(c, e.r[2][1])) /\ Ex(e.r[3], S2B(c, e.r[2][1]))) THEN "AffineMapFromOutside"
        ELSE "ok"
    ELSE IF ~ObsTime(e, c) \/ ~ObsMeter(e, c) THEN "QueryChangedState"
    ELSE IF e.op = "b2s" THEN
        IF ~Ex(e.r[2], e.a[1]) THEN "RoundTrip"
        ELSE IF ~Ex(e.r[1], B2S(c, e.a[1])) THEN "AffineMap" ELSE "ok"
    ELSE IF e.op = "s2b" THEN
        IF ~Ex(e.r[2], e.a[1]) THEN "RoundTrip"
        ELSE IF ~Ex(e.r[1], S2B(c, e.a[1])) THEN "AffineMap" ELSE "ok"
    ELSE IF e.op = "ntog" THEN
        LET ref == IF e.a[4] = 1 THEN e.a[3] ELSE Beats(c) IN
        IF ~(e.r[1][2] = 1 /\ IsGrid(c, e.r[1][1], e.a[1], e.a[2], ref)) THEN "GridLaw" ELSE "ok"
    ELSE IF e.op = "ttnb" THEN
        IF ~(e.r[1][2] = 1 /\ IsGrid(c, Beats(c) + e.r[1][1], e.a[1], 0, Beats(c))) THEN "GridLaw" ELSE "ok"
    ELSE IF e.op = "bars" THEN
        IF ~Near(e.r[2], e.a[1], Dyadic(c.bpb)) THEN "BarInverse"
        ELSE IF ~Near(e.r[1], Beats2Bars(c, e.a[1]), Dyadic(c.bpb)) THEN "BarsAffine" ELSE "ok"
    ELSE IF e.op = "bars2" THEN
        IF ~Near(e.r[2], e.a[1], Dyadic(c.bpb)) THEN "BarInverse"
        ELSE IF ~Ex(e.r[1], Bars2Beats(c, e.a[1])) THEN "BarsAffine" ELSE "ok"
    ELSE IF e.op = "nextbar" THEN
        LET ref == IF e.a[2] = 1 THEN e.a[1] ELSE Beats(c) IN
        IF e.r[1][1] < ref THEN "NextBarNotBeforeNow"
        ELSE IF ~(e.r[1][2] = 1 /\ IsNextBar(c, e.r[1][1], ref)) THEN "NextBarIsNextBarLine" ELSE "ok"
    ELSE IF e.op = "bar" THEN
        IF ~(e.r[1][2] = 1 /\ e.r[2][2] = 1 /\ IsBarPos(c, e.r[1][1], e.r[2][1])) THEN "BarPosition" ELSE "ok"
    ELSE IF e.op = "play" THEN
        IF e.a[3] # Len(pend) + 1 THEN "machinery:child-numbering" ELSE "ok"
    ELSE IF e.op = "playbar" THEN
        IF e.a[1] # Len(pend) + 1 THEN "machinery:child-numbering" ELSE "ok"
    ELSE "machinery:unknown-op"

\* a child routine played with a quant observes its first logical beat
WhyWake(e) ==
    LET k == e.a[1] IN
    IF e.k # "ok" \/ k < 1 \/ k > Len(pend) THEN "machinery:wake"
    ELSE LET p == pend[k] IN
         IF p.woke THEN "PlayWokeTwice"
         ELSE IF e.r[1][2] = 1 /\ WakeOK(p, e.r[1][1]) THEN "ok"
         ELSE IF p.ep = epoch THEN "PlaySchedulesOnGrid"
         ELSE "PlayGridAfterMapChange"    \* tempo/beats changed between play() and the wake-up

Step == /\ l >= 1 /\ l <= Len(Traces[tid].ev)
        /\ LET e == Traces[tid].ev[l]
               why == IF e.op = "wake" THEN WhyWake(e) ELSE Why(e) IN
           IF why = "ok"
           THEN /\ c' = After(e) /\ l' = l + 1
                /\ epoch' = IF e.op \in {"tempo", "beats"} THEN epoch + 1 ELSE epoch
                /\ pend' = CASE e.op = "play" -> Append(pend, [kind |-> "q", c |-> c, q |-> e.a[1], ph |-> e.a[2],
                                                               ep |-> epoch, woke |-> FALSE])
                             [] e.op = "playbar" -> Append(pend, [kind |-> "bar", c |-> c, q |-> 0, ph |-> 0,
                                                                  ep |-> epoch, woke |-> FALSE])
                             [] e.op = "wake" -> [pend EXCEPT ![e.a[1]].woke = TRUE]
                             [] OTHER -> pend
                /\ UNCHANGED <<last, n, tid>>
           ELSE /\ PrintT(<<"REJ", Traces[tid].id, l, why>>)
                /\ l' = 0 /\ UNCHANGED <<c, last, n, tid, pend, epoch>>
Done == /\ l = Len(Traces[tid].ev) + 1
        /\ PrintT(<<"ACC", Traces[tid].id>>)
        /\ l' = 0 - 1 /\ UNCHANGED <<c, last, n, tid, pend, epoch>>
TNext == Step \/ Done
TSpec == TInit /\ [][TNext]_tvars
=============================================================================
