---------------------------- MODULE PatternModel ----------------------------
(* C13 design model.
   (1) Expression enumeration: all pattern expressions of nesting depth <= 2 (thorough: a depth-3 slice) over the
       leaves {1,2,3,[1,2]} and small parameter sets; TLC evaluates the denotation D of each, checks the
       laws below on it (the oracle is cross-examined: Pn(p,2) = p p, Plen is a prefix, Plen/Pdrop split, ...)
       and exports the defined ones for replay on the real classes (S->C).
   (2) Stream machine: streams made from ONE pattern and advanced in any interleaving; L1 `Immutable`: what
       each stream has yielded since it was made/reset is a prefix of Den(p) - whatever the others did.
       Its operators (OpNext, OpAll, ...) are the ones TracePattern.tla applies to recorded executions.   *)
EXTENDS Pattern, Json, IOUtils, SequencesExt

CONSTANTS NV,       \* number of values of a stream that are observed
          Mode,     \* which expression set: "d1", "quick", "thorough", "d3", "streams"
          NS,       \* streams in the stream machine
          NB        \* work buckets

(* ---- constructors ---- *)
I(v) == [t |-> "int", v |-> v]
Lit(w) == [t |-> "lit", w |-> w]
Arr(l) == [t |-> "arr", l |-> l]
Pseq(l, r, o) == [t |-> "seq", l |-> l, r |-> r, o |-> o]
Pser(l, r, o) == [t |-> "ser", l |-> l, r |-> r, o |-> o]
Place(l, r, o) == [t |-> "place", l |-> l, r |-> r, o |-> o]
Placep(l, r, o) == [t |-> "placep", l |-> l, r |-> r, o |-> o]
Pn(p, r) == [t |-> "pn", p |-> p, r |-> r]
Plen(p, k) == [t |-> "len", p |-> p, k |-> k]
Pdrop(p, k) == [t |-> "drop", p |-> p, k |-> k]
Pstutter(p, n) == [t |-> "stut", p |-> p, n |-> n]
Pclump(p, n) == [t |-> "clump", p |-> p, n |-> n]
Pflatten(p, n) == [t |-> "flat", p |-> p, n |-> n]
Pdiff(p) == [t |-> "diff", p |-> p]
Pconst(p, k) == [t |-> "const", p |-> p, k |-> k, tl |-> 0]
PconstT(p, k, tl) == [t |-> "const", p |-> p, k |-> k, tl |-> tl]
Sc(q, p) == [t |-> "sc", q |-> q, p |-> p]
Pswitch(l, a) == [t |-> "switch", l |-> l, a |-> a]
Pswitch1(l, a) == [t |-> "switch1", l |-> l, a |-> a]
Ptuple(l, r) == [t |-> "tuple", l |-> l, r |-> r]
Pslide(l, n, st, k, wr, r) == [t |-> "slide", l |-> l, n |-> n, st |-> st, k |-> k, wr |-> wr, r |-> r]
Pseries(k, st, r) == [t |-> "series", k |-> k, st |-> st, r |-> r]
Pgeom(k, st, r) == [t |-> "geom", k |-> k, st |-> st, r |-> r]
Pcollect(f, p) == [t |-> "collect", f |-> f, p |-> p]
Pselect(f, p) == [t |-> "select", f |-> f, p |-> p]
Preject(f, p) == [t |-> "reject", f |-> f, p |-> p]
Pif(a, b, c) == [t |-> "if", a |-> a, b |-> b, c |-> c]
Pwrap(p, a, b) == [t |-> "wrap", p |-> p, a |-> a, b |-> b]
Punop(f, a) == [t |-> "unop", f |-> f, a |-> a]
Pbinop(f, a, b) == [t |-> "binop", f |-> f, a |-> a, b |-> b]
Pnarop(f, a, b, c) == [t |-> "narop", f |-> f, a |-> a, b |-> b, c |-> c]
Prand(l, r) == [t |-> "rand", l |-> l, r |-> r]
Pwhite(k, o, r) == [t |-> "white", k |-> k, o |-> o, r |-> r]
Rseq(l, r) == [t |-> "rseq", l |-> l, r |-> r]
Rtuple(a, b) == [t |-> "rtuple", a |-> a, b |-> b]
Rout(k, o, r) == [t |-> "rout", k |-> k, o |-> o, r |-> r]
Run(f, a) == [t |-> "run", f |-> f, a |-> a]
Rif(a, b, c) == [t |-> "rif", a |-> a, b |-> b, c |-> c]
Rbin(f, a, b) == [t |-> "rbin", f |-> f, a |-> a, b |-> b]
Pseed(a, p, tp) == [t |-> "seed", a |-> a, p |-> p, tp |-> tp, pm |-> <<>>]
Pshuffle(l, r) == [t |-> "shuf", l |-> l, r |-> r]
PseedShuf(a, p, pm) == [t |-> "seed", a |-> a, p |-> p, tp |-> <<>>, pm |-> pm]

(* ---- enumeration ---- *)
Ints == {I(1), I(2), I(3)}
Items0 == Ints \cup {Lit(<<1, 2>>)}
NSeq == Pseq(<<I(2), I(0), I(1)>>, 1, 0)            \* a count pattern 2 0 1
WSeq == Pseq(<<I(0), I(2), I(1)>>, 2, 0)            \* an index pattern
CSeq == Pseq(<<I(1), I(0)>>, INF, 0)                \* a condition pattern 1 0 1 0 ...
CFin == Pseq(<<I(0), I(1), I(1)>>, 1, 0)
Up == Pseries(0, I(1), INF)                         \* 0 1 2 3 ...
BaseLists == {<<I(1), I(2), I(3)>>, <<I(1), I(2)>>, <<I(3)>>, <<I(2), Lit(<<1, 2>>)>>}
PlaceLists == {<<I(1), Arr(<<I(2), I(3)>>)>>, <<Arr(<<I(1), I(2)>>), Arr(<<I(3), I(2), I(1)>>)>>, <<I(1), I(2)>>}
Around(c) == {<<c>>, <<c, I(3)>>, <<I(3), c>>, <<I(1), c, I(2)>>}
ListsAround(C) == UNION {Around(c) : c \in C}

\* every constructor applied to operands from C / item lists from Ls; rich = wide parameter sets
Level(C, Ls, PLs, rich) ==
    LET Reps == IF rich THEN {0, 1, 2, INF} ELSE {2, INF}
        Offs == IF rich THEN {0, 1, 0 - 1} ELSE {1}
        Cnt == IF rich THEN {0, 1, 2, 3} ELSE {2}
        NStut == IF rich THEN {I(0), I(1), I(2), NSeq} ELSE {I(2), NSeq}
        NClump == IF rich THEN {I(1), I(2), I(3), NSeq} ELSE {I(2), NSeq}
        Which == IF rich THEN {I(1), WSeq, Pseq(<<I(1), I(0)>>, INF, 0)} ELSE {WSeq}
        Aux == IF rich THEN Ints \cup {Up} ELSE {I(2), Up}
    IN  {Pseq(l, r, o) : l \in Ls, r \in Reps, o \in Offs}
   \cup {Pser(l, r, o) : l \in Ls, r \in (IF rich THEN {0, 1, 2, 4, INF} ELSE {4, INF}), o \in (IF rich THEN {0, 1} ELSE {1})}
   \cup {Place(l, r, o) : l \in PLs, r \in (IF rich THEN {1, 2, 3, INF} ELSE {3}), o \in (IF rich THEN {0, 1} ELSE {1})}
   \cup {Placep(l, r, o) : l \in Ls, r \in (IF rich THEN {0, 1, 2, 3, INF} ELSE {3, INF}), o \in (IF rich THEN {0, 1} ELSE {1})}
   \cup {Pn(p, r) : p \in C, r \in Reps}
   \cup {Plen(p, k) : p \in C, k \in Cnt}
   \cup {Pdrop(p, k) : p \in C, k \in Cnt}
   \cup {Pstutter(p, n) : p \in C, n \in NStut}
   \cup {Pclump(p, n) : p \in C, n \in NClump}
   \cup {Pflatten(p, n) : p \in C, n \in (IF rich THEN {I(0), I(1), I(2)} ELSE {I(1), I(2)})}
   \cup {Pdiff(p) : p \in C}
   \cup {Pconst(p, k) : p \in C, k \in (IF rich THEN {0, 3, 5, 7} ELSE {5})}
   \cup {Pswitch(l, a) : l \in Ls, a \in Which}
   \cup {Pswitch1(l, a) : l \in Ls, a \in Which}
   \cup {Ptuple(l, r) : l \in Ls, r \in (IF rich THEN {1, 2, INF} ELSE {2})}
   \cup {Pslide(l, n, st, k, wr, r) : l \in Ls, n \in (IF rich THEN {I(1), I(2), I(3), NSeq} ELSE {I(2)}),
                                      st \in (IF rich THEN {I(1), I(0 - 1), I(2)} ELSE {I(1), I(0 - 1)}),
                                      k \in (IF rich THEN {0, 1} ELSE {1}), wr \in BOOLEAN,
                                      r \in (IF rich THEN {1, 2, 3, INF} ELSE {3})}
   \cup {Pseries(k, st, r) : k \in {0, 1}, st \in C \cup {I(0 - 1)}, r \in (IF rich THEN {0, 1, 3, INF} ELSE {3, INF})}
   \cup {Pgeom(k, st, r) : k \in {1, 3}, st \in (C \ {Up}) \cup {I(0 - 1)}, r \in (IF rich THEN {0, 3, INF} ELSE {3, INF})}
   \cup {Pcollect(f, p) : f \in (IF rich THEN {"inc", "dbl", "neg"} ELSE {"inc"}), p \in C}
   \cup {Pselect(f, p) : f \in {"even", "gt1"}, p \in C}
   \cup {Preject(f, p) : f \in (IF rich THEN {"even", "le2"} ELSE {"even"}), p \in C}
   \cup {Pif(a, b, c) : a \in {CSeq, CFin}, b \in C, c \in Aux}
   \cup {Pif(a, b, c) : a \in {CSeq}, b \in Aux, c \in C}
   \cup {Pif(a, b, c) : a \in C, b \in {I(1)}, c \in {Up}}
   \cup {Pwrap(p, a, b) : p \in C, a \in {I(1)}, b \in (IF rich THEN {I(1), I(2), Pseq(<<I(2), I(3)>>, 2, 0)} ELSE {I(2)})}
   \cup {Punop(f, a) : f \in (IF rich THEN {"neg", "abs", "sq"} ELSE {"neg"}), a \in C}
   \cup {Pbinop(f, a, b) : f \in (IF rich THEN {"add", "sub", "mul", "min", "max"} ELSE {"sub"}), a \in C, b \in Aux}
   \cup {Pbinop(f, a, b) : f \in (IF rich THEN {"sub", "mul"} ELSE {"sub"}), a \in Aux, b \in C}
   \cup {Pnarop(f, a, b, c) : f \in {"clip", "wrap"}, a \in C, b \in {I(1)}, c \in {I(2), Pseq(<<I(2), I(3)>>, 1, 0)}}

Depth1 == Level(Items0, BaseLists, PlaceLists, TRUE)
\* a representative depth-1 core used as operands when the full product would be too large
Core1 == Level({I(2), Lit(<<1, 2>>)}, {<<I(1), I(2), I(3)>>, <<I(2), Lit(<<1, 2>>)>>}, {<<I(1), Arr(<<I(2), I(3)>>)>>}, FALSE)
PlaceAround(C) == {<<c, Arr(<<I(2), I(3)>>)>> : c \in C} \cup {<<I(1), Arr(<<c, I(3)>>)>> : c \in C}
Depth2(C) == Level(C, ListsAround(C), PlaceAround(C), FALSE)
Tiny1 == {Pseq(<<I(1), I(2), I(3)>>, 2, 1), Pseries(0, I(1), INF), Plen(I(2), 2), Pclump(Up, I(2)),
          Pn(Lit(<<1, 2>>), 2), Pseq(<<I(3)>>, INF, 0), Pser(<<I(1), I(2)>>, 3, 1), Pdrop(Pseq(<<I(1), I(2), I(3)>>, 1, 0), 3)}

\* Pseed-wrapped random patterns (K = 3 draws; the tape here is arbitrary, the drivers substitute the real generator's)
Tape3 == <<[sd |-> 3, d |-> [i \in 1..60 |-> (i * i + 1) % 3]], [sd |-> 4, d |-> [i \in 1..60 |-> (i + (i \div 3)) % 3]]>>
RLeaves == {Prand(<<I(5), I(6), I(7)>>, r) : r \in {1, 2, INF}} \cup {Pwhite(k, 3, r) : k \in {0, 2}, r \in {2, INF}}
\* routine-backed leaves (Prout drawing with the library's builtins): directly under Pseed, under operators, under Pif
Routs == {Rout(k, 3, r) : k \in {0, 4}, r \in {2, INF}}
RoutBodies == Routs \cup {Run(f, a) : f \in {"neg", "inc"}, a \in Routs}
                    \cup {Rbin(f, a, b) : f \in {"add", "sub"}, a \in Routs, b \in {I(2)} \cup Routs \cup {Pwhite(0, 3, 2)}}
                    \cup {Rbin("sub", I(9), a) : a \in Routs} \cup {Rtuple(a, Pwhite(0, 3, INF)) : a \in Routs}
                    \cup {Rif(c, a, b) : c \in {CSeq, CFin}, a \in Routs, b \in {I(7), Rout(4, 3, INF)}}
                    \cup {Rseq(<<a, b>>, 2) : a \in Routs, b \in {Pwhite(0, 3, 1)}}
RBodies == RLeaves \cup RoutBodies \cup {Rseq(<<a, b>>, r) : a \in RLeaves, b \in RLeaves, r \in {1, 2}}
                   \cup {Rtuple(a, b) : a \in RLeaves, b \in RLeaves}
                   \cup {Rbin(f, a, b) : f \in {"add", "mul"}, a \in RLeaves, b \in RLeaves}
Perm3 == <<[sd |-> 3, d |-> <<2, 3, 1>>], [sd |-> 4, d |-> <<3, 2, 1>>]>>
Seeded == {Pseed(a, q, Tape3) : a \in {I(3), Pseq(<<I(3), I(4)>>, 1, 0)}, q \in RBodies}
          \cup {PseedShuf(a, Pshuffle(<<I(5), I(6), I(7)>>, r), Perm3) : a \in {I(3), Pseq(<<I(3), I(4)>>, 1, 0)}, r \in {1, 2}}
SeededCtx == Seeded \cup {Pseq(<<s, I(1), s>>, 1, 0) : s \in Seeded} \cup {Plen(Pstutter(s, I(2)), 5) : s \in Seeded}

Mid1 == Level(Items0, BaseLists, PlaceLists, FALSE)      \* every leaf / list, lean parameters
Tiny3 == {Pseq(<<I(1), I(2), I(3)>>, 2, 1), Plen(Up, 3), Pclump(Pseq(<<I(1), I(2), I(3)>>, 1, 0), I(2))}
\* Pconst with explicit tolerances: running sums below the sum minus the tolerance, in the lower and in the upper half
\* of the last tolerance step, exactly on a step, on the sum and beyond it; sums aligned and not aligned with the
\* tolerance grid; on the integers and (Sc) on the dyadic lattice 1/8 (floating-point branch of the rounding)
ConstLists == {<<I(a), I(b), I(c)>> : a \in {3, 8, 13}, b \in {3, 8, 13}, c \in {3, 8, 13}}
ConstTolInt == {PconstT(Pseq(l, 1, 0), s, tl) : l \in ConstLists, s \in {21, 22, 24}, tl \in {0, 1, 2, 4, 8}}
               \cup {PconstT(Pseq(<<I(3), I(8)>>, INF, 0), s, tl) : s \in {40, 45}, tl \in {2, 4, 8}}
               \cup {PconstT(Up, s, tl) : s \in {9, 10}, tl \in {0, 2, 4}}
ConstTol == ConstTolInt \cup {Sc(8, p) : p \in ConstTolInt} \cup {Sc(64, Pdrop(p, 1)) : p \in ConstTolInt}
PlacepMix == {Placep(<<a, b>>, r, o) : a \in {Pseq(<<I(1), I(2), I(3)>>, 1, 0), Plen(Up, 1), I(7)},
                                         b \in {Pseq(<<I(5)>>, 1, 0), Pseq(<<I(5), I(6)>>, 2, 0), Pn(Plen(I(4), 2), 1)}, r \in {2, 4, INF}, o \in {0, 1}}
Defd(X) == {p \in X : D(p, NV).ok}
Exprs == CASE Mode = "d1" -> Defd(Depth1)
           [] Mode = "quick" -> Defd(Depth1 \cup Depth2(Defd(Core1)) \cup Seeded \cup ConstTol \cup PlacepMix)
           [] Mode = "thorough" -> Defd(Depth1 \cup Depth2(Defd(Mid1)) \cup SeededCtx \cup Depth2(Defd(Depth2(Tiny3))) \cup ConstTol \cup PlacepMix)
           [] Mode = "d3" -> Defd(Depth2(Defd(Depth2(Tiny1))))
           [] Mode = "consttol" -> Defd(ConstTol)
           [] Mode = "tiny" -> Defd(Tiny1 \cup {Pseed(I(3), Prand(<<I(5), I(6), I(7)>>, 2), Tape3)})
           [] Mode = "streams" -> Defd(Core1 \cup {Pseed(I(3), Prand(<<I(5), I(6), I(7)>>, 2), Tape3)})

(* ---- laws of the denotation (checked on every enumerated expression; a law speaks only when both sides are defined) ---- *)
DenN(p) == D(p, NV).s
Eq(x, s) == LET d == D(x, NV) IN d.ok => d.s = s
LawPrefix(p) == \A m \in {1, NV \div 2} : PrefixOf(D(p, m).s, DenN(p))
LawSeq1(p) == Eq(Pseq(<<p>>, 1, 0), DenN(p))
LawPn2(p) == Eq(Pn(p, 2), Take(DenN(p) \o DenN(p), NV))
LawLenPrefix(p) == \A k \in {0, 3} : Eq(Plen(p, k), Take(DenN(p), k))
LawSplit(p) == \A k \in {2} : LET a == D(Plen(p, k), NV) b == D(Pdrop(p, k), NV) IN
                                  (a.ok /\ b.ok) => Take(a.s \o b.s, NV) = DenN(p)
LawStutter1(p) == Eq(Pstutter(p, I(1)), DenN(p))
LawClumpFlatten(p) == \A n \in {2} : Eq(Pflatten(Pclump(p, I(n)), I(1)), DenN(p))
LawConstSum(p) == LET d == D(Pconst(p, 5), NV) IN (Len(d.s) < NV /\ d.ok) => SumTo(d.s, Len(d.s)) = 5
\* whatever the tolerance: a Pconst that ends sums to its constant, is never longer than with the finest tolerance,
\* and agrees with it up to its last value
LawConstTol(p) == \A tl \in {2, 4} : LET d == D(PconstT(p, 9, tl), NV) e == D(PconstT(p, 9, 0), NV) IN
    (d.ok /\ e.ok /\ Len(d.s) < NV) => /\ SumTo(d.s, Len(d.s)) = 9
                                        /\ (Len(e.s) < NV => Len(d.s) <= Len(e.s))
                                        /\ Take(d.s, Len(d.s) - 1) = Take(e.s, Len(d.s) - 1)
LawTuple1(p) == LET d == D(Ptuple(<<p>>, 1), NV) IN
    d.ok => Len(d.s) = Len(DenN(p)) /\ \A i \in 1..Len(d.s) : d.s[i] = MkTuple(<<DenN(p)[i]>>)
LawShortest(p) ==
    LET q == Pseq(<<I(1), I(2)>>, 1, 0) d == D(Pbinop("add", p, q), NV) IN
    /\ d.ok => Len(d.s) = Min2(Len(DenN(p)), 2)
    /\ Eq(Pbinop("add", p, I(0)), DenN(p))
    /\ Eq(Pbinop("sub", I(0), Punop("neg", p)), DenN(p))
Laws(p) == /\ LawPrefix(p) /\ LawSeq1(p) /\ LawPn2(p) /\ LawLenPrefix(p) /\ LawSplit(p) /\ LawStutter1(p)
           /\ LawClumpFlatten(p) /\ LawConstSum(p) /\ LawConstTol(p) /\ LawTuple1(p) /\ LawShortest(p)

(* ---- stream machine ---- *)
VARIABLES p, picked, todo, pos, hist, ret, fin, who
vars == <<p, picked, todo, pos, hist, ret, fin, who>>
Streams == 1..NS
NoStreams == [i \in Streams |-> 0 - 1]
NoHist == [i \in Streams |-> <<>>]
\* TLC evaluates the enumeration once (register 7, set by the ASSUME below) - definitions built on RECURSIVE
\* operators are not cached by TLC otherwise.  The expressions are dealt into NB work lists by index
\* (only to spread the work over TLC's workers): todo = index of the next expression of this list.
ExprSeq == TLCGet(7)
\* vacuity guard without -coverage (which makes TLC unusably slow on the recursive denotation): the first time a
\* worker completes an action it prints <<"ACT", name>>; props/C13.py requires every action name to appear
Mark(k, name) == IF TLCGet(k) = 0 THEN PrintT(<<"ACT", name>>) /\ TLCSet(k, 1) ELSE TRUE
Init == /\ todo \in 1..NB /\ p = I(0) /\ picked = FALSE /\ pos = NoStreams /\ hist = NoHist /\ ret = R("none", <<>>)
        /\ who = 0      \* the stream the last operation was applied to (read by the replay on the real code)
        /\ fin = {}     \* streams that have signalled their end; asked again they signal it again (OpNext at the end)
\* take the next pattern expression; all streams of the previous one are forgotten
Pick == /\ todo <= Len(ExprSeq) /\ p' = ExprSeq[todo] /\ todo' = todo + NB /\ picked' = TRUE
        /\ pos' = NoStreams /\ hist' = NoHist /\ ret' = R("none", <<>>) /\ fin' = {} /\ who' = 0 /\ Mark(10, "Pick")
Do(i, r, h) == /\ who' = i /\ pos' = [pos EXCEPT ![i] = r.pos] /\ ret' = r.ret /\ hist' = [hist EXCEPT ![i] = h] /\ UNCHANGED <<p, picked, todo>>
               /\ fin' = IF r.ret.k \in {"stop", "seqstop", "all"} THEN fin \cup {i} ELSE IF r.ret.k = "none" THEN fin \ {i} ELSE fin
New(i) == picked /\ pos[i] = 0 - 1 /\ Do(i, [pos |-> 0, ret |-> R("none", <<>>)], <<>>) /\ Mark(11, "New")
NextVal(i) == picked /\ pos[i] >= 0 /\ pos[i] < NV /\ LET r == OpNext(D(p, NV), pos[i]) IN Do(i, r, hist[i] \o r.ret.v) /\ Mark(12, "NextVal")
TakeN(i) == picked /\ pos[i] >= 0 /\ \E n \in 2..3 : pos[i] + n <= NV /\ LET r == OpTake(D(p, NV), pos[i], n) IN Do(i, r, hist[i] \o r.ret.v) /\ Mark(13, "TakeN")
AllOf(i) == picked /\ pos[i] >= 0 /\ Ended(D(p, NV), NV) /\ LET r == OpAll(D(p, NV), pos[i]) IN Do(i, [pos |-> r.pos, ret |-> R("all", r.ret.v)], hist[i] \o r.ret.v) /\ Mark(14, "AllOf")
Reset(i) == picked /\ pos[i] > 0 /\ Do(i, OpReset(D(p, NV), pos[i]), <<>>) /\ Mark(15, "Reset")
Next == Pick \/ \E i \in Streams : New(i) \/ NextVal(i) \/ TakeN(i) \/ AllOf(i) \/ Reset(i)
Spec == Init /\ [][Next]_vars

\* L1: every stream yields Den(p), whatever the other streams do; the pattern never changes
Immutable == picked => \A i \in Streams : PrefixOf(hist[i], D(p, NV).s) /\ (pos[i] >= 0 => Len(hist[i]) = pos[i])
PatternConstant == [][(picked /\ todo' = todo) => p' = p]_vars
LawsHold == (picked /\ pos = NoStreams) => Laws(p)
DefinedOnly == picked => D(p, NV).ok

(* ---- export of the enumerated set for replay on the real classes ---- *)
ASSUME TLCSet(7, SetToSeq(Exprs))
ASSUME \A k \in 10..15 : TLCSet(k, 0)
ASSUME IF "VERIF_EXPORT" \in DOMAIN IOEnv THEN ndJsonSerialize(IOEnv.VERIF_EXPORT, TLCGet(7)) ELSE TRUE
ASSUME PrintT(<<"EXPRS", Mode, Len(TLCGet(7))>>)
=============================================================================
