------------------------------- MODULE Alloc -------------------------------
(* L1 for property C16: what "bus / buffer index allocation is safe and complete" means.
   A partition is the half-open absolute address range [off+pos, off+size); `live` is the set of
   ranges [a |-> first address, n |-> length] currently handed out.

     alloc(n)  may return ANY address a such that [a, a+n) lies inside the partition and meets no
               live range; it may answer "no space" (NONE) ONLY IF no such a exists.
     free(a)   removes the live range that starts at a; if there is none (double free, unknown
               address, NONE) nothing changes.

   Because "a free run exists" is evaluated on the cells not covered by `live`, a freed range is
   automatically merged with its free neighbours: an implementation that fails to coalesce shows
   up as a NONE that this spec does not allow (NoSpaceOnlyWhenFull).
   The operators below are used by the design model at the end of this module, by the
   implementation-shaped model AllocImpl.tla (refinement) and by TraceAlloc.tla, which decides
   every execution recorded from the real sc3 allocators.                                      *)
EXTENDS Naturals, Integers, Sequences, FiniteSets, TLC

NONE == 0 - 1

Lo(c) == c.off + c.pos
Hi(c) == c.off + c.size                 \* exclusive
Cells(a, n) == a .. (a + n - 1)
Occ(live) == UNION {Cells(r.a, r.n) : r \in live}
Inside(c, a, n) == n >= 1 /\ a >= Lo(c) /\ a + n <= Hi(c)
Fits(live, c, a, n) == Inside(c, a, n) /\ Cells(a, n) \cap Occ(live) = {}
HasRun(live, c, n) == \E a \in Lo(c) .. (Hi(c) - 1) : Fits(live, c, a, n)

\* the per-client partition rule of the server: every client gets total \div logins addresses,
\* the first `reserved` of them are never handed out, `io` shifts the whole space (audio buses
\* start after the hardware input/output channels)
ClientCfg(total, logins, reserved, io, client) ==
    [size |-> total \div logins, pos |-> reserved, off |-> client * (total \div logins) + io]

\* The number of logins that divides the spaces is the one the SERVER reported when the client registered
\* (/done /notify clientID maxLogins); the client's local option counts only if the server reported none
\* (reported = 0: supernova, or a client that never registered).  Same rule for all three spaces.
EffLogins(local, reported) == IF reported = 0 THEN local ELSE reported
ClientCfgR(total, local, reported, reserved, io, client) ==
    ClientCfg(total, EffLogins(local, reported), reserved, io, client)

(* ---- the properties, as predicates on the abstract state ---- *)
Disjoint(live) == \A r1, r2 \in live : r1 # r2 => Cells(r1.a, r1.n) \cap Cells(r2.a, r2.n) = {}
InsidePartition(live, c) == \A r \in live : Inside(c, r.a, r.n)

\* verdict on one observed alloc(n) -> ret made in abstract state `live`
AllocWhy(live, c, n, ret) ==
    IF ret = NONE THEN (IF HasRun(live, c, n) THEN "NoSpaceOnlyWhenFull" ELSE "ok")
    ELSE IF ~Inside(c, ret, n) THEN "InsidePartition"
    ELSE IF Cells(ret, n) \cap Occ(live) # {} THEN "Disjoint"
    ELSE "ok"
AfterAlloc(live, n, ret) == IF ret = NONE THEN live ELSE live \cup {[a |-> ret, n |-> n]}
AfterFree(live, a) == {r \in live : r.a # a}
\* every address alloc(n) is allowed to return in `live` (NONE iff nothing fits)
Legal(live, c, n) == LET A == {a \in Lo(c) .. (Hi(c) - 1) : Fits(live, c, a, n)}
                     IN IF A = {} THEN {NONE} ELSE A
\* longest free run (used for the reuse law and for coverage bookkeeping)
MaxRun(live, c) == LET L == {n \in 0 .. (c.size - c.pos) : n = 0 \/ HasRun(live, c, n)}
                   IN CHOOSE n \in L : \A m \in L : m <= n
\* blocks(): the allocator's own list of live ranges
BlocksAgree(live, bl) == {[a |-> bl[i][1], n |-> bl[i][2]] : i \in 1 .. Len(bl)} = live /\ Len(bl) = Cardinality(live)

(* ---- design model ---- *)
CONSTANTS Cfgs,      \* set of configurations [size, pos, off] explored (chosen in Init)
          MaxN       \* largest request
VARIABLES C, live, op, ret, prev
vars == <<C, live, op, ret, prev>>
Op(n, x) == [n |-> n, x |-> x]
Cfg(size, pos, off) == [size |-> size, pos |-> pos, off |-> off]
CfgsQuick == {Cfg(5, 0, 0), Cfg(5, 1, 5), Cfg(6, 2, 12)}
CfgsThorough == {Cfg(s, p, o) : s \in {6, 8}, p \in {0, 2}, o \in {0, 8, 16}}

Init == C \in Cfgs /\ live = {} /\ op = Op("init", 0) /\ ret = NONE /\ prev = {}
Alloc == \E n \in 1 .. MaxN : \E a \in Legal(live, C, n) :
            /\ live' = AfterAlloc(live, n, a) /\ ret' = a /\ op' = Op("alloc", n) /\ prev' = live /\ UNCHANGED C
\* any address of the partition (and one outside, and NONE): covers free, double free, unknown
Free == \E a \in (Lo(C) - 1) .. Hi(C) :
            /\ live' = AfterFree(live, a) /\ ret' = NONE /\ op' = Op("free", a) /\ prev' = live /\ UNCHANGED C
\* bulk operations: blocks() lists exactly the live ranges; freeing all of them (Buffer.free_all) leaves nothing
\* live, whatever the reserved prefix and the client offset are - the whole partition is one free run again
FreeAll == /\ live' = {} /\ ret' = NONE /\ op' = Op("freeall", 0) /\ prev' = live /\ UNCHANGED C
Next == Alloc \/ Free \/ FreeAll
Spec == Init /\ [][Next]_vars

InvDisjoint == Disjoint(live)
InvInside == InsidePartition(live, C)
\* "no space" only when no free run of the requested length exists
NoSpaceOnlyWhenFull == (op.n = "alloc" /\ ret = NONE) => ~HasRun(prev, C, op.x)
\* a request that fits is always granted (contrapositive, stated on the pre-state)
FitsIsGranted == (op.n = "alloc" /\ HasRun(prev, C, op.x)) => ret # NONE /\ Fits(prev, C, ret, op.x)
\* freed cells - merged with whatever free cells surround them - are available again: after
\* free(a) of a live range the longest free run is at least the freed length plus the free
\* cells directly before and after it, and a request of that length is legal
FreeCells(lv) == (Lo(C) .. (Hi(C) - 1)) \ Occ(lv)
RECURSIVE Left(_, _)
Left(F, a) == IF (a - 1) \in F THEN 1 + Left(F, a - 1) ELSE 0
RECURSIVE Right(_, _)
Right(F, a) == IF a \in F THEN 1 + Right(F, a + 1) ELSE 0
FreedIsReusable == op.n = "free" =>
    \A r \in prev : r.a = op.x =>
        LET F == FreeCells(live)
            m == Left(F, r.a) + Right(F, r.a)
        IN m >= r.n + Left(FreeCells(prev), r.a) + Right(FreeCells(prev), r.a + r.n)
           /\ HasRun(live, C, m) /\ NONE \notin Legal(live, C, m)
DoubleFreeNoOp == (op.n = "free" /\ ~\E r \in prev : r.a = op.x) => live = prev
\* everything freed => the whole partition is one run again
FreeAllFreesAll == op.n = "freeall" => live = {} /\ Legal(live, C, C.size - C.pos) = {Lo(C)}
EmptyMeansAll == live = {} => Legal(live, C, C.size - C.pos) = {Lo(C)}
=============================================================================
