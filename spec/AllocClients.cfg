SPECIFICATION Spec
CONSTANTS
  Totals = {8}
  Locals = {1, 2, 4}
  Reporteds = {0, 2, 4}
  MaxN = 2
INVARIANT CrossDisjoint
INVARIANT EachInside
INVARIANT WithinSpace
INVARIANT PartitionsApart
