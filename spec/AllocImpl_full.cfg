SPECIFICATION Spec
CONSTANTS
  Cfgs <- CfgsMid
  MaxN = 7
  MaxId = 12
  PinnedFindNext = FALSE
  MaxDepth = 100000
  FreeAnywhere = TRUE
CONSTRAINT Depth
VIEW Real
INVARIANT StepRefines
INVARIANT BlocksRefine
INVARIANT L1Disjoint
INVARIANT L1Inside
INVARIANT ArrIndexed
INVARIANT Tiling
INVARIANT TopIsLast
INVARIANT FreedExact
INVARIANT FkeysExact
INVARIANT Coalesced
