SPECIFICATION Spec
CONSTANTS
  NV = 12
  Mode = "d3"
  NS = 0
  NB = 1024
INVARIANT LawsHold
INVARIANT DefinedOnly
INVARIANT Immutable
PROPERTY PatternConstant
