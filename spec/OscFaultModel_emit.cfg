SPECIFICATION Spec
CONSTANTS
  NFaults = 1
  MaxWrap = 1
  Emitting = TRUE
INVARIANT DecTotal
INVARIANT InvEmit
