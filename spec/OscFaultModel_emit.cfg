SPECIFICATION Spec
CONSTANTS
  NFaults = 1
  MaxWrap = 0
  Emitting = TRUE
INVARIANT DecTotal
INVARIANT InvEmit
