SPECIFICATION Spec
INVARIANT OptOK
