SPECIFICATION TSpec
