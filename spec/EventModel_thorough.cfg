SPECIFICATION Spec
CONSTANTS
  Mode = "thorough"
  NB = 64
INVARIANT LawsHold
