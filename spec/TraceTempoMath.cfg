SPECIFICATION TSpec
