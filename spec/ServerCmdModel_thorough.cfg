SPECIFICATION Spec
CONSTANTS
  Client = 1
  MaxObj = 3
  MaxCalls = 3
  ActNames = {"addToHead", "tail", "addBefore", "a", "addReplace", "t", "before", "after", "r", "h", "b", "addToTail", "addAfter", "head", "replace"}
  NShapes = 4
  Wide = TRUE
  BindFocus = FALSE
  Trace = FALSE
CONSTRAINT Bound
INVARIANT SelfConsistent
INVARIANT WireWellTyped
INVARIANT BindAtomic
INVARIANT BlockOver
INVARIANT ExactlyOnceInOrder
INVARIANT SyncAfterEarlier
INVARIANT FreeLaws
