SPECIFICATION Spec
CONSTANTS
  Threads = {1, 2}
  Funcs = {"f"}
  MaxAttempts = 2
  ClearOnFail = TRUE
  ClearOnReadFail = FALSE
  CtxEarly = FALSE
  ClearLate = FALSE
  SharedExtras = FALSE
  UseLock = TRUE
INVARIANT NoResidue
