SPECIFICATION Spec
CONSTANTS
  Invalidate = TRUE
  ShareTimes = TRUE
  InPlace = FALSE
  MaxLen = 8
  Small = FALSE
INVARIANT Coherent
INVARIANT Independent
INVARIANT DurationLaw
INVARIANT LayoutsAgree
