SPECIFICATION Spec
CONSTANTS
  Invalidate = TRUE
  MaxLen = 7
INVARIANT Coherent
INVARIANT CachesCurrent
INVARIANT LayoutsAgree
