SPECIFICATION Spec
INVARIANT NaiveOK
INVARIANT DropDetected
INVARIANT Emit
