SPECIFICATION Spec
CONSTANTS
  Client = 1
  MaxObj = 2
  MaxCalls = 3
  ActNames = {"addToHead", "a"}
  NShapes = 2
  Wide = FALSE
  BindFocus = FALSE
  Trace = FALSE
CONSTRAINT Bound
INVARIANT SelfConsistent
INVARIANT WireWellTyped
INVARIANT BindAtomic
INVARIANT BlockOver
INVARIANT ExactlyOnceInOrder
INVARIANT SyncAfterEarlier
INVARIANT FreeLaws
