------------------------------- MODULE Build -------------------------------
(* C20: definition builds are deterministic, isolated and leave no residue.

   Protocol model (one action per critical step of SynthDef._build and of SynthDesc._read_synthdef2,
   the other user of the build lock and of the global context: SynthDef.add / store / SynthDescLib.read
   / SynthDesc.new_from / _read_stream re-build a definition from bytes into a dummy definition that is
   installed as the current one while its units are re-created).  Threads attempt builds of functions or
   read-backs of bytes (kind "build" / "read"); a build takes the global build lock, installs itself as the global build context,
   runs its graph function (two unit creations - a unit attaches to whatever context is current
   when it is created), checks/finishes, clears the context (on success and on failure) and
   releases the lock.  Between builds a thread may create a unit outside any build (Orphan).
   Orphan also tries SynthDef.wrap, which must refuse to work outside a build.
   An attempt ends ok, raises inside the function (read: while re-creating units - unknown class,
   truncated or damaged bytes), or raises in the checks (read: SynthDescError of the final check).

   L1 properties (invariants):
     CtxClearedWhenIdle    lock free            => no context installed
     NoResidue             a unit created while no build is running belongs to no definition
     Isolation             a finished definition owns exactly the units its own function created
     LockFreeAfterFailure  a thread that is not building does not hold the lock
     Exclusive             at most one thread is between SetCtx and Clear
     Deterministic         finished definitions of the same function have the same bytes
   bytes are abstracted as <<function, own units, foreign units>>.

   Annotate: a finished definition's variants / metadata dictionaries are mutated in place between builds; every
   definition owns its dictionaries, SharedExtras = TRUE (one process-wide default dictionary) must break Deterministic.
   CtxEarly = TRUE: a read-back installs its dummy definition as the global context BEFORE it takes the lock;
   ClearLate = TRUE: a build / read-back clears the global context AFTER it released the lock.  Both must break
   Isolation (units of the definition being built by another thread attach elsewhere).
   Constants ClearOnFail / ClearOnReadFail / UseLock switch off one mechanism each (ClearOnReadFail =
   FALSE: a read-back clears the context on success and on its own error type only): the checks run those
   configurations too and REQUIRE the violation (the invariants are not vacuous).

   The predicates ExclusiveOK, IdleOK, DetOK are the ones TraceBuild.tla evaluates on the
   observations recorded from real (threaded) builds.                                        *)
EXTENDS Naturals, Sequences, FiniteSets, TLC
CONSTANTS Threads, Funcs, MaxAttempts, ClearOnFail, ClearOnReadFail, UseLock, CtxEarly, ClearLate, SharedExtras
Kinds == {"build", "read"}
Outcomes == {"ok", "raise_func", "raise_check"}
VARIABLES lock, ctx, pc, att, nb, owner, fin, natt, orphans, extras
vars == <<lock, ctx, pc, att, nb, owner, fin, natt, orphans, extras>>

DictOf(id) == IF SharedExtras THEN 0 ELSE id        \* which variants / metadata dictionary definition id uses (see Annotate)
NoAtt == [id |-> 0, f |-> "", out |-> "", kind |-> ""]
Init == /\ lock = 0 /\ ctx = 0 /\ pc = [t \in Threads |-> "idle"] /\ att = [t \in Threads |-> NoAtt]
        /\ nb = 0 /\ owner = <<>> /\ fin = {} /\ natt = [t \in Threads |-> 0] /\ orphans = {}
        /\ extras = [i \in 0..(Cardinality(Threads) * MaxAttempts) |-> {}]

\* ---- state predicates shared with the trace spec
InFunc(p) == p \in {"f1", "f2", "chk", "done", "fail", "want2", "doneL", "failL"}       \* between SetCtx and the clearing of the context
ExclusiveOK(pcs) == \A s, t \in DOMAIN pcs : (s # t /\ InFunc(pcs[s])) => ~InFunc(pcs[t])
Building(p) == p \notin {"idle", "want"}
IdleOK(lk, cx, pcs) == (\A t \in DOMAIN pcs : ~Building(pcs[t])) => (lk = 0 /\ cx = 0)
DetOK(f) == \A a, b \in f : a.f = b.f => a.bytes = b.bytes

Own(id) == {u \in DOMAIN owner : u[1] = id}                  \* units created by the function of build id
Has(id) == {u \in DOMAIN owner : owner[u] = id}              \* units attached to build id
Put(u, o) == [x \in (DOMAIN owner) \cup {u} |-> IF x = u THEN o ELSE owner[x]]

Begin(t) == /\ pc[t] = "idle" /\ natt[t] < MaxAttempts
            /\ \E f \in Funcs, o \in Outcomes, k \in Kinds :
                  att' = [att EXCEPT ![t] = [id |-> nb + 1, f |-> f, out |-> o, kind |-> k]]
            /\ nb' = nb + 1 /\ pc' = [pc EXCEPT ![t] = "want"]
            /\ UNCHANGED <<lock, ctx, owner, fin, natt, orphans, extras>>
Early(t) == CtxEarly /\ att[t].kind = "read"
\* (model variant) the read-back writes the global context before it has the lock
SetCtxEarly(t) == /\ pc[t] = "want" /\ Early(t) /\ ctx' = att[t].id /\ pc' = [pc EXCEPT ![t] = "want2"]
                  /\ UNCHANGED <<lock, att, nb, owner, fin, natt, orphans, extras>>
Acquire(t) == /\ (pc[t] = "want" /\ ~Early(t)) \/ pc[t] = "want2"
              /\ (UseLock => lock = 0)
              /\ lock' = (IF UseLock THEN t ELSE lock)
              /\ pc' = [pc EXCEPT ![t] = IF pc[t] = "want2" THEN "f1" ELSE "acq"]
              /\ UNCHANGED <<ctx, att, nb, owner, fin, natt, orphans, extras>>
SetCtx(t) == /\ pc[t] = "acq" /\ ctx' = att[t].id /\ pc' = [pc EXCEPT ![t] = "f1"]
             /\ UNCHANGED <<lock, att, nb, owner, fin, natt, orphans, extras>>
Create1(t) == /\ pc[t] = "f1" /\ owner' = Put(<<att[t].id, 1>>, ctx) /\ pc' = [pc EXCEPT ![t] = "f2"]
              /\ UNCHANGED <<lock, ctx, att, nb, fin, natt, orphans, extras>>
Create2(t) == /\ pc[t] = "f2"
              /\ IF att[t].out = "raise_func"
                 THEN pc' = [pc EXCEPT ![t] = "fail"] /\ UNCHANGED owner
                 ELSE owner' = Put(<<att[t].id, 2>>, ctx) /\ pc' = [pc EXCEPT ![t] = "chk"]
              /\ UNCHANGED <<lock, ctx, att, nb, fin, natt, orphans, extras>>
Check(t) == /\ pc[t] = "chk"
            /\ IF att[t].out = "raise_check"
               THEN pc' = [pc EXCEPT ![t] = "fail"] /\ UNCHANGED fin
               ELSE /\ pc' = [pc EXCEPT ![t] = "done"]
                    /\ fin' = fin \cup {[id |-> att[t].id, f |-> <<att[t].kind, att[t].f>>,
                                         bytes |-> <<att[t].f, Cardinality(Has(att[t].id) \cap Own(att[t].id)),
                                                     Cardinality(Has(att[t].id) \ Own(att[t].id)), extras[DictOf(att[t].id)]>>,
                                         lost |-> Cardinality(Own(att[t].id) \ Has(att[t].id))]}
            /\ UNCHANGED <<lock, ctx, att, nb, owner, natt, orphans, extras>>
\* normal order: clear the context, then release; ClearLate: release first (pc done -> doneL, fail -> failL), clear after
ClearOk(t) == /\ pc[t] = "done" /\ ~ClearLate /\ ctx' = 0 /\ pc' = [pc EXCEPT ![t] = "rel"]
              /\ UNCHANGED <<lock, att, nb, owner, fin, natt, orphans, extras>>
Cleared(a) == IF a.kind = "build" THEN ClearOnFail ELSE (ClearOnReadFail \/ a.out = "raise_check")
ClearFail(t) == /\ pc[t] = "fail" /\ ~ClearLate
                /\ ctx' = (IF Cleared(att[t]) THEN 0 ELSE ctx) /\ pc' = [pc EXCEPT ![t] = "rel"]
                /\ UNCHANGED <<lock, att, nb, owner, fin, natt, orphans, extras>>
Finished(t) == /\ pc' = [pc EXCEPT ![t] = "idle"] /\ natt' = [natt EXCEPT ![t] = @ + 1]
               /\ att' = [att EXCEPT ![t] = NoAtt]
Release(t) == /\ pc[t] = "rel" /\ lock' = (IF lock = t THEN 0 ELSE lock)
              /\ Finished(t)
              /\ UNCHANGED <<ctx, nb, owner, fin, orphans, extras>>
ReleaseFirst(t) == /\ ClearLate /\ pc[t] \in {"done", "fail"}
                   /\ lock' = (IF lock = t THEN 0 ELSE lock)
                   /\ pc' = [pc EXCEPT ![t] = IF pc[t] = "done" THEN "doneL" ELSE "failL"]
                   /\ UNCHANGED <<ctx, att, nb, owner, fin, natt, orphans, extras>>
ClearAfter(t) == /\ pc[t] \in {"doneL", "failL"}
                 /\ ctx' = (IF pc[t] = "doneL" \/ Cleared(att[t]) THEN 0 ELSE ctx)
                 /\ Finished(t)
                 /\ UNCHANGED <<lock, nb, owner, fin, orphans, extras>>
\* a unit created (and SynthDef.wrap tried) while nobody is building or reading
Orphan(t) == /\ pc[t] = "idle" /\ \A s \in Threads : ~Building(pc[s])
             /\ Cardinality(orphans) < 2
             /\ orphans' = orphans \cup {[n |-> Cardinality(orphans) + 1, owner |-> ctx, wrap |-> ctx # 0]}
             /\ UNCHANGED <<lock, ctx, pc, att, nb, owner, fin, natt, extras>>
\* the build arguments `variants` / `metadata` of a definition are dictionaries the definition keeps and exposes: a user
\* may annotate a FINISHED definition in place (sd.variants[k] = ..., sd.metadata[k] = ...).  Every definition owns its
\* dictionaries (DictOf = its id); SharedExtras = TRUE: definitions built without the arguments all share one dictionary
\* (DictOf = 0), so an annotation of one leaks into the bytes of every later one - must violate Deterministic.
Annotate(t) == /\ pc[t] = "idle" /\ \E b \in fin : /\ b.f[1] = "build" /\ b.id \notin extras[DictOf(b.id)]
                                                  /\ extras' = [extras EXCEPT ![DictOf(b.id)] = @ \cup {b.id}]
               /\ UNCHANGED <<lock, ctx, pc, att, nb, owner, fin, natt, orphans>>
Next == \E t \in Threads : Annotate(t) \/ Begin(t) \/ SetCtxEarly(t) \/ ReleaseFirst(t) \/ ClearAfter(t) \/ Acquire(t) \/ SetCtx(t) \/ Create1(t) \/ Create2(t) \/ Check(t)
                           \/ ClearOk(t) \/ ClearFail(t) \/ Release(t) \/ Orphan(t)
Spec == Init /\ [][Next]_vars

CtxClearedWhenIdle == IdleOK(lock, ctx, pc)
NoResidue == \A o \in orphans : o.owner = 0 /\ ~o.wrap
Isolation == \A b \in fin : b.bytes[3] = 0 /\ b.lost = 0
LockFreeAfterFailure == \A t \in Threads : lock = t => Building(pc[t])
Exclusive == ExclusiveOK(pc)
Deterministic == DetOK(fin)
=============================================================================
