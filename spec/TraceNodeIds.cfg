SPECIFICATION TSpec
