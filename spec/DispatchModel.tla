---------------------------- MODULE DispatchModel ----------------------------
(* Design-level model for C18 dispatch: histories of Create / Enable / Disable / OneShot / Free /
   SetFunc / SetPerm / CmdPeriod / Recv over a few responders, with the invariants named in the
   property.  Its behaviours are also replayed on the real responders (S->C): `op` holds the last
   operation, `last` the delivery log the spec expects for it.                              *)
EXTENDS Dispatch
CONSTANTS MaxResp, MaxRecv, MaxOps, Rich
VARIABLES st, op, last, nrecv, nops, osf
vars == <<st, op, last, nrecv, nops, osf>>

A == <<47, 97>>          \* /a
AB == <<47, 97, 98>>     \* /ab
I(n) == [t |-> "i", hi |-> 0, lo |-> n]
AnySrc == [h |-> 0, p |-> 0]
H1 == [h |-> 1, p |-> 0]          \* host 1, any port
H1P == [h |-> 1, p |-> 5001]
Senders == {[h |-> 1, p |-> 5001], [h |-> 1, p |-> 5002]} \cup (IF Rich THEN {[h |-> 2, p |-> 5001]} ELSE {})
\* filter profiles: none, sender host+port, receive port, argument template
Profiles == {[src |-> AnySrc, rport |-> 0, tmpl |-> <<>>], [src |-> H1P, rport |-> 2, tmpl |-> <<[k |-> "eq", v |-> I(1)]>>]}
            \cup (IF Rich THEN {[src |-> H1P, rport |-> 0, tmpl |-> <<>>], [src |-> AnySrc, rport |-> 2, tmpl |-> <<>>],
                                [src |-> AnySrc, rport |-> 0, tmpl |-> <<[k |-> "eq", v |-> I(1)]>>],
                                [src |-> H1, rport |-> 0, tmpl |-> <<[k |-> "any"], [k |-> "gt", n |-> 5]>>]} ELSE {})
Creates == {[op |-> "create", kind |-> k, path |-> p, src |-> f.src, rport |-> f.rport, tmpl |-> f.tmpl, os |-> FALSE] :
               k \in {"exact", "matching"}, p \in {A, AB}, f \in Profiles}
\* message addresses: literal, wildcard forms, a prefix of /ab, a malformed pattern
MAddrs == {A, AB, <<47, 42>>, <<47, 97, 63>>} \cup
          (IF Rich THEN {<<47, 91, 97, 93>>, <<47, 123, 97, 44, 97, 98, 125>>, <<47, 91, 97>>} ELSE {})
Msgs == {[tag |-> <<>>, a |-> a, args |-> ar] : a \in MAddrs, ar \in {<<>>, <<I(1)>>} \cup (IF Rich THEN {<<I(0), I(9)>>} ELSE {})}

Init == /\ st = [rs |-> <<>>, ord |-> <<>>] /\ op = [op |-> "init"] /\ last = <<>>
        /\ nrecv = 0 /\ nops = 0 /\ osf = <<>>
Do(e, s2) == /\ st' = s2 /\ op' = e /\ last' = <<>> /\ nops' = nops + 1 /\ nops < MaxOps
             /\ UNCHANGED nrecv
Create == /\ Len(st.rs) < MaxResp
          /\ \E e \in Creates : Do(e, OpCreate(st, e))
          /\ osf' = Append(osf, 0)
R == 1..Len(st.rs)
Enable == \E i \in R : ~st.rs[i].freed /\ ~st.rs[i].en /\ Do([op |-> "enable", i |-> i], OpEnable(st, i)) /\ UNCHANGED osf
Disable == \E i \in R : st.rs[i].en /\ Do([op |-> "disable", i |-> i], OpDisable(st, i)) /\ UNCHANGED osf
Free == \E i \in R : ~st.rs[i].freed /\ Do([op |-> "free", i |-> i], OpFree(st, i)) /\ UNCHANGED osf
OneShot == \E i \in R : ~st.rs[i].freed /\ ~st.rs[i].os /\ Do([op |-> "oneshot", i |-> i], OpOneShot(st, i)) /\ UNCHANGED osf
SetFunc == \E i \in R : ~st.rs[i].freed /\ st.rs[i].fn < 1
              /\ Do([op |-> "setfunc", i |-> i, fn |-> st.rs[i].fn + 1], OpSetFunc(st, i, st.rs[i].fn + 1)) /\ UNCHANGED osf
SetPerm == \E i \in R : st.rs[i].en /\ ~st.rs[i].perm /\ Do([op |-> "setperm", i |-> i, b |-> TRUE], OpSetPerm(st, i, TRUE)) /\ UNCHANGED osf
CmdPeriod == st.rs # <<>> /\ Do([op |-> "cmdperiod"], OpCmdPeriod(st)) /\ UNCHANGED osf
Recv == /\ nrecv < MaxRecv /\ nops < MaxOps /\ st.rs # <<>>
        /\ \E m \in Msgs, s \in Senders, via \in {1, 2} :
              LET d == Deliver(st, <<m>>, 1, s, via, <<>>) IN
              /\ st' = d.st /\ last' = d.log
              /\ op' = [op |-> "recv", m |-> m, src |-> s, via |-> via]
              /\ osf' = [i \in 1..Len(osf) |-> osf[i] + (IF st.rs[i].os /\ \E k \in 1..Len(d.log) : d.log[k].r = i THEN 1 ELSE 0)]
        /\ nrecv' = nrecv + 1 /\ nops' = nops + 1
Next == Create \/ Enable \/ Disable \/ Free \/ OneShot \/ SetFunc \/ SetPerm \/ CmdPeriod \/ Recv
Spec == Init /\ [][Next]_vars

\* the property's named invariants; `last` is the log of the delivery just made (state before it: unprimed)
FreedNeverFires == [][\A k \in 1..Len(last') : ~st.rs[last'[k].r].freed]_vars
DisabledNeverFires == [][\A k \in 1..Len(last') : st.rs[last'[k].r].en]_vars
OneShotOnce == \A i \in 1..Len(osf) : osf[i] <= 1
FiredOneShotIsFreed == \A i \in 1..Len(osf) : osf[i] = 1 => st.rs[i].freed \/ ~st.rs[i].os
EachOnce == \A j, k \in 1..Len(last) : j # k => last[j].r # last[k].r
OrderIsRegistrationOrder ==
    [][\A j, k \in 1..Len(last') : j < k =>
          \E x, y \in 1..Len(st.ord) : x < y /\ st.ord[x] = last'[j].r /\ st.ord[y] = last'[k].r]_vars
\* firing one responder never removes another from the current delivery: the delivery is the whole Fire list
NoRemovalDuringDelivery ==
    [][op'.op = "recv" => [k \in 1..Len(last') |-> last'[k].r] = Fire(st, op'.m, op'.src, op'.via)]_vars
OrdConsistent == /\ \A k \in 1..Len(st.ord) : st.rs[st.ord[k]].en /\ ~st.rs[st.ord[k]].freed
                 /\ \A i \in 1..Len(st.rs) : st.rs[i].en => \E k \in 1..Len(st.ord) : st.ord[k] = i
                 /\ \A j, k \in 1..Len(st.ord) : j # k => st.ord[j] # st.ord[k]
\* prefix is not a match; wildcards stay within a part
NoPrefixMatch == [][\A k \in 1..Len(last') : st.rs[last'[k].r].path = AB => op'.m.a # A]_vars
=============================================================================
