---------------------------- MODULE DispatchModel ----------------------------
(* Design-level model for C18 dispatch: histories of Create / Enable / Disable / OneShot / Free /
   SetFunc / SetPerm / CmdPeriod / Recv over a few responders whose callbacks may RAISE and may free /
   disable / enable responders (themselves included) from inside, with the invariants named in the
   property.  Its behaviours are also replayed on the real responders (S->C): `op` holds the last
   operation, `last` the delivery log the spec expects for it.                              *)
EXTENDS Dispatch
CONSTANTS MaxResp, MaxRecv, MaxOps,
          Mode      \* "base": small exhaustive alphabet ("base+": one more behaviour); "rich": everything (simulation);
                    \* "paths": three responders on up to three paths, one wildcard message matching several of
                    \*          them, callbacks freeing / disabling responders of OTHER paths (sole or not)
Rich == Mode = "rich"
PathsMode == Mode \in {"paths", "paths+"}     \* "paths+": disable as well as free
VARIABLES st, op, last, nrecv, nops, spent
vars == <<st, op, last, nrecv, nops, spent>>

A == <<47, 97>>          \* /a
AB == <<47, 97, 98>>     \* /ab
B == <<47, 98>>          \* /b
Paths == IF Mode \in {"base", "base+"} THEN {A, AB} ELSE {A, AB, B}
I(n) == [t |-> "i", hi |-> 0, lo |-> n]
AnySrc == [h |-> 0, p |-> 0]
H1 == [h |-> 1, p |-> 0]          \* host 1, any port
H1P == [h |-> 1, p |-> 5001]
Senders == {[h |-> 1, p |-> 5001]} \cup (IF Rich THEN {[h |-> 1, p |-> 5002], [h |-> 2, p |-> 5001]} ELSE {})
Vias == IF Rich THEN {1, 2} ELSE {1}
\* filter profiles: none, sender host+port, receive port, argument template
Profiles == {[src |-> AnySrc, rport |-> 0, tmpl |-> <<>>]}
            \cup (IF Rich THEN {[src |-> H1P, rport |-> 2, tmpl |-> <<[k |-> "eq", v |-> I(1)]>>],
                                [src |-> H1P, rport |-> 0, tmpl |-> <<>>], [src |-> AnySrc, rport |-> 2, tmpl |-> <<>>],
                                [src |-> AnySrc, rport |-> 0, tmpl |-> <<[k |-> "eq", v |-> I(1)]>>],
                                [src |-> H1, rport |-> 0, tmpl |-> <<[k |-> "any"], [k |-> "gt", n |-> 5]>>]} ELSE {})
\* callback behaviours: quiet, raising on the 1st / 2nd invocation, freeing / disabling / enabling a responder
\* (possibly itself) from inside the callback, and combinations
Act(o, i) == [op |-> o, i |-> i]
Beh(rk, acts) == [rk |-> rk, acts |-> acts, ar |-> 4]
WithAr(b, n) == [b EXCEPT !.ar = n]
Behs == IF PathsMode
        THEN {Quiet} \cup {Beh(0, <<Act(o, i)>>) : o \in (IF Mode = "paths" THEN {"free"} ELSE {"free", "disable"}), i \in 1..3}
        ELSE {Quiet, Beh(1, <<>>), Beh(0, <<Act("free", 1)>>)} \cup (IF Mode = "base" THEN {} ELSE {Beh(1, <<Act("disable", 2)>>)})
             \cup (IF Rich THEN {Beh(2, <<>>), Beh(0, <<Act("enable", 1)>>), Beh(0, <<Act("free", 2)>>), Beh(0, <<Act("disable", 3)>>),
                                 Beh(0, <<Act("free", 3)>>), Beh(0, <<Act("disable", 1)>>),
                                 Beh(1, <<Act("enable", 2), Act("free", 1)>>), Beh(2, <<Act("free", 3)>>)} ELSE {})
\* the ARITY of the callback (1..4 declared parameters, 0 = *args) crossed with the filter profiles
\* (exhaustive modes: arity rides on the behaviours - raise@1 declares one parameter, "free 1" two - at no extra
\* cost in states; arity being irrelevant to the model, the replay of simulated behaviours re-draws the arity of every
\* function at random (every such assignment is again a behaviour of this model: ArityTransparent))
Arities == {9}
ArOf(b, n) == IF n # 9 THEN n ELSE IF b.rk = 1 /\ b.acts = <<>> THEN 1 ELSE IF b.acts # <<>> /\ b.rk = 0 THEN 2 ELSE 4
Creates == {[op |-> "create", kind |-> k, path |-> p, src |-> f.src, rport |-> f.rport, tmpl |-> f.tmpl, os |-> FALSE, beh |-> WithAr(b0, ArOf(b0, n))] :
               n \in Arities, b0 \in Behs,
               k \in (IF Mode = "paths" THEN {"matching"} ELSE {"exact", "matching"}), p \in Paths, f \in Profiles}
\* message addresses: literal, wildcard forms (some match several registered paths: /* -> /a /b, /a* -> /a /ab,
\* /?* -> all three), a prefix of /ab, a malformed pattern
MAddrs == IF PathsMode THEN (IF Mode = "paths" THEN {<<47, 97, 42>>, <<47, 63, 42>>} ELSE {A, <<47, 42>>, <<47, 97, 42>>, <<47, 63, 42>>})
          ELSE {A, AB, <<47, 42>>, <<47, 97, 63>>} \cup
               (IF Rich THEN {<<47, 97, 42>>, <<47, 63, 42>>, <<47, 91, 97, 93>>, <<47, 123, 97, 44, 97, 98, 125>>, <<47, 91, 97>>} ELSE {})
Msgs == {[tag |-> <<>>, a |-> a, args |-> ar] :
            \* argument templates exist in the "rich" profiles only: elsewhere one argument list is enough
            a \in MAddrs, ar \in (IF Rich THEN {<<>>, <<I(1)>>, <<I(0), I(9)>>} ELSE {<<I(1)>>})}

Init == /\ st = [rs |-> <<>>, ord |-> <<>>] /\ op = [op |-> "init"] /\ last = <<>>
        /\ nrecv = 0 /\ nops = 0 /\ spent = {}
Do(e, s2) == /\ st' = s2 /\ op' = e /\ last' = <<>> /\ nops' = nops + 1 /\ nops < MaxOps
             /\ UNCHANGED <<nrecv, spent>>
Create == /\ Len(st.rs) < MaxResp
          /\ \E e \in Creates : Do(e, OpCreate(st, e))
R == 1..Len(st.rs)
Enable == ~PathsMode /\ \E i \in R : ~st.rs[i].freed /\ ~st.rs[i].en /\ Do([op |-> "enable", i |-> i], OpEnable(st, i))
Disable == ~PathsMode /\ \E i \in R : st.rs[i].en /\ Do([op |-> "disable", i |-> i], OpDisable(st, i))
Free == ~PathsMode /\ \E i \in R : ~st.rs[i].freed /\ Do([op |-> "free", i |-> i], OpFree(st, i))
OneShot == ~PathsMode /\ \E i \in R : ~st.rs[i].freed /\ ~st.rs[i].os /\ Do([op |-> "oneshot", i |-> i], OpOneShot(st, i))
SetFunc == ~PathsMode /\ \E i \in R, b \in {Quiet, Beh(1, <<>>)} : ~st.rs[i].freed /\ st.rs[i].fn < 1
              /\ Do([op |-> "setfunc", i |-> i, fn |-> st.rs[i].fn + 1, beh |-> b], OpSetFunc(st, i, st.rs[i].fn + 1, b))
SetPerm == ~PathsMode /\ \E i \in R : st.rs[i].en /\ ~st.rs[i].perm /\ Do([op |-> "setperm", i |-> i, b |-> TRUE], OpSetPerm(st, i, TRUE))
CmdPeriod == ~PathsMode /\ st.rs # <<>> /\ Do([op |-> "cmdperiod"], OpCmdPeriod(st))
Recv == /\ nrecv < MaxRecv /\ nops < MaxOps /\ st.rs # <<>>
        /\ \E m \in Msgs, s \in Senders, via \in Vias :
              LET d == Deliver(st, <<m>>, 1, s, via, <<>>) IN
              /\ st' = d.st /\ last' = d.log
              /\ op' = [op |-> "recv", m |-> m, src |-> s, via |-> via]
              \* a one-shot that fired is spent - until somebody enables it again
              /\ spent' = {i \in 1..Len(st.rs) : (i \in spent \/ (st.rs[i].os /\ \E k \in 1..Len(d.log) : d.log[k].r = i))
                                                  /\ ~d.st.rs[i].en}
        /\ nrecv' = nrecv + 1 /\ nops' = nops + 1
\* in the "paths" modes histories are creations and deliveries only
\* a hostile or degenerate datagram: empty or garbage payload, or a (legal) bundle nested hundreds of levels deep
\* that exhausts the parser, from a sender on another loopback address
\* whose source port NUMBER equals the library's (p = 1) or not; it invokes nothing and changes nothing
HostileSenders == {[h |-> 2, p |-> 1]} \cup (IF Rich THEN {[h |-> 3, p |-> 1], [h |-> 2, p |-> 5001], [h |-> 1, p |-> 5002]} ELSE {})
RecvHostile == /\ ~PathsMode /\ nrecv < MaxRecv /\ nops < MaxOps /\ st.rs # <<>>
               /\ \E s \in HostileSenders, via \in Vias, k \in {"empty", "garbage", "deep"} :     \* deep: bundles nested hundreds of levels
                     op' = [op |-> "hostile", k |-> k, src |-> s, via |-> via]
               /\ st' = st /\ last' = <<>> /\ spent' = spent
               /\ nrecv' = nrecv + 1 /\ nops' = nops + 1
Next == RecvHostile \/ Create \/ Enable \/ Disable \/ Free \/ OneShot \/ SetFunc \/ SetPerm \/ CmdPeriod \/ Recv
Spec == Init /\ [][Next]_vars

\* the property's named invariants; `last` is the log of the delivery just made (state before it: unprimed)
FreedNeverFires == [][\A k \in 1..Len(last') : ~st.rs[last'[k].r].freed]_vars
DisabledNeverFires == [][\A k \in 1..Len(last') : st.rs[last'[k].r].en]_vars
\* "already-fired one-shot responders are never invoked" - also when their callback raised
SpentNeverFires == [][\A k \in 1..Len(last') : last'[k].r \notin spent]_vars
SpentNotEnabled == \A i \in spent : ~st.rs[i].en
EnablesOf(s, log) == UNION {{s.rs[log[k].r].beh.acts[j].i : j \in {j \in 1..Len(s.rs[log[k].r].beh.acts) : s.rs[log[k].r].beh.acts[j].op = "enable"}}
                            : k \in 1..Len(log)}
FiredOneShotGone == [][\A k \in 1..Len(last') :
                          LET i == last'[k].r IN
                          (st.rs[i].os /\ i \notin EnablesOf(st, last')) => (st'.rs[i].freed /\ ~st'.rs[i].en)]_vars
EachOnce == \A j, k \in 1..Len(last) : j # k => last[j].r # last[k].r
OrderIsRegistrationOrder ==
    [][\A j, k \in 1..Len(last') : j < k =>
          \E x, y \in 1..Len(st.ord) : x < y /\ st.ord[x] = last'[j].r /\ st.ord[y] = last'[k].r]_vars
\* firing one responder never removes another from the current delivery: the delivery is the whole Fire list
NoRemovalDuringDelivery ==
    [][op'.op = "recv" => [k \in 1..Len(last') |-> last'[k].r] = Fire(st, op'.m, op'.src, op'.via)]_vars
\* a fault in a callback is invisible: the same history with callbacks that never raise gives the same
\* invocations and the same state
\* callback arity is irrelevant to delivery: with every function declaring all four parameters the same responders
\* run, in the same order, and the state is the same
NoAr(s) == [s EXCEPT !.rs = [i \in 1..Len(s.rs) |-> [s.rs[i] EXCEPT !.beh.ar = 4]]]
ArityTransparent ==
    [][op'.op = "recv" => LET q == Deliver(NoAr(st), <<op'.m>>, 1, op'.src, op'.via, <<>>) IN
                          q.log = last' /\ q.st = NoAr(st')]_vars
NoRk(s) == [s EXCEPT !.rs = [i \in 1..Len(s.rs) |-> [s.rs[i] EXCEPT !.beh.rk = 0]]]
FaultTransparent ==
    [][op'.op = "recv" => LET q == Deliver(NoRk(st), <<op'.m>>, 1, op'.src, op'.via, <<>>) IN
                          q.log = last' /\ q.st = NoRk(st')]_vars
\* the model's delivery is one of the deliveries the observational judge (used on real traces) accepts
SpecIsLegal ==
    [][op'.op = "recv" =>
          LET m == [tag |-> op'.m.tag, a |-> op'.m.a, args |-> op'.m.args, ctag |-> <<>>]
              lg == [k \in 1..Len(last') |-> [r |-> last'[k].r, fn |-> last'[k].fn, a |-> last'[k].a, args |-> last'[k].args,
                                               src |-> last'[k].src, via |-> last'[k].via, tm |-> <<>>, d |-> 1]]
              j == Judge(st, <<m>>, op'.src, op'.via, lg) IN
          j.why = "ok" /\ j.st = st']_vars
\* responders that no callback of this delivery touches and that accept the message fire exactly once -
\* wherever they are registered (other paths of a wildcard message included)
TouchedBy(s, log) == UNION {{s.rs[log[k].r].beh.acts[j].i : j \in 1..Len(s.rs[log[k].r].beh.acts)} : k \in 1..Len(log)}
UntouchedFireOnce ==
    [][op'.op = "recv" =>
          \A i \in 1..Len(st.rs) :
             (Accepts(st.rs[i], op'.m, op'.src, op'.via) /\ i \notin TouchedBy(st, last'))
                => Cardinality({k \in 1..Len(last') : last'[k].r = i}) = 1]_vars
\* some delivery really spans several paths with a callback acting on a responder of another path (vacuity guard
\* for the "paths" configuration is the coverage of Recv plus this reachable-state witness, checked by hand)
\* "... leaves it able to process the next datagram": the message after a hostile datagram is delivered in full
NextDatagramProcessed ==
    [][(op.op = "hostile" /\ op'.op = "recv") => [k \in 1..Len(last') |-> last'[k].r] = Fire(st, op'.m, op'.src, op'.via)]_vars
HostileChangesNothing == [][op'.op = "hostile" => (st' = st /\ last' = <<>>)]_vars
OrdConsistent == /\ \A k \in 1..Len(st.ord) : st.rs[st.ord[k]].en /\ ~st.rs[st.ord[k]].freed
                 /\ \A i \in 1..Len(st.rs) : st.rs[i].en => \E k \in 1..Len(st.ord) : st.ord[k] = i
                 /\ \A j, k \in 1..Len(st.ord) : j # k => st.ord[j] # st.ord[k]
\* prefix is not a match; wildcards stay within a part
NoPrefixMatch == [][\A k \in 1..Len(last') : st.rs[last'[k].r].path = AB => op'.m.a # A]_vars
=============================================================================
