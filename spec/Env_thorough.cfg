SPECIFICATION Spec
CONSTANTS
  Levels <- LevelsT
  Times <- TimesT
  Curves <- CurvesT
  MaxSeg = 2
  MaxPts = 1
  QTicks = {0, 8, 24, 65, 200}
INVARIANT FormatWellFormed
INVARIANT NodesEncoded
INVARIANT WrapLaw
INVARIANT ConstructorNodes
INVARIANT PointsSorted
INVARIANT AtLaws
INVARIANT WalkRefines
