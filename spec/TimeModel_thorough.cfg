SPECIFICATION Spec
CONSTANTS
  U = 8
  MaxLenS = 2
  MaxLenT = 3
INVARIANT RtEqualsNrt
INVARIANT NrtMonotone
INVARIANT NoBad
