SPECIFICATION Spec
CONSTANTS
  Window <- WindowQ
  Quanta <- QuantaQ
INVARIANT LiftAccepts
INVARIANT LiftRejects
INVARIANT WrapMeets
INVARIANT WrapLength
INVARIANT Symmetric
INVARIANT KernelLaws
INVARIANT CallAccepts
INVARIANT CallPoolLaws
