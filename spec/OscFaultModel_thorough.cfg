SPECIFICATION Spec
CONSTANTS
  NFaults = 2
  MaxWrap = 40
  Emitting = FALSE
INVARIANT DecTotal
INVARIANT UnalignedIsBad
INVARIANT ValidStaysValid
