SPECIFICATION Spec
CONSTANTS
  NFaults = 2
  Emitting = FALSE
INVARIANT DecTotal
INVARIANT UnalignedIsBad
INVARIANT ValidStaysValid
