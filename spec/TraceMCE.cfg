SPECIFICATION TSpec
