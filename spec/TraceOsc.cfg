SPECIFICATION TSpec
