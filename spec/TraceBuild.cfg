SPECIFICATION TSpec
