------------------------------- MODULE Ops -------------------------------
(* C15: (i) the lifting law - an operator applied to functions, streams, patterns, lists,
   operands builds an object whose evaluation is the numeric kernel applied to the evaluated
   operands with the structure prescribed per operand kind; (ii) range / inverse laws of the
   numeric kernels on an exact lattice.

   (i) The kernel K is not interpreted here: the law is uniformity.  An evaluated operand is a
   tree of leaves (node array, root = node 1); leaf x of operand A and leaf y of operand B meet
   in K(x, y), which the binding supplies as a table tab[x][y] obtained by calling the real
   numeric kernel on plain numbers.  What this module defines is *which* leaves must meet and
   what shape the result has:
     scalar  (number, operand, rest)          : K(a, b)
     wrap    (lists, channel lists, tuples)   : element-wise, the shorter list wraps around,
                                                recursively; a leaf is broadcast
     point   (functions)                      : (f op g)(p) = K(f(p), g(p)) at every sample point
     short   (streams, patterns)              : next(s op t) = K(next(s), next(t)) until the
                                                shorter ends; a number never ends
     same    (one stream on both sides)       : the left operand is drawn first (a pattern on both
                                                sides makes two independent streams: short)
   An exception raised by the kernel for a pair that must meet has to surface with the same
   class: for eagerly evaluated structures (scalar, wrap) as the outcome of the composition,
   for lazily evaluated ones (point, short, same) at that point / element.

   (ii) Kernel laws are stated over integers in units of 1/8 (the lattice), decided with
   integer arithmetic.                                                                     *)
EXTENDS Integers, Sequences, FiniteSets, TLC

Max2(a, b) == IF a > b THEN a ELSE b
Min2(a, b) == IF a < b THEN a ELSE b
AbsI(x) == IF x < 0 THEN 0 - x ELSE x

(* ------------------------------ trees ------------------------------ *)
Leaf(x) == [k |-> "leaf", x |-> x, c |-> <<>>]
Lst(c) == [k |-> "list", x |-> 0, c |-> c]
IsLeaf(T, n) == T[n].k = "leaf"
WrapIx(k, len) == ((k - 1) % len) + 1
Scalars == {"num", "opd", "rest"}
Lazy == {"strm", "pat"}

Mode(ka, kb) ==
    IF kb = "same" /\ ka = "strm" THEN "same"
    ELSE IF ka \in Scalars /\ kb \in Scalars THEN "scalar"
    ELSE IF {ka, kb} \subseteq {"list", "num"} THEN "wrap"
    ELSE IF {ka, kb} \subseteq {"fn", "num"} THEN "point"
    ELSE IF {ka, kb} \subseteq (Lazy \cup {"num"}) THEN "short"
    ELSE "undefined"

\* pairs of leaves that meet under the wrap law
RECURSIVE ReqWrap(_, _, _, _)
ReqWrap(A, a, B, b) ==
    IF IsLeaf(A, a) /\ IsLeaf(B, b) THEN {<<A[a].x, B[b].x>>}
    ELSE IF IsLeaf(B, b) THEN UNION {ReqWrap(A, A[a].c[k], B, b) : k \in 1..Len(A[a].c)}
    ELSE IF IsLeaf(A, a) THEN UNION {ReqWrap(A, a, B, B[b].c[k]) : k \in 1..Len(B[b].c)}
    ELSE LET la == Len(A[a].c)
             lb == Len(B[b].c)
         IN IF la = 0 \/ lb = 0 THEN {}
            ELSE UNION {ReqWrap(A, A[a].c[WrapIx(k, la)], B, B[b].c[WrapIx(k, lb)]) : k \in 1..Max2(la, lb)}
\* length of the result list of two nodes under the wrap law
WrapLen(A, a, B, b) ==
    IF IsLeaf(B, b) THEN Len(A[a].c)
    ELSE IF IsLeaf(A, a) THEN Len(B[b].c)
    ELSE IF Len(A[a].c) = 0 \/ Len(B[b].c) = 0 THEN 0 ELSE Max2(Len(A[a].c), Len(B[b].c))
\* observed tree O (leaves carry values O[n].v = [x, s]) against the wrap law; "ok" or the first reason
RECURSIVE MatchWrap(_, _, _, _, _, _, _)
MatchWrap(O, o, A, a, B, b, tab) ==
    IF IsLeaf(A, a) /\ IsLeaf(B, b)
    THEN (IF ~IsLeaf(O, o) THEN "shape:list-for-leaf"
          ELSE IF O[o].v # tab[A[a].x][B[b].x] THEN "value" ELSE "ok")
    ELSE IF IsLeaf(O, o) THEN "shape:leaf-for-list"
    ELSE LET n == WrapLen(A, a, B, b) IN
         IF Len(O[o].c) # n THEN "shape:length"
         ELSE LET sub(k) == MatchWrap(O, O[o].c[k],
                                      A, IF IsLeaf(A, a) THEN a ELSE A[a].c[WrapIx(k, Len(A[a].c))],
                                      B, IF IsLeaf(B, b) THEN b ELSE B[b].c[WrapIx(k, Len(B[b].c))], tab)
                  bad == {k \in 1..n : sub(k) # "ok"}
              IN IF bad = {} THEN "ok" ELSE sub(CHOOSE k \in bad : \A j \in bad : k <= j)

IsExc(v) == v.x = 1
\* flat operands (functions, streams, patterns): the root is a list of leaves (or a single leaf = number)
FlatLen(T) == IF IsLeaf(T, 1) THEN 0 - 1 ELSE Len(T[1].c)          \* -1 = broadcast / never ends
FlatIx(T, p) == IF IsLeaf(T, 1) THEN T[1].x ELSE T[T[1].c[p]].x
FlatOK(T) == IsLeaf(T, 1) \/ \A k \in 1..Len(T[1].c) : IsLeaf(T, T[1].c[k])

\* stopx: the evaluation cannot continue past a raising element (a generator): the result ends there
MatchFlat(O, n0, ix(_), jx(_), tab, stopx) ==
    LET xs == {p \in 1..n0 : IsExc(tab[ix(p)][jx(p)])}
        n == IF stopx = 1 /\ xs # {} THEN CHOOSE p \in xs : \A q \in xs : p <= q ELSE n0 IN
    IF IsLeaf(O, 1) THEN (IF IsExc(O[1].v) THEN "raised:" \o O[1].v.s ELSE "shape:leaf-for-list")
    ELSE IF Len(O[1].c) # n THEN "shape:length"
    ELSE IF \E p \in 1..n : ~IsLeaf(O, O[1].c[p]) THEN "shape:nested"
    ELSE IF \E p \in 1..n : O[O[1].c[p]].v # tab[ix(p)][jx(p)] THEN "value"
    ELSE "ok"

LiftWhy(ka, A, kb, B, tab, O, stopx) ==
    LET m == Mode(ka, kb) IN
    CASE m = "scalar" ->
            (IF ~IsLeaf(O, 1) THEN "shape:list-for-leaf"
             ELSE IF O[1].v = tab[A[1].x][B[1].x] THEN "ok"
             ELSE IF IsExc(O[1].v) THEN "raised:" \o O[1].v.s ELSE "value")
      [] m = "wrap" ->
            LET req == ReqWrap(A, 1, B, 1)
                excs == {tab[p[1]][p[2]] : p \in {q \in req : IsExc(tab[q[1]][q[2]])}}
            IN IF excs # {} THEN (IF IsLeaf(O, 1) /\ O[1].v \in excs THEN "ok"
                                  ELSE IF IsLeaf(O, 1) /\ IsExc(O[1].v) THEN "raised:" \o O[1].v.s ELSE "exception-expected")
               ELSE IF IsLeaf(O, 1) /\ IsExc(O[1].v) THEN "raised:" \o O[1].v.s
               ELSE MatchWrap(O, 1, A, 1, B, 1, tab)
      [] m = "point" ->
            IF ~FlatOK(A) \/ ~FlatOK(B) THEN "bad-operand"
            ELSE LET n == Max2(FlatLen(A), FlatLen(B)) IN
                 IF (FlatLen(A) >= 0 /\ FlatLen(A) # n) \/ (FlatLen(B) >= 0 /\ FlatLen(B) # n) THEN "bad-operand"
                 ELSE MatchFlat(O, n, LAMBDA p : FlatIx(A, p), LAMBDA p : FlatIx(B, p), tab, stopx)
      [] m = "short" ->
            IF ~FlatOK(A) \/ ~FlatOK(B) \/ (FlatLen(A) < 0 /\ FlatLen(B) < 0) THEN "bad-operand"
            ELSE LET n == IF FlatLen(A) < 0 THEN FlatLen(B)
                          ELSE IF FlatLen(B) < 0 THEN FlatLen(A) ELSE Min2(FlatLen(A), FlatLen(B)) IN
                 MatchFlat(O, n, LAMBDA p : FlatIx(A, p), LAMBDA p : FlatIx(B, p), tab, stopx)
      [] m = "same" ->
            IF ~FlatOK(A) \/ FlatLen(A) < 0 THEN "bad-operand"
            ELSE MatchFlat(O, FlatLen(A) \div 2, LAMBDA p : FlatIx(A, 2 * p - 1), LAMBDA p : FlatIx(A, 2 * p), tab, stopx)
      [] OTHER -> "undefined-kinds"

(* ------------------------------ lazily evaluated compositions: operational law ------------------
   Operands per argument position: ops[k] = [k |-> kind, n |-> number of elements, sid |-> identity].
     "num"          a plain number (one leaf)
     "fn"           a Function: inside a lazily evaluated composition it is a constant whose value is a
                    function; the composed elements are then functions, evaluated at NPOINTS sample points
     "pat"          a Pattern: every traversal (every stream made from the composed pattern, every
                    embedding, every repetition) starts it afresh
     "strm", "rout" a Stream / Routine object: stateful, shared by everything that refers to the same object
                    (same sid); what one traversal has drawn is gone for the next
   The composed object is a pattern when the operand that receives the operator (the first one that is not
   a number) is a pattern; otherwise it is a stream and pattern arguments are streamed once, when the
   composition is built.  One next() of a traversal draws one element from every operand, left to right
   (next(s op t) = next(s) op next(t)); the traversal ends at the first operand that has none left; elements
   drawn before in that step are lost.  The kernel is a table over leaf indices, flattened with the first
   operand fastest.  Laws (how the composed object is traversed):
     "once"   one traversal (stream of it, embedding of it, nested in a list pattern)
     "tail"   nested in a list pattern followed by a marker item
     "twice"  two traversals one after the other (repeated by the enclosing pattern)
     "inter"  two traversals alternating call by call (two streams of one pattern)
   gen: the traversal runs through a generator (embedding): an element that raises ends it.
   An observation is the sequence of outcomes of every next() until the end(s): values (or lists of values at
   the sample points), then the end marker.                                                          *)
StatefulK == {"strm", "rout"}
LazyK == StatefulK \cup {"pat"}
NPOINTS == 3
EndV == [x |-> 2, s |-> "end"]
\* the marker item that follows the composition in a list pattern tells the input value it was asked with
MarkV(iv) == [x |-> 3, s |-> iv]
\* input values: the j-th next() of an observation is called with input value Inv(invs, j) (an identifier; 0 = none)
Inv(invs, j) == invs[((j - 1) % Len(invs)) + 1]
NInv(invs) == LET S == {invs[i] : i \in 1..Len(invs)} IN CHOOSE x \in S : \A y \in S : y <= x
\* equality of values / outcomes that never compares texts of different categories (x: 0 value, 1 exception, 2 end, 3 marker)
ValEq(a, b) == IF a.x # b.x THEN FALSE ELSE a.s = b.s
OutEq(a, b) == /\ ValEq(a.v, b.v) /\ Len(a.c) = Len(b.c) /\ \A p \in 1..Len(a.c) : ValEq(a.c[p], b.c[p])
SeqOutEq(A, B) == Len(A) = Len(B) /\ \A i \in 1..Len(A) : OutEq(A[i], B[i])
FnV == [x |-> 0, s |-> "fn"]
Outc(v, c) == [v |-> v, c |-> c]
RECURSIVE Prod(_, _)
Prod(d, k) == IF k > Len(d) THEN 1 ELSE d[k] * Prod(d, k + 1)
RECURSIVE Flat0(_, _, _)
Flat0(ix, d, k) == IF k > Len(ix) THEN 0 ELSE (ix[k] - 1) + d[k] * Flat0(ix, d, k + 1)
Flat(ix, d) == Flat0(ix, d, 1) + 1
\* an operand with rd = TRUE computes its element from the input value of the step (Pfunc, Pkey, FunctionStream ...): its
\* leaves are indexed by the input value identifiers 1..ni; n still says after how many elements it ends (99: never)
Reads(ops, k) == ops[k].k \in {"pat", "strm", "rout"} /\ ops[k].rd
Dims(ops, ni) == [k \in 1..Len(ops) |-> IF ops[k].k = "num" THEN 1 ELSE IF ops[k].k = "fn" THEN NPOINTS
                                         ELSE IF Reads(ops, k) THEN ni ELSE ops[k].n]
Dispatcher(ops) ==
    IF \A k \in 1..Len(ops) : ops[k].k = "num" THEN 0
    ELSE CHOOSE k \in 1..Len(ops) : ops[k].k # "num" /\ \A j \in 1..(k - 1) : ops[j].k = "num"
\* defined: the receiving operand is lazily evaluated; only binary operators have a reflected form
LazyDefined(ops) ==
    /\ Len(ops) >= 1 /\ Dispatcher(ops) # 0 /\ ops[Dispatcher(ops)].k \in LazyK
    /\ (Len(ops) # 2 => Dispatcher(ops) = 1)
    /\ \A j, k \in 1..Len(ops) : (ops[j].k \in StatefulK /\ ops[k].k \in StatefulK /\ ops[j].sid = ops[k].sid) => ops[j].n = ops[k].n
PerTraversal(ops, k) == ops[k].k = "pat" /\ ops[Dispatcher(ops)].k = "pat"
Cursor(ops, k) == IF ops[k].k \in StatefulK THEN ops[k].sid ELSE 100 + k     \* a pattern streamed at composition
Cursors(ops) == {Cursor(ops, k) : k \in {j \in 1..Len(ops) : ops[j].k \in LazyK /\ ~PerTraversal(ops, j)}}
Cur0(ops) == [c \in Cursors(ops) |-> 0]

\* one step of a traversal that has completed c steps: indices drawn, or the end
\* (iv: the input value of this next(): it reaches EVERY operand that reads it, at every step, however the
\*  composition is traversed - streamed, embedded, nested, repeated)
RECURSIVE Draw(_, _, _, _, _, _)
Draw(ops, k, cur, c, ix, iv) ==
    IF k > Len(ops) THEN [ok |-> TRUE, cur |-> cur, ix |-> ix]
    ELSE IF ops[k].k \in {"num", "fn"} THEN Draw(ops, k + 1, cur, c, Append(ix, 1), iv)
    ELSE IF PerTraversal(ops, k)
         THEN (IF c + 1 > ops[k].n THEN [ok |-> FALSE, cur |-> cur, ix |-> ix]
               ELSE Draw(ops, k + 1, cur, c, Append(ix, IF Reads(ops, k) THEN iv ELSE c + 1), iv))
    ELSE LET s == Cursor(ops, k) IN
         IF cur[s] + 1 > ops[k].n THEN [ok |-> FALSE, cur |-> cur, ix |-> ix]
         ELSE Draw(ops, k + 1, [cur EXCEPT ![s] = @ + 1], c, Append(ix, IF Reads(ops, k) THEN iv ELSE cur[s] + 1), iv)
Element(ops, ix, tab, ni) ==
    LET d == Dims(ops, ni)
        fns == {k \in 1..Len(ops) : ops[k].k = "fn"} IN
    IF fns = {} THEN Outc(tab[Flat(ix, d)], <<>>)
    ELSE Outc(FnV, [p \in 1..NPOINTS |-> tab[Flat([k \in 1..Len(ix) |-> IF k \in fns THEN p ELSE ix[k]], d)]])
Dies(e, gen) == gen /\ e.c = <<>> /\ e.v.x = 1
\* one next() of a traversal t = [c, st]; st: "alive", "dying" (its generator raised), "dead"
Call(ops, tab, cur, t, gen, iv, ni) ==
    IF t.st = "dying" THEN [out |-> Outc(EndV, <<>>), cur |-> cur, t |-> [c |-> t.c, st |-> "dead"]]
    ELSE LET d == Draw(ops, 1, cur, t.c, <<>>, iv) IN
         IF ~d.ok THEN [out |-> Outc(EndV, <<>>), cur |-> d.cur, t |-> [c |-> t.c, st |-> "dead"]]
         ELSE LET e == Element(ops, d.ix, tab, ni) IN
              [out |-> e, cur |-> d.cur, t |-> [c |-> t.c + 1, st |-> IF Dies(e, gen) THEN "dying" ELSE "alive"]]
Fresh0 == [c |-> 0, st |-> "alive"]
\* a whole traversal: outcomes without the end marker, the cursors afterwards, whether it was ended by an exception
\* (j: the number of the next() call that produces the next outcome; a traversal that ends inside call j hands the
\*  input value of call j on, so whatever follows it in the enclosing pattern starts with that same input value)
RECURSIVE RunOne(_, _, _, _, _, _, _, _)
RunOne(ops, tab, cur, t, gen, fuel, j, invs) ==
    IF fuel = 0 THEN [outs |-> <<>>, cur |-> cur, died |-> FALSE]
    ELSE LET r == Call(ops, tab, cur, t, gen, Inv(invs, j), NInv(invs)) IN
         IF r.t.st = "dead" THEN [outs |-> <<>>, cur |-> r.cur, died |-> t.st = "dying"]
         ELSE LET rest == RunOne(ops, tab, r.cur, r.t, gen, fuel - 1, j + 1, invs) IN
              [outs |-> <<r.out>> \o rest.outs, cur |-> rest.cur, died |-> rest.died]
RECURSIVE RunInter(_, _, _, _, _, _, _, _, _, _)
RunInter(ops, tab, cur, t1, t2, turn, gen, fuel, j, invs) ==
    IF (t1.st = "dead" /\ t2.st = "dead") \/ fuel = 0 THEN <<>>
    ELSE LET who == IF turn = 1 THEN (IF t1.st = "dead" THEN 2 ELSE 1) ELSE (IF t2.st = "dead" THEN 1 ELSE 2)
             r == Call(ops, tab, cur, IF who = 1 THEN t1 ELSE t2, gen, Inv(invs, j), NInv(invs))
         IN <<r.out>> \o RunInter(ops, tab, r.cur, IF who = 1 THEN r.t ELSE t1, IF who = 2 THEN r.t ELSE t2,
                                  3 - who, gen, fuel - 1, j + 1, invs)
\* the first k calls of a traversal, whatever they answer (a stream that has ended is simply asked again)
RECURSIVE RunN(_, _, _, _, _, _, _)
RunN(ops, tab, cur, t, k, j, invs) ==
    IF k = 0 THEN [outs |-> <<>>, cur |-> cur]
    ELSE LET r == Call(ops, tab, cur, [c |-> t.c, st |-> "alive"], FALSE, Inv(invs, j), NInv(invs))
             rest == RunN(ops, tab, r.cur, r.t, k - 1, j + 1, invs) IN
         [outs |-> <<r.out>> \o rest.outs, cur |-> rest.cur]
\* reset() of the stream of a composition (the composed stream itself, or the stream made from a composed pattern, which
\* is a composed stream over the streams of its operands) restores EVERY operand stream to its start: afterwards it
\* answers like a fresh one
ResetAfter(law) == IF law = "reset1" THEN 1 ELSE 2
AfterReset(ops, cur) == Cur0(ops)
FUEL == 40
EndO == Outc(EndV, <<>>)
LazyExpected(ops, tab, law, gen, invs) ==
    LET r1 == RunOne(ops, tab, Cur0(ops), Fresh0, gen, FUEL, 1, invs)
        n1 == Len(r1.outs) IN
    CASE law = "once" -> r1.outs \o <<EndO>>
      [] law = "tail" -> r1.outs \o (IF r1.died THEN <<>> ELSE <<Outc(MarkV(Inv(invs, n1 + 1)), <<>>)>>) \o <<EndO>>
      [] law = "twice" -> r1.outs \o (IF r1.died THEN <<>> ELSE RunOne(ops, tab, r1.cur, Fresh0, gen, FUEL, n1 + 1, invs).outs)
                          \o <<EndO>>
      [] law = "inter" -> RunInter(ops, tab, Cur0(ops), Fresh0, Fresh0, 1, gen, 2 * FUEL, 1, invs)
      [] law \in {"reset1", "reset2"} ->
            LET k == ResetAfter(law)
                before == RunN(ops, tab, Cur0(ops), Fresh0, k, 1, invs) IN
            before.outs \o RunOne(ops, tab, AfterReset(ops, before.cur), Fresh0, gen, FUEL, k + 1, invs).outs \o <<EndO>>
LazyWhy(ops, tab, law, gen, O, invs) ==
    IF ~LazyDefined(ops) THEN "lazy:undefined-kinds"
    ELSE IF Len(tab) # Prod(Dims(ops, NInv(invs)), 1) THEN "lazy:bad-table"
    ELSE LET E == LazyExpected(ops, tab, law, gen, invs)
             n == Min2(Len(E), Len(O))
             bad == {i \in 1..n : ~OutEq(E[i], O[i])} IN
         IF bad = {} THEN (IF Len(O) < Len(E) THEN "lazy:ends-early" ELSE IF Len(O) > Len(E) THEN "lazy:too-long" ELSE "ok")
         ELSE LET i == CHOOSE x \in bad : \A y \in bad : x <= y IN
              IF O[i].v.x = 2 THEN "lazy:ends-early"
              ELSE IF E[i].v.x = 2 THEN "lazy:too-long"
              ELSE IF O[i].v.x = 1 /\ O[i].c = <<>> /\ E[i].v.x # 1 THEN "lazy:raised:" \o O[i].v.s
              ELSE IF (O[i].c = <<>>) # (E[i].c = <<>>) THEN "lazy:element-kind"
              ELSE IF E[i].v.x = 3 /\ O[i].v.x = 3 THEN "lazy:input-value-handed-on"
              ELSE "lazy:value"

(* ------------------------------ functions: the call shape ------------------------------------------
   (f op g)(call) = f(call) op g(call) for EVERY way of calling the composed function.  A call is
   [pos |-> values given positionally, kw |-> <<[n |-> name, v |-> value], ...>>]; an operand function with
   parameter names sig (all with defaults) binds the positional values to its first parameters and, of the
   keywords, only those it has - a function never sees a keyword it does not declare, and every operand of a
   composite, at any depth, is called with the same call.  Values are identified by integers.
   The kernel (or, for composites of composites, the numeric expression) is a table over every tuple of calls,
   one per base function, first fastest; the law picks the diagonal.                                   *)
Binding(sig, c) ==
    {<<sig[i], c.pos[i]>> : i \in 1..Min2(Len(sig), Len(c.pos))}
    \cup {<<c.kw[j].n, c.kw[j].v>> : j \in {i \in 1..Len(c.kw) : \E q \in 1..Len(sig) : sig[q] = c.kw[i].n}}
\* a call is well formed for a function when no parameter is bound twice
CallValid(sig, c) ==
    /\ \A i, j \in 1..Len(c.kw) : i # j => c.kw[i].n # c.kw[j].n
    /\ \A i \in 1..Min2(Len(sig), Len(c.pos)) : \A j \in 1..Len(c.kw) : c.kw[j].n # sig[i]
CallShape(sigs, c) ==
    LET known == UNION {{sigs[k][i] : i \in 1..Len(sigs[k])} : k \in 1..Len(sigs)}
        extra == \E j \in 1..Len(c.kw) : c.kw[j].n \notin known IN
    IF extra THEN "extra"
    ELSE IF Len(c.pos) = 0 /\ Len(c.kw) = 0 THEN "none"
    ELSE IF Len(c.kw) = 0 THEN "pos" ELSE IF Len(c.pos) = 0 THEN "kw" ELSE "mixed"
Diag(c, nb) == [k \in 1..nb |-> c]
\* leaves[k][c]: base function k evaluated alone with call c; O[c]: the composed function called with call c
CallWhy(sigs, calls, leaves, tab, O) ==
    LET nb == Len(sigs)
        nc == Len(calls)
        d == [k \in 1..nb |-> nc] IN
    IF \E k \in 1..nb, c \in 1..nc : ~CallValid(sigs[k], calls[c]) THEN "call:ill-formed-case"
    ELSE IF Len(tab) # Prod(d, 1) \/ Len(O) # nc THEN "call:bad-table"
    \* a function's value depends only on what the call binds of its own parameters
    ELSE IF \E k \in 1..nb, c1, c2 \in 1..nc :
               Binding(sigs[k], calls[c1]) = Binding(sigs[k], calls[c2]) /\ ~ValEq(leaves[k][c1], leaves[k][c2])
         THEN "call:operand-sees-foreign-arguments"
    ELSE LET bad == {c \in 1..nc : ~ValEq(O[c], tab[Flat(Diag(c, nb), d)])} IN
         IF bad = {} THEN "ok"
         ELSE LET c == CHOOSE x \in bad : \A y \in bad : x <= y IN
              "call:" \o CallShape(sigs, calls[c]) \o (IF O[c].x = 1 /\ tab[Flat(Diag(c, nb), d)].x # 1 THEN ":raised:" \o O[c].s ELSE ":value")

(* ------------------------------ kernel laws (units of 1/8) ------------------------------ *)
\* reference kernels (integer arithmetic; x, lo, hi, q, m in lattice units)
RefMod(a, m) == a % m                                   \* TLA+ % is the non-negative remainder for m > 0
RefWrapF(x, lo, hi) == IF hi = lo THEN lo ELSE lo + ((x - lo) % (hi - lo))
RefWrapI(x, lo, hi) == lo + ((x - lo) % (hi - lo + 8))  \* integers: closed range, 8 units = 1
RefFold(x, lo, hi) ==
    IF hi = lo THEN lo
    ELSE LET r == hi - lo
             c == (x - lo) % (2 * r)
         IN lo + (IF c > r THEN 2 * r - c ELSE c)
RefClip(x, lo, hi) == Max2(Min2(x, hi), lo)
RefTrunc(x, q) == IF q = 0 THEN x ELSE x - (x % q)
RefRoundup(x, q) == IF q = 0 THEN x ELSE IF x % q = 0 THEN x ELSE x - (x % q) + q
RefRound(x, q) == IF q = 0 THEN x ELSE RefTrunc(2 * x + q, 2 * q) \div 2

\* closed: an integer first argument wraps in the closed range (documented integer behaviour)
WrapLaw(x, lo, hi, r, closed) ==
    IF lo = hi THEN r = lo
    ELSE IF closed THEN lo <= r /\ r <= hi
    ELSE lo <= r /\ r < hi
FoldLaw(x, lo, hi, r) == lo <= r /\ r <= hi
ClipIdem(r1, r2) == r2 = r1
ClipBounds(lo, hi, r) == lo <= r /\ r <= hi
RoundLaw(x, q, r) == IF q = 0 THEN r = x ELSE r % q = 0 /\ 2 * AbsI(r - x) <= q
RoundupLaw(x, q, r) == IF q = 0 THEN r = x ELSE r % q = 0 /\ x <= r /\ r - x < q
TruncLaw(x, q, r) == IF q = 0 THEN r = x ELSE r % q = 0 /\ r <= x /\ x - r < q
ModLaw(a, m, r) == 0 <= r /\ r < m /\ (a - r) % m = 0

\* is (r, r2) an allowed outcome of kernel fn on lattice arguments a (sequence of [t, v])?
RangeWhy(fn, a, r, r2) ==
    LET allint == a[1].t = "i"
        x == a[1].v IN
    IF r.k # "ok" THEN "raised"
    ELSE IF r.ex # 1 THEN "off-lattice-result"
    ELSE CASE fn = "wrap" -> (IF WrapLaw(x, a[2].v, a[3].v, r.v, allint) THEN "ok" ELSE "wrap-bounds")
           [] fn = "fold" -> (IF FoldLaw(x, a[2].v, a[3].v, r.v) THEN "ok" ELSE "fold-bounds")
           [] fn = "wrap2" -> (IF WrapLaw(x, 0 - a[2].v, a[2].v, r.v, allint) THEN "ok" ELSE "wrap2-bounds")
           [] fn = "fold2" -> (IF FoldLaw(x, 0 - a[2].v, a[2].v, r.v) THEN "ok" ELSE "fold2-bounds")
           [] fn = "clip" ->
                (IF r2.k # "ok" \/ r2.ex # 1 \/ ~ClipIdem(r.v, r2.v) THEN "clip-idempotent"
                 \* bounds are judged where they are representable in the type of x
                 ELSE IF (a[1].t = "f" \/ (a[2].v % 8 = 0 /\ a[3].v % 8 = 0)) /\ ~ClipBounds(a[2].v, a[3].v, r.v)
                      THEN "clip-bounds" ELSE "ok")
           [] fn = "round" -> (IF RoundLaw(x, a[2].v, r.v) THEN "ok" ELSE "round-multiple-nearest")
           [] fn = "roundup" -> (IF RoundupLaw(x, a[2].v, r.v) THEN "ok" ELSE "roundup-multiple-above")
           [] fn = "trunc" -> (IF TruncLaw(x, a[2].v, r.v) THEN "ok" ELSE "trunc-multiple-below")
           [] fn = "mod" -> (IF ModLaw(x, a[2].v, r.v) THEN "ok" ELSE "mod-range")
           [] OTHER -> "unknown-kernel"

(* inverse pairs at the points where both directions are exact; values in fixed point 2^16 (floor),
   1 unit of slack for the floor.  k is the octave / decade index.                                  *)
F16 == 65536
RECURSIVE Pow(_, _)
Pow(b, n) == IF n = 0 THEN 1 ELSE b * Pow(b, n - 1)
\* floor(c * b^k * 2^16) for integer k of either sign
Scaled(c, b, k) == IF k >= 0 THEN c * Pow(b, k) * F16 ELSE (c * F16) \div Pow(b, 0 - k)
Near(a, b) == AbsI(a - b) <= 1
\* <<point, value>> of the forward function fn at index k, both in fixed point
InvPoint(fn, k) ==
    CASE fn = "midicps"   -> <<(69 + 12 * k) * F16, Scaled(440, 2, k)>>
      [] fn = "cpsmidi"   -> <<Scaled(440, 2, k), (69 + 12 * k) * F16>>
      [] fn = "midiratio" -> <<12 * k * F16, Scaled(1, 2, k)>>
      [] fn = "ratiomidi" -> <<Scaled(1, 2, k), 12 * k * F16>>
      [] fn = "octcps"    -> <<(19 + 4 * k) * (F16 \div 4), Scaled(440, 2, k)>>       \* 4.75 + k
      [] fn = "cpsoct"    -> <<Scaled(440, 2, k), (19 + 4 * k) * (F16 \div 4)>>
      [] fn = "dbamp"     -> <<20 * k * F16, Scaled(1, 10, k)>>
      [] fn = "ampdb"     -> <<Scaled(1, 10, k), 20 * k * F16>>
InvWhy(fn, k, r, rt) ==
    LET pv == InvPoint(fn, k) IN
    IF r.k # "ok" \/ rt.k # "ok" THEN "raised"
    ELSE IF ~Near(r.v, pv[2]) THEN "value"
    ELSE IF ~Near(rt.v, pv[1]) THEN "round-trip"
    ELSE "ok"

(* ============================== design model ==============================
   (a) the lifting structure on sample trees with the free kernel K(x, y) = <<x, y>>:
       the result prescribed by the law, built bottom-up, is accepted by the matcher, has the
       prescribed size, and is symmetric under exchanging the operands;
   (b) the reference kernels satisfy the range laws on the whole lattice window.          *)
CONSTANTS Window, Quanta
WindowQ == (0 - 8)..8
QuantaQ == {0, 1, 2, 3, 4, 8, 12}
WindowT == (0 - 32)..32
QuantaT == {0, 1, 2, 3, 4, 5, 8, 12, 16, 20}
WindowS == {0}
QuantaS == {0}
VARIABLES phase, ca, cb, ka, kb, args

vars == <<phase, ca, cb, ka, kb, args>>
\* sample trees as node arrays (leaf ids in preorder)
T0 == <<Leaf(1)>>
T1 == <<Lst(<<2>>), Leaf(1)>>
T2 == <<Lst(<<2, 3>>), Leaf(1), Leaf(2)>>
T3 == <<Lst(<<2, 3, 4>>), Leaf(1), Leaf(2), Leaf(3)>>
T4 == <<Lst(<<2, 5>>), Lst(<<3, 4>>), Leaf(1), Leaf(2), Leaf(3)>>                       \* [[1,2],3]
T5 == <<Lst(<<2, 3>>), Leaf(1), Lst(<<4, 5, 6>>), Leaf(2), Leaf(3), Leaf(4)>>           \* [1,[2,3,4]]
T6 == <<Lst(<<2, 4>>), Lst(<<3>>), Leaf(1), Lst(<<5, 6>>), Leaf(2), Leaf(3)>>           \* [[1],[2,3]]
T7 == <<Lst(<<2, 7>>), Lst(<<3, 4>>), Leaf(1), Lst(<<5, 6>>), Leaf(2), Leaf(3), Leaf(4)>> \* [[1,[2,3]],4]
T8 == <<Lst(<<>>)>>
Trees == {T0, T1, T2, T3, T4, T5, T6, T7, T8}
FlatTrees == {T0, T1, T2, T3}
NLeaves(T) == Cardinality({n \in 1..Len(T) : IsLeaf(T, n)})
FreeTab(A, B) == [x \in 1..Max2(NLeaves(A), 1) |-> [y \in 1..Max2(NLeaves(B), 1) |-> [x |-> 0, s |-> <<x, y>>]]]

\* the result the wrap law prescribes, as a nested value: leaf = <<"v", value>>, list = <<"l", seq>>
RECURSIVE Zip(_, _, _, _, _)
Zip(A, a, B, b, tab) ==
    IF IsLeaf(A, a) /\ IsLeaf(B, b) THEN <<"v", tab[A[a].x][B[b].x]>>
    ELSE <<"l", [k \in 1..WrapLen(A, a, B, b) |->
                  Zip(A, IF IsLeaf(A, a) THEN a ELSE A[a].c[WrapIx(k, Len(A[a].c))],
                      B, IF IsLeaf(B, b) THEN b ELSE B[b].c[WrapIx(k, Len(B[b].c))], tab)]>>
\* nested value -> node array (preorder), so that the matcher can be run on the prescribed result
RECURSIVE Size(_)
Size(v) == IF v[1] = "v" THEN 1
           ELSE LET s[k \in 0..Len(v[2])] == IF k = 0 THEN 1 ELSE s[k - 1] + Size(v[2][k]) IN s[Len(v[2])]
RECURSIVE Flatten(_, _)
Flatten(v, at) ==      \* nodes of v placed from index `at`
    IF v[1] = "v" THEN <<[k |-> "leaf", v |-> v[2], c |-> <<>>]>>
    ELSE LET n == Len(v[2])
             start[k \in 1..n] == IF k = 1 THEN at + 1 ELSE start[k - 1] + Size(v[2][k - 1])
             RECURSIVE cat(_)
             cat(k) == IF k > n THEN <<>> ELSE Flatten(v[2][k], start[k]) \o cat(k + 1)
         IN <<[k |-> "list", v |-> [x |-> 0, s |-> <<>>], c |-> [k \in 1..n |-> start[k]]]>> \o cat(1)
RECURSIVE CountLeaves(_)
CountLeaves(v) == IF v[1] = "v" THEN 1
                  ELSE LET s[k \in 0..Len(v[2])] == IF k = 0 THEN 0 ELSE s[k - 1] + CountLeaves(v[2][k]) IN s[Len(v[2])]
RECURSIVE Mirror(_)
Mirror(v) == IF v[1] = "v" THEN <<"v", [x |-> 0, s |-> <<v[2].s[2], v[2].s[1]>>]>>
             ELSE <<"l", [k \in 1..Len(v[2]) |-> Mirror(v[2][k])]>>

Init == phase = "start" /\ ca = T0 /\ cb = T0 /\ ka = "num" /\ kb = "num" /\ args = <<>>
PickList == /\ phase = "start"
            /\ \E A \in Trees, B \in Trees :
                 /\ ca' = A /\ cb' = B /\ phase' = "lift" /\ args' = <<>>
                 /\ ka' = (IF A = T0 THEN "num" ELSE "list") /\ kb' = (IF B = T0 THEN "num" ELSE "list")
PickFn == /\ phase = "start"
          /\ \E A \in FlatTrees \ {T0}, B \in FlatTrees : \E swap \in BOOLEAN :
               /\ (B = T0 \/ Len(B[1].c) = Len(A[1].c))
               /\ ca' = (IF swap THEN B ELSE A) /\ cb' = (IF swap THEN A ELSE B) /\ phase' = "lift" /\ args' = <<>>
               /\ ka' = (IF (IF swap THEN B ELSE A) = T0 THEN "num" ELSE "fn")
               /\ kb' = (IF (IF swap THEN A ELSE B) = T0 THEN "num" ELSE "fn")
PickStream == /\ phase = "start"
              /\ \E A \in FlatTrees \ {T0}, B \in FlatTrees, k1 \in Lazy, k2 \in Lazy : \E swap \in BOOLEAN :
                   /\ ca' = (IF swap THEN B ELSE A) /\ cb' = (IF swap THEN A ELSE B) /\ phase' = "lift" /\ args' = <<>>
                   /\ ka' = (IF (IF swap THEN B ELSE A) = T0 THEN "num" ELSE k1)
                   /\ kb' = (IF (IF swap THEN A ELSE B) = T0 THEN "num" ELSE k2)
PickScalar == /\ phase = "start"
              /\ \E k1 \in Scalars, k2 \in Scalars :
                   ca' = T0 /\ cb' = T0 /\ ka' = k1 /\ kb' = k2 /\ phase' = "lift" /\ args' = <<>>
PickSame == /\ phase = "start"
            /\ \E A \in FlatTrees \ {T0} :
                 ca' = A /\ cb' = A /\ ka' = "strm" /\ kb' = "same" /\ phase' = "lift" /\ args' = <<>>
\* lazily evaluated compositions: kinds per argument position (1..3 positions), lengths, one optional pair of
\* positions referring to the same stream object, traversal law, generator or not, kernel raising somewhere or not
LazyOpt == {[k |-> "num", n |-> 1, rd |-> FALSE], [k |-> "fn", n |-> NPOINTS, rd |-> FALSE]}
           \cup {[k |-> "pat", n |-> n, rd |-> FALSE] : n \in {2, 3}}
           \cup {[k |-> kk, n |-> n, rd |-> FALSE] : kk \in StatefulK, n \in {2, 4}}
\* operands that compute their element from the input value (never ending: n = 99), next to a few plain ones
LazyOptR == {[k |-> "pat", n |-> 99, rd |-> TRUE], [k |-> "pat", n |-> 2, rd |-> TRUE], [k |-> "strm", n |-> 99, rd |-> TRUE]}
LazyOptP == {[k |-> "num", n |-> 1, rd |-> FALSE], [k |-> "pat", n |-> 2, rd |-> FALSE], [k |-> "strm", n |-> 3, rd |-> FALSE]}
InvSeq == <<1, 2, 3, 2, 1, 3, 3, 1>>
EndsSomewhere(v) == \E k \in 1..Len(v) : v[k].k \in LazyK /\ v[k].n < 99
WithSid(v, sh) == [k \in 1..Len(v) |-> [k |-> v[k].k, n |-> v[k].n, rd |-> v[k].rd, sid |-> IF sh[2] = k THEN sh[1] ELSE k]]
Shares(v) == {<<0, 0>>} \cup {<<j, k>> \in (1..Len(v)) \X (1..Len(v)) : j < k /\ v[j].k \in StatefulK /\ v[j] = v[k]}
LawModes == {<<"once", FALSE>>, <<"once", TRUE>>, <<"tail", TRUE>>, <<"twice", TRUE>>, <<"inter", FALSE>>, <<"inter", TRUE>>,
             <<"reset1", FALSE>>, <<"reset2", FALSE>>}
ResetLaws == {"reset1", "reset2"}
PickLazy == /\ phase = "start"
            /\ \E m \in 1..3 : \E v \in [1..m -> LazyOpt] : \E sh \in Shares(v), lm \in LawModes, xv \in BOOLEAN :
                 /\ LazyDefined(WithSid(v, sh)) /\ (xv => m <= 2)       \* a raising kernel: arity does not matter
                 /\ args' = <<WithSid(v, sh), lm[1], lm[2], xv, <<0>>>> /\ phase' = "lazy" /\ UNCHANGED <<ca, cb, ka, kb>>
\* ... and with operands that read the input value, called with input values that change from call to call
PickLazyInput ==
    /\ phase = "start"
    /\ \E m \in 1..3 : \E v \in [1..m -> LazyOptR \cup LazyOptP] : \E lm \in LawModes, xv \in BOOLEAN :
         /\ \E k \in 1..m : v[k].rd
         /\ EndsSomewhere(v) /\ LazyDefined(WithSid(v, <<0, 0>>)) /\ (xv => m <= 2)
         /\ args' = <<WithSid(v, <<0, 0>>), lm[1], lm[2], xv, InvSeq>> /\ phase' = "lazy" /\ UNCHANGED <<ca, cb, ka, kb>>
\* call shapes: parameter lists of the base functions, a pool of calls, the way the composite is built
SigPool == {<<"p0">>, <<"p0", "a">>, <<"p0", "b">>, <<"p0", "a", "b">>}
SigPool_seq == <<<<"p0">>, <<"p0", "a">>, <<"p0", "b">>, <<"p0", "a", "b">>>>
KW(n, v) == [n |-> n, v |-> v]
CallPool == {[pos |-> <<>>, kw |-> <<>>], [pos |-> <<1>>, kw |-> <<>>], [pos |-> <<>>, kw |-> <<KW("a", 5)>>],
             [pos |-> <<1>>, kw |-> <<KW("a", 5), KW("b", 10)>>], [pos |-> <<>>, kw |-> <<KW("p0", 2), KW("b", 10)>>],
             [pos |-> <<1>>, kw |-> <<KW("zz", 9)>>], [pos |-> <<>>, kw |-> <<KW("a", 5), KW("zz", 9)>>],
             [pos |-> <<>>, kw |-> <<KW("p0", 1)>>], [pos |-> <<2>>, kw |-> <<KW("b", 3)>>]}
\* templates: how many base functions take part and how the composite is nested
Templates == {<<"un", 1>>, <<"bin", 2>>, <<"rbin", 1>>, <<"nar", 3>>, <<"nar1", 2>>, <<"nar2", 2>>, <<"un-bin", 2>>,
              <<"bin-un", 2>>, <<"nar-comp", 4>>, <<"bin-nar", 3>>, <<"nar-nar", 3>>}
CallSets == {<<[pos |-> <<>>, kw |-> <<>>], [pos |-> <<1>>, kw |-> <<>>], [pos |-> <<>>, kw |-> <<KW("a", 5)>>],
               [pos |-> <<1>>, kw |-> <<KW("a", 5), KW("b", 10)>>]>>,
             <<[pos |-> <<>>, kw |-> <<KW("p0", 2), KW("b", 10)>>], [pos |-> <<1>>, kw |-> <<KW("zz", 9)>>],
               [pos |-> <<>>, kw |-> <<KW("a", 5), KW("zz", 9)>>], [pos |-> <<>>, kw |-> <<KW("p0", 1)>>]>>,
             <<[pos |-> <<2>>, kw |-> <<KW("b", 3)>>], [pos |-> <<>>, kw |-> <<KW("a", 5)>>],
               [pos |-> <<1>>, kw |-> <<KW("a", 5), KW("b", 10)>>], [pos |-> <<1>>, kw |-> <<>>]>>}
PickCall == /\ phase = "start"
            /\ \E t \in Templates : \E sg \in [1..t[2] -> SigPool], cs \in CallSets :
                 /\ \A k \in 3..t[2] : sg[k] \in {<<"p0", "a">>, <<"p0", "a", "b">>}
                 /\ args' = <<t[1], sg, cs>> /\ phase' = "call" /\ UNCHANGED <<ca, cb, ka, kb>>
PickKernel == /\ phase = "start"
              /\ \E x \in Window, lo \in Window, hi \in Window, q \in Quanta :
                   /\ lo <= hi
                   /\ args' = <<x, lo, hi, q>> /\ phase' = "kernel" /\ UNCHANGED <<ca, cb, ka, kb>>
Next == PickList \/ PickFn \/ PickStream \/ PickScalar \/ PickSame \/ PickLazy \/ PickLazyInput \/ PickCall \/ PickKernel
Spec == Init /\ [][Next]_vars

\* the prescribed result, flattened, as the observation
Prescribed ==
    LET tab == FreeTab(ca, cb)
        m == Mode(ka, kb)
        leafv(x, y) == <<"v", tab[x][y]>>
    IN CASE m = "scalar" -> leafv(1, 1)
         [] m = "wrap" -> Zip(ca, 1, cb, 1, tab)
         [] m = "point" -> <<"l", [p \in 1..Max2(FlatLen(ca), FlatLen(cb)) |-> leafv(FlatIx(ca, p), FlatIx(cb, p))]>>
         [] m = "short" -> <<"l", [p \in 1..(IF FlatLen(ca) < 0 THEN FlatLen(cb) ELSE IF FlatLen(cb) < 0 THEN FlatLen(ca)
                                              ELSE Min2(FlatLen(ca), FlatLen(cb))) |-> leafv(FlatIx(ca, p), FlatIx(cb, p))]>>
         [] m = "same" -> <<"l", [p \in 1..(FlatLen(ca) \div 2) |-> leafv(FlatIx(ca, 2 * p - 1), FlatIx(ca, 2 * p))]>>
\* the matcher accepts exactly the prescribed result ...
LiftAccepts == phase = "lift" => LiftWhy(ka, ca, kb, cb, FreeTab(ca, cb), Flatten(Prescribed, 1), 0) = "ok"
\* ... rejects it when one leaf value is altered or one element is dropped ...
LiftRejects ==
    (phase = "lift" /\ CountLeaves(Prescribed) > 0) =>
        LET O == Flatten(Prescribed, 1)
            n == CHOOSE i \in 1..Len(O) : O[i].k = "leaf"
            O2 == [O EXCEPT ![n].v = [x |-> 0, s |-> <<0, 0>>]]
        IN LiftWhy(ka, ca, kb, cb, FreeTab(ca, cb), O2, 0) # "ok"
\* ... every pair that the wrap law requires occurs in the result and no other ...
RECURSIVE LeafVals(_)
LeafVals(v) == IF v[1] = "v" THEN {v[2].s} ELSE UNION {LeafVals(v[2][k]) : k \in 1..Len(v[2])}
WrapMeets == (phase = "lift" /\ Mode(ka, kb) = "wrap") => LeafVals(Prescribed) = ReqWrap(ca, 1, cb, 1)
\* ... the top-level length is the longer one (a leaf broadcasts), empty absorbs ...
WrapLength ==
    (phase = "lift" /\ Mode(ka, kb) = "wrap" /\ ~(IsLeaf(ca, 1) /\ IsLeaf(cb, 1))) =>
        Len(Prescribed[2]) = (IF IsLeaf(ca, 1) THEN Len(cb[1].c) ELSE IF IsLeaf(cb, 1) THEN Len(ca[1].c)
                              ELSE IF Len(ca[1].c) = 0 \/ Len(cb[1].c) = 0 THEN 0 ELSE Max2(Len(ca[1].c), Len(cb[1].c)))
\* ... and exchanging the operands mirrors every pair (reflected forms have the same structure)
Symmetric ==
    (phase = "lift" /\ Mode(ka, kb) \in {"wrap", "point", "short", "scalar"}) =>
        LET p1 == Prescribed
            tabT == FreeTab(cb, ca)
            m == Mode(kb, ka)
            other == CASE m = "wrap" -> Zip(cb, 1, ca, 1, tabT)
                       [] m = "scalar" -> <<"v", tabT[1][1]>>
                       [] OTHER -> <<"l", [p \in 1..Len(p1[2]) |-> <<"v", tabT[FlatIx(cb, p)][FlatIx(ca, p)]>>]>>
        IN Mirror(other) = p1
\* (c) lazily evaluated compositions, on the free kernel table whose value at an index tuple is the tuple itself
RECURSIVE Unflat(_, _, _)
Unflat(f, d, k) == IF k > Len(d) THEN <<>> ELSE <<(f % d[k]) + 1>> \o Unflat(f \div d[k], d, k + 1)
LInv == args[5]
LazyTab(ops, xv) ==
    LET d == Dims(ops, NInv(LInv)) IN
    [f \in 1..Prod(d, 1) |-> IF xv /\ f = 2 THEN [x |-> 1, s |-> "X"] ELSE [x |-> 0, s |-> Unflat(f - 1, d, 1)]]
LOps == args[1]
LExp == LazyExpected(LOps, LazyTab(LOps, args[4]), args[2], args[3], LInv)
LazyPos(ops) == {k \in 1..Len(ops) : ops[k].k \in LazyK}
NoShare(ops) == \A j, k \in 1..Len(ops) : (j # k /\ ops[j].k \in StatefulK /\ ops[k].k \in StatefulK) => ops[j].sid # ops[k].sid
NoFn(ops) == \A k \in 1..Len(ops) : ops[k].k # "fn"
RECURSIVE MinLen(_, _)
MinLen(ops, k) == IF k > Len(ops) THEN 1000 ELSE Min2(IF ops[k].k \in LazyK THEN ops[k].n ELSE 1000, MinLen(ops, k + 1))
ShortSeq(ops, tab) ==
    [j \in 1..MinLen(ops, 1) |->
        Outc(tab[Flat([k \in 1..Len(ops) |-> IF Reads(ops, k) THEN Inv(LInv, j) ELSE IF ops[k].k \in LazyK THEN j ELSE 1],
                      Dims(ops, NInv(LInv)))], <<>>)]
\* the matcher accepts the prescribed observation and rejects it when an outcome is dropped
LazyAccepts == phase = "lazy" =>
    /\ LazyWhy(LOps, LazyTab(LOps, args[4]), args[2], args[3], LExp, LInv) = "ok"
    /\ (~args[4] => LazyWhy(LOps, LazyTab(LOps, args[4]), args[2], args[3], SubSeq(LExp, 2, Len(LExp)), LInv) # "ok")
\* every traversal reports its end exactly once, last
LazyEnds == phase = "lazy" =>
    /\ LExp[Len(LExp)].v.x = 2
    /\ (args[2] \notin ResetLaws => Cardinality({i \in 1..Len(LExp) : LExp[i].v.x = 2}) = (IF args[2] = "inter" THEN 2 ELSE 1))
\* one traversal of distinct operands is the shortest-stream law of the eager matcher above
LazyIsShort == (phase = "lazy" /\ args[2] = "once" /\ ~args[4] /\ NoShare(LOps) /\ NoFn(LOps)) =>
    SeqOutEq(LExp, ShortSeq(LOps, LazyTab(LOps, FALSE)) \o <<EndO>>)
\* a pattern made of patterns and constants only: every traversal gives the same sequence
LazyPatternsRestart ==
    (phase = "lazy" /\ ~args[4] /\ LInv = <<0>> /\ LOps[Dispatcher(LOps)].k = "pat"
        /\ \A k \in 1..Len(LOps) : LOps[k].k \notin StatefulK) =>
        LET once == RunOne(LOps, LazyTab(LOps, FALSE), Cur0(LOps), Fresh0, FALSE, FUEL, 1, LInv).outs IN
        /\ (args[2] = "twice" => SeqOutEq(LExp, once \o once \o <<EndO>>))
        /\ (args[2] = "inter" => \A i \in 1..Len(once) : OutEq(LExp[2 * i - 1], once[i]) /\ OutEq(LExp[2 * i], once[i]))
        /\ (args[2] = "tail" => SeqOutEq(LExp, once \o <<Outc(MarkV(0), <<>>), EndO>>))
\* a stateful operand is never rewound nor read twice: the indices used at its position strictly increase
LeafIx(e, k) == IF e.c = <<>> THEN e.v.s[k] ELSE e.c[1].s[k]
\* after reset() a composed stream answers like a fresh one: every operand stream is back at its start
LazyResetRestores ==
    (phase = "lazy" /\ ~args[4] /\ args[2] \in ResetLaws /\ LInv = <<0>>) =>
        LET k == ResetAfter(args[2]) IN
        SeqOutEq(SubSeq(LExp, k + 1, Len(LExp)), LazyExpected(LOps, LazyTab(LOps, FALSE), "once", FALSE, LInv))
LazyConserves == (phase = "lazy" /\ ~args[4] /\ args[2] \notin ResetLaws) =>
    \A k \in {j \in 1..Len(LOps) : LOps[j].k \in LazyK /\ ~PerTraversal(LOps, j) /\ ~Reads(LOps, j)} :
        LET vals == SelectSeq(LExp, LAMBDA e : e.v.x \in {0, 1}) IN
        \A i \in 1..(Len(vals) - 1) : LeafIx(vals[i], k) < LeafIx(vals[i + 1], k)
\* the input value of a call reaches every operand that reads it, in that very call, however the composition is
\* traversed; what follows the composition in the enclosing pattern is asked with the input value of the call in which
\* the composition ended
LazyInputReaches == (phase = "lazy" /\ ~args[4]) =>
    \A i \in 1..Len(LExp) :
        /\ (LExp[i].v.x = 0 /\ LExp[i].c = <<>> => \A k \in 1..Len(LOps) : Reads(LOps, k) => LExp[i].v.s[k] = Inv(LInv, i))
        /\ (LExp[i].v.x = 3 => LExp[i].v.s = Inv(LInv, i))
\* through a generator nothing follows an element that raised but the end
LazyGeneratorDies == (phase = "lazy" /\ args[3] /\ args[2] # "inter") =>
    \A i \in 1..(Len(LExp) - 1) : (LExp[i].c = <<>> /\ LExp[i].v.x = 1) => i = Len(LExp) - 1
\* (d) call shapes, with functions whose value IS what they bind (free functions) and the free kernel
CSigs == args[2]
CCalls == args[3]
FreeLeaves == [k \in 1..Len(CSigs) |-> [c \in 1..Len(CCalls) |-> [x |-> 0, s |-> Binding(CSigs[k], CCalls[c])]]]
FreeCallTab == LET nb == Len(CSigs)
                   nc == Len(CCalls)
                   d == [k \in 1..nb |-> nc] IN
               [f \in 1..Prod(d, 1) |-> [x |-> 0, s |-> [k \in 1..nb |-> Binding(CSigs[k], CCalls[Unflat(f - 1, d, 1)[k]])]]]
CallPrescribed == [c \in 1..Len(CCalls) |-> [x |-> 0, s |-> [k \in 1..Len(CSigs) |-> Binding(CSigs[k], CCalls[c])]]]
\* the prescribed answers are accepted; answering one call with what another call binds is rejected when they differ
CallAccepts == (phase = "call" /\ Len(CSigs) <= 3) =>
    LET lv == FreeLeaves
        tb == FreeCallTab
        pr == CallPrescribed IN
    /\ CallWhy(CSigs, CCalls, lv, tb, pr) = "ok"
    /\ \A c1 \in {1, 3} :
          pr[c1] # pr[c1 + 1] => CallWhy(CSigs, CCalls, lv, tb, [pr EXCEPT ![c1] = pr[c1 + 1]]) # "ok"
\* every call of the pool is well formed for every parameter list, a keyword no operand declares changes nothing,
\* and binding the first parameter positionally or by name is the same
CallPoolLaws == phase = "call" =>
    /\ \A sg \in SigPool, c \in CallPool : CallValid(sg, c)
    /\ \A sg \in SigPool : Binding(sg, [pos |-> <<1>>, kw |-> <<KW("zz", 9)>>]) = Binding(sg, [pos |-> <<1>>, kw |-> <<>>])
    /\ \A sg \in SigPool : Binding(sg, [pos |-> <<1>>, kw |-> <<>>]) = Binding(sg, [pos |-> <<>>, kw |-> <<KW("p0", 1)>>])
    /\ {CallShape(SigPool_seq, c) : c \in CallPool} = {"none", "pos", "kw", "mixed", "extra"}
\* (b) reference kernels satisfy the laws on the lattice window
KernelLaws ==
    phase = "kernel" =>
        LET x == args[1]
            lo == args[2]
            hi == args[3]
            q == args[4] IN
        /\ WrapLaw(x, lo, hi, RefWrapF(x, lo, hi), FALSE)
        /\ (x % 8 = 0 /\ lo % 8 = 0 /\ hi % 8 = 0 => WrapLaw(x, lo, hi, RefWrapI(x, lo, hi), TRUE))
        /\ FoldLaw(x, lo, hi, RefFold(x, lo, hi))
        /\ ClipBounds(lo, hi, RefClip(x, lo, hi)) /\ ClipIdem(RefClip(x, lo, hi), RefClip(RefClip(x, lo, hi), lo, hi))
        /\ RoundLaw(x, q, RefRound(x, q)) /\ RoundupLaw(x, q, RefRoundup(x, q)) /\ TruncLaw(x, q, RefTrunc(x, q))
        /\ (q > 0 => ModLaw(x, q, RefMod(x, q)))
\* inverse points are consistent: the forward value of one function is the point of its inverse
InverseTable ==
    \A k \in (0 - 4)..4 :
        /\ InvPoint("midicps", k)[2] = InvPoint("cpsmidi", k)[1] /\ InvPoint("midicps", k)[1] = InvPoint("cpsmidi", k)[2]
        /\ InvPoint("midiratio", k)[2] = InvPoint("ratiomidi", k)[1]
        /\ InvPoint("octcps", k)[2] = InvPoint("cpsoct", k)[1] /\ InvPoint("octcps", k)[1] = InvPoint("cpsoct", k)[2]
        /\ InvPoint("dbamp", k)[2] = InvPoint("ampdb", k)[1]
        /\ InvPoint("midicps", k)[2] = InvPoint("octcps", k)[2]
ASSUME InverseTable
=============================================================================
