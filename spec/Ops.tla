------------------------------- MODULE Ops -------------------------------
(* C15: (i) the lifting law - an operator applied to functions, streams, patterns, lists,
   operands builds an object whose evaluation is the numeric kernel applied to the evaluated
   operands with the structure prescribed per operand kind; (ii) range / inverse laws of the
   numeric kernels on an exact lattice.

   (i) The kernel K is not interpreted here: the law is uniformity.  An evaluated operand is a
   tree of leaves (node array, root = node 1); leaf x of operand A and leaf y of operand B meet
   in K(x, y), which the binding supplies as a table tab[x][y] obtained by calling the real
   numeric kernel on plain numbers.  What this module defines is *which* leaves must meet and
   what shape the result has:
     scalar  (number, operand, rest)          : K(a, b)
     wrap    (lists, channel lists, tuples)   : element-wise, the shorter list wraps around,
                                                recursively; a leaf is broadcast
     point   (functions)                      : (f op g)(p) = K(f(p), g(p)) at every sample point
     short   (streams, patterns)              : next(s op t) = K(next(s), next(t)) until the
                                                shorter ends; a number never ends
     same    (one stream on both sides)       : the left operand is drawn first (a pattern on both
                                                sides makes two independent streams: short)
   An exception raised by the kernel for a pair that must meet has to surface with the same
   class: for eagerly evaluated structures (scalar, wrap) as the outcome of the composition,
   for lazily evaluated ones (point, short, same) at that point / element.

   (ii) Kernel laws are stated over integers in units of 1/8 (the lattice), decided with
   integer arithmetic.                                                                     *)
EXTENDS Integers, Sequences, FiniteSets, TLC

Max2(a, b) == IF a > b THEN a ELSE b
Min2(a, b) == IF a < b THEN a ELSE b
AbsI(x) == IF x < 0 THEN 0 - x ELSE x

(* ------------------------------ trees ------------------------------ *)
Leaf(x) == [k |-> "leaf", x |-> x, c |-> <<>>]
Lst(c) == [k |-> "list", x |-> 0, c |-> c]
IsLeaf(T, n) == T[n].k = "leaf"
WrapIx(k, len) == ((k - 1) % len) + 1
Scalars == {"num", "opd", "rest"}
Lazy == {"strm", "pat"}

Mode(ka, kb) ==
    IF kb = "same" /\ ka = "strm" THEN "same"
    ELSE IF ka \in Scalars /\ kb \in Scalars THEN "scalar"
    ELSE IF {ka, kb} \subseteq {"list", "num"} THEN "wrap"
    ELSE IF {ka, kb} \subseteq {"fn", "num"} THEN "point"
    ELSE IF {ka, kb} \subseteq (Lazy \cup {"num"}) THEN "short"
    ELSE "undefined"

\* pairs of leaves that meet under the wrap law
RECURSIVE ReqWrap(_, _, _, _)
ReqWrap(A, a, B, b) ==
    IF IsLeaf(A, a) /\ IsLeaf(B, b) THEN {<<A[a].x, B[b].x>>}
    ELSE IF IsLeaf(B, b) THEN UNION {ReqWrap(A, A[a].c[k], B, b) : k \in 1..Len(A[a].c)}
    ELSE IF IsLeaf(A, a) THEN UNION {ReqWrap(A, a, B, B[b].c[k]) : k \in 1..Len(B[b].c)}
    ELSE LET la == Len(A[a].c)
             lb == Len(B[b].c)
         IN IF la = 0 \/ lb = 0 THEN {}
            ELSE UNION {ReqWrap(A, A[a].c[WrapIx(k, la)], B, B[b].c[WrapIx(k, lb)]) : k \in 1..Max2(la, lb)}
\* length of the result list of two nodes under the wrap law
WrapLen(A, a, B, b) ==
    IF IsLeaf(B, b) THEN Len(A[a].c)
    ELSE IF IsLeaf(A, a) THEN Len(B[b].c)
    ELSE IF Len(A[a].c) = 0 \/ Len(B[b].c) = 0 THEN 0 ELSE Max2(Len(A[a].c), Len(B[b].c))
\* observed tree O (leaves carry values O[n].v = [x, s]) against the wrap law; "ok" or the first reason
RECURSIVE MatchWrap(_, _, _, _, _, _, _)
MatchWrap(O, o, A, a, B, b, tab) ==
    IF IsLeaf(A, a) /\ IsLeaf(B, b)
    THEN (IF ~IsLeaf(O, o) THEN "shape:list-for-leaf"
          ELSE IF O[o].v # tab[A[a].x][B[b].x] THEN "value" ELSE "ok")
    ELSE IF IsLeaf(O, o) THEN "shape:leaf-for-list"
    ELSE LET n == WrapLen(A, a, B, b) IN
         IF Len(O[o].c) # n THEN "shape:length"
         ELSE LET sub(k) == MatchWrap(O, O[o].c[k],
                                      A, IF IsLeaf(A, a) THEN a ELSE A[a].c[WrapIx(k, Len(A[a].c))],
                                      B, IF IsLeaf(B, b) THEN b ELSE B[b].c[WrapIx(k, Len(B[b].c))], tab)
                  bad == {k \in 1..n : sub(k) # "ok"}
              IN IF bad = {} THEN "ok" ELSE sub(CHOOSE k \in bad : \A j \in bad : k <= j)

IsExc(v) == v.x = 1
\* flat operands (functions, streams, patterns): the root is a list of leaves (or a single leaf = number)
FlatLen(T) == IF IsLeaf(T, 1) THEN 0 - 1 ELSE Len(T[1].c)          \* -1 = broadcast / never ends
FlatIx(T, p) == IF IsLeaf(T, 1) THEN T[1].x ELSE T[T[1].c[p]].x
FlatOK(T) == IsLeaf(T, 1) \/ \A k \in 1..Len(T[1].c) : IsLeaf(T, T[1].c[k])

\* stopx: the evaluation cannot continue past a raising element (a generator): the result ends there
MatchFlat(O, n0, ix(_), jx(_), tab, stopx) ==
    LET xs == {p \in 1..n0 : IsExc(tab[ix(p)][jx(p)])}
        n == IF stopx = 1 /\ xs # {} THEN CHOOSE p \in xs : \A q \in xs : p <= q ELSE n0 IN
    IF IsLeaf(O, 1) THEN (IF IsExc(O[1].v) THEN "raised:" \o O[1].v.s ELSE "shape:leaf-for-list")
    ELSE IF Len(O[1].c) # n THEN "shape:length"
    ELSE IF \E p \in 1..n : ~IsLeaf(O, O[1].c[p]) THEN "shape:nested"
    ELSE IF \E p \in 1..n : O[O[1].c[p]].v # tab[ix(p)][jx(p)] THEN "value"
    ELSE "ok"

LiftWhy(ka, A, kb, B, tab, O, stopx) ==
    LET m == Mode(ka, kb) IN
    CASE m = "scalar" ->
            (IF ~IsLeaf(O, 1) THEN "shape:list-for-leaf"
             ELSE IF O[1].v = tab[A[1].x][B[1].x] THEN "ok"
             ELSE IF IsExc(O[1].v) THEN "raised:" \o O[1].v.s ELSE "value")
      [] m = "wrap" ->
            LET req == ReqWrap(A, 1, B, 1)
                excs == {tab[p[1]][p[2]] : p \in {q \in req : IsExc(tab[q[1]][q[2]])}}
            IN IF excs # {} THEN (IF IsLeaf(O, 1) /\ O[1].v \in excs THEN "ok"
                                  ELSE IF IsLeaf(O, 1) /\ IsExc(O[1].v) THEN "raised:" \o O[1].v.s ELSE "exception-expected")
               ELSE IF IsLeaf(O, 1) /\ IsExc(O[1].v) THEN "raised:" \o O[1].v.s
               ELSE MatchWrap(O, 1, A, 1, B, 1, tab)
      [] m = "point" ->
            IF ~FlatOK(A) \/ ~FlatOK(B) THEN "bad-operand"
            ELSE LET n == Max2(FlatLen(A), FlatLen(B)) IN
                 IF (FlatLen(A) >= 0 /\ FlatLen(A) # n) \/ (FlatLen(B) >= 0 /\ FlatLen(B) # n) THEN "bad-operand"
                 ELSE MatchFlat(O, n, LAMBDA p : FlatIx(A, p), LAMBDA p : FlatIx(B, p), tab, stopx)
      [] m = "short" ->
            IF ~FlatOK(A) \/ ~FlatOK(B) \/ (FlatLen(A) < 0 /\ FlatLen(B) < 0) THEN "bad-operand"
            ELSE LET n == IF FlatLen(A) < 0 THEN FlatLen(B)
                          ELSE IF FlatLen(B) < 0 THEN FlatLen(A) ELSE Min2(FlatLen(A), FlatLen(B)) IN
                 MatchFlat(O, n, LAMBDA p : FlatIx(A, p), LAMBDA p : FlatIx(B, p), tab, stopx)
      [] m = "same" ->
            IF ~FlatOK(A) \/ FlatLen(A) < 0 THEN "bad-operand"
            ELSE MatchFlat(O, FlatLen(A) \div 2, LAMBDA p : FlatIx(A, 2 * p - 1), LAMBDA p : FlatIx(A, 2 * p), tab, stopx)
      [] OTHER -> "undefined-kinds"

(* ------------------------------ kernel laws (units of 1/8) ------------------------------ *)
\* reference kernels (integer arithmetic; x, lo, hi, q, m in lattice units)
RefMod(a, m) == a % m                                   \* TLA+ % is the non-negative remainder for m > 0
RefWrapF(x, lo, hi) == IF hi = lo THEN lo ELSE lo + ((x - lo) % (hi - lo))
RefWrapI(x, lo, hi) == lo + ((x - lo) % (hi - lo + 8))  \* integers: closed range, 8 units = 1
RefFold(x, lo, hi) ==
    IF hi = lo THEN lo
    ELSE LET r == hi - lo
             c == (x - lo) % (2 * r)
         IN lo + (IF c > r THEN 2 * r - c ELSE c)
RefClip(x, lo, hi) == Max2(Min2(x, hi), lo)
RefTrunc(x, q) == IF q = 0 THEN x ELSE x - (x % q)
RefRoundup(x, q) == IF q = 0 THEN x ELSE IF x % q = 0 THEN x ELSE x - (x % q) + q
RefRound(x, q) == IF q = 0 THEN x ELSE RefTrunc(2 * x + q, 2 * q) \div 2

\* closed: an integer first argument wraps in the closed range (documented integer behaviour)
WrapLaw(x, lo, hi, r, closed) ==
    IF lo = hi THEN r = lo
    ELSE IF closed THEN lo <= r /\ r <= hi
    ELSE lo <= r /\ r < hi
FoldLaw(x, lo, hi, r) == lo <= r /\ r <= hi
ClipIdem(r1, r2) == r2 = r1
ClipBounds(lo, hi, r) == lo <= r /\ r <= hi
RoundLaw(x, q, r) == IF q = 0 THEN r = x ELSE r % q = 0 /\ 2 * AbsI(r - x) <= q
RoundupLaw(x, q, r) == IF q = 0 THEN r = x ELSE r % q = 0 /\ x <= r /\ r - x < q
TruncLaw(x, q, r) == IF q = 0 THEN r = x ELSE r % q = 0 /\ r <= x /\ x - r < q
ModLaw(a, m, r) == 0 <= r /\ r < m /\ (a - r) % m = 0

\* is (r, r2) an allowed outcome of kernel fn on lattice arguments a (sequence of [t, v])?
RangeWhy(fn, a, r, r2) ==
    LET allint == a[1].t = "i"
        x == a[1].v IN
    IF r.k # "ok" THEN "raised"
    ELSE IF r.ex # 1 THEN "off-lattice-result"
    ELSE CASE fn = "wrap" -> (IF WrapLaw(x, a[2].v, a[3].v, r.v, allint) THEN "ok" ELSE "wrap-bounds")
           [] fn = "fold" -> (IF FoldLaw(x, a[2].v, a[3].v, r.v) THEN "ok" ELSE "fold-bounds")
           [] fn = "wrap2" -> (IF WrapLaw(x, 0 - a[2].v, a[2].v, r.v, allint) THEN "ok" ELSE "wrap2-bounds")
           [] fn = "fold2" -> (IF FoldLaw(x, 0 - a[2].v, a[2].v, r.v) THEN "ok" ELSE "fold2-bounds")
           [] fn = "clip" ->
                (IF r2.k # "ok" \/ r2.ex # 1 \/ ~ClipIdem(r.v, r2.v) THEN "clip-idempotent"
                 \* bounds are judged where they are representable in the type of x
                 ELSE IF (a[1].t = "f" \/ (a[2].v % 8 = 0 /\ a[3].v % 8 = 0)) /\ ~ClipBounds(a[2].v, a[3].v, r.v)
                      THEN "clip-bounds" ELSE "ok")
           [] fn = "round" -> (IF RoundLaw(x, a[2].v, r.v) THEN "ok" ELSE "round-multiple-nearest")
           [] fn = "roundup" -> (IF RoundupLaw(x, a[2].v, r.v) THEN "ok" ELSE "roundup-multiple-above")
           [] fn = "trunc" -> (IF TruncLaw(x, a[2].v, r.v) THEN "ok" ELSE "trunc-multiple-below")
           [] fn = "mod" -> (IF ModLaw(x, a[2].v, r.v) THEN "ok" ELSE "mod-range")
           [] OTHER -> "unknown-kernel"

(* inverse pairs at the points where both directions are exact; values in fixed point 2^16 (floor),
   1 unit of slack for the floor.  k is the octave / decade index.                                  *)
F16 == 65536
RECURSIVE Pow(_, _)
Pow(b, n) == IF n = 0 THEN 1 ELSE b * Pow(b, n - 1)
\* floor(c * b^k * 2^16) for integer k of either sign
Scaled(c, b, k) == IF k >= 0 THEN c * Pow(b, k) * F16 ELSE (c * F16) \div Pow(b, 0 - k)
Near(a, b) == AbsI(a - b) <= 1
\* <<point, value>> of the forward function fn at index k, both in fixed point
InvPoint(fn, k) ==
    CASE fn = "midicps"   -> <<(69 + 12 * k) * F16, Scaled(440, 2, k)>>
      [] fn = "cpsmidi"   -> <<Scaled(440, 2, k), (69 + 12 * k) * F16>>
      [] fn = "midiratio" -> <<12 * k * F16, Scaled(1, 2, k)>>
      [] fn = "ratiomidi" -> <<Scaled(1, 2, k), 12 * k * F16>>
      [] fn = "octcps"    -> <<(19 + 4 * k) * (F16 \div 4), Scaled(440, 2, k)>>       \* 4.75 + k
      [] fn = "cpsoct"    -> <<Scaled(440, 2, k), (19 + 4 * k) * (F16 \div 4)>>
      [] fn = "dbamp"     -> <<20 * k * F16, Scaled(1, 10, k)>>
      [] fn = "ampdb"     -> <<Scaled(1, 10, k), 20 * k * F16>>
InvWhy(fn, k, r, rt) ==
    LET pv == InvPoint(fn, k) IN
    IF r.k # "ok" \/ rt.k # "ok" THEN "raised"
    ELSE IF ~Near(r.v, pv[2]) THEN "value"
    ELSE IF ~Near(rt.v, pv[1]) THEN "round-trip"
    ELSE "ok"

(* ============================== design model ==============================
   (a) the lifting structure on sample trees with the free kernel K(x, y) = <<x, y>>:
       the result prescribed by the law, built bottom-up, is accepted by the matcher, has the
       prescribed size, and is symmetric under exchanging the operands;
   (b) the reference kernels satisfy the range laws on the whole lattice window.          *)
CONSTANTS Window, Quanta
WindowQ == (0 - 12)..12
QuantaQ == {0, 1, 2, 3, 4, 8, 12}
WindowT == (0 - 32)..32
QuantaT == {0, 1, 2, 3, 4, 5, 8, 12, 16, 20}
WindowS == {0}
QuantaS == {0}
VARIABLES phase, ca, cb, ka, kb, args

vars == <<phase, ca, cb, ka, kb, args>>
\* sample trees as node arrays (leaf ids in preorder)
T0 == <<Leaf(1)>>
T1 == <<Lst(<<2>>), Leaf(1)>>
T2 == <<Lst(<<2, 3>>), Leaf(1), Leaf(2)>>
T3 == <<Lst(<<2, 3, 4>>), Leaf(1), Leaf(2), Leaf(3)>>
T4 == <<Lst(<<2, 5>>), Lst(<<3, 4>>), Leaf(1), Leaf(2), Leaf(3)>>                       \* [[1,2],3]
T5 == <<Lst(<<2, 3>>), Leaf(1), Lst(<<4, 5, 6>>), Leaf(2), Leaf(3), Leaf(4)>>           \* [1,[2,3,4]]
T6 == <<Lst(<<2, 4>>), Lst(<<3>>), Leaf(1), Lst(<<5, 6>>), Leaf(2), Leaf(3)>>           \* [[1],[2,3]]
T7 == <<Lst(<<2, 7>>), Lst(<<3, 4>>), Leaf(1), Lst(<<5, 6>>), Leaf(2), Leaf(3), Leaf(4)>> \* [[1,[2,3]],4]
T8 == <<Lst(<<>>)>>
Trees == {T0, T1, T2, T3, T4, T5, T6, T7, T8}
FlatTrees == {T0, T1, T2, T3}
NLeaves(T) == Cardinality({n \in 1..Len(T) : IsLeaf(T, n)})
FreeTab(A, B) == [x \in 1..Max2(NLeaves(A), 1) |-> [y \in 1..Max2(NLeaves(B), 1) |-> [x |-> 0, s |-> <<x, y>>]]]

\* the result the wrap law prescribes, as a nested value: leaf = <<"v", value>>, list = <<"l", seq>>
RECURSIVE Zip(_, _, _, _, _)
Zip(A, a, B, b, tab) ==
    IF IsLeaf(A, a) /\ IsLeaf(B, b) THEN <<"v", tab[A[a].x][B[b].x]>>
    ELSE <<"l", [k \in 1..WrapLen(A, a, B, b) |->
                  Zip(A, IF IsLeaf(A, a) THEN a ELSE A[a].c[WrapIx(k, Len(A[a].c))],
                      B, IF IsLeaf(B, b) THEN b ELSE B[b].c[WrapIx(k, Len(B[b].c))], tab)]>>
\* nested value -> node array (preorder), so that the matcher can be run on the prescribed result
RECURSIVE Size(_)
Size(v) == IF v[1] = "v" THEN 1
           ELSE LET s[k \in 0..Len(v[2])] == IF k = 0 THEN 1 ELSE s[k - 1] + Size(v[2][k]) IN s[Len(v[2])]
RECURSIVE Flatten(_, _)
Flatten(v, at) ==      \* nodes of v placed from index `at`
    IF v[1] = "v" THEN <<[k |-> "leaf", v |-> v[2], c |-> <<>>]>>
    ELSE LET n == Len(v[2])
             start[k \in 1..n] == IF k = 1 THEN at + 1 ELSE start[k - 1] + Size(v[2][k - 1])
             RECURSIVE cat(_)
             cat(k) == IF k > n THEN <<>> ELSE Flatten(v[2][k], start[k]) \o cat(k + 1)
         IN <<[k |-> "list", v |-> [x |-> 0, s |-> <<>>], c |-> [k \in 1..n |-> start[k]]]>> \o cat(1)
RECURSIVE CountLeaves(_)
CountLeaves(v) == IF v[1] = "v" THEN 1
                  ELSE LET s[k \in 0..Len(v[2])] == IF k = 0 THEN 0 ELSE s[k - 1] + CountLeaves(v[2][k]) IN s[Len(v[2])]
RECURSIVE Mirror(_)
Mirror(v) == IF v[1] = "v" THEN <<"v", [x |-> 0, s |-> <<v[2].s[2], v[2].s[1]>>]>>
             ELSE <<"l", [k \in 1..Len(v[2]) |-> Mirror(v[2][k])]>>

Init == phase = "start" /\ ca = T0 /\ cb = T0 /\ ka = "num" /\ kb = "num" /\ args = <<>>
PickList == /\ phase = "start"
            /\ \E A \in Trees, B \in Trees :
                 /\ ca' = A /\ cb' = B /\ phase' = "lift" /\ args' = <<>>
                 /\ ka' = (IF A = T0 THEN "num" ELSE "list") /\ kb' = (IF B = T0 THEN "num" ELSE "list")
PickFn == /\ phase = "start"
          /\ \E A \in FlatTrees \ {T0}, B \in FlatTrees : \E swap \in BOOLEAN :
               /\ (B = T0 \/ Len(B[1].c) = Len(A[1].c))
               /\ ca' = (IF swap THEN B ELSE A) /\ cb' = (IF swap THEN A ELSE B) /\ phase' = "lift" /\ args' = <<>>
               /\ ka' = (IF (IF swap THEN B ELSE A) = T0 THEN "num" ELSE "fn")
               /\ kb' = (IF (IF swap THEN A ELSE B) = T0 THEN "num" ELSE "fn")
PickStream == /\ phase = "start"
              /\ \E A \in FlatTrees \ {T0}, B \in FlatTrees, k1 \in Lazy, k2 \in Lazy : \E swap \in BOOLEAN :
                   /\ ca' = (IF swap THEN B ELSE A) /\ cb' = (IF swap THEN A ELSE B) /\ phase' = "lift" /\ args' = <<>>
                   /\ ka' = (IF (IF swap THEN B ELSE A) = T0 THEN "num" ELSE k1)
                   /\ kb' = (IF (IF swap THEN A ELSE B) = T0 THEN "num" ELSE k2)
PickScalar == /\ phase = "start"
              /\ \E k1 \in Scalars, k2 \in Scalars :
                   ca' = T0 /\ cb' = T0 /\ ka' = k1 /\ kb' = k2 /\ phase' = "lift" /\ args' = <<>>
PickSame == /\ phase = "start"
            /\ \E A \in FlatTrees \ {T0} :
                 ca' = A /\ cb' = A /\ ka' = "strm" /\ kb' = "same" /\ phase' = "lift" /\ args' = <<>>
PickKernel == /\ phase = "start"
              /\ \E x \in Window, lo \in Window, hi \in Window, q \in Quanta :
                   /\ lo <= hi
                   /\ args' = <<x, lo, hi, q>> /\ phase' = "kernel" /\ UNCHANGED <<ca, cb, ka, kb>>
Next == PickList \/ PickFn \/ PickStream \/ PickScalar \/ PickSame \/ PickKernel
Spec == Init /\ [][Next]_vars

\* the prescribed result, flattened, as the observation
Prescribed ==
    LET tab == FreeTab(ca, cb)
        m == Mode(ka, kb)
        leafv(x, y) == <<"v", tab[x][y]>>
    IN CASE m = "scalar" -> leafv(1, 1)
         [] m = "wrap" -> Zip(ca, 1, cb, 1, tab)
         [] m = "point" -> <<"l", [p \in 1..Max2(FlatLen(ca), FlatLen(cb)) |-> leafv(FlatIx(ca, p), FlatIx(cb, p))]>>
         [] m = "short" -> <<"l", [p \in 1..(IF FlatLen(ca) < 0 THEN FlatLen(cb) ELSE IF FlatLen(cb) < 0 THEN FlatLen(ca)
                                              ELSE Min2(FlatLen(ca), FlatLen(cb))) |-> leafv(FlatIx(ca, p), FlatIx(cb, p))]>>
         [] m = "same" -> <<"l", [p \in 1..(FlatLen(ca) \div 2) |-> leafv(FlatIx(ca, 2 * p - 1), FlatIx(ca, 2 * p))]>>
\* the matcher accepts exactly the prescribed result ...
LiftAccepts == phase = "lift" => LiftWhy(ka, ca, kb, cb, FreeTab(ca, cb), Flatten(Prescribed, 1), 0) = "ok"
\* ... rejects it when one leaf value is altered or one element is dropped ...
LiftRejects ==
    (phase = "lift" /\ CountLeaves(Prescribed) > 0) =>
        LET O == Flatten(Prescribed, 1)
            n == CHOOSE i \in 1..Len(O) : O[i].k = "leaf"
            O2 == [O EXCEPT ![n].v = [x |-> 0, s |-> <<0, 0>>]]
        IN LiftWhy(ka, ca, kb, cb, FreeTab(ca, cb), O2, 0) # "ok"
\* ... every pair that the wrap law requires occurs in the result and no other ...
RECURSIVE LeafVals(_)
LeafVals(v) == IF v[1] = "v" THEN {v[2].s} ELSE UNION {LeafVals(v[2][k]) : k \in 1..Len(v[2])}
WrapMeets == (phase = "lift" /\ Mode(ka, kb) = "wrap") => LeafVals(Prescribed) = ReqWrap(ca, 1, cb, 1)
\* ... the top-level length is the longer one (a leaf broadcasts), empty absorbs ...
WrapLength ==
    (phase = "lift" /\ Mode(ka, kb) = "wrap" /\ ~(IsLeaf(ca, 1) /\ IsLeaf(cb, 1))) =>
        Len(Prescribed[2]) = (IF IsLeaf(ca, 1) THEN Len(cb[1].c) ELSE IF IsLeaf(cb, 1) THEN Len(ca[1].c)
                              ELSE IF Len(ca[1].c) = 0 \/ Len(cb[1].c) = 0 THEN 0 ELSE Max2(Len(ca[1].c), Len(cb[1].c)))
\* ... and exchanging the operands mirrors every pair (reflected forms have the same structure)
Symmetric ==
    (phase = "lift" /\ Mode(ka, kb) \in {"wrap", "point", "short", "scalar"}) =>
        LET p1 == Prescribed
            tabT == FreeTab(cb, ca)
            m == Mode(kb, ka)
            other == CASE m = "wrap" -> Zip(cb, 1, ca, 1, tabT)
                       [] m = "scalar" -> <<"v", tabT[1][1]>>
                       [] OTHER -> <<"l", [p \in 1..Len(p1[2]) |-> <<"v", tabT[FlatIx(cb, p)][FlatIx(ca, p)]>>]>>
        IN Mirror(other) = p1
\* (b) reference kernels satisfy the laws on the lattice window
KernelLaws ==
    phase = "kernel" =>
        LET x == args[1]
            lo == args[2]
            hi == args[3]
            q == args[4] IN
        /\ WrapLaw(x, lo, hi, RefWrapF(x, lo, hi), FALSE)
        /\ (x % 8 = 0 /\ lo % 8 = 0 /\ hi % 8 = 0 => WrapLaw(x, lo, hi, RefWrapI(x, lo, hi), TRUE))
        /\ FoldLaw(x, lo, hi, RefFold(x, lo, hi))
        /\ ClipBounds(lo, hi, RefClip(x, lo, hi)) /\ ClipIdem(RefClip(x, lo, hi), RefClip(RefClip(x, lo, hi), lo, hi))
        /\ RoundLaw(x, q, RefRound(x, q)) /\ RoundupLaw(x, q, RefRoundup(x, q)) /\ TruncLaw(x, q, RefTrunc(x, q))
        /\ (q > 0 => ModLaw(x, q, RefMod(x, q)))
\* inverse points are consistent: the forward value of one function is the point of its inverse
InverseTable ==
    \A k \in (0 - 4)..4 :
        /\ InvPoint("midicps", k)[2] = InvPoint("cpsmidi", k)[1] /\ InvPoint("midicps", k)[1] = InvPoint("cpsmidi", k)[2]
        /\ InvPoint("midiratio", k)[2] = InvPoint("ratiomidi", k)[1]
        /\ InvPoint("octcps", k)[2] = InvPoint("cpsoct", k)[1] /\ InvPoint("octcps", k)[1] = InvPoint("cpsoct", k)[2]
        /\ InvPoint("dbamp", k)[2] = InvPoint("ampdb", k)[1]
        /\ InvPoint("midicps", k)[2] = InvPoint("octcps", k)[2]
ASSUME InverseTable
=============================================================================
