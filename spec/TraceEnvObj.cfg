SPECIFICATION TSpec
