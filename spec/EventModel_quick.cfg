SPECIFICATION Spec
CONSTANTS
  Mode = "quick"
  NB = 64
INVARIANT LawsHold
