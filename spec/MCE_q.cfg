SPECIFICATION Spec
CONSTANTS
  Templates = {"n", "u", "t", "L2", "Lf", "L3", "N21", "N23"}
  MaxArgs = 3
  FirstList = FALSE
INVARIANT InvLen
INVARIANT InvDepth
INVARIANT InvLeaf
INVARIANT InvSingle
INVARIANT InvMultiNew
INVARIANT InvBinop
INVARIANT InvUnop
INVARIANT InvPerform
INVARIANT InvMadd
