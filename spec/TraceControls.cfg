SPECIFICATION TSpec
