SPECIFICATION Spec
CONSTANTS
  N = 4
  Live = FALSE
INVARIANT Refines
INVARIANT PrefixOK
