---------------------------- MODULE TraceOscMatch ----------------------------
(* Binding for C18's matcher: a trace is one pattern p (character codes) with the set of addresses
   ("/" + <= maxa characters over {a, b, /}) for which the function used by the matching dispatcher
   (sc3.base.responders._match_osc_address_pattern) returned True (`hits`) or raised (`raised`).
   OscMatch.Match decides, for every address of the universe.                              *)
EXTENDS OscMatch, Json, IOUtils
Traces == JsonDeserialize(IOEnv.VERIF_TRACES)
VARIABLES tid, l
tvars == <<tid, l>>
RECURSIVE Strs(_, _)
Strs(cs, n) == IF n = 0 THEN {<<>>} ELSE LET S == Strs(cs, n - 1) IN S \cup {Append(s, c) : s \in S, c \in cs}
Addrs(n) == {<<SLASH>> \o s : s \in Strs({97, 98, SLASH}, n)}
ToSet(s) == {s[i] : i \in 1..Len(s)}
ProperPrefixMatch(p, a) == \E k \in 1..(Len(a) - 1) : Match(p, SubSeq(a, 1, k))
Why(t) ==
    IF Unspec(t.p) THEN "ok"                      \* OSC 1.0 does not say: nothing demanded
    ELSE LET H == ToSet(t.hits)  U == Addrs(t.maxa) IN
    IF t.raised # <<>> THEN "MatcherRaised"
    ELSE IF \E a \in H : ~Match(t.p, a) THEN
         (LET a == CHOOSE a \in H : ~Match(t.p, a) IN
          IF ProperPrefixMatch(t.p, a) THEN "PrefixMatch"
          ELSE IF Len(SplitAt(t.p, SLASH)) # Len(SplitAt(a, SLASH)) THEN "WildcardCrossesSlash"
          ELSE "FalseMatch")
    ELSE IF \E a \in U : Match(t.p, a) /\ a \notin H THEN "MissedMatch"
    ELSE "ok"
TInit == tid \in 1..Len(Traces) /\ l = 1
Step == /\ l = 1
        /\ LET why == Why(Traces[tid]) IN
           IF why = "ok" THEN l' = 2 /\ tid' = tid
           ELSE PrintT(<<"REJ", Traces[tid].id, l, why>>) /\ l' = 0 /\ tid' = tid
Done == l = 2 /\ PrintT(<<"ACC", Traces[tid].id>>) /\ l' = 0 - 1 /\ tid' = tid
TSpec == TInit /\ [][Step \/ Done]_tvars
=============================================================================
