SPECIFICATION Spec
CONSTANTS
  QMode = "keyed"
  ProgSel = 9
  MaxLen = 1
  MaxSteps = 13
  MaxTime = 400
CONSTRAINT Bound

