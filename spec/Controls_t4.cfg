SPECIFICATION Spec
CONSTANTS
  Annots <- AnTiny
  OvChoices <- OvTiny
  DfChoices <- DfTiny
  SpChoices <- SpNone
  BoundVals = {24}
  MaxFuncs = 2
  MaxParams = 2
  MaxTotal = 2
  MaxBound = 1
  MaxVariants = 1
  MinEmit = 2
  SimMode = FALSE
  VarLens = {0}
  VarW = {1, 2, 3}
  VarBad = {"none"}
  HistChoices <- HistTwo
INVARIANT InvWellFormed
INVARIANT InvTiles
INVARIANT InvOrdered
INVARIANT InvNames
INVARIANT InvLag
INVARIANT InvL2CoversL1
INVARIANT InvVariants
