-------------------------------- MODULE MCE --------------------------------
(* C03 - multichannel expansion follows the wrap-and-zip law everywhere.

   Values are trees.  A node is a record [k, a, c, s, v]:
     k = "a"  an atom (argument leaf): a = its id; atoms are numbers (also literal 0 / 0.0 and
              False / True), units, opaque tuples
     k = "l"  a list (Python list or ChannelList): v = sequence of nodes
     k = "c"  (expected trees) the single-channel call on the atoms c = <<id, ...>>, one per argument
     k = "v"  (observed trees) a projected value: s = canonical text of a number / unit / tuple

   L1, the law:  Rows(args) - one level: as many element calls as the longest list argument has
   elements, call i taking element i modulo its length of every list argument and every other
   argument unchanged.  Expand(args) - the law applied recursively: if no argument is a list, the
   call on the atoms themselves (a "c" node); otherwise the list of Expand(row i).  Atoms (scalars and
   tuples) are never expanded.  Units created = number of "c" leaves (with multiplicity).
   OutArgs: what an output unit expands over - the bus followed by the top-level elements of the
   channel array, literal zeros (at any depth) replaced by one shared audio-rate silence.

   L2, implementation shaped (checked against L1 by TLC on every generated argument tuple):
     MultiNew      SynthObject._multi_new           (iterative, i % len, recursive call)
     ListBinop     utils.list_binop                 (pre-extends the shorter list, then zips)
     ListUnop      utils.list_unop
     Perform       ChannelList._multichannel_perform (utils.flop over receiver and arguments, the
                   element's own method does the rest)
     MaddImpl      ChannelList.madd

   The module is also the generator of argument tuples (templates with distinguishable atoms),
   printed as JSON together with the expected tree; the driver performs the expanded call and
   exactly the single-channel calls named by the "c" leaves on the real code, and TraceMCE.tla
   decides tree = Expand and the unit counts.                                                   *)
EXTENDS Naturals, Integers, Sequences, FiniteSets, TLC, Json

Atom(a) == [k |-> "a", a |-> a, c |-> <<>>, s |-> "", v |-> <<>>]
KAtom(kind) == [k |-> "a", a |-> 0, c |-> <<>>, s |-> kind, v |-> <<>>]    \* template atom of a kind
List(v) == [k |-> "l", a |-> 0, c |-> <<>>, s |-> "", v |-> v]
Combo(c) == [k |-> "c", a |-> 0, c |-> c, s |-> "", v |-> <<>>]
Val(s) == [k |-> "v", a |-> 0, c |-> <<>>, s |-> s, v |-> <<>>]
IsList(t) == t.k = "l"

Max(S) == CHOOSE x \in S : \A y \in S : y <= x
RECURSIVE SumR(_, _, _)
SumR(s, lo, hi) == IF lo > hi THEN 0 ELSE s[lo] + SumR(s, lo + 1, hi)
SumSeq(s) == SumR(s, 1, Len(s))
RECURSIVE CatR(_, _, _)
CatR(ss, lo, hi) == IF lo > hi THEN <<>> ELSE ss[lo] \o CatR(ss, lo + 1, hi)
Cat(ss) == CatR(ss, 1, Len(ss))

(* ------------------------------------------------------------------ L1 *)
WrapAt(t, i) == t.v[((i - 1) % Len(t.v)) + 1]          \* element i (1-based) modulo the length
\* one level of the law: the argument tuples of the element calls (a single row when nothing is a list)
Rows(args) ==
    LET lists == {j \in 1..Len(args) : IsList(args[j])} IN
    IF lists = {} THEN <<args>>
    ELSE LET longest == Max({Len(args[j].v) : j \in lists}) IN
         [i \in 1..longest |-> [j \in 1..Len(args) |-> IF j \in lists THEN WrapAt(args[j], i) ELSE args[j]]]
RECURSIVE Expand(_)
Expand(args) ==
    IF \A j \in 1..Len(args) : ~IsList(args[j]) THEN Combo([j \in 1..Len(args) |-> args[j].a])
    ELSE List([i \in 1..Len(Rows(args)) |-> Expand(Rows(args)[i])])

RECURSIVE Leaves(_)      \* depth-first sequence of the non-list nodes
Leaves(t) == IF IsList(t) THEN Cat([i \in 1..Len(t.v) |-> Leaves(t.v[i])]) ELSE <<t>>
NumLeaves(t) == Len(Leaves(t))
RECURSIVE Depth(_)
Depth(t) == IF IsList(t) THEN 1 + (IF t.v = <<>> THEN 0 ELSE Max({Depth(t.v[i]) : i \in 1..Len(t.v)})) ELSE 0
RECURSIVE Shape(_)       \* the tree with leaves erased
Shape(t) == IF IsList(t) THEN List([i \in 1..Len(t.v) |-> Shape(t.v[i])]) ELSE Atom(0)
RECURSIVE NoEmpty(_)
NoEmpty(t) == IF IsList(t) THEN t.v # <<>> /\ \A i \in 1..Len(t.v) : NoEmpty(t.v[i]) ELSE TRUE
AtomIds(t) == {Leaves(t)[i].a : i \in 1..Len(Leaves(t))}

\* output units: bus arguments, then the channel array's top-level elements; zeros -> silence atom z
RECURSIVE ReplaceZeros(_, _, _)
ReplaceZeros(t, zeros, z) ==
    IF IsList(t) THEN List([i \in 1..Len(t.v) |-> ReplaceZeros(t.v[i], zeros, z)])
    ELSE IF t.a \in zeros THEN Atom(z) ELSE t
AsList(t) == IF IsList(t) THEN t.v ELSE <<t>>
OutArgs(fixed, chans, zeros, z, audio) ==
    fixed \o (IF audio THEN AsList(ReplaceZeros(chans, zeros, z)) ELSE AsList(chans))

\* Expansion is a function of the argument values: the argument objects handed to a call are not changed
\* by it (so using the same list / ChannelList object in two calls of one build gives what two fresh, equal
\* lists give).  `after` is what the caller's argument objects look like after the call.
RECURSIVE ArgTree(_, _)
ArgTree(t, atext) == IF IsList(t) THEN List([i \in 1..Len(t.v) |-> ArgTree(t.v[i], atext)]) ELSE Val(atext[t.a])
Unchanged(as, after, atext) == after = [j \in 1..Len(as) |-> ArgTree(as[j], atext)]

(* ------------------------------------------------------------------ L2: the code's algorithms *)
RECURSIVE MultiNew(_)
MultiNew(args) ==        \* SynthObject._multi_new
    LET length == Max({0} \cup {Len(args[j].v) : j \in {j \in 1..Len(args) : IsList(args[j])}}) IN
    IF length = 0 THEN Combo([j \in 1..Len(args) |-> args[j].a])            \* cls._new1(*args)
    ELSE List([i \in 1..length |->
                 MultiNew([j \in 1..Len(args) |->
                              IF IsList(args[j]) THEN args[j].v[((i - 1) % Len(args[j].v)) + 1] ELSE args[j]])])

WrapExtend(s, n) == [i \in 1..n |-> s[((i - 1) % Len(s)) + 1]]
RECURSIVE ListBinop(_, _)
ListBinop(a, b) ==       \* utils.list_binop (lists only; tuples are outside the operator domain)
    IF IsList(a) /\ IsList(b) THEN
        LET a1 == IF Len(a.v) >= Len(b.v) THEN a.v ELSE WrapExtend(a.v, Len(b.v))
            b1 == IF Len(a.v) >= Len(b.v) THEN WrapExtend(b.v, Len(a.v)) ELSE b.v IN
        List([i \in 1..Len(a1) |-> ListBinop(a1[i], b1[i])])
    ELSE IF IsList(a) THEN List([i \in 1..Len(a.v) |-> ListBinop(a.v[i], b)])
    ELSE IF IsList(b) THEN List([i \in 1..Len(b.v) |-> ListBinop(a, b.v[i])])
    ELSE Combo(<<a.a, b.a>>)
RECURSIVE ListUnop(_)
ListUnop(a) == IF IsList(a) THEN List([i \in 1..Len(a.v) |-> ListUnop(a.v[i])]) ELSE Combo(<<a.a>>)

\* utils.flop of [receiver items, arg1, ...]: rows of wrapped columns (as_list bubbles atoms)
Flop(cols) == LET rowcount == Max({Len(cols[j]) : j \in 1..Len(cols)}) IN
              [i \in 1..rowcount |-> [j \in 1..Len(cols) |-> cols[j][((i - 1) % Len(cols[j])) + 1]]]
RECURSIVE Perform(_, _)
Perform(recv, args) ==   \* ChannelList._multichannel_perform: element.method(*row)
    LET rows == Flop(<<recv.v>> \o [j \in 1..Len(args) |-> AsList(args[j])]) IN
    List([i \in 1..Len(rows) |->
            IF IsList(rows[i][1]) THEN Perform(rows[i][1], Tail(rows[i]))    \* element is a ChannelList
            ELSE MultiNew(rows[i])])                                       \* UGen method -> constructor
MaddImpl(recv, args) ==  \* ChannelList.madd: MulAdd.new(self, mul, add)
    MultiNew(<<recv>> \o args)

(* ------------------------------------------------------------------ theorems *)
LenLaw(args) ==          \* as long as the longest list
    LET lists == {j \in 1..Len(args) : IsList(args[j])}  e == Expand(args) IN
    IF lists = {} THEN e.k = "c" ELSE IsList(e) /\ Len(e.v) = Max({Len(args[j].v) : j \in lists})
DepthLaw(args) == Depth(Expand(args)) = Max({0} \cup {Depth(args[j]) : j \in 1..Len(args)})
LeafLaw(args) ==         \* every leaf takes its j-th component from argument j; every atom is used
    LET ls == Leaves(Expand(args)) IN
    /\ \A i \in 1..Len(ls) : /\ ls[i].k = "c" /\ Len(ls[i].c) = Len(args)
                             /\ \A j \in 1..Len(args) : ls[i].c[j] \in AtomIds(args[j])
    /\ \A j \in 1..Len(args) : \A x \in AtomIds(args[j]) : \E i \in 1..Len(ls) : ls[i].c[j] = x
SingleListLaw(args) ==   \* one list argument: the result has exactly its shape
    LET lists == {j \in 1..Len(args) : IsList(args[j])} IN
    Cardinality(lists) = 1 => Shape(Expand(args)) = Shape(args[CHOOSE j \in lists : TRUE])

(* ------------------------------------------------------------------ generator *)
CONSTANTS Templates,    \* set of template names (see Tpl)
          MaxArgs, FirstList    \* FirstList: the first argument must be a list (receivers of methods/operators)
VARIABLES args, kinds, phase
vars == <<args, kinds, phase>>

ua == "ua"  uk == "uk"  tu == "t"  ze == "z"  nu == "n"  bo == "b"     \* z: literal 0 / 0.0, b: False / True
Tpl(name) ==
    CASE name = "n" -> KAtom(nu)
      [] name = "u" -> KAtom(ua)
      [] name = "k" -> KAtom(uk)
      [] name = "t" -> KAtom(tu)
      [] name = "z" -> KAtom(ze)
      [] name = "b" -> KAtom(bo)
      [] name = "Lf" -> List(<<KAtom(ua), KAtom(ze), KAtom(bo)>>)        \* falsy literals next to a unit
      [] name = "L1" -> List(<<KAtom(ua)>>)
      [] name = "L2" -> List(<<KAtom(nu), KAtom(ua)>>)
      [] name = "L2u" -> List(<<KAtom(ua), KAtom(uk)>>)
      [] name = "L3" -> List(<<KAtom(ua), KAtom(nu), KAtom(uk)>>)
      [] name = "L3u" -> List(<<KAtom(ua), KAtom(ua), KAtom(uk)>>)
      [] name = "L4" -> List(<<KAtom(ua), KAtom(nu), KAtom(uk), KAtom(ua)>>)
      [] name = "L4u" -> List(<<KAtom(ua), KAtom(uk), KAtom(uk), KAtom(ua)>>)
      [] name = "Lt" -> List(<<KAtom(tu), KAtom(nu)>>)
      [] name = "Lz" -> List(<<KAtom(ua), KAtom(ze), KAtom(nu)>>)
      [] name = "N21" -> List(<<List(<<KAtom(nu), KAtom(ua)>>), KAtom(uk)>>)
      [] name = "N21u" -> List(<<List(<<KAtom(ua), KAtom(ua)>>), KAtom(uk)>>)
      [] name = "N23" -> List(<<List(<<KAtom(ua), KAtom(nu)>>), List(<<KAtom(nu), KAtom(uk), KAtom(ua)>>)>>)
      [] name = "N23u" -> List(<<List(<<KAtom(ua), KAtom(uk)>>), List(<<KAtom(uk), KAtom(uk), KAtom(ua)>>)>>)
      [] name = "N1" -> List(<<List(<<KAtom(nu), KAtom(ua)>>)>>)
      [] name = "Nz" -> List(<<List(<<KAtom(ze), KAtom(ua)>>), KAtom(ze)>>)
      \* zeros only at the deepest level, under sub-lists that hold only lists / only units and lists
      [] name = "Dz1" -> List(<<List(<<List(<<KAtom(ua), KAtom(ze)>>), List(<<KAtom(ze), KAtom(ua)>>)>>)>>)
      [] name = "Dz2" -> List(<<List(<<KAtom(ua), List(<<KAtom(ze), KAtom(ua)>>)>>), KAtom(ua)>>)
      [] name = "Dz3" -> List(<<List(<<List(<<KAtom(ze)>>)>>), KAtom(ze), List(<<KAtom(ua), KAtom(ua)>>)>>)
      [] name = "Dz4" -> List(<<List(<<List(<<List(<<KAtom(ze), KAtom(ua)>>)>>)>>)>>)
      [] name = "Dz5" -> List(<<List(<<KAtom(ua), KAtom(ua)>>), List(<<List(<<KAtom(ua), List(<<KAtom(ze), KAtom(ze)>>)>>)>>)>>)
      [] name = "D3" -> List(<<List(<<List(<<KAtom(ua), KAtom(nu)>>), KAtom(uk)>>), KAtom(ua)>>)
      [] name = "D3u" -> List(<<List(<<List(<<KAtom(ua), KAtom(uk)>>), KAtom(uk)>>), KAtom(ua)>>)

RECURSIVE NumAtoms(_)
NumAtoms(t) == IF IsList(t) THEN SumSeq([i \in 1..Len(t.v) |-> NumAtoms(t.v[i])]) ELSE 1
RECURSIVE Number(_, _)   \* give the template's atoms the ids base+1, base+2, ... depth first
Number(t, base) ==
    IF IsList(t) THEN List([i \in 1..Len(t.v) |-> Number(t.v[i], base + SumSeq([x \in 1..(i - 1) |-> NumAtoms(t.v[x])]))])
    ELSE Atom(base + 1)
KindsOf(t) == LET ls == Leaves(t) IN [i \in 1..Len(ls) |-> ls[i].s]

Init == args = <<>> /\ kinds = <<>> /\ phase = "build"
AddArg == /\ phase = "build" /\ Len(args) < MaxArgs
          /\ \E name \in Templates :
                /\ (FirstList /\ args = <<>> => IsList(Tpl(name)))
                /\ args' = Append(args, Number(Tpl(name), Len(kinds)))
                /\ kinds' = kinds \o KindsOf(Tpl(name))
          /\ UNCHANGED phase
Emit == /\ phase = "build" /\ args # <<>>
        /\ PrintT(<<"CASE", ToJson([args |-> args, kinds |-> kinds, exp |-> Expand(args), rows |-> Rows(args)])>>)
        /\ phase' = "done" /\ UNCHANGED <<args, kinds>>
Next == AddArg \/ Emit
Spec == Init /\ [][Next]_vars

InvLen == LenLaw(args)
InvDepth == DepthLaw(args)
InvLeaf == args # <<>> => LeafLaw(args)
InvSingle == SingleListLaw(args)
InvMultiNew == MultiNew(args) = Expand(args)
InvBinop == Len(args) = 2 => ListBinop(args[1], args[2]) = Expand(args)
InvUnop == Len(args) = 1 => ListUnop(args[1]) = Expand(args)
InvPerform == Len(args) >= 1 /\ IsList(args[1]) => Perform(args[1], Tail(args)) = Expand(args)
InvMadd == Len(args) >= 1 /\ IsList(args[1]) => MaddImpl(args[1], Tail(args)) = Expand(args)
=============================================================================
