SPECIFICATION Spec
CONSTANTS
  Annots <- AnTiny
  OvChoices <- OvTiny
  DfChoices <- DfTiny
  SpChoices <- SpNone
  BoundVals = {24}
  MaxFuncs = 1
  MaxParams = 2
  MaxTotal = 2
  MaxBound = 0
  MaxVariants = 2
  MinEmit = 2
  SimMode = FALSE
  VarLens = {0}
  VarW = {1, 2, 3}
  VarBad = {"none"}
  HistChoices <- HistTwo
INVARIANT InvWellFormed
INVARIANT InvTiles
INVARIANT InvOrdered
INVARIANT InvNames
INVARIANT InvLag
INVARIANT InvL2CoversL1
INVARIANT InvVariants
