SPECIFICATION ESpec
CONSTANTS
  U = 8192
  MaxLenS = 2
  MaxLenT = 2
