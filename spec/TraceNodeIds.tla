---------------------------- MODULE TraceNodeIds ----------------------------
(* C->S binding for the node-id part of C16.  A trace is [id, client, init, ids]: the ids the real
   allocator (NodeIDAllocator directly, or through Server._next_node_id / Group / Synth
   construction) handed out, in order.  Judged with the real constants (M = 2^26).        *)
EXTENDS Naturals, Integers, Sequences, FiniteSets, TLC, Json, IOUtils
M == 0 Inits == {} Clients == {} MaxLen == 0
VARIABLES init, client, temp, hist
INSTANCE NodeIds
Traces == JsonDeserialize(IOEnv.VERIF_TRACES)
RealM == 67108864
VARIABLES tid, l
tvars == <<init, client, temp, hist, tid, l>>
TInit == tid \in 1 .. Len(Traces) /\ l = 1 /\ init = 0 /\ client = 0 /\ temp = 0 /\ hist = <<>>
Step == /\ l = 1
        /\ LET t == Traces[tid]
               why == IF t.exc # "" THEN "raised"
                      ELSE IdsWhy(t.ids, RealM, t.init, t.client) IN
           IF why = "ok" THEN l' = 2 ELSE PrintT(<<"REJ", t.id, 1, why>>) /\ l' = 0
        /\ UNCHANGED <<init, client, temp, hist, tid>>
Done == /\ l = 2 /\ PrintT(<<"ACC", Traces[tid].id>>) /\ l' = 0 - 1
        /\ UNCHANGED <<init, client, temp, hist, tid>>
TNext == Step \/ Done
TSpec == TInit /\ [][TNext]_tvars
=============================================================================
