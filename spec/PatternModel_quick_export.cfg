SPECIFICATION Spec
CONSTANTS
  NV = 12
  Mode = "quick"
  NS = 0
  NB = 4
