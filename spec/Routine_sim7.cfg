SPECIFICATION Spec
CONSTANTS
  QMode = "keyed"
  ProgSel = 7
  MaxLen = 2
  MaxSteps = 13
  MaxTime = 400
CONSTRAINT Bound

