----------------------------- MODULE TraceAlloc -----------------------------
(* C->S binding for C16: decides recorded executions of the real sc3 allocators with the L1
   operators of Alloc.tla.  A trace is [id, part, ev]:
     part = [total, logins, reserved, io, client]  - the address space and how it is divided; the
            partition the client must stay in is ClientCfg(part) (a bare ContiguousBlockAllocator
            (size, pos, addr_offset) is total=size, logins=1, reserved=pos, io=addr_offset);
     ev   = sequence of [n, x, k, r]:
            n="alloc": x = requested length, k = "ok" (r = address returned / index of the bus or
                       buffer object), "none" (None returned / "no space" exception, r = -1) or
                       "exc:<Type>" (anything else);
            n="free" : x = address freed (-1 = None), k = "ok" | "exc:<Type>".
   The spec never predicts which run the allocator picks: it decides that the one returned was
   legal and that "no space" was justified.  One verdict line per trace.                    *)
EXTENDS Naturals, Integers, Sequences, FiniteSets, TLC, Json, IOUtils
Cfgs == {} MaxN == 0
VARIABLES C, live, op, ret, prev
INSTANCE Alloc
Traces == JsonDeserialize(IOEnv.VERIF_TRACES)
VARIABLES tid, l
tvars == <<C, live, op, ret, prev, tid, l>>

PartOf(t) == ClientCfg(t.part.total, t.part.logins, t.part.reserved, t.part.io, t.part.client)
TInit == /\ tid \in 1 .. Len(Traces) /\ l = 1
         /\ C = PartOf(Traces[tid]) /\ live = {} /\ op = Op("init", 0) /\ ret = NONE /\ prev = {}

Why(e, lv) ==
    IF e.k \notin {"ok", "none"} THEN "raised"
    ELSE IF e.n = "alloc" THEN
        IF (e.k = "none") # (e.r = NONE) THEN "shape"
        ELSE LET w == AllocWhy(lv, C, e.x, e.r)
                 lv2 == AfterAlloc(lv, e.x, e.r) IN
             IF w # "ok" THEN w
             ELSE IF ~Disjoint(lv2) THEN "Disjoint"
             ELSE IF ~InsidePartition(lv2, C) THEN "InsidePartition"
             ELSE "ok"
    ELSE IF e.n = "free" THEN "ok"
    ELSE "unknown-event"
After(e, lv) == IF e.n = "alloc" THEN AfterAlloc(lv, e.x, e.r) ELSE AfterFree(lv, e.x)

Step == /\ l >= 1 /\ l <= Len(Traces[tid].ev)
        /\ LET e == Traces[tid].ev[l]
               why == Why(e, live) IN
           IF why = "ok"
           THEN /\ live' = After(e, live) /\ prev' = live /\ op' = Op(e.n, e.x) /\ ret' = e.r
                /\ l' = l + 1 /\ UNCHANGED <<C, tid>>
           ELSE /\ PrintT(<<"REJ", Traces[tid].id, l, why>>)
                /\ l' = 0 /\ UNCHANGED <<C, live, op, ret, prev, tid>>
Done == /\ l = Len(Traces[tid].ev) + 1
        /\ PrintT(<<"ACC", Traces[tid].id>>)
        /\ l' = 0 - 1 /\ UNCHANGED <<C, live, op, ret, prev, tid>>
TNext == Step \/ Done
TSpec == TInit /\ [][TNext]_tvars
=============================================================================
