----------------------------- MODULE TraceAlloc -----------------------------
(* C->S binding for C16: decides recorded executions of the real sc3 allocators with the L1
   operators of Alloc.tla.  A trace is [id, parts, ev]:
     parts = sequence of [total, logins, reported, reserved, io, client], one per allocator / Server object taking
            part: the address space, the client's LOCAL max_logins option, the number of logins the SERVER reported
            at registration (0 = none) and the client id it assigned; the partition the client must stay in is
            ClientCfgR(part) (a bare ContiguousBlockAllocator(size, pos, addr_offset) is total=size, logins=1,
            reported=0, reserved=pos, io=addr_offset, client=0);
     ev   = sequence of [w, n, x, k, r]: w = which allocator (index into parts) and
            n="alloc": x = requested length, k = "ok" (r = address returned / index of the bus or
                       buffer object), "none" (None returned / "no space" exception, r = -1) or
                       "exc:<Type>" (anything else);
            n="free" : x = address freed (-1 = None), k = "ok" | "exc:<Type>";
            n="blocks": bl = <<<<start, size>>, ...>> as returned by the allocator's blocks();
            n="freeall": Buffer.free_all(server) was called.
   Several allocators in one trace are different clients of one server: besides staying in its own partition, nobody
   may be handed an index another one holds (CrossClient).
   The spec never predicts which run the allocator picks: it decides that the one returned was
   legal and that "no space" was justified.  One verdict line per trace.                    *)
EXTENDS Naturals, Integers, Sequences, FiniteSets, TLC, Json, IOUtils
Cfgs == {} MaxN == 0
VARIABLES C, live, op, ret, prev
INSTANCE Alloc
Traces == JsonDeserialize(IOEnv.VERIF_TRACES)
VARIABLES tid, l
tvars == <<C, live, op, ret, prev, tid, l>>

PartOf(p) == ClientCfgR(p.total, p.logins, p.reported, p.reserved, p.io, p.client)
\* here C is the sequence of partitions and live the sequence of live sets, one per allocator
TInit == /\ tid \in 1 .. Len(Traces) /\ l = 1
         /\ C = [i \in 1 .. Len(Traces[tid].parts) |-> PartOf(Traces[tid].parts[i])]
         /\ live = [i \in 1 .. Len(Traces[tid].parts) |-> {}] /\ op = Op("init", 0) /\ ret = NONE /\ prev = {}

Why(e, lvs) ==
    LET lv == lvs[e.w]  c == C[e.w] IN
    IF e.k \notin {"ok", "none"} THEN "raised"
    ELSE IF e.n = "alloc" THEN
        IF (e.k = "none") # (e.r = NONE) THEN "shape"
        ELSE LET w == AllocWhy(lv, c, e.x, e.r)
                 lv2 == AfterAlloc(lv, e.x, e.r) IN
             IF w # "ok" THEN w
             ELSE IF ~Disjoint(lv2) THEN "Disjoint"
             ELSE IF ~InsidePartition(lv2, c) THEN "InsidePartition"
             ELSE IF \E j \in 1 .. Len(lvs) : j # e.w /\ Occ(lv2) \cap Occ(lvs[j]) # {} THEN "CrossClient"
             ELSE "ok"
    ELSE IF e.n = "free" THEN "ok"
    ELSE IF e.n = "blocks" THEN (IF BlocksAgree(lv, e.bl) THEN "ok" ELSE "BlocksAgree")     \* blocks(): exactly the live ranges
    ELSE IF e.n = "freeall" THEN "ok"                     \* Buffer.free_all: nothing stays live (judged by what follows)
    ELSE "unknown-event"
After(e, lvs) == [lvs EXCEPT ![e.w] = IF e.n = "alloc" THEN AfterAlloc(@, e.x, e.r)
                                       ELSE IF e.n = "free" THEN AfterFree(@, e.x)
                                       ELSE IF e.n = "freeall" THEN {} ELSE @]

Step == /\ l >= 1 /\ l <= Len(Traces[tid].ev)
        /\ LET e == Traces[tid].ev[l]
               why == Why(e, live) IN
           IF why = "ok"
           THEN /\ live' = After(e, live) /\ prev' = live[e.w] /\ op' = Op(e.n, e.x) /\ ret' = e.r
                /\ l' = l + 1 /\ UNCHANGED <<C, tid>>
           ELSE /\ PrintT(<<"REJ", Traces[tid].id, l, why>>)
                /\ l' = 0 /\ UNCHANGED <<C, live, op, ret, prev, tid>>
Done == /\ l = Len(Traces[tid].ev) + 1
        /\ PrintT(<<"ACC", Traces[tid].id>>)
        /\ l' = 0 - 1 /\ UNCHANGED <<C, live, op, ret, prev, tid>>
TNext == Step \/ Done
TSpec == TInit /\ [][TNext]_tvars
=============================================================================
