------------------------------ MODULE TraceMCE ------------------------------
(* C->S binding for C03.  A trace is [id, args, kinds, target, ev]; ev has one event
   [res, n, units, tab, atext, after] (tab and atext in the first event only); a second event is the same call repeated
   with the same argument objects:
     res    projected return value of the call with the list-shaped arguments (tree of "v" nodes,
            or one "x" node when the call raised)
     n      units created by that call;  units: their texts in creation order
     tab    the single-channel calls TLC's expected tree names: [c combo, r projected result, n units]
     atext  canonical text of every atom
     after  the caller's argument objects projected again after the call
   target = [kind "ctor"|"expr"|"out", cls, rate, expr, nfixed, audio, margs]
   Verdict clauses: law (tree = Expand with the measured single-channel results substituted),
   count (units created = sum over the combinations), op_direct (binary operators: a combination with a unit
   is the operator unit on (x, y) in operand order), direct (constructors that delegate directly:
   every combination is exactly one unit cls.rate(inputs in _multi_new order)), out_flat / silence. *)
EXTENDS Naturals, Integers, Sequences, FiniteSets, TLC, Json, IOUtils
Templates == {} MaxArgs == 0 FirstList == FALSE
VARIABLES args, kinds, phase
INSTANCE MCE
Traces == JsonDeserialize(IOEnv.VERIF_TRACES)
VARIABLES tid, l
tvars == <<args, kinds, phase, tid, l>>

TInit == /\ tid \in 1..Len(Traces) /\ l = 1 /\ phase = "trace"
         /\ args = Traces[tid].args /\ kinds = Traces[tid].kinds

Lookup(tab, c) == tab[CHOOSE i \in 1..Len(tab) : tab[i].c = c]
HasAll(tab, t) == LET ls == Leaves(t) IN \A i \in 1..Len(ls) : \E x \in 1..Len(tab) : tab[x].c = ls[i].c
RECURSIVE Subst(_, _)
Subst(t, tab) == IF IsList(t) THEN List([i \in 1..Len(t.v) |-> Subst(t.v[i], tab)]) ELSE Lookup(tab, t.c).r
RECURSIVE Join(_)
Join(ss) == IF ss = <<>> THEN "" ELSE IF Len(ss) = 1 THEN ss[1] ELSE ss[1] \o "," \o Join(Tail(ss))
Count(s, x) == Cardinality({i \in 1..Len(s) : s[i] = x})
SameBag(s1, s2) == /\ Len(s1) = Len(s2)
                   /\ \A i \in 1..Len(s1) : Count(s1, s1[i]) = Count(s2, s1[i])

WellFormedCase(t) ==
    /\ t.args # <<>> /\ \A j \in 1..Len(t.args) : NoEmpty(t.args[j])
    /\ \A j \in 1..Len(t.args) : AtomIds(t.args[j]) \subseteq 1..Len(t.kinds)

SilenceText == "DC.audio#0(n0.0)"          \* the silence unit ...
SilenceInput == "DC.audio#0(n0.0)[0]"      \* ... and its output as an input of the output unit
LeafText(tg, c, atext) ==
    tg.cls \o "." \o tg.rate \o "#0(" \o
    Join([j \in 1..Len(tg.margs) |-> IF tg.margs[j].p > 0 THEN atext[c[tg.margs[j].p]] ELSE tg.margs[j].d]) \o ")"

\* operators: a combination made of plain numbers only (no unit involved) is ordinary Python/builtin
\* arithmetic, not graph building - its value is not part of this property (C15 owns it)
NumbersOnly(t, c) == t.target.kind = "expr" /\ \A j \in 1..Len(c) : t.kinds[c[j]] \in {"n", "z", "b"}
RECURSIVE Agree(_, _, _, _)
Agree(t, res, exp, tab) ==
    IF IsList(exp) THEN /\ IsList(res) /\ Len(res.v) = Len(exp.v)
                        /\ \A i \in 1..Len(exp.v) : Agree(t, res.v[i], exp.v[i], tab)
    ELSE NumbersOnly(t, exp.c) \/ res = Lookup(tab, exp.c).r

\* binary operators: a combination with a unit in it is graph building - it must be exactly the operator unit
\* on (x, y) in the order the operator takes its operands (opcode and operand order measured on two units);
\* numbers 0, 1, False, True are left out (constructor shortcuts), tuples are not operands
RateOfKind(k) == IF k = "ua" THEN "audio" ELSE IF k = "uk" THEN "control" ELSE "scalar"
MaxRate(r1, r2) == IF "audio" \in {r1, r2} THEN "audio" ELSE IF "control" \in {r1, r2} THEN "control" ELSE "scalar"
OpJudged(t, c) == /\ Len(c) = 2 /\ \A j \in 1..2 : t.kinds[c[j]] \in {"n", "ua", "uk"}
                  /\ \E j \in 1..2 : t.kinds[c[j]] \in {"ua", "uk"}
OpText(t, c, atext) ==
    "BinaryOpUGen." \o MaxRate(RateOfKind(t.kinds[c[1]]), RateOfKind(t.kinds[c[2]])) \o "#" \o ToString(t.target.special)
    \o "(" \o atext[c[t.target.order[1]]] \o "," \o atext[c[t.target.order[2]]] \o ")"

GenericWhy(t, e) ==
    LET exp == Expand(t.args) IN
    IF ~HasAll(t.ev[1].tab, exp) THEN "missing_single_calls"
    ELSE LET cs == Leaves(exp)
             exc == {i \in 1..Len(cs) : Lookup(t.ev[1].tab, cs[i].c).r.k = "x"}
             rel == {i \in exc : ~NumbersOnly(t, cs[i].c)} IN
         IF e.res.k = "x" /\ (exc = {} \/ e.res # Lookup(t.ev[1].tab, cs[CHOOSE i \in exc : \A y \in exc : i <= y].c).r) THEN "law"
         ELSE IF e.res.k # "x" /\ (rel # {} \/ ~Agree(t, e.res, exp, t.ev[1].tab)) THEN "law"
         ELSE IF exc = {} /\ e.n # SumSeq([i \in 1..Len(cs) |-> Lookup(t.ev[1].tab, cs[i].c).n]) THEN "count"
         ELSE IF t.target.kind = "ctor"
                 /\ \E i \in 1..Len(cs) : \/ Lookup(t.ev[1].tab, cs[i].c).n # 1
                                          \/ Lookup(t.ev[1].tab, cs[i].c).r # Val(LeafText(t.target, cs[i].c, t.ev[1].atext))
              THEN "direct"
         ELSE IF t.target.kind = "expr" /\ t.target.special >= 0 /\ Len(t.args) = 2
                 /\ \E i \in 1..Len(cs) : OpJudged(t, cs[i].c)
                                          /\ Lookup(t.ev[1].tab, cs[i].c).r # Val(OpText(t, cs[i].c, t.ev[1].atext))
              THEN "op_direct"
         ELSE "ok"

\* convenience methods of ChannelList: one level of the law, the element calls are measured
\* (tab[i] = [row the driver was given, r result, n units] for element call i)
OneLevelWhy(t, e) ==
    LET rows == Rows(t.args) IN
    IF ~IsList(t.args[1]) THEN "illformed"
    ELSE IF Len(t.ev[1].tab) # Len(rows) \/ \E i \in 1..Len(rows) : t.ev[1].tab[i].row # rows[i] THEN "missing_single_calls"
    ELSE LET exc == {i \in 1..Len(rows) : t.ev[1].tab[i].r.k = "x"}
             expected == IF exc = {} THEN List([i \in 1..Len(rows) |-> t.ev[1].tab[i].r])
                         ELSE t.ev[1].tab[CHOOSE i \in exc : \A y \in exc : i <= y].r IN
         IF e.res # expected THEN "law"
         ELSE IF exc = {} /\ e.n # SumSeq([i \in 1..Len(rows) |-> t.ev[1].tab[i].n]) THEN "count"
         ELSE "ok"

OutWhy(t, e) ==
    LET tg == t.target
        zeros == {a \in 1..Len(t.kinds) : t.kinds[a] = "z"}
        oargs == OutArgs(SubSeq(t.args, 1, tg.nfixed), t.args[tg.nfixed + 1], zeros, 0, tg.audio)
        cs == Leaves(Expand(oargs))
        AText(a) == IF a = 0 THEN SilenceInput ELSE t.ev[1].atext[a]
        expOuts == [i \in 1..Len(cs) |->
                      tg.cls \o "." \o tg.rate \o "#0(" \o Join([j \in 1..Len(cs[i].c) |-> AText(cs[i].c[j])]) \o ")"]
        gotOuts == SelectSeq(e.units, LAMBDA s : s # SilenceText)
        nsil == Count(e.units, SilenceText)
        used == \E i \in 1..Len(cs) : \E j \in 1..Len(cs[i].c) : cs[i].c[j] = 0 IN
    IF Len(t.args) # tg.nfixed + 1 THEN "illformed"
    ELSE IF e.res.k = "x" THEN "raised"
    ELSE IF ~SameBag(gotOuts, expOuts) THEN "out_flat"
    ELSE IF used /\ nsil < 1 THEN "silence"
    ELSE "ok"

\* expansion is a function of the argument VALUES and leaves the arguments as they were: after the call the
\* caller's argument objects still project to the request's trees (Unchanged in MCE.tla); event 2 is the same
\* call made again with the very same argument objects in the same build - it is judged by the same clauses
\* against the same single-channel results (aliasing across calls)
Step == /\ l >= 1 /\ l <= Len(Traces[tid].ev)
        /\ LET t == Traces[tid]  e == t.ev[l]
               why == IF ~WellFormedCase(t) THEN "illformed"
                      ELSE IF ~Unchanged(t.args, e.after, t.ev[1].atext)
                           THEN (IF l = 1 THEN "args_mutated" ELSE "args_mutated_by_second_call")
                      ELSE IF t.target.kind = "out" THEN OutWhy(t, e)
                      ELSE IF t.target.level = "one" THEN OneLevelWhy(t, e) ELSE GenericWhy(t, e) IN
           IF why = "ok" THEN l' = l + 1
           ELSE /\ PrintT(<<"REJ", t.id, l, why>>) /\ l' = 0
        /\ UNCHANGED <<args, kinds, phase, tid>>
Done == /\ l = Len(Traces[tid].ev) + 1
        /\ PrintT(<<"ACC", Traces[tid].id>>)
        /\ l' = 0 - 1 /\ UNCHANGED <<args, kinds, phase, tid>>
TNext == Step \/ Done
TSpec == TInit /\ [][TNext]_tvars
=============================================================================
