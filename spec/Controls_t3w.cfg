SPECIFICATION Spec
CONSTANTS
  Annots <- AnNone
  OvChoices <- OvTwo
  DfChoices <- DfTiny
  SpChoices <- SpNone
  BoundVals = {24}
  MaxFuncs = 4
  MaxParams = 1
  MaxTotal = 4
  MaxBound = 1
  MaxVariants = 0
  MinEmit = 2
  SimMode = FALSE
  VarLens = {0}
  VarW = {1, 2, 3}
  VarBad = {"none"}
  HistChoices <- HistTwo
INVARIANT InvWellFormed
INVARIANT InvTiles
INVARIANT InvOrdered
INVARIANT InvNames
INVARIANT InvLag
INVARIANT InvL2CoversL1
INVARIANT InvVariants
