SPECIFICATION Spec
CONSTANT MaxLen = 9
INVARIANT PrefixOfLaw
INVARIANT LengthOfLaw
INVARIANT AtMostOneLost
