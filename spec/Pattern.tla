------------------------------ MODULE Pattern ------------------------------
(* C13 - what a pattern expression denotes.

   A pattern expression is a record with a tag t and typed fields (every field name has one type
   everywhere):  v,k,r,o : Int   w : Seq(Int)   l : Seq(Expr)   p,a,b,c,n,st : Expr   f : STRING
   wr : BOOLEAN   tp : Seq([sd : Int, d : Seq(Int)]).    tl,q : Int.   r = INF means float('inf') repeats.

   D(p, N) = [s, ok]: s = the first N values of the sequence the *documentation* of the class gives
   (SuperCollider pattern documentation, sc3 argument order), defined by structural recursion.
   Len(s) = N: cut, nothing is said about what follows.  Len(s) < N and ok: the stream ends after s.
   ok = FALSE: the expression is outside what the oracle defines (it would never yield the next value
   - e.g. infinitely many empty repeats -, needs more look-ahead than the horizon, or applies arithmetic
   to a non-number); such expressions are never generated and a trace carrying one is a machinery error.

   Two readings of an operand x:  E(x, N) = x *embedded* in place (a number or list is ONE value, a pattern
   is its whole sequence);  S(x, N) = x *as a stream* (a number or list repeats forever, a pattern is its
   sequence).  List patterns embed their items; filter/operator patterns read their operands as streams.

   A value is a sequence of integer tokens: <<x>> a number, <<LO>> \o items \o <<LC>> a list,
   <<TO>> \o items \o <<TC>> a tuple - so that any two values can be compared without type errors.   *)
EXTENDS Naturals, Integers, Sequences, FiniteSets, TLC

INF == 1000000
LO == 2000000001
LC == 2000000002
TO == 2000000003
TC == 2000000004

Min2(a, b) == IF a < b THEN a ELSE b
Max2(a, b) == IF a > b THEN a ELSE b
AbsI(x) == IF x < 0 THEN 0 - x ELSE x
Take(s, n) == IF n >= Len(s) THEN s ELSE IF n <= 0 THEN <<>> ELSE SubSeq(s, 1, n)
Drop(s, n) == IF n >= Len(s) THEN <<>> ELSE IF n <= 0 THEN s ELSE SubSeq(s, n + 1, Len(s))
RepV(v, n) == [i \in 1..n |-> v]
RECURSIVE FlatSeq(_)
FlatSeq(ss) == IF ss = <<>> THEN <<>> ELSE IF Len(ss) = 1 THEN ss[1]
               ELSE LET h == Len(ss) \div 2 IN FlatSeq(SubSeq(ss, 1, h)) \o FlatSeq(SubSeq(ss, h + 1, Len(ss)))
RECURSIVE SumTo(_, _)
SumTo(s, i) == IF i <= 0 THEN 0 ELSE s[i][1] + SumTo(s, i - 1)        \* s: sequence of number values
PrefixOf(a, b) == Len(a) <= Len(b) /\ a = Take(b, Len(a))

(* ---- values ---- *)
IsNum(v) == Len(v) = 1 /\ v[1] < LO
IsList(v) == Len(v) >= 2 /\ v[1] = LO
BIG == 30000                                   \* arithmetic is defined on numbers up to BIG (no 32-bit overflow in TLC)
Small(x) == x <= BIG /\ 0 - BIG <= x
AllNum(s) == \A i \in 1..Len(s) : IsNum(s[i]) /\ Small(s[i][1])
LitV(w) == <<LO>> \o w \o <<LC>>
MkList(vals) == <<LO>> \o FlatSeq(vals) \o <<LC>>
MkTuple(vals) == <<TO>> \o FlatSeq(vals) \o <<TC>>
\* top-level items of a list/tuple value
RECURSIVE ItemsR(_, _, _, _, _)
ItemsR(v, i, depth, cur, acc) ==
    IF i >= Len(v) THEN acc                                  \* the last token closes v itself
    ELSE LET x == v[i]
             d2 == IF x = LO \/ x = TO THEN depth + 1 ELSE IF x = LC \/ x = TC THEN depth - 1 ELSE depth
             c2 == Append(cur, x) IN
         IF d2 = 0 THEN ItemsR(v, i + 1, 0, <<>>, Append(acc, c2)) ELSE ItemsR(v, i + 1, d2, c2, acc)
Items(v) == ItemsR(v, 2, 0, <<>>, <<>>)
\* sc3 Pflatten: "flatten n levels": n <= 0 leaves the value whole, 1 yields the items of a list, 2 the items' items...
RECURSIVE FlatN(_, _)
FlatN(v, n) == IF n <= 0 \/ ~IsList(v) THEN <<v>>
               ELSE LET it == Items(v) IN FlatSeq([i \in 1..Len(it) |-> FlatN(it[i], n - 1)])

(* ---- named functions (the table the drivers build the same lambdas from) ---- *)
F1(f, x) == CASE f = "inc" -> x + 1 [] f = "dbl" -> 2 * x [] f = "neg" -> 0 - x [] f = "abs" -> AbsI(x)
              [] f = "sq" -> x * x
Pred1(f, x) == CASE f = "even" -> x % 2 = 0 [] f = "odd" -> x % 2 = 1 [] f = "gt1" -> x > 1 [] f = "le2" -> x <= 2
F2(f, a, b) == CASE f = "add" -> a + b [] f = "sub" -> a - b [] f = "mul" -> a * b
                 [] f = "min" -> Min2(a, b) [] f = "max" -> Max2(a, b)
WrapI(x, lo, hi) == ((x - lo) % (hi - lo + 1)) + lo           \* integer wrap: both bounds inclusive
F3(f, x, lo, hi) == CASE f = "clip" -> Max2(Min2(x, hi), lo) [] f = "wrap" -> WrapI(x, lo, hi)

(* ---- results ---- *)
Res(s, ok) == [s |-> s, ok |-> ok]
Bad == Res(<<>>, FALSE)
MinLen(ds) == LET ls == {Len(ds[i].s) : i \in 1..Len(ds)} IN CHOOSE m \in ls : \A x \in ls : m <= x
\* operands pulled in the order ds[1], ds[2], ... each asked for H values: who ends the lock-step run
LockOk(ds, H) == LET k == MinLen(ds) IN
    IF k >= H THEN FALSE ELSE ds[CHOOSE i \in 1..Len(ds) : Len(ds[i].s) = k /\ \A j \in 1..(i-1) : Len(ds[j].s) > k].ok
Rot(l, o) == LET n == Len(l) IN [i \in 1..n |-> l[((i - 1 + o) % n) + 1]]

RECURSIVE D(_, _), DD(_, _), CatE(_, _, _, _), Cycles(_, _, _, _, _, _), SwLoop(_, _, _, _, _, _),
          TupLoop(_, _, _, _), SlideLoop(_, _, _, _, _, _, _, _), SeedLoop(_, _, _, _, _)

E(x, N) == IF N <= 0 THEN Res(<<>>, TRUE)
           ELSE IF x.t = "int" THEN Res(<< <<x.v>> >>, TRUE)
           ELSE IF x.t = "lit" THEN Res(<< LitV(x.w) >>, TRUE)
           ELSE D(x, N)
S(x, N) == IF N <= 0 THEN Res(<<>>, TRUE)
           ELSE IF x.t = "int" THEN Res(RepV(<<x.v>>, N), TRUE)
           ELSE IF x.t = "lit" THEN Res(RepV(LitV(x.w), N), TRUE)
           ELSE D(x, N)

\* items embedded one after the other
CatE(items, i, N, acc) ==
    IF Len(acc) >= N THEN Res(Take(acc, N), TRUE)
    ELSE IF i > Len(items) THEN Res(acc, TRUE)
    ELSE LET d == E(items[i], N - Len(acc)) IN
         IF ~d.ok THEN Res(acc \o d.s, FALSE) ELSE CatE(items, i + 1, N, acc \o d.s)

\* what is embedded in repeat j (0-based) of a cyclic list pattern
SerCycles(p) == IF p.r = INF THEN INF ELSE (p.r + Len(p.l) - 1) \div Len(p.l)
CycleItems(p, j) ==
    CASE p.t = "seq" -> Rot(p.l, p.o)
      [] p.t = "pn" -> <<p.p>>
      [] p.t = "ser" -> IF p.r = INF \/ (j + 1) * Len(p.l) <= p.r THEN Rot(p.l, p.o)
                        ELSE Take(Rot(p.l, p.o), p.r - j * Len(p.l))
      [] p.t = "place" -> LET rl == Rot(p.l, p.o) IN
                          [i \in 1..Len(rl) |-> IF rl[i].t = "arr" THEN rl[i].l[(j % Len(rl[i].l)) + 1] ELSE rl[i]]
Cycles(p, j, reps, N, acc, empties) ==
    IF Len(acc) >= N THEN Res(Take(acc, N), TRUE)
    ELSE IF j >= reps THEN Res(acc, TRUE)
    ELSE IF empties > 6 THEN Res(acc, reps # INF)       \* endless empty repeats never yield again
    ELSE LET d == CatE(CycleItems(p, j), 1, N - Len(acc), <<>>) IN
         IF ~d.ok THEN Res(acc \o d.s, FALSE)
         ELSE Cycles(p, j + 1, reps, N, acc \o d.s, IF d.s = <<>> THEN empties + 1 ELSE 0)

SwLoop(p, ws, i, N, acc, H) ==
    IF Len(acc) >= N THEN Res(acc, TRUE)
    ELSE IF i > Len(ws.s) THEN Res(acc, IF Len(ws.s) >= H THEN FALSE ELSE ws.ok)
    ELSE IF ~IsNum(ws.s[i]) THEN Bad
    ELSE LET d == E(p.l[(ws.s[i][1] % Len(p.l)) + 1], N - Len(acc)) IN
         IF ~d.ok THEN Res(acc \o d.s, FALSE) ELSE SwLoop(p, ws, i + 1, N, acc \o d.s, H)

RECURSIVE Sw1Loop(_, _, _, _, _)
Sw1Loop(ws, ss, i, cnt, acc) ==
    IF i > Len(ws.s) THEN Res(acc, ws.ok)
    ELSE IF ~IsNum(ws.s[i]) THEN Bad
    ELSE LET j == (ws.s[i][1] % Len(ss)) + 1 IN
         IF cnt[j] < Len(ss[j].s)
         THEN Sw1Loop(ws, ss, i + 1, [cnt EXCEPT ![j] = @ + 1], Append(acc, ss[j].s[cnt[j] + 1]))
         ELSE Res(acc, ss[j].ok)

\* Placep(list, repeats, offset) (sclang Ppatlace): one stream per item (rotated by offset), made once; every pass takes
\* ONE value from each stream that still has one, in list order; it ends after `repeats` passes or with a pass in
\* which no stream had a value (ended streams stay ended and are just skipped)
RECURSIVE PlacepLoop(_, _, _, _, _)
PlacepLoop(ss, j, reps, N, acc) ==
    IF Len(acc) >= N THEN Res(Take(acc, N), TRUE)
    ELSE IF j >= reps THEN Res(acc, TRUE)
    ELSE LET live == {i \in 1..Len(ss) : j < Len(ss[i].s)}
             pass == FlatSeq([i \in 1..Len(ss) |-> IF i \in live THEN <<ss[i].s[j + 1]>> ELSE <<>>]) IN
         IF \E i \in 1..Len(ss) : i \notin live /\ ~ss[i].ok THEN Res(acc, FALSE)
         ELSE IF live = {} THEN Res(acc, TRUE)
         ELSE PlacepLoop(ss, j + 1, reps, N, acc \o pass)
TupLoop(p, j, N, acc) ==
    IF Len(acc) >= N THEN Res(acc, TRUE)
    ELSE IF j >= p.r THEN Res(acc, TRUE)
    ELSE LET m == N - Len(acc)
             ds == [i \in 1..Len(p.l) |-> S(p.l[i], m)]
             k == MinLen(ds)
             tups == [q \in 1..k |-> MkTuple([i \in 1..Len(ds) |-> ds[i].s[q]])] IN
         IF k >= m THEN Res(acc \o tups, TRUE)
         ELSE IF ~LockOk(ds, m) THEN Res(acc \o tups, FALSE)
         ELSE IF k = 0 /\ (p.r = INF \/ j > 6) THEN Res(acc, p.r # INF)
         ELSE TupLoop(p, j + 1, N, acc \o tups)

SegItems(p, pos, n) ==
    LET size == Len(p.l) IN
    IF p.wr THEN [items |-> [j \in 1..n |-> p.l[((pos + j - 1) % size) + 1]], stop |-> FALSE]
    ELSE LET m == IF pos < 0 THEN 0 ELSE Max2(0, Min2(n, size - pos)) IN
         [items |-> [j \in 1..m |-> p.l[pos + j]], stop |-> m < n]
SlideLoop(p, ls, ss, r, pos, N, acc, H) ==
    IF Len(acc) >= N THEN Res(acc, TRUE)
    ELSE IF r >= p.r THEN Res(acc, TRUE)
    ELSE IF r >= H THEN Res(acc, FALSE)
    ELSE IF r + 1 > Len(ls.s) THEN Res(acc, ls.ok)
    ELSE IF ~IsNum(ls.s[r + 1]) THEN Bad
    ELSE LET seg == SegItems(p, pos, Max2(0, ls.s[r + 1][1]))
             d == CatE(seg.items, 1, N - Len(acc), <<>>)
             acc2 == acc \o d.s IN
         IF ~d.ok THEN Res(acc2, FALSE)
         ELSE IF Len(acc2) >= N THEN Res(acc2, TRUE)
         ELSE IF seg.stop THEN Res(acc2, TRUE)
         ELSE IF r + 1 > Len(ss.s) THEN Res(acc2, ss.ok)
         ELSE IF ~IsNum(ss.s[r + 1]) THEN Bad
         ELSE SlideLoop(p, ls, ss, r + 1, pos + ss.s[r + 1][1], N, acc2, H)

RECURSIVE ClumpLoop(_, _, _, _, _)
ClumpLoop(vs, ns, i, pos, acc) ==
    IF i > Len(ns.s) THEN Res(acc, ns.ok)
    ELSE LET n == Max2(0, ns.s[i][1]) IN
         IF pos + n <= Len(vs.s)
         THEN ClumpLoop(vs, ns, i + 1, pos + n, Append(acc, MkList(SubSeq(vs.s, pos + 1, pos + n))))
         ELSE IF ~vs.ok THEN Res(acc, FALSE)
         ELSE IF pos < Len(vs.s) THEN Res(Append(acc, MkList(SubSeq(vs.s, pos + 1, Len(vs.s)))), TRUE)  \* last clump partial
         ELSE Res(acc, TRUE)

RECURSIVE GeomLoop(_, _, _, _)
GeomLoop(ss, i, cur, acc) ==
    IF i > Len(ss.s) THEN Res(acc, ss.ok)
    ELSE IF ~Small(cur) THEN Res(acc, FALSE)
    ELSE GeomLoop(ss, i + 1, cur * ss.s[i][1], Append(acc, <<cur>>))

\* Pconst(pattern, sum, tolerance): "close enough" = the running sum rounded UP to a multiple of the tolerance
\* reaches the sum.  Numbers here are integers in the lattice unit of the expression (see "sc" below), so the
\* rule is exact: ceil(x / T) * T >= S.  T = 0 stands for a tolerance finer than the lattice (the default 0.001
\* with lattice steps >= 1/64): then the rule is x >= S.
CeilDiv(a, b) == 0 - ((0 - a) \div b)
Reached(x, sum, tl) == IF tl <= 0 THEN x >= sum ELSE CeilDiv(x, tl) * tl >= sum
RECURSIVE ConstLoop(_, _, _, _, _, _, _)
ConstLoop(vs, sum, tl, i, acc, out, N) ==
    IF i > Len(vs.s) THEN (IF Len(vs.s) >= N THEN Res(out, TRUE)
                           ELSE IF vs.ok THEN Res(Append(out, <<sum - acc>>), TRUE) ELSE Res(out, FALSE))
    ELSE LET nx == acc + vs.s[i][1] IN
         IF Reached(nx, sum, tl) THEN Res(Append(out, <<sum - acc>>), TRUE)
         ELSE ConstLoop(vs, sum, tl, i + 1, nx, Append(out, vs.s[i]), N)

RECURSIVE IfLoop(_, _, _, _, _, _, _)
IfLoop(cs, ts, fs, i, ct, cf, acc) ==
    IF i > Len(cs.s) THEN Res(acc, cs.ok)
    ELSE IF cs.s[i][1] # 0
         THEN (IF ct < Len(ts.s) THEN IfLoop(cs, ts, fs, i + 1, ct + 1, cf, Append(acc, ts.s[ct + 1])) ELSE Res(acc, ts.ok))
         ELSE (IF cf < Len(fs.s) THEN IfLoop(cs, ts, fs, i + 1, ct, cf + 1, Append(acc, fs.s[cf + 1])) ELSE Res(acc, fs.ok))

(* ---- random leaves under Pseed: the generator is an uninterpreted tape of draws ----
   Pseed(seed, R): for every seed value the pattern R is embedded with a generator freshly seeded with it.
   The tape tp[seed] lists the successive results of "draw an integer below K" from that generator; R is built
   from random leaves that use exactly that draw, so draw i of the embedding is tape[i]:
     rand  : Prand(list of K numbers, n)      value = list[draw]
     white : Pwhite(lo, lo + K, n)            value = lo + draw
     shuf  : Pshuffle(list, repeats)          the list in the order pm[seed] (a permutation of 1..Len(list) the
                                              generator's shuffle produces), repeated; only alone under Pseed
     rout  : Prout(f), f yields lo + rand(K) n times   value = lo + draw (a routine-backed pattern)
   composed sequentially (rseq: one after the other, draws in that order), in lock-step (rtuple, rbin over two
   operands - leaves or plain numbers -: first operand draws first for every output), under a unary operator (run)
   or under Pif (rif: only the chosen operand draws).                                                 *)
RECURSIVE DR(_, _, _, _), RSeqLoop(_, _, _, _, _, _, _, _), RIfLoop(_, _, _, _, _, _, _, _, _)
\* rout: Prout(function) whose function yields lo + (a draw below K), n times: a routine-backed pattern - its stream is a
\* Routine of its own, which must draw from the generator of the seeded routine it is made in (directly under Pseed,
\* or made eagerly by an operator pattern / Pif).  An operand of the lock-step forms may also be a plain number
\* (no draw, never ends).
RLeafVal(q, d) == IF q.t = "rand" THEN q.l[d + 1].v ELSE IF q.t = "int" THEN q.v ELSE q.k + d
RLeafLen(q, N) == IF q.t = "int" THEN N ELSE Min2(q.r, N)
RRate(q) == IF q.t = "int" THEN 0 ELSE 1
RFull(q) == IF q.t = "int" THEN INF ELSE q.r
\* returns [s, c, ok]: values, draws consumed, ok = FALSE when the tape is too short to say
DR(q, N, tape, off) ==
    IF N <= 0 THEN [s |-> <<>>, c |-> 0, ok |-> TRUE]
    ELSE CASE q.t = "shuf" ->
              LET perm == tape  n == Len(q.l)  m == IF q.r = INF THEN N ELSE Min2(q.r * n, N) IN
              IF Len(perm) # n THEN [s |-> <<>>, c |-> 0, ok |-> FALSE]
              ELSE [s |-> [i \in 1..m |-> <<q.l[perm[((i - 1) % n) + 1]].v>>], c |-> 0, ok |-> TRUE]
           [] q.t \in {"rand", "white", "rout"} ->
              LET m == RLeafLen(q, N) IN
              IF off + m > Len(tape) THEN [s |-> <<>>, c |-> 0, ok |-> FALSE]
              ELSE [s |-> [i \in 1..m |-> <<RLeafVal(q, tape[off + i])>>], c |-> m, ok |-> TRUE]
           [] q.t = "rseq" -> RSeqLoop(q, N, tape, off, 0, 1, <<>>, 0)     \* Pseq(list of random leaves, reps)
           [] q.t \in {"rtuple", "rbin"} ->     \* two operands in lock-step, q.a is pulled (draws) before q.b
              LET m == Min2(RLeafLen(q.a, N), RLeafLen(q.b, N))
                  ra == RRate(q.a)  per == RRate(q.a) + RRate(q.b)
                  extra == IF m < N /\ RFull(q.a) > m THEN ra ELSE 0   \* a was pulled once more before b ended
              IN IF off + per * m + extra > Len(tape) THEN [s |-> <<>>, c |-> 0, ok |-> FALSE]
                 ELSE [s |-> [i \in 1..m |->
                                LET x == RLeafVal(q.a, IF ra = 1 THEN tape[off + per * (i - 1) + 1] ELSE 0)
                                    y == RLeafVal(q.b, IF RRate(q.b) = 1 THEN tape[off + per * (i - 1) + ra + 1] ELSE 0) IN
                                IF q.t = "rtuple" THEN MkTuple(<< <<x>>, <<y>> >>) ELSE <<F2(q.f, x, y)>>],
                       c |-> per * m + extra, ok |-> TRUE]
           [] q.t = "run" ->                    \* unary operator over a leaf
              LET d == DR(q.a, N, tape, off) IN [s |-> [i \in 1..Len(d.s) |-> <<F1(q.f, d.s[i][1])>>], c |-> d.c, ok |-> d.ok]
           [] q.t = "rif" ->                    \* Pif(condition = a (no draws), b, c): the chosen operand is pulled, in that order
              LET cs == S(q.a, N) IN
              IF ~cs.ok \/ ~AllNum(cs.s) THEN [s |-> <<>>, c |-> 0, ok |-> FALSE] ELSE RIfLoop(q, cs.s, tape, off, 1, 0, 0, 0, <<>>)
\* i: next condition value; nb, nc: values taken from b / c so far; c: draws so far
RIfLoop(q, cs, tape, off, i, nb, nc, c, acc) ==
    IF i > Len(cs) THEN [s |-> acc, c |-> c, ok |-> TRUE]
    ELSE LET x == IF cs[i][1] # 0 THEN q.b ELSE q.c
             taken == IF cs[i][1] # 0 THEN nb ELSE nc IN
         IF taken >= RFull(x) THEN [s |-> acc, c |-> c, ok |-> TRUE]             \* the chosen operand has ended
         ELSE IF RRate(x) = 1 /\ off + c + 1 > Len(tape) THEN [s |-> acc, c |-> c, ok |-> FALSE]
         ELSE RIfLoop(q, cs, tape, off, i + 1, IF cs[i][1] # 0 THEN nb + 1 ELSE nb, IF cs[i][1] # 0 THEN nc ELSE nc + 1,
                      c + RRate(x), Append(acc, <<RLeafVal(x, IF RRate(x) = 1 THEN tape[off + c + 1] ELSE 0)>>))
RSeqLoop(q, N, tape, off, j, i, acc, c) ==
    IF Len(acc) >= N \/ j >= q.r THEN [s |-> Take(acc, N), c |-> c, ok |-> TRUE]
    ELSE LET d == DR(q.l[i], N - Len(acc), tape, off + c) n == Len(q.l) IN
         IF ~d.ok THEN d
         ELSE IF d.s = <<>> /\ q.r = INF THEN [s |-> acc, c |-> c, ok |-> FALSE]
         ELSE RSeqLoop(q, N, tape, off, IF i = n THEN j + 1 ELSE j, IF i = n THEN 1 ELSE i + 1, acc \o d.s, c + d.c)
TapeOf(tp, sd) == IF \E i \in 1..Len(tp) : tp[i].sd = sd THEN tp[CHOOSE i \in 1..Len(tp) : tp[i].sd = sd].d ELSE <<>>
SeedLoop(p, sds, i, N, acc) ==
    IF Len(acc) >= N THEN Res(acc, TRUE)
    ELSE IF i > Len(sds.s) THEN Res(acc, IF Len(sds.s) >= N THEN FALSE ELSE sds.ok)
    ELSE IF ~IsNum(sds.s[i]) THEN Bad
    ELSE LET d == DR(p.p, N - Len(acc), TapeOf(IF p.p.t = "shuf" THEN p.pm ELSE p.tp, sds.s[i][1]), 0) IN
         IF ~d.ok \/ d.s = <<>> THEN Res(acc \o d.s, FALSE)
         ELSE SeedLoop(p, sds, i + 1, N, acc \o d.s)

(* ---- the denotation ---- *)
D(p, N) == IF N <= 0 THEN Res(<<>>, TRUE)
           ELSE LET d == DD(p, N) IN IF Len(d.s) >= N THEN Res(Take(d.s, N), TRUE) ELSE d

DD(p, N) ==
  CASE p.t = "seq" -> Cycles(p, 0, p.r, N, <<>>, 0)         \* Pseq(list, repeats, offset)
    [] p.t = "ser" -> Cycles(p, 0, SerCycles(p), N, <<>>, 0) \* Pser(list, repeats = number of items, offset)
    [] p.t = "pn" -> Cycles(p, 0, p.r, N, <<>>, 0)          \* Pn(pattern, repeats)
    [] p.t = "place" -> Cycles(p, 0, p.r, N, <<>>, 0)       \* Place(list, repeats, offset)
    [] p.t = "len" ->                                        \* Plen(pattern, n): the first n values
         LET m == Min2(Max2(p.k, 0), N) d == S(p.p, m) IN Res(d.s, d.ok)
    [] p.t = "drop" ->                                       \* Pdrop(pattern, n): all but the first n
         LET d == S(p.p, N + Max2(p.k, 0)) IN Res(Drop(d.s, Max2(p.k, 0)), d.ok)
    [] p.t = "stut" ->                                       \* Pstutter(pattern, n): each value |n| times
         LET H == 2 * N + 2 vs == S(p.p, H) ns == S(p.n, H) k == Min2(Len(vs.s), Len(ns.s)) IN
         IF ~AllNum(ns.s) THEN Bad
         ELSE Res(FlatSeq([i \in 1..k |-> RepV(vs.s[i], AbsI(ns.s[i][1]))]), LockOk(<<vs, ns>>, H))
    [] p.t = "clump" ->                                      \* Pclump(pattern, n): groups of n, last one partial
         LET ns == S(p.n, N) IN
         IF ~AllNum(ns.s) THEN Bad
         ELSE LET need == SumTo([i \in 1..Len(ns.s) |-> <<Max2(0, ns.s[i][1])>>], Len(ns.s))
                  vs == S(p.p, need) IN ClumpLoop(vs, ns, 1, 0, <<>>)
    [] p.t = "flat" ->                                       \* Pflatten(pattern, n)
         LET H == 2 * N + 2 ns == S(p.n, H) vs == S(p.p, H) k == Min2(Len(vs.s), Len(ns.s)) IN
         IF ~AllNum(ns.s) THEN Bad
         ELSE Res(FlatSeq([i \in 1..k |-> FlatN(vs.s[i], ns.s[i][1])]), LockOk(<<ns, vs>>, H))
    [] p.t = "diff" ->                                       \* Pdiff(pattern): successive differences
         LET vs == S(p.p, N + 1) IN
         IF ~AllNum(vs.s) THEN Bad
         ELSE Res([i \in 1..(Len(vs.s) - 1) |-> <<vs.s[i + 1][1] - vs.s[i][1]>>], vs.ok)
    [] p.t = "const" ->                                      \* Pconst(pattern, sum = k, tolerance = tl): values until the sum is reached (within tolerance), then the remainder
         LET vs == S(p.p, N) IN IF ~AllNum(vs.s) THEN Bad ELSE ConstLoop(vs, p.k, p.tl, 1, 0, <<>>, N)
    [] p.t = "sc" ->                                         \* the same expression on the lattice 1/q: every *value* (leaf numbers in value
         D(p.p, N)                                           \* positions, series start, Pconst sum and tolerance) is value/q in the real
                                                             \* pattern and every yielded number is read back times q; counts are not scaled.
                                                             \* Only at the root and only over operations linear in the values.
    [] p.t = "switch" ->                                     \* Pswitch(list, which): embed list[which]
         LET H == 2 * N + 2 ws == S(p.a, H) IN SwLoop(p, ws, 1, N, <<>>, H)
    [] p.t = "switch1" ->                                    \* Pswitch1(list, which): one value of stream list[which]
         LET ws == S(p.a, N) ss == [j \in 1..Len(p.l) |-> S(p.l[j], N)] IN
         Sw1Loop(ws, ss, 1, [j \in 1..Len(p.l) |-> 0], <<>>)
    [] p.t = "placep" -> LET rl == Rot(p.l, p.o) IN PlacepLoop([i \in 1..Len(rl) |-> S(rl[i], N)], 0, p.r, N, <<>>)
    [] p.t = "tuple" -> TupLoop(p, 0, N, <<>>)               \* Ptuple(list, repeats)
    [] p.t = "slide" ->                                      \* Pslide(list, len = n, step = st, start = k, wrap = wr, repeats = r)
         LET H == 2 * N + 2 ls == S(p.n, H) ss == S(p.st, H) IN SlideLoop(p, ls, ss, 0, p.k, N, <<>>, H)
    [] p.t = "series" ->                                     \* Pseries(start = k, step = st, length = r)
         LET m == Min2(Max2(p.r, 0), N) ss == S(p.st, m) IN
         IF ~AllNum(ss.s) THEN Bad ELSE Res([i \in 1..Len(ss.s) |-> <<p.k + SumTo(ss.s, i - 1)>>], ss.ok)
    [] p.t = "geom" ->                                       \* Pgeom(start = k, grow = st, length = r)
         LET m == Min2(Max2(p.r, 0), N) ss == S(p.st, m) IN
         IF ~AllNum(ss.s) THEN Bad ELSE GeomLoop(ss, 1, p.k, <<>>)
    [] p.t = "collect" ->                                    \* Pcollect(f, pattern)
         LET vs == S(p.p, N) IN IF ~AllNum(vs.s) THEN Bad ELSE Res([i \in 1..Len(vs.s) |-> <<F1(p.f, vs.s[i][1])>>], vs.ok)
    [] p.t \in {"select", "reject"} ->                       \* Pselect / Preject(f, pattern)
         LET H == 3 * N vs == S(p.p, H) IN
         IF ~AllNum(vs.s) THEN Bad
         ELSE Res(SelectSeq(vs.s, LAMBDA v : Pred1(p.f, v[1]) = (p.t = "select")), IF Len(vs.s) >= H THEN FALSE ELSE vs.ok)
    [] p.t = "if" ->                                         \* Pif(condition = a, iftrue = b, iffalse = c)
         LET cs == S(p.a, N) ts == S(p.b, N) fs == S(p.c, N) IN
         IF ~AllNum(cs.s) THEN Bad ELSE IfLoop(cs, ts, fs, 1, 0, 0, <<>>)
    [] p.t = "wrap" ->                                       \* Pwrap(pattern, lo = a, hi = b)
         LET los == S(p.a, N) his == S(p.b, N) vs == S(p.p, N) k == MinLen(<<los, his, vs>>) IN
         IF ~(AllNum(los.s) /\ AllNum(his.s) /\ AllNum(vs.s)) \/ \E i \in 1..k : his.s[i][1] < los.s[i][1] THEN Bad
         ELSE Res([i \in 1..k |-> <<WrapI(vs.s[i][1], los.s[i][1], his.s[i][1])>>], LockOk(<<los, his, vs>>, N))
    [] p.t = "unop" ->                                       \* Punop(f, a)
         LET vs == S(p.a, N) IN IF ~AllNum(vs.s) THEN Bad ELSE Res([i \in 1..Len(vs.s) |-> <<F1(p.f, vs.s[i][1])>>], vs.ok)
    [] p.t = "binop" ->                                      \* Pbinop(f, a, b): ends with the shorter operand
         LET as == S(p.a, N) bs == S(p.b, N) k == Min2(Len(as.s), Len(bs.s)) IN
         IF ~(AllNum(as.s) /\ AllNum(bs.s)) THEN Bad
         ELSE Res([i \in 1..k |-> <<F2(p.f, as.s[i][1], bs.s[i][1])>>], LockOk(<<as, bs>>, N))
    [] p.t = "narop" ->                                      \* Pnarop(f, a, b, c): ends with the shortest operand
         LET as == S(p.a, N) bs == S(p.b, N) cs == S(p.c, N) k == MinLen(<<as, bs, cs>>) IN
         IF ~(AllNum(as.s) /\ AllNum(bs.s) /\ AllNum(cs.s)) THEN Bad
         ELSE IF p.f = "wrap" /\ \E i \in 1..k : cs.s[i][1] < bs.s[i][1] THEN Bad
         ELSE Res([i \in 1..k |-> <<F3(p.f, as.s[i][1], bs.s[i][1], cs.s[i][1])>>], LockOk(<<as, bs, cs>>, N))
    [] p.t = "seed" ->                                       \* Pseed(seed = a, random pattern = p) with tapes tp
         SeedLoop(p, S(p.a, N), 1, N, <<>>)

(* ---- operations on a stream of pattern p (den = D(p, N)); pos = values consumed so far ---- *)
R(kind, v) == [k |-> kind, v |-> v]
\* next(): the next value, or StopStream for ever once the sequence has ended
OpNext(den, pos) == IF pos < Len(den.s) THEN [pos |-> pos + 1, ret |-> R("val", <<den.s[pos + 1]>>)]
                    ELSE [pos |-> pos, ret |-> R("stop", <<>>)]
\* take(n): n calls of next() stopping at the first StopStream: the values, and whether the end was hit
OpTake(den, pos, n) == LET m == Min2(n, Len(den.s) - pos) IN
                       [pos |-> pos + m, ret |-> R(IF m < n THEN "seqstop" ELSE "seq", SubSeq(den.s, pos + 1, pos + m))]
\* all() / list(): everything that is left (finite streams only)
OpAll(den, pos) == [pos |-> Len(den.s), ret |-> R("seq", Drop(den.s, pos))]
OpReset(den, pos) == [pos |-> 0, ret |-> R("none", <<>>)]
Ended(den, N) == Len(den.s) < N /\ den.ok

Den(p, N) == D(p, N).s
Defined(p, N) == D(p, N).ok
=============================================================================
