SPECIFICATION Spec
CONSTANTS
  Mode = "tiny"
  NB = 64
INVARIANT LawsHold
