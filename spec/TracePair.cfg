SPECIFICATION TSpec
