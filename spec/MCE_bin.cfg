SPECIFICATION Spec
CONSTANTS
  Templates = {"n", "u", "k", "L2", "L3", "N21", "Lf"}
  MaxArgs = 2
  FirstList = FALSE
INVARIANT InvLen
INVARIANT InvDepth
INVARIANT InvLeaf
INVARIANT InvSingle
INVARIANT InvMultiNew
INVARIANT InvBinop
INVARIANT InvUnop
INVARIANT InvPerform
INVARIANT InvMadd
