------------------------- MODULE TraceSynthGraph -------------------------
(* C->S binding for C01: every record is one build of a real SynthDef from a program:
   [id, prog, raised, err, parsed (bytes decoded by the independent SCgf reader), m (certificate)].
   The verdict is computed with the operators of SynthGraph.tla:
     - a program outside the decidable fragment is a harness error ("undecidable-program"),
     - a program that must compile did not raise,
     - the bytes are one well-formed definition and ImplWhy(prog, def, m) = "ok".
   One verdict line per record.                                                              *)
EXTENDS SynthGraph, Json, IOUtils
Traces == JsonDeserialize(IOEnv.VERIF_TRACES)
VARIABLES tid, l
tvars == <<tid, l>>
TInit == tid \in 1..Len(Traces) /\ l = 1
Why(t) ==
    IF ~Decidable(t.prog) THEN "undecidable-program"
    ELSE IF t.raised = 1 THEN (IF MustCompile(t.prog) THEN "must-compile:" \o t.err ELSE "ok")
    ELSE LET sw == ScgfWhy(t.parsed, t.prog.name) IN
         IF sw # "ok" THEN "malformed:" \o sw
         ELSE ImplWhy(t.prog, t.parsed.defs[1], t.m)
Step == /\ l = 1
        /\ LET why == Why(Traces[tid]) IN
           IF why = "ok" THEN PrintT(<<"ACC", Traces[tid].id>>) /\ l' = 0 - 1
           ELSE PrintT(<<"REJ", Traces[tid].id, 1, why>>) /\ l' = 0
        /\ UNCHANGED tid
TNext == Step
TSpec == TInit /\ [][TNext]_tvars
==========================================================================
