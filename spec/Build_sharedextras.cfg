SPECIFICATION Spec
CONSTANTS
  Threads = {1, 2}
  Funcs = {"f"}
  MaxAttempts = 2
  ClearOnFail = TRUE
  ClearOnReadFail = TRUE
  CtxEarly = FALSE
  ClearLate = FALSE
  SharedExtras = TRUE
  UseLock = TRUE
INVARIANT Deterministic
