SPECIFICATION Spec
CONSTANTS
  QMode = "keyed"
  ProgSel = 4
  MaxLen = 3
  MaxSteps = 13
  MaxTime = 400
CONSTRAINT Bound

