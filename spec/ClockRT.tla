------------------------------ MODULE ClockRT ------------------------------
(* L2 protocol model of SystemClock / TempoClock (sc3/base/clock.py _run, _sched_add, sched, clear,
   tempo setter) at lock granularity.  Everything a thread does while it holds the library lock is one
   action (nothing else can observe the middle); the interleaving that matters is between the clock
   thread's sleep/wake cycle, time passing, and calls made by other threads.
   Times are beats for the queue and seconds for `now`/deadlines; the affine map (tempo, bs, bb)
   converts.  With Tempi = {1} this is SystemClock.  NotifyRule = "head" is the code's rule (notify
   iff the head's time changed); "empty" (notify only when the queue was empty) and "never_retime"
   (tempo change without notification) are known-wrong designs kept for the sensitivity self-test.   *)
EXTENDS Naturals, Integers, Sequences, FiniteSets, TLC, QueueOps
CONSTANTS Tasks, Deltas, Tempi, MaxNow, MaxResched, NotifyRule
None == 0 - 1
VARIABLES q, ctr, now, tempo, bs, bb,
          cpc, dl, nt,         \* clock thread: "wait" | "ready"; its deadline (seconds) and notified flag
          left,                \* task -> how many more numeric returns it will make
          used,                \* tasks already scheduled by a user call
          woken                \* log: [t, s, time (beats), lt (seconds), at (seconds)]
vars == <<q, ctr, now, tempo, bs, bb, cpc, dl, nt, left, used, woken>>

\* exact because every quantity is a multiple of 4 and tempi are 1, 2 or 4
B2S(b) == ((b - bb) \div tempo) + bs
S2B(s) == (s - bs) * tempo + bb

Init == /\ q = <<>> /\ ctr = 0 /\ now = 0 /\ tempo = 1 /\ bs = 0 /\ bb = 0
        /\ cpc = "wait" /\ dl = None /\ nt = FALSE
        /\ left \in [Tasks -> 0..MaxResched] /\ used = {} /\ woken = <<>>

Tick == now < MaxNow /\ now' = now + 4
        /\ UNCHANGED <<q, ctr, tempo, bs, bb, cpc, dl, nt, left, used, woken>>

HeadOf(s) == IF s = <<>> THEN None ELSE s[1].p
\* _sched_add: notify iff the head's time changed (NotifyRule selects known-wrong variants)
Notify(old, new) ==
    CASE NotifyRule = "head" -> HeadOf(new) # HeadOf(old)
      [] NotifyRule = "empty" -> old = <<>>
      [] OTHER -> HeadOf(new) # HeadOf(old)

USched(t) == /\ t \notin used
             /\ \E d \in Deltas :
                 LET nq == Insert(q, [p |-> S2B(now) + d, s |-> ctr, t |-> t]) IN
                 /\ q' = nq /\ nt' = (nt \/ (cpc = "wait" /\ Notify(q, nq)))
             /\ ctr' = ctr + 1 /\ used' = used \cup {t}
             /\ UNCHANGED <<now, tempo, bs, bb, cpc, dl, left, woken>>
UClear == /\ q # <<>> /\ q' = <<>> /\ nt' = (nt \/ cpc = "wait")
          /\ UNCHANGED <<ctr, now, tempo, bs, bb, cpc, dl, left, used, woken>>
\* tempo setter called with the lock held (from a task on another clock): re-base at the caller's time
UTempo == /\ \E v \in Tempi \ {tempo} :
               /\ bb' = S2B(now) /\ bs' = now /\ tempo' = v
          /\ nt' = (nt \/ (cpc = "wait" /\ NotifyRule # "never_retime"))
          /\ UNCHANGED <<q, ctr, now, cpc, dl, left, used, woken>>

(* clock thread: wake (notified or timed out), perform everything that is due, go back to sleep *)
RECURSIVE Perform(_, _, _, _)
Perform(s, c, lf, log) ==
    \* `now` was read once before the loop (SystemClock) / elapsed beats re-read after each task (TempoClock, fixed)
    IF s = <<>> \/ S2B(now) < s[1].p THEN [q |-> s, ctr |-> c, left |-> lf, log |-> log]
    ELSE LET e == s[1]
             rec == [t |-> e.t, s |-> e.s, time |-> e.p, lt |-> B2S(e.p), at |-> now]
         IN IF lf[e.t] > 0
            THEN \* numeric return: re-schedule relative to the scheduled time
                 Perform(Insert(Tail(s), [p |-> e.p + 4, s |-> c, t |-> e.t]), c + 1,
                         [lf EXCEPT ![e.t] = @ - 1], Append(log, rec))
            ELSE Perform(Tail(s), c, lf, Append(log, rec))     \* None / raise / StopStream: dropped
CRun == /\ cpc = "wait" /\ (nt \/ (dl # None /\ now >= dl))
        /\ LET r == Perform(q, ctr, left, woken) IN
           /\ q' = r.q /\ ctr' = r.ctr /\ left' = r.left /\ woken' = r.log
           /\ dl' = IF r.q = <<>> THEN None ELSE B2S(r.q[1].p)
        /\ nt' = FALSE
        /\ UNCHANGED <<now, tempo, bs, bb, cpc, used>>

Next == Tick \/ CRun \/ UClear \/ UTempo \/ \E t \in Tasks : USched(t)
Spec == Init /\ [][Next]_vars /\ WF_vars(Tick) /\ WF_vars(CRun)

NoMissedHead == (cpc = "wait" /\ ~nt /\ q # <<>>) => (dl # None /\ (dl <= B2S(q[1].p) \/ dl <= now))
NeverEarly == \A i \in 1..Len(woken) : woken[i].at >= woken[i].lt
OncePerScheduling == \A i, j \in 1..Len(woken) : i # j => woken[i].s # woken[j].s
InOrder == \A i, j \in 1..Len(woken) :
    (i < j /\ woken[i].at = woken[j].at) => (woken[i].time < woken[j].time \/ (woken[i].time = woken[j].time /\ woken[i].s < woken[j].s)
                                             \/ woken[j].s > woken[i].s)
\* every scheduling (stamp k) whose time can be reached leaves the queue: it is awakened (or cleared)
EventuallyRun == \A k \in 0..(Cardinality(Tasks) * (MaxResched + 1)) :
    (\E i \in 1..Len(q) : q[i].s = k /\ B2S(q[i].p) <= MaxNow) ~> ~(\E i \in 1..Len(q) : q[i].s = k)
=============================================================================
