SPECIFICATION Spec
CONSTANTS
  Invalidate = TRUE
  MaxLen = 4
INVARIANT Coherent
INVARIANT CachesCurrent
INVARIANT LayoutsAgree
