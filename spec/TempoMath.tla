----------------------------- MODULE TempoMath -----------------------------
(* C12: TempoClock time arithmetic and quantisation.

   Numbers are exact rationals in fixed point: the integer n stands for n / S with
   S = 3 * 2^12, so every value on the dyadic lattice the drivers use (multiples of 1/8, tempos
   1/2, 1, 2, 4) and thirds/sixths of them (meters 3 and 6) is an integer; MulDiv asserts that no
   operation ever leaves the lattice (a failed assertion is a machinery error, never a verdict).

   A clock is the record c:
     tn, td   tempo = tn/td beats per second          bs, bb  base seconds / base beats (affine map)
     bpb      beats per bar (plain integer)           bbar    base bar      bbb  base bar beat
     lt       logical seconds of the routine running on the clock
     wb       beat the routine was last awakened for (clocks reschedule at wb + delta)

   L1 (the property) = the law predicates IsGrid, IsBarLine, IsNextBar, IsBarPos and the
   continuity / advance laws below: they are evaluated both on the transcribed formulas (design
   model, this module's Next) and on the values recorded from the real TempoClock
   (TraceTempoMath.tla), where they do not depend on any transcribed formula.
   L2 = GridImpl / NextBarImpl / SetMeter: the code's formulas (sc mod, roundup, round, ceil, floor). *)
EXTENDS Naturals, Integers, Sequences, FiniteSets, TLC

S == 12288                       \* fixed-point scale 3 * 2^12
E8(x) == x * 1536                \* x/8 as a fixed-point number
I(x) == x * S                    \* the integer x

MulDiv(x, n, d) ==               \* x * n / d, exact or machinery error
    IF (x * n) % d = 0 THEN (x * n) \div d
    ELSE Assert(FALSE, <<"inexact arithmetic: leave the lattice", x, n, d>>)
FloorTo(x, q) == (x \div q) * q                   \* greatest multiple of q <= x   (q > 0)
CeilTo(x, q) == (0 - ((0 - x) \div q)) * q        \* least multiple of q >= x
RoundHalfUpTo(x, q) == FloorTo(2 * x + q, 2 * q) \div 2   \* sc round(x, q) = floor(x/q + .5) * q

(* ---- the affine map ---- *)
B2S(c, b) == MulDiv(b - c.bb, c.td, c.tn) + c.bs
S2B(c, s) == MulDiv(s - c.bs, c.tn, c.td) + c.bb
Beats(c) == S2B(c, c.lt)

(* ---- bars ---- *)
Beats2Bars(c, b) == MulDiv(b - c.bbb, 1, c.bpb) + c.bbar
Bars2Beats(c, x) == (x - c.bbar) * c.bpb + c.bbb
BarImpl(c) == FloorTo(Beats2Bars(c, Beats(c)), S)
NextBarImpl(c, b) == Bars2Beats(c, CeilTo(Beats2Bars(c, b), S))
BeatInBarImpl(c) == Beats(c) - Bars2Beats(c, BarImpl(c))

(* ---- operations (what the setters are documented to do) ---- *)
NewClock(tn, td, beats, secs) ==
    [tn |-> tn, td |-> td, bs |-> secs, bb |-> beats, bpb |-> 4, bbar |-> 0, bbb |-> 0,
     lt |-> secs, wb |-> beats]
SetTempo(c, tn, td) ==
    LET b == Beats(c) IN [c EXCEPT !.bs = B2S(c, b), !.bb = b, !.tn = tn, !.td = td]
SetBeats(c, b) == [c EXCEPT !.bs = c.lt, !.bb = b]
SetMeter(c, n) ==
    LET b == Beats(c) IN
    [c EXCEPT !.bbar = RoundHalfUpTo(Beats2Bars(c, b), S), !.bbb = b, !.bpb = n]
Advance(c, d) ==                 \* the routine yields d: rescheduled d beats after its wake-up beat
    LET tb == c.wb + d IN [c EXCEPT !.lt = B2S(c, tb), !.wb = tb]

(* ---- L1 law predicates (independent of the formulas) ---- *)
\* g is the earliest beat >= ref congruent to ph modulo q counted from the last meter change
IsGridAt(bbb, g, q, ph, ref) ==
    IF q = 0 THEN g = ref + ph
    ELSE g >= ref /\ (g - bbb - ph) % q = 0 /\ g - q < ref
IsGrid(c, g, q, ph, ref) == IsGridAt(c.bbb, g, q, ph, ref)
IsBarLine(c, b) == Beats2Bars(c, b) % S = 0
\* nb is the first bar line not before beat b
IsNextBar(c, nb, b) == nb >= b /\ IsBarLine(c, nb) /\ nb - I(c.bpb) < b
\* (bar, bib) is the position of the current beat: whole bar number, 0 <= bib < bpb
IsBarPos(c, bar, bib) ==
    bar % S = 0 /\ bib >= 0 /\ bib < I(c.bpb) /\ Bars2Beats(c, bar) + bib = Beats(c)

(* ---- L2: next_time_on_grid as written in clock.py / builtins.py ---- *)
ScMod(a, b) == a % b             \* sc mod for b > 0: result in [0, b)
RoundUp(x, q) == IF q = 0 THEN x ELSE CeilTo(x, q)
GridImpl(c, q, ph, ref) ==
    IF q = 0 THEN ref + ph
    ELSE LET p1 == IF ph < 0 THEN ScMod(ph, q) ELSE ph
         IN RoundUp(ref - c.bbb - ScMod(p1, q), q) + c.bbb + p1
\* the declarative least element, closed form
GridSpec(c, q, ph, ref) == IF q = 0 THEN ref + ph ELSE ref + ((c.bbb + ph - ref) % q)

(* ================= design model ================= *)
CONSTANTS TempoExps,   \* tempos are 2^(e-1) for e in this set (cfg files hold neither tuples nor negative numbers)
          BeatVals,    \* values for the beats setter, in eighths, offset by 8 (b stands for (b-8)/8 beats)
          Meters,      \* beats per bar
          Deltas,      \* yields, in eighths
          Quants,      \* quant values in eighths (0 allowed)
          Win,         \* half-width of the query window around the current beat, in eighths
          MaxSteps
VARIABLES c, last, n
vars == <<c, last, n>>

Tempos == {<<IF e >= 1 THEN 2 ^ (e - 1) ELSE 1, IF e < 1 THEN 2 ^ (1 - e) ELSE 1>> : e \in TempoExps}
Op(name, a, b) == [op |-> name, a |-> a, b |-> b]
Init == /\ \E t \in Tempos : c = NewClock(t[1], t[2], 0, E8(12))      \* created at logical time 1.5 s
        /\ last = Op("new", 0, 0) /\ n = 0
DoSetTempo == \E t \in Tempos : c' = SetTempo(c, t[1], t[2]) /\ last' = Op("tempo", t[1], t[2]) /\ n' = n + 1
DoSetBeats == \E b \in BeatVals : c' = SetBeats(c, E8(b - 8)) /\ last' = Op("beats", E8(b - 8), 0) /\ n' = n + 1
DoSetMeter == \E m \in Meters : c' = SetMeter(c, m) /\ last' = Op("meter", m, 0) /\ n' = n + 1
DoAdvance == \E d \in Deltas : c' = Advance(c, E8(d)) /\ last' = Op("adv", E8(d), 0) /\ n' = n + 1
Next == DoSetTempo \/ DoSetBeats \/ DoSetMeter \/ DoAdvance
Spec == Init /\ [][Next]_vars
Bound == n <= MaxSteps

WinBeats == {FloorTo(Beats(c), E8(1)) + E8(k) : k \in (0 - Win)..Win}
Phases(q) == {E8(k) : k \in (1 - q \div E8(1))..(q \div E8(1) - 1)}    \* all eighths in (-q, q)

(* ---- invariants / action properties ---- *)
RoundTrip == \A b \in WinBeats : S2B(c, B2S(c, b)) = b /\ B2S(c, S2B(c, b)) = b
\* tempo / beats changes leave the current (beat, second) pair continuous
Continuity ==
    [][/\ (last'.op = "tempo" => (c'.lt = c.lt /\ Beats(c') = Beats(c) /\ B2S(c', Beats(c')) = c.lt))
       /\ (last'.op = "beats" => (c'.lt = c.lt /\ Beats(c') = last'.a))
       /\ (last'.op = "meter" => (c'.lt = c.lt /\ Beats(c') = Beats(c) /\ c'.bbb = Beats(c)))]_vars
\* a yield of d beats resumes d beats after the wake-up beat, i.e. d / tempo seconds later
\* whenever the beats were not re-set since the wake-up
BeatsAdvanceAtTempo ==
    [][last'.op = "adv" =>
        /\ Beats(c') = c.wb + last'.a
        /\ (Beats(c) = c.wb => c'.lt - c.lt = MulDiv(last'.a, c.td, c.tn))]_vars
GridLaw ==
    LET wb == WinBeats IN
    \A qq \in Quants : \A ph \in (IF qq = 0 THEN {E8(0), E8(4), E8(0 - 12)} ELSE Phases(E8(qq))) : \A ref \in wb :
        LET g == GridImpl(c, E8(qq), ph, ref) IN
        IsGrid(c, g, E8(qq), ph, ref) /\ g = GridSpec(c, E8(qq), ph, ref)
\* play(quant) schedules at next_time_on_grid evaluated at the current beat: never in the past
PlaySchedulesOnGrid ==
    \A qq \in Quants : \A ph \in (IF qq = 0 THEN {E8(0)} ELSE Phases(E8(qq))) :
        LET g == GridImpl(c, E8(qq), ph, Beats(c)) IN
        IsGrid(c, g, E8(qq), ph, Beats(c)) /\ (ph >= 0 => B2S(c, g) >= c.lt)
BarInverse ==
    \A b \in WinBeats : /\ Bars2Beats(c, Beats2Bars(c, b)) = b
                        /\ Beats2Bars(c, Bars2Beats(c, Beats2Bars(c, b))) = Beats2Bars(c, b)
NextBarNotBeforeNow ==
    /\ \A b \in WinBeats \cup {Beats(c)} : IsNextBar(c, NextBarImpl(c, b), b)
    /\ NextBarImpl(c, Beats(c)) >= Beats(c)
    /\ IsBarPos(c, BarImpl(c), BeatInBarImpl(c))
    /\ GridImpl(c, I(c.bpb), 0, Beats(c)) = NextBarImpl(c, Beats(c))   \* docstring of next_time_on_grid
=============================================================================
