SPECIFICATION Spec
CONSTANTS
  Tasks = {"a", "b", "c"}
  Prios = {0, 1}
  MaxCtr = 4
  MaxPop = 2
CONSTRAINT Bound
INVARIANT L1TypeOK
INVARIANT L1AtMostOnce
INVARIANT L1EmptyAgrees
INVARIANT RemovedCounts
INVARIANT FinderAgrees
INVARIANT StepRefines
