SPECIFICATION Spec
CONSTANTS
  Threads = {1, 2}
  Funcs = {"f"}
  MaxAttempts = 2
  ClearOnFail = FALSE
  ClearOnReadFail = TRUE
  CtxEarly = FALSE
  ClearLate = FALSE
  SharedExtras = FALSE
  UseLock = TRUE
INVARIANT NoResidue
