SPECIFICATION Spec
CONSTANTS
  Levels <- LevelsQ
  Times <- TimesQ
  Curves <- CurvesQ
  MaxSeg = 2
  MaxPts = 1
  QTicks = {24, 200}
INVARIANT FormatWellFormed
INVARIANT NodesEncoded
INVARIANT WrapLaw
INVARIANT ConstructorNodes
INVARIANT PointsSorted
INVARIANT AtLaws
INVARIANT WalkRefines
