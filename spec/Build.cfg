SPECIFICATION Spec
CONSTANTS
  Threads = {1, 2}
  Funcs = {"f"}
  MaxAttempts = 2
  ClearOnFail = TRUE
  ClearOnReadFail = TRUE
  CtxEarly = FALSE
  ClearLate = FALSE
  SharedExtras = FALSE
  UseLock = TRUE
INVARIANT CtxClearedWhenIdle
INVARIANT NoResidue
INVARIANT Isolation
INVARIANT LockFreeAfterFailure
INVARIANT Exclusive
INVARIANT Deterministic
