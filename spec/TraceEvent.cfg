SPECIFICATION TSpec
