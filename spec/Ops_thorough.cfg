SPECIFICATION Spec
CONSTANTS
  Window <- WindowT
  Quanta <- QuantaT
INVARIANT LiftAccepts
INVARIANT LiftRejects
INVARIANT WrapMeets
INVARIANT WrapLength
INVARIANT Symmetric
INVARIANT KernelLaws
INVARIANT CallAccepts
INVARIANT CallPoolLaws
