---------------------------- MODULE OscFaultModel ----------------------------
(* C18 "malformed or hostile datagrams": valid encodings (Osc.Enc) damaged by one or two faults chosen
   by TLC: truncation at every offset, every aligned 32-bit word overwritten with -4, -1, -20, -32, 0,
   2^31-1, len+4, 3 (element sizes, blob sizes, ints, string bytes), single bytes overwritten (type tags
   without comma, unbalanced brackets, unknown tags, missing terminators), trailing garbage.  Checked
   here: the decoder is total (classifies every byte string) and lengths that are not a multiple of
   four are never accepted.  With Emitting the datagrams are printed and fed to the real receiver. *)
EXTENDS Osc, Json
CONSTANTS NFaults, Emitting, MaxWrap
VARIABLES b, n, wr
vars == <<b, n, wr>>
I(hi, lo) == [t |-> "i", hi |-> hi, lo |-> lo]
M(a, args) == [t |-> "m", a |-> a, args |-> args]
Bn(el) == [t |-> "B", time |-> [t |-> "none"], el |-> el]
Off == <<0, 0, 0, 0, 0, 0, 0, 0>>
Bases == {M(<<47, 97>>, <<I(0, 1), [t |-> "s", b |-> <<97, 98>>], [t |-> "b", b |-> <<1, 2, 3>>], [t |-> "f", b |-> <<63, 128, 0, 0>>]>>),
          M(<<47, 97>>, <<>>),
          M(<<47, 97>>, <<[t |-> "["], I(0, 2), [t |-> "]"]>>),
          Bn(<<M(<<47, 97>>, <<I(0, 1)>>), M(<<47, 97, 98>>, <<[t |-> "s", b |-> <<120>>]>>)>>),
          Bn(<<Bn(<<M(<<47, 97>>, <<>>)>>)>>)}
Words(len) == {I(0 - 1, 65532), I(0 - 1, 65535), I(0 - 1, 65516), I(0 - 1, 65504), I(0, 0), I(32767, 65535), I(0, len + 4), I(0, 3)}
SetWord(s, pos, w) == [i \in 1..Len(s) |-> IF i >= pos /\ i < pos + 4 THEN I32(w.hi, w.lo)[i - pos + 1] ELSE s[i]]
Init == n = 0 /\ wr = 0 /\ b \in {Enc(v, Off) : v \in Bases}
Fault == n < NFaults /\ wr <= 1 /\ n' = n + 1 /\ wr' = wr
Trunc == Fault /\ \E k \in 0..(Len(b) - 1) : b' = SubSeq(b, 1, k)
Word == Fault /\ \E j \in 0..((Len(b) \div 4) - 1), w \in Words(Len(b)) : b' = SetWord(b, 4 * j + 1, w)
ByteF == Fault /\ \E k \in 1..Len(b), c \in {0, 255, 91, 93, 120, 44, 47} : b' = [b EXCEPT ![k] = c]
Extend == Fault /\ \E x \in {<<0, 0, 0, 0>>, <<1>>, <<0, 0, 0, 8, 47, 97, 0, 0, 44, 0, 0, 0>>, <<255, 255, 255, 252>>} : b' = b \o x
\* degenerate rather than damaged: the datagram wrapped in one more bundle, again and again (deep nesting)
Wrap == /\ n = 0 /\ wr < MaxWrap /\ wr' = wr + 1 /\ n' = n
        /\ b' = <<35, 98, 117, 110, 100, 108, 101, 0>> \o Immediately \o Size32(Len(b)) \o b
Next == Trunc \/ Word \/ ByteF \/ Extend \/ Wrap
Spec == Init /\ [][Next]_vars
DecTotal == Dec(b).k \in {"msg", "bundle", "bad", "grey", "greymsg"}
UnalignedIsBad == Len(b) % 4 # 0 => Dec(b).k = "bad"
\* undamaged datagrams - however deeply wrapped - stay well-formed
ValidStaysValid == n = 0 => Dec(b).k \in {"msg", "bundle"}
InvEmit == ~Emitting \/ PrintT(<<"DGRAM", ToJson([b |-> b, k |-> Dec(b).k])>>)
=============================================================================
