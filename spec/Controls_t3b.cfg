SPECIFICATION Spec
CONSTANTS
  Annots <- AnAll
  OvChoices <- OvTwo
  DfChoices <- DfTiny
  SpChoices <- SpNone
  BoundVals = {24, 7}
  MaxFuncs = 1
  MaxParams = 3
  MaxTotal = 3
  MaxBound = 0
  MaxVariants = 0
  MinEmit = 3
  SimMode = FALSE
  VarLens = {0}
  VarW = {1, 2, 3}
  VarBad = {"none"}
  HistChoices <- HistTwo
INVARIANT InvWellFormed
INVARIANT InvTiles
INVARIANT InvOrdered
INVARIANT InvNames
INVARIANT InvLag
INVARIANT InvL2CoversL1
INVARIANT InvVariants
