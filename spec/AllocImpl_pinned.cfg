SPECIFICATION Spec
CONSTANTS
  Cfgs <- CfgsQuick
  MaxN = 4
  MaxId = 12
  PinnedFindNext = TRUE
  MaxDepth = 7
  FreeAnywhere = TRUE
CONSTRAINT Depth
INVARIANT StepRefines
