SPECIFICATION RSpec
INVARIANT NaiveOK
INVARIANT DropDetected
INVARIANT Emit
