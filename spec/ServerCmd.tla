----------------------------- MODULE ServerCmd -----------------------------
(* C17: client objects speak the server command protocol and keep ids consistent.

   Part 1  command table: the argument grammar of every OSC command the client objects emit,
           transcribed from the SuperCollider "Server Command Reference" (NOT from sc3's code):
           WellTyped(m).  A message is [a |-> address, g |-> sequence of typed tokens,
           b |-> sequence of nested messages (decoded completion-message blobs)]; a token is
           [t |-> type tag "i" "f" "s" "b" "[" "]", i |-> int value (floats: value * 8; blobs:
           index into b, 0 = opaque bytes), s |-> string value].
           Where the reference says "float" an int is accepted (the server converts); where it
           says "int" only an int is.  A completion-message slot holds a blob that is itself a
           well-typed message, or is absent, or is the int 0 (the client library encodes "no
           completion message" (nil/None) as int 0 - sclang does the same).
   Part 2  client state and the public API: Apply(st, e) gives, for one API call e on the abstract
           client state st, the wire events the call must produce (Expected) and the next state.
           Ids are never predicted: the id the real object reports is judged (fresh, in the
           client's node-id range; bus/buffer indexes by the L1 allocation spec Alloc.tla).
   Part 3  bind(): commands issued inside the block are held back and leave as ONE bundle, in
           issue order, at server latency, when the block exits; nothing if it raises.
   The design model at the end lets TLC enumerate API histories and checks that everything the
   spec expects is well-typed per the table, mentions only known ids, and that the wire never
   carries a partial block.  TraceServerCmd.tla decides recorded executions of the real objects. *)
EXTENDS Naturals, Integers, Sequences, FiniteSets, TLC

A == INSTANCE Alloc WITH Cfgs <- {}, MaxN <- 0, C <- 0, live <- {}, op <- 0, ret <- 0, prev <- {}
NID == INSTANCE NodeIds WITH M <- 0, Inits <- {}, Clients <- {}, MaxLen <- 0,
                             init <- 0, client <- 0, temp <- 0, hist <- <<>>
RealM == 67108864

(* ------------------------------------------------------------------ tokens and messages *)
Tok(t, i, s) == [t |-> t, i |-> i, s |-> s]
I(n) == Tok("i", n, "")
F(n8) == Tok("f", n8, "")
S(x) == Tok("s", 0, x)
Blob(k) == Tok("b", k, "")
LB == Tok("[", 0, "")
RB == Tok("]", 0, "")
Msg(a, g) == [a |-> a, g |-> g, b |-> <<>>]
MsgB(a, g, b) == [a |-> a, g |-> g, b |-> b]
Ev(k, t, m) == [k |-> k, t |-> t, m |-> m]          \* wire event: "msg" | "bundle", time code, messages
NOTIME == 0 - 1                                     \* bundle time None (immediately) / plain message

IsI(x) == x.t = "i"
IsNum(x) == x.t \in {"i", "f"}
IsS(x) == x.t = "s"
IsCtl(x) == x.t \in {"i", "s"}                     \* control index or name
Flag(x) == x.t = "i" /\ x.i \in {0, 1}

(* ------------------------------------------------------------------ Part 1: command table *)
AllFrom(g, p, P(_)) == \A k \in p .. Len(g) : P(g[k])
\* the tokens from p on are whole groups of k tokens, each satisfying P(position of its first)
Groups(g, p, k, P(_)) == /\ (Len(g) - p + 1) % k = 0
                         /\ \A j \in 0 .. ((Len(g) - p + 1) \div k - 1) : P(p + j * k)
\* control value: number | string (bus mapping "c3"/"a3") | '[' values ']'
RECURSIVE ValEnd(_, _), ArrEnd(_, _), CtlPairs(_, _), CountedGroups(_, _, _)
ValEnd(g, p) == IF p > Len(g) THEN 0
                ELSE IF g[p].t \in {"i", "f", "s"} THEN p + 1
                ELSE IF g[p].t = "[" THEN ArrEnd(g, p + 1) ELSE 0
ArrEnd(g, p) == IF p > Len(g) THEN 0
                ELSE IF g[p].t = "]" THEN p + 1
                ELSE LET q == ValEnd(g, p) IN IF q = 0 THEN 0 ELSE ArrEnd(g, q)
\* N * (control, value)
CtlPairs(g, p) == \/ p = Len(g) + 1
                  \/ /\ p <= Len(g) /\ IsCtl(g[p])
                     /\ LET q == ValEnd(g, p + 1) IN q # 0 /\ CtlPairs(g, q)
\* N * (first, int M, M * number); first is a control (ctl = TRUE) or an int index
CountedGroups(g, p, ctl) ==
    \/ p = Len(g) + 1
    \/ /\ p + 1 <= Len(g)
       /\ (IF ctl THEN IsCtl(g[p]) ELSE IsI(g[p]))
       /\ IsI(g[p + 1]) /\ g[p + 1].i >= 1
       /\ p + 1 + g[p + 1].i <= Len(g)
       /\ \A k \in (p + 2) .. (p + 1 + g[p + 1].i) : IsNum(g[k])
       /\ CountedGroups(g, p + 2 + g[p + 1].i, ctl)

RECURSIVE WellTyped(_)
\* optional completion message at position p (must be the last token)
Completion(m, p) ==
    \/ p = Len(m.g) + 1
    \/ /\ p = Len(m.g)
       /\ \/ m.g[p] = I(0)
          \/ /\ m.g[p].t = "b" /\ m.g[p].i \in 1 .. Len(m.b)
             /\ WellTyped(m.b[m.g[p].i])
Shape(m, tags) ==      \* fixed leading tokens: sequence of tag classes "i" "s" "n"(umber) "c"(ontrol)
    /\ Len(m.g) >= Len(tags)
    /\ \A k \in 1 .. Len(tags) :
          CASE tags[k] = "i" -> IsI(m.g[k]) [] tags[k] = "s" -> IsS(m.g[k])
            [] tags[k] = "n" -> IsNum(m.g[k]) [] tags[k] = "c" -> IsCtl(m.g[k])
AddAction(x) == IsI(x) /\ x.i \in 0 .. 4
WellTyped(m) ==
    LET g == m.g  n == Len(m.g) IN
    CASE m.a \in {"/quit", "/status", "/clearSched", "/version", "/rtMemoryStatus"} -> n = 0
      [] m.a \in {"/dumpOSC", "/error", "/sync"} -> n = 1 /\ IsI(g[1])
      [] m.a = "/notify" -> n \in {1, 2} /\ Flag(g[1]) /\ AllFrom(g, 2, IsI)
      \* synth definitions
      [] m.a = "/d_recv" -> n >= 1 /\ g[1].t = "b" /\ Completion(m, 2)
      [] m.a \in {"/d_load", "/d_loadDir"} -> n >= 1 /\ IsS(g[1]) /\ Completion(m, 2)
      [] m.a = "/d_free" -> n >= 1 /\ AllFrom(g, 1, IsS)
      \* nodes
      [] m.a \in {"/n_free", "/n_query", "/n_trace", "/s_noid", "/g_freeAll", "/g_deepFree"} ->
            n >= 1 /\ AllFrom(g, 1, IsI)
      [] m.a = "/n_run" -> n >= 2 /\ Groups(g, 1, 2, LAMBDA p : IsI(g[p]) /\ Flag(g[p + 1]))
      [] m.a = "/n_set" -> n >= 1 /\ IsI(g[1]) /\ CtlPairs(g, 2)
      [] m.a = "/n_setn" -> n >= 1 /\ IsI(g[1]) /\ CountedGroups(g, 2, TRUE)
      [] m.a = "/n_fill" -> n >= 1 /\ IsI(g[1])
            /\ Groups(g, 2, 3, LAMBDA p : IsCtl(g[p]) /\ IsI(g[p + 1]) /\ g[p + 1].i >= 1 /\ IsNum(g[p + 2]))
      [] m.a \in {"/n_map", "/n_mapa"} -> n >= 1 /\ IsI(g[1])
            /\ Groups(g, 2, 2, LAMBDA p : IsCtl(g[p]) /\ IsI(g[p + 1]))
      [] m.a \in {"/n_mapn", "/n_mapan"} -> n >= 1 /\ IsI(g[1])
            /\ Groups(g, 2, 3, LAMBDA p : IsCtl(g[p]) /\ IsI(g[p + 1]) /\ IsI(g[p + 2]) /\ g[p + 2].i >= 1)
      [] m.a \in {"/n_before", "/n_after", "/g_head", "/g_tail"} ->
            n >= 2 /\ Groups(g, 1, 2, LAMBDA p : IsI(g[p]) /\ IsI(g[p + 1]))
      [] m.a = "/n_order" -> n >= 3 /\ AddAction(g[1]) /\ AllFrom(g, 2, IsI)
      [] m.a = "/s_new" -> Shape(m, <<"s", "i", "i", "i">>) /\ AddAction(g[3]) /\ CtlPairs(g, 5)
      [] m.a = "/s_get" -> n >= 2 /\ IsI(g[1]) /\ AllFrom(g, 2, IsCtl)
      [] m.a = "/s_getn" -> n >= 3 /\ IsI(g[1])
            /\ Groups(g, 2, 2, LAMBDA p : IsCtl(g[p]) /\ IsI(g[p + 1]) /\ g[p + 1].i >= 1)
      [] m.a \in {"/g_new", "/p_new"} ->
            n >= 3 /\ Groups(g, 1, 3, LAMBDA p : IsI(g[p]) /\ AddAction(g[p + 1]) /\ IsI(g[p + 2]))
      [] m.a \in {"/g_dumpTree", "/g_queryTree"} ->
            n >= 2 /\ Groups(g, 1, 2, LAMBDA p : IsI(g[p]) /\ Flag(g[p + 1]))
      \* buffers
      [] m.a = "/b_alloc" -> Shape(m, <<"i", "i">>) /\ g[2].i >= 0
            /\ \/ Completion(m, 3)
               \/ (n >= 3 /\ IsI(g[3]) /\ g[3].i >= 1 /\ Completion(m, 4))
      [] m.a = "/b_allocRead" -> Shape(m, <<"i", "s">>)
            /\ \/ Completion(m, 3)
               \/ (n >= 3 /\ IsI(g[3]) /\ Completion(m, 4))
               \/ (n >= 4 /\ IsI(g[3]) /\ IsI(g[4]) /\ Completion(m, 5))
      [] m.a = "/b_allocReadChannel" -> Shape(m, <<"i", "s", "i", "i">>)
            /\ \E p \in 5 .. (n + 1) : (\A k \in 5 .. (p - 1) : IsI(g[k])) /\ Completion(m, p)
      [] m.a = "/b_read" -> Shape(m, <<"i", "s">>)
            /\ \E p \in 3 .. 7 : p <= n + 1 /\ (\A k \in 3 .. (p - 1) : IsI(g[k])) /\ Completion(m, p)
            /\ (n >= 6 /\ IsI(g[6]) => Flag(g[6]))
      [] m.a = "/b_readChannel" -> Shape(m, <<"i", "s", "i", "i", "i", "i">>) /\ Flag(g[6])
            /\ \E p \in 7 .. (n + 1) : (\A k \in 7 .. (p - 1) : IsI(g[k])) /\ Completion(m, p)
      [] m.a = "/b_write" -> Shape(m, <<"i", "s", "s", "s">>)
            /\ \E p \in 5 .. 8 : p <= n + 1 /\ (\A k \in 5 .. (p - 1) : IsI(g[k])) /\ Completion(m, p)
            /\ (n >= 7 /\ IsI(g[7]) => Flag(g[7]))
      [] m.a \in {"/b_free", "/b_zero", "/b_close"} -> n >= 1 /\ IsI(g[1]) /\ Completion(m, 2)
      [] m.a = "/b_set" -> n >= 3 /\ IsI(g[1])
            /\ Groups(g, 2, 2, LAMBDA p : IsI(g[p]) /\ IsNum(g[p + 1]))
      [] m.a = "/b_setn" -> n >= 4 /\ IsI(g[1]) /\ CountedGroups(g, 2, FALSE)
      [] m.a = "/b_fill" -> n >= 4 /\ IsI(g[1])
            /\ Groups(g, 2, 3, LAMBDA p : IsI(g[p]) /\ IsI(g[p + 1]) /\ IsNum(g[p + 2]))
      \* buffer fill commands of the reference; other /b_gen commands are plugin-defined (any scalar arguments)
      [] m.a = "/b_gen" -> Shape(m, <<"i", "s">>) /\
            (CASE g[2].s \in {"sine1", "cheby"} -> n >= 4 /\ IsI(g[3]) /\ g[3].i \in 0 .. 7 /\ AllFrom(g, 4, IsNum)
               [] g[2].s = "sine2" -> n >= 5 /\ IsI(g[3]) /\ g[3].i \in 0 .. 7 /\ Groups(g, 4, 2, LAMBDA p : IsNum(g[p]) /\ IsNum(g[p + 1]))
               [] g[2].s = "sine3" -> n >= 6 /\ IsI(g[3]) /\ g[3].i \in 0 .. 7
                                      /\ Groups(g, 4, 3, LAMBDA p : IsNum(g[p]) /\ IsNum(g[p + 1]) /\ IsNum(g[p + 2]))
               [] g[2].s = "copy" -> n = 6 /\ AllFrom(g, 3, IsI)
               [] OTHER -> AllFrom(g, 3, LAMBDA x : x.t \in {"i", "f", "s"}))
      [] m.a = "/b_query" -> n >= 1 /\ AllFrom(g, 1, IsI)
      [] m.a = "/b_get" -> n >= 2 /\ AllFrom(g, 1, IsI)
      [] m.a = "/b_getn" -> n >= 3 /\ IsI(g[1]) /\ Groups(g, 2, 2, LAMBDA p : IsI(g[p]) /\ IsI(g[p + 1]))
      \* control buses
      [] m.a = "/c_set" -> n >= 2 /\ Groups(g, 1, 2, LAMBDA p : IsI(g[p]) /\ IsNum(g[p + 1]))
      [] m.a = "/c_setn" -> n >= 3 /\ CountedGroups(g, 1, FALSE)
      [] m.a = "/c_fill" -> n >= 3 /\ Groups(g, 1, 3, LAMBDA p : IsI(g[p]) /\ IsI(g[p + 1]) /\ g[p + 1].i >= 1 /\ IsNum(g[p + 2]))
      [] m.a = "/c_get" -> n >= 1 /\ AllFrom(g, 1, IsI)
      [] m.a = "/c_getn" -> n >= 2 /\ Groups(g, 1, 2, LAMBDA p : IsI(g[p]) /\ IsI(g[p + 1]) /\ g[p + 1].i >= 1)
      [] OTHER -> FALSE          \* not a command of the reference

\* ids a message mentions, by kind (positions per the reference)
RECURSIVE NodeIds(_), BufIds(_)
Every(g, from, k) == {g[p].i : p \in {q \in from .. Len(g) : (q - from) % k = 0}}
NestedOf(m, Fn(_)) == UNION {Fn(m.b[k]) : k \in 1 .. Len(m.b)}
NodeIds(m) ==
    LET g == m.g IN
    (CASE m.a \in {"/n_free", "/n_query", "/n_trace", "/g_freeAll", "/g_deepFree", "/s_noid"} -> {g[k].i : k \in 1 .. Len(g)}
       [] m.a \in {"/n_run", "/g_dumpTree", "/g_queryTree"} -> Every(g, 1, 2)
       [] m.a \in {"/n_set", "/n_setn", "/n_fill", "/n_map", "/n_mapa", "/n_mapn", "/n_mapan", "/s_get", "/s_getn"} -> {g[1].i}
       [] m.a \in {"/n_before", "/n_after", "/g_head", "/g_tail"} -> {g[k].i : k \in 1 .. Len(g)}
       [] m.a = "/n_order" -> {g[k].i : k \in 2 .. Len(g)}
       [] m.a = "/s_new" -> {g[2].i, g[4].i}
       [] m.a \in {"/g_new", "/p_new"} -> Every(g, 1, 3) \cup Every(g, 3, 3)
       [] OTHER -> {}) \cup NestedOf(m, NodeIds)
BufIds(m) ==
    (IF m.a \in {"/b_alloc", "/b_allocRead", "/b_allocReadChannel", "/b_read", "/b_readChannel", "/b_write", "/b_free",
                 "/b_zero", "/b_close", "/b_set", "/b_setn", "/b_fill", "/b_gen", "/b_get", "/b_getn"}
     THEN {m.g[1].i}
     ELSE IF m.a = "/b_query" THEN {m.g[k].i : k \in 1 .. Len(m.g)} ELSE {})
    \cup (IF m.a = "/b_gen" /\ m.g[2].s = "copy" THEN {m.g[4].i} ELSE {}) \cup NestedOf(m, BufIds)
RECURSIVE CountedStarts(_, _)
CountedStarts(g, p) == IF p + 1 > Len(g) THEN {} ELSE {g[p].i + d : d \in 0 .. (g[p + 1].i - 1)} \cup CountedStarts(g, p + 2 + g[p + 1].i)
\* bus indexes named by a message.  Control buses: the /c_ commands, /n_map, /n_mapn and map symbols "c<index>" used as
\* control values; audio buses: /n_mapa, /n_mapan and "a<index>".  -1 (= unmap) names nothing.  The projection of the
\* recorded datagrams adds to every message mp = <<[k |-> "c" | "a", i |-> index], ...>> for its string arguments of
\* that form (strings cannot be taken apart in TLA+); messages the spec builds itself carry no mp.
Ranges(g, from, k) == UNION {IF g[p].i = 0 - 1 THEN {} ELSE {g[p].i + d : d \in 0 .. (g[p + 1].i - 1)} :
                              p \in {q \in from .. Len(g) : (q - from) % k = 0}}
RECURSIVE MapSyms(_, _)
MapSyms(m, kind) ==
    (IF "mp" \in DOMAIN m /\ m.a \in {"/n_set", "/s_new"}
     THEN {m.mp[j].i : j \in {q \in 1 .. Len(m.mp) : m.mp[q].k = kind}} ELSE {})
    \cup UNION {MapSyms(m.b[k], kind) : k \in 1 .. Len(m.b)}
BusIds(m) ==
    LET g == m.g IN
    (CASE m.a = "/c_set" -> Every(g, 1, 2)
       [] m.a = "/c_get" -> {g[k].i : k \in 1 .. Len(g)}
       [] m.a = "/c_setn" -> CountedStarts(g, 1)
       [] m.a = "/c_fill" -> Ranges(g, 1, 3)
       [] m.a = "/c_getn" -> Ranges(g, 1, 2)
       [] m.a = "/n_map" -> Every(g, 3, 2) \ {0 - 1}
       [] m.a = "/n_mapn" -> Ranges(g, 3, 3)
       [] OTHER -> {}) \cup MapSyms(m, "c")
AudioBusIds(m) ==
    (CASE m.a = "/n_mapa" -> Every(m.g, 3, 2) \ {0 - 1}
       [] m.a = "/n_mapan" -> Ranges(m.g, 3, 3)
       [] OTHER -> {}) \cup MapSyms(m, "a")

(* ------------------------------------------------------------------ Part 2: client state *)
\* add actions: the names the API accepts and the numbers of the reference
ActionNum(a) == CASE a \in {"addToHead", "head", "h"} -> 0
                  [] a \in {"addToTail", "tail", "t"} -> 1
                  [] a \in {"addBefore", "before", "b"} -> 2
                  [] a \in {"addAfter", "after", "a"} -> 3
                  [] a \in {"addReplace", "replace", "r"} -> 4
\* st.obj[h] = [kind, id, n, alive]: kind "synth" "group" "buf" "cbus" "abus"; id = node id / first
\* bufnum / first bus index; n = buffers resp. channels
Obj(kind, id, n, alive) == [kind |-> kind, id |-> id, n |-> n, alive |-> alive, fr |-> 0, ch |-> 0]
\* a buffer object also knows its frames and channels (what a completion FUNCTION may read from it)
ObjB(id, n, fr, ch) == [kind |-> "buf", id |-> id, n |-> n, alive |-> TRUE, fr |-> fr, ch |-> ch]
InitState(cfg) ==
    [cfg |-> cfg, obj |-> <<>>, nodes |-> {}, recent |-> <<>>,
     buf |-> {}, cb |-> {}, ab |-> {}, inbind |-> FALSE, pending |-> <<>>, poison |-> FALSE]
BufPart(cfg) == A!ClientCfg(cfg.nbuf, cfg.logins, 0, 0, cfg.client)
CbPart(cfg) == A!ClientCfg(cfg.ncb, cfg.logins, 0, 0, cfg.client)
AbPart(cfg) == A!ClientCfg(cfg.nab - cfg.io, cfg.logins, 0, cfg.io, cfg.client)
KnownNodes(st) == st.nodes \cup {0, st.cfg.defgroup, 0 - 1} \cup {st.cfg.groups[k] : k \in 1 .. Len(st.cfg.groups)}
KnownBufs(st) == A!Occ(st.buf)
KnownBuses(st) == A!Occ(st.cb)
KnownAudioBuses(st) == A!Occ(st.ab) \cup (0 .. (st.cfg.io - 1))      \* private buses held + the hardware channels

\* --- argument trees: [k, i, s, c]; k = "i" "f" "s" | "l" (list) "d" (dict: c = key, value, ...) |
\*     "obj" (a Bus / Buffer / Node object, i = handle) | "map" (bus.as_map(), i = handle)
RefId(st, h) == st.obj[h].id
MapString(st, h) == (IF st.obj[h].kind = "abus" THEN "a" ELSE "c") \o ToString(st.obj[h].id)
Scalar(st, x) == CASE x.k = "i" -> I(x.i) [] x.k = "f" -> F(x.i) [] x.k = "s" -> S(x.s)
                   [] x.k = "obj" -> I(RefId(st, x.i)) [] x.k = "map" -> S(MapString(st, x.i))
\* the flattening law: a sequence is flattened; an array that is the VALUE of something is marked
\* with '[' ... ']'; a dict stands for its key, value pairs
RECURSIVE Embed(_, _), EmbedAll(_, _), DictPairs(_, _)
EmbedAll(st, xs) == IF xs = <<>> THEN <<>> ELSE Embed(st, xs[1]) \o EmbedAll(st, Tail(xs))
DictPairs(st, kv) == IF kv = <<>> THEN <<>>
                     ELSE <<Scalar(st, kv[1])>> \o Embed(st, kv[2]) \o DictPairs(st, SubSeq(kv, 3, Len(kv)))
Embed(st, x) == IF x.k = "l" THEN <<LB>> \o EmbedAll(st, x.c) \o <<RB>>
                ELSE IF x.k = "d" THEN DictPairs(st, x.c)
                ELSE <<Scalar(st, x)>>
\* args of Synth(...) / set(...): a list (or a dict) of control, value, control, value ...
ArgList(st, xs) == IF Len(xs) = 1 /\ xs[1].k = "d" THEN DictPairs(st, xs[1].c) ELSE EmbedAll(st, xs)
\* setn(control, values, ...): values list -> count + values, scalar -> 1 + value
RECURSIVE SetnList(_, _)
SetnList(st, xs) == IF Len(xs) < 2 THEN <<>>
    ELSE (IF xs[2].k = "l" THEN <<Scalar(st, xs[1]), I(Len(xs[2].c))>> \o [k \in 1 .. Len(xs[2].c) |-> Scalar(st, xs[2].c[k])]
          ELSE <<Scalar(st, xs[1]), I(1), Scalar(st, xs[2])>>) \o SetnList(st, SubSeq(xs, 3, Len(xs)))
\* mapn(control, bus, ...): bus object -> index, channels; int -> index, 1
RECURSIVE MapnList(_, _)
MapnList(st, xs) == IF Len(xs) < 2 THEN <<>>
    ELSE (IF xs[2].k = "obj" THEN <<Scalar(st, xs[1]), I(st.obj[xs[2].i].id), I(st.obj[xs[2].i].n)>>
          ELSE <<Scalar(st, xs[1]), Scalar(st, xs[2]), I(1)>>) \o MapnList(st, SubSeq(xs, 3, Len(xs)))
ScalarList(st, xs) == [k \in 1 .. Len(xs) |-> Scalar(st, xs[k])]

\* target of a creation / move: "obj" handle | "none" | "server" -> [id, group]
\* target kinds: an object, nothing / the server (the default group), or the plain integer 0 (the root node)
TargetId(st, e) == IF e.tk = "obj" THEN st.obj[e.t].id ELSE IF e.tk = "root" THEN 0 ELSE st.cfg.defgroup

RECURSIVE RefsOf(_)
RefsOf(xs) == IF xs = <<>> THEN {}
              ELSE (IF xs[1].k \in {"obj", "map"} THEN {xs[1].i} ELSE {}) \cup RefsOf(xs[1].c) \cup RefsOf(Tail(xs))
RefersToNothing(st, e) ==
    \E h \in ({e.h} \cup (IF e.tk = "obj" THEN {e.t} ELSE {}) \cup RefsOf(e.a)) \ {0} :
        h > Len(st.obj) \/ st.obj[h].kind = "none"
\* a freed bus names nothing: its as_map() is refused (BusException 'bus not allocated'), and so must be the bus object
\* itself when it is handed to a node command as an argument
RECURSIVE KindRefs(_, _)
KindRefs(xs, kind) == IF xs = <<>> THEN {}
    ELSE (IF xs[1].k = kind THEN {xs[1].i} ELSE {}) \cup KindRefs(xs[1].c, kind) \cup KindRefs(Tail(xs), kind)
DeadBus(st, h) == h \in 1 .. Len(st.obj) /\ st.obj[h].kind \in {"cbus", "abus"} /\ ~st.obj[h].alive
MakingOps == {"synth", "paused", "replace", "group", "basic", "buffer", "buffer_noalloc", "consecutive", "cbus", "abus"}
One(m) == <<Ev("msg", NOTIME, <<m>>)>>
R(st, em, exc) == [st |-> st, em |-> em, exc |-> exc]      \* next state, expected wire events, expected exception class
AddObj(st, o) == [st EXCEPT !.obj = Append(@, o)]
NewNode(st, kind, id) == [AddObj(st, Obj(kind, id, 1, TRUE)) EXCEPT !.nodes = @ \cup {id}, !.recent = Append(@, id)]
\* completion message choices of the drivers: none | a fixed list | a function of the buffer reading its number ("func") |
\* a function reading the buffer's STATE ("state": re-allocate with the same frames and channels).  A completion function
\* is evaluated on the object as it is when the call is made - for free() too: still fully initialised.
Completed(cm, own, o) ==
    CASE cm = "none" -> [g |-> <<I(0)>>, b |-> <<>>]
      [] cm = "list" -> [g |-> <<Blob(1)>>, b |-> <<Msg("/sync", <<I(7)>>)>>]
      [] cm = "func" -> [g |-> <<Blob(1)>>, b |-> <<Msg("/b_query", <<I(own)>>)>>]
      [] cm = "state" -> [g |-> <<Blob(1)>>, b |-> <<Msg("/b_alloc", <<I(own), I(o.fr), I(o.ch)>>)>>]
WithCm(a, g, cm, own, o) == LET c == Completed(cm, own, o) IN MsgB(a, g \o c.g, c.b)

Apply(st, e) ==
    LET o == IF e.h >= 1 /\ e.h <= Len(st.obj) THEN st.obj[e.h] ELSE Obj("none", 0, 0, FALSE)
        id == o.id
        new == IF Len(e.ids) >= 1 THEN e.ids[1] ELSE 0 - 2 IN
    CASE RefersToNothing(st, e) ->       \* the drivers do not call with an object that was never made
            R(IF e.op \in MakingOps THEN AddObj(st, Obj("none", 0, 0, FALSE)) ELSE st, <<>>, "NoObject")
      [] \E h \in KindRefs(e.a, "map") : DeadBus(st, h) ->
            R(IF e.op \in MakingOps THEN AddObj(st, Obj("none", 0, 0, FALSE)) ELSE st, <<>>, "BusException")
      [] \E h \in KindRefs(e.a, "obj") : DeadBus(st, h) ->
            R(IF e.op \in MakingOps THEN AddObj(st, Obj("none", 0, 0, FALSE)) ELSE st, <<>>, "FreedBus")
      [] e.exc = "NoSpace" /\ e.op \in {"buffer", "buffer_noalloc", "consecutive", "cbus", "abus"} ->
            R(AddObj(st, Obj("none", 0, 0, FALSE)), <<>>, "NoSpace")       \* refused: justified or not is AllocOk's business
      [] e.op = "synth" ->
            R(NewNode(st, "synth", new),
              One(Msg("/s_new", <<S(e.def), I(new), I(ActionNum(e.act)), I(TargetId(st, e))>> \o ArgList(st, e.a))), "")
      [] e.op = "paused" ->
            R(NewNode(st, "synth", new),
              <<Ev("bundle", NOTIME, <<Msg("/s_new", <<S(e.def), I(new), I(ActionNum(e.act)), I(TargetId(st, e))>> \o ArgList(st, e.a)),
                                       Msg("/n_run", <<I(new), I(0)>>)>>)>>, "")
      [] e.op = "grain" ->
            R(st, One(Msg("/s_new", <<S(e.def), I(0 - 1), I(ActionNum(e.act)), I(TargetId(st, e))>> \o ArgList(st, e.a))), "")
      [] e.op = "replace" ->     \* n[1] = 1: the new synth takes over the id of the node it replaces
            R(IF e.n[1] = 1 THEN AddObj(st, Obj("synth", new, 1, TRUE)) ELSE NewNode(st, "synth", new),
              One(Msg("/s_new", <<S(e.def), I(new), I(4), I(TargetId(st, e))>> \o ArgList(st, e.a))), "")
      [] e.op = "group" ->
            R(NewNode(st, "group", new),
              One(Msg(IF e.n[1] = 1 THEN "/p_new" ELSE "/g_new", <<I(new), I(ActionNum(e.act)), I(TargetId(st, e))>>)), "")
      [] e.op = "basic" -> R(NewNode(st, IF e.n[1] = 1 THEN "group" ELSE "synth", new), <<>>, "")
      [] e.op = "set" -> R(st, One(Msg("/n_set", <<I(id)>> \o ArgList(st, e.a))), "")
      [] e.op = "setn" -> R(st, One(Msg("/n_setn", <<I(id)>> \o SetnList(st, e.a))), "")
      [] e.op = "map" -> R(st, One(Msg("/n_map", <<I(id)>> \o ScalarList(st, e.a))), "")
      [] e.op = "mapa" -> R(st, One(Msg("/n_mapa", <<I(id)>> \o ScalarList(st, e.a))), "")
      [] e.op = "mapn" -> R(st, One(Msg("/n_mapn", <<I(id)>> \o MapnList(st, e.a))), "")
      [] e.op = "mapan" -> R(st, One(Msg("/n_mapan", <<I(id)>> \o MapnList(st, e.a))), "")
      [] e.op = "fill" -> R(st, One(Msg("/n_fill", <<I(id)>> \o ScalarList(st, e.a))), "")
      [] e.op = "run" -> R(st, One(Msg("/n_run", <<I(id), I(e.n[1])>>)), "")
      [] e.op = "release" ->     \* n = <<has time, time * 8>> (time given as a float): gate 0 | -1 (time <= 0) | -(time + 1)
            LET gate == IF e.n[1] = 0 THEN I(0) ELSE IF e.n[2] <= 0 THEN I(0 - 1) ELSE F(0 - (e.n[2] + 8)) IN
            R(st, <<Ev("bundle", st.cfg.latency, <<Msg("/n_set", <<I(id), S("gate"), gate>>)>>)>>, "")
      [] e.op = "trace" -> R(st, One(Msg("/n_trace", <<I(id)>>)), "")
      [] e.op = "free" -> R([st EXCEPT !.obj[e.h].alive = FALSE], One(Msg("/n_free", <<I(id)>>)), "")
      [] e.op = "free_nosend" -> R([st EXCEPT !.obj[e.h].alive = FALSE], <<>>, "")
      [] e.op = "move_before" -> R(st, One(Msg("/n_before", <<I(id), I(TargetId(st, e))>>)), "")
      [] e.op = "move_after" -> R(st, One(Msg("/n_after", <<I(id), I(TargetId(st, e))>>)), "")
      [] e.op = "move_to_head" -> R(st, One(Msg("/g_head", <<I(TargetId(st, e)), I(id)>>)), "")
      [] e.op = "move_to_tail" -> R(st, One(Msg("/g_tail", <<I(TargetId(st, e)), I(id)>>)), "")
      [] e.op = "free_all" -> R(st, One(Msg("/g_freeAll", <<I(id)>>)), "")
      [] e.op = "deep_free" -> R(st, One(Msg("/g_deepFree", <<I(id)>>)), "")
      [] e.op = "s_get" -> R(st, One(Msg("/s_get", <<I(id)>> \o ScalarList(st, e.a))), "")
      [] e.op = "s_getn" -> R(st, One(Msg("/s_getn", <<I(id)>> \o ScalarList(st, e.a) \o <<I(e.n[1])>>)), "")
      [] e.op = "n_query" -> R(st, One(Msg("/n_query", <<I(id)>>)), "")
      [] e.op = "dump_tree" -> R(st, One(Msg("/g_dumpTree", <<I(id), I(e.n[1])>>)), "")
      [] e.op = "free_default_group" -> R(st, One(Msg("/g_freeAll", <<I(st.cfg.defgroup)>>)), "")
      [] e.op = "reorder" -> R(st, One(Msg("/n_order", <<I(ActionNum(e.act)), I(TargetId(st, e))>> \o ScalarList(st, e.a))), "")
      \* ---- buffers: n = <<frames, channels>>; cm = completion message kind
      [] e.op = "buffer" ->
            R([AddObj(st, ObjB(new, 1, e.n[1], e.n[2])) EXCEPT !.buf = A!AfterAlloc(@, 1, new)],
              One(WithCm("/b_alloc", <<I(new), I(e.n[1]), I(e.n[2])>>, e.cm, new, ObjB(new, 1, e.n[1], e.n[2]))), "")
      [] e.op = "buffer_noalloc" ->
            R([AddObj(st, ObjB(new, 1, e.n[1], e.n[2])) EXCEPT !.buf = A!AfterAlloc(@, 1, new)], <<>>, "")
      [] e.op = "b_alloc" -> R(st, One(WithCm("/b_alloc", <<I(id), I(e.n[1]), I(e.n[2])>>, e.cm, id, o)), "")
      [] e.op = "consecutive" ->      \* n = <<count, frames, channels>>: one block, one /b_alloc per buffer
            R([AddObj(st, ObjB(new, e.n[1], e.n[2], e.n[3])) EXCEPT !.buf = A!AfterAlloc(@, e.n[1], new)],
              [k \in 1 .. e.n[1] |-> Ev("msg", NOTIME, <<WithCm("/b_alloc", <<I(new + k - 1), I(e.n[2]), I(e.n[3])>>, "none", new, o)>>)], "")
      [] e.op = "b_free" ->
            \* the free command for every id the object owns, once; a freed object owns nothing
            IF o.alive
            THEN R([st EXCEPT !.obj[e.h].alive = FALSE, !.buf = A!AfterFree(@, id)],
                   [k \in 1 .. o.n |-> Ev("msg", NOTIME, <<WithCm("/b_free", <<I(id + k - 1)>>, e.cm, id + k - 1, o)>>)], "")
            ELSE R(st, <<>>, "")
      [] e.op = "b_free_all" ->       \* Buffer.free_all(server): every live buffer number, one bundle
            LET ids == A!Occ(st.buf)
                RECURSIVE Asc(_)
                Asc(S2) == IF S2 = {} THEN <<>> ELSE LET mn == CHOOSE x \in S2 : \A y \in S2 : x <= y IN <<mn>> \o Asc(S2 \ {mn}) IN
            R([st EXCEPT !.buf = {}, !.obj = [h \in DOMAIN st.obj |-> IF st.obj[h].kind = "buf" THEN Obj("buf", st.obj[h].id, st.obj[h].n, FALSE)
                                                                    ELSE st.obj[h]]],
              IF ids = {} THEN <<>> ELSE <<Ev("bundle", NOTIME, [k \in 1 .. Cardinality(ids) |-> Msg("/b_free", <<I(Asc(ids)[k])>>)])>>, "")
      [] e.op \in {"b_zero", "b_close"} ->
            IF o.alive THEN R(st, One(WithCm(IF e.op = "b_zero" THEN "/b_zero" ELSE "/b_close", <<I(id)>>, e.cm, id, o)), "")
            ELSE R(st, <<>>, "AlreadyFreed")
      [] e.op = "b_query" -> IF o.alive THEN R(st, One(Msg("/b_query", <<I(id)>>)), "") ELSE R(st, <<>>, "AlreadyFreed")
      [] e.op = "b_set" -> IF o.alive THEN R(st, One(Msg("/b_set", <<I(id)>> \o ScalarList(st, e.a))), "") ELSE R(st, <<>>, "AlreadyFreed")
      [] e.op = "b_setn" -> IF o.alive THEN R(st, One(Msg("/b_setn", <<I(id)>> \o SetnList(st, e.a))), "") ELSE R(st, <<>>, "AlreadyFreed")
      [] e.op = "b_fill" ->      \* fill(start, frames, value)
            IF o.alive THEN R(st, One(Msg("/b_fill", <<I(id)>> \o ScalarList(st, e.a))), "") ELSE R(st, <<>>, "AlreadyFreed")
      [] e.op = "b_get" -> IF o.alive THEN R(st, One(Msg("/b_get", <<I(id), I(e.n[1])>>)), "") ELSE R(st, <<>>, "AlreadyFreed")
      [] e.op = "b_getn" -> IF o.alive THEN R(st, One(Msg("/b_getn", <<I(id), I(e.n[1]), I(e.n[2])>>)), "") ELSE R(st, <<>>, "AlreadyFreed")
      \* wave fill: n = <<normalize, as wavetable, clear first>> -> flags 1, 2, 4; a = partial data, interleaved per partial
      [] e.op \in {"b_sine1", "b_sine2", "b_sine3", "b_cheby"} ->
            IF o.alive THEN R(st, One(Msg("/b_gen", <<I(id), S(CASE e.op = "b_sine1" -> "sine1" [] e.op = "b_sine2" -> "sine2"
                                                                 [] e.op = "b_sine3" -> "sine3" [] OTHER -> "cheby"),
                                                     I(e.n[1] + 2 * e.n[2] + 4 * e.n[3])>> \o ScalarList(st, e.a))), "")
            ELSE R(st, <<>>, "AlreadyFreed")
      [] e.op = "b_normalize" ->     \* n = <<as wavetable>>, a = <<new max>>
            IF o.alive THEN R(st, One(Msg("/b_gen", <<I(id), S(IF e.n[1] = 1 THEN "wnormalize" ELSE "normalize"), Scalar(st, e.a[1])>>)), "")
            ELSE R(st, <<>>, "AlreadyFreed")
      [] e.op = "b_copy" ->          \* copy_data(dst = target object, dst start, start, samples)
            IF o.alive THEN R(st, One(Msg("/b_gen", <<I(st.obj[e.t].id), S("copy"), I(e.n[1]), I(id), I(e.n[2]), I(e.n[3])>>)), "")
            ELSE R(st, <<>>, "AlreadyFreed")
      [] e.op = "b_read" ->      \* read(path, file start, frames, buf start, leave open) + info query on completion
            R(st, One(MsgB("/b_read", <<I(id), S(e.def), I(e.n[1]), I(e.n[2]), I(e.n[3]), I(e.n[4]), Blob(1)>>,
                           <<Msg("/b_query", <<I(id)>>)>>)), "")
      [] e.op = "b_cue" ->       \* cue(path, start): stream from `start`, whole buffer, from its beginning, file left open
            R(st, One(WithCm("/b_read", <<I(id), S(e.def), I(e.n[1]), I(e.n[2]), I(0), I(1)>>, e.cm, id, o)), "")
      [] e.op = "b_write" ->     \* write(path, header, sample format, frames, start, leave open)
            IF o.alive THEN R(st, One(WithCm("/b_write", <<I(id), S(e.def), S("aiff"), S("int24"), I(e.n[1]), I(e.n[2]), I(e.n[3])>>, e.cm, id, o)), "")
            ELSE R(st, <<>>, "AlreadyFreed")
      [] e.op = "b_alloc_read" ->
            R(st, One(WithCm("/b_allocRead", <<I(id), S(e.def), I(e.n[1]), I(e.n[2])>>, e.cm, id, o)), "")
      \* ---- buses: n = <<channels>>
      [] e.op = "cbus" -> R([AddObj(st, Obj("cbus", new, e.n[1], TRUE)) EXCEPT !.cb = A!AfterAlloc(@, e.n[1], new)], <<>>, "")
      [] e.op = "abus" -> R([AddObj(st, Obj("abus", new, e.n[1], TRUE)) EXCEPT !.ab = A!AfterAlloc(@, e.n[1], new)], <<>>, "")
      [] e.op = "bus_free" ->
            IF ~o.alive THEN R(st, <<>>, "")
            ELSE IF o.kind = "cbus" THEN R([st EXCEPT !.obj[e.h].alive = FALSE, !.cb = A!AfterFree(@, id)], <<>>, "")
            ELSE R([st EXCEPT !.obj[e.h].alive = FALSE, !.ab = A!AfterFree(@, id)], <<>>, "")
      [] e.op = "c_set" ->       \* set(v0, v1, ...): consecutive channels from the bus index
            IF o.alive THEN R(st, One(Msg("/c_set", [k \in 1 .. (2 * Len(e.a)) |->
                                   IF k % 2 = 1 THEN I(id + (k - 1) \div 2) ELSE Scalar(st, e.a[k \div 2])])), "")
            ELSE R(st, <<>>, "AlreadyFreed")
      [] e.op = "c_set_at" ->    \* set_at(offset, v0, v1, ...)
            IF o.alive THEN R(st, One(Msg("/c_set", [k \in 1 .. (2 * Len(e.a)) |->
                                   IF k % 2 = 1 THEN I(id + e.n[1] + (k - 1) \div 2) ELSE Scalar(st, e.a[k \div 2])])), "")
            ELSE R(st, <<>>, "AlreadyFreed")
      [] e.op = "c_setn" -> IF o.alive THEN R(st, One(Msg("/c_setn", <<I(id), I(Len(e.a))>> \o ScalarList(st, e.a))), "") ELSE R(st, <<>>, "AlreadyFreed")
      [] e.op = "c_setn_at" -> IF o.alive THEN R(st, One(Msg("/c_setn", <<I(id + e.n[1]), I(Len(e.a))>> \o ScalarList(st, e.a))), "") ELSE R(st, <<>>, "AlreadyFreed")
      [] e.op = "c_fill" ->      \* fill(value, channels)
            IF o.alive THEN R(st, One(Msg("/c_fill", <<I(id), I(e.n[1]), Scalar(st, e.a[1])>>)), "") ELSE R(st, <<>>, "AlreadyFreed")
      [] e.op = "c_get" ->       \* one channel: /c_get index; more: /c_getn index channels
            IF o.alive THEN R(st, One(IF o.n = 1 THEN Msg("/c_get", <<I(id)>>) ELSE Msg("/c_getn", <<I(id), I(o.n)>>)), "")
            ELSE R(st, <<>>, "AlreadyFreed")
      [] e.op = "c_getn" -> IF o.alive THEN R(st, One(Msg("/c_getn", <<I(id), I(e.n[1])>>)), "") ELSE R(st, <<>>, "AlreadyFreed")
      \* ---- bind
      \* ---- `yield from server.sync()`: RT: a bundle (time None) with '/sync id', then wait for '/synced id';
      \*      NRT: nothing at all (commands complete in logical time).  The id is an observation.
      [] e.op = "sync" -> R(st, IF st.cfg.rt = 1 THEN <<Ev("bundle", NOTIME, <<Msg("/sync", <<I(new)>>)>>)>> ELSE <<>>, "")
      [] e.op = "bigbind" -> R(st, <<>>, "")        \* judged as a whole by BigWhy; leaves the client state alone
      \* a command with an argument the OSC encoder refuses (an int outside int32 in set(); a pathlib.Path as file name in
      \* Buffer.read()): outside a block the call is refused and nothing is sent; inside a block it is collected (see Step)
      [] e.op = "bad" -> R(st, <<>>, "Unencodable")
      [] e.op = "bind_enter" -> R([st EXCEPT !.inbind = TRUE, !.pending = <<>>, !.poison = FALSE], <<>>, "")
      [] e.op = "bind_exit" -> R([st EXCEPT !.inbind = FALSE, !.pending = <<>>, !.poison = FALSE], <<>>, "")      \* handled in Step
      [] OTHER -> R(st, <<Ev("unknown-op", 0, <<>>)>>, "")

RECURSIVE MsgsOf(_)
MsgsOf(evs) == IF evs = <<>> THEN <<>> ELSE evs[1].m \o MsgsOf(Tail(evs))
\* what must be on the wire after API call e, and the next state, bind() included.
\* sync() inside a block (RT) sends "the generated bundle so far" - the held-back commands, in issue order, as one
\* bundle at server latency (nothing if none are held) - and then the '/sync' bundle; the block goes on collecting.
\* So the commands of a block reach the wire split at the sync points, each exactly once, the '/sync' after the
\* commands issued before it.  What a sync has flushed is on the wire for good (the server has acknowledged it): a
\* block that raises later only loses the commands issued after its last sync.
Step(st, e) ==
    LET r == Apply(st, e) IN
    IF e.op = "sync" /\ st.inbind /\ st.cfg.rt = 1 /\ r.exc = ""
    THEN [st |-> [r.st EXCEPT !.pending = <<>>], exc |-> "",
          em |-> (IF st.pending = <<>> THEN <<>> ELSE <<Ev("bundle", st.cfg.latency, st.pending)>>) \o r.em]
    \* A block whose FLUSH fails (it collected a command the encoder refuses): the exit raises, nothing of the block is
    \* sent, and the block is over all the same - the server's address is the real one again, so the calls that follow
    \* (outside, or in new blocks) are judged like any other and must reach the wire.
    ELSE IF e.op = "bind_exit" /\ st.poison /\ e.n[1] = 0
    THEN [st |-> r.st, exc |-> "Unencodable", em |-> <<>>]
    ELSE IF e.op = "bind_exit"
    THEN [st |-> r.st, exc |-> "",
          em |-> IF e.n[1] = 1 \/ st.pending = <<>> THEN <<>> ELSE <<Ev("bundle", st.cfg.latency, st.pending)>>]
    ELSE IF st.inbind /\ e.op = "bad"
    THEN [st |-> [st EXCEPT !.poison = TRUE], exc |-> "", em |-> <<>>]
    ELSE IF st.inbind /\ e.op # "bind_enter"
    THEN [st |-> [r.st EXCEPT !.pending = @ \o MsgsOf(r.em)], exc |-> r.exc, em |-> <<>>]
    ELSE [st |-> r.st, exc |-> r.exc, em |-> r.em]

(* ---- the L1 clauses, evaluated on what was OBSERVED (em) for call e made in state st ---- *)
AllMsgs(em) == LET ms == MsgsOf(em) IN {ms[k] : k \in 1 .. Len(ms)}
CreationOps == {"synth", "paused", "replace", "group", "basic"}
NodeFresh(st, e) ==      \* the id of a new node object: the client's range, distinct within the window
    \/ e.op \notin CreationOps
    \/ (e.op = "replace" /\ e.n[1] = 1 /\ Len(e.ids) = 1 /\ e.ids[1] = TargetId(st, e))
    \/ /\ Len(e.ids) = 1
       /\ NID!IdsWhy(Append(st.recent, e.ids[1]), RealM, st.cfg.initnode, st.cfg.client) = "ok"
AllocOk(st, e) ==        \* index of a new bus / buffer object judged by the allocation spec
    CASE e.exc = "NoSpace" ->
            (CASE e.op \in {"buffer", "buffer_noalloc"} -> A!AllocWhy(st.buf, BufPart(st.cfg), 1, A!NONE) = "ok"
               [] e.op = "consecutive" -> A!AllocWhy(st.buf, BufPart(st.cfg), e.n[1], A!NONE) = "ok"
               [] e.op = "cbus" -> A!AllocWhy(st.cb, CbPart(st.cfg), e.n[1], A!NONE) = "ok"
               [] e.op = "abus" -> A!AllocWhy(st.ab, AbPart(st.cfg), e.n[1], A!NONE) = "ok"
               [] OTHER -> FALSE)
      [] e.op \in {"buffer", "buffer_noalloc"} -> Len(e.ids) = 1 /\ A!AllocWhy(st.buf, BufPart(st.cfg), 1, e.ids[1]) = "ok"
      [] e.op = "consecutive" -> Len(e.ids) = e.n[1] /\ A!AllocWhy(st.buf, BufPart(st.cfg), e.n[1], e.ids[1]) = "ok"
                                 /\ \A k \in 1 .. Len(e.ids) : e.ids[k] = e.ids[1] + k - 1
      [] e.op = "cbus" -> Len(e.ids) = 1 /\ A!AllocWhy(st.cb, CbPart(st.cfg), e.n[1], e.ids[1]) = "ok"
      [] e.op = "abus" -> Len(e.ids) = 1 /\ A!AllocWhy(st.ab, AbPart(st.cfg), e.n[1], e.ids[1]) = "ok"
      [] OTHER -> TRUE
OnlyKnownIds(st2, st, ms) ==       \* st2: state after the call (ids created by it are known), st: before (ids it freed were)
    \A m \in ms : /\ NodeIds(m) \subseteq KnownNodes(st2)
                  /\ BufIds(m) \subseteq KnownBufs(st2) \cup KnownBufs(st)
                  /\ BusIds(m) \subseteq KnownBuses(st2) \cup KnownBuses(st)
                  /\ AudioBusIds(m) \subseteq KnownAudioBuses(st2) \cup KnownAudioBuses(st)
CreationCmds == {"/s_new", "/g_new", "/p_new"}
\* a bundle without elements carries no command: it is not counted as output
Norm(em) == SelectSeq(em, LAMBDA w : w.m # <<>>)
(* ---- large blocks.  One event stands for a whole bind() block of N commands on one node (compact form: the commands
   are named 1..N by an argument value, the recorded wire is big = <<[t, sync, ids], ...>>, one entry per bundle with the
   names found in it).  n = <<N, k, r>>: `yield from server.sync()` after command k (0 = no sync), exception raised
   before command r (0 = none).  Size-agnostic law: however the library splits an oversize block (Clump.tla), the
   command bundles carry server latency, none is empty, and concatenated they are the commands that had to reach the
   wire - every one exactly once, in issue order - split at the sync (RT) exactly as for small blocks.            *)
RECURSIVE CatIds(_)
CatIds(ws) == IF ws = <<>> THEN <<>> ELSE ws[1].ids \o CatIds(Tail(ws))
Upto(a, b) == [i \in 1 .. (IF b >= a THEN b - a + 1 ELSE 0) |-> a + i - 1]
BigWhy(st, e) ==
    LET N == e.n[1]
        k == IF st.cfg.rt = 1 THEN e.n[2] ELSE 0          \* NRT: sync does nothing
        r == e.n[3]
        w == SelectSeq(e.big, LAMBDA b : b.sync = 1 \/ b.ids # <<>>)        \* an empty bundle is not output
        syncs == {j \in 1 .. Len(w) : w[j].sync = 1}
        flushed == k > 0 /\ (r = 0 \/ r > k)                               \* the sync was reached
        want1 == IF flushed THEN Upto(1, k) ELSE IF r = 0 THEN Upto(1, N) ELSE <<>>
        want2 == IF flushed /\ r = 0 THEN Upto(k + 1, N) ELSE <<>>
        cut == IF syncs = {} THEN Len(w) + 1 ELSE CHOOSE j \in syncs : TRUE
        seg1 == SubSeq(w, 1, cut - 1)
        seg2 == SubSeq(w, cut + 1, Len(w)) IN
    IF e.exc # "" THEN "raised"
    ELSE IF Cardinality(syncs) # (IF flushed THEN 1 ELSE 0) THEN "BindSplitAtSync"
    ELSE IF \E j \in 1 .. Len(w) : w[j].sync = 0 /\ w[j].t # st.cfg.latency THEN "BigBlockLatency"
    ELSE IF \E j \in syncs : w[j].ids # <<>> \/ w[j].t # NOTIME THEN "BindSplitAtSync"
    ELSE IF r # 0 /\ Len(CatIds(seg1) \o CatIds(seg2)) > Len(want1) THEN "BindNothingOnRaise"
    ELSE IF CatIds(seg1) # want1 \/ CatIds(seg2) # want2 THEN "BigBlockExactlyOnceInOrder"
    ELSE "ok"

StripMsg(m) == [a |-> m.a, g |-> m.g, b |-> [k \in 1 .. Len(m.b) |-> [a |-> m.b[k].a, g |-> m.b[k].g, b |-> <<>>]]]
Strip(em) == [k \in 1 .. Len(em) |-> [k |-> em[k].k, t |-> em[k].t, m |-> [j \in 1 .. Len(em[k].m) |-> StripMsg(em[k].m[j])]]]
\* the library refuses a freed bus object with the same exception class as a freed bus's as_map()
\* ... and whatever class the encoder uses to refuse an argument counts as the refusal
ExcOk(got, want) == got = want \/ (want = "FreedBus" /\ got = "BusException") \/ (want = "Unencodable" /\ got # "")
Why(st, e0) ==
    IF e0.op = "bigbind" THEN BigWhy(st, e0) ELSE
    LET e == [e0 EXCEPT !.em = Strip(Norm(@))]
        x == Step(st, e)
        ms == AllMsgs(Norm(e0.em)) IN          \* with the map-symbol projection, for the id clauses
    IF ~ExcOk(e.exc, x.exc) THEN (IF e.exc = "" THEN "NotRefused:" \o x.exc ELSE "raised")
    ELSE IF e.exc # "NoObject" /\ ~AllocOk(st, e) THEN "IdNotFromAllocator"
    ELSE IF e.exc # "" THEN (IF e.em = <<>> THEN "ok" ELSE "EmittedAlthoughRefused")
    ELSE IF ~NodeFresh(st, e) THEN "NodeIdRange"
    ELSE IF e.op \in {"b_free", "bus_free"} /\ ~st.inbind /\ e.em # x.em THEN "FreeOncePerOwnedId"
    ELSE IF \E m \in ms : ~WellTyped(StripMsg(m)) THEN "WellTyped"
    \* (the ids inside a block's bundle were known when the calls were issued; the bundle is compared below)
    ELSE IF e.op \notin {"bind_exit", "sync"} /\ ~OnlyKnownIds(x.st, st, ms) THEN "OnlyKnownIds"
    ELSE IF e.op = "sync" /\ e.em # x.em THEN (IF st.inbind THEN "BindSplitAtSync" ELSE "Sync")
    ELSE IF st.inbind /\ e.op \notin {"bind_exit", "sync"} /\ e.em # <<>> THEN "BindHoldsBack"
    ELSE IF e.op = "bind_exit" /\ e.n[1] = 1 /\ e.em # <<>> THEN "BindNothingOnRaise"
    ELSE IF e.op = "bind_exit" /\ e.em # x.em THEN "BindOneBundleInOrder"
    ELSE IF e.op \in (CreationOps \ {"basic"}) /\ ~st.inbind
            /\ Cardinality({m \in ms : m.a \in CreationCmds /\ Len(e.ids) = 1 /\
                            e.ids[1] = (IF m.a = "/s_new" THEN m.g[2].i ELSE m.g[1].i)}) # 1 THEN "CreateUsesOwnId"
    ELSE IF e.op \in {"free", "b_free", "b_free_all", "bus_free"} /\ ~st.inbind /\ e.em # x.em THEN "FreeOncePerOwnedId"
    ELSE IF e.em # x.em THEN "Expected"
    ELSE "ok"
=============================================================================
