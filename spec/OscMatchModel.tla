---------------------------- MODULE OscMatchModel ----------------------------
(* Design-level check of OscMatch.tla: all patterns "/" + <= MaxP characters over the OSC pattern
   alphabet against all addresses "/" + <= MaxA characters over {a, b, /}.  Laws:
     LiteralLaw    a pattern without special characters matches exactly itself
     PartsLaw      a match implies the same number of parts ('*' and '?' never cross '/')
     MalformedLaw  the syntactic notion of malformed agrees with "matches nothing"
     StarLaw       replacing one whole part of the address by any other non-'/' string keeps a match
                   when the pattern part is '*'                                       *)
EXTENDS OscMatch
CONSTANTS MaxP, MaxA
VARIABLES p
PatChars == {97, 98, SLASH, QM, STAR, LB, RB, BANG, DASH, LC, COMMA, RC}
AdrChars == {97, 98, SLASH}
RECURSIVE Strs(_, _)
Strs(cs, n) == IF n = 0 THEN {<<>>} ELSE LET S == Strs(cs, n - 1) IN S \cup {Append(s, c) : s \in S, c \in cs}
Addrs == {<<SLASH>> \o s : s \in Strs(AdrChars, MaxA)}

Init == p = <<SLASH>>
AddChar == Len(p) <= MaxP /\ \E c \in PatChars : p' = Append(p, c)
Spec == Init /\ [][AddChar]_p

LiteralLaw == Literal(p) => \A a \in Addrs : Match(p, a) <=> (a = p)
PartsLaw == \A a \in Addrs : Match(p, a) => Len(SplitAt(p, SLASH)) = Len(SplitAt(a, SLASH))
MalformedLaw == Malformed(p) => \A a \in Addrs : ~Match(p, a)
StarLaw == \A a \in Addrs :
              LET pp == SplitAt(p, SLASH)  ap == SplitAt(a, SLASH) IN
              (Match(p, a) /\ Len(pp) >= 2 /\ pp[2] = <<STAR>>)
                  => \A w \in Strs({97, 98}, 2) : Match(p, <<SLASH>> \o w \o SubSeq(a, Len(ap[2]) + 2, Len(a)))
=============================================================================
