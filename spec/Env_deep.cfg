SPECIFICATION Spec
CONSTANTS
  Levels <- LevelsD
  Times <- TimesD
  Curves <- CurvesD
  MaxSeg = 3
  MaxPts = 2
  QTicks = {0, 24, 48, 88, 200}
INVARIANT FormatWellFormed
INVARIANT NodesEncoded
INVARIANT WrapLaw
INVARIANT ConstructorNodes
INVARIANT PointsSorted
INVARIANT AtLaws
INVARIANT WalkRefines
