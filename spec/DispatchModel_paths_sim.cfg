SPECIFICATION Spec
CONSTANTS
  MaxResp = 3
  MaxRecv = 3
  MaxOps = 6
  Mode = "paths+"
INVARIANT EachOnce
INVARIANT OrdConsistent
PROPERTY SpecIsLegal
PROPERTY UntouchedFireOnce
