SPECIFICATION Spec
CONSTANTS
  MaxArgs = 2
  MaxEls = 2
  MaxDepth = 2
  Emitting = FALSE
INVARIANT InvRoundTrip
INVARIANT InvAligned
INVARIANT InvLenAgrees
INVARIANT InvPredNotBelow
INVARIANT InvRefusesNonAscii
