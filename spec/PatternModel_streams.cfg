SPECIFICATION Spec
CONSTANTS
  NV = 5
  Mode = "streams"
  NS = 2
  NB = 32
INVARIANT LawsHold
INVARIANT DefinedOnly
INVARIANT Immutable
PROPERTY PatternConstant
