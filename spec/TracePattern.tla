--------------------------- MODULE TracePattern ---------------------------
(* C->S binding for C13: validates recorded executions of real sc3 pattern objects against the denotation
   D of Pattern.tla.  A trace is [id, x (expression), n (values observed), snap0, ev]; every event is
   [op, s (stream), n, r = [k, v], snap]: what the real call returned and a digest of the pattern object's
   deep state after the call.  den = D(x, n) is computed once per trace; every event must return what the
   stream operators of Pattern.tla say, and the pattern's state must still be the initial one (Immutable).
   A stream that has signalled its end stays ended: every later next() raises StopStream again, a second
   list()/all() on the same stream object is empty (Stream protocol: Routine.next "Done -> raise StopStream",
   iterator protocol; Placep and other pollers rely on it).  One verdict per trace.                         *)
EXTENDS Pattern, Json, IOUtils
Traces == JsonDeserialize(IOEnv.VERIF_TRACES)
MaxS == 8
VARIABLES tid, l, den, pos, fin
tvars == <<tid, l, den, pos, fin>>

TInit == /\ tid \in 1..Len(Traces) /\ l = 0
         /\ den = Res(<<>>, TRUE)
         /\ pos = [i \in 1..MaxS |-> 0 - 1]
         /\ fin = {}            \* streams that have signalled their end (they must keep doing so: OpNext/OpTake/OpAll at the end)
\* the denotation is computed once per trace (in a worker thread: deep recursion needs the workers' -Xss)
Start == /\ l = 0 /\ l' = 1 /\ den' = D(Traces[tid].x, Traces[tid].n) /\ UNCHANGED <<tid, pos, fin>>

\* what the spec expects for event e, given the positions of the streams
Expect(e, ps, N) ==
    CASE e.op = "new" -> [pos |-> 0, ret |-> R("none", <<>>)]
      [] e.op = "next" -> OpNext(den, ps[e.s])
      [] e.op = "take" -> OpTake(den, ps[e.s], e.n)
      [] e.op = "all" -> OpAll(den, ps[e.s])
      [] e.op = "list" -> OpAll(den, 0)
      [] e.op = "reset" -> OpReset(den, ps[e.s])
      [] OTHER -> [pos |-> 0, ret |-> R("no-such-op", <<>>)]

Why(e, x, N, snap0) ==
    IF ~den.ok THEN "undefined"                                       \* generator error: never a verdict on the code
    ELSE IF e.op \in {"next", "take", "all", "reset"} /\ pos[e.s] < 0 THEN "no-stream"
    ELSE IF e.op = "take" /\ pos[e.s] + e.n > N /\ ~Ended(den, N) THEN "beyond"
    ELSE IF e.op = "next" /\ pos[e.s] >= N THEN "beyond"
    ELSE IF e.op \in {"all", "list"} /\ ~Ended(den, N) THEN "beyond"
    ELSE LET ex == Expect(e, pos, N) IN
         IF e.r.k # ex.ret.k THEN
              (IF e.r.k \in {"val", "seq", "seqstop", "stop", "none"} THEN "ends:" \o ex.ret.k \o "-got-" \o e.r.k
               ELSE "raises:" \o e.r.k)
         ELSE IF Len(e.r.v) # Len(ex.ret.v) THEN "length"
         ELSE IF e.r.v # ex.ret.v THEN "value"
         ELSE IF e.snap # snap0 THEN "Immutable"
         ELSE "ok"

Step == /\ l >= 1 /\ l <= Len(Traces[tid].ev)
        /\ LET tr == Traces[tid]
               e == tr.ev[l]
               why == Why(e, tr.x, tr.n, tr.snap0) IN
           IF why = "ok"
           THEN /\ l' = l + 1 /\ UNCHANGED <<tid, den>>
                /\ IF e.op = "list" THEN UNCHANGED <<pos, fin>>
                   ELSE LET ex == Expect(e, pos, tr.n) IN
                        /\ pos' = [pos EXCEPT ![e.s] = ex.pos]
                        /\ fin' = IF e.op \in {"new", "reset"} THEN fin \ {e.s}
                                  ELSE IF e.op = "all" \/ ex.ret.k \in {"stop", "seqstop"} THEN fin \cup {e.s} ELSE fin
           ELSE /\ PrintT(<<"REJ", tr.id, l, why>>)
                /\ l' = 0 /\ UNCHANGED <<tid, den, pos, fin>>
Done == /\ l = Len(Traces[tid].ev) + 1
        /\ PrintT(<<"ACC", Traces[tid].id>>)
        /\ l' = 0 - 1 /\ UNCHANGED <<tid, den, pos, fin>>
TNext == Start \/ Step \/ Done
TSpec == TInit /\ [][TNext]_tvars
==========================================================================
