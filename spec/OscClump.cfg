SPECIFICATION Spec
CONSTANTS
  N = 4
INVARIANT StepRefines
INVARIANT RunAgrees
INVARIANT SiteValid
INVARIANT PredAbove
