SPECIFICATION Spec
CONSTANTS
  Tasks = {"a", "b", "c"}
  Deltas = {0, 4, 8}
  Tempi = {1, 2}
  MaxNow = 12
  MaxResched = 1
  NotifyRule = "head"
INVARIANT NoMissedHead
INVARIANT NeverEarly
INVARIANT OncePerScheduling
INVARIANT InOrder
