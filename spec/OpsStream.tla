---------------------------- MODULE OpsStream ----------------------------
(* C15, L2 for lazily evaluated operands: BinopStream.next as the code performs it - draw from a, then
   from b, then apply the kernel; either draw may end the composed stream.  Refinement (step
   invariants): what has been emitted is always the prefix the lifting law of Ops.tla prescribes
   (mode "short": pairs (i, i); mode "same", one stream object on both sides: pairs (2i-1, 2i)), and when
   the composed stream ends its length is the one the law prescribes (min of the two lengths; half the
   length).  Also recorded: at most one element of a is consumed without being emitted.             *)
EXTENDS Integers, Sequences, TLC
CONSTANT MaxLen
VARIABLES la, lb, same, pa, pb, pc, out, done
vars == <<la, lb, same, pa, pb, pc, out, done>>
Min2(a, b) == IF a < b THEN a ELSE b

Init == /\ la \in 0..MaxLen /\ lb \in 0..MaxLen /\ same \in BOOLEAN /\ (same => lb = la)
        /\ pa = 0 /\ pb = 0 /\ pc = "a" /\ out = <<>> /\ done = FALSE
\* position of the next element of each operand (one shared cursor when it is the same stream)
CurA == IF same THEN pa + pb ELSE pa
CurB == IF same THEN pa + pb ELSE pb
DrawA == /\ ~done /\ pc = "a"
         /\ IF CurA < la THEN pa' = pa + 1 /\ pc' = "b" /\ UNCHANGED <<done, out>>
            ELSE done' = TRUE /\ UNCHANGED <<pa, pc, out>>          \* StopStream from a: b is not touched
         /\ UNCHANGED <<la, lb, same, pb>>
DrawB == /\ ~done /\ pc = "b"
         /\ IF CurB < lb
            THEN /\ pb' = pb + 1 /\ pc' = "a"
                 /\ out' = Append(out, <<IF same THEN pa + pb ELSE pa, IF same THEN pa + pb + 1 ELSE pb + 1>>)
                 /\ UNCHANGED done
            ELSE done' = TRUE /\ UNCHANGED <<pb, pc, out>>          \* StopStream from b: a's element is lost
         /\ UNCHANGED <<la, lb, same, pa>>
Next == DrawA \/ DrawB
Spec == Init /\ [][Next]_vars

\* L1 (Ops.tla): element i of the result meets leaves (i, i), or (2i-1, 2i) for one stream on both sides
Prescribed(i) == IF same THEN <<2 * i - 1, 2 * i>> ELSE <<i, i>>
PrefixOfLaw == \A i \in 1..Len(out) : out[i] = Prescribed(i)
LengthOfLaw == done => Len(out) = (IF same THEN la \div 2 ELSE Min2(la, lb))
AtMostOneLost == pb = Len(out) /\ pa - Len(out) \in {0, 1}
=============================================================================
