SPECIFICATION Spec
CONSTANTS
  TempoExps = {0, 1, 2, 3}
  BeatVals = {4, 28, 91}
  Meters = {3, 4, 6}
  Deltas = {0, 1, 8, 20}
  Quants = {0, 8, 12}
  Win = 4
  MaxSteps = 2
CONSTRAINT Bound
INVARIANT RoundTrip
INVARIANT GridLaw
INVARIANT PlaySchedulesOnGrid
INVARIANT BarInverse
INVARIANT NextBarNotBeforeNow
PROPERTY Continuity
PROPERTY BeatsAdvanceAtTempo
