SPECIFICATION Spec
CONSTANTS
  NFaults = 1
  MaxWrap = 24
  Emitting = FALSE
INVARIANT DecTotal
INVARIANT UnalignedIsBad
INVARIANT ValidStaysValid
