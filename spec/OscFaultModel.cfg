SPECIFICATION Spec
CONSTANTS
  NFaults = 1
  Emitting = FALSE
INVARIANT DecTotal
INVARIANT UnalignedIsBad
INVARIANT ValidStaysValid
