---- MODULE Build_TTrace_1790368481 ----
EXTENDS Sequences, TLCExt, Build, Toolbox, Naturals, TLC

_expression ==
    LET Build_TEExpression == INSTANCE Build_TEExpression
    IN Build_TEExpression!expression
----

_trace ==
    LET Build_TETrace == INSTANCE Build_TETrace
    IN Build_TETrace!trace
----

_inv ==
    ~(
        TLCGet("level") = Len(_TETrace)
        /\
        att = (<<[f |-> "", id |-> 0, out |-> ""], [f |-> "", id |-> 0, out |-> ""]>>)
        /\
        natt = (<<1, 0>>)
        /\
        owner = ((<<1, 1>> :> 1))
        /\
        pc = (<<"idle", "idle">>)
        /\
        nb = (1)
        /\
        ctx = (1)
        /\
        lock = (0)
        /\
        fin = ({})
        /\
        orphans = ({[owner |-> 1, n |-> 1]})
    )
----

_init ==
    /\ att = _TETrace[1].att
    /\ ctx = _TETrace[1].ctx
    /\ nb = _TETrace[1].nb
    /\ natt = _TETrace[1].natt
    /\ pc = _TETrace[1].pc
    /\ lock = _TETrace[1].lock
    /\ fin = _TETrace[1].fin
    /\ orphans = _TETrace[1].orphans
    /\ owner = _TETrace[1].owner
----

_next ==
    /\ \E i,j \in DOMAIN _TETrace:
        /\ \/ /\ j = i + 1
              /\ i = TLCGet("level")
        /\ att  = _TETrace[i].att
        /\ att' = _TETrace[j].att
        /\ ctx  = _TETrace[i].ctx
        /\ ctx' = _TETrace[j].ctx
        /\ nb  = _TETrace[i].nb
        /\ nb' = _TETrace[j].nb
        /\ natt  = _TETrace[i].natt
        /\ natt' = _TETrace[j].natt
        /\ pc  = _TETrace[i].pc
        /\ pc' = _TETrace[j].pc
        /\ lock  = _TETrace[i].lock
        /\ lock' = _TETrace[j].lock
        /\ fin  = _TETrace[i].fin
        /\ fin' = _TETrace[j].fin
        /\ orphans  = _TETrace[i].orphans
        /\ orphans' = _TETrace[j].orphans
        /\ owner  = _TETrace[i].owner
        /\ owner' = _TETrace[j].owner

\* Uncomment the ASSUME below to write the states of the error trace
\* to the given file in Json format. Note that you can pass any tuple
\* to `JsonSerialize`. For example, a sub-sequence of _TETrace.
    \* ASSUME
    \*     LET J == INSTANCE Json
    \*         IN J!JsonSerialize("Build_TTrace_1790368481.json", _TETrace)

=============================================================================

 Note that you can extract this module `Build_TEExpression`
  to a dedicated file to reuse `expression` (the module in the 
  dedicated `Build_TEExpression.tla` file takes precedence 
  over the module `Build_TEExpression` below).

---- MODULE Build_TEExpression ----
EXTENDS Sequences, TLCExt, Build, Toolbox, Naturals, TLC

expression == 
    [
        \* To hide variables of the `Build` spec from the error trace,
        \* remove the variables below.  The trace will be written in the order
        \* of the fields of this record.
        att |-> att
        ,ctx |-> ctx
        ,nb |-> nb
        ,natt |-> natt
        ,pc |-> pc
        ,lock |-> lock
        ,fin |-> fin
        ,orphans |-> orphans
        ,owner |-> owner
        
        \* Put additional constant-, state-, and action-level expressions here:
        \* ,_stateNumber |-> _TEPosition
        \* ,_attUnchanged |-> att = att'
        
        \* Format the `att` variable as Json value.
        \* ,_attJson |->
        \*     LET J == INSTANCE Json
        \*     IN J!ToJson(att)
        
        \* Lastly, you may build expressions over arbitrary sets of states by
        \* leveraging the _TETrace operator.  For example, this is how to
        \* count the number of times a spec variable changed up to the current
        \* state in the trace.
        \* ,_attModCount |->
        \*     LET F[s \in DOMAIN _TETrace] ==
        \*         IF s = 1 THEN 0
        \*         ELSE IF _TETrace[s].att # _TETrace[s-1].att
        \*             THEN 1 + F[s-1] ELSE F[s-1]
        \*     IN F[_TEPosition - 1]
    ]

=============================================================================



Parsing and semantic processing can take forever if the trace below is long.
 In this case, it is advised to uncomment the module below to deserialize the
 trace from a generated binary file.

\*
\*---- MODULE Build_TETrace ----
\*EXTENDS IOUtils, Build, TLC
\*
\*trace == IODeserialize("Build_TTrace_1790368481.bin", TRUE)
\*
\*=============================================================================
\*

---- MODULE Build_TETrace ----
EXTENDS Build, TLC

trace == 
    <<
    ([att |-> <<[f |-> "", id |-> 0, out |-> ""], [f |-> "", id |-> 0, out |-> ""]>>,natt |-> <<0, 0>>,owner |-> <<>>,pc |-> <<"idle", "idle">>,nb |-> 0,ctx |-> 0,lock |-> 0,fin |-> {},orphans |-> {}]),
    ([att |-> <<[f |-> "f", id |-> 1, out |-> "raise_func"], [f |-> "", id |-> 0, out |-> ""]>>,natt |-> <<0, 0>>,owner |-> <<>>,pc |-> <<"want", "idle">>,nb |-> 1,ctx |-> 0,lock |-> 0,fin |-> {},orphans |-> {}]),
    ([att |-> <<[f |-> "f", id |-> 1, out |-> "raise_func"], [f |-> "", id |-> 0, out |-> ""]>>,natt |-> <<0, 0>>,owner |-> <<>>,pc |-> <<"acq", "idle">>,nb |-> 1,ctx |-> 0,lock |-> 1,fin |-> {},orphans |-> {}]),
    ([att |-> <<[f |-> "f", id |-> 1, out |-> "raise_func"], [f |-> "", id |-> 0, out |-> ""]>>,natt |-> <<0, 0>>,owner |-> <<>>,pc |-> <<"f1", "idle">>,nb |-> 1,ctx |-> 1,lock |-> 1,fin |-> {},orphans |-> {}]),
    ([att |-> <<[f |-> "f", id |-> 1, out |-> "raise_func"], [f |-> "", id |-> 0, out |-> ""]>>,natt |-> <<0, 0>>,owner |-> (<<1, 1>> :> 1),pc |-> <<"f2", "idle">>,nb |-> 1,ctx |-> 1,lock |-> 1,fin |-> {},orphans |-> {}]),
    ([att |-> <<[f |-> "f", id |-> 1, out |-> "raise_func"], [f |-> "", id |-> 0, out |-> ""]>>,natt |-> <<0, 0>>,owner |-> (<<1, 1>> :> 1),pc |-> <<"fail", "idle">>,nb |-> 1,ctx |-> 1,lock |-> 1,fin |-> {},orphans |-> {}]),
    ([att |-> <<[f |-> "f", id |-> 1, out |-> "raise_func"], [f |-> "", id |-> 0, out |-> ""]>>,natt |-> <<0, 0>>,owner |-> (<<1, 1>> :> 1),pc |-> <<"rel", "idle">>,nb |-> 1,ctx |-> 1,lock |-> 1,fin |-> {},orphans |-> {}]),
    ([att |-> <<[f |-> "", id |-> 0, out |-> ""], [f |-> "", id |-> 0, out |-> ""]>>,natt |-> <<1, 0>>,owner |-> (<<1, 1>> :> 1),pc |-> <<"idle", "idle">>,nb |-> 1,ctx |-> 1,lock |-> 0,fin |-> {},orphans |-> {}]),
    ([att |-> <<[f |-> "", id |-> 0, out |-> ""], [f |-> "", id |-> 0, out |-> ""]>>,natt |-> <<1, 0>>,owner |-> (<<1, 1>> :> 1),pc |-> <<"idle", "idle">>,nb |-> 1,ctx |-> 1,lock |-> 0,fin |-> {},orphans |-> {[owner |-> 1, n |-> 1]}])
    >>
----


=============================================================================

---- CONFIG Build_TTrace_1790368481 ----
CONSTANTS
    Threads = { 1 , 2 }
    Funcs = { "f" , "g" }
    MaxAttempts = 2
    ClearOnFail = FALSE
    UseLock = TRUE

INVARIANT
    _inv

CHECK_DEADLOCK
    \* CHECK_DEADLOCK off because of PROPERTY or INVARIANT above.
    FALSE

INIT
    _init

NEXT
    _next

CONSTANT
    _TETrace <- _trace

ALIAS
    _expression
=============================================================================
\* Generated on Fri Sep 25 20:34:43 UTC 2026