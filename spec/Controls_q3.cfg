SPECIFICATION Spec
CONSTANTS
  Annots <- AnTiny
  OvChoices <- OvTwo
  DfChoices <- DfTiny
  SpChoices <- SpNone
  BoundVals = {0}
  MaxFuncs = 3
  MaxParams = 1
  MaxTotal = 3
  MaxBound = 1
  MaxVariants = 0
  MinEmit = 1
  SimMode = FALSE
  VarLens = {0}
  VarW = {1, 2, 3}
  VarBad = {"none"}
  HistChoices <- HistTwo
INVARIANT InvWellFormed
INVARIANT InvTiles
INVARIANT InvOrdered
INVARIANT InvNames
INVARIANT InvLag
INVARIANT InvL2CoversL1
INVARIANT InvVariants
