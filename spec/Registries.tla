------------------------------ MODULE Registries ------------------------------
(* C18, last clause: "the callback registries (system actions, server actions, notifications) run
   exactly the actions currently registered, in registration order".
   A registry is a sequence of entries in registration order; registering a key that is already
   present replaces its payload and keeps its place.

   SystemAction (StartUp, ShutDown, CmdPeriod): key = action, payload = argument.
       run: every action registered when the run starts, in order, unless an earlier action of the
       same run removed it (documented in SystemAction._do_action); actions added during a run wait
       for the next run.  Action behaviours: "log" | "rm" (also removes action `x`) | "add" (also adds `x`)
   ServerAction (ServerBoot, ServerQuit, ServerTree): per server key ("s1", "s2", "default", "all").
       run(server): the server's own actions, the "default" ones if it is the default server, the
       "all" ones; each group in registration order, each action once, called with the server.
   NotificationCenter: per (object, message): listeners in registration order; notify calls every
       registered listener's action once with (object, message, listener, args).              *)
EXTENDS Naturals, Integers, Sequences, FiniteSets, TLC

Idx(reg, k) == {i \in 1..Len(reg) : reg[i].k = k}
HasKey(reg, k) == Idx(reg, k) # {}
Put(reg, k, v) == IF HasKey(reg, k)
                  THEN [i \in 1..Len(reg) |-> IF reg[i].k = k THEN [k |-> k, v |-> v] ELSE reg[i]]
                  ELSE Append(reg, [k |-> k, v |-> v])
Del(reg, k) == SelectSeq(reg, LAMBDA e : e.k # k)
Get(reg, k) == reg[CHOOSE i \in Idx(reg, k) : TRUE].v

(* ---- SystemAction ---- *)
\* beh: function action -> [b |-> "log" | "rm" | "add" | "once", x |-> action]
RECURSIVE SysRun(_, _, _, _, _)
\* snap: the keys registered when the run started; reg: the registry as it evolves; -> [reg, log]
SysRun(snap, n, reg, beh, log) ==
    IF n > Len(snap) THEN [reg |-> reg, log |-> log]
    ELSE LET a == snap[n] IN
         IF ~HasKey(reg, a) THEN SysRun(snap, n + 1, reg, beh, log)
         ELSE LET b == beh[a]
                  reg2 == CASE b.b = "rm" -> Del(reg, b.x)
                            [] b.b = "add" -> Put(reg, b.x, 0)
                            [] b.b = "once" -> Del(reg, a)
                            [] OTHER -> reg IN
              SysRun(snap, n + 1, reg2, beh, Append(log, [a |-> a, arg |-> Get(reg, a)]))
SysRunAll(reg, beh) == SysRun([i \in 1..Len(reg) |-> reg[i].k], 1, reg, beh, <<>>)

(* ---- ServerAction ---- *)
\* regs: function key -> registry; server "s1" is the default server
SrvGroups(server) == <<server>> \o (IF server = "s1" THEN <<"default">> ELSE <<>>) \o <<"all">>
SrvLog(regs, server) ==
    LET gs == SrvGroups(server)
        one(g) == [i \in 1..Len(regs[g]) |-> [g |-> g, a |-> regs[g][i].k, arg |-> regs[g][i].v, srv |-> server]] IN
    IF Len(gs) = 3 THEN one(gs[1]) \o one(gs[2]) \o one(gs[3]) ELSE one(gs[1]) \o one(gs[2])

(* ---- NotificationCenter ---- *)
\* nc: function <<obj, msg>> -> registry keyed by listener, payload = [act, once]
RECURSIVE NcLog(_, _, _, _)
NcLog(reg, obj, msg, arg) ==
    [i \in 1..Len(reg) |-> [l |-> reg[i].k, act |-> reg[i].v.act, obj |-> obj, msg |-> msg, arg |-> arg]]
NcAfter(reg) == SelectSeq(reg, LAMBDA e : ~e.v.once)

(* ---- comparing logs: exactly those (bag), each group in order ---- *)
CountIn(s, x) == Cardinality({i \in 1..Len(s) : s[i] = x})
SameBag(s, u) == Len(s) = Len(u) /\ \A i \in 1..Len(s) : CountIn(s, s[i]) = CountIn(u, s[i])
GroupOrder(obs, exp) == \A g \in {exp[i].g : i \in 1..Len(exp)} :
                           SelectSeq(obs, LAMBDA e : e.g = g) = SelectSeq(exp, LAMBDA e : e.g = g)
=============================================================================
