SPECIFICATION SpecL1
CONSTANT N = 5
INVARIANT OrderOK
INVARIANT NoDup
INVARIANT Progress
