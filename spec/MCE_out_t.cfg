SPECIFICATION Spec
CONSTANTS
  Templates = {"n", "u", "z", "L2", "Lz", "Nz", "Dz1", "Dz2", "Dz3", "Dz4", "Dz5", "N23"}
  MaxArgs = 3
  FirstList = FALSE
INVARIANT InvLen
INVARIANT InvDepth
INVARIANT InvLeaf
INVARIANT InvSingle
INVARIANT InvMultiNew
INVARIANT InvBinop
INVARIANT InvUnop
INVARIANT InvPerform
INVARIANT InvMadd
