------------------------------ MODULE OscClump ------------------------------
(* L2 model of NetAddr._clump_bundle's accumulator loop and its two call sites, checked against
   the L1 splitter law of OscSize.tla (ValidSplit) after every element: one Feed action = one
   iteration of `for s, e in elist`.  Each element has a predicted size p (what _calc_* says) and a
   real encoded size r <= p (PredNotBelow, checked in OscModel).  Sizes use the real constants. *)
EXTENDS OscSize
CONSTANTS N         \* elements per bundle
\* <<p, r>>: minimal message, small ones, an over-predicted one, sizes that straddle both thresholds
Pairs == {<<8, 8>>, <<12, 12>>, <<24, 20>>, <<1000, 1000>>, <<6500, 6500>>, <<30000, 30000>>,
          <<32720, 32720>>, <<65408, 65408>>, <<65484, 65484>>}
VARIABLES site, pred, real, st
vars == <<site, pred, real, st>>

SizeAt(s) == IF s = "sync" THEN Limit - SyncBndl ELSE ClumpDefault
Init == site \in {"clumped", "sync"} /\ pred = <<>> /\ real = <<>> /\ st = ClumpInit
Feed == /\ Len(pred) < N
        /\ \E pr \in Pairs :
              /\ DgramLen(<<1>>, <<pr[2]>>, ExtraAt(site)) <= Limit        \* Splittable
              /\ pred' = Append(pred, pr[1]) /\ real' = Append(real, pr[2])
              /\ st' = ClumpStep(st, pr[1], Len(pred) + 1, SizeAt(site))
        /\ UNCHANGED site
Next == Feed
Spec == Init /\ [][Next]_vars

\* the groups produced so far plus the open one form a valid split of what has been fed
StepRefines == ValidSplit(Append(st.res, st.clump), real, ExtraAt(site))
\* the recursive form used by the trace spec is the same loop
RunAgrees == ClumpRun(ClumpInit, pred, 1, SizeAt(site)) = ClumpResult(st)
\* whole call site, including the "small enough: send as one bundle" branch
SiteValid == ValidSplit(SplitAt(site, pred), real, ExtraAt(site))
PredAbove == \A i \in 1..Len(pred) : pred[i] >= real[i]
=============================================================================
