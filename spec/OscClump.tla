------------------------------ MODULE OscClump ------------------------------
(* L2 model of NetAddr._clump_bundle's accumulator loop and its two call sites, checked against
   the L1 splitter law of OscSize.tla (ValidSplit) after every element: one Feed action = one
   iteration of `for s, e in elist`.  Each element has a predicted size (what _calc_* says for its kind) and
   a real encoded size; PredAbove = PredNotBelow per element kind.  Sizes use the real constants. *)
EXTENDS OscSize
CONSTANTS N         \* elements per bundle
\* Elements come in KINDS: plain messages, nested bundles (own latency, 1..n messages) and nested bundles inside
\* nested bundles.  For each element the loop uses the size _clump_bundle collects for it - Pred(e): the
\* message size, or the size of the nested bundle's content (_calc_bndl_dgram_size(e[1:])) - and the law is
\* judged on the real encoded size EncLen(e).  Sizes straddle both thresholds (8192 and 65504 - 36).
Msg(z) == [t |-> "m", a |-> <<47, 97>>, args |-> IF z = 0 THEN <<>> ELSE <<[t |-> "b", z |-> z]>>]     \* 8, or 12 + P4(z) bytes
Over == [t |-> "m", a |-> <<47, 97>>, args |-> <<[t |-> "["], [t |-> "i", hi |-> 0, lo |-> 1], [t |-> "]"]>>]   \* predicted 24, real 16
Lat1 == [t |-> "lat", b |-> <<0, 0, 0, 1, 0, 0, 0, 0>>]
Bun(els) == [t |-> "B", time |-> Lat1, el |-> els]
Msgs == {Msg(0), Msg(1), Over, Msg(988), Msg(6488), Msg(29988), Msg(32708), Msg(65396), Msg(65472)}
Bundles == {Bun(<<Msg(0)>>), Bun(<<Msg(0), Msg(1), Msg(0)>>), Bun(<<Msg(964)>>), Bun(<<Msg(32684)>>), Bun(<<Msg(65372)>>)}
Nested == {Bun(<<Bun(<<Msg(0)>>)>>), Bun(<<Msg(0), Bun(<<Msg(940), Over>>)>>), Bun(<<Bun(<<Bun(<<Msg(32644)>>)>>)>>)}
VARIABLES site, pred, real, st
vars == <<site, pred, real, st>>

SizeAt(s) == IF s = "sync" THEN Limit - SyncBndl ELSE ClumpDefault
Init == site \in {"clumped", "sync"} /\ pred = <<>> /\ real = <<>> /\ st = ClumpInit
Ok(e) == Len(pred) < N /\ DgramLen(<<1>>, <<EncLen(e)>>, ExtraAt(site)) <= Limit        \* Splittable
FeedMsg == \E e \in Msgs : /\ Ok(e) /\ pred' = Append(pred, Pred(e)) /\ real' = Append(real, EncLen(e))
                           /\ st' = ClumpStep(st, Pred(e), Len(pred) + 1, SizeAt(site)) /\ UNCHANGED site
FeedBundle == \E e \in Bundles : /\ Ok(e) /\ pred' = Append(pred, Pred(e)) /\ real' = Append(real, EncLen(e))
                                 /\ st' = ClumpStep(st, Pred(e), Len(pred) + 1, SizeAt(site)) /\ UNCHANGED site
FeedNested == \E e \in Nested : /\ Ok(e) /\ pred' = Append(pred, Pred(e)) /\ real' = Append(real, EncLen(e))
                                /\ st' = ClumpStep(st, Pred(e), Len(pred) + 1, SizeAt(site)) /\ UNCHANGED site
Next == FeedMsg \/ FeedBundle \/ FeedNested
Spec == Init /\ [][Next]_vars

\* the groups produced so far plus the open one form a valid split of what has been fed
StepRefines == ValidSplit(Append(st.res, st.clump), real, ExtraAt(site))
\* the recursive form used by the trace spec is the same loop
RunAgrees == ClumpRun(ClumpInit, pred, 1, SizeAt(site)) = ClumpResult(st)
\* whole call site, including the "small enough: send as one bundle" branch
SiteValid == ValidSplit(SplitAt(site, pred), real, ExtraAt(site))
PredAbove == \A i \in 1..Len(pred) : pred[i] >= real[i]
=============================================================================
