----------------------------- MODULE ScgfOrder -----------------------------
(* C02 design model: emission order of a synth definition.

   L1 (the property): units are emitted one at a time; Emit(u) is enabled iff every unit u reads
   and every width-first unit created before u has been emitted (EmitEnabled of SynthGraph.tla -
   the same operator TraceScgf.tla evaluates on the recorded order of a real definition).
   Any order this action system can produce is acceptable.

   L2 (implementation-shaped): sc3's _topological_sort - an `available` stack seeded with the units
   that have no antecedent in reverse creation order; pop one, append it to the output, then walk
   its descendants in decreasing creation order and push those whose last antecedent this was.
   TLC explores every graph of N units (data edges to earlier units, any set of width-first units)
   and checks that each step the algorithm takes is an enabled L1 step (StepRefines), that it never
   gets stuck before all units are out (Complete), and that a finished L1 order is a topological
   order that keeps width-first units before later-created ones (OrderOK).                      *)
EXTENDS SynthGraph
CONSTANT N
Units == 1..N
VARIABLES dep, wf, out, avail, ante
vars == <<dep, wf, out, avail, ante>>
cr == [u \in Units |-> u]                       \* creation stamp = index

\* antecedents as the library computes them: data inputs + all earlier width-first units
AnteOf(d, w) == [u \in Units |-> d[u] \cup {x \in w : x < u}]
Desc(d, w, x) == {u \in Units : x \in AnteOf(d, w)[u]}
\* seed: units without antecedents, pushed in reverse creation order (so the first created is on top)
RECURSIVE SeqOfDesc(_)
SeqOfDesc(S) == IF S = {} THEN <<>> ELSE LET m == CHOOSE x \in S : \A y \in S : y <= x IN <<m>> \o SeqOfDesc(S \ {m})

Init == /\ dep \in [Units -> SUBSET Units] /\ \A u \in Units : \A x \in dep[u] : x < u
        /\ wf \in SUBSET Units
        /\ out = <<>>
        /\ ante = AnteOf(dep, wf)
        /\ avail = SeqOfDesc({u \in Units : AnteOf(dep, wf)[u] = {}})

Emitted == {out[i] : i \in 1..Len(out)}
\* L2 step: pop the top of the stack, emit it, release its descendants (highest creation index first)
Pop == /\ avail # <<>>
       /\ LET u == avail[Len(avail)]
              rest == SubSeq(avail, 1, Len(avail) - 1)
              ds == SeqOfDesc(Desc(dep, wf, u))
              step(st, x) == LET a2 == [st.ante EXCEPT ![x] = @ \ {u}] IN
                             [ante |-> a2, av |-> IF a2[x] = {} THEN Append(st.av, x) ELSE st.av]
              fin == FoldLeft(step, [ante |-> ante, av |-> rest], ds) IN
          /\ out' = Append(out, u)
          /\ ante' = fin.ante
          /\ avail' = fin.av
       /\ UNCHANGED <<dep, wf>>
\* L1 step: any enabled unit
Emit == /\ \E u \in Units : EmitEnabled(u, Emitted, dep, wf, cr) /\ out' = Append(out, u)
        /\ UNCHANGED <<dep, wf, avail, ante>>
NextL2 == Pop
SpecL2 == Init /\ [][NextL2]_vars
NextL1 == Emit
SpecL1 == Init /\ [][NextL1]_vars

Pos(u) == CHOOSE i \in 1..Len(out) : out[i] = u
OrderOK == Len(out) = N =>
              /\ \A u \in Units : \A x \in dep[u] : Pos(x) < Pos(u)
              /\ \A u \in Units : \A w \in wf : w < u => Pos(w) < Pos(u)
NoDup == \A i, j \in 1..Len(out) : i # j => out[i] # out[j]
\* L1 never deadlocks before everything is out
Progress == Len(out) < N => \E u \in Units : EmitEnabled(u, Emitted, dep, wf, cr)
\* L2: the unit about to be popped is enabled in L1, and the stack is empty only at the end
StepRefines == avail # <<>> => EmitEnabled(avail[Len(avail)], Emitted, dep, wf, cr)
Complete == avail = <<>> => Len(out) = N
=============================================================================
