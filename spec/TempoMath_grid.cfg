SPECIFICATION Spec
CONSTANTS
  TempoExps = {2}
  BeatVals = {3, 91}
  Meters = {3, 4}
  Deltas = {1, 21}
  Quants = {0, 4, 8, 12, 16, 24, 32}
  Win = 12
  MaxSteps = 2
CONSTRAINT Bound
INVARIANT GridLaw
INVARIANT PlaySchedulesOnGrid
INVARIANT NextBarNotBeforeNow
