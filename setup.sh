#!/bin/sh
# Offline setup: nothing to fetch or build. Syntax-check every TLA+ module and byte-compile the harness.
set -e
cd "$(dirname "$0")"
python3 -m compileall -q harness props drivers tools >/dev/null
fail=0
cd spec
for f in *.tla; do
  out=$(java -cp /opt/veriftools/tla/tla2tools.jar:/opt/veriftools/tla/CommunityModules-deps.jar tla2sany.SANY "$f" 2>&1) || true
  if echo "$out" | grep -qE 'Semantic errors|Parse Error|Fatal|\*\*\* Errors|Could not'; then echo "SANY FAILED: $f"; echo "$out" | tail -20; fail=1; fi
done
[ $fail -eq 0 ] && echo "setup ok"
exit $fail
