"""C16 - bus, buffer and node-id allocation is safe and complete.

Decided by: Alloc.tla (L1: any legal address / "no space" only when no run exists) + AllocImpl.tla (L2: the
ContiguousBlockAllocator transcribed with object identity, dict order and addr_offset arithmetic; refinement
enforced on every transition) + NodeIds.tla, all checked by TLC.  Binding C->S: every alloc/free/double-free
history up to a depth, under every internal tie-break, on real ContiguousBlockAllocator objects and through
Server(client id) -> AudioBus/ControlBus/Buffer, validated by TraceAlloc.tla; node-id sequences across the
wrap-around by TraceNodeIds.tla.  Binding S->C: simulated behaviours of the L2 model replayed on the real
allocator with TLC's tie-breaks (state compared = drift; every replay is also validated against L1)."""
import random

from harness.common import MachineryError

DRIVER = 'drivers/c16_alloc.py'
M26 = 1 << 26


# ----------------------------------------------------------------------------- history generation
def histories(depth, maxn, free_none=False):
    """all histories of exactly `depth` calls: alloc n (1..maxn) | free k (k-th alloc so far; again = double
    free, also frees of allocs that returned None) | free(None)"""
    out = []

    def rec(h, allocs):
        if len(h) == depth:
            out.append(list(h))
            return
        for n in range(1, maxn + 1):
            h.append(['a', n])
            rec(h, allocs + 1)
            h.pop()
        for k in range(allocs):
            h.append(['f', k])
            rec(h, allocs)
            h.pop()
        if free_none:
            h.append(['fn'])
            rec(h, allocs)
            h.pop()
    rec([], 0)
    return out


def bulk_histories(depth, maxn):
    """histories with the bulk operations: alloc n | free of the k-th result since the last free_all | free_all | blocks();
    a final blocks() and a request for the whole partition close every history ("after free_all everything is free")"""
    out = []

    def rec(h, first, allocs):
        if len(h) == depth:
            out.append(list(h))
            return
        for n in range(1, maxn + 1):
            h.append(['a', n])
            rec(h, first, allocs + 1)
            h.pop()
        for k in range(first, allocs):
            h.append(['f', k])
            rec(h, first, allocs)
            h.pop()
        for o in (['A'], ['B']):
            h.append(o)
            rec(h, allocs if o == ['A'] else first, allocs)
            h.pop()
    rec([], 0, 0)
    return out


def bulk_cases(thorough):
    """non-zero reserved counts x client offsets x the bulk operations, through Server -> Buffer / buses"""
    cases = []
    hs = bulk_histories(5 if thorough else 4, 2)
    cfgs = [(1, 32, 2), (0, 24, 3)] + ([(3, 32, 4), (0, 24, 2), (1, 20, 0)] if thorough else [])
    for client, total, reserved in cfgs:
        per = total // 4 - reserved
        for h in hs:
            cases.append(dict(kind='srv', what='buf', client=client, logins=4, total=total, reserved=reserved,
                              hist=h + [['B'], ['A'], ['B'], ['a', per]], tiebreak='all'))
    for what in SPACES:     # blocks() of the bus allocators too (no free_all there), every reserved count 0..3
        for reserved in (0, 1, 2, 3):
            for client in (0, 2):
                per = 6 - reserved
                for h in ([['a', 1], ['a', 2], ['B'], ['f', 0], ['B'], ['a', 1], ['B']],
                          [['a', per], ['B'], ['f', 0], ['B'], ['a', 1], ['a', per - 1], ['B']],
                          [['a', 1], ['a', 1], ['a', 1], ['f', 1], ['B'], ['f', 2], ['B'], ['f', 0], ['B']]):
                    h = list(h)
                    if what == 'buf':
                        h += [['a', 1], ['A'], ['B'], ['a', per]]
                    cases.append(dict(kind='srv', what=what, client=client, logins=4, total=24, reserved=reserved, hist=h,
                                      tiebreak='all'))
    return cases


def nontrivial(h):
    """a free of something allocated earlier, followed later by an alloc (the reuse / coalescing path)"""
    freed = False
    for e in h:
        if e[0] in ('f', 'fa'):
            freed = True
        elif e[0] == 'a' and freed:
            return True
    return False


def random_history(rnd, n, maxn):
    h, allocs = [], 0
    for _ in range(n):
        x = rnd.random()
        if allocs == 0 or x < 0.5:
            h.append(['a', rnd.choice([1, 1, 2, 2, 3, rnd.randint(1, maxn)])])
            allocs += 1
        elif x < 0.97:
            # recent allocations are freed more often; older indexes give double frees
            k = allocs - 1 - min(allocs - 1, int(rnd.expovariate(0.25)))
            h.append(['f', k])
        else:
            h.append(['fn'])
    return h


# ----------------------------------------------------------------------------- running
def run_cases(ctx, cases, mode='nrt'):
    """-> traces (ids assigned here, 'case' = index into cases)"""
    n = len(cases)
    per = max(1, (n + 15) // 16)
    inputs = [dict(cases=cases[i:i + per]) for i in range(0, n, per)]
    outs = ctx.run_drivers(DRIVER, inputs, mode=mode)
    traces = []
    for ci, o in enumerate(outs):
        for t in o['traces']:
            t['case'] += ci * per
            t['id'] = len(traces)
            traces.append(t)
    seen = {t['case'] for t in traces}
    if len(seen) != n:
        raise MachineryError('driver returned traces for %d of %d cases' % (len(seen), n))
    return traces


def signature(case, t, at, why):
    ev = t['ev'][at - 1]
    if case['kind'] == 'raw':
        where = 'raw:off%s' % ('0' if case['off'] == 0 else '>0')
    elif case['kind'] == 'reg':
        sv = case['servers'][ev.get('w', 1) - 1]
        # input class: the server assigned an id the client's own option would not allow (reported > local)
        where = 'reg:%s:%s' % (case['what'], 'client>=local' if case['reported'] and sv['client'] >= sv['local'] else 'client<local')
    else:
        where = '%s:client%s' % (case['what'], '0' if case['client'] == 0 else '>0')
    return 'alloc:%s:%s:%s' % (where, ev['n'], why)


def judge_alloc(ctx, runs):
    """runs: list of (cases, traces); one batch validation.  Single-allocator traces become parts = [part], w = 1"""
    slim, meta = [], []
    for cases, traces in runs:
        for t in traces:
            parts = t.get('parts') or [dict(t['part'], reported=0)]
            ev = [dict(e, w=e.get('w', 1)) for e in t['ev']]
            slim.append(dict(id=len(slim), parts=parts, ev=ev))
            meta.append((cases[t['case']], t, parts))
    verdicts = ctx.validate('TraceAlloc', 'TraceAlloc.cfg', slim, nproc=8 if len(slim) > 100000 else 4)
    nviol = 0
    for i, (case, t, parts) in enumerate(meta):
        if nontrivial(case['hist']):
            ctx.nontrivial([case.get('kind'), case.get('what'), case.get('size'), case.get('pos'), case.get('off'),
                            case.get('client'), case.get('servers'), case.get('reported'), case.get('via'), case['hist'],
                            t['choices']])
        v = verdicts[i]
        if v is not None:
            at, why = v
            nviol += 1
            ctx.violation(signature(case, t, at, why),
                          '%s allocator: %s at step %d of history %s (partition(s) %s%s): observed %s'
                          % (case['kind'] if case['kind'] == 'raw' else 'Server/' + case['what'], why, at,
                             case['hist'], parts, ', registered via ' + case.get('via', 'handler') if case['kind'] == 'reg' else '',
                             t['ev'][:at]),
                          dict(kind='alloc', case=case, choices=t['choices'], rejected_at=at, why=why,
                               observed=t['ev'][:at], mode='rt' if case.get('via') == 'reply' else 'nrt'))
    return nviol


# ----------------------------------------------------------------------------- registration: reported vs local logins
def reg_probes(per):
    """probing histories for two clients w = 1, 2 whose partitions hold `per` addresses each"""
    big = max(1, per - 1)
    return [
        [['a', per, 1], ['a', per, 2], ['a', 1, 1], ['a', 1, 2], ['f', 0], ['f', 1], ['a', per, 2], ['a', per, 1]],
        [['a', 1, 1], ['a', 1, 2], ['a', big, 1], ['a', big, 2], ['a', 1, 1], ['f', 2], ['f', 0], ['a', per, 1], ['a', 1, 2]],
        [['a', per + 1, 1], ['a', per + 1, 2], ['a', per, 1], ['f', 2], ['f', 2], ['a', 1, 2], ['a', per, 1]],
        [['a', 1, 2], ['a', 1, 1], ['a', 1, 2], ['a', 1, 1], ['f', 1], ['f', 0], ['a', 2, 1], ['a', 2, 2]],
    ]


def reg_histories(depth, per):
    """all histories of `depth` calls by two clients: alloc 1 | 2 | per by client 1 or 2, free of the k-th result"""
    out = []
    ns = sorted({1, 2, per})

    def rec(h, allocs):
        if len(h) == depth:
            out.append(list(h))
            return
        for w in (1, 2):
            for n in ns:
                h.append(['a', n, w])
                rec(h, allocs + 1)
                h.pop()
        for k in range(allocs):
            h.append(['f', k])
            rec(h, allocs)
            h.pop()
    rec([], 0)
    return out


def reg_cases(thorough, via):
    """(local option of client A, logins reported by the server (0 = none), id assigned to A) x a second client B with a
    different local option and another id x the three spaces"""
    cases = []
    total = 24
    for what in SPACES:
        for l1 in (1, 2, 4, 8):
            for rep in (0, 2, 4, 8):
                eff = rep or l1
                per = total // eff
                for c1 in sorted({0, 1, eff - 1}):
                    if c1 >= eff:
                        continue
                    servers = [dict(local=l1, client=c1)]
                    if eff > 1:
                        l2 = l1 if rep == 0 else {1: 4, 2: 8, 4: 1, 8: 2}[l1]
                        servers.append(dict(local=l2, client=(c1 + 1) % eff))
                    for h in reg_probes(per):
                        if len(servers) == 1:
                            h = [x for x in h if len(x) < 3 or x[2] == 1]
                            h = [x for x in h if x[0] != 'f' or x[1] < sum(1 for y in h if y[0] == 'a')]
                        cases.append(dict(kind='reg', what=what, total=total, reserved=1 if (l1 + c1) % 3 == 0 else 0,
                                          reported=rep, via=via, servers=servers, hist=h, tiebreak='all'))
    return cases


def reg_exhaustive(thorough):
    cases = []
    cfgs = [(8, 4, 3, 1, 0), (4, 8, 1, 8, 6), (2, 0, 1, 2, 0)]
    if thorough:
        cfgs += [(1, 4, 0, 8, 3), (8, 2, 1, 4, 0), (4, 4, 2, 2, 1)]
    for what in SPACES:
        for l1, rep, c1, l2, c2 in cfgs:
            eff = rep or l1
            for h in reg_histories(4 if thorough else 3, 12 // eff):
                cases.append(dict(kind='reg', what=what, total=12, reserved=0, reported=rep, via='handler',
                                  servers=[dict(local=l1, client=c1), dict(local=l2, client=c2)], hist=h, tiebreak='all'))
    return cases


# ----------------------------------------------------------------------------- S->C replay
def behaviour_to_case(b):
    st0 = b[0][1]
    c = st0['C']
    hist, picks, exp = [], [], []
    for act, st in b[1:]:
        op = st['op']
        if op['n'] == 'alloc':
            hist.append(['a', op['x']])
        elif op['n'] == 'freeall':
            hist.append(['A'])
        elif op['x'] == -1:
            hist.append(['fn'])
        else:
            hist.append(['fa', op['x']])
        picks.append(st['pick'])
        heap, arr = st['heap'], st['arr']
        blocks = []
        for i in sorted(arr, key=int):
            bid = arr[i]
            if bid:
                blk = heap[bid - 1]
                blocks.append([blk['start'], blk['size'], 1 if blk['used'] else 0])
        freed = sorted([heap[x - 1]['start'], heap[x - 1]['size']] for x in st['freed'])
        exp.append(dict(ret=st['ret'], blocks=blocks, top=st['top'], freed=freed, fkeys=list(st['fkeys'])))
    case = dict(kind='raw', size=c['size'], pos=c['pos'], off=c['off'], hist=hist, tiebreak='script',
                script=picks, project=True)
    return case, exp


def model_behaviours(ctx, nsim, depth):
    """-> (cases, expectations) from TLC -simulate runs of the implementation-shaped model"""
    from harness import tlc
    import os
    # own work directory: the model-checking thread runs AllocImpl at the same time (TLC metadir is named after the module)
    behs, r = tlc.simulate_behaviours('AllocImpl', 'AllocImpl_sim.cfg', os.path.join(ctx.work, 'sim'), num=nsim, depth=depth,
                                      seed=ctx.seed + 1, timeout=600)
    ctx.cov['transitions'] += r.generated
    cases, exps = [], []
    for b in behs:
        if len(b) < 2:
            continue
        case, exp = behaviour_to_case(b)
        cases.append(case)
        exps.append(exp)
    if not cases:
        raise MachineryError('no behaviours simulated')
    return cases, exps


def compare_with_model(ctx, cases, traces, exps, first):
    """state of the real allocator after every call vs the L2 state TLC printed (drift only; L1 judges the traces)"""
    ndrift = 0
    multi = 0
    for t in traces:
        if t['case'] < first:
            continue
        exp = exps[t['case'] - first]
        case = cases[t['case']]
        multi += 1 if t['points'] else 0
        if t['choices'][1]:
            ndrift += 1
            ctx.note_drift('replay: TLC picked a block the real _find_available did not offer: %s' % case['hist'])
            continue
        for i, (ev, pj, ex) in enumerate(zip(t['ev'], t['proj'], exp)):
            got = dict(ret=ev['r'], blocks=pj.get('blocks'), top=pj.get('top'), freed=pj.get('freed'),
                       fkeys=pj.get('fkeys'))
            if got != ex:
                ndrift += 1
                ctx.note_drift('replay step %d of %s on %s: model %s, code %s'
                               % (i + 1, case['hist'][:i + 1], [case[k] for k in ('size', 'pos', 'off')], ex, got))
                break
            used = sorted([b[0], b[1]] for b in pj['blocks'] if b[2])
            if pj.get('used') != used:
                ndrift += 1
                ctx.note_drift('blocks() disagrees with the used blocks of _array: %s vs %s' % (pj.get('used'), used))
                break
    ctx.cov['spec_behaviours_replayed'] = len(exps)
    ctx.cov['spec_behaviours_with_tiebreak'] = multi
    ctx.cov['spec_behaviours_state_mismatch'] = ndrift


# ----------------------------------------------------------------------------- node ids
def id_cases(thorough):
    cases = []
    clients = [0, 1, 3, 31] + ([2, 7, 16, 30] if thorough else [])
    count = 40 if thorough else 12
    for c in clients:
        for init, start in ((1000, 1000), (1000, M26 - 3), (1000, M26 - 1), (M26 - 5, M26 - 5), (M26 - 5, M26 - 2),
                            (M26 - 1, M26 - 1), (2, 2), (2, M26 - 2), (M26 - 2, M26 - 2)):
            cases.append(dict(kind='ids', via='raw', client=c, init=init, start=start, count=count))
    for c in (0, 1, 3):
        for via in ('server', 'group', 'pargroup', 'synth'):
            for init, start in ((1000, 1000), (1000, M26 - 4), (M26 - 6, M26 - 3)):
                cases.append(dict(kind='ids', via=via, client=c, logins=4, init=init, start=start, count=count))
    return cases


def judge_ids(ctx, cases, traces):
    slim = [dict(id=t['id'], client=t['client'], init=t['init'], ids=t['ids'], exc=t['exc']) for t in traces]
    verdicts = ctx.validate('TraceNodeIds', 'TraceNodeIds.cfg', slim, nproc=1)
    for t in traces:
        case = cases[t['case']]
        if case['start'] + case['count'] > M26:
            ctx.nontrivial(case)        # the run crosses the wrap-around
        v = verdicts[t['id']]
        if v is not None:
            ctx.violation('nodeids:%s:%s' % (case['via'], v[1]),
                          'node ids via %s for client %d (init %d, counter at %d): %s: %s'
                          % (case['via'], case['client'], case['init'], case['start'], v[1], t['ids'][:12] or t['exc']),
                          dict(kind='ids', case=case, why=v[1], observed=t['ids'], exc=t['exc']))


# ----------------------------------------------------------------------------- entry points
SPACES = ('abus', 'cbus', 'buf')


def run(ctx):
    thorough = not ctx.quick
    sfx = '_thorough' if thorough else ''
    # 1. design: L1 laws; L2 (the code's algorithm, repaired _find_next) refines L1 on every transition.
    #    Independent TLC runs go side by side (three threads; runs of one module stay in one thread: shared metadir name).
    from concurrent.futures import ThreadPoolExecutor
    from harness.tlc import TlcError

    def t_alloc():
        r = ctx.model_check('Alloc', 'Alloc%s.cfg' % sfx, require_cover=('Alloc', 'Free', 'FreeAll'), timeout=900, workers=6)
        ctx.expect_ok(r, 'Alloc L1')
        r = ctx.model_check('NodeIds', 'NodeIds.cfg', require_cover=('Alloc',), timeout=600, workers=2)
        ctx.expect_ok(r, 'NodeIds')

    def t_impl():
        r = ctx.model_check('AllocImpl', 'AllocImpl.cfg', require_cover=('Alloc', 'Free', 'FreeAll'), timeout=900, workers=6,
                            label='depth-bounded, history variables, StepRefines as invariant')
        ctx.expect_ok(r, 'AllocImpl refines Alloc (bounded)')
        # (thorough: TLC's -coverage triples the time of the big run; the run above is the vacuity guard)
        r = ctx.model_check('AllocImpl', 'AllocImpl%s.cfg' % ('_thorough' if thorough else '_full'),
                            require_cover=() if thorough else ('Alloc', 'Free', 'FreeAll'), timeout=1500, workers=8,
                            label='complete reachable state space (VIEW = implementation state)')
        ctx.expect_ok(r, 'AllocImpl refines Alloc (complete)')
        ctx.cov['impl_model_complete_states'] = r.distinct
        # sensitivity of the refinement check itself: the transcription of the PINNED _find_next must fail it
        try:
            r = ctx.model_check('AllocImpl', 'AllocImpl_pinned.cfg', timeout=600, workers=4, label='pinned _find_next (must fail)')
            failed = not r.ok
        except TlcError as e:
            failed = 'StepRefines' in str(e)
        if not failed:
            raise MachineryError('AllocImpl with the pinned _find_next refines Alloc: the refinement check is vacuous')

    def t_clients():
        r = ctx.model_check('AllocClients', 'AllocClients%s.cfg' % sfx, require_cover=('Alloc1', 'Alloc2', 'Free1', 'Free2'),
                            timeout=900, workers=6,
                            label='two clients of one server: (local option, reported logins, client id) enumerated')
        ctx.expect_ok(r, 'AllocClients')

    ex = ThreadPoolExecutor(max_workers=3)
    model_runs = [ex.submit(t) for t in (t_alloc, t_impl, t_clients)]       # joined at the end of run()

    # 2. C->S, exhaustive: every history of `depth` calls, every tie-break, raw allocators and through Server
    cases = []

    def raw(cfgs, hs):
        for size, pos, off in cfgs:
            cases.extend(dict(kind='raw', size=size, pos=pos, off=off, hist=h + [['B']], tiebreak='all') for h in hs)

    def srv(whats, clients, hs):
        for what in whats:
            for client in clients:
                total, reserved = (24, 1) if client != 1 else (20, 0)     # 6 resp. 5 addresses per client
                cases.extend(dict(kind='srv', what=what, client=client, logins=4, total=total, reserved=reserved,
                                  hist=h + [['B']], tiebreak='all') for h in hs)
    def zero(whats, hs):
        """client 0, nothing reserved, no hardware channels: the spaces start at index 0, an ordinary id"""
        for what in whats:
            cases.extend(dict(kind='srv', what=what, client=0, logins=4, total=24, reserved=0, io=0, hist=h + [['B']],
                              tiebreak='all') for h in hs)
    zero(SPACES, histories(5 if thorough else 4, 3))
    zero(('abus',), histories(6 if thorough else 5, 3))
    if thorough:
        depth, sdepth, fdepth = 7, 6, 5
        raw([(5, 1, 5), (6, 0, 12), (6, 2, 0)], histories(7, 3))
        raw([(4, 0, 0), (5, 0, 0), (6, 0, 6), (7, 2, 14), (8, 0, 24), (8, 2, 8)], histories(6, 3))
        raw([(8, 0, 0), (8, 0, 16)], histories(6, 4))
        raw([(5, 1, 5), (4, 0, 0)], histories(6, 2, free_none=True))
        srv(SPACES, (0, 1, 3), histories(5, 3))
        srv(('abus',), (0,), histories(6, 3))
        srv(('cbus',), (3,), histories(6, 3))
        srv(('buf',), (1,), histories(6, 3))
    else:
        depth, sdepth, fdepth = 6, 5, 4
        raw([(5, 1, 5), (6, 0, 12)], histories(6, 2))
        raw([(5, 1, 5), (6, 2, 0)], histories(5, 3))
        raw([(5, 1, 5)], histories(5, 2, free_none=True))
        srv(SPACES, (0, 1, 3), histories(4, 3))
        srv(('abus',), (0,), histories(5, 3))
        srv(('cbus',), (3,), histories(5, 3))
        srv(('buf',), (1,), histories(5, 3))
    # fragmentation family: fill the partition with 1-blocks, then every sequence of frees / re-allocations
    # (this is where several free blocks of one size coexist, i.e. where the tie-breaks are)
    import itertools
    for size, pos, off in ([(6, 0, 12), (7, 1, 7)] if thorough else [(6, 0, 12)]):
        n = size - pos
        al = [['f', k] for k in range(n)] + [['a', 1], ['a', 2], ['a', 3]]
        pre = [['a', 1]] * n
        cases.extend(dict(kind='raw', size=size, pos=pos, off=off, hist=pre + [list(x) for x in suf], tiebreak='all')
                     for suf in itertools.product(al, repeat=fdepth))
    nexh = len(cases)
    # seeded random: longer histories, bigger partitions, random tie-breaks
    rnd = random.Random(ctx.seed)
    nrand = 6000 if thorough else 500
    for i in range(nrand):
        size = rnd.choice([8, 12, 16, 24, 32])
        pos = rnd.choice([0, 0, 1, 2, 3])
        off = rnd.choice([0, size, 3 * size, 7, 100])
        cases.append(dict(kind='raw', size=size, pos=pos, off=off, tiebreak='random', seed=rnd.randrange(1 << 30),
                          hist=random_history(rnd, rnd.randint(20, 120), min(size, 6))))
    for i in range(nrand // 2):
        client = rnd.choice([0, 1, 2, 3])
        per = rnd.choice([8, 12, 16])
        cases.append(dict(kind='srv', what=rnd.choice(SPACES), client=client, logins=4, total=4 * per + rnd.randint(0, 3), io=rnd.choice([4, 4, 0, 2]),
                          reserved=rnd.choice([0, 0, 1, 2]), tiebreak='random', seed=rnd.randrange(1 << 30),
                          hist=random_history(rnd, rnd.randint(20, 80), 5)))
    nbulk0 = len(cases)
    cases += bulk_cases(thorough)
    ctx.cov['bulk_operation_histories'] = len(cases) - nbulk0
    # registration: the layout is the one the server reports; two clients of one server never overlap
    nreg0 = len(cases)
    cases += reg_cases(thorough, 'handler') + reg_exhaustive(thorough)
    ctx.cov['registration_histories'] = len(cases) - nreg0
    rt_cases = reg_cases(thorough, 'reply')          # same sweep through the '/done /notify' reply (RT interface)
    ctx.cov['registration_histories_via_reply'] = len(rt_cases)
    # S->C: behaviours of the implementation-shaped model, replayed on the real allocator with TLC's tie-breaks
    nsim = 3000 if thorough else 300
    first_sim = len(cases)
    sim_cases, sim_exps = model_behaviours(ctx, nsim, 40)
    cases += sim_cases
    traces = run_cases(ctx, cases)
    rt_traces = run_cases(ctx, rt_cases, mode='rt')
    judge_alloc(ctx, [(cases, traces), (rt_cases, rt_traces)])
    compare_with_model(ctx, cases, traces, sim_exps, first_sim)
    ctx.cov['evaluations'] += len(traces) + len(rt_traces)
    ctx.cov['exhaustive_depth'] = depth
    ctx.cov['histories'] = len(cases) + len(rt_cases)
    ctx.cov['histories_exhaustive_families'] = nexh
    ctx.cov['tiebreak_branches'] = len(traces) - len(cases) + len(rt_traces) - len(rt_cases)
    for t in traces:
        if t['points'] and len(t['ev']) <= 8:
            ctx.sample(dict(case=cases[t['case']], choices=t['choices'], observed=[[e['n'], e['x'], e['r']] for e in t['ev']]), limit=2)
            break
    tl = [t for t in traces if t['case'] == first_sim - 1][0]
    ctx.sample(dict(case={k: v for k, v in cases[first_sim - 1].items() if k != 'hist'}, history=cases[first_sim - 1]['hist'][:14],
                    observed=[[e['n'], e['x'], e['r']] for e in tl['ev'][:14]]))

    # 4. node ids, real constants, across the wrap-around
    ic = id_cases(thorough)
    it = run_cases(ctx, ic)
    judge_ids(ctx, ic, it)
    ctx.cov['evaluations'] += len(it)
    ctx.sample(dict(case=ic[1], ids=it[1]['ids'][:6]))

    for f in model_runs:
        f.result()
    ex.shutdown()
    ctx.cov['rule'] = ('all histories of up to %d calls over {alloc 1..3(4), free of the k-th earlier result (incl. double free, '
                       'free of a failed alloc), free(None)} x every tie-break on raw ContiguousBlockAllocator(size,pos,addr_offset) '
                       'for sizes 4-8, pos 0-2, offsets 0/size/2*size/3*size; fill-then-fragment family (all sequences of %d '
                       'frees/re-allocs after filling with 1-blocks); all histories of up to %d calls through Server(client 0,1,3) '
                       '-> AudioBus/ControlBus/Buffer(+new_consecutive), also with zero hardware channels + client 0 + nothing reserved (spaces '
                       'starting at index 0); blocks() after every history; bulk family: all histories of 4(5) calls '
                       'over {alloc, free, Buffer.free_all, blocks()} with reserved_buffers 2/3(/4) and client offsets, each closed by '
                       'free_all + a request for the whole partition; registration sweep: local max_logins 1/2/4/8 x logins reported by '
                       'the server none/2/4/8 x assigned ids 0,1,last x 3 spaces, two Server objects per layout, via the login handler '
                       '(NRT) and via the /done /notify reply (RT), probing + all histories of 3(4) calls; %d seeded random histories (20-120 calls, sizes 8-32, '
                       'offsets 0/size/3*size/odd); %d simulated L2 behaviours replayed; node-id runs for clients {0,1,3,31,..} '
                       'with the counter at/near the top. non-trivial = a free followed later by an alloc (reuse path) resp. an '
                       'id run crossing the wrap; distinct by content incl. tie-break vector'
                       % (depth, fdepth, sdepth, nrand + nrand // 2, nsim))
    ctx.cov['exhaustive'] = True
    ctx.assumptions += [
        'free() is exercised with addresses the allocator handed out earlier (live, already freed, never granted) and None; '
        'addresses outside the client space (which Python negative indexing would alias) are out of scope',
        'client ids are set with Server._set_client_id, with ServerStatusWatcher._handle_login_done(id, maxLogins) and through the '
        '/done /notify reply fed to the OSC interface; no scsynth is involved',
        'reserve() (unused by sc3 itself) and the other allocator classes of _engine.py are not covered',
        'node ids: sequences of <= 40 ids; the window law is exercised by moving init_temp and the counter next to 2^26',
    ]


def replay(ctx, rp):
    rep = rp['replay']
    case = dict(rep['case'])
    if rep['kind'] == 'ids':
        tr = run_cases(ctx, [case])
        judge_ids(ctx, [case], tr)
        ctx.sample(dict(case=case, observed=tr[0]['ids'] or tr[0]['exc']))
    else:
        ch = rep.get('choices') or []
        if ch and ch[0] not in ('random', 'script'):
            # re-run exactly the recorded tie-break branch
            case['tiebreak'] = 'all'
        tr = run_cases(ctx, [case], mode=rep.get('mode', 'nrt'))
        if ch and ch[0] not in ('random', 'script'):
            tr = [t for t in tr if t['choices'] == ch] or tr
        judge_alloc(ctx, [([case], tr)])
        ctx.sample(dict(case=case, observed=tr[0]['ev']))
    ctx.cov['evaluations'] = len(tr)


MANIFEST = dict(
    category='model_checking',
    text=('TLC checks exhaustively that (a) the allocation spec (any legal address; "no space" only when no free run '
          'exists; freed ranges merge with free neighbours; double free is a no-op) satisfies the stated laws on partitions '
          'of 5-8 addresses with reserved prefixes and client offsets, (b) a line-by-line model of ContiguousBlockAllocator '
          '(object identity, free lists by size in dict order, top, addr_offset arithmetic, nondeterministic tie-break) '
          'refines it on every transition of its complete reachable state space, (c) the node-id counter refines the '
          'window/range spec.  The real code is bound to the spec by validating every alloc/free/double-free history of 6 '
          '(thorough 7) calls under every tie-break on real allocators, every history of 5 (6) calls through '
          'Server(client 0,1,3) -> AudioBus/ControlBus/Buffer, long random histories, replayed model behaviours, and '
          'node-id runs across the real 2^26 wrap.'),
    note=('Decided: safety (disjoint, inside the client partition), completeness ("no space" only when full, reuse after '
          'free with coalescing), double free, node-id range and distinctness in the window, for the bounded histories and '
          'sizes listed in the evidence. Not decided: histories longer than explored on sizes beyond the model (only sampled '
          'randomly), reserve(), PowerOfTwoAllocator and the other unused allocators, a real server login. Trusted: TLC, '
          'the driver that records return values, Python list/dict/set.'),
    technique='TLA+ L1/L2 refinement checked by TLC + batch trace validation of exhaustive histories x tie-breaks on the real allocators + replay of model behaviours',
    design_ref='DESIGN.md section 3 / C16',
    engine='Alloc, NodeIds',
)
