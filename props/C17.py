"""C17 - client objects speak the server command protocol and keep ids consistent.

Decided by: ServerCmd.tla (command table transcribed from the Server Command Reference, flattening law, the
expected wire output of every public API call on an abstract client state, bind() semantics), model-checked by
TLC through ServerCmdModel.tla; real Synth/Group/ParGroup/Buffer/Bus objects are driven (NRT and RT, the OSC
interface's send captured, datagram bytes decoded by an independent reader) through exhaustive small and seeded
random API histories and every recorded call is decided by TraceServerCmd.tla."""
import itertools
import random

from harness.common import MachineryError

DRIVER = 'drivers/c17_cmds.py'


# ----------------------------------------------------------------------------- argument trees
def ti(n):
    return dict(k='i', i=n, s='', c=[])


def tf(n8):
    return dict(k='f', i=n8, s='', c=[])


def ts(s):
    return dict(k='s', i=0, s=s, c=[])


def tl(*c):
    return dict(k='l', i=0, s='', c=list(c))


def td(*c):
    return dict(k='d', i=0, s='', c=list(c))


def tobj(h):
    return dict(k='obj', i=h, s='', c=[])


def tmap(h):
    return dict(k='map', i=h, s='', c=[])


def arg_shapes(bus=None, buf=None, node=None):
    """control/value argument lists: scalars, lists, dicts, bus / buffer / node objects, bus map strings"""
    out = [
        [],
        [ts('freq'), ti(440)],
        [ts('amp'), tf(1), ti(2), tf(-20)],
        [ts('freq'), tl(ti(1), tf(4), ti(3))],
        [ti(0), tl(tf(1), tf(2)), ts('pan'), ti(-1)],
        [ts('a'), ti(1), ts('b'), tl(ti(2)), ts('c'), tf(24)],
        [td(ts('freq'), ti(440), ts('amp'), tf(4))],
        [td(ts('freq'), tl(ti(440), ti(441)))],
        [ts('in'), ts('a0')],
    ]
    if bus:
        out += [[ts('bus'), tobj(bus)], [ts('in'), tmap(bus), ts('x'), tl(tobj(bus), ti(1))], [td(ts('bus'), tobj(bus))]]
    if buf:
        out += [[ts('buf'), tobj(buf)], [ti(2), tl(tobj(buf), tobj(buf))]]
    if node:
        out += [[ts('target'), tobj(node)]]
    return out


ACTIONS = ['addToHead', 'addToTail', 'addBefore', 'addAfter', 'addReplace', 'head', 'tail', 'before', 'after', 'replace',
           'h', 't', 'b', 'a', 'r']
CFG0 = dict(client=0, logins=2, nbuf=8, ncb=8, nab=12, initnode=1000)
CFG1 = dict(client=1, logins=2, nbuf=8, ncb=8, nab=12, initnode=1000)
CFGZ = dict(client=0, logins=2, nbuf=8, ncb=8, nab=8, initnode=1000, io=0)     # no hardware channels: audio bus 0 is an ordinary id
CFGT = dict(client=1, logins=2, nbuf=4, ncb=4, nab=8, initnode=1000)      # two addresses per client and space
CFGW = dict(client=1, logins=2, nbuf=6, ncb=6, nab=10, initnode=1000, nodestart=(1 << 26) - 2)   # node ids wrap


def op(name, **kw):
    d = dict(op=name)
    d.update(kw)
    return d


# ----------------------------------------------------------------------------- families of histories
def fam_creation():
    """every constructor x add action x target kind x argument shape"""
    hs = []
    pre = [op('group', tk='server', act='addToHead', n=[0]), op('cbus', n=[2]), op('buffer', n=[8, 1], cm='none'),
           op('synth', **{'def': 'default'}, tk='obj', t=1, act='addToTail', a=[])]
    shapes = arg_shapes(bus=2, buf=3, node=4)
    for act in ACTIONS:
        for tk, t in (('obj', 1), ('obj', 4), ('none', 0), ('server', 0), ('root', 0)):
            hs.append(pre + [op('synth', **{'def': 'd'}, tk=tk, t=t, act=act, a=shapes[1]),
                             op('group', tk=tk, t=t, act=act, n=[0]), op('group', tk=tk, t=t, act=act, n=[1]),
                             op('paused', **{'def': 'd'}, tk=tk, t=t, act=act, a=shapes[2]),
                             op('grain', **{'def': 'd'}, tk=tk, t=t, act=act, a=shapes[3])])
    for via in ('after', 'before', 'head', 'tail'):
        hs.append(pre + [op('synth', **{'def': 'd'}, tk='obj', t=1, via=via, act='addToHead', a=shapes[1]),
                         op('group', tk='obj', t=4, via=via, act='addToHead', n=[0]),
                         op('group', tk='obj', t=1, via=via, act='addToHead', n=[1])])
    hs.append(pre + [op('group', tk='obj', t=4, via='replace', act='addToHead', n=[0])])
    for sh in shapes:
        hs.append(pre + [op('synth', **{'def': 'd'}, tk='obj', t=1, act='addToHead', a=sh),
                         op('paused', **{'def': 'd'}, tk='none', act='tail', a=sh),
                         op('replace', **{'def': 'd'}, tk='obj', t=4, a=sh, n=[0]),
                         op('replace', **{'def': 'd'}, tk='obj', t=4, a=sh, n=[1]),
                         op('set', h=4, a=sh)] if sh else pre + [op('synth', **{'def': 'd'}, tk='obj', t=1, act='addToHead', a=sh)])
    return hs


def node_ops(bus=2, buf=3, other=1):
    ops = [op('set', h=4, a=a) for a in arg_shapes(bus, buf, other)[1:7]]
    ops += [op('setn', h=4, a=[ts('freq'), tl(ti(1), tf(2), ti(3)), ti(3), tf(4)]),
            op('setn', h=4, a=[ti(0), ti(7)]),
            op('map', h=4, a=[ts('freq'), tobj(bus), ti(2), ti(-1)]),
            op('mapa', h=4, a=[ts('in'), ti(1)]),
            op('mapn', h=4, a=[ts('freq'), tobj(bus), ti(2), ti(-1)]),
            op('mapan', h=4, a=[ti(1), ti(2)]),
            op('fill', h=4, a=[ts('freq'), ti(2), tf(4), ti(3), ti(2), ti(1)]),
            op('run', h=4, n=[0]), op('run', h=4, n=[1]),
            op('release', h=4, n=[0, 0]), op('release', h=4, n=[1, 16]), op('release', h=4, n=[1, 0]), op('release', h=4, n=[1, 4]),
            op('trace', h=4), op('free', h=4), op('free_nosend', h=4),
            op('move_before', h=4, tk='obj', t=other), op('move_after', h=4, tk='obj', t=other),
            op('move_to_head', h=4, tk='obj', t=other), op('move_to_tail', h=4, tk='none'),
            op('free_all', h=1), op('deep_free', h=1), op('free', h=1), op('s_get', h=4, a=[ts('freq')]),
            op('free_default_group'), op('reorder', a=[tobj(4), tobj(1)], tk='obj', t=1, act='addToTail'),
            op('s_getn', h=4, a=[ti(2)], n=[3]), op('n_query', h=4), op('dump_tree', h=1, n=[1]), op('dump_tree', h=1, n=[0])]
    return ops


PRE_NODE = [op('group', tk='server', act='addToHead', n=[0]), op('cbus', n=[2]), op('buffer', n=[8, 1], cm='none'),
            op('synth', **{'def': 'default'}, tk='obj', t=1, act='addToTail', a=[])]


def fam_node_sequences(depth):
    """all sequences of `depth` node operations on a synth in a group"""
    al = node_ops()
    return [PRE_NODE + list(s) for s in itertools.product(al, repeat=depth)]


def buffer_alphabet(handles):
    al = [op('buffer', n=[8, 1], cm='none'), op('buffer', n=[16, 2], cm='func'), op('consecutive', n=[2, 8, 1]),
          op('b_free_all')]
    for h in handles:
        al += [op('b_free', h=h, cm='none'), op('b_free', h=h, cm='state'), op('b_zero', h=h, cm='none')]
    return al


def fam_buffers(depth):
    """all sequences over buffer creation / consecutive / free (incl. double free) / free_all / use;
    handles of objects whose creation failed or that precede a free_all are not used again"""
    out = []

    def rec(h, kinds):
        if len(h) == depth:
            out.append(list(h))
            return
        usable = [i + 1 for i, k in enumerate(kinds) if k == 'buf']
        for o in buffer_alphabet(usable):
            k2 = list(kinds)
            if o['op'] in ('buffer', 'consecutive'):
                k2.append('buf')
            elif o['op'] == 'b_free_all':
                k2 = ['stale' for _ in k2]
            h.append(o)
            rec(h, k2)
            h.pop()
    rec([], [])
    return out


def fam_buffer_commands():
    pre = [op('buffer', n=[8, 1], cm='state'), op('buffer_noalloc', n=[8, 2])]
    cmds = [op('b_alloc', h=2, n=[8, 2], cm='none'), op('b_alloc', h=2, n=[8, 2], cm='list'), op('b_alloc', h=2, n=[8, 2], cm='func'),
            op('b_zero', h=1, cm='func'), op('b_close', h=1, cm='none'), op('b_close', h=1, cm='list'), op('b_query', h=1),
            op('b_set', h=1, a=[ti(0), tf(4), ti(3), ti(1)]), op('b_setn', h=1, a=[ti(0), tl(tf(1), tf(2)), ti(4), tf(4)]),
            op('b_fill', h=1, a=[ti(0), ti(4), tf(4)]),
            op('b_read', h=1, **{'def': '/tmp/x.wav'}, n=[0, -1, 0, 0]), op('b_read', h=1, **{'def': '/tmp/x.wav'}, n=[16, 32, 4, 1]),
            op('b_cue', h=1, **{'def': '/tmp/x.wav'}, n=[0, 8], cm='none'), op('b_cue', h=1, **{'def': '/tmp/x.wav'}, n=[64, 8], cm='func'),
            op('b_write', h=1, **{'def': '/tmp/y.aiff'}, n=[-1, 0, 0], cm='none'), op('b_write', h=1, **{'def': '/tmp/y.aiff'}, n=[100, 8, 1], cm='func'),
            op('b_alloc_read', h=2, **{'def': '/tmp/x.wav'}, n=[0, -1], cm='none'), op('b_alloc_read', h=2, **{'def': '/tmp/x.wav'}, n=[8, 64], cm='func'),
            op('b_free', h=1, cm='func'), op('b_free', h=1, cm='list'), op('b_free', h=1, cm='state'), op('b_free', h=2, cm='state'),
            op('b_zero', h=1, cm='state'), op('b_close', h=2, cm='state'), op('b_alloc', h=2, n=[8, 2], cm='state'),
            op('b_cue', h=1, **{'def': '/tmp/x.wav'}, n=[16, 8], cm='state'),
            op('b_write', h=2, **{'def': '/tmp/y.aiff'}, n=[-1, 0, 0], cm='state'),
            op('b_alloc_read', h=2, **{'def': '/tmp/x.wav'}, n=[0, -1], cm='state'),
            op('b_get', h=1, n=[3]), op('b_getn', h=1, n=[0, 4]),
            op('b_sine1', h=1, a=[tf(8), tf(4), ti(1)], n=[1, 1, 1]), op('b_sine1', h=1, a=[tf(8)], n=[0, 0, 0]),
            op('b_sine2', h=1, a=[ti(1), tf(8), ti(3), tf(2)], n=[1, 0, 1]),
            op('b_sine3', h=1, a=[ti(1), tf(8), ti(0), ti(2), tf(4), tf(4)], n=[0, 1, 0]),
            op('b_cheby', h=1, a=[tf(8), ti(0), tf(2)], n=[1, 1, 0]),
            op('b_normalize', h=1, a=[tf(4)], n=[0]), op('b_normalize', h=1, a=[ti(1)], n=[1]),
            op('b_copy', h=1, tk='obj', t=2, n=[0, 0, -1]), op('b_copy', h=1, tk='obj', t=2, n=[4, 2, 8])]
    hs = [pre + [c] for c in cmds]
    # after free: every command that checks refuses, double free is silent
    for c in (op('b_zero', h=1, cm='none'), op('b_close', h=1, cm='none'), op('b_query', h=1), op('b_set', h=1, a=[ti(0), tf(4)]),
              op('b_setn', h=1, a=[ti(0), tl(tf(1))]), op('b_fill', h=1, a=[ti(0), ti(4), tf(4)]),
              op('b_write', h=1, **{'def': '/tmp/y.aiff'}, n=[-1, 0, 0], cm='none'), op('b_free', h=1, cm='none'),
              op('b_get', h=1, n=[3]), op('b_getn', h=1, n=[0, 4]), op('b_sine1', h=1, a=[tf(8)], n=[1, 1, 1]),
              op('b_normalize', h=1, a=[tf(4)], n=[0]), op('b_copy', h=1, tk='obj', t=2, n=[0, 0, -1])):
        hs.append(pre + [op('b_free', h=1, cm='none'), c])
    return hs


def bus_alphabet(handles):
    al = [op('cbus', n=[1]), op('cbus', n=[2]), op('abus', n=[2])]
    for h, k in handles:
        al += [op('bus_free', h=h)]
        if k == 'cbus':
            al += [op('c_set', h=h, a=[tf(4)]), op('c_get', h=h)]
    return al


def fam_buses(depth):
    out = []

    def rec(h, kinds):
        if len(h) == depth:
            out.append(list(h))
            return
        for o in bus_alphabet([(i + 1, k) for i, k in enumerate(kinds)]):
            h.append(o)
            rec(h, kinds + [o['op']] if o['op'] in ('cbus', 'abus') else kinds)
            h.pop()
    rec([], [])
    return out


def fam_bus_commands():
    pre = [op('cbus', n=[2]), op('cbus', n=[1])]
    cmds = [op('c_set', h=1, a=[tf(4), ti(2)]), op('c_setn', h=1, a=[tf(1), tf(2)]), op('c_fill', h=1, a=[tf(4)], n=[2]),
            op('c_set_at', h=1, a=[ti(3)], n=[1]), op('c_setn_at', h=1, a=[tf(3)], n=[1]), op('c_get', h=1), op('c_get', h=2),
            op('c_getn', h=1, n=[2])]
    hs = [pre + [c] for c in cmds]
    hs += [pre + [op('bus_free', h=1), c] for c in cmds]
    return hs


def bind_bodies():
    return [op('synth', **{'def': 'd'}, tk='obj', t=1, act='addToHead', a=[ts('freq'), tl(ti(1), ti(2))]),
            op('group', tk='none', act='tail', n=[0]),
            op('set', h=4, a=[ts('amp'), tf(4)]), op('free', h=4), op('release', h=4, n=[0, 0]),
            op('paused', **{'def': 'd'}, tk='obj', t=1, act='addToTail', a=[]),
            op('buffer', n=[8, 1], cm='func'), op('b_free', h=3, cm='state'), op('b_free_all'),
            op('cbus', n=[1]), op('c_set', h=2, a=[tf(4), ti(1)])]


def fam_bind(maxlen):
    """bodies of <= maxlen calls, the exception raised at every point (before call k / after the last / not at all),
    followed by calls outside the block"""
    hs = []
    al = bind_bodies()
    after = [op('set', h=4, a=[ts('x'), ti(1)]), op('buffer', n=[8, 1], cm='none')]
    for ln in range(0, maxlen + 1):
        for body in itertools.product(al, repeat=ln):
            if sum(1 for o in body if o['op'] == 'b_free_all') and any(o['op'] == 'b_free' for o in body):
                continue
            for r in range(-1, ln + 1):
                hs.append(PRE_NODE + [op('bind', body=list(body), raise_at=r)] + after)
    # two blocks in a row, nested use of the collected bundle afterwards
    hs.append(PRE_NODE + [op('bind', body=[al[2]], raise_at=-1), op('bind', body=[al[3]], raise_at=0),
                          op('bind', body=[al[4], al[2]], raise_at=-1)] + after)
    return hs


def fam_sync(maxlen):
    """bind blocks with 1..2 `yield from server.sync()` among <= maxlen calls, the exception raised at every point
    (before call k, hence before / between / after the syncs; after the last call; not at all), then calls outside
    the block; plus syncs outside any block"""
    cmds = [op('synth', **{'def': 'd'}, tk='obj', t=1, act='addToHead', a=[ts('freq'), ti(440)]),
            op('set', h=4, a=[ts('amp'), tf(4)]), op('free', h=4),
            op('buffer', n=[8, 1], cm='func'), op('b_free', h=3, cm='none')]
    al = cmds + [op('sync')]
    after = [op('run', h=4, n=[1]), op('cbus', n=[1])]
    hs = []
    for ln in range(1, maxlen + 1):
        for body in itertools.product(al, repeat=ln):
            k = sum(1 for o in body if o['op'] == 'sync')
            if not 1 <= k <= 2:
                continue
            for r in range(-1, ln + 1):
                hs.append(PRE_NODE + [op('bind', body=list(body), raise_at=r)] + after)
    hs.append(PRE_NODE + [op('sync'), cmds[1], op('sync'), op('sync'), op('bind', body=[cmds[1], op('sync'), cmds[2]], raise_at=-1),
                          op('sync'), op('bind', body=[op('sync')], raise_at=-1), op('bind', body=[op('sync'), cmds[1]], raise_at=2)])
    return hs


def fam_bus_args():
    """a bus as an argument of node commands over its life cycle: map symbol (as_map()) and the object itself, in set / map /
    mapn / Synth args, before and after free(), audio and control, 1 and 2 channels, with or without a new bus allocated in
    between (which takes over the freed index)"""
    hs = []
    for kind in ('cbus', 'abus'):
        m, mn = ('map', 'mapn') if kind == 'cbus' else ('mapa', 'mapan')

        def uses(h):
            return [None,
                    op('set', h=4, a=[ts('in'), tmap(h)]),
                    op('set', h=4, a=[ts('bus'), tobj(h), ts('x'), tl(tmap(h), ti(1))]),
                    op('set', h=4, a=[ts('bus'), tobj(h)]),
                    op(m, h=4, a=[ts('freq'), tobj(h)]),
                    op(mn, h=4, a=[ti(0), tobj(h)]),
                    op('synth', **{'def': 'd'}, tk='obj', t=1, act='addToTail', a=[ts('in'), tmap(h)]),
                    op('paused', **{'def': 'd'}, tk='none', act='head', a=[td(ts('bus'), tobj(h))])]
        for ch in (1, 2):
            for before in uses(5):
                for after in uses(5)[1:]:
                    for between in (False, True):
                        h = PRE_NODE + [op(kind, n=[ch])] + ([before] if before else []) + [op('bus_free', h=5)]
                        if between:
                            nxt = 6 + (1 if before and before['op'] in ('synth', 'paused') else 0)
                            h += [op(kind, n=[ch]), dict(after), uses(nxt)[1]]
                        else:
                            h += [dict(after)]
                        h += [op('run', h=4, n=[1])]
                        hs.append(h)
    return hs


def fam_big(thorough):
    """LARGE bind blocks, sizes straddling the 65504-byte datagram limit (one '/n_set id amp i' element = 32 bytes:
    2046 fit, 2047 do not): just below, just above, 2x, 3x; many small commands, a few big list payloads below and above
    the 8192-byte clump size, mixed; with / without a sync in the middle, with an exception after the sync / at the end"""
    hs = []

    def big(N, k=0, r=0, payload='small', ln=1500):
        hs.append(PRE_NODE + [op('bigbind', h=4, n=[N, k, r], payload=payload, len=ln), op('run', h=4, n=[1])])
    for N in (2046, 2047, 2100, 4200) + ((6600, 9000) if thorough else (6600,)):
        big(N)
    big(2047, k=1000)               # both halves fit
    big(4200, k=2100)               # both halves oversize
    big(4200, k=10)
    big(4200, k=2100, r=4200)       # raise after the sync: the flushed half stays, the rest is dropped
    big(2100, r=2101)               # raise at the very end: nothing
    big(2100, k=2050, r=100)        # raise before the sync: nothing
    for N in (8, 9, 20):
        big(N, payload='list', ln=1500)         # 7.5 kB each: below the clump size
    for N in (5, 6, 12):
        big(N, payload='list', ln=2500)         # 11.5 kB each: every command alone exceeds the clump size
    big(9, k=4, payload='list', ln=1500)
    big(12, k=6, r=12, payload='list', ln=2500)
    big(600, payload='mixed')
    big(1500, payload='mixed')
    big(1500, k=700, payload='mixed')
    if thorough:
        for N in range(2040, 2056):
            big(N)
        for N in (3000, 5000):
            big(N, k=N // 3)
            big(N, payload='mixed', ln=1000)
        big(40, payload='list', ln=1500)
        big(30, k=11, payload='list', ln=2500)
    return hs


def fam_flush_fails():
    """bind blocks whose FLUSH fails: a command with an argument the encoder refuses (int outside int32 in set(), a
    pathlib.Path file name in Buffer.read()) is collected among 0..2 good commands; the exit raises, nothing of the block
    is sent, and the commands that follow - outside and in a new block - reach the wire.  Also the refusal outside a block."""
    hs = []
    good = [op('set', h=4, a=[ts('amp'), tf(4)]), op('synth', **{'def': 'd'}, tk='obj', t=1, act='addToHead', a=[]),
            op('b_zero', h=3, cm='none'), op('run', h=1, n=[0])]
    bads = [op('bad', h=4, n=[0]), op('bad', h=1, n=[0]), op('bad', h=3, n=[1])]
    after = [op('run', h=4, n=[1]), op('bind', body=[op('set', h=4, a=[ts('x'), ti(1)]), op('free', h=1)], raise_at=-1),
             op('cbus', n=[1]), op('free', h=4)]
    for bad in bads:
        hs.append(PRE_NODE + [bad] + after)
        for k in range(3):
            for pre in itertools.product(good, repeat=k):
                for pos in range(k + 1):
                    body = list(pre[:pos]) + [bad] + list(pre[pos:])
                    hs.append(PRE_NODE + [op('bind', body=body, raise_at=-1)] + after)
        hs.append(PRE_NODE + [op('bind', body=[good[0], bad, good[3]], raise_at=2)] + after)       # body raises after the bad one
        hs.append(PRE_NODE + [op('bind', body=[bad], raise_at=-1), op('bind', body=[bad, good[0]], raise_at=-1)] + after)
    return hs


def has_sync(h):
    return any(o['op'] == 'sync' or (o['op'] == 'bigbind' and o['n'][1] > 0) or any(i['op'] == 'sync' for i in o.get('body', [])) for o in h)


def random_history(rnd, n):
    """a random valid program over everything; tracks handle kinds only to build well-formed calls"""
    kinds = []          # per handle: 'group' 'synth' 'buf' 'bufs' 'cbus' 'abus' 'stale' (after free_all) 'dead'
    h = []

    def pick(*ks):
        c = [i + 1 for i, k in enumerate(kinds) if k in ks]
        return rnd.choice(c) if c else None

    def args():
        sh = arg_shapes(pick('cbus'), pick('buf'), pick('synth', 'group'))
        return rnd.choice(sh)

    def one(inbind):
        x = rnd.random()
        if rnd.random() < (0.2 if inbind else 0.03):
            return op('sync')
        dead = pick('deadbus')
        if dead and pick('synth', 'group') and rnd.random() < 0.08:     # the map symbol of a freed bus: must be refused
            return op('set', h=pick('synth', 'group'), a=[ts('in'), tmap(dead)])
        tgt = pick('group', 'synth')
        tk = rnd.choice(['obj', 'obj', 'none', 'server', 'root']) if tgt else rnd.choice(['none', 'server', 'root'])
        if x < 0.12 or not kinds:
            kinds.append('group')
            return op('group', tk=tk, t=tgt or 0, act=rnd.choice(ACTIONS), n=[rnd.randint(0, 1)])
        if x < 0.28:
            a = args()
            kinds.append('synth')
            return op(rnd.choice(['synth', 'synth', 'paused']), **{'def': rnd.choice(['default', 'x'])}, tk=tk, t=tgt or 0,
                      act=rnd.choice(ACTIONS), a=a)
        if x < 0.33:
            kinds.append(rnd.choice(['cbus', 'abus']))
            return op(kinds[-1], n=[rnd.randint(1, 2)])
        if x < 0.40:
            if rnd.random() < 0.3:
                kinds.append('bufs')
                return op('consecutive', n=[2, 8, 1])
            kinds.append('buf')
            return op('buffer', n=[rnd.choice([8, 64]), rnd.randint(1, 2)], cm=rnd.choice(['none', 'list', 'func', 'state']))
        node = pick('synth', 'group')
        if x < 0.75 and node:
            c = rnd.choice(node_ops(pick('cbus') or 0, pick('buf') or 0, pick('group', 'synth')))
            c = dict(c)
            if c['op'] in ('free_all', 'deep_free', 'dump_tree'):
                g = pick('group')
                if not g:
                    return op('trace', h=node)
                c['h'] = g
            elif c['op'] in ('s_get', 's_getn'):
                sy = pick('synth')
                if not sy:
                    return op('trace', h=node)
                c['h'] = sy
            elif 'h' in c:
                c['h'] = node
            if c['op'] in ('move_to_head', 'move_to_tail') and c.get('tk') == 'obj':
                g = pick('group')
                if not g:
                    c['tk'], c['t'] = 'none', 0
                else:
                    c['t'] = g
            if c['op'] == 'reorder':
                c['a'] = [tobj(node)]
                c['t'] = pick('group', 'synth')
            if any(t.get('k') in ('obj', 'map') and not t['i'] for t in c.get('a', []) for t in [t] + t.get('c', [])):
                return op('run', h=node, n=[1])
            return c
        b = pick('buf', 'bufs')
        if x < 0.85 and b:
            if kinds[b - 1] == 'bufs' or rnd.random() < 0.5:
                # freed objects are not used again, except for an immediate second free()
                again = kinds[b - 1] == 'buf' and rnd.random() < 0.4
                kinds[b - 1] = 'dead'
                f = op('b_free', h=b, cm=rnd.choice(['none', 'func', 'state']))
                return [f, op('b_free', h=b, cm='none')] if again else f
            return rnd.choice([op('b_zero', h=b, cm='none'), op('b_set', h=b, a=[ti(0), tf(4)]), op('b_query', h=b),
                               op('b_fill', h=b, a=[ti(0), ti(4), tf(4)])])
        if x < 0.88:
            for i, k in enumerate(kinds):
                if k in ('buf', 'bufs'):
                    kinds[i] = 'stale'
            return op('b_free_all')
        c = pick('cbus', 'abus')
        if c:
            if rnd.random() < 0.4:
                kinds[c - 1] = 'deadbus'
                return [op('bus_free', h=c)] * rnd.choice([1, 1, 2])
            if kinds[c - 1] == 'cbus':
                return rnd.choice([op('c_set', h=c, a=[tf(4)]), op('c_fill', h=c, a=[tf(8)], n=[1]), op('c_get', h=c)])
        return op('free_default_group')

    while len(h) < n:
        if rnd.random() < 0.15:
            body = []
            for _ in range(rnd.randint(0, 4)):
                o = one(True)
                body += o if isinstance(o, list) else [o]
            h.append(op('bind', body=body, raise_at=rnd.choice([-1, -1, -1] + list(range(len(body) + 1)))))
            if h[-1]['raise_at'] >= 0:
                # objects whose creating call was skipped do not exist: stop here (handles would be misaligned)
                break
        else:
            o = one(False)
            h += o if isinstance(o, list) else [o]
    return h


def nontrivial(h):
    """creates an object and later addresses it, or contains a bind block with at least one call"""
    flat = []
    for o in h:
        flat += o['body'] if o['op'] == 'bind' else [o]
    if any(o['op'] == 'bind' and o['body'] for o in h):
        return True
    return any(o.get('h', 0) > 4 or o['op'] in ('b_free', 'bus_free', 'free', 'bigbind') for o in flat)


# ----------------------------------------------------------------------------- running / judging
def run_cases(ctx, cases, mode):
    n = len(cases)
    nproc = 16 if mode == 'nrt' else 6
    per = max(1, (n + nproc - 1) // nproc)
    inputs = [dict(cases=cases[i:i + per]) for i in range(0, n, per)]
    outs = ctx.run_drivers(DRIVER, inputs, mode=mode, nproc=nproc)
    traces = []
    for ci, o in enumerate(outs):
        for t in o['traces']:
            t['case'] += ci * per
            if t['err']:
                raise MachineryError('driver crashed inside a history: %s\n%s' % (cases[t['case']]['hist'], t['err']))
            traces.append(t)
    if len(traces) != n:
        raise MachineryError('driver returned %d traces for %d cases' % (len(traces), n))
    return traces


def judge(ctx, runs):
    """runs: list of (cases, traces, mode); one batch validation for all of them"""
    slim, meta = [], []
    for cases, traces, mode in runs:
        for t in traces:
            slim.append(dict(id=len(slim), cfg=t['cfg'], ev=t['ev']))
            meta.append((cases[t['case']], t, mode))
    verdicts = ctx.validate('TraceServerCmd', 'TraceServerCmd.cfg', slim, nproc=8 if len(slim) > 20000 else 4)
    for i, (case, t, mode) in enumerate(meta):
        if nontrivial(case['hist']):
            ctx.nontrivial([case['cfg'], case['hist']])
        v = verdicts[i]
        if v is not None:
            at, why = v
            ev = t['ev'][at - 1]
            obs = [[w['k'], w['t'], [[m['a']] + [x['i'] if x['t'] in 'ifb' else (x['s'] or x['t']) for x in m['g']] for m in w['m']]]
                   for w in ev['em']]
            ctx.violation('cmd:%s:%s' % (ev['op'], why),
                          '%s on call %d (%s%s) of an API history [%s mode]: on the wire %s%s'
                          % (why, at, ev['op'], ' inside bind()' if in_bind(t['ev'], at) and ev['op'] != 'bind_exit' else '', mode,
                             obs, (' raised ' + ev['exc']) if ev['exc'] else ''),
                          dict(kind='history', mode=mode, case=case, rejected_at=at, why=why, call=ev))
    return len(slim)


def in_bind(ev, at):
    depth = False
    for e in ev[:at - 1]:
        if e['op'] == 'bind_enter':
            depth = True
        elif e['op'] == 'bind_exit':
            depth = False
    return depth


def run(ctx):
    thorough = not ctx.quick
    # 1. design: the expectations of the spec are well-typed per the command table, mention only known ids, and
    #    bind() is all-or-nothing, for every history of the bounded model
    acts = ('NewSynth', 'Replace', 'NewGroup', 'NodeCmd', 'FreeNode', 'NewBuffer', 'Consecutive', 'FreeBuffer',
            'FreeAllBuffers', 'BufferCmd', 'NewBus', 'FreeBus', 'BusCmd', 'Bad', 'Sync', 'BindEnter', 'BindExit', 'BindRaise')
    # vacuity guard: TLC's -coverage runs out of memory on this module, so a small run prints every action it takes
    r = ctx.model_check('ServerCmdModel', 'ServerCmdModel_cover.cfg', coverage=False, workers=1, timeout=600,
                        label='vacuity guard (2 calls, actions printed)')
    ctx.expect_ok(r, 'ServerCmdModel cover')
    taken = {a: r.output.count('<<"ACT", "%s">>' % a) for a in acts}
    ctx.cov['model_runs'][-1]['actions_taken'] = taken
    for a, k in taken.items():
        if not k:
            raise MachineryError('vacuity: action %s never taken in ServerCmdModel' % a)
    r = ctx.model_check('ServerCmdModel', 'ServerCmdModel%s.cfg' % ('_thorough' if thorough else ''), coverage=False,
                        workers=8, timeout=1500)
    ctx.expect_ok(r, 'ServerCmdModel')
    r = ctx.model_check('ServerCmdModel', 'ServerCmdModel_bind.cfg', coverage=False, workers=8, timeout=1500,
                        label='bind blocks with syncs and raise points, 7 calls deep, few kinds of call')
    ctx.expect_ok(r, 'ServerCmdModel bind/sync')
    r = ctx.model_check('Clump', 'Clump.cfg', coverage=False, workers=4, timeout=600,
                        label='oversize blocks: NetAddr._clump_bundle transcribed, every size sequence of <= 6 commands')
    ctx.expect_ok(r, 'Clump')
    if thorough:
        r = ctx.model_check('ServerCmdModel', 'ServerCmdModel_deep.cfg', coverage=False, workers=8, timeout=1500,
                            label='4 calls, narrow choice sets')
        ctx.expect_ok(r, 'ServerCmdModel deep')

    # 2. real objects
    fams = [('creation', fam_creation()), ('node-seq', fam_node_sequences(2)),
            ('buffers', fam_buffers(5 if thorough else 4)), ('buffer-cmds', fam_buffer_commands()),
            ('buses', fam_buses(5 if thorough else 4)), ('bus-cmds', fam_bus_commands()),
            ('bind', fam_bind(3 if thorough else 2)), ('bind-sync', fam_sync(4 if thorough else 3)),
            ('bus-args', fam_bus_args()), ('big-blocks', fam_big(thorough)),
            ('flush-fails', fam_flush_fails())]
    cases = []
    famcount = {}
    for name, hs in fams:
        famcount[name] = len(hs)
        for k, h in enumerate(hs):
            cases.append(dict(cfg=CFG0 if (k % 3) else CFG1, hist=h))
            if name in ('buffers', 'buses'):
                cases.append(dict(cfg=CFGT, hist=h))
            if name == 'bus-args' or (name == 'buses' and k % 2 == 0):
                cases.append(dict(cfg=CFGZ, hist=h))       # audio-bus space starting at index 0 (no hardware channels)       # two addresses per client: ids must come back on free
    for h in fam_creation()[:40] + fam_bind(1):
        cases.append(dict(cfg=CFGW, hist=h))            # node ids across the 2^26 wrap
    rnd = random.Random(ctx.seed)
    nrand = 6000 if thorough else 1000
    for _ in range(nrand):
        cases.append(dict(cfg=rnd.choice([CFG0, CFG1, CFGW, CFGT]), hist=random_history(rnd, rnd.randint(8, 40))))
    traces = run_cases(ctx, cases, 'nrt')
    # RT mode: same objects on the UDP interface (send captured, nothing leaves the process)
    step = 1 if thorough else 4
    def has_bad(h):
        return any(o['op'] == 'bad' or any(i['op'] == 'bad' for i in o.get('body', [])) for o in h)
    rt_cases = [c for k, c in enumerate(cases) if k % step == 0 or has_sync(c['hist']) or has_bad(c['hist'])]     # sync only acts in RT
    rt_traces = run_cases(ctx, rt_cases, 'rt')
    judge(ctx, [(cases, traces, 'nrt'), (rt_cases, rt_traces, 'rt')])
    ctx.cov['evaluations'] += sum(len(t['ev']) for t in traces) + sum(len(t['ev']) for t in rt_traces)
    ctx.cov['histories'] = dict(famcount, random=nrand, rt=len(rt_cases))
    ctx.cov['api_calls_judged'] = ctx.cov['evaluations']
    t = traces[len(fams[0][1]) + 5]
    ctx.sample(dict(history=cases[t['case']]['hist'][4:], wire=[[e['op'], e['ids'], [[w['k'], [m['a'] for m in w['m']]] for w in e['em']]]
                                                                for e in t['ev'][4:]]))
    t = traces[-1]
    ctx.sample(dict(cfg=t['cfg'], wire=[[e['op'], e['ids'], e['exc'], [[w['k'], w['t'], [m['a'] for m in w['m']]] for w in e['em']]]
                                        for e in t['ev'][:10]]))
    ctx.cov['rule'] = ('families: every constructor x add-action name x target kind x argument shape (scalar/list/dict/bus/'
                       'buffer/node/map-string); all pairs of node commands; all sequences of %d buffer life-cycle calls (alloc, '
                       'consecutive, free, double free, free_all, use) and of %d bus calls; every buffer/bus command incl. after '
                       'free; bind bodies of <= %d calls x every raise point; bind bodies with 1-2 sync() x every raise point (RT with a '
                       'stub /synced reply, and NRT); %d seeded random programs (8-40 calls, bind blocks with syncs and '
                       'random raise points); large bind blocks straddling the 65504-byte datagram limit (2046..6600 small commands, 5-20 list '
                       'payloads of 7.5/11.5 kB, mixed; sync in the middle; raise after the sync / at the end), NRT and RT; client ids 0 and 1, node-id wrap; NRT all, RT every %d-th. non-trivial = '
                       'addresses an object created in the history, frees something, or has a non-empty bind block'
                       % (5 if thorough else 4, 5 if thorough else 4, 3 if thorough else 2, nrand, step))
    ctx.cov['exhaustive'] = True
    ctx.assumptions += [
        'int 0 in a completion-message slot means "no completion message" (the client encodes None as 0, as sclang does nil)',
        'repeated Node.free() re-sends /n_free for the same (client-allocated) id: not counted against "exactly once", which is '
        'read per free call; node ids are never returned to an allocator',
        'float arguments are multiples of 1/8 (exact in float32); strings are ASCII',
        'no server is running: commands that need a reply are checked in their request form only; /sync is answered by a stub '
        '(a /synced datagram handed to the OSC interface request handler as coming from the server address)',
        'nested lists inside list values, seti/get/getn/query callbacks, Volume/Recorder/ServerStatus helpers are not covered',
    ]


def replay(ctx, rp):
    rep = rp['replay']
    case = rep['case']
    mode = rep.get('mode', 'nrt')
    tr = run_cases(ctx, [case], mode)
    judge(ctx, [([case], tr, mode)])
    ctx.cov['evaluations'] = len(tr[0]['ev'])
    ctx.sample(dict(case=case, observed=tr[0]['ev'][:rep.get('rejected_at', 3)]))


MANIFEST = dict(
    category='model_checking',
    text=('The Server Command Reference grammar of ~60 commands, the argument flattening law, the expected wire output of '
          'every public Synth/Group/ParGroup/Buffer/Bus call on an abstract client state and the bind() semantics are one '
          'TLA+ specification; TLC checks on a bounded model that everything the specification expects is well-typed per the '
          'table, mentions only ids the client allocated and that bind() is all-or-nothing. Real objects are driven through '
          'exhaustive small families and seeded random API histories in NRT and RT mode with the OSC send captured; the '
          'datagram bytes are decoded by an independent reader and every call is decided by the same operators.'),
    note=('Decided: name/arity/order/types of every emitted command against the transcribed reference, ids (node ids judged by the '
          'C16 id-range spec, bus/buffer indexes by the C16 allocation spec), creation with own id, free once per owned id and '
          'return to the allocator, bind(): one bundle in issue order at latency on exit, nothing on exception. Not decided: the '
          "server's reaction, reply handling, sync() inside bind(), histories beyond the families/random programs listed. "
          'The command table is a transcription from memory of the reference (trusted input).'),
    technique='TLA+ command grammar + client-state spec checked by TLC; batch trace validation of API histories captured at the OSC interface (wire bytes decoded independently)',
    design_ref='DESIGN.md section 3 / C17',
    engine='ServerCmd',
)
