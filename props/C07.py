"""C07 - bundles are stamped with logical time plus latency; scores are ordered.

Same engine as C05 (LogicalTime.tla reference machine + TraceTime.tla) with programs rich in sends: latencies
incl. None / negative, plain messages, nested bundles (refusal when the nested one would precede its parent),
sends outside routines (main thread at start, plain threads later), incoming datagrams (time handed to
responders).  RT: datagrams captured at OscInterface._send and decoded by an independent reader; NRT:
main.process(tail).list and .raw."""
import random

from props import _time as T
from props.C05 import check, design

MINE = {'bndl', 'refused', 'ubndl', 'ubndl-in-routine', 'recv', 'score', 'marker', 'raw', 'missing-bndl', 'missing-refused'}


def sig(mode, tr, at, why):
    ev = tr['ev'][min(at, len(tr['ev'])) - 1]
    return 'stamp:%s:%s:%s' % (mode, why, ev.get('sk') or ev.get('k'))


def add_async(rnd, p):
    """plain-thread sends and incoming datagrams while routines are running (RT); outside sends in NRT"""
    n = 0
    for _ in range(rnd.randint(0, 3)):
        lat, kind = rnd.choice(T.LATS)
        n += 1
        p['main'].append(T.I('U', a=lat, b=kind, s='/u%d' % n, c=str(rnd.choice([0, T.TU // 8, T.TU // 4, T.TU, 3 * T.TU // 2]))))
    for _ in range(rnd.randint(0, 2)):
        n += 1
        kind = rnd.choice([0, 0, 1, 2])
        p['main'].append(T.I('IN', a=rnd.choice([0, T.TU // 4, T.TU, 5 * T.TU]), b=kind, s='/in%d' % n,
                             c=str(rnd.choice([0, T.TU // 8, T.TU]))))
    return p


def run(ctx):
    thorough = not ctx.quick
    rnd = random.Random(ctx.seed + 7)
    n = 6000 if thorough else 500
    progs = [add_async(rnd, T.gen_program(rnd, i, cls='A', feats=('send', 'send', 'tempo', 'spawn', 'func'))) for i in range(n)]
    for p in progs:      # more sends
        for b in p['routines'].values():
            if rnd.random() < 0.7:
                lat, kind = rnd.choice(T.LATS)
                b.insert(rnd.randint(0, len(b)), T.I('S', a=lat, b=kind, s='/x%d_%d' % (p['id'], len(b))))
    n3 = 0
    for p in progs:      # three nesting levels: a bundle inside the nested bundle, after it (nk 3) or before it (nk 4: refused)
        for b in p['routines'].values():
            if rnd.random() < 0.5:
                lat, kind = rnd.choice(T.LATS)
                nl = rnd.choice([0, T.TU // 8, T.TU // 4, T.TU, T.TU])
                b.insert(rnd.randint(0, len(b)), T.I('S', a=lat, b=kind, s='/y%d_%d' % (p['id'], n3), nk=rnd.choice([3, 4]), na=nl))
                n3 += 1
    ctx.cov['three_level_bundles'] = n3
    for p in progs:      # the same bundle (same list objects in the driver) sent again later by the same routine
        for b in p['routines'].values():
            ss = [i for i in b if i['op'] == 'S']
            if ss and rnd.random() < 0.5:
                again = dict(rnd.choice(ss))
                k = b.index([i for i in b if i is not None and i['op'] == 'S' and i['s'] == again['s']][0])
                pos = rnd.randint(k + 1, len(b))
                b.insert(pos, again)
                if rnd.random() < 0.7:
                    b.insert(pos, T.I('Y', a=rnd.choice(T.DELTAS[1:])))
    for p in progs:      # plain messages carrying a completion bundle as an argument
        for b in p['routines'].values():
            for i in b:
                if i['op'] == 'M' and rnd.random() < 0.6:
                    nl, nkind = rnd.choice(T.LATS)
                    i['nk'], i['na'] = (2 if nkind == 1 else 1), nl
    nrt = [dict(p, main=[i for i in p['main'] if i['op'] != 'IN']) for p in progs]
    tn, tr, v = check(ctx, nrt, progs, MINE, sig, 'C07', lenient=True)
    # plain threads sending WHILE clock threads are inside routine bodies ("outside routines it carries the current time")
    T.user_programs(ctx, 1500 if thorough else 150, 40_000, sig, MINE, lenient=True)
    ctx.cov['rule'] = ('%d seeded random routine programs with sends (latency in {0,1/8,1/4,1 s, None, -1/4 s}, plain messages, '
                       'nested bundles incl. ones that must be refused, sends from the main thread at start and from plain threads '
                       'while clocks run, incoming timed/immediate/plain datagrams) run under NrtMain (score list + raw) and '
                       'RtMain+cosched (datagrams captured at _send); non-trivial as in C05' % n)
    ctx.assumptions += ['timetags are compared exactly on the dyadic lattice (2^-16 s); float->timetag rounding off the lattice is not decided',
                        'RT runs use virtual time; the physical send instant differs from the logical one by the injected lateness']


def replay(ctx, rp):
    from props.C05 import replay as r5
    r5(ctx, rp)


MANIFEST = dict(
    category='model_checking',
    text=('The LogicalTime reference machine computes, for every send of a generated routine program, the stamp the bundle must '
          'carry (logical time + latency; immediately for None/negative; nested relative to the same instant, refused if earlier '
          'than the parent; physical now + latency outside routines) and the NRT score (sends sorted by (time, send order), root '
          'node, tail marker); TLC compares them with datagrams captured from the real RT interface under lateness up to 3 s and '
          'with main.process().list/.raw (raw parsed by an independent reader), and checks the time handed to responders.'),
    note=('Trusted: TLC, cosched, the 60-line OSC reader in the driver. Exact on the 2^-16 s lattice only; bundle payload encoding belongs to C06.'),
    technique='TLA+ reference machine (LogicalTime) + TLC trace validation of captured datagrams (RT) and scores (NRT)',
    engine='LogicalTime',
)
