"""C05 - logical time in routines is exact and independent of physical jitter.

Decided by: LogicalTime.tla (reference semantics of routine programs in exact rational logical time: yields
through the tempo map, children start at the parent's time on any clock, tempo changes re-base and re-time)
followed by TLC (TraceTime.tla) along executions of the REAL library: NrtMain, and RtMain under the
controlled scheduler with random timer lateness up to 3 s; TimeModel.tla checks on the bounded program
space that every RT behaviour yields the NRT observations."""
import random

from props import _time as T

MINE = {'obs', 'not-enabled', 'time-decreased', 'elapsed', 'unfinished', 'missing-obs'}


def sig(mode, tr, at, why):
    ops = {i['op'] for b in tr['prog']['routines'].values() for i in b}
    feat = 'tempo' if ops & {'T', 'ET', 'TB'} else 'plain'
    app = 'app' if any(i['c'] == 'app' for b in list(tr['prog']['routines'].values()) + [tr['prog']['main']] for i in b) else ''
    return 'time:%s:%s:%s%s' % (mode, why, feat, app)


def run(ctx):
    thorough = not ctx.quick
    design(ctx)
    rnd = random.Random(ctx.seed)
    n = 6000 if thorough else 500
    progs = [T.gen_program(rnd, i, cls='A', feats=('send', 'tempo', 'spawn', 'raise', 'cond', 'quant', 'stop', 'yr', 'func')) for i in range(n)]
    nrt_progs = progs + [T.gen_program(rnd, n + i, cls='A', nrt_only=True) for i in range(n // 4)]
    check(ctx, nrt_progs, progs, MINE, sig, 'C05')
    # plain threads acting while clock threads are inside routine bodies (a routine played from a plain thread lives
    # on SystemClock and starts at the physical time of the call)
    T.user_programs(ctx, 1500 if thorough else 150, 30_000, sig, MINE)
    ctx.cov['rule'] = ('%d seeded random routine programs (1-6 routines, nested/cross-clock play, yields in {0,1/8..2} beats, tempo '
                       'changes in {1/2,1,2,4}, raising bodies, sends) each executed under NrtMain and under RtMain+cosched with '
                       'random timer lateness (0..3 s); +%d NRT-only programs using AppClock; non-trivial = contains a tempo '
                       'change, a cross-clock spawn or a nested/None-latency send; distinct by program text' % (n, n // 4))
    ctx.assumptions += ['deltas, tempi and latencies are dyadic so float arithmetic is exact; equality, not isclose',
                        'RT AppClock is excluded (documented to drift; see C08)',
                        'RT runs use virtual time at lock granularity (cosched)']


def check(ctx, nrt_progs, rt_progs, mine, sigf, pid, lenient=False):
    rt_in = [dict(p, strategy=dict(kind='random' if p['id'] % 4 else 'pct', seed=ctx.seed * 7919 + p['id'])) for p in rt_progs]
    hist = {}
    for p in nrt_progs + rt_progs:
        for b in list(p['routines'].values()) + [p['main']]:
            for i in b:
                k = i['op'] + ('q' if i['op'] == 'P' and i['a'] else '') + ('x' if i['op'] == 'P' and i['c'] else '')
                hist[k] = hist.get(k, 0) + 1
    ctx.cov['instruction_histogram'] = dict(sorted(hist.items()))
    tn = T.run_mode(ctx, nrt_progs, 'nrt')
    tr = T.run_mode(ctx, rt_in, 'rt')
    ctx.cov['evaluations'] += len(tn) + len(tr)
    for t in tr:
        t['id'] += 10_000_000
    for t in tn + tr:
        t['lenient'] = lenient       # C07: differences in what routines read as their time are C05's, the stamps are judged on
    v = T.validate(ctx, tn + tr)
    other = {}
    for t in tn + tr:
        if T.nontrivial(t['prog']):
            ctx.nontrivial([t['mode'], t['prog']['routines'], t['prog']['main'], t['prog']['clocks']])
        r = v[t['id']]
        if r is None:
            continue
        at, why = r
        base = why.split('-')[0] if why.startswith('score') else why
        if why in mine or base in mine:
            ctx.violation(sigf(t['mode'], t, at, why),
                          '%s execution of a routine program deviates from the logical-time reference (%s) at event %d'
                          % (t['mode'].upper(), why, at),
                          dict(kind='time-program', mode=t['mode'], program=t['prog'], rejected_at=at, why=why,
                               events=t['ev'][:at + 1], score=t.get('score')))
        else:
            other[why] = other.get(why, 0) + 1
    ctx.cov['rejections_belonging_to_other_properties'] = other
    ctx.sample(dict(program=nrt_progs[0], nrt_events=tn[0]['ev'][:12], nrt_score=tn[0]['score'][:6]))
    return tn, tr, v


def design(ctx):
    """bounded program space x all RT interleavings: per-routine observations equal the NRT run's"""
    r = ctx.model_check('TimeModel', 'TimeModel_thorough.cfg' if not ctx.quick else 'TimeModel.cfg', timeout=3000)
    ctx.expect_ok(r, 'TimeModel')


def replay(ctx, rp):
    r = rp['replay']
    p = dict(r['program'], id=0)
    tr = T.run_mode(ctx, [dict(p, strategy=p.get('strategy') or dict(kind='random', seed=ctx.seed))], r['mode'], nproc=1)
    v = T.validate(ctx, tr)
    ctx.cov['evaluations'] = 1
    ctx.sample(dict(verdict=v[tr[0]['id']]))
    if v[tr[0]['id']] is not None:
        at, why = v[tr[0]['id']]
        ctx.violation(sig(r['mode'], tr[0], at, why), 'replayed: %s at %d' % (why, at), r)


MANIFEST = dict(
    category='model_checking',
    text=('LogicalTime.tla is the reference semantics of routine programs in exact logical time; TLC follows every recorded '
          'execution of the real library through it (NRT: NrtMain; RT: RtMain under a controlled scheduler with timer lateness up '
          'to 3 s and PCT/random interleavings), comparing clock.seconds/clock.beats at every resumption exactly, NRT '
          'monotonicity and final elapsed time; TimeModel.tla checks on a bounded program space that all RT schedules give the '
          'NRT observations.'),
    note=('Trusted: TLC, cosched, the program-to-generator compiler in drivers/c05_time.py. Dyadic deltas/tempi only (exact floats); '
          'real OS latency is replaced by virtual-time lateness; RT AppClock excluded by the statement.'),
    technique='TLA+ reference machine (LogicalTime) + TLC trace validation of NRT and cosched-RT executions of generated routine programs',
    engine='LogicalTime',
)
