"""C20 - definition builds are deterministic, isolated and leave no residue.

Decided by: Build.tla (protocol model: lock, global context, unit attachment; invariants CtxClearedWhenIdle, NoResidue,
Isolation, LockFreeAfterFailure, Exclusive, Deterministic; two crippled configurations must violate them) and
TraceBuild.tla (observations of real builds - sequential histories with failing builds, real threads with forced
overlaps, fresh processes with different hash seeds, RT and NRT mode, repeated builds under garbage collection -
judged with Build.tla's predicates)."""
import copy
import random

from harness import synthprog as sp
from harness.common import MachineryError

DRIVER = 'drivers/c20_build.py'
ACTIONS = ('Annotate', 'Begin', 'Acquire', 'SetCtx', 'Create1', 'Create2', 'Check', 'ClearOk', 'ClearFail', 'Release', 'Orphan')


def fail_variants(prog, rnd):
    """the same program (definition names are reused across different programs, as in live coding) made to fail in the graph function, in the input checks, in the writer"""
    out = {}
    p = copy.deepcopy(prog)
    k = rnd.randint(1, len(p['ins']) - 1)
    p['ins'].insert(k, dict(op='raise', cls='', sel='', rate=0, nout=1, a=[]))
    # later instructions refer to results by position: shift references past the inserted instruction
    for i in p['ins'][k + 1:]:
        for o in i['a']:
            if o['k'] == 'r' and o['i'] > k:
                o['i'] += 1
    out['func'] = p
    p = copy.deepcopy(prog)
    p['ins'].append(sp.Gen('LFNoise0', 1, [sp.C(3)]))
    p['ins'].append(sp.Gen('Out', 2, [sp.C(0), sp.R(len(p['ins']))], 0))     # control rate into an audio output
    out['check'] = p
    p = copy.deepcopy(prog)
    p['ins'].insert(len(p['ins']) - 1, dict(op='raise', cls='', sel='', rate=0, nout=1, a=[]))
    out['late'] = p             # fails after every unit (width-first ones included) has been created
    p = copy.deepcopy(prog)
    p['name'] = 'n' * 300                                                    # cannot be written as a pascal string
    out['write'] = p
    return out


def reference_programs(ctx, rnd, n):
    progs = [sp.random_program(rnd, rnd.randint(6, 40), 'ref%d' % (i % 3), mce=True, wf=True) for i in range(n)]
    # definitions with width-first units (local buffers, FFT chains, seeding): state they leave behind - in a successful
    # or a failing build - must not reach any later build ("arbitrary earlier use of the library")
    for i in range(max(2, n // 4)):
        ins = [sp.Gen('SinOsc', 2, [sp.C(440), sp.C(0)]), sp.Gen('LocalBuf', 0, [sp.C(1), sp.C(rnd.choice([64, 128, 512]))]),
               sp.Gen('ClearBuf', 0, [sp.R(2)]), sp.Gen('FFT', 1, [sp.R(2), sp.R(1), sp.C(1), sp.C(0), sp.C(1), sp.C(0)]),
               sp.Gen('PV_MagSquared', 1, [sp.R(4)]), sp.Gen('IFFT', 2, [sp.R(5), sp.C(0), sp.C(0)]),
               sp.Gen('RandSeed', 1, [sp.C(1), sp.C(1000 + i)]), sp.Gen('WhiteNoise', 2, []),
               sp.Bin('*', sp.R(6), sp.R(8))]
        if i % 2:
            ins.insert(2, sp.Gen('SetBuf', 0, [sp.R(2), sp.C(0), sp.C(2), sp.C(1), sp.C(2)]))
            for k in ins[3:]:
                for o in k['a']:
                    if o['k'] == 'r' and o['i'] > 2:
                        o['i'] += 1
        ins.append(sp.Gen('Out', 2, [sp.C(0), sp.R(len(ins))], 0))
        progs.append(sp.Prog('wf%d' % i, [], ins))
    # plus graphs with many consumers per unit (descendant sets bigger than one: scheduling order matters)
    for i in range(n // 2):
        ins = [sp.Gen('SinOsc', 2, [sp.C(440), sp.C(0)]), sp.Gen('WhiteNoise', 2, [])]
        for k in range(rnd.randint(6, 14)):
            ins.append(sp.Bin(rnd.choice(['*', 'min', '-', 'pow']), sp.R(rnd.choice([1, 2])), sp.R(rnd.randint(1, len(ins)))))
        outs = [sp.R(k) for k in range(3, len(ins) + 1)]
        rnd.shuffle(outs)
        ins.append(sp.Gen('Out', 2, [sp.C(0)] + outs[:8], 0))
        progs.append(sp.Prog('fan%d' % (i % 2), [], ins))
    return progs


HOWS_OBJ = ['add', 'store', 'new_from']
HOWS_BYTES = ['read_stream', 'descread', 'libread']


def use_step(rnd, progs, special):
    """build a definition, then drive one of the OTHER users of the build lock / global context with it: the read-back
    done by add / store / new_from (a definition the reader can or cannot re-create), or the reader on bytes / files
    that are valid, truncated anywhere, name an unknown class, carry an impossible rate or duplicate control names"""
    x = rnd.random()
    if x < 0.3:
        i = rnd.randrange(len(progs))
        return dict(k='use', prog=progs[i], key='k%d' % i, how=rnd.choice(HOWS_OBJ), variant='valid')
    if x < 0.5:
        return dict(k='use', prog=special['unknown'], key='unknown', how=rnd.choice(HOWS_OBJ), variant='unknown')
    how = rnd.choice(HOWS_BYTES)
    if x < 0.6:
        return dict(k='use', prog=special['dup'], key='dup', how=how, variant='dupname')
    i = rnd.randrange(len(progs))
    return dict(k='use', prog=progs[i], key='k%d' % i, how=how,
                variant=rnd.choice(['valid', 'trunc', 'trunc', 'trunc', 'badclass', 'badrate']), cut=rnd.randint(0, 999))


def special_programs():
    unknown = sp.Prog('unk', [sp.Ctl('freq', 1, 440)],
                      [sp.Gen('VerifUnknownUGen', 2, [sp.Pm(1)]), sp.Gen('SinOsc', 2, [sp.R(1), sp.C(0)]),
                       sp.Gen('Out', 2, [sp.C(0), sp.R(2)], 0)])
    dup = sp.Prog('dup', [sp.Ctl('ka', 1, 1), sp.Ctl('kb', 1, 2)],
                  [sp.Gen('SinOsc', 2, [sp.Pm(1), sp.Pm(2)]), sp.Gen('Out', 2, [sp.C(0), sp.R(1)], 0)])
    return dict(unknown=unknown, dup=dup)


def seq_scenario(rnd, sid, progs, variants, special=None):
    steps = []
    for _ in range(rnd.randint(8, 20)):
        x = rnd.random()
        i = rnd.randrange(len(progs))
        if x < 0.4:
            steps.append(dict(k='build', prog=progs[i], key='k%d' % i))
        elif x < 0.6:
            kind = rnd.choice(['func', 'late', 'check', 'write'])
            steps.append(dict(k='build', prog=variants[i][kind], key='k%d!%s' % (i, kind)))
            steps.append(dict(k='probe'))
            steps.append(dict(k='build', prog=progs[i], key='k%d' % i))
        elif x < 0.86 and special is not None:
            # the other entry points, each followed by the residue probe and by a reference build
            steps.append(use_step(rnd, progs, special))
            steps.append(dict(k='probe'))
            steps.append(dict(k='build', prog=progs[i], key='k%d' % i))
        elif x < 0.9:
            # in-place use of a finished definition's public variants / metadata dictionaries, then the same program
            # and another one again: their bytes must not move
            steps.append(dict(k='build', prog=progs[i], key='k%d' % i))
            steps.append(dict(k='annotate', n=rnd.randint(0, 50)))
            steps.append(dict(k='build', prog=progs[i], key='k%d' % i))
            j = rnd.randrange(len(progs))
            steps.append(dict(k='build', prog=progs[j], key='k%d' % j))
        elif x < 0.93:
            steps.append(dict(k='junk', n=rnd.randint(100, 5000)))
        elif x < 0.95:
            steps.append(dict(k='desc', prog=progs[i]))
        else:
            steps.append(dict(k='gccollect'))
    steps.append(dict(k='probe'))
    return dict(id=sid, kind='seq', steps=steps)


def thread_scenario(rnd, sid, progs, variants, nthreads, special=None):
    ths = []
    for t in range(nthreads):
        i = rnd.randrange(len(progs))
        x = rnd.random()
        if x < 0.6:
            first = dict(k='build', prog=progs[i], key='k%d' % i)
        else:
            kind = rnd.choice(['func', 'late', 'check'])
            first = dict(k='build', prog=variants[i][kind], key='k%d!%s' % (i, kind))
        j = rnd.randrange(len(progs))
        second = dict(k='build', prog=progs[j], key='k%d' % j)
        if special is not None and rnd.random() < 0.4:
            second = use_step(rnd, progs, special)      # a read-back competing for the lock with the other threads
        ths.append([first, dict(k='probe'), second, dict(k='probe')])
    sync = []
    for t in range(nthreads - 1):
        n = len(ths[t][0]['prog']['ins'])
        sync.append([t, rnd.randint(1, max(1, n - 1)), t + 1])
    return dict(id=sid, kind='threads', threads=ths, sync=sync)


def race_scenario(rnd, sid, progs, special):
    """a build racing with a READ-BACK (add / store / new_from / reader on bytes or files) of a definition built
    beforehand: the builder waits inside its graph function until the other thread has announced its read-back;
    or two read-backs side by side"""
    pre = []
    for k in range(2):
        i = rnd.randrange(len(progs))
        p = copy.deepcopy(progs[i])
        p['name'] = 'pre%d' % k
        pre.append(dict(prog=p, key='pre%d:k%d' % (k, i)))
    if rnd.random() < 0.3:
        p = copy.deepcopy(special['unknown'])
        p['name'] = 'pre1'
        pre[1] = dict(prog=p, key='pre1:unknown')

    def rb(k):
        how = rnd.choice(HOWS_OBJ + HOWS_BYTES)
        var = 'valid' if how in HOWS_OBJ else rnd.choice(['valid', 'valid', 'trunc', 'badclass'])
        return dict(k='readback', pre=k, how=how, variant=var, cut=rnd.randint(0, 999))
    i, j = rnd.randrange(len(progs)), rnd.randrange(len(progs))
    if rnd.random() < 0.75:
        ths = [[dict(k='build', prog=progs[i], key='k%d' % i), dict(k='build', prog=progs[j], key='k%d' % j)],
               [rb(rnd.randrange(2)), dict(k='build', prog=progs[j], key='k%d' % j), rb(rnd.randrange(2))]]
        sync = [[0, rnd.randint(1, max(1, len(progs[i]['ins']) - 1)), 1]]
    else:
        ths = [[rb(0), dict(k='build', prog=progs[i], key='k%d' % i)], [rb(1), rb(0), dict(k='build', prog=progs[j], key='k%d' % j)]]
        sync = []
    return dict(id=sid, kind='threads', threads=ths, sync=sync, pre=pre)


def run(ctx):
    thorough = not ctx.quick
    # 1. protocol model; six crippled protocols must break the invariants (anti-vacuity).  The crippled runs and the
    #    program enumeration for the repeated-build scenarios go side by side (own TLC work dirs: Ctx.model_check shares one
    #    per module), the full model with its coverage guard runs in the foreground
    import os
    import shutil
    import threading
    from concurrent.futures import ThreadPoolExecutor
    from harness import tlc
    lock_ = threading.Lock()

    def crippled(cfg, inv):
        wd = os.path.join(ctx.work, 'm_' + cfg)
        r_ = tlc.run('Build', cfg, wd, workers=2, timeout=600)
        shutil.rmtree(wd, ignore_errors=True)
        with lock_:
            ctx.cov['model_runs'].append(dict(module='Build', cfg=cfg, label='crippled protocol must violate ' + inv,
                                              **r_.summary()))
            ctx.cov['states'] += r_.distinct
            ctx.cov['transitions'] += r_.generated
        if inv not in r_.violated:
            raise MachineryError('%s: expected violation of %s, got %s' % (cfg, inv, r_.violated))
    ex = ThreadPoolExecutor(max_workers=8)
    futs = [ex.submit(crippled, cfg, inv) for cfg, inv in (
        ('Build_noclear.cfg', 'NoResidue'), ('Build_noreadclear.cfg', 'NoResidue'), ('Build_ctxearly.cfg', 'Isolation'),
        ('Build_clearlate.cfg', 'Isolation'), ('Build_sharedextras.cfg', 'Deterministic'), ('Build_nolock.cfg', 'Deterministic'))]
    # programs with dead code next to fusable sums (slice dfS / df3 of SynthGraphGen) for the repeated-build scenarios
    frep = ex.submit(lambda: sp.tlc_programs(ctx, 'df3' if thorough else 'dfS', timeout=1500, workers=4,
                                             label='programs with dead code next to fusable sums'))
    r = ctx.model_check('Build', 'Build_thorough.cfg' if thorough else 'Build.cfg', require_cover=ACTIONS, timeout=1500,
                        workers=8)
    ctx.expect_ok(r, 'Build protocol')
    for f_ in futs:
        f_.result()
    rprogs = frep.result()
    ex.shutdown()

    rnd = random.Random(ctx.seed)
    nref = 24 if thorough else 10
    progs = reference_programs(ctx, rnd, nref)
    variants = [fail_variants(p, rnd) for p in progs]
    special = special_programs()
    sid = 0
    scen = []
    for _ in range(400 if thorough else 96):
        scen.append(seq_scenario(rnd, sid, progs, variants, special))
        sid += 1
    for _ in range(240 if thorough else 80):
        scen.append(thread_scenario(rnd, sid, progs, variants, rnd.choice([2, 2, 3]), special))
        sid += 1
    for _ in range(160 if thorough else 48):
        scen.append(race_scenario(rnd, sid, progs, special))
        sid += 1
    # repeated builds of TLC-enumerated programs with dead code next to fusable sums (slice dfS / df3 of SynthGraphGen):
    # which rewrite fires must not depend on the order in which a dead unit releases its inputs
    if not thorough:
        rprogs = rnd.sample(rprogs, min(len(rprogs), 1400))
    for i, p in enumerate(rprogs):
        p['name'] = 'df'                      # one name: nothing but the graph function distinguishes them
    nrep = 8 if thorough else 6
    rper = max(1, (len(rprogs) + 31) // 32)
    for i in range(0, len(rprogs), rper):
        scen.append(dict(id=sid, kind='repeat', progs=rprogs[i:i + rper], keys=['df%d' % k for k in range(i, i + len(rprogs[i:i + rper]))],
                         n=nrep, seed=ctx.seed + i))
        sid += 1
    scen_by_id = {s_['id']: s_ for s_ in scen}
    per = max(1, (len(scen) + 15) // 16)
    rnd.shuffle(scen)
    inputs = [dict(scenarios=scen[i:i + per]) for i in range(0, len(scen), per)]
    # 2. the same reference programs in fresh processes: hash seeds, RT mode, and the GC stress
    allseq = dict(id=0, kind='seq', steps=[dict(k='build', prog=p, key='k%d' % i) for i, p in enumerate(progs)]
                  + [dict(k='build', prog=variants[i][kind], key='k%d!%s' % (i, kind))
                     for i in range(len(progs)) for kind in ('func', 'late', 'check', 'write')] + [dict(k='probe')]
                  + [dict(k='build', prog=p, key='k%d' % i) for i, p in enumerate(progs)]      # rebuild everything
                  + [st for i, p in enumerate(progs) for st in (dict(k='build', prog=p, key='k%d' % i),
                                                                 dict(k='annotate', n=i))]      # annotate every one
                  + [dict(k='build', prog=p, key='k%d' % i) for i, p in enumerate(progs)]      # and rebuild again
                  + [st for how in HOWS_OBJ for st in (dict(k='use', prog=progs[0], key='k0', how=how, variant='valid'),
                                                       dict(k='probe'),
                                                       dict(k='use', prog=special['unknown'], key='unknown', how=how,
                                                            variant='unknown'), dict(k='probe'),
                                                       dict(k='build', prog=progs[0], key='k0'))]
                  + [st for how in HOWS_BYTES for var, cut in (('valid', 0), ('trunc', 3), ('trunc', 400), ('trunc', 990),
                                                               ('badclass', 0), ('badrate', 0))
                     for st in (dict(k='use', prog=progs[0], key='k0', how=how, variant=var, cut=cut), dict(k='probe'),
                                dict(k='build', prog=progs[0], key='k0'))]
                  + [st for how in HOWS_BYTES for st in (dict(k='use', prog=special['dup'], key='dup', how=how,
                                                              variant='dupname'), dict(k='probe'))])
    outs = ctx.run_drivers(DRIVER, inputs, mode='nrt')
    extra = []
    for hs in (['0', '1', '2', '3', '12345', 'random', 'random'] if thorough else ['1', '2', 'random']):
        extra.append(('hashseed=' + hs, ctx.run_driver(DRIVER, dict(scenarios=[allseq]), mode='nrt', hashseed=hs)))
    # RT mode needs a free UDP port in 57120-57129; other checks running RT processes on the same machine can exhaust
    # them: retry, and if the environment still has no port, go on without the RT configuration (noted in the evidence)
    import time
    for attempt in range(4):
        try:
            extra.append(('rt', ctx.run_driver(DRIVER, dict(scenarios=[allseq]), mode='rt', hashseed='7')))
            break
        except MachineryError as e:
            if 'Address already in use' not in str(e) and 'port range' not in str(e):
                raise
            time.sleep(5 + 5 * attempt)
    else:
        ctx.cov['rt_mode'] = 'skipped: no free UDP port for sc3.init(rt) after 4 attempts'
    gcn = 3000 if thorough else 800
    gcprog = sp.Prog('gcp', [sp.Ctl('a', 1, 1)], [sp.Gen('SinOsc', 2, [sp.Pm(1), sp.C(0)]),
                                                   sp.Gen('Out', 2, [sp.C(0), sp.R(1)], 0)])
    gco = ctx.run_driver(DRIVER, dict(scenarios=[dict(id=0, kind='gc', n=gcn, prog=gcprog)]), mode='nrt')

    traces = []
    det = {}
    tid = 0
    scen_of = {}
    for o in outs:
        for t in o['traces']:
            scen_of[tid] = scen_by_id[t['id']]
            t['id'] = tid
            tid += 1
            traces.append(t)
            for e in t['ev']:
                if e['e'] == 'exit':
                    det.setdefault(e['f'], set()).add(('histories', e['raised'], e['sha']))
    for label, o in extra:
        for t in o['traces']:
            t['id'] = tid
            scen_of[tid] = dict(kind='seq', label=label)
            tid += 1
            traces.append(t)
            for e in t['ev']:
                if e['e'] == 'exit':
                    det.setdefault(e['f'], set()).add((label, e['raised'], e['sha']))
    for t in gco['traces']:
        t['id'] = tid
        scen_of[tid] = dict(kind='gc', n=gcn)
        tid += 1
        traces.append(t)
    for key in sorted(det):
        evs = [dict(e='det', t=0, b=0, f=key, mine=0, locked=0, raised=r_, err=lab, sha=sha, lost=0, ctx_none=0,
                    lock_free=0, orphan=0, n=0) for lab, r_, sha in sorted(det[key])]
        traces.append(dict(id=tid, kind='det', ev=evs))
        scen_of[tid] = dict(kind='det', key=key, results=sorted(det[key]))
        tid += 1
    verdicts = ctx.validate('TraceBuild', 'TraceBuild.cfg', traces, timeout=900, env={'JAVA_TOOL_OPTIONS': sp.JVM_OPTS})
    nover = 0
    for t in traces:
        if t['kind'] == 'repeat':
            ctx.nontrivial(t['ev'][:12])
        elif t['kind'] == 'threads':
            # non-trivial: some thread announced its attempt while another one was inside its function
            inside = set()
            hot = False
            for e in t['ev']:
                if e['e'] == 'enter':
                    inside.add(e['t'])
                elif e['e'] in ('leave', 'exit'):
                    inside.discard(e['t'])
                elif e['e'] in ('attempt', 'rattempt') and inside - {e['t']}:
                    hot = True
            if hot:
                nover += 1
                ctx.nontrivial(t['ev'])
        elif t['kind'] == 'seq' and any((e['e'] in ('exit', 'read')) and e['raised'] for e in t['ev']):
            ctx.nontrivial(t['ev'])
        elif t['kind'] in ('det', 'gc'):
            ctx.nontrivial(t['ev'])
        v = verdicts[t['id']]
        if v is None:
            continue
        at, why = v
        if why.startswith('recorder:'):
            raise MachineryError('trace recorder inconsistency: %s at %d in %s' % (why, at, t['ev'][:at]))
        e = t['ev'][at - 1]
        sc = scen_of[t['id']]
        rp = dict(kind=t['kind'], why=why, at=at, events=t['ev'][:at + 1] if len(t['ev']) < 200 else t['ev'][max(0, at - 20):at + 1])
        if 'steps' in sc or 'threads' in sc or 'progs' in sc:
            rp['scenario'] = sc
        elif t['kind'] == 'gc':
            rp['scenario'] = dict(id=0, kind='gc', n=sc['n'], prog=gcprog)
        else:
            rp['results'] = sc
        ctx.violation('build:%s:%s' % (t['kind'], why), '%s trace: %s at event %d (%s %s %s)'
                      % (t['kind'], why, at, e['e'], e['f'], e['err']), rp)
    ctx.cov['evaluations'] = len(traces)
    ctx.cov['scenarios'] = dict(sequential=sum(1 for s in scen if s['kind'] == 'seq'),
                                threaded=sum(1 for s in scen if s['kind'] == 'threads'),
                                repeated=dict(programs=len(rprogs), rebuilds_each=nrep),
                                threaded_with_real_overlap=nover, processes=len(extra) + 1, programs_compared=len(det),
                                gc_builds=gcn)
    ex = [t for t in traces if t['kind'] == 'threads'][:1]
    if ex:
        ctx.sample(dict(threaded_trace=[[e['e'], e['t'], e['f'], e['mine'], e['locked'], e['raised']] for e in ex[0]['ev']]))
    ctx.sample(dict(det=[scen_of[t['id']] for t in traces if t['kind'] == 'det'][:2]))
    ctx.cov['exhaustive'] = False
    ctx.cov['rule'] = ('seeded sequential histories (successful builds, builds failing in the function / input check / '
                       'writer, probes after every failure, allocation noise, description reads), real threads whose first '
                       'builds are forced to overlap (B attempts while A is inside its function), the reference programs in '
                       'fresh processes with other hash seeds and in RT mode, %d repeated builds under gc; non-trivial = '
                       'threaded trace with an attempt during another build / history with a failing build / comparison trace'
                       % gcn)
    ctx.assumptions += [
        'thread interleavings are forced only at instruction boundaries of the graph function (plus OS scheduling); '
        'the exhaustive interleaving analysis is the Build.tla model',
        'a unit "created outside any build" is created while no thread is building',
        'BaseException (KeyboardInterrupt) inside a build is not exercised',
    ]


def replay(ctx, rp):
    r = rp['replay']
    if 'scenario' not in r:
        raise MachineryError('this replay file records a comparison across processes; re-run the tier instead')
    sc = dict(r['scenario'])
    sc['id'] = 0
    o = ctx.run_driver(DRIVER, dict(scenarios=[sc]), mode='nrt')
    traces = o['traces']
    for i, t in enumerate(traces):
        t['id'] = i
    verdicts = ctx.validate('TraceBuild', 'TraceBuild.cfg', traces)
    ctx.cov['evaluations'] = 1
    ctx.sample(dict(kind=sc['kind'], verdict=verdicts[0]))
    v = verdicts[0]
    if v is not None:
        ctx.violation('build:%s:%s' % (sc['kind'], v[1]), 'replayed: %s at event %d' % (v[1], v[0]),
                      dict(kind=sc['kind'], why=v[1], at=v[0], scenario=sc))


MANIFEST = dict(
    category='model_checking',
    text=('Build.tla models the build protocol (global lock, global context, units attach to the context current at creation, clear on success and on failure, orphan units between builds) for 2 threads x 2 attempts (thorough 3 x 1) with outcomes ok / raise in function / raise in check; TLC checks CtxClearedWhenIdle, NoResidue, Isolation, LockFreeAfterFailure, Exclusive, Deterministic and requires two crippled protocols (context not cleared on failure, no lock) to violate them. TraceBuild.tla judges recorded executions of the real code with the same predicates: sequential histories mixing good builds with builds failing in the function, the input check or the writer (probe after each: context None, lock free, a unit created now belongs to no definition, next build equals the reference), real threads forced to overlap (B attempts while A is inside its graph function), the same programs in fresh processes with other PYTHONHASHSEEDs and in RT mode (equal program => equal bytes and equal outcome everywhere), and repeated builds under garbage collection.'),
    note=('Thread interleavings on the real code are forced at instruction boundaries of the graph function only; exhaustive interleaving is the model\'s job. "Outside any build" is read as "while no thread is building". BaseException inside a build, nested builds and multi-process sharing are not exercised. Observations inside the function use main._current_synthdef and Lock.locked() (no source hooks).'),
    technique='TLA+ protocol model of the build lock / global context checked by TLC (with two crippled variants that must '
              'fail) + trace validation of sequential, threaded (forced overlap), cross-process and GC-stress builds',
    design_ref='DESIGN.md section 3 / C20',
    engine='Build',
)
