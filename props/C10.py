"""C10 - real-time and non-real-time modes run the same program identically; seeded runs are deterministic.

Every program (logically race-free by construction: tempo changes, pauses and resumptions stay inside one
clock, children inherit it) is run in fresh processes: twice under NrtMain (second time under another
PYTHONHASHSEED) and three times under RtMain + controlled scheduler with different lateness/interleaving seeds.
TLC validates each run against the LogicalTime reference machine (TraceTime) and compares the runs with
each other (TracePair): per-routine values incl. random draws mapped to <seed, index>, (logical time, bundle)
pairs, byte-identical NRT scores."""
import random

from props import _time as T

FEATS = ('send', 'tempo', 'spawn', 'pause', 'rand', 'raise', 'cond', 'stop', 'yr')


def sig(mode, tr, at, why):
    ops = {i['op'] for b in tr['prog']['routines'].values() for i in b}
    feat = '+'.join(sorted(ops & {'T', 'TB', 'X', 'Z', 'K', 'KC', 'D', 'W', 'G'})) or 'plain'
    return 'modes:%s:%s:%s' % (mode, why, feat)


def run(ctx):
    thorough = not ctx.quick
    if thorough:
        from props.C05 import design
        design(ctx)
    rnd = random.Random(ctx.seed + 13)
    n = 4000 if thorough else 300
    progs = [T.gen_program(rnd, i, cls='B', feats=FEATS) for i in range(n)]
    nr = n // 3
    progs += [T.gen_rand_program(rnd, n + i) for i in range(nr)]
    n += nr
    nt = n // 5
    progs += [T.gen_tie_program(rnd, n + i) for i in range(nt)]
    n += nt
    # S->C: the bounded program space of TimeModel, enumerated by TLC itself
    sp = spec_programs(ctx, 'TimeModelExport_thorough.cfg' if thorough else 'TimeModelExport.cfg')
    for k, p in enumerate(sp):
        progs.append(dict(p, id=n + k, tail=0, cls='B', funcs=list(p.get('funcs', []))))
    n += len(sp)
    ctx.cov['spec_enumerated_programs'] = len(sp)
    nrt1 = T.run_mode(ctx, progs, 'nrt', hashseed='0')
    nrt2 = T.run_mode(ctx, progs, 'nrt', hashseed='12345')
    rts = []
    for k in range(3):
        ps = [dict(p, strategy=dict(kind='pct' if k == 2 else 'random', seed=ctx.seed * 31 + 1000 * k + p['id'],
                                    p_stay=0.5 * (k % 2))) for p in progs]
        rts.append(T.run_mode(ctx, ps, 'rt'))
    ctx.cov['evaluations'] += 5 * n
    # each run against the reference machine
    allt = []
    for j, runs in enumerate([nrt1] + rts):
        for t in runs:
            allt.append(dict(t, id=t['id'] + j * 1_000_000))
    v = T.validate(ctx, allt)
    byid = {p['id']: p for p in progs}
    for t in allt:
        r = v[t['id']]
        if r is not None:
            at, why = r
            ctx.violation(sig(t['mode'], t, at, why),
                          '%s run of a program deviates from the logical-time reference (%s) at event %d' % (t['mode'], why, at),
                          dict(kind='time-program', mode=t['mode'], program=t['prog'], rejected_at=at, why=why,
                               events=t['ev'][:at + 1], score=t.get('score')))
    # the runs against each other
    m1 = {t['id']: t for t in nrt1}
    m2 = {t['id']: t for t in nrt2}
    mr = [{t['id']: t for t in r} for r in rts]
    pairs = []
    for p in progs:
        i = p['id']
        if T.nontrivial(p):
            ctx.nontrivial([p['routines'], p['main'], p['clocks']])
        pairs.append(dict(id=i, names=sorted(p['routines']), nrt=m1[i]['ev'], rts=[m[i]['ev'] for m in mr],
                          score=m1[i]['score'], shas=[m1[i]['rawsha'], m2[i]['rawsha']]))
    pv = ctx.validate('TracePair', 'TracePair.cfg', pairs)
    for p in progs:
        r = pv[p['id']]
        if r is not None:
            t = dict(prog=p)
            ctx.violation(sig('pair', t, 1, r[1]), 'NRT and RT runs of the same program differ (%s)' % r[1],
                          dict(kind='pair', program=p, why=r[1], nrt=m1[p['id']]['ev'], rt=[m[p['id']]['ev'] for m in mr],
                               score=m1[p['id']]['score']))
    ctx.sample(dict(program=progs[0], nrt=m1[0]['ev'][:10], rt=mr[0][0]['ev'][:10]))
    ctx.cov['rule'] = ('%d seeded random race-free routine programs (yields, sends, same-clock tempo changes, pause/resume, seeded '
                       'random draws with generator inheritance, raising bodies) x {2 NRT processes with different hash seeds, 3 RT '
                       'runs under cosched with different lateness/interleaving seeds}; non-trivial = has a tempo change, pause, '
                       'seed or nested send; distinct by program text' % n)
    ctx.assumptions += ['programs with logical races (two clocks touching the same routine/tempo at one instant) are excluded by construction',
                        'unseeded randomness is excluded; draws are compared as <seed, index> of CPython random.Random(seed)',
                        'RT runs use virtual time at lock granularity']


def spec_programs(ctx, cfg):
    import json
    from harness import tlc
    r = tlc.run('TimeModelExport', cfg, ctx.work, workers=1, timeout=900)
    if not r.ok:
        from harness.common import MachineryError
        raise MachineryError('TimeModelExport failed: %s' % r.output[-1000:])
    out = []
    for line in r.output.splitlines():
        if line.startswith('<<"PROG"'):
            out.append(json.loads(tlc.parse_value(line)[1]))
    ctx.cov['states'] += r.distinct
    ctx.cov['transitions'] += r.generated
    return out


def replay(ctx, rp):
    from props.C05 import replay as r5
    if rp['replay'].get('kind') == 'pair':
        p = dict(rp['replay']['program'], id=0)
        a = T.run_mode(ctx, [p], 'nrt', nproc=1)
        b = T.run_mode(ctx, [dict(p, strategy=dict(kind='random', seed=ctx.seed))], 'rt', nproc=1)
        pv = ctx.validate('TracePair', 'TracePair.cfg', [dict(id=0, names=sorted(p['routines']), nrt=a[0]['ev'], rts=[b[0]['ev']],
                                                              score=a[0]['score'], shas=[a[0]['rawsha']])])
        ctx.cov['evaluations'] = 2
        ctx.sample(dict(verdict=pv[0]))
        if pv[0] is not None:
            ctx.violation(sig('pair', dict(prog=p), 1, pv[0][1]), 'replayed: %s' % pv[0][1], rp['replay'])
    else:
        r5(ctx, rp)


MANIFEST = dict(
    category='model_checking',
    text=('Generated race-free routine programs (clocks, tempo changes, pause/resume, seeded random draws, sends) are executed by '
          'the real library twice in NRT (different hash seeds) and three times in RT under a controlled scheduler with different '
          'lateness; TLC validates every run against the LogicalTime reference machine and compares the runs pairwise (values, '
          '(logical time, bundle) pairs, byte-identical scores).'),
    note=('Trusted: TLC, cosched, CPython random as the reference stream for seeded draws. Logical races and unseeded randomness are '
          'outside the property; conditions/flow variables are exercised under C11.'),
    technique='TLA+ reference machine + TLC trace validation of NRT and RT runs and TLC pairwise comparison (TracePair)',
    engine='LogicalTime',
)
