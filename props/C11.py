"""C11 - routines, conditions and flow variables obey their state machine.

Decided by: Routine.tla - an interpreter of the public API of Routine / Condition / FlowVar over script
bodies (atomic external calls, recursive through nested calls) with the property as L1 predicates
(transition table, NextReturnsYielded, DoneRaisesStop, PausedRaises, SelfOpsRefused, StackRestored at rest
and at every nested return, wake-up laws) checked exhaustively by TLC over all bodies of bounded length from
several instruction vocabularies; binding: exhaustive short and random long API histories, and TLC-simulated
behaviours of the spec, executed on the real classes (NRT mode, bodies built from the scripts) and validated
event by event by TraceRoutine.tla."""
import itertools
import random

from harness.common import MachineryError
from harness.c11util import model_check_in

DRIVER = 'drivers/c11_routine.py'
KNOWN_DUP = 'routine:nrt-duplicate-schedule'


def I(op, t='', v=0, c=0):
    return dict(op=op, t=t, v=v, c=c)


def P(code, plain=0, inv=1):
    return dict(plain=plain, inv=inv, code=code)


def E(op, t='', v=0):
    return dict(op=op, t=t, v=v)


def T():
    return I('try')


def X():
    return I('except')


def F():
    return I('finally')


def EX():
    return I('endx')


def EF():
    return I('endf')


# ---- program sets for the exhaustive histories (each exercises a part of the vocabulary) ----
PROGSETS = {
    'flow': dict(r1=P([I('yn', v=8), I('yv', v=3), I('yn', v=2)]),
                 r2=P([I('yn', v=4), I('yar', v=4)])),
    'fail': dict(r1=P([I('yn', v=8), I('raise')]),
                 r2=P([I('alw', v=2)], inv=0)),
    # failures that are BaseExceptions but not Exceptions: same rule (Done, StopStream afterwards, stack restored)
    'failbase': dict(r1=P([I('yn', v=8), I('raise', v=2)]),
                     r2=P([I('next', 'r1'), I('yn', v=1), I('next', 'r1', c=1), I('raise', v=4)])),
    'failbase2': dict(r1=P([I('raise', v=3)], plain=1, inv=0),
                      r2=P([T(), I('next', 'r1'), X(), I('yv', v=2), EX(), I('raise', v=1)])),
    'plain': dict(r1=P([I('next', 'r2', c=1)], plain=1, inv=0),
                  r2=P([I('yn', v=1), I('yv', v=2)])),
    'nest': dict(r1=P([I('next', 'r2'), I('yn', v=8), I('next', 'r2', c=1), I('yn', v=8), I('next', 'r2')]),
                 r2=P([I('yn', v=4), I('raise')])),
    'nestops': dict(r1=P([I('stop', 'r2'), I('yn', v=8), I('reset', 'r2'), I('next', 'r2', c=1), I('pause', 'r2'),
                          I('next', 'r2', c=1), I('yv', v=1), I('resume', 'r2'), I('play', 'r2')]),
                    r2=P([I('yn', v=4), I('yn', v=4), I('alw', v=6)])),
    'selfops': dict(r1=P([I('stop', 'r1', c=1), I('pause', 'r1', c=1), I('reset', 'r1', c=1), I('yn', v=8),
                          I('play', 'r1', c=1), I('resume', 'r1', c=1), I('reset', 'r1')]),
                    r2=P([I('next', 'r1', c=1), I('stop', 'r1', c=1), I('yn', v=2)])),
    'reentry': dict(r1=P([I('yn', v=8), I('next', 'r1', c=1), I('yv', v=3), I('next', 'r2', c=1), I('yn', v=1)]),
                    r2=P([I('next', 'r1'), I('yn', v=2)])),
    'reentry2': dict(r1=P([I('next', 'r1')]),
                     r2=P([I('next', 'r2', c=1), I('next', 'r1', c=1)], plain=1, inv=0)),
    'cond': dict(r1=P([I('wait', 'c1'), I('yn', v=8), I('wait', 'c1'), I('yv', v=1)]),
                 r2=P([I('settest', 'c1', 1), I('signal', 'c1'), I('yn', v=4), I('settest', 'c1', 0), I('unhang', 'c1')])),
    # callable tests: returning false / true, raising (TypeError inside, ValueError, wrong arity)
    'condtest': dict(r1=P([I('wait', 'c1'), I('yn', v=8), T(), I('wait', 'c1'), X(), I('yv', v=1), EX(), I('yn', v=2)]),
                     r2=P([I('settest', 'c1', 4), I('signal', 'c1', c=1), I('yn', v=4), I('settest', 'c1', 3), I('signal', 'c1'),
                           I('yn', v=1), I('settest', 'c1', 5), I('signal', 'c1')])),
    'condnest': dict(r1=P([I('next', 'r2', c=1), I('yn', v=8), I('next', 'r2', c=1), I('yn', v=8)]),
                     r2=P([I('wait', 'c1'), I('yv', v=2), I('wait', 'c1')])),
    'flowvar': dict(r1=P([I('fget', 'f1'), I('yn', v=8), I('fget', 'f1'), I('yv', v=4)]),
                    r2=P([I('fset', 'f1', 5, c=1), I('yn', v=2), I('fset', 'f1', 6)])),
    'clock': dict(r1=P([I('yn', v=8), I('play', 'r2'), I('yn', v=8), I('stop', 'r2'), I('yn', v=4)]),
                  r2=P([I('yn', v=2), I('yn', v=2), I('yar', v=2)])),
    'embed': dict(r1=P([I('yn', v=8), I('embed', 'r2'), I('yv', v=5), I('embed', 'r2'), I('yn', v=1)]),
                  r2=P([I('yn', v=2), I('yv', v=3), I('yar', v=4)])),
    'embedfail': dict(r1=P([I('embed', 'r2'), I('yn', v=8), I('embed', 'r1'), I('yn', v=1)]),
                      r2=P([I('yn', v=2), I('wait', 'c1'), I('raise')])),
    # try / except BaseException / finally around yields: what clean-up code does when the routine is ended there
    'trycatch': dict(r1=P([T(), I('yn', v=8), X(), EX(), T(), I('yn', v=4), I('raise'), X(), I('yv', v=1), EX(), I('yn', v=2)]),
                     r2=P([T(), I('yn', v=2), F(), I('yv', v=3), EF(), I('yn', v=1)], inv=0)),
    'tryfin': dict(r1=P([T(), I('yn', v=8), I('yn', v=4), F(), I('stop', 'r2', c=1), I('stop', 'r1', c=1), EF(), I('yn', v=1)]),
                   r2=P([T(), I('yn', v=2), F(), I('stop', 'r1', c=1), I('stop', 'r2', c=1), I('raise'), EF()], inv=0)),
    'tryself': dict(r1=P([T(), I('yn', v=8), F(), I('reset', 'r1'), I('pause', 'r2', c=1), I('raise'), EF()]),
                    r2=P([T(), T(), I('yn', v=2), I('ret'), F(), I('pause', 'r2', c=1), I('yv', v=4), EF(), X(),
                          I('next', 'r1', c=1), EX(), I('yn', v=1)])),
    'trypend': dict(r1=P([T(), T(), I('yn', v=8), I('raise'), F(), I('yv', v=1), EF(), X(), I('yn', v=2), EX(),
                          T(), I('yar', v=4), F(), I('yv', v=5), EF()]),
                    r2=P([T(), I('next', 'r1'), I('raise'), X(), I('reset', 'r1'), EX(), T(), I('alw', v=3), F(),
                          I('pause', 'r1'), EF()], plain=1, inv=0)),
    'trycond': dict(r1=P([T(), I('wait', 'c1'), I('yn', v=8), F(), I('signal', 'c1'), I('embed', 'r2'), EF()]),
                    r2=P([T(), I('embed', 'r1'), X(), I('yn', v=2), EX(), I('yv', v=1)])),
    'three': dict(r1=P([I('next', 'r2', c=1), I('yn', v=8), I('next', 'r3', c=1)]),
                  r2=P([I('next', 'r3'), I('yn', v=2), I('next', 'r1', c=1)]),
                  r3=P([I('yn', v=1), I('stop', 'r1', c=1), I('raise')])),
}
QUICK_SETS = ('flow', 'fail', 'nest', 'nestops', 'selfops', 'reentry', 'cond', 'flowvar', 'plain', 'embed', 'embedfail',
              'trycatch', 'tryfin', 'tryself', 'trypend', 'trycond', 'failbase', 'failbase2', 'condtest')


def alphabet(prog):
    al = []
    for r in sorted(prog):
        al += [E(o, r) for o in ('next', 'play', 'pause', 'resume', 'stop', 'reset')]
    al += [E('next', 'r1', 5), E('signal', 'c1'), E('unhang', 'c1'), E('settest', 'c1', 1), E('fset', 'f1', 6), E('tick')]
    return al


def case(prog, hist, cls):
    return dict(prog=prog, conds=['c1'], flows=['f1'], hist=hist, cls=cls)


TEST_CALLS = [E('settest', 'c1', v) for v in (2, 3, 4, 5, 6)]


def exhaustive_cases(names, depth, reduced=False):
    out = []
    for nm in names:
        prog = PROGSETS[nm]
        al = alphabet(prog)
        if nm in ('cond', 'condtest'):      # conditions with callable tests (false, true, raising)
            al = al + TEST_CALLS
        if len(prog) > 2:
            al = [e for e in al if e['op'] in ('next', 'stop', 'reset', 'tick', 'play')]
        if reduced:     # 12 calls: everything on r1, next/stop/reset on r2, signal, value=, tick
            al = [e for e in al if (e['t'] == 'r1' and e['v'] == 0) or (e['t'] == 'r2' and e['op'] in ('next', 'stop', 'reset'))
                  or e['op'] in ('signal', 'fset', 'tick') or (nm == 'condtest' and e['op'] == 'settest' and e['v'] in (1, 4))]
        for h in itertools.product(al, repeat=depth):
            out.append(case(prog, list(h), 'exh:' + nm))
    return out


BODY_OPS = ('yn', 'yn', 'yn', 'yv', 'ret', 'raise', 'yar', 'alw', 'next', 'next', 'next', 'embed', 'embed', 'stop', 'pause', 'resume', 'reset',
            'play', 'wait', 'signal', 'unhang', 'settest', 'fget', 'fset')


def random_instr(rnd, names, me, plain, in_handler):
    op = rnd.choice(BODY_OPS)
    if plain and op in ('yn', 'yv', 'wait', 'fget', 'embed'):
        op = 'next'
    if op in ('yn', 'yar', 'alw'):
        return I(op, v=rnd.choice((0, 1, 2, 4, 8)))
    if op == 'yv':
        return I(op, v=rnd.randint(1, 9))
    if op == 'raise':
        return I(op, v=rnd.choice((0, 0, 0, 1, 2, 3, 4)))
    if op == 'ret':
        return I(op)
    if op in ('next', 'embed'):
        # clean-up code that restarts its own routine would recurse (stop -> clean-up -> next -> stop ...)
        t = rnd.choice([n for n in names if n != me] if in_handler else names)
        return I(op, t, c=rnd.choice((0, 1, 1)) if op == 'next' else 0)
    if op in ('stop', 'pause', 'resume', 'reset', 'play'):
        return I(op, rnd.choice(names), c=rnd.choice((0, 1, 1)))
    if op in ('wait', 'signal', 'unhang'):
        return I(op, rnd.choice(('c1', 'c1', 'f1')) if op != 'wait' else 'c1', c=rnd.choice((0, 1)) if op == 'signal' else 0)
    if op == 'settest':
        return I(op, 'c1', rnd.choice((0, 1, 1, 2, 3, 4, 5, 6)))
    if op == 'fget':
        return I(op, 'f1')
    return I('fset', 'f1', rnd.randint(1, 9), c=rnd.choice((0, 1)))


def random_block(rnd, names, me, plain, n, depth, in_handler, ptry):
    code = []
    while len(code) < n:
        if depth < 2 and rnd.random() < ptry:
            kind = rnd.choice((('except', 'endx'), ('finally', 'endf')))
            code += ([I('try')] + random_block(rnd, names, me, plain, rnd.randint(1, 3), depth + 1, in_handler, ptry)
                     + [I(kind[0])] + random_block(rnd, names, me, plain, rnd.randint(0, 3), depth + 1, True, ptry)
                     + [I(kind[1])])
        else:
            code.append(random_instr(rnd, names, me, plain, in_handler))
    return code


def random_prog(rnd):
    names = ['r1', 'r2', 'r3'][:rnd.choice((2, 2, 3))]
    ptry = rnd.choice((0.0, 0.0, 0.25, 0.4))
    prog = {}
    for r in names:
        plain = 1 if rnd.random() < 0.15 else 0
        prog[r] = P(random_block(rnd, names, r, plain, rnd.randint(1, 6), 0, False, ptry), plain=plain, inv=rnd.choice((0, 1)))
    return prog


def random_case(rnd, n, clocky):
    prog = random_prog(rnd)
    names = sorted(prog)
    hist = []
    for _ in range(n):
        x = rnd.random()
        if x < 0.35:
            hist.append(E('next', rnd.choice(names), rnd.choice((0, 0, 3))))
        elif x < 0.60:
            ops = ('stop', 'reset', 'pause', 'resume', 'play') if clocky else ('stop', 'reset', 'reset', 'pause', 'resume')
            hist.append(E(rnd.choice(ops), rnd.choice(names)))
        elif x < 0.75:
            hist.append(E('tick'))
        elif x < 0.85:
            hist.append(E(rnd.choice(('signal', 'unhang')), rnd.choice(('c1', 'f1'))))
        elif x < 0.93:
            hist.append(E('settest', 'c1', rnd.choice((0, 1, 1, 2, 3, 4, 5, 6))))
        else:
            hist.append(E('fset', 'f1', rnd.randint(1, 9)))
    return case(prog, hist, 'rand')


def run_cases(ctx, cases, mode='nrt'):
    """Run every case on the real classes in mode `mode` (fresh processes) -> traces (id = index)."""
    n = len(cases)
    per = max(1, (n + 31) // 32)
    inputs = [dict(ids=list(range(i, min(n, i + per))), mode=mode,
                   cases=[dict(prog=c['prog'], conds=c['conds'], flows=c['flows'], hist=c['hist']) for c in cases[i:i + per]])
              for i in range(0, n, per)]
    outs = ctx.run_drivers(DRIVER, inputs, mode=mode, timeout=900 if ctx.quick else 3600)
    traces = [t for o in outs for t in o['traces']]
    if len(traces) != n:
        raise MachineryError('driver returned %d traces for %d cases' % (len(traces), n))
    return traces


def nontrivial(t):
    """at least two external calls ran a body, or a body made a nested API call"""
    ran = sum(1 for e in t['ev'] if e['log'])
    return ran >= 2 or any(l['ev'] == 'call' for e in t['ev'] for l in e['log'])


def judge(ctx, cases, traces):
    """TLC decides: keyed queue semantics first; what is rejected only there but accepted with NRT's
    one-entry-per-scheduling queue is the known NRT duplicate-scheduling defect (owned by C05/C10)."""
    verdicts = ctx.validate('TraceRoutine', 'TraceRoutine.cfg', traces, timeout=1500, env={'VERIF_QMODE': 'keyed'})
    rej = [t for t in traces if verdicts[t['id']] is not None]
    v2 = ctx.validate('TraceRoutine', 'TraceRoutine.cfg', rej, timeout=1500, env={'VERIF_QMODE': 'multi'}) if rej else {}
    ctx.cov['traces_validated_against_impl'] -= len(rej)
    for t in traces:
        if nontrivial(t):
            ctx.nontrivial([t['prog'], [[e['op'], e['t'], e['v']] for e in t['ev']]])
        v = verdicts[t['id']]
        if v is None:
            continue
        at, why = v
        ev = t['ev'][at - 1]
        c = cases[t['id']]
        if why.startswith('machinery:'):
            raise MachineryError('trace %d event %d: %s' % (t['id'], at, why))
        if why.startswith('skip:'):         # clean-up code that keeps restarting itself: beyond what the spec follows
            ctx.cov['skipped'] = ctx.cov.get('skipped', 0) + 1
            continue
        rp = dict(kind='case', case=dict(prog=c['prog'], conds=c['conds'], flows=c['flows'], hist=c['hist'][:at]),
                  rejected_at=at, why=why, observed=t['ev'][max(0, at - 2):at])
        if t['id'] in v2 and v2[t['id']] != v:
            # the multi-entry queue explains the first mismatch: the known NRT defect; a later rejection under
            # that semantics is a different problem and is reported with its own clause
            ctx.violation(KNOWN_DUP, 'the clock queue holds a second entry for a routine that was already queued '
                          '(one entry per scheduling instead of replacing it)', rp)
            if v2[t['id']] is None:
                continue
            at, why = v2[t['id']]
            ev = t['ev'][at - 1]
            rp = dict(kind='case', case=dict(prog=c['prog'], conds=c['conds'], flows=c['flows'], hist=c['hist'][:at]),
                      rejected_at=at, why=why, observed=t['ev'][max(0, at - 2):at], qmode='multi')
        ctx.violation('routine:%s:%s' % (why, ev['op']),
                      '%s %s(%s) breaks %s at step %d: result %s, states %s, current thread %s'
                      % ('external', ev['op'], ev['t'], why, at, ev['res'], ev['states'], ev['cur']), rp)


def sim_cases(ctx, sel, num, depth, seed):
    from harness import tlc
    import os
    behs, r = tlc.simulate_behaviours('Routine', 'Routine_sim%d.cfg' % sel, os.path.join(ctx.work, 'sim%d' % sel), num=num,
                                      depth=depth, seed=seed)      # own work dir: simulations run concurrently
    ctx.cov['transitions'] += r.generated
    out = []
    for b in behs:
        prog = b[0][1]['prog']
        hist = [E(st['last']['op'], st['last']['t'], st['last']['v']) for _a, st in b[1:]]
        out.append(case(prog, hist, 'sim%d' % sel))
    return out


NWITNESS = 30


def witness_run(ctx, cfg, sub, must):
    """vacuity guard: TLC registers record that the situations in Routine!Witnesses were reached"""
    from harness import tlc
    r = model_check_in(ctx, sub, 'Routine', cfg, timeout=900, workers=1, label='vacuity witnesses (%s), depth 4' % cfg)
    flags = {}
    for line in r.output.splitlines():
        if line.startswith('<<"WITNESS"'):
            v = tlc.parse_value(line.strip())
            flags[v[1]] = v[2]
    missing = sorted(k for k in must if not flags.get(k))
    if len(flags) != NWITNESS or missing:
        raise MachineryError('vacuity: witnesses not reached in %s: %s' % (cfg, missing))
    ctx.cov['witnesses_reached'] = ctx.cov.get('witnesses_reached', 0) + len(must)
    return r


ACTS = ('ExtNext', 'ExtPlay', 'ExtPause', 'ExtResume', 'ExtStop', 'ExtReset', 'ExtSignal', 'ExtUnhang', 'ExtSetTest',
        'ExtFSet', 'ExtTick')


def run(ctx):
    import time
    thorough = not ctx.quick
    from concurrent.futures import ThreadPoolExecutor
    t0 = time.time()
    ph = ctx.cov['phase_s'] = {}
    # 1. design: the interpreter satisfies the L1 predicates for every body of bounded length
    ex = ThreadPoolExecutor(8)
    # vacuity guard: TLC's -coverage cannot be used (its cost model unfolds the recursive interpreter and runs
    # out of memory), so one-worker runs record in TLC registers that every action and every situation an L1
    # predicate talks about (Witnesses in Routine.tla) is reached, and print them in a POSTCONDITION
    fs = [ex.submit(witness_run, ctx, 'Routine_witness.cfg', 'w', list(range(1, 23)) + [29, 30]),
          ex.submit(witness_run, ctx, 'Routine_witness2.cfg', 'w2', range(23, 29))]
    for sel in ((1, 2, 3, 4, 6, 9) if thorough else (1, 2, 3, 4, 7)):
        fs.append(ex.submit(model_check_in, ctx, 'p%d' % sel, 'Routine',
                            'Routine_p%d%s.cfg' % (sel, '_thorough' if thorough else ''),
                            timeout=1800, workers=4 if thorough else 3, label='bodies p%d' % sel))
    # 2. binding (runs while the model runs finish): exhaustive short histories, random long ones, simulated behaviours
    sims = [ex.submit(sim_cases, ctx, sel, 1500 if thorough else 120, 14, ctx.seed + sel)
            for sel in ((1, 2, 3, 4, 6, 9) if thorough else (1, 2, 3, 4, 9))]
    rnd = random.Random(ctx.seed)
    if thorough:
        cases = (exhaustive_cases(sorted(PROGSETS), 3)
                 + exhaustive_cases(('nestops', 'reentry', 'cond', 'embed', 'tryfin', 'tryself'), 4, reduced=True))
    else:
        cases = (exhaustive_cases(QUICK_SETS, 2)
                 + exhaustive_cases(('reentry', 'cond', 'tryfin', 'trycatch', 'failbase', 'condtest'), 3, reduced=True))
    nrand = 6000 if thorough else 500
    cases += [random_case(rnd, rnd.randint(15, 60), clocky=(i % 3 == 0)) for i in range(nrand)]
    for f in sims:
        cases += f.result()
    ph['generate+simulate'] = round(time.time() - t0, 1)
    traces = run_cases(ctx, cases)
    ph['drivers'] = round(time.time() - t0, 1)
    ctx.cov['evaluations'] += sum(len(t['ev']) for t in traces)
    judge(ctx, cases, traces)
    ph['validate'] = round(time.time() - t0, 1)
    for f in fs:        # 1. design: the interpreter satisfies the L1 predicates for every body of bounded length
        ctx.expect_ok(f.result(), 'Routine L1')
    ex.shutdown()
    ph['model'] = round(time.time() - t0, 1)
    # 3. real time: wait/signal/unhang/FlowVar with the signals coming from plain threads and other clocks' tasks,
    #    on the real clocks under the controlled scheduler, judged by the ClockL1 monitor (props/_rtcond.py)
    from props import _rtcond
    _rtcond.run(ctx)
    ph['rt-conditions'] = round(time.time() - t0, 1)
    print('phases (cumulative s):', ph)
    cl = {}
    for c in cases:
        k = c['cls'].split(':')[0]
        cl[k] = cl.get(k, 0) + 1
    ctx.cov['classes'] = cl
    t = traces[len(traces) // 2]
    ctx.sample(dict(prog=t['prog'], events=[[e['op'], e['t'], e['res'], e['states'], e['cur']] for e in t['ev'][:6]]))
    ctx.cov['rule'] = ('all API histories of length 2-4 over {next, play, pause, resume, stop, reset} x routines + {next with '
                       'inval, signal, unhang, test=True, value=, tick} for %d hand-written program sets; %d random programs '
                       '(2-3 routines, bodies of 1-6 instructions over the whole vocabulary) with random histories of '
                       'length 15-60; TLC-simulated behaviours of Routine.tla (4 body vocabularies); evaluations = external '
                       'calls, each compared by TLC with the interpreter (result, states, current thread, logical time, '
                       'waiting lists, queue, body log); non-trivial = two body runs or a nested call'
                       % (len(PROGSETS) if thorough else len(QUICK_SETS), nrand))
    ctx.cov['exhaustive'] = True
    ctx.assumptions += ['API histories run in NRT mode: clock wake-ups are single steps of the NRT scheduler loop (tick); in RT only the '
                        'wait/signal/unhang/FlowVar clause is exercised (section 3 of run)',
                        'scheduling a task that is already queued replaces its entry (RT TaskQueue semantics); NRT keeps both '
                        'entries - such traces are classified as the known NRT duplicate-scheduling finding when the '
                        'multi-entry semantics explains them completely',
                        'an abandoned generator is finalised at once (CPython reference counting): its clean-up code runs inside stop()/reset()',
                        'exception class of a refused re-entrant next() is not pinned by the property']


def replay(ctx, rp):
    if rp['replay'].get('kind') == 'rt-condition':
        from props import _rtcond
        return _rtcond.replay(ctx, rp['replay'])
    c = rp['replay']['case']
    c = dict(c, cls='replay')
    traces = run_cases(ctx, [c])
    ctx.cov['evaluations'] = len(traces[0]['ev'])
    ctx.sample(dict(prog=c['prog'], hist=c['hist']))
    judge(ctx, [c], traces)


MANIFEST = dict(
    category='model_checking',
    text=('Routine.tla interprets the public API of Routine/Condition/FlowVar over script bodies (yield number/value, '
          'return, raise, YieldAndReset, AlwaysYield, nested next incl. re-entrant, stop/pause/resume/reset/play of self '
          'and others, wait/signal/unhang/test, FlowVar get/set, plain function bodies); TLC checks for every body of '
          'bounded length and every external history of bounded depth that the transition table, NextReturnsYielded, '
          'DoneRaisesStop, PausedRaises, SelfOpsRefused, StackRestored (at rest and at every nested return) and the '
          'wake-up laws hold; the real classes are bound to the spec by validating exhaustive short histories, random '
          'long histories over random programs and TLC-simulated behaviours, event by event (result, exception class, '
          'all states, current thread, logical time, waiting lists, scheduler queue, body log). The wake-up clause is '
          'also decided in real time: programs of waiting routines on SystemClock/AppClock/TempoClock with set/signal/'
          'unhang/FlowVar-binding from plain threads and other clocks\' tasks run on the real clocks under the controlled '
          'scheduler (random, PCT and bounded-DFS schedules, a preemption point between evaluating the test and registering '
          'the routine) and TLC folds every execution through the ClockL1 monitor (parked-though-true, resumed-before-'
          'condition, lost-wakeup, exactly-once / in-order re-scheduling at the signal\'s linearization point).'),
    note=('API histories in NRT mode (wake-ups are single steps of the NRT scheduler); in RT only the wait/signal clause. Bodies are '
          'scripts over a fixed vocabulary; generator close()/GC effects are not observed. Trusted: TLC, CPython '
          'generators, the recording driver.'),
    technique='TLA+ interpreter spec with L1 predicates checked by TLC + batch trace validation of exhaustive/random/simulated API histories on the real classes',
    design_ref='DESIGN.md section 3 / C11',
    engine='Routine',
)
