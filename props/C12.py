"""C12 - TempoClock time arithmetic and quantisation are consistent.

Decided by: TempoMath.tla (exact fixed-point rationals; laws IsGrid / IsNextBar / IsBarPos / continuity /
advance, and the code's formulas GridImpl etc. checked against the laws by TLC on a bounded lattice);
binding C->S: histories of tempo / beats / meter changes, yields, queries and play(quant) executed on a real
TempoClock inside routines (NRT), every recorded value validated by TraceTempoMath.tla - the laws are
evaluated on the recorded results themselves; binding S->C: simulated behaviours of the design model
replayed on the real clock, projected state compared."""
import itertools
import random

from harness.common import MachineryError
from harness.c11util import model_check_in, require_actions

DRIVER = 'drivers/c12_tempo.py'
S = 12288
TEMPOS = [[1, 2], [1, 1], [2, 1], [4, 1]]


def op(name, *a):
    return dict(op=name, a=list(a))


CHANGES = ([op('tempo', *t) for t in TEMPOS] + [op('beats', b) for b in (-4, 20, 83)]
           + [op('meter', m) for m in (2, 3, 4, 6)] + [op('adv', d) for d in (0, 1, 8, 20)])


def battery(i):
    """fixed queries issued after every state change (i rotates a few variants)"""
    q = [op('b2s', x) for x in (-12, 0, 5, 17 + i)] + [op('s2b', x) for x in (-8, 3, 12 + i)]
    q += [op('ntog', qq, ph, None) for qq, ph in ((0, 0), (0, 4), (8, 0), (8, -4), (4, 2), (12, 8), (16, -12),
                                                   (24, 20), (32, 4 + i % 8), (8, 7), (12, -11))]
    q += [op('ntog', 16, -4, 21 + i), op('ntog', 12, 3, -9), op('ntog', 0, -8, 5)]
    q += [op('ttnb', 8), op('ttnb', 12), op('bars', 17 + i), op('bars', -6), op('bars2', 16), op('bars2', -12 + i),
          op('nextbar', None), op('nextbar', 21 + i), op('nextbar', -5), op('bar')]
    return q


def tail_plays(i):
    return [op('play', 16, 8), op('play', 8, 0), op('play', 12, -4), op('play', 0, 0), op('playq', None),
            op('playq', 16 + 8 * (i % 2)), op('playbar'), op('play', 32, 3 + i % 8), op('adv', 48), op('bar')]


def exhaustive_histories(depth, tempos=TEMPOS):
    hs = []
    for ti, t in enumerate(tempos):
        for i, seq in enumerate(itertools.product(CHANGES, repeat=depth)):
            ops = battery(i % 5) if i % 7 == 0 else []
            for j, c in enumerate(seq):
                ops = ops + [c] + battery((i + j) % 5)
            ops += tail_plays(i)
            hs.append(dict(tempo=t, start=12 + 8 * (ti % 2), beats0=0, ops=ops, cls='exh'))
    return hs


def grid_histories(quick):
    """every (quant, phase in (-quant, quant), reference beat) on the eighth lattice, for several meter origins"""
    prefixes = [[], [op('adv', 10), op('meter', 3)], [op('beats', -13), op('meter', 4), op('tempo', 4, 1)],
                [op('adv', 43), op('meter', 6), op('adv', 3)]]
    quants = (0, 4, 8, 12, 16, 24) if quick else (0, 1, 4, 8, 12, 16, 20, 24, 32, 40)
    refs = range(-12, 29) if quick else range(-24, 49)
    hs = []
    for pi, pre in enumerate(prefixes if not quick else prefixes[:3]):
        for q in quants:
            phases = (0, 4, -12) if q == 0 else range(1 - q, q)
            qs = [op('ntog', q, ph, r) for ph in phases for r in refs]
            qs += [op('ntog', q, ph, None) for ph in phases]
            for k in range(0, len(qs), 400):
                hs.append(dict(tempo=TEMPOS[(pi + q) % 4], start=12, beats0=0, ops=pre + qs[k:k + 400], cls='grid'))
    return hs


def random_history(rnd, n, provoke=False):
    """The generator tracks the beat of the driving routine (wb: beat it was awakened for; a beats
    change is only visible until its next yield) so that, unless provoke is set, tempo/beats are only
    changed when no played child can still be pending."""
    ops = []
    beats0 = rnd.choice((0, 0, 8, 20))
    wb = beats0          # eighths
    cur = wb             # current beat inside the segment
    horizon = wb         # beat by which every pending child has certainly woken
    bpb = 4

    played = False       # a child was played since the routine last yielded

    def flush():
        nonlocal wb, cur, played
        if horizon > wb or played:
            d = max(0, horizon - wb)
            ops.append(op('adv', d))
            wb = cur = wb + d
            played = False

    for _ in range(n):
        x = rnd.random()
        if x < 0.10:
            if not provoke:
                flush()
            if rnd.random() < 0.6:
                ops.append(op(rnd.choice(('tempo', 'tempo', 'etempo')), *rnd.choice(TEMPOS)))
            else:
                cur = rnd.randint(-40, 400)
                ops.append(op('beats', cur))
        elif x < 0.16:
            bpb = rnd.choice((1, 2, 3, 4, 6, 8))
            ops.append(op('meter', bpb))
        elif x < 0.30:
            d = rnd.choice((0, 1, 2, 3, 4, 8, 12, 20, 33))
            ops.append(op('adv', d))
            wb = cur = wb + d
            played = False
        elif x < 0.40:
            ops.append(op(rnd.choice(('b2s', 's2b')), rnd.randint(-80, 400)))
        elif x < 0.62:
            q = rnd.choice((0, 1, 2, 4, 8, 12, 16, 24, 32, 40, 8 * bpb))
            ph = rnd.choice((0, 4, -12)) if q == 0 else rnd.randint(1 - q, q - 1)
            ops.append(op('ntog', q, ph, None if rnd.random() < 0.4 else rnd.randint(-80, 400)))
        elif x < 0.66:
            ops.append(op('ttnb', rnd.choice((1, 4, 8, 12, 16, 8 * bpb))))
        elif x < 0.74:
            ops.append(op(rnd.choice(('bars', 'bars2')), rnd.randint(-80, 400)))
        elif x < 0.82:
            ops.append(op('nextbar', None if rnd.random() < 0.5 else rnd.randint(-80, 400)))
        elif x < 0.88:
            ops.append(op('bar'))
        else:
            y = rnd.random()
            if y < 0.6:
                q = rnd.choice((0, 4, 8, 12, 16, 24, 32, 8 * bpb))
                ph = 0 if q == 0 else rnd.randint(1 - q, q - 1)
                ops.append(op('play', q, ph))
                horizon = max(horizon, cur + q + max(ph, 0))
            elif y < 0.8:
                q = rnd.choice((None, 8, 16, 24))
                ops.append(op('playq', q))
                horizon = max(horizon, cur + (q or 8))
            else:
                ops.append(op('playbar'))
                horizon = max(horizon, cur + 8 * bpb)
            played = True
    flush()
    return dict(tempo=rnd.choice(TEMPOS), start=rnd.choice((0, 5, 12, 64)), beats0=beats0, ops=ops,
                cls='provoke' if provoke else 'rand')


def nontrivial(h):
    """a query or play after at least one tempo / beats / meter change"""
    changed = False
    for o in h['ops']:
        if o['op'] in ('tempo', 'etempo', 'beats', 'meter'):
            changed = True
        elif changed and o['op'] not in ('adv',):
            return True
    return False


def run_histories(ctx, hs, mode='nrt'):
    """Run every history on the real TempoClock in mode `mode` (fresh processes) -> traces (id = index)."""
    n = len(hs)
    per = max(1, (n + 31) // 32)
    inputs = [dict(ids=list(range(i, min(n, i + per))), mode=mode,
                   histories=[dict(tempo=h['tempo'], start=h['start'], beats0=h['beats0'], ops=h['ops'])
                              for h in hs[i:i + per]]) for i in range(0, n, per)]
    outs = ctx.run_drivers(DRIVER, inputs, mode=mode)
    traces = [t for o in outs for t in o['traces']]
    if len(traces) != n:
        raise MachineryError('driver returned %d traces for %d histories' % (len(traces), n))
    return traces


KNOWN_RETIME = 'tempoclock:nrt-pending-not-retimed'


def judge(ctx, hs, traces, verdicts):
    for t in traces:
        h = hs[t['id']]
        if nontrivial(h):
            ctx.nontrivial(h['ops'])
        v = verdicts[t['id']]
        if v is None:
            continue
        at, why = v
        ev = t['ev'][at - 1]
        if why.startswith('machinery:'):
            raise MachineryError('trace %d event %d: %s (%s)' % (t['id'], at, why, ev))
        if why.startswith('drift:'):
            ctx.note_drift('%s at %s' % (why, ev))
            continue
        rp = dict(kind='history', history=h, rejected_at=at, why=why, observed=t['ev'][max(0, at - 3):at])
        if why == 'PlayGridAfterMapChange':
            ctx.violation(KNOWN_RETIME, 'a task pending on a TempoClock is not re-timed when tempo/beats change '
                          '(NRT converts beats to seconds when scheduling): child woke at beat %s/%d'
                          % (ev['r'][0][0], S), rp)
        else:
            ctx.violation('tempoclock:%s:%s' % (ev['op'], why),
                          'TempoClock %s violates %s at event %d: a=%s r=%s obs=%s'
                          % (ev['op'], why, at, ev['a'], ev['r'], ev['obs']), rp)


def rt_continuity(ctx, thorough):
    """real-time side of "changing tempo or beats leaves the current beat/second pair continuous, beats advance at the
    current tempo": routine programs with tempo / beats changes and quantised plays run under RtMain with timer
    lateness (controlled scheduler) and are followed by TLC through the LogicalTime machine, which re-bases the map at
    the caller's LOGICAL time; a clock that pivots on physical time shows up as a beats/seconds mismatch."""
    import random
    from props import _time as T
    rnd = random.Random(ctx.seed + 1212)
    n = 1200 if thorough else 160
    progs = []
    while len(progs) < n:
        p = T.gen_program(rnd, len(progs), cls='A', feats=('tempo', 'tempo', 'spawn', 'quant'))
        if any(i['op'] in ('T', 'TB') or (i['op'] == 'P' and i['a']) for b in p['routines'].values() for i in b):
            progs.append(p)
    tr = T.run_mode(ctx, [dict(q, strategy=dict(kind='random', seed=ctx.seed * 17 + q['id'])) for q in progs], 'rt')
    for t in tr:
        t['id'] += 7_000_000
    v = T.validate(ctx, tr)
    ctx.cov['evaluations'] += len(tr)
    ctx.cov['rt_tempo_programs'] = len(tr)
    for t in tr:
        r = v[t['id']]
        if r is not None:
            at, why = r
            ctx.violation('tempoclock:rt:%s' % why,
                          'RT TempoClock under lateness: beats/seconds seen by routines deviate from the affine map re-based at logical time (%s) at event %d' % (why, at),
                          dict(kind='time-program', mode='rt', program=t['prog'], rejected_at=at, why=why, events=t['ev'][:at + 1]))


def run(ctx):
    thorough = not ctx.quick
    # 1. design model: the code's formulas satisfy the laws on the lattice
    acts = ('DoSetTempo', 'DoSetBeats', 'DoSetMeter', 'DoAdvance')
    sfx = '_thorough' if thorough else ''
    from concurrent.futures import ThreadPoolExecutor
    with ThreadPoolExecutor(2) as ex:       # histories x small query window, and few states x the full grid window
        f1 = ex.submit(model_check_in, ctx, 'm1', 'TempoMath', 'TempoMath%s.cfg' % sfx, coverage=True, timeout=1500,
                       workers=8, label='laws over histories')
        f2 = ex.submit(model_check_in, ctx, 'm2', 'TempoMath', 'TempoMath_grid%s.cfg' % sfx, coverage=True, timeout=1500,
                       workers=8, label='grid law, full window')
        ctx.expect_ok(f1.result(), 'TempoMath laws')
        ctx.expect_ok(f2.result(), 'TempoMath grid laws')
        require_actions(f1.result(), acts, 'TempoMath')
        require_actions(f2.result(), acts, 'TempoMath_grid')

    # 2. C->S
    rnd = random.Random(ctx.seed)
    depth = 3 if thorough else 2
    hs = exhaustive_histories(depth, TEMPOS if thorough else [TEMPOS[0], TEMPOS[3]])
    if thorough:
        hs = [h for i, h in enumerate(hs) if i % 2 == 0 or i < 2000]
    hs += grid_histories(ctx.quick)
    nrand = 3000 if thorough else 300
    hs += [random_history(rnd, rnd.randint(40, 160)) for _ in range(nrand)]
    hs += [random_history(rnd, rnd.randint(20, 60), provoke=True) for _ in range(40 if thorough else 10)]
    traces = run_histories(ctx, hs)
    verdicts = ctx.validate('TraceTempoMath', 'TraceTempoMath.cfg', traces, timeout=1500)
    nev = sum(len(t['ev']) for t in traces)
    ctx.cov['evaluations'] += nev
    judge(ctx, hs, traces, verdicts)
    ctx.sample(dict(history=hs[5]['ops'][:6], observed=[[e['op'], e['a'], e['r'], e['obs']['b'], e['obs']['s']]
                                                        for e in traces[5]['ev'][:8]]))
    ctx.cov['classes'] = {k: sum(1 for h in hs if h['cls'] == k) for k in ('exh', 'grid', 'rand', 'provoke')}

    # 3. S->C: behaviours of the design model replayed on the real clock
    from harness import tlc
    nsim = 1500 if thorough else 200
    behs, r = tlc.simulate_behaviours('TempoMath', 'TempoMath_sim.cfg', ctx.work, num=nsim, depth=14, seed=ctx.seed + 1)
    ctx.cov['transitions'] += r.generated
    hs2, exp = [], []
    for b in behs:
        c0 = b[0][1]['c']
        ops, e = [], []
        for act, st in b[1:]:
            la, c = st['last'], st['c']
            if la['op'] == 'tempo':
                ops.append(op('tempo', la['a'], la['b']))
            elif la['op'] in ('beats', 'adv'):
                assert la['a'] % (S // 8) == 0
                ops.append(op(la['op'], la['a'] // (S // 8)))
            elif la['op'] == 'meter':
                ops.append(op('meter', la['a']))
            else:
                raise MachineryError('unknown model action %s' % la)
            e.append(c)
        hs2.append(dict(tempo=[c0['tn'], c0['td']], start=c0['lt'] // (S // 8), beats0=0, ops=ops, cls='sim'))
        exp.append(e)
    tr2 = run_histories(ctx, hs2)
    ctx.cov['spec_behaviours_replayed'] = len(hs2)
    for t in tr2:
        h = hs2[t['id']]
        if nontrivial(h):
            ctx.nontrivial(h['ops'])
        evs = [e for e in t['ev'] if e['op'] in ('tempo', 'beats', 'meter', 'adv')]
        ctx.cov['evaluations'] += len(evs)
        for i, (ev, c) in enumerate(zip(evs, exp[t['id']])):
            tn, td = c['tn'], c['td']
            beats = (c['lt'] - c['bs']) * tn // td + c['bb']
            want = dict(b=[beats, 1], s=[c['lt'], 1], bbar=[c['bbar'], 1], bbb=[c['bbb'], 1], bpb=c['bpb'])
            if ev['obs'] != want or ev['k'] != 'ok':
                ctx.violation('tempoclock:%s:replay' % ev['op'],
                              'replayed model behaviour: after %s %s the real clock shows %s, the model %s'
                              % (ev['op'], ev['a'], ev['obs'], want),
                              dict(kind='history', history=h, rejected_at=i + 1, why='replay'))
                break
    rt_continuity(ctx, thorough)
    ctx.cov['rule'] = ('4 start tempos x all sequences of %d state changes over {tempo x4, beats x3, meter x4, yield x4} with a '
                       'fixed battery of ~35 queries after every change and 8 play(quant)/play_next_bar children at the end; '
                       'every (quant, phase in (-quant,quant), reference) on the 1/8 lattice for %d meter origins; %d seeded '
                       'random histories (40-160 ops) + provoking ones; %d TLC-simulated behaviours; evaluations = recorded '
                       'events, each checked by TLC; non-trivial = has a query/play after a tempo, beats or meter change'
                       % (depth, 3 if ctx.quick else 4, nrand, len(hs2)))
    ctx.cov['exhaustive'] = True
    ctx.assumptions += ['values on the dyadic lattice (multiples of 1/8, tempos 1/2..4) so that float arithmetic is exact; '
                        'meters 3 and 6 compare bar numbers to the nearest 1/12288',
                        'NRT mode (logical time only); RT notify paths are not exercised',
                        'non-dyadic tempos, etempo and negative tempos are not decided']


def replay(ctx, rp):
    if rp['replay'].get('kind') == 'time-program':
        from props.C05 import replay as r5
        return r5(ctx, rp)
    h = rp['replay']['history']
    traces = run_histories(ctx, [h])
    verdicts = ctx.validate('TraceTempoMath', 'TraceTempoMath.cfg', traces)
    ctx.cov['evaluations'] = len(traces[0]['ev'])
    ctx.sample(dict(history=h['ops'][:8], verdict=verdicts[0]))
    judge(ctx, [h], traces, verdicts)


MANIFEST = dict(
    category='model_checking',
    text=('TLC checks on a bounded dyadic lattice that the clock formulas (affine map re-basing, next_time_on_grid with sc '
          'mod/roundup, bar conversions, next_bar, meter re-basing) satisfy the stated laws (round trip, continuity, '
          'beats advance at tempo, grid law, bar inverse, next bar not before now); the real TempoClock is bound to the '
          'spec by executing exhaustive short and random long histories of tempo/beats/meter changes, yields, queries '
          'and play(quant) inside routines in NRT mode and validating every recorded value with TLC - the grid, bar and '
          'round-trip laws are evaluated on the recorded results themselves - plus replay of simulated model behaviours.'),
    note=('Exact comparison on the dyadic lattice only (multiples of 1/8, tempos 1/2,1,2,4; thirds for meters 3/6 to the '
          'nearest lattice point). NRT mode only; RT wake-up paths, etempo, non-dyadic tempos are not decided. '
          'Trusted: TLC, IEEE doubles being exact on the lattice, the recording driver.'),
    technique='TLA+ law spec checked by TLC + batch trace validation of exhaustive/random histories on the real TempoClock (NRT) + RT tempo-changing routine programs under a controlled scheduler followed through the LogicalTime machine',
    design_ref='DESIGN.md section 3 / C12',
    engine='TempoMath',
)
