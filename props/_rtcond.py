"""Real-time side of the C11 clause "a routine waiting on a Condition or FlowVar resumes exactly once after the
condition holds and is signalled, never before", with the signals coming from plain threads, from other clocks'
tasks and from inside routines: programs for drivers/c08_clock.py (real clocks under the controlled scheduler),
judged by the ClockL1 monitor (clauses parked-though-true, resumed-before-condition, lost-wakeup, and the clock
clauses for the re-scheduling done by signal/unhang)."""
import random

from harness.common import MachineryError
from props import C08

U = 1024
DLY = [0, 128, 128, 256, 512]


def gen_program(rnd, pid, small=False):
    tempo = {}
    if rnd.random() < 0.5:
        tempo['t1'] = rnd.choice([[1, 1], [2, 1], [1, 2]])
    clocks = ['sys', 'sys', 'app'] + list(tempo)
    conds = {'c0': 'cond'}
    if rnd.random() < 0.5 and not small:
        conds['c1'] = 'cond'
    if rnd.random() < (0.25 if small else 0.5):
        conds['f0'] = 'fv'
    cvs = list(conds)
    plain = [c for c in cvs if conds[c] == 'cond']
    nwait = rnd.randint(1, 2 if small else 3)
    tasks = {}
    threads = [[] for _ in range(rnd.randint(2, 2 if small else 3))]
    tclock = {}
    # waiters: routines living on ONE clock each
    for i in range(nwait):
        n = 'w%d' % i
        tclock[n] = rnd.choice(clocks)
        script = []
        if rnd.random() < 0.4:
            script.append(dict(do=[], res=['ret', rnd.choice(DLY)]))
        script.append(dict(do=[], res=['wait', rnd.choice(cvs)]))
        x = rnd.random()
        if x < 0.3 and not small:
            script.append(dict(do=[], res=['wait', rnd.choice(cvs)]))      # waits again (same or another condition)
        elif x < 0.6:
            script.append(dict(do=[], res=['ret', rnd.choice(DLY)]))
        script.append(dict(do=[], res=rnd.choice([['stop'], ['none'], ['raise']])))
        tasks[n] = dict(kind='rt', script=script)
        threads[0] += [['sched', tclock[n], n, rnd.choice(DLY)]]
    # signalling from tasks (inner) on any clock
    if rnd.random() < (0.3 if small else 0.6):
        n = 'k0'
        tclock[n] = rnd.choice(clocks)
        cv = rnd.choice(cvs)
        do = ([['fset', cv]] if conds[cv] == 'fv' else
              rnd.choice([[['cset', cv], ['signal', cv]], [['signal', cv]], [['unhang', cv]], [['cset', cv]]]))
        tasks[n] = dict(kind=rnd.choice(['fn', 'rt']), script=[dict(do=do, res=rnd.choice([['none'], ['ret', 256]])),
                                                                dict(do=[], res=['none'])])
        threads[0] += [['sched', tclock[n], n, rnd.choice(DLY + [1024])]]
        if conds[cv] == 'fv':
            conds['__bound_' + cv] = 'x'
    # signalling from plain threads: every condition is eventually set and signalled by somebody (so that a lost
    # wake-up cannot hide behind "nobody ever signalled"), plus stray signals / unhangs before that
    for cv in cvs:
        th = rnd.choice(threads[1:])
        if rnd.random() < 0.7:
            th.append(['sleep', rnd.choice([1, 128, 128, 256, 512, 1024])])
        if conds[cv] == 'fv':
            if '__bound_' + cv not in conds:
                th.append(['fset', cv])
            continue
        if rnd.random() < 0.25:
            th.append(['signal', cv])                   # before the condition holds: wakes nobody
        if rnd.random() < 0.2:
            th.append(['unhang', cv])
        if rnd.random() < 0.2:
            th.append(['sleep', rnd.choice([1, 128, 256])])
        th.append(['cset', cv])
        if rnd.random() < 0.3:
            th.append(['sleep', rnd.choice([1, 128])])
        th.append(['signal', cv])
        if rnd.random() < 0.2:
            rnd.choice(threads).append(['signal', cv])   # a second signaller
    for k in [k for k in conds if k.startswith('__bound_')]:
        del conds[k]
    return dict(id=pid, tempo=tempo, conds=conds, tasks=tasks, threads=threads, horizon=24 * U)


def contested(tr):
    """an execution in which a signalling call from a plain thread was invoked while a waiter's step was under way,
    or a parked routine was re-scheduled by a signal"""
    open_steps = 0
    parked = False
    for e in tr['ev']:
        if e['op'] == 'task_begin' and e['task'].startswith('w'):
            open_steps += 1
        elif e['op'] == 'task_end' and e['task'].startswith('w'):
            open_steps -= 1
            parked = parked or e['res'] == 'park'
        elif e['op'] == 'call' and e['api'] in ('signal', 'unhang', 'fset') and not e['inner'] and open_steps > 0:
            return True
    return parked


def run(ctx, prop='C11'):
    thorough = not ctx.quick
    rnd = random.Random(ctx.seed + 1111)
    progs = []
    pid = 8_000_000
    n = 1500 if thorough else 200
    for i in range(n):
        p = gen_program(rnd, pid)
        p['strategy'] = dict(kind=rnd.choice(['random', 'random', 'pct']), seed=rnd.randrange(1 << 30),
                             p_stay=rnd.choice([0.0, 0.5]))
        progs.append(p)
        pid += 1
    for i in range(24 if thorough else 6):
        pid = (pid // 1000 + 1) * 1000
        p = gen_program(rnd, pid, small=True)
        p['strategy'] = dict(kind='dfs', max=400 if thorough else 150, depth=16, lates=[0, 1])
        progs.append(p)
    progmap = {p['id']: p for p in progs}
    rnd.shuffle(progs)
    traces = C08.run_batches(ctx, progs)
    skipped = [t for t in traces if t.get('nondyadic')]
    traces = [t for t in traces if not t.get('nondyadic')]
    if len(skipped) > len(traces) // 10:
        raise MachineryError('too many executions with times finer than the trace unit: %d' % len(skipped))
    hist = {}
    for t in traces:
        t.pop('branch', None)
        for e in t['ev']:
            k = e['op'] + (':' + e['api'] if e['op'] == 'call' else '') + (':' + e['res'] if e['op'] == 'task_end' else '')
            hist[k] = hist.get(k, 0) + 1
    for need in ('call:signal', 'call:unhang', 'call:fset', 'cset', 'task_end:park', 'task_end:pass'):
        if not hist.get(need):
            raise MachineryError('vacuity: no %s event in the recorded real-time condition executions' % need)
    ncont = sum(1 for t in traces if contested(t))
    if ncont < len(traces) // 10:
        raise MachineryError('vacuity: only %d of %d real-time condition executions had a contested wait' % (ncont, len(traces)))
    verdicts = ctx.validate('TraceClock', 'TraceClock.cfg', traces, timeout=1500)
    ctx.cov['evaluations'] += len(traces)
    ctx.cov['rt_condition_executions'] = len(traces)
    ctx.cov['rt_condition_executions_contested'] = ncont
    ctx.cov['rt_condition_events'] = {k: v for k, v in sorted(hist.items()) if k.startswith(('call:', 'cset', 'task_end'))}
    for t in traces:
        if contested(t):
            ctx.nontrivial([t['ev']])
        v = verdicts[t['id']]
        if v is None:
            continue
        at, why = v
        if why in ('nondyadic', 'wrong-thread', 'end-without-begin'):
            raise MachineryError('trace %s rejected for a harness reason: %s at %d' % (t['id'], why, at))
        base = max(k for k in progmap if k <= t['id'])
        ctx.violation('rtcond:%s' % why,
                      'real-time Condition/FlowVar execution rejected by ClockL1 (%s) at event %d: %s'
                      % (why, at, C08.brief(t['ev'][at - 1])),
                      dict(kind='rt-condition', program=progmap[base], choices=t.get('choices'), rejected_at=at, why=why,
                           events=[C08.brief(e) for e in t['ev'][max(0, at - 30):at]]))
    ctx.assumptions += ['real-time conditions: interleavings at lock granularity plus one preemption point inside the '
                        'condition\'s test callable and one at the start of every task step; every condition is eventually '
                        'made true and signalled by some thread']


def replay(ctx, r):
    p = dict(r['program'])
    if r.get('choices') is not None:
        p['strategy'] = dict(kind='choice', choices=r['choices'], lates=[0, 1])
    traces = C08.run_batches(ctx, [p], nproc=1)
    for t in traces:
        t.pop('branch', None)
    verdicts = ctx.validate('TraceClock', 'TraceClock.cfg', traces)
    ctx.cov['evaluations'] = len(traces)
    for t in traces:
        v = verdicts[t['id']]
        ctx.sample(dict(verdict=v))
        if v is not None:
            ctx.violation('rtcond:%s' % v[1], 'replayed: %s at event %d' % (v[1], v[0]),
                          dict(kind='rt-condition', program=p, choices=r.get('choices'), rejected_at=v[0], why=v[1]))
