"""C04 - function parameters become correctly laid-out, correctly wired controls.

Decided by: spec/Controls.tla.  TLC (a) generates every definition request within the bounds of each
cfg slice (annotation x rates entry x default shape x prepend x SynthDef.wrap nesting x metadata
spec x variants) and checks the layout theorems + "the implementation-shaped unit list satisfies
the L1 slot-source relation" on each, ControlsImpl.tla checks the transcription of the code's
running-index algorithm against the declarative layout; (b) long requests (up to 40 parameters,
tuples wider than 16) come from TLC -simulate.  Every request is turned into real Python functions
(drivers/c04_controls.py), built with the real SynthDef, called in NRT mode, and the decoded
bytes / received signals / score are validated by TLC against Layout (TraceControls.tla)."""
import json
import os
import random
import shutil
import threading
from concurrent.futures import ThreadPoolExecutor

from harness import tlc
from harness.common import MachineryError, canon

DRIVER = 'drivers/c04_controls.py'
_lock = threading.Lock()

QUICK = [('Controls_q1.cfg', ('AddParam', 'Emit')),
         ('Controls_q7.cfg', ('AddParam', 'AddVariant', 'Emit')),
         ('Controls_q6.cfg', ('AddParam', 'AddVariant', 'Emit')),
         ('Controls_q5.cfg', ('AddParam', 'Emit')),
         ('Controls_q2.cfg', ('AddParam', 'Emit')),
         ('Controls_q3.cfg', ('AddParam', 'AddBound', 'OpenWrap', 'Emit')),
         ('Controls_q4.cfg', ('AddParam', 'AddVariant', 'Emit'))]
THOROUGH = QUICK + [('Controls_t2.cfg', ('AddParam', 'Emit')),
                    ('Controls_t2b.cfg', ('AddParam', 'Emit')),
                    ('Controls_t3.cfg', ('AddParam', 'Emit')),
                    ('Controls_t3b.cfg', ('AddParam', 'Emit')),
                    ('Controls_t3w.cfg', ('AddParam', 'AddBound', 'OpenWrap', 'Emit')),
                    ('Controls_t4.cfg', ('AddParam', 'AddBound', 'OpenWrap', 'AddVariant', 'Emit')),
                    ('Controls_t4b.cfg', ('AddParam', 'AddVariant', 'Emit')),
                    ('Controls_t5.cfg', ('AddParam', 'Emit')),
                    ('Controls_t7.cfg', ('AddParam', 'AddVariant', 'Emit')),
                    ('Controls_t5w.cfg', ('AddParam', 'AddBound', 'OpenWrap', 'AddVariant', 'Emit'))]


def P(n, an='none', ov='absent', lag=(), dv=None, bound=None, spec=None):
    """a parameter of a hand-written request (values in real units, multiples of 1/8)"""
    if bound is not None:
        return dict(n=n, bk='bound', bv=int(bound * 8), an='none', ov='absent', lag=[], dk='missing', dv=[], dty=[],
                    sk='none', sv=0)
    dk = 'missing' if dv is None else 'None' if dv == 'None' else 'tuple' if isinstance(dv, tuple) else 'scalar'
    if dv == 'None':    # an explicit =None
        dv = None
    vals = [] if dv is None else [int(x * 8) for x in (dv if isinstance(dv, tuple) else (dv,))]
    tys = [] if dv is None else ['b' if isinstance(x, bool) else 'i' if isinstance(x, int) else 'f'
                                for x in (dv if isinstance(dv, tuple) else (dv,))]
    return dict(n=n, bk='ctl', bv=0, an=an, ov=ov, lag=[int(x * 8) for x in lag], dk=dk, dv=vals, dty=tys,
                sk='spec' if spec is not None else 'none', sv=int(spec * 8) if spec is not None else 0)


def F(parent, *params):
    return dict(parent=parent, params=list(params))


# C->S: the signatures of tests/test_synthdef.py and of the documentation examples (amp 0.1 -> 0.125)
EXTRA = [
    dict(name='x', variants=[], funcs=[F(0, P('a', 'ir'), P('b', 'ar'), P('c', 'kr'), P('d', 'tr'),
                                         P('f', 'ir'), P('g', 'kr'), P('h', 'ar'), P('i', 'tr'))]),
    dict(name='x', variants=[], funcs=[F(0, P('a', 'ir', 'ir', dv=(4, 5)), P('b', 'tr', 'num', (0.875,), dv=3),
                                         P('c', 'kr', 'list', (0.75, 0.625), dv=(2, 1)))]),
    dict(name='x', variants=[], funcs=[F(0, P('data0', bound=7), P('data1', bound=567), P('off', dv=10), P('amp', dv=0.125))]),
    dict(name='x', variants=[dict(n='one', set=[dict(n='a', v=[8])]),
                             dict(n='two', set=[dict(n='a', v=[8]), dict(n='c', v=[24])]),
                             dict(n='three', set=[dict(n='a', v=[8]), dict(n='b', v=[16]), dict(n='c', v=[24])])],
         funcs=[F(0, P('a', 'ar'), P('b', 'ir'), P('c'))]),
    dict(name='x', variants=[], funcs=[F(0, P('a', 'ar', spec=440), P('b'), P('c', dv=0.125, spec=1))]),
    dict(name='x', variants=[dict(n='low', set=[dict(n='freq', v=[880])])],
         funcs=[F(0, P('freq', ov='num', lag=(0.125,), dv=440), P('amp', ov='num', lag=(0.125,), dv=0.125),
                  P('pan', dv=0), P('gate', dv=1))]),
    dict(name='x', variants=[dict(n='z', set=[dict(n='width', v=[0]), dict(n='detune', v=[8, 0])])],
         funcs=[F(0, P('freq', dv=0, spec=440), P('cutoff', dv='None', spec=440), P('amp', 'ir', dv=0.0, spec=1),
                  P('pan', dv=0, spec=-0.5), P('gate', 'tr', dv=False, spec=1), P('detune', dv=(0, 0.0), spec=0.5),
                  P('width', dv=0.25, spec=0.5), P('on', dv=True, spec=0), P('neg', dv=-1.5, spec=1.5))]),
    dict(name='x', variants=[], funcs=[F(0, P('freq', dv=440), P('amp', dv=0.125)),
                                       F(1, P('pan', dv=0), P('gate', 'tr', dv=1)),
                                       F(1, P('buf', 'ir', dv=0)), F(3, P('rate', 'ar', dv=(1, 1)))]),
]


def emitted(r):
    out = []
    for line in r.output.splitlines():
        if line.startswith('<<"DEF"'):
            out.append(json.loads(tlc.parse_value(line)[1]))
    return out


# ---------------------------------------------------------------- bookkeeping on requests (no oracle)
def ctl_params(f):
    return [p for p in f['params'] if p['bk'] == 'ctl']


def width(p):
    return len(p['dv']) if p['dk'] == 'tuple' else 1


def value_for(p, k):
    """a call value shaped like the parameter: list for tuple parameters"""
    if p['dk'] == 'tuple':
        return dict(k='l', v=[8 * (100 * k + i) + 4 for i in range(width(p))])
    return dict(k='s', v=[8 * (100 * k) + 4])


def calls_for(d):
    top = ctl_params(d['funcs'][0])
    rest = [p for f in d['funcs'][1:] for p in ctl_params(f)]
    calls = [dict(args=[value_for(p, i + 1) for i, p in enumerate(top)], kw=[])]
    if top:     # a zero is an argument like any other
        calls[0]['args'][0] = dict(calls[0]['args'][0], v=[0] * len(calls[0]['args'][0]['v']))
    h = len(top) // 2
    calls.append(dict(args=[value_for(p, i + 11) for i, p in enumerate(top[:h])],
                      kw=[dict(n=p['n'], v=value_for(p, i + 21)) for i, p in enumerate(top[h:] + rest)]))
    calls.append(dict(args=[], kw=[dict(n=p['n'], v=value_for(p, i + 31))
                                  for i, p in enumerate(reversed(top + rest))]))
    return calls


def rename(d, rnd):
    """bijective renaming of parameters (alphabetical order != declaration order, longer names)"""
    ps = [p for f in d['funcs'] for p in f['params']]
    pool = ['freq', 'amp', 'pan', 'gate', 'out', 'zz', 'a', 'b_2', 'Cut', 'x' * 31, 'q9']
    names = [pool[i] if i < len(pool) else 'n%d_%s' % (i, 'abcdefgh'[i % 8]) for i in range(len(ps))]
    rnd.shuffle(names)
    m = {p['n']: names[i] for i, p in enumerate(ps)}
    d = json.loads(json.dumps(d))
    for f in d['funcs']:
        for p in f['params']:
            p['n'] = m[p['n']]
    for v in d['variants']:
        for a in v['set']:
            a['n'] = m.get(a['n'], a['n'])      # a name that is no parameter stays what it is
    return d


def pad_variants(d):
    """give every variant whose request asks for a full-name length fl the key that makes
    len(defname + '.' + key) == fl (bookkeeping; TraceControls measures the real names)"""
    vs = []
    for v in d['variants']:
        v = dict(v)
        fl = v.get('fl', 0)
        if fl:
            pad = fl - len(d['name']) - 1 - len(v['n'])
            if pad < 0:
                raise MachineryError('cannot make variant name of length %d for %s' % (fl, d['name']))
            v['n'] = v['n'] + 'x' * pad
        vs.append(v)
    return dict(d, variants=vs)


def features(d, why=''):
    """input class of a request, used in violation signatures"""
    fs = set()
    if len(d['funcs']) > 1:
        fs.add('wrap')
    if any(p['bk'] == 'bound' for f in d['funcs'] for p in f['params']):
        fs.add('prepend')
    if why.startswith('call'):
        return '+'.join(sorted(fs)) or 'plain'
    for f in d['funcs']:
        for p in ctl_params(f):
            if p['ov'] == 'list' and width(p) == 1:
                fs.add('laglist_on_1ch')
            elif p['ov'] == 'list':
                fs.add('laglist')
            if p['sk'] == 'spec':
                fs.add('spec' if p['dk'] in ('missing', 'None') else 'spec_and_default')
            if p['dk'] in ('scalar', 'tuple') and any(x == 0 for x in p['dv']):
                fs.add('zero_default')
    if d['variants']:
        fs.add('variants')
        width_of = {p['n']: width(p) for f in d['funcs'] for p in ctl_params(f)}
        if any(a['n'] not in width_of or len(a['v']) > width_of[a['n']] for v in d['variants'] for a in v['set']):
            fs.add('variant_refused')
        n = max(len(d['name']) + 1 + len(v['n']) for v in d['variants'])
        if n >= 30:
            fs.add('variant_name_%d' % n if n <= 33 else 'variant_name_long')
    return '+'.join(sorted(fs)) or 'plain'


def nontrivial(d):
    """at least two control parameters that differ in rate group or width, or a wrapped function,
    a prepended argument, a lag list, a variant or a spec default"""
    ps = [p for f in d['funcs'] for p in ctl_params(f)]
    if features(d) != 'plain':
        return bool(ps)
    kinds = {(p['an'], p['ov'], width(p)) for p in ps}
    return len(ps) >= 2 and len(kinds) >= 2


# ---------------------------------------------------------------- running
def run_cases(ctx, cases):
    n = len(cases)
    per = max(1, (n + 15) // 16)
    outs = ctx.run_drivers(DRIVER, [dict(cases=cases[i:i + per]) for i in range(0, n, per)], mode='nrt')
    traces = [t for o in outs for t in o['traces']]
    if len(traces) != n:
        raise MachineryError('driver returned %d traces for %d cases' % (len(traces), n))
    return traces


def judge(ctx, traces, l2=True):
    verdicts = ctx.validate('TraceControls', 'TraceControls.cfg', traces, env={'VERIF_L2': '0'})
    bad = 0
    for t in traces:
        v = verdicts[t['id']]
        if v is None:
            continue
        bad += 1
        at, why = v
        ev = t['ev'][at - 1]
        sig = 'controls:%s:%s' % (why, features(t['d'], why))
        what = {'defaults': 'control default array differs from the layout',
                'names': 'name table does not point at the parameters\' slots',
                'slot_source': 'control units do not cover the slots once each with the right class/rate/lag',
                'wiring': 'the body received a control output that is not at the parameter\'s slot',
                'recv': 'the body received a value of the wrong shape',
                'bound': 'a prepended argument did not reach the body',
                'variants': 'variant block differs from defaults overlaid at the named slots',
                'raised': 'a well-formed signature did not build',
                'call_pairs': 'SynthDef.__call__ maps arguments to the wrong control names',
                'again_defaults': 'a later serialisation of the same definition has a different default array',
                'again_variants': 'a later serialisation of the same definition has different variant blocks',
                'again_names': 'a later serialisation of the same definition has a different name table',
                'again_slot_source': 'a later serialisation of the same definition has different control units',
                'again_raised': 'a later serialisation of the same definition raised',
                'call_cmd': 'SynthDef.__call__ did not produce /s_new for the definition'}.get(why, why)
        obs = ev['o'] if ev['op'] in ('build', 'ser') else {k: ev[k] for k in ('args', 'kw', 'cmd', 'pairs')}
        if ev['op'] == 'ser':
            what += ' (history %s, serialisation %d = %s)' % (t['d']['hist'], at, ev['how'])
        ctx.violation(sig, '%s [%s] (%s; input class %s)' % (what, why, ev['op'], features(t['d'], why)),
                      dict(kind='def', d=t['d'], calls=[dict(args=e['args'], kw=e['kw']) for e in t['ev'][1:] if e['op'] == 'call'],
                           rejected_at=at, why=why, observed=obs))
    if l2:
        # implementation-shaped unit list: drift only (one unit per group, LagControl clumps of 16)
        ok = [dict(id=t['id'], d=t['d'], ev=t['ev'][:1]) for t in traces
              if verdicts[t['id']] is None and (not ctx.quick or t['id'] % 8 == 0)]
        v2 = ctx.validate('TraceControls', 'TraceControls.cfg', ok, env={'VERIF_L2': '1'})
        ctx.cov['traces_validated_against_impl'] -= len(ok)      # same traces, second reading
        for t in ok:
            if v2[t['id']] is not None:
                ctx.note_drift('L2 unit list differs for %s' % canon(t['d']['funcs'])[:300])
    return bad


def model_check_in(ctx, module, cfg, cover, label):
    """ctx.model_check with a private TLC metadir (several runs of one module in parallel threads;
    harness.common is shared code, so its bookkeeping is repeated here)"""
    wd = os.path.join(ctx.work, 'mc_' + cfg.replace('.', '_'))
    r = tlc.run(module, cfg, wd, workers=4, timeout=1500, coverage=True)
    shutil.rmtree(wd, ignore_errors=True)
    run_ = dict(module=module, cfg=cfg, label=label, **r.summary())
    run_['actions_taken'] = {k: v[0] for k, v in sorted(r.coverage.items()) if k in cover}
    with _lock:
        ctx.cov['model_runs'].append(run_)
        ctx.cov['states'] += r.distinct
        ctx.cov['transitions'] += r.generated
    for a in cover:
        if r.coverage.get(a, (0, 0))[1] == 0:
            raise MachineryError('vacuity: action %s never taken in %s/%s' % (a, module, cfg))
    return r


def run(ctx):
    thorough = not ctx.quick
    rnd = random.Random(ctx.seed)
    # 1. design model: transcription of the code's algorithm refines the declarative layout
    # 2. generation slices: theorems checked on every request, every request emitted
    slices = [('ControlsImpl%s.cfg' % ('_thorough' if thorough else ''), ('AddParam', 'AddBound', 'OpenWrap'))]
    slices += THOROUGH if thorough else QUICK
    defs, per_slice = [], {}

    def gen(sl):
        cfg, cover = sl
        if cfg.startswith('ControlsImpl'):
            return cfg, model_check_in(ctx, 'ControlsImpl', cfg, cover, 'L2 algorithm = L1 layout')
        return cfg, model_check_in(ctx, 'Controls', cfg, cover, 'generate ' + cfg)

    with ThreadPoolExecutor(max_workers=5) as ex:
        for cfg, r in ex.map(gen, slices):
            ctx.expect_ok(r, cfg)
            if cfg.startswith('ControlsImpl'):
                continue
            ds = emitted(r)
            if not ds:
                raise MachineryError('no requests emitted by ' + cfg)
            per_slice[cfg] = len(ds)
            defs += ds
    # 3. long requests from TLC's simulator (up to 40 parameters, 4 functions, tuples of 17 and 33)
    nsim = 800 if thorough else 60
    r = tlc.run('Controls', 'Controls_sim.cfg', ctx.work, workers=1 if ctx.quick else 4, timeout=900,
                simulate='num=%d' % nsim,
                depth=46, seed=ctx.seed + 1)
    if not r.ok:
        raise MachineryError('simulation failed: %s\n%s' % (r.violated, r.output[-2000:]))
    sims = emitted(r)
    if len(sims) < nsim // 3:
        raise MachineryError('simulation emitted only %d requests' % len(sims))
    ctx.cov['transitions'] += r.generated
    per_slice['Controls_sim.cfg'] = len(sims)
    seen, cases = set(), []
    per_slice['hand-written (tests/test_synthdef.py, documentation)'] = len(EXTRA)
    for d in defs + sims + [dict(x, hist=['as_bytes', 'store', 'write']) for x in EXTRA]:
        k = canon(d)
        if k in seen:
            continue
        seen.add(k)
        i = len(cases)
        d = dict(d, name='d%d' % i if i % 2 else ('def%d' % i).ljust(18, '_'))
        if i % 3 == 1:
            d = rename(d, rnd)
        d = pad_variants(d)
        cases.append(dict(id=i, d=d, calls=calls_for(d)))
        if nontrivial(d):
            ctx.nontrivial([d['funcs'], d['variants']])
    traces = run_cases(ctx, cases)
    judge(ctx, traces)
    ctx.cov['evaluations'] = len(cases)
    ctx.cov['requests_per_slice'] = per_slice
    ctx.cov['calls_observed'] = sum(1 for t in traces for e in t['ev'] if e['op'] == 'call')
    ctx.cov['repeated_serialisations'] = sum(1 for t in traces for e in t['ev'] if e['op'] == 'ser')
    ctx.cov['longest_request_params'] = max(sum(len(f['params']) for f in c['d']['funcs']) for c in cases)
    for t in (traces[len(traces) // 2], traces[-1]):
        o = t['ev'][0]['o']
        ctx.sample(dict(request=[[(p['n'], p['bk'], p['an'], p['ov'], p['lag'], p['dk'], p['dv']) for p in f['params']]
                                 for f in t['d']['funcs']][:2],
                        ctl=o['ctl'][:24], names=o['names'][:12],
                        control_units=[(u['c'], u['r'], u['s'], u['no']) for u in o['units'] if 'Control' in u['c']][:8]))
    ctx.cov['rule'] = ('every request TLC generates within the slices %s (full product annotation x rates entry x default '
                       'shape for 1 parameter, reduced products for 2-3 parameters, value-oriented defaults (0, 0.0, False, '
                       'True, negative, = spec default, zero tuples) x spec present/absent, prepend 0-2, wrap trees of up to '
                       '%d functions, 0-2 variants, spec defaults) plus %d simulated long requests (12-40 parameters); '
                       'every third request with renamed parameters; 3 calls per request; non-trivial = two control '
                       'parameters differing in rate group/width, or wrap/prepend/lag list/variant/spec present'
                       % (sorted(per_slice), 4 if thorough else 3, len(sims)))
    ctx.cov['exhaustive'] = True
    ctx.assumptions += ['numbers are multiples of 1/8 (exact in float32); default values, lags and buses are distinct',
                        'harness/scgf_ctl.py decodes SCgf v2 as documented in the SuperCollider file-format reference',
                        'parameter kinds other than POSITIONAL_OR_KEYWORD and defaults other than numbers/None/flat '
                        'tuples are refused by the library and outside the quantifier',
                        'the order of control units in the file and of name-table entries is not demanded by the '
                        'property (checked as sets); the exact unit grouping is checked as drift only']


def replay(ctx, rp):
    rep = rp['replay']
    case = dict(id=0, d=rep['d'], calls=rep.get('calls', []))
    traces = run_cases(ctx, [case])
    n = judge(ctx, traces, l2=False)
    ctx.cov['evaluations'] = 1
    ctx.sample(dict(request=rep['d']['funcs'], rejected=n))


MANIFEST = dict(
    category='model_checking',
    text=('Controls.tla defines the layout declaratively (slot = channels of all parameters laid out before: earlier '
          'function, earlier rate group ir<tr<ar<kr, earlier declaration), the default array, name table, per-slot '
          'source (unit class, rate, lag), wiring, variant overlay and call mapping. TLC generates all definition '
          'requests of each slice and proves tiling/ordering/L2-units-cover-L1 on them; each request is built by the '
          'real SynthDef from synthesised Python functions whose bodies route every parameter channel to a distinct bus; '
          'TLC validates decoded bytes, received signals, variant blocks and the /s_new pairs of SynthDef.__call__ '
          '(NRT score) against the layout; every definition object is serialised repeatedly (as_bytes / write / store) and '
          'each serialisation must be the same function of the request, refused variants leaving no trace. Long requests (<=40 parameters, LagControl clumps) come from TLC -simulate.'),
    note=('Decided: build result for every generated request (bounded exhaustively for <=2 parameters over the stated '
          'alphabets, <=3 with reduced alphabets, sampled beyond); default values include 0, 0.0, False/True, negatives and the '
          'spec default itself, with and without a metadata spec (an explicit default always wins). Not decided: defaults '
          'outside the 1/8 lattice, NaN/complex defaults, NamedControl-style add_name controls, the server-side effect of lag values, positional arguments '
          'beyond the graph function\'s own parameters. Unit order in the file and exact grouping of control units are not '
          'part of the property (the latter is reported as drift).'),
    technique='TLA+ layout spec as generator and oracle (TLC enumeration + simulation) + batch trace validation of real SynthDef builds and NRT calls',
    design_ref='DESIGN.md section 3 / C04',
    engine='Controls',
)
