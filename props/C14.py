"""C14 - events resolve their keys and play as correctly timed server commands.

Decided by: Event.tla (key chains with explicit-key precedence; the bundles a note event sends; event patterns ->
event streams -> timed score) + EventModel.tla (TLC enumerates events over key subsets and small compositions of
Pbind/Pmono/Ppar/Pchain/Pdur/Pdelta/Pseq, checks laws of the oracle on them and exports them).  Binding S->C:
every exported event / program is run on the real code in NRT mode (event(key) lookups; EventStreamPlayer +
main.process() score); C->S: the projected observations are validated by TraceEvent.tla (TLC computes the expected
values / score and compares bundle by bundle).  Seeded random events and programs go through the same validation."""
import json
import os
import random

from harness.common import MachineryError

DRIVER = 'drivers/c14_events.py'
JVM = {'JAVA_TOOL_OPTIONS': '-Xss64m'}


def V(n):
    return {'n': n, 's': '', 'r': False}


def VS(s):
    return {'n': 0, 's': s, 'r': False}


def VR(n):
    return {'n': n, 's': '', 'r': True}


def show_ev(ev):
    if not isinstance(ev, dict):
        return '{}'
    return '{' + ', '.join('%s:%s' % (k, (v['s'] or v['n']) if not v['r'] else 'Rest(%s)' % v['n'])
                           for k, v in sorted(ev.items()) if k != '_') + '}'


def show(E):
    t = E['t']
    if t in ('bind', 'mono'):
        ks = ','.join('%s=%s%s' % (kd['k'], kd['m'][0], [(v['s'] or v['n']) if not v['r'] else 'R%s' % v['n'] for v in kd['vs']])
                      for kd in E['ks'])
        return '%s%s(%s%s)' % (t, '_artic' if E.get('ar') else '', (E.get('s', '') + ';') if t == 'mono' else '', ks)
    if t in ('seq', 'par', 'chain'):
        return '%s(%s)' % (t, ', '.join(show(x) for x in E['l']))
    return '%s(%s%s, %s)' % (t, E['x'], (' tol %s' % E['tl']) if E.get('tl') else '', show(E['p']))


def kinds(E, acc=None):
    acc = [] if acc is None else acc
    acc.append(E['t'])
    for x in E.get('l', []):
        kinds(x, acc)
    if 'p' in E:
        kinds(E['p'], acc)
    return acc


# ------------------------------------------------------------------ seeded random generators (structure only)
class Gen:
    def __init__(self, rnd):
        self.r = rnd

    def event(self):
        r = self.r
        ev = {}
        main = r.choice(['none', 'degree', 'degree', 'note', 'midinote', 'freq', 'two'])
        if main in ('degree', 'two'):
            ev['degree'] = V(64 * r.randint(-9, 12))
        if main == 'note':
            ev['note'] = V(64 * r.randint(-5, 14))
        if main in ('midinote', 'two') and r.random() < 0.7:
            ev['midinote'] = V(r.choice([64 * r.randint(36, 90), 32 * r.randint(100, 160)]))
        if main == 'freq':
            ev['freq'] = V(r.choice([440 * 8, 880 * 8, 1765, 3001, 8 * 330]))
        for k, vals in (('mtranspose', [64, -64, 128]), ('gtranspose', [128, -192, 32]), ('root', [192, -64]),
                        ('octave', [192, 256, 384, 448]), ('ctranspose', [64, 32, -768]),
                        ('harmonic', [16, 4, 32, 24]), ('detune', [8, 32, -16])):
            if r.random() < 0.3:
                ev[k] = V(r.choice(vals))
        if r.random() < 0.25:
            ev['scale'] = VS(r.choice(['minor', 'penta', 'chromatic', 'whole', 'major']))
        for k, vals in (('amp', [512, 256, 1024, 64]), ('db', [-40, -20, 0, 20]), ('velocity', [0, 1, 64, 100, 127])):
            if r.random() < 0.25:
                ev[k] = V(r.choice(vals))
        for k, vals in (('dur', [4, 8, 16, 24, 64, 96]), ('stretch', [16, 32, 64, 48]), ('legato', [8, 16, 32, 48, 64]),
                        ('delta', [8, 24, 40]), ('sustain', [4, 8, 40, 80])):
            if r.random() < 0.3:
                ev[k] = V(r.choice(vals))
        return ev

    def bind(self, endless=False, instrument=None):
        r = self.r
        n = r.randint(1, 5)
        ks = [dict(k='instrument', vs=[VS(instrument or r.choice(['vg', 'vn', 'vx', 'vg', 'vp']))], m='k', x=0)]
        pk = r.choice(['midinote', 'degree', 'freq', 'note', 'none'])

        def lst(k, f, rests=False):
            if endless and r.random() < 0.7 or r.random() < 0.3:
                return dict(k=k, vs=[f()], m='k', x=0)
            return dict(k=k, vs=[VR(0) if (rests and r.random() < 0.15) else f() for _ in range(n)], m='list', x=0)
        if pk == 'midinote':
            ks.append(lst('midinote', lambda: V(64 * r.randint(40, 90)), True))
            if r.random() < 0.3:
                ks.append(lst('ctranspose', lambda: V(r.choice([64, 32, 768]))))
        elif pk == 'degree':
            ks.append(lst('degree', lambda: V(64 * r.randint(-7, 10)), True))
            for k, vals in (('mtranspose', [64, -128]), ('root', [128]), ('octave', [256, 384]), ('gtranspose', [64])):
                if r.random() < 0.25:
                    ks.append(lst(k, lambda vals=vals: V(r.choice(vals))))
            if r.random() < 0.2:
                ks.append(dict(k='scale', vs=[VS(r.choice(['minor', 'penta', 'whole']))], m='k', x=0))
        elif pk == 'freq':
            ks.append(lst('freq', lambda: V(r.choice([440 * 8, 220 * 8, 1765, 2 * 1765, 8 * 100])), True))
            if r.random() < 0.4:
                ks.append(lst('detune', lambda: V(r.choice([8, 16, -8]))))
        elif pk == 'note':
            ks.append(lst('note', lambda: V(64 * r.randint(-3, 14))))
        if r.random() < 0.3:
            ks.append(lst('harmonic', lambda: V(r.choice([16, 8, 4]))))
        durs = r.choice([[4, 8, 12, 16, 24, 32], [4, 8, 12, 16, 24, 32], [3, 5, 6, 10, 9, 7]])     # the second kind is off the 0.001 s grid
        c = r.random()
        if c < 0.15 and not endless:
            ks.append(dict(k='dur', vs=[V(r.choice(durs)) for _ in range(n)], m='pconst', x=r.choice([12, 20, 40, 64])))
        elif c < 0.3 and not endless:
            ks.append(dict(k='dur', vs=[VR(r.choice(durs)) if r.random() < 0.25 else V(r.choice(durs)) for _ in range(n)], m='list', x=0))
        else:
            ks.append(lst('dur', lambda: V(r.choice(durs))))
        if r.random() < 0.85:
            ks.append(lst('legato', lambda: V(r.choice([8, 16, 32, 40, 64]))))
        if r.random() < 0.2:
            ks.append(lst('stretch', lambda: V(r.choice([16, 64]))))
        if r.random() < 0.15:
            ks.append(lst('sustain', lambda: V(r.choice([4, 20, 48]))))
        for k, vals in (('amp', [512, 256, 128]), ('pan', [-1024, 0, 512]), ('out', [0, 2048]), ('cutoff', [1024 * 500, 1024 * 2000])):
            if r.random() < 0.3:
                ks.append(lst(k, lambda vals=vals: V(r.choice(vals))))
        if r.random() < 0.1:
            ks.append(dict(k='add_action', vs=[VS(r.choice(['addToTail', 'addToHead']))], m='k', x=0))
        if r.random() < 0.08:
            ks.append(dict(k='send_gate', vs=[V(0)], m='k', x=0))
        if endless:     # every key constant, nothing wrapped in Rest
            ks = [dict(kd, m='k', x=0, vs=[V(kd['vs'][0]['n']) if kd['vs'][0]['r'] else kd['vs'][0]]) for kd in ks]
        elif all(kd['m'] == 'k' for kd in ks):
            ks[-1] = dict(ks[-1], m='list', vs=[ks[-1]['vs'][0]] * n)
        return dict(t='bind', ks=ks)

    def mono(self, endless=False, artic=None):
        r = self.r
        artic = (r.random() < 0.5) if artic is None else artic
        b = self.bind(endless, instrument=r.choice(['vg', 'vn', 'vx']))
        ks = [kd for kd in b['ks'] if kd['k'] not in ('instrument', 'send_gate', 'add_action')]
        if artic:
            # explicit sustain / delta / legato keys that decide the slurs (and may disagree with one another)
            have = {kd['k'] for kd in ks}
            n = r.randint(2, 5)
            for k, vals in (('legato', [8, 16, 32, 40, 64]), ('sustain', [4, 12, 20, 40, 48]), ('delta', [4, 8, 16, 24, 40])):
                if k not in have and r.random() < 0.45:
                    ks.append(dict(k=k, vs=[V(r.choice(vals))], m='k', x=0) if endless or r.random() < 0.3 else
                              dict(k=k, vs=[V(r.choice(vals)) for _ in range(n)], m='list', x=0))
        else:
            # the first event of a plain voice must sound (a rest there is outside the spec)
            for kd in ks:
                if kd['vs'][0]['r']:
                    kd['vs'][0] = V(kd['vs'][0]['n'] or 64 * 60)
        inst = [kd for kd in b['ks'] if kd['k'] == 'instrument'][0]['vs'][0]['s']
        if not endless and all(kd['m'] == 'k' for kd in ks):     # a voice that is not under a Pdur must end
            ks[0] = dict(ks[0], m='list', vs=[ks[0]['vs'][0]] * self.r.randint(1, 4))
        return dict(t='mono', s=inst, ks=ks, ar=artic)

    def prog(self):
        r = self.r
        c = r.random()
        b = self.bind
        if c < 0.12:
            return b()
        if c < 0.22:
            return dict(t='seq', l=[b() for _ in range(r.randint(2, 3))])
        if c < 0.45:
            return dict(t='par', l=[b() if r.random() < 0.8 else dict(t='delta', x=r.choice([4, 12, 20]), p=b())
                                    for _ in range(r.randint(2, 4))])
        if c < 0.6:
            inner = b(endless=r.random() < 0.5) if r.random() < 0.5 else dict(t='par', l=[b(endless=r.random() < 0.4) for _ in range(2)])
            return dict(t='dur', x=r.choice([6, 12, 20, 30, 44, 64, 17, 23]), p=inner, tl=r.choice([0, 0, 0, 4, 8, 16, 2]))
        if c < 0.68:
            return dict(t='delta', x=r.choice([0, 4, 12]), p=b())
        if c < 0.8:
            over = dict(t='bind', ks=[dict(k=k, vs=[V(v)], m='k', x=0) for k, v in
                                     r.sample([('amp', 128), ('ctranspose', 64), ('legato', 16), ('stretch', 64), ('pan', 1024)], 2)])
            if r.random() < 0.35:
                # Ppar (or a sequence with one) as the LEFT operand: its children get a different input event at every step
                def child():
                    n = r.randint(1, 4)
                    return dict(t='bind', ks=[dict(k='instrument', vs=[VS(r.choice(['vg', 'vn', 'vx']))], m='k', x=0),
                                              dict(k='midinote', vs=[V(64 * r.randint(40, 90)) for _ in range(n)], m='list', x=0),
                                              dict(k='dur', vs=[V(r.choice([8, 16, 24, 32, 48]))], m='k', x=0) if r.random() < 0.6 else
                                              dict(k='dur', vs=[V(r.choice([8, 16, 24, 40])) for _ in range(n)], m='list', x=0)])
                left = dict(t='par', l=[child() for _ in range(r.randint(2, 3))])
                c2 = r.random()
                if c2 < 0.2:
                    left = dict(t='seq', l=[child(), left] if r.random() < 0.5 else [left, child()])
                elif c2 < 0.3:
                    left = dict(t='dur', x=r.choice([40, 64, 90]), p=left, tl=0)
                elif c2 < 0.4:
                    left = dict(t='delta', x=r.choice([4, 12]), p=left)
                m2 = r.randint(4, 12)
                keys = r.sample([('amp', [64, 128, 256, 512, 1024]), ('legato', [8, 16, 32, 48, 64]), ('pan', [-1024, -512, 0, 512]),
                                 ('stretch', [16, 32, 32, 64]), ('cutoff', [1024 * 300, 1024 * 900])], r.randint(1, 3))
                right = dict(t='bind', ks=[dict(k=k, vs=[V(r.choice(vals)) for _ in range(m2)], m='list', x=0) for k, vals in keys])
                return dict(t='chain', l=[left, right])
            return dict(t='chain', l=[over, b() if r.random() < 0.75 else self.mono()])
        if c < 0.84:
            return self.mono()
        if c < 0.88:
            return dict(t='seq', l=[self.mono(artic=True), b()])
        if c < 0.95:
            return dict(t='par', l=[self.mono(), b()])
        return dict(t='dur', x=r.choice([12, 20, 36]), p=self.mono(endless=True), tl=r.choice([0, 0, 8]))


# ------------------------------------------------------------------ running and judging
def run_cases(ctx, lookups, plays):
    n = max(len(lookups), len(plays))
    if not n:
        return []
    inputs = []
    for i in range(16):
        lk, pl = lookups[i::16], plays[i::16]
        if lk or pl:
            inputs.append(dict(lookups=lk, plays=pl))
    outs = ctx.run_drivers(DRIVER, inputs, mode='nrt')
    traces = [t for o in outs for t in o['traces']]
    if len(traces) != len(lookups) + len(plays):
        raise MachineryError('driver returned %d traces for %d cases' % (len(traces), len(lookups) + len(plays)))
    # a watchdog timeout may be the machine's load rather than the code: such plays are repeated alone with a
    # generous limit; only a play that still does not finish is recorded as not terminating
    late = [t['id'] for t in traces if t['kind'] == 'play' and t['exc'] == 'timeout']
    if late:
        byid = {p['id']: p for p in plays}
        again = {}
        for i in late[:3]:
            o = ctx.run_driver(DRIVER, dict(lookups=[], plays=[byid[i]], timeout=60.0), mode='nrt')
            again[i] = o['traces'][0]
        if late[3:] and len(late) <= 20 and all(t['exc'] != 'timeout' for t in again.values()):      # it was the load: repeat the rest too
            o = ctx.run_driver(DRIVER, dict(lookups=[], plays=[byid[i] for i in late[3:]], timeout=60.0), mode='nrt', timeout=3600)
            again.update({t['id']: t for t in o['traces']})
        traces = [again.get(t['id'], t) for t in traces]
        ctx.cov['plays_repeated_after_watchdog'] = ctx.cov.get('plays_repeated_after_watchdog', 0) + len(again)
    return traces


def judge(ctx, traces):
    verdicts = ctx.validate('TraceEvent', 'TraceEvent.cfg', traces, env=JVM, timeout=1500)
    nrej = 0
    for t in traces:
        v = verdicts[t['id']]
        if t['kind'] == 'lookup':
            if len(t['ev']) > 2:
                ctx.nontrivial(['lookup', show_ev(t['ev'])])
        else:
            ctx.nontrivial(['play', show(t['E']), t['start'], t['lat']])
        if v is None:
            continue
        at, why = v
        if why == 'undetermined':
            raise MachineryError('lookup outside the oracle generated: %s' % show_ev(t['ev']))
        nrej += 1
        if t['kind'] == 'lookup':
            o = t['obs'][at - 1]
            given = sorted(k for k in t['ev'] if k != '_')
            # signature: which lookup failed, and which explicit keys of *its* chain are present
            rel = {'freq': ('degree', 'note', 'midinote', 'freq', 'ctranspose', 'scale'),
                   'midinote': ('degree', 'note', 'midinote', 'scale'), 'note': ('degree', 'note', 'scale'),
                   'amp': ('amp', 'db', 'velocity'), 'delta': ('delta', 'dur', 'stretch'),
                   'sustain': ('sustain', 'dur', 'stretch', 'legato')}[o['key']]
            chain = [k for k in given if k in rel]
            ctx.violation('lookup:%s:%s:%s' % (o['key'], why, '+'.join(chain)),
                          'event%s("%s") disagrees with the documented key chain (%s): observed %s'
                          % (show_ev(t['ev']), o['key'], why, json.dumps(o)),
                          dict(kind='lookup', ev=t['ev'], keys=[x['key'] for x in t['obs']], rejected_at=at, why=why))
        else:
            ks = kinds(t['E'])
            keyset = {kd['k'] for b in _binds(t['E']) for kd in b['ks']}
            feature = 'mono' if 'mono' in ks else ks[0]
            # more specific input classes first (so that a listed finding does not hide other violations)
            if any(x['t'] == 'chain' and any(y['t'] == 'delta' and y['x'] > 0 for y in _nodes(x['l'][0])) for x in _nodes(t['E'])) \
                    and why in ('parameter-value', 'time'):
                feature = 'chain-left-delta'
            elif any(x['t'] == 'chain' and 'mono' in kinds(x['l'][1]) for x in _nodes(t['E'])) and why.startswith('parameter'):
                feature = 'chain-over-mono'
            elif 'scale' in keyset and (why.startswith('missing-bundle') or why == 'end-time'):
                feature = 'explicit-scale'
            elif any(v['r'] for b in _binds(t['E']) for kd in b['ks'] if kd['k'] == 'dur' for v in kd['vs']) \
                    and why.startswith(('missing-bundle', 'end-time', 'time')):
                feature = 'rest-dur'
            elif why == 'parameter-value' and 'ctranspose' in keyset and not ({'midinote', 'note', 'freq'} & keyset):
                feature = 'ctranspose-without-midinote'
            elif any(x['t'] == 'dur' and x['p']['t'] != 'par' for x in _nodes(t['E'])) and why.startswith('missing-bundle'):
                feature = 'dur-over-dicts'
            obs = t['score'][at - 1] if at - 1 < len(t['score']) else None
            ctx.violation('play:%s:%s' % (feature, why.split(':')[0]),
                          '%s played at %s/32 s, latency %s/32 s: score disagrees with the spec (%s) at bundle %d: observed %s %s'
                          % (show(t['E']), t['start'], t['lat'], why, at, json.dumps(obs)[:300], t['exc']),
                          dict(kind='play', E=t['E'], start=t['start'], lat=t['lat'], clock=t.get('clock', 'system'),
                               rejected_at=at, why=why, observed=t['score'][:at]))
    return nrej


def _binds(E):
    if E['t'] in ('bind', 'mono'):
        yield E
    for x in E.get('l', []):
        yield from _binds(x)
    if 'p' in E:
        yield from _binds(E['p'])


def _nodes(E):
    yield E
    for x in E.get('l', []):
        yield from _nodes(x)
    if 'p' in E:
        yield from _nodes(E['p'])


def load(path):
    out = []
    with open(path) as f:
        for line in f:
            if line.strip():
                out.append(json.loads(line))
    return out


def require_marks(r, names):
    for a in names:
        if '<<"ACT", "%s">>' % a not in r.output:
            raise MachineryError('vacuity: action %s never taken' % a)


def run(ctx):
    import time
    thorough = not ctx.quick
    rnd = random.Random(ctx.seed)
    phase = ctx.cov.setdefault('phase_s', {})
    t0 = time.time()
    pe, pp = os.path.join(ctx.work, 'ev.ndjson'), os.path.join(ctx.work, 'prog.ndjson')
    r = ctx.model_check('EventModel', 'EventModel_thorough.cfg' if thorough else 'EventModel_quick.cfg', timeout=1800,
                        env=dict(JVM, VERIF_EXPORT_EV=pe, VERIF_EXPORT_PROG=pp), label='enumeration + laws')
    ctx.expect_ok(r, 'EventModel')
    require_marks(r, ('PickEvent', 'PickProgram'))
    evs, progs = load(pe), load(pp)
    os.unlink(pe)
    os.unlink(pp)
    if len(evs) < 300 or len(progs) < 50:
        raise MachineryError('enumeration too small: %d events, %d programs' % (len(evs), len(progs)))
    if r.distinct < len(evs) + len(progs):
        raise MachineryError('model run did not visit every enumerated case')
    phase['model'] = round(time.time() - t0, 1)
    ctx.cov['enumerated_events'] = len(evs)
    ctx.cov['enumerated_programs'] = len(progs)

    lookups = [dict(id=i, ev=e['ev'], keys=e['keys']) for i, e in enumerate(evs)]
    g = Gen(rnd)
    allkeys = ['note', 'midinote', 'freq', 'amp', 'delta', 'sustain']
    nre = 20000 if thorough else 800
    for _ in range(nre):
        ev = g.event()
        keys = allkeys
        lookups.append(dict(id=len(lookups), ev=ev, keys=keys))
    starts = [(0, 0, 'system'), (8, 8, 'system'), (36, 4, 'system'), (32, 8, 'tempo'), (0, 16, 'tempo')]
    plays = []
    for p in progs:
        for (s, lat, clock) in (starts if thorough else [starts[len(plays) % 5], starts[(len(plays) + 2) % 5]]):
            plays.append(dict(id=10 ** 6 + len(plays), E=p, start=s, lat=lat, clock=clock))
    nrp = 25000 if thorough else 700
    for _ in range(nrp):
        s, lat, clock = rnd.choice(starts)
        plays.append(dict(id=10 ** 6 + len(plays), E=g.prog(), start=s, lat=lat, clock=clock))
    t1 = time.time()
    traces = run_cases(ctx, lookups, plays)
    byid = {p['id']: p for p in plays}
    for t in traces:
        if t['kind'] == 'play':
            t['clock'] = byid[t['id']]['clock']
    phase['drivers'] = round(time.time() - t1, 1)
    t1 = time.time()
    ctx.cov['evaluations'] += len(traces)
    judge(ctx, traces)
    phase['validation'] = round(time.time() - t1, 1)
    lk = [t for t in traces if t['kind'] == 'lookup']
    pl = [t for t in traces if t['kind'] == 'play']
    ctx.sample(dict(event=show_ev(lk[len(lk) // 2]['ev']), lookups={o['key']: [o['p64'], o['mn'], o['u']] for o in lk[len(lk) // 2]['obs']}))
    ctx.sample(dict(program=show(pl[-1]['E']), start32=pl[-1]['start'], bundles=len(pl[-1]['score'])))
    ctx.cov['rule'] = ('key lookups (note, midinote, freq, amp, delta, sustain) on every TLC-enumerated event (%d: pitch main key x '
                       'modifiers x scales, amplitude and duration key subsets) + %d seeded random events; every TLC-enumerated '
                       'program (%d compositions of Pbind/Pmono/Ppar/Pchain/Pdur/Pdelta/Pseq) played in NRT at %s (start, '
                       'latency, clock) settings + %d seeded random programs; non-trivial = event with >= 2 given keys, or any '
                       'played program; distinct by content' % (len(evs), nre, len(progs), 5 if thorough else 2, nrp))
    ctx.cov['exhaustive'] = True
    ctx.assumptions += ['times and durations are dyadic (multiples of 1/32 s) so float arithmetic is exact; default legato 0.8 projected with 1e-7 tolerance',
                        'MidiCps is symbolic except on 69+12k: observed frequencies are compared through the inverse map (cpsmidi) rounded to 1/64 semitone within 1e-7',
                        'equal-tempered 12-tone scales with octave ratio 2; integer degrees',
                        'NRT mode, tempo 1; fresh node id = an id not used by an earlier creation in the same score']


def replay(ctx, rp):
    q = rp['replay']
    if q['kind'] == 'lookup':
        traces = run_cases(ctx, [dict(id=0, ev=q['ev'], keys=q['keys'])], [])
    else:
        traces = run_cases(ctx, [], [dict(id=0, E=q['E'], start=q['start'], lat=q['lat'], clock=q.get('clock', 'system'))])
    ctx.cov['evaluations'] = 1
    nrej = judge(ctx, traces)
    ctx.sample(dict(replayed=q['kind'], rejected=bool(nrej)))


MANIFEST = dict(
    category='model_checking',
    text=('Event.tla defines (i) the key chains with explicit-key precedence (degree/scale/mtranspose/gtranspose/root/octave -> '
          'note -> midinote (+ctranspose) -> freq (*harmonic + detune); db or velocity -> amp; dur/stretch/legato -> delta/sustain), '
          '(ii) the bundles a note event sends (/s_new at logical time + latency with instrument, fresh id, add action, group and '
          '(control, value) pairs in description order; gate-off /n_set after sustain iff the instrument has a gate; rests nothing) and '
          '(iii) the event sequences of Pbind, Pmono (plain and articulated: slur iff sustain >= delta), Ppar (FIFO merge by absolute time), Pchain, Pdur/Pconst clipping, Pdelta, Pseq '
          '(Pchain with Pbind or Pseq/Pdelta/Pdur/Ppar-of-Pbinds as left operand: per-step input events) and the resulting time-ordered score. TLC enumerates events over key subsets and small programs, checks laws of the '
          'oracle, and every enumerated and seeded-random case is executed on the real code in NRT mode and validated by TLC '
          'bundle by bundle (times exact, ids by freshness/binding, parameters in order).'),
    note=('Not decided: MidiCps/DbAmp values off the exact lattice beyond a 1e-7 inverse-projection, non-equal-tempered tunings, '
          'fractional degrees, inverse chains (freq -> midinote -> degree), MIDI events, RT clocks, tempo other than 1, strum/lag/'
          'timing offset keys, plain Pmono voices whose first event is a rest, voices cut by a non-outermost Pdur. Trusted: TLC, the '
          'driver projections (rounding to the lattices stated in spec/Event.tla).'),
    technique='TLA+ oracle for key chains and event scores evaluated by TLC on enumerated and random events/programs + batch trace validation of NRT scores',
    design_ref='DESIGN.md section 3 / C14',
    engine='Event',
)
